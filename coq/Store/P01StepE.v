(** C01 proofs: composite reads (OGfcStart, OGfcSlice). *)
From Coq Require Import List NArith ZArith Bool Arith Lia Permutation.
From BBS Require Import Store.Model Store.Wf Store.P01Inv Store.P01Thr Store.P01StepA Store.P01StepC.
Import ListNotations.
Open Scope N_scope.

Section Steps.
Hypothesis I : iface.
Variable w : world.
Hypothesis Hwf : wf_config (w_cfg w) = true.
Let c := w_cfg w.

Definition gfc_tail (s : state) (tid p i : nat) (pl : loc) (pk : key) (nr : bool) : state * out :=
  match block_of_loc s pl with
  | None => (s, Bad)
  | Some b =>
      let s1 := pin s (b_uid b) in
      if nr then
        match ocn_put (w_cfg w) s1 (l_size pl) with
        | (Err e, s2) => (unpin (w_cfg w) s2 (b_uid b), Done e [])
        | (Ok wr, s2) =>
            let s3 :=
              if lockstep (w_cfg w) then s2
              else unpin (w_cfg w) (write_block s2 (wr_uid wr) (wr_off wr)
                                        (read_block s2 (b_uid b) (l_off pl) (l_size pl)))
                         (wr_uid wr) in
            (thr_set s3 tid (TGfc p i (b_uid b) pl (Some wr) pk), Parked)
        end
      else (thr_set s1 tid (TGfc p i (b_uid b) pl None pk), Parked)
  end.

Lemma gfc_tail_inv s tid p i ch pl nr :
  SInv w s -> thr_get (s_threads s) tid = None ->
  In (flat_key (w_cfg w) p i, pl) (s_index s) -> loc_valid s pl = true ->
  let r := gfc_tail s tid p i pl (flat_key (w_cfg w) p i) nr in
  SInv w (fst r) /\ read_ok w s (OGfcStart tid p i ch) (fst r) (snd r).
Proof.
  intros HS Hg Hin Hv. unfold gfc_tail, read_ok.
  pose proof (s_d _ _ HS) as HD.
  destruct (block_of_loc s pl) as [b|] eqn:Eb; [|cbn; split; [exact HS|split; [reflexivity|exact Logic.I]]].
  pose proof (i_pin_loc I w _ s _ pl b HD Hin Hv Eb) as HP. rewrite flat_key_fst in HP.
  pose proof (i_entry_size I w _ s _ pl HD Hin Hv) as Hsz. rewrite flat_key_fst in Hsz.
  cbv zeta. destruct nr.
  2:{ cbn [fst snd]. split; [|split; [reflexivity|exact Logic.I]].
      eapply sinv_set; [exact I|exact HS|reflexivity| |].
      - rewrite (claims_del_none w _ _ Hg). exact HP.
      - cbn [thread_ok refresh_ok]. auto. }
  destruct (ocn_put (w_cfg w) (pin s (b_uid b)) (l_size pl)) as [[wr|e] s2] eqn:Eo;
    destruct (i_ocn_put I w _ _ _ _ _ Hwf HP Eo) as [[F1 [_ F3]] H]; cbn [fst snd].
  2:{ destruct (unpin_frame (w_cfg w) s2 (b_uid b)) as [G1 G3]. split.
      - eapply sinv_same; [exact HS|exact (eq_trans G1 F1)|].
        exact (i_unpin I w (CR (b_uid b) pl p) _ s2 H (cref_cr _ _ _)).
      - split; [exact (eq_trans G3 F3)|]. intros X. exfalso. exact (ocn_put_err _ _ _ _ _ Eo X). }
  destruct H as [H Hws].
  split; [|split; [|exact Logic.I]].
  - eapply sinv_set; [exact I|exact HS| | |cbn [thread_ok refresh_ok]; auto].
    + destruct (lockstep (w_cfg w)); [exact F1|].
      destruct (unpin_frame (w_cfg w) (write_block s2 (wr_uid wr) (wr_off wr)
                   (read_block s2 (b_uid b) (l_off pl) (l_size pl))) (wr_uid wr)) as [G1 _].
      destruct (write_frame s2 (wr_uid wr) (wr_off wr) (read_block s2 (b_uid b) (l_off pl) (l_size pl))) as [G2 _].
      exact (eq_trans G1 (eq_trans G2 F1)).
    + rewrite (claims_del_none w _ _ Hg). cbn [claims_of_thread refresh_claims].
      destruct (lockstep (w_cfg w)); cbn [negb app].
      * eapply (i_perm I); [|exact H]. apply perm_swap.
      * rewrite (i_read_block_cr I w _ s2 (b_uid b) pl p H) by (right; left; reflexivity).
        eapply (i_perm I); [apply perm_swap|].
        eapply (i_cw_to_cu I); [|reflexivity|].
        -- apply write0_inv; [exact I|exact H|]. rewrite Hws, Hsz. apply N.le_refl.
        -- rewrite Hws, Hsz. reflexivity.
  - destruct (lockstep (w_cfg w)); [exact F3|].
    destruct (unpin_frame (w_cfg w) (write_block s2 (wr_uid wr) (wr_off wr)
                 (read_block s2 (b_uid b) (l_off pl) (l_size pl))) (wr_uid wr)) as [_ G1].
    destruct (write_frame s2 (wr_uid wr) (wr_off wr) (read_block s2 (b_uid b) (l_off pl) (l_size pl))) as [_ G2].
    exact (eq_trans G1 (eq_trans G2 F3)).
Qed.

Lemma step_gfc_start s tid p i ch :
  SInv w s ->
  let r := step w s (OGfcStart tid p i ch) in
  SInv w (fst r) /\ read_ok w s (OGfcStart tid p i ch) (fst r) (snd r).
Proof.
  intros HS. pose proof (s_d _ _ HS) as HD.
  assert (Triv : SInv w (fst (s, Bad)) /\ read_ok w s (OGfcStart tid p i ch) (fst (s, Bad)) (snd (s, Bad))).
  { cbn [fst snd]. split; [exact HS|]. split; [reflexivity|exact Logic.I]. }
  unfold step. cbn [may_take_refresh_lock is_corrupt andb].
  destruct (refresh_lock_held s); [exact Triv|].
  destruct (thr_get (s_threads s) tid) as [t0|] eqn:Hg; [exact Triv|].
  destruct (c_hier (w_cfg w)).
  - destruct (get_open w s p i) as [[t|e] s1] eqn:E;
      destruct (get_open_inv I w Hwf _ _ _ _ _ _ HD E) as [[F1 F2] H].
    + destruct H as [H1 [H2 [uid [l [rf [fk ->]]]]]]. cbn zeta. cbn [fst snd].
      split; [|split; [exact F2|exact Logic.I]].
      eapply sinv_set; [exact I|exact HS|exact F1| |exact H2].
      rewrite (claims_del_none w _ _ Hg). exact H1.
    + cbn zeta. cbn [fst snd]. split; [|split; [exact F2|exact Logic.I]].
      eapply sinv_set; [exact I|exact HS|exact F1| |exact Logic.I].
      rewrite (claims_del_none w _ _ Hg). exact H.
  - cbv zeta.
    destruct (index_get s (flat_key (w_cfg w) p i)) as [pl|] eqn:Ep.
    2:{ cbn [fst snd]. split; [exact HS|]. split; [reflexivity|]. intros X. discriminate X. }
    destruct (i_index_get_some I _ _ _ Ep) as [Hin Hv].
    destruct (needs_refresh s pl).
    { exact (gfc_tail_inv s tid p i ch pl true HS Hg Hin Hv). }
    destruct (index_get s (flat_key (w_cfg w) ch i)) as [cl0|] eqn:Ec.
    2:{ exact (gfc_tail_inv s tid p i ch pl false HS Hg Hin Hv). }
    destruct (block_of_loc s cl0) as [b|] eqn:Eb.
    2:{ exact (gfc_tail_inv s tid p i ch pl false HS Hg Hin Hv). }
    destruct (i_index_get_some I _ _ _ Ec) as [Hcin Hcv].
    pose proof (i_pin_loc I w _ s _ cl0 b HD Hcin Hcv Eb) as HP. rewrite flat_key_fst in HP.
    pose proof (i_entry_size I w _ s _ cl0 HD Hcin Hcv) as Hsz. rewrite flat_key_fst in Hsz.
    destruct (get_consume w (pin s (b_uid b)) ch (b_uid b) cl0 None []) as [[code bytes] s2] eqn:E.
    assert (Hok : thread_ok w (TGet ch (b_uid b) cl0 None [])).
    { cbn [thread_ok refresh_ok]. repeat split; auto. intros ? []. }
    destruct (get_consume_inv I w (claims (w_cfg w) s) (pin s (b_uid b)) ch (b_uid b) cl0 None [] code bytes s2 HP Hok E) as [[F1 F2] [H Hb]].
    cbn [fst snd]. split; [|split; [exact F2|exact Hb]].
    eapply sinv_same; [exact HS|exact F1|exact H].
Qed.

End Steps.
