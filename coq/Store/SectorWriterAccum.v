(** Store/SectorWriterAccum.v — [shared_sector_accumulates]: a shared-sector image holds,
    for every writer touching that sector, the bytes it has copied into it so far. *)
From Coq Require Import List Arith ZArith Bool Lia.
From BBS Require Import Store.SectorWriter Store.SectorWriterProofs Store.SectorWriterSpec
  Store.SectorWriterCommute Store.SectorWriterInv.
Import ListNotations.

Section Accum.
Variable c : cfg.
Hypothesis HS : 1 <= c_sector c.
Local Notation SS := (c_sector c).

(** byte [pos] (block-relative, inside t's range) has been copied into the image of its sector:
    first-sector bytes as soon as they are written, last-sector bytes at flush *)
Definition copied (t : thread) (pos : nat) : Prop :=
  (t_first0 t <> None /\ pos / SS = t_fs c t /\ pos - t_start t < length (t_data t)) \/
  (~ (t_first0 t <> None /\ pos / SS = t_fs c t) /\ pos / SS = t_end t / SS /\ t_status t = Flushed).

Definition acc (images : list image) (threads : list thread) : Prop :=
  forall id j t pos, id < length images -> nth_error threads j = Some t ->
    t_start t <= pos < t_end t -> pos / SS = isec images id -> copied t pos ->
    nth (pos mod SS) (img_data images id) 0%Z = nth (pos - t_start t) (t_data t) 0%Z.

Lemma isec_inj b images id id' :
  cinv c b images -> id < length images -> id' < length images ->
  isec images id = isec images id' -> id = id'.
Proof.
  intros (_ & C2 & _) H1 H2 E. destruct (lt_eq_lt_dec id id') as [[H|H]|H]; auto.
  - specialize (C2 id id' H H2). lia.
  - specialize (C2 id' id H H1). lia.
Qed.

Lemma ranges_disjoint lo s j k u t pos :
  ainv c lo s -> j <> k -> nth_error (st_threads s) j = Some u -> nth_error (st_threads s) k = Some t ->
  t_start u <= pos < t_end u -> ~ (t_start t <= pos < t_end t).
Proof.
  intros (_ & Hch & _) Hne Hj Hk Hu Ht. unfold t_end in *.
  destruct (lt_dec j k).
  - pose proof (chained_order _ _ _ _ _ _ Hch l Hj Hk) as (? & ? & ?). destruct Hu, Ht. lia.
  - assert (k < j) as l by lia. pose proof (chained_order _ _ _ _ _ _ Hch l Hk Hj) as (? & ? & ?). destruct Hu, Ht. lia.
Qed.

Lemma write_images images w p :
  fst (fst (write c images w p)) =
  match w_first w with
  | Some id => set_img images id (write_at (img_data images id) (w_firstoff w) p)
  | None => images
  end.
Proof.
  unfold write. destruct (w_first w); [|destruct (write_rest c w p); reflexivity].
  dif; [reflexivity|]. destruct (write_rest c _ _); reflexivity.
Qed.

Lemma pos_split pos : pos = pos / SS * SS + pos mod SS /\ pos mod SS < SS.
Proof. apply dm_eq. exact HS. Qed.

Lemma acc_alloc lo s size s' log :
  sinv c lo s -> acc (st_images s) (st_threads s) ->
  step c s (EAlloc size) = Some (s', log) -> acc (st_images s') (st_threads s').
Proof.
  intros (Ha & Hc & Ht) Hacc Hstep. cbn [step] in Hstep.
  destruct (has_space c (st_cur s) size); [|discriminate].
  destruct (alloc c (st_cur s) (st_images s) size) as [[[b' im'] w] start] eqn:Hal.
  inversion Hstep; subst; clear Hstep. cbn [st_images st_threads].
  pose proof (alloc_cases c HS _ _ _ _ _ _ _ Hal) as (Hst & Hw & Hwos & Hcases). cbv zeta in *.
  destruct Ha as (Hwf & Hch & Hce & _).
  intros id j t pos Hid Hj Hr Hsec Hcop.
  destruct (lt_dec j (length (st_threads s))) as [Hjl|Hjl].
  2:{ (* the new thread has copied nothing *)
    assert (j = length (st_threads s)).
    { assert (j < length (st_threads s ++ [
        {| t_w := w; t_start := start; t_size := size; t_data := []; t_first0 := w_first w; t_status := Active |}]))
        by (apply nth_error_Some; congruence). rewrite app_length in H. cbn in H. lia. }
    subst j. rewrite nth_error_app2, Nat.sub_diag in Hj by lia. cbn in Hj. inversion Hj; subst t; clear Hj.
    destruct Hcop as [(_ & _ & H)|(_ & _ & H)]; cbn in H; [lia|discriminate]. }
  rewrite nth_error_app1 in Hj by exact Hjl.
  pose proof (chained_bounds _ _ _ _ Hch Hj) as [_ Hb]. rewrite Hce in Hb. unfold cpos in Hb.
  assert (Hold : id < length (st_images s) -> im' = st_images s \/ (exists x, im' = st_images s ++ [x]) ->
                 nth (pos mod SS) (img_data im' id) 0%Z = nth (pos - t_start t) (t_data t) 0%Z).
  { intros Hlt [E|[x E]]; subst im'.
    - eapply Hacc; eauto.
    - rewrite img_data_app_old by exact Hlt. rewrite isec_app_old in Hsec by exact Hlt. eapply Hacc; eauto. }
  destruct Hcases as [(_ & _ & E)|[(_ & _ & _ & E)|(L0 & Hfresh & Sh' & E)]].
  - subst im'. apply Hold; auto.
  - subst im'. apply Hold; auto.
  - destruct (lt_dec id (length (st_images s))) as [Hlt|Hge]; [apply Hold; eauto|].
    exfalso. subst im'. rewrite app_length in Hid. cbn in Hid.
    assert (id = length (st_images s)) by lia. subst id. rewrite isec_app_new in Hsec. cbn in Hsec.
    destruct (pos_split pos) as [Ep Up]. unfold t_end in Hr.
    assert (Hoff : shared_off (st_cur s) < SS /\ (b_shared (st_cur s) = None -> shared_off (st_cur s) = 0)).
    { unfold shared_off, cursor_wf in *. destruct (b_shared (st_cur s)) as [[? ?]|]; split; try lia; congruence. }
    destruct Hoff as [Ho1 Ho2]. destruct Hfresh as [Hn|Hn]; [specialize (Ho2 Hn)|]; nia.
Qed.
Lemma acc_write lo s k t chunk s' log :
  sinv c lo s -> acc (st_images s) (st_threads s) ->
  nth_error (st_threads s) k = Some t ->
  step c s (EWrite k chunk) = Some (s', log) -> acc (st_images s') (st_threads s').
Proof.
  intros Hinv Hacc Hk Hstep. pose proof Hinv as (Ha & Hc & Ht).
  pose proof (Forall_nth_error _ _ _ _ Ht Hk) as Htk. pose proof Htk as (T1 & T2 & T3 & T4).
  cbn [step] in Hstep. rewrite Hk in Hstep. destruct (t_status t) eqn:Hst; try discriminate.
  destruct (Nat.leb_spec (length (t_data t) + length chunk) (t_size t)) as [Hn|Hn]; [|discriminate].
  pose proof (write_images (st_images s) (t_w t) chunk) as Him.
  destruct (write c (st_images s) (t_w t) chunk) as [[im w'] lg]. cbn [fst] in Him.
  inversion Hstep; subst s' log; clear Hstep. cbn [set_thread st_images st_threads].
  assert (Hklt : k < length (st_threads s)) by (apply nth_error_Some; congruence).
  destruct (t_start_eq c HS t) as [Est Ua]. pose proof Hc as (C1 & _).
  set (images := st_images s) in *. set (n := length (t_data t)) in *. set (m := length chunk) in *.
  intros id j u pos Hid Hj Hr Hsec Hcop. destruct (pos_split pos) as [Ep Up].
  unfold wphase in T4. cbv zeta in T4. unfold t_x in T4. fold n in T4.
  destruct (Nat.eq_dec j k) as [->|Hne].
  - rewrite nth_error_upd_eq in Hj by exact Hklt. inversion Hj; subst u; clear Hj.
    unfold copied, t_fs, t_end in Hcop, Hr. cbn [t_start t_data t_first0 t_status t_size] in *.
    destruct Hcop as [(F0ne & Hps & Hlt)|(_ & _ & Hfl)]; [|discriminate].
    rewrite app_length in Hlt. fold n m in Hlt. fold (t_fs c t) in Hps.
    destruct (t_first0 t) as [id0|] eqn:F0; [|congruence]. destruct T2 as (A0 & Hid0 & Hsec0).
    assert (Hold : pos - t_start t < n -> copied t pos).
    { intros. left. rewrite F0. repeat split; auto; congruence. }
    destruct (w_first (t_w t)) as [fid|] eqn:Hf.
    + destruct T4 as (F0' & Hx & Hfo & Hoff & Hp). inversion F0'; subst fid; clear F0'. subst im.
      rewrite set_img_length in Hid. rewrite isec_set_img in Hsec.
      assert (id = id0) by (eapply isec_inj; eauto; congruence). subst id.
      rewrite img_data_set_img_eq by exact Hid0. specialize (C1 id0 Hid0).
      destruct (lt_dec (pos - t_start t) n) as [Hlo|Hhi].
      * rewrite nth_write_at_out by (left; nia). rewrite app_nth1 by (fold n; lia).
        eapply Hacc; eauto; try (unfold t_end; lia); try (apply Hold; lia).
      * rewrite nth_write_at_in by (fold m; nia). rewrite app_nth2 by (fold n; lia). f_equal. fold n. nia.
    + destruct T4 as (Fge & _). specialize (Fge ltac:(congruence)). subst im.
      rewrite app_nth1 by (fold n; nia). eapply Hacc; eauto; try (unfold t_end; lia); try (apply Hold; nia).
  - rewrite nth_error_upd_ne in Hj by congruence.
    pose proof (ranges_disjoint _ _ _ _ _ _ pos Ha Hne Hj Hk Hr) as Hd. unfold t_end in Hd.
    destruct (w_first (t_w t)) as [fid|] eqn:Hf; subst im; [|eapply Hacc; eauto].
    destruct T4 as (F0' & Hx & Hfo & Hoff & Hp). rewrite F0' in T2. destruct T2 as (A0 & Hid0 & Hsec0).
    rewrite set_img_length in Hid. rewrite isec_set_img in Hsec.
    destruct (Nat.eq_dec fid id) as [->|Hni].
    + rewrite img_data_set_img_eq by exact Hid.
      rewrite nth_write_at_out; [eapply Hacc; eauto|].
      destruct (lt_dec (pos mod SS) (w_firstoff (t_w t))) as [|Hge]; [left; assumption|right].
      apply Nat.nlt_ge. intros Hlt. apply Hd. fold m in Hlt. unfold t_fs in *. nia.
    + rewrite img_data_set_img_ne by exact Hni. eapply Hacc; eauto.
Qed.
Lemma flush_images images w :
  fst (flush c images w) =
  match w_last w with
  | Some id => set_img images id (write_at (img_data images id) 0 (w_partial w))
  | None => images
  end.
Proof. unfold flush. destruct (w_last w); reflexivity. Qed.

Lemma acc_flush lo s k t s' log :
  sinv c lo s -> acc (st_images s) (st_threads s) ->
  nth_error (st_threads s) k = Some t ->
  step c s (EFlush k) = Some (s', log) -> acc (st_images s') (st_threads s').
Proof.
  intros Hinv Hacc Hk Hstep. pose proof Hinv as (Ha & Hc & Ht).
  pose proof (Forall_nth_error _ _ _ _ Ht Hk) as Htk. pose proof Htk as (T1 & T2 & T3 & T4).
  cbn [step] in Hstep. rewrite Hk in Hstep. destruct (t_status t) eqn:Hst; try discriminate.
  destruct (Nat.eqb_spec (length (t_data t)) (t_size t)) as [Hn|Hn]; [|discriminate].
  pose proof (flush_images (st_images s) (t_w t)) as Him.
  destruct (flush c (st_images s) (t_w t)) as [im lg]. cbn [fst] in Him.
  inversion Hstep; subst s' log; clear Hstep. cbn [set_thread st_images st_threads].
  assert (Hklt : k < length (st_threads s)) by (apply nth_error_Some; congruence).
  destruct (t_start_eq c HS t) as [Est Ua]. pose proof Hc as (C1 & _).
  destruct (dm_eq c HS (t_end t)) as [Ee Ue].
  assert (Hend : t_end t = t_fs c t * SS + t_a c t + t_size t) by (unfold t_end; lia).
  set (images := st_images s) in *.
  intros id j u pos Hid Hj Hr Hsec Hcop. destruct (pos_split pos) as [Ep Up].
  unfold wphase in T4. cbv zeta in T4. unfold t_x in T4. rewrite Hn in T4.
  (* the flush modifies only positions of the last sector that lie in t's own range *)
  assert (Hmod : forall idl, w_last (t_w t) = Some idl -> pos / SS = t_end t / SS ->
            pos mod SS < length (w_partial (t_w t)) -> t_start t <= pos < t_end t).
  { intros idl Hl Hps Hlt. destruct (w_first (t_w t)).
    - destruct T4 as (_ & _ & _ & _ & Hp). rewrite Hp in Hlt. cbn in Hlt. lia.
    - destruct T4 as (_ & Hr' & (pre & Hpre) & Hoff).
      assert (length (w_partial (t_w t)) <= t_size t) by (rewrite <- Hn, Hpre, app_length; lia).
      assert (w_off (t_w t) = c_base c + t_end t / SS) by nia.
      nia. }
  destruct (Nat.eq_dec j k) as [->|Hne].
  - rewrite nth_error_upd_eq in Hj by exact Hklt. inversion Hj; subst u; clear Hj.
    unfold copied, t_fs, t_end in Hcop, Hr. cbn [t_start t_data t_first0 t_status t_size] in *.
    fold (t_fs c t) in Hcop. fold (t_end t) in Hcop, Hr.
    destruct Hcop as [(F0ne & Hps & Hlt)|(Hnot & Hpe & _)].
    + destruct (t_first0 t) as [id0|] eqn:F0; [|congruence]. destruct T2 as (A0 & Hid0 & Hsec0).
      assert (Hcp : copied t pos) by (left; rewrite F0; repeat split; auto; congruence).
      destruct (w_last (t_w t)) as [idl|] eqn:Hl; subst im; [|eapply Hacc; eauto].
      rewrite set_img_length in Hid. rewrite isec_set_img in Hsec.
      destruct (Nat.eq_dec idl id) as [->|Hni]; [|rewrite img_data_set_img_ne by exact Hni; eapply Hacc; eauto].
      rewrite img_data_set_img_eq by exact Hid.
      destruct T3 as (E0 & Hidl & Hsecl).
      destruct (w_first (t_w t)).
      * destruct T4 as (_ & _ & _ & _ & Hp). rewrite Hp, write_at_nil. eapply Hacc; eauto.
      * destruct T4 as (Fge & _). specialize (Fge ltac:(congruence)). exfalso.
        assert (t_end t / SS = t_fs c t) by congruence. nia.
    + destruct (w_last (t_w t)) as [idl|] eqn:Hl.
      2:{ exfalso. nia. }
      subst im. destruct T3 as (E0 & Hidl & Hsecl).
      rewrite set_img_length in Hid. rewrite isec_set_img in Hsec.
      assert (id = idl) by (eapply isec_inj; eauto; congruence). subst id.
      rewrite img_data_set_img_eq by exact Hidl. specialize (C1 idl Hidl).
      destruct (w_first (t_w t)) as [fid|].
      * destruct T4 as (F0' & Hx & _). exfalso. apply Hnot. split; [congruence|].
        rewrite Hpe. unfold t_fs. symmetry. apply Nat.div_unique with (t_a c t + t_size t); [lia|].
        unfold t_fs in *. lia.
      * destruct T4 as (_ & Hr' & (pre & Hpre) & Hoff).
        set (r := length (w_partial (t_w t))) in *.
        assert (Hrs : r <= t_size t) by (rewrite <- Hn, Hpre, app_length; fold r; lia).
        assert (Hwo : w_off (t_w t) = c_base c + t_end t / SS) by nia.
        assert (Hrm : r = t_end t mod SS) by nia.
        assert (Hpl : length pre = t_size t - r) by (rewrite <- Hn, Hpre, app_length; fold r; lia).
        rewrite nth_write_at_in by (fold r; nia). rewrite Hpre, app_nth2 by nia. f_equal. nia.
  - rewrite nth_error_upd_ne in Hj by congruence.
    pose proof (ranges_disjoint _ _ _ _ _ _ pos Ha Hne Hj Hk Hr) as Hd.
    destruct (w_last (t_w t)) as [idl|] eqn:Hl; subst im; [|eapply Hacc; eauto].
    destruct T3 as (E0 & Hidl & Hsecl).
    rewrite set_img_length in Hid. rewrite isec_set_img in Hsec.
    destruct (Nat.eq_dec idl id) as [->|Hni]; [|rewrite img_data_set_img_ne by exact Hni; eapply Hacc; eauto].
    rewrite img_data_set_img_eq by exact Hid.
    rewrite nth_write_at_out; [eapply Hacc; eauto|]. right. cbn [Nat.add].
    apply Nat.nlt_ge. intros Hlt. apply Hd. eapply Hmod; eauto. congruence.
Qed.

Lemma acc_abandon s k t :
  acc (st_images s) (st_threads s) -> nth_error (st_threads s) k = Some t ->
  acc (st_images s)
      (upd (st_threads s) k {| t_w := t_w t; t_start := t_start t; t_size := t_size t; t_data := t_data t;
                               t_first0 := t_first0 t; t_status := Abandoned |}).
Proof.
  intros Hacc Hk id j u pos Hid Hj Hr Hsec Hcop.
  assert (Hklt : k < length (st_threads s)) by (apply nth_error_Some; congruence).
  destruct (Nat.eq_dec j k) as [->|Hne].
  - rewrite nth_error_upd_eq in Hj by exact Hklt. inversion Hj; subst u; clear Hj.
    cbn [t_start t_data] in *. eapply Hacc; eauto.
    destruct Hcop as [H|(_ & _ & H)]; [left; exact H|discriminate].
  - rewrite nth_error_upd_ne in Hj by congruence. eapply Hacc; eauto.
Qed.

Definition ainv2 (lo : nat) (s : state) : Prop := sinv c lo s /\ acc (st_images s) (st_threads s).

Lemma ainv2_step lo s e s' log : ainv2 lo s -> step c s e = Some (s', log) -> ainv2 lo s'.
Proof.
  intros [Hs Hacc] Hstep. split; [eapply sinv_step; eauto|].
  destruct e as [size|k ch|k|k]; [eapply acc_alloc; eauto| | |];
    (destruct (nth_error (st_threads s) k) as [t|] eqn:Hk;
     [|cbn in Hstep; rewrite Hk in Hstep; discriminate]).
  - eapply acc_write; eauto.
  - eapply acc_flush; eauto.
  - cbn [step] in Hstep. rewrite Hk in Hstep. destruct (t_status t); try discriminate.
    inversion Hstep; subst; clear Hstep. cbn [set_thread st_images st_threads]. apply acc_abandon; assumption.
Qed.

Lemma ainv2_run lo tr : forall s s', ainv2 lo s -> run c s tr = Some s' -> ainv2 lo s'.
Proof.
  induction tr as [|e tr IH]; intros s s' Hi Hr; cbn in Hr.
  - inversion Hr; subst; auto.
  - destruct (step c s e) as [[s1 l]|] eqn:Hs; [|discriminate].
    apply (IH s1 s'); [exact (ainv2_step _ _ _ _ _ Hi Hs)|exact Hr].
Qed.
End Accum.

Theorem shared_sector_accumulates_proof : forall c dev b0 tr s,
  1 <= c_sector c -> b_shared b0 = None ->
  run c (init_state dev b0) tr = Some s ->
  forall id j t pos, id < length (st_images s) -> nth_error (st_threads s) j = Some t ->
    t_start t <= pos < t_start t + t_size t ->
    pos / c_sector c = im_sec (nth id (st_images s) dimg) ->
    copied c t pos ->
    nth (pos mod c_sector c) (img_data (st_images s) id) 0%Z = nth (pos - t_start t) (t_data t) 0%Z.
Proof.
  intros c dev b0 tr s HS Hb Hr.
  assert (H0 : ainv2 c (cpos c b0) (init_state dev b0)).
  { split; [apply sinv_init; assumption|]. intros id j t pos _ Hj. destruct j; discriminate. }
  destruct (ainv2_run c HS _ tr _ _ H0 Hr) as [_ Hacc]. exact Hacc.
Qed.

(** the device write issued by [flush] carries the whole shared image as it is after the step *)
Lemma flush_writes_image c images w id :
  w_last w = Some id -> id < length images ->
  snd (flush c images w) =
  [(w_off w * length (img_data (fst (flush c images w)) id), img_data (fst (flush c images w)) id)].
Proof.
  intros Hl Hid. rewrite (flush_some c images w id Hl). cbn [fst snd].
  rewrite img_data_set_img_eq by exact Hid. reflexivity.
Qed.

(** the device write issued when [Write] completes the first sector carries the whole shared image *)
Lemma write_first_writes_image c images w p id :
  w_first w = Some id -> id < length images -> length (img_data images id) = c_sector c ->
  w_firstoff w < c_sector c -> c_sector c <= w_firstoff w + length p ->
  exists rest, snd (write c images w p) =
    (w_off w * c_sector c, img_data (fst (fst (write c images w p))) id) :: rest.
Proof.
  intros Hf Hid Hl Hx Hge. pose proof (write_first_long c images w p id Hf Hl Hx Hge) as H. cbv zeta in H.
  rewrite H. cbn [fst snd]. rewrite img_data_set_img_eq by exact Hid. eexists. reflexivity.
Qed.

(** every byte of a flushed writer that lies in its shared first sector or in its last sector
    is in the image of that sector, in every later state *)
Lemma completed_in_images : forall c dev b0 tr s id k t pos,
  1 <= c_sector c -> b_shared b0 = None ->
  run c (init_state dev b0) tr = Some s ->
  nth_error (st_threads s) k = Some t -> t_status t = Flushed -> length (t_data t) = t_size t ->
  id < length (st_images s) -> t_start t <= pos < t_start t + t_size t ->
  pos / c_sector c = im_sec (nth id (st_images s) dimg) ->
  (pos / c_sector c = t_start t / c_sector c /\ t_first0 t <> None \/
   pos / c_sector c = (t_start t + t_size t) / c_sector c) ->
  nth (pos mod c_sector c) (img_data (st_images s) id) 0%Z = nth (pos - t_start t) (t_data t) 0%Z.
Proof.
  intros c dev b0 tr s id k t pos HS Hb Hr Hk Hfl Hfull Hid Hrange Hsec Hwhere.
  assert (H0 : ainv2 c (cpos c b0) (init_state dev b0)).
  { split; [apply sinv_init; assumption|]. intros ? j ? ? _ Hj. destruct j; discriminate. }
  destruct (ainv2_run c HS _ tr _ _ H0 Hr) as [(_ & _ & Ht) Hacc].
  pose proof (Forall_nth_error _ _ _ _ Ht Hk) as (T1 & _).
  eapply Hacc; eauto. unfold copied, t_fs, t_end.
  destruct (Nat.eq_dec (pos / c_sector c) (t_start t / c_sector c)) as [E|E].
  - destruct (t_first0 t) eqn:F0.
    + left. repeat split; try congruence. 
      lia.
    + right. repeat split; auto; try tauto; destruct Hwhere as [[_ ?]|?]; congruence.
  - right. repeat split; auto; try tauto; destruct Hwhere as [[? _]|?]; congruence.
Qed.

(** a flushed writer has been given all its bytes *)
Definition flinv (s : state) : Prop :=
  Forall (fun t => t_status t = Flushed -> length (t_data t) = t_size t) (st_threads s).

Lemma flinv_step c s e s' log : flinv s -> step c s e = Some (s', log) -> flinv s'.
Proof.
  unfold flinv. intros H Hs. destruct e as [size|k ch|k|k]; cbn [step] in Hs.
  - destruct (has_space c (st_cur s) size); [|discriminate].
    destruct (alloc c (st_cur s) (st_images s) size) as [[[? ?] ?] ?].
    inversion Hs; subst; clear Hs. cbn. apply Forall_app. split; [exact H|].
    constructor; [cbn; discriminate|constructor].
  - destruct (nth_error (st_threads s) k) as [t|]; [|discriminate].
    destruct (t_status t); try discriminate. destruct (_ <=? _); [|discriminate].
    destruct (write c (st_images s) (t_w t) ch) as [[? ?] ?].
    inversion Hs; subst; clear Hs. cbn. apply Forall_upd; [exact H|cbn; discriminate].
  - destruct (nth_error (st_threads s) k) as [t|]; [|discriminate].
    destruct (t_status t); try discriminate.
    destruct (Nat.eqb_spec (length (t_data t)) (t_size t)) as [E|E]; [|discriminate].
    destruct (flush c (st_images s) (t_w t)) as [? ?].
    inversion Hs; subst; clear Hs. cbn. apply Forall_upd; [exact H|cbn; intros _; exact E].
  - destruct (nth_error (st_threads s) k) as [t|]; [|discriminate].
    destruct (t_status t); try discriminate.
    inversion Hs; subst; clear Hs. cbn. apply Forall_upd; [exact H|cbn; discriminate].
Qed.

Lemma flinv_run c tr : forall s s', flinv s -> run c s tr = Some s' -> flinv s'.
Proof.
  induction tr as [|e tr IH]; intros s s' Hi Hr; cbn in Hr.
  - inversion Hr; subst; auto.
  - destruct (step c s e) as [[s1 l]|] eqn:Hs; [|discriminate].
    apply (IH s1 s'); [exact (flinv_step _ _ _ _ _ Hi Hs)|exact Hr].
Qed.

Lemma completed_in_images_full : forall c dev b0 tr s id k t pos,
  1 <= c_sector c -> b_shared b0 = None ->
  run c (init_state dev b0) tr = Some s ->
  nth_error (st_threads s) k = Some t -> t_status t = Flushed ->
  id < length (st_images s) -> t_start t <= pos < t_start t + t_size t ->
  pos / c_sector c = im_sec (nth id (st_images s) dimg) ->
  (pos / c_sector c = t_start t / c_sector c /\ t_first0 t <> None \/
   pos / c_sector c = (t_start t + t_size t) / c_sector c) ->
  nth (pos mod c_sector c) (img_data (st_images s) id) 0%Z = nth (pos - t_start t) (t_data t) 0%Z.
Proof.
  intros c dev b0 tr s id k t pos HS Hb Hr Hk Hfl. eapply completed_in_images; eauto.
  assert (H0 : flinv (init_state dev b0)) by constructor.
  pose proof (flinv_run c tr _ _ H0 Hr) as Hf.
  exact (Forall_nth_error _ _ _ _ Hf Hk Hfl).
Qed.
