(** C01 proofs: [unpin] (dropping a block reference) preserves the invariant.
    The allocator part is proved against a relational description of the
    three shapes of the resulting state (use count of a listed block / of a
    zombie decremented; zombie removed and its region freed). *)
From Coq Require Import List NArith ZArith Bool Arith Lia Permutation ZifyN ZifyNat ZifyBool.
From BBS Require Import Store.Model Store.Wf Store.P01Inv Store.P01OpsB1.
Import ListNotations.
Open Scope N_scope.

(** ---- states that agree with [s] except for blocks, zombies, free list ---- *)
Definition same_but (s s' : state) (bl zb : list block) (fr : list nat) : Prop :=
  s_blocks s' = bl /\ s_zombies s' = zb /\ s_free s' = fr /\
  s_next_region s' = s_next_region s /\ s_next_uid s' = s_next_uid s /\ s_dev s' = s_dev s /\
  s_old s' = s_old s /\ s_cur s' = s_cur s /\ s_new s' = s_new s /\
  s_released s' = s_released s /\ s_tbr s' = s_tbr s /\ s_index s' = s_index s.

Ltac sb H := destruct H as (Eb & Ez & Ef & Enr & Enu & Ed & Eo & Ec & En & Er & Et & Ei).

Lemma uid_at_alt s abs :
  uid_at s abs = if abs <? s_released s then None
                 else option_map b_uid (nth_error (s_blocks s) (N.to_nat (abs - s_released s))).
Proof. reflexivity. Qed.

(** what [unpin] preserves, as seen by claims and index entries *)
Record UFrame (cl : list claim) (s s' : state) (uid : nat) : Prop := {
  f_rel : s_released s' = s_released s;
  f_tbr : s_tbr s' = s_tbr s;
  f_idx : s_index s' = s_index s;
  f_dev : s_dev s' = s_dev s;
  f_nuid : s_next_uid s' = s_next_uid s;
  f_len : length (s_blocks s') = length (s_blocks s);
  f_uid_at : forall abs, uid_at s' abs = uid_at s abs;
  f_other : forall u, u <> uid -> binfo s' u = binfo s u;
  f_this : binfo s' uid = binfo s uid \/
           (binfo s' uid = None /\ nrefs uid cl = 0%nat /\ forall abs, uid_at s abs <> Some uid);
}.

(** ---- shapes ---- *)
Definition shape (b : block) : nat * nat * N := (b_uid b, b_region b, b_cursor b).

Lemma shape_eq b b' :
  shape b = shape b' -> b_uid b = b_uid b' /\ b_region b = b_region b' /\ b_cursor b = b_cursor b'.
Proof. unfold shape. intros H. inversion H. auto. Qed.

Lemma shape_uid l l' : map shape l' = map shape l -> map b_uid l' = map b_uid l.
Proof.
  intros H.
  replace (map b_uid l') with (map (fun x => fst (fst x)) (map shape l')) by (rewrite map_map; reflexivity).
  rewrite H, map_map. reflexivity.
Qed.

Lemma shape_reg l l' : map shape l' = map shape l -> map b_region l' = map b_region l.
Proof.
  intros H.
  replace (map b_region l') with (map (fun x => snd (fst x)) (map shape l')) by (rewrite map_map; reflexivity).
  rewrite H, map_map. reflexivity.
Qed.

Lemma shape_in l l' b' :
  map shape l' = map shape l -> In b' l' -> exists b, In b l /\ shape b = shape b'.
Proof.
  intros H Hb. apply (in_map shape) in Hb. rewrite H in Hb.
  apply in_map_iff in Hb. destruct Hb as (b & E & Hb). exists b; auto.
Qed.

Lemma shape_find l l' u :
  map shape l' = map shape l -> option_map cr (find_uid u l') = option_map cr (find_uid u l).
Proof.
  revert l'; induction l as [|a l IH]; intros [|a' l']; simpl; try discriminate; [reflexivity|].
  intros H. assert (H1 : shape a' = shape a) by congruence.
  assert (H2 : map shape l' = map shape l) by congruence. apply shape_eq in H1. destruct H1 as (E1 & E2 & E3).
  rewrite E1. destruct (Nat.eqb (b_uid a) u).
  - simpl. unfold cr. now rewrite E2, E3.
  - now apply IH.
Qed.

Lemma map_uid_shape f u l :
  (forall b, shape (f b) = shape b) -> map shape (map_uid f u l) = map shape l.
Proof.
  intros Hf. induction l as [|a l IH]; simpl; [reflexivity|].
  destruct (Nat.eqb (b_uid a) u); simpl; [now rewrite Hf|now rewrite IH].
Qed.

Lemma map_uid_in f u l b' :
  In b' (map_uid f u l) -> In b' l \/ exists b, In b l /\ b_uid b = u /\ b' = f b.
Proof.
  induction l as [|a l IH]; simpl; [contradiction|].
  destruct (Nat.eqb (b_uid a) u) eqn:E.
  - intros [<-|H]; [|auto]. right. exists a. apply Nat.eqb_eq in E. auto.
  - intros [<-|H]; [auto|]. destruct (IH H) as [H'|(b & Hb & Hu & Hf)]; [auto|].
    right. exists b. auto.
Qed.

Definition dec_use (b : block) : block := set_use b (pred (b_use b)).

Lemma dec_use_shape b : shape (dec_use b) = shape b.
Proof. reflexivity. Qed.

(** how the use counts of a list relate to those of the list in [s] *)
Definition use_rel (uid : nat) (l l' : list block) : Prop :=
  forall b', In b' l' ->
    exists b, In b l /\ b_uid b' = b_uid b /\
              (b_use b' = b_use b \/ (b_uid b = uid /\ b_use b' = pred (b_use b))).

Lemma use_rel_refl uid l : use_rel uid l l.
Proof. intros b Hb. exists b. auto. Qed.

Lemma use_rel_dec uid l : use_rel uid l (map_uid dec_use uid l).
Proof.
  intros b' Hb'. destruct (map_uid_in _ _ _ _ Hb') as [H|(b & Hb & Hu & ->)].
  - exists b'. auto.
  - exists b. split; [exact Hb|]. split; [reflexivity|]. right. auto.
Qed.

(** ---- case: only use counts change ---- *)
Lemma shape_case cfg s s' cl c uid bl zb :
  AInv cfg s -> UInv (c :: cl) s -> cref uid c = 1%nat ->
  same_but s s' bl zb (s_free s) ->
  map shape bl = map shape (s_blocks s) -> map shape zb = map shape (s_zombies s) ->
  use_rel uid (s_blocks s) bl -> use_rel uid (s_zombies s) zb ->
  AInv cfg s' /\ UInv cl s' /\ UFrame cl s s' uid.
Proof.
  intros HA [HU1 HU2] Hc HS H1 H2 R1 R2. sb HS.
  assert (HL : map shape (live s') = map shape (live s)).
  { unfold live. rewrite Eb, Ez, !map_app, H1, H2. reflexivity. }
  assert (Hlen : length bl = length (s_blocks s)).
  { apply (f_equal (@length _)) in H1. now rewrite !map_length in H1. }
  assert (Hae : abs_end s' = abs_end s).
  { unfold abs_end. now rewrite Er, Eb, Hlen. }
  pose proof (fun b' => shape_in _ _ b' HL) as Hin.
  split; [|split].
  - constructor.
    + rewrite Eb, Eo, Ec, En, Hlen. apply (a_len _ _ HA).
    + rewrite Hae, Er, Et. apply (a_rel _ _ HA).
    + rewrite (shape_uid _ _ HL). apply (a_uid_nd _ _ HA).
    + intros b' Hb'. destruct (Hin b' Hb') as (b & Hb & E). apply shape_eq in E.
      destruct E as (E1 & E2 & E3). rewrite Enu, <- E1. apply (a_uid_lt _ _ HA _ Hb).
    + rewrite (shape_reg _ _ HL), Ef. apply (a_reg_nd _ _ HA).
    + intros Hm b' Hb'. destruct (Hin b' Hb') as (b & Hb & E). apply shape_eq in E.
      destruct E as (E1 & E2 & E3). rewrite Enr, <- E2. apply (a_reg_lt _ _ HA Hm _ Hb).
    + intros Hm. rewrite Ef. apply (a_free_im _ _ HA Hm).
    + intros b' Hb'. destruct (Hin b' Hb') as (b & Hb & E). apply shape_eq in E.
      destruct E as (E1 & E2 & E3). rewrite <- E3. apply (a_cur _ _ HA _ Hb).
    + intros b' Hb'. destruct (Hin b' Hb') as (b & Hb & E). apply shape_eq in E.
      destruct E as (E1 & E2 & E3). rewrite Ed, <- E2. apply (a_dev_live _ _ HA _ Hb).
    + rewrite Ef, Ed. apply (a_dev_free _ _ HA).
    + rewrite Ei, Hae. apply (a_idx _ _ HA).
  - constructor.
    + rewrite Eb. intros b' Hb'. destruct (R1 b' Hb') as (b & Hb & Eu & Hu).
      specialize (HU1 b Hb). rewrite nrefs_cons in HU1. rewrite Eu.
      destruct Hu as [Hu|[Hu Hu']]; [lia|]. rewrite Hu in *. lia.
    + rewrite Ez. intros b' Hb'. destruct (R2 b' Hb') as (b & Hb & Eu & Hu).
      specialize (HU2 b Hb). rewrite nrefs_cons in HU2. rewrite Eu.
      destruct Hu as [Hu|[Hu Hu']]; [lia|]. rewrite Hu in *. lia.
  - assert (Hbi : forall u, binfo s' u = binfo s u).
    { intros u. rewrite !binfo_alt, Eb, Ez, (shape_find _ _ u H1), (shape_find _ _ u H2). reflexivity. }
    constructor; auto.
    + now rewrite Eb.
    + intros abs. rewrite !uid_at_alt, Er, Eb, <- !nth_error_map, (shape_uid _ _ H1). reflexivity.
Qed.

(** ---- case: a zombie is removed ---- *)
Lemma filter_id {T} (p : T -> bool) l : (forall x, In x l -> p x = true) -> filter p l = l.
Proof.
  induction l as [|a l IH]; simpl; [reflexivity|]. intros H.
  rewrite (H a) by now left. f_equal. apply IH. intros x Hx. apply H. now right.
Qed.

Definition other (uid : nat) (z : block) : bool := negb (Nat.eqb (b_uid z) uid).

Lemma perm_filter_uid uid l b :
  NoDup (map b_uid l) -> find_uid uid l = Some b -> Permutation l (b :: filter (other uid) l).
Proof.
  induction l as [|a l IH]; simpl; [discriminate|]. intros Hnd.
  apply NoDup_cons_iff in Hnd. destruct Hnd as [Hni Hnd]. unfold other at 1.
  destruct (Nat.eqb (b_uid a) uid) eqn:E; simpl.
  - intros H; inversion H; subst. apply Nat.eqb_eq in E.
    rewrite filter_id; [reflexivity|].
    intros x Hx. unfold other. apply negb_true_iff, Nat.eqb_neq. intros Ex.
    apply Hni. rewrite E, <- Ex. now apply in_map.
  - intros H. specialize (IH Hnd H).
    eapply Permutation_trans; [apply perm_skip; exact IH|apply perm_swap].
Qed.

Lemma find_uid_filter_same uid l : find_uid uid (filter (other uid) l) = None.
Proof.
  apply find_uid_none_intro. intros b Hb. apply filter_In in Hb. destruct Hb as [_ Hb].
  unfold other in Hb. now apply negb_true_iff, Nat.eqb_neq in Hb.
Qed.

Lemma find_uid_filter_other uid u l :
  u <> uid -> find_uid u (filter (other uid) l) = find_uid u l.
Proof.
  intros Hne. induction l as [|a l IH]; simpl; [reflexivity|]. unfold other at 1.
  destruct (Nat.eqb (b_uid a) uid) eqn:E; simpl.
  - apply Nat.eqb_eq in E. destruct (Nat.eqb (b_uid a) u) eqn:E2; [|exact IH].
    apply Nat.eqb_eq in E2. congruence.
  - destruct (Nat.eqb (b_uid a) u); [reflexivity|exact IH].
Qed.

Lemma NoDup_app_r {T} (l l' : list T) : NoDup (l ++ l') -> NoDup l'.
Proof.
  induction l as [|a l IH]; simpl; [auto|]. intros H. apply NoDup_cons_iff in H. apply IH, H.
Qed.

Lemma remove_case cfg s s' cl c uid b :
  AInv cfg s -> UInv (c :: cl) s -> cref uid c = 1%nat ->
  find_uid uid (s_blocks s) = None -> find_uid uid (s_zombies s) = Some b -> (b_use b <= 1)%nat ->
  same_but s s' (s_blocks s) (filter (other uid) (s_zombies s))
           (if in_memory cfg then s_free s else s_free s ++ [b_region b]) ->
  AInv cfg s' /\ UInv cl s' /\ UFrame cl s s' uid.
Proof.
  intros HA [HU1 HU2] Hc E1 E2 Huse HS. sb HS.
  destruct (find_uid_some _ _ _ E2) as [Hbz Hbu].
  assert (Hndz : NoDup (map b_uid (s_zombies s))).
  { pose proof (a_uid_nd _ _ HA) as H. unfold live in H. rewrite map_app in H.
    eapply NoDup_app_r; eauto. }
  pose proof (perm_filter_uid _ _ _ Hndz E2) as Pz.
  assert (PL : Permutation (live s) (b :: live s')).
  { unfold live. rewrite Eb, Ez.
    eapply Permutation_trans; [apply Permutation_app_head; exact Pz|].
    apply Permutation_sym, Permutation_middle. }
  assert (Hsub : forall x, In x (live s') -> In x (live s)).
  { intros x Hx. eapply Permutation_in; [apply Permutation_sym; exact PL|now right]. }
  assert (Hbl : In b (live s)).
  { eapply Permutation_in; [apply Permutation_sym; exact PL|now left]. }
  assert (Hae : abs_end s' = abs_end s).
  { unfold abs_end. now rewrite Er, Eb. }
  split; [|split].
  - constructor.
    + rewrite Eb, Eo, Ec, En. apply (a_len _ _ HA).
    + rewrite Hae, Er, Et. apply (a_rel _ _ HA).
    + pose proof (Permutation_NoDup (Permutation_map b_uid PL) (a_uid_nd _ _ HA)) as H.
      simpl in H. now apply NoDup_cons_iff in H.
    + intros x Hx. rewrite Enu. apply (a_uid_lt _ _ HA _ (Hsub x Hx)).
    + assert (P : Permutation (map b_region (live s) ++ s_free s)
                              (b_region b :: map b_region (live s') ++ s_free s)).
      { apply (Permutation_app_tail (s_free s) (Permutation_map b_region PL)). }
      pose proof (Permutation_NoDup P (a_reg_nd _ _ HA)) as H.
      rewrite Ef. destruct (in_memory cfg).
      * now apply NoDup_cons_iff in H.
      * rewrite app_assoc. eapply Permutation_NoDup; [apply Permutation_cons_append|exact H].
    + intros Hm x Hx. rewrite Enr. apply (a_reg_lt _ _ HA Hm _ (Hsub x Hx)).
    + intros Hm. rewrite Ef, Hm. apply (a_free_im _ _ HA Hm).
    + intros x Hx. apply (a_cur _ _ HA _ (Hsub x Hx)).
    + intros x Hx. rewrite Ed. apply (a_dev_live _ _ HA _ (Hsub x Hx)).
    + rewrite Ef, Ed. intros r Hr. destruct (in_memory cfg).
      * apply (a_dev_free _ _ HA _ Hr).
      * apply in_app_iff in Hr. destruct Hr as [Hr|[<-|[]]].
        -- apply (a_dev_free _ _ HA _ Hr).
        -- right. apply (a_dev_live _ _ HA _ Hbl).
    + rewrite Ei, Hae. apply (a_idx _ _ HA).
  - constructor.
    + rewrite Eb. intros x Hx. specialize (HU1 x Hx). rewrite nrefs_cons in HU1. lia.
    + rewrite Ez. intros x Hx. apply filter_In in Hx. destruct Hx as [Hx _].
      specialize (HU2 x Hx). rewrite nrefs_cons in HU2. lia.
  - constructor; auto.
    + now rewrite Eb.
    + intros abs. now rewrite !uid_at_alt, Er, Eb.
    + intros u Hu. rewrite !binfo_alt, Eb, Ez, (find_uid_filter_other _ _ _ Hu). reflexivity.
    + right. split; [|split].
      * rewrite binfo_alt, Eb, Ez, E1, find_uid_filter_same. reflexivity.
      * specialize (HU2 b Hbz). rewrite nrefs_cons, Hbu in HU2. lia.
      * intros abs Ha. destruct (uid_at_in _ _ _ Ha) as (x & Hx & Hxu).
        exact (find_uid_none _ _ E1 x Hx Hxu).
Qed.

(** ---- unpin, allocator part and frame ---- *)
Lemma unpin_spec cfg s uid c cl :
  AInv cfg s -> UInv (c :: cl) s -> cref uid c = 1%nat -> binfo s uid <> None ->
  AInv cfg (unpin cfg s uid) /\ UInv cl (unpin cfg s uid) /\ UFrame cl s (unpin cfg s uid) uid.
Proof.
  intros HA HU Hc Hb. unfold unpin.
  destruct (find_uid uid (s_blocks s)) as [b0|] eqn:E1.
  - eapply shape_case with (bl := map_uid dec_use uid (s_blocks s)) (zb := s_zombies s); eauto.
    + repeat (split; [reflexivity|]); reflexivity.
    + apply map_uid_shape, dec_use_shape.
    + apply use_rel_dec.
    + apply use_rel_refl.
  - destruct (find_uid uid (s_zombies s)) as [b|] eqn:E2.
    + destruct (Nat.leb (b_use b) 1) eqn:El.
      * apply Nat.leb_le in El.
        eapply remove_case; eauto.
        destruct (in_memory cfg); repeat (split; [reflexivity|]); reflexivity.
      * eapply shape_case with (bl := s_blocks s) (zb := map_uid dec_use uid (s_zombies s)); eauto.
        -- repeat (split; [reflexivity|]); reflexivity.
        -- apply map_uid_shape, dec_use_shape.
        -- apply use_rel_refl.
        -- apply use_rel_dec.
    + exfalso. apply Hb. unfold binfo, find_block. now rewrite E1, E2.
Qed.

(** ---- consequences of the frame ---- *)
Section Frame.
Variables (w : world) (cl : list claim) (s s' : state) (uid : nat).
Hypothesis F : UFrame cl s s' uid.

Lemma fr_abs_end : abs_end s' = abs_end s.
Proof. unfold abs_end. now rewrite (f_rel _ _ _ _ F), (f_len _ _ _ _ F). Qed.

Lemma fr_loc_valid l : loc_valid s' l = loc_valid s l.
Proof. unfold loc_valid. now rewrite (f_rel _ _ _ _ F), (f_len _ _ _ _ F), (f_tbr _ _ _ _ F). Qed.

Lemma fr_binfo_listed abs u : uid_at s abs = Some u -> binfo s' u = binfo s u.
Proof.
  intros Hu. destruct (Nat.eq_dec u uid) as [->|Hne]; [|now apply (f_other _ _ _ _ F)].
  destruct (f_this _ _ _ _ F) as [H|(_ & _ & H)]; [exact H|]. exfalso. exact (H abs Hu).
Qed.

Lemma fr_binfo_ref c : In c cl -> cref (c_uid c) c = 1%nat -> binfo s' (c_uid c) = binfo s (c_uid c).
Proof.
  intros Hc Hr. destruct (Nat.eq_dec (c_uid c) uid) as [E|Hne]; [|now apply (f_other _ _ _ _ F)].
  destruct (f_this _ _ _ _ F) as [H|(_ & H & _)]; [now rewrite E|].
  pose proof (nrefs_zero_in _ _ _ H Hc) as H0. rewrite <- E in H0. lia.
Qed.

Lemma fr_binfo_some u x : binfo s' u = Some x -> binfo s u = Some x.
Proof.
  destruct (Nat.eq_dec u uid) as [->|Hne]; [|now rewrite (f_other _ _ _ _ F)].
  destruct (f_this _ _ _ _ F) as [H|(H & _)]; rewrite H; [auto|discriminate].
Qed.

Lemma fr_cu_ok wr o : cu_ok w s wr o -> cu_ok w s' wr o.
Proof.
  intros (H0 & H1 & H2 & H3). unfold cu_ok.
  rewrite fr_abs_end, (f_nuid _ _ _ _ F), (f_tbr _ _ _ _ F), (f_dev _ _ _ _ F), (f_uid_at _ _ _ _ F).
  split; [exact H0|]. split; [exact H1|]. split.
  - intros cur reg Hb. apply (H2 cur reg). now apply fr_binfo_some.
  - intros Ht. destruct (H3 Ht) as (cur & reg & Hu & Hb & Hd).
    exists cur, reg. rewrite (fr_binfo_listed _ _ Hu). auto.
Qed.

Lemma fr_claim_ok c : In c cl -> claim_ok w s c -> claim_ok w s' c.
Proof.
  intros Hc. destruct c as [wr acc|u l o|wr o]; cbn [claim_ok].
  - intros (cur & reg & H). exists cur, reg.
    rewrite fr_abs_end, (f_rel _ _ _ _ F), (f_dev _ _ _ _ F), (f_uid_at _ _ _ _ F).
    pose proof (fr_binfo_ref (CW wr acc) Hc (cref_self_cw wr acc)) as Hbb.
    cbn [c_uid] in Hbb. rewrite Hbb. exact H.
  - intros (cur & reg & H). exists cur, reg.
    rewrite (f_dev _ _ _ _ F).
    pose proof (fr_binfo_ref (CR u l o) Hc (cref_self_cr u l o)) as Hbb.
    cbn [c_uid] in Hbb. rewrite Hbb. exact H.
  - apply fr_cu_ok.
Qed.

Lemma fr_idx_ok k l : idx_ok w s k l -> idx_ok w s' k l.
Proof.
  intros (u & cur & reg & Hu & Hb & H). exists u, cur, reg.
  rewrite (f_dev _ _ _ _ F), (f_uid_at _ _ _ _ F), (fr_binfo_listed _ _ Hu). auto.
Qed.

Lemma CInv_frame : CInv w cl s -> CInv w cl s'.
Proof.
  intros [c1 c2 c3 c4]. constructor.
  - intros c Hc. apply fr_claim_ok; auto.
  - intros k l. rewrite (f_idx _ _ _ _ F), fr_loc_valid. intros Hi Hv. apply fr_idx_ok; auto.
  - exact c3.
  - intros wr acc k l. rewrite (f_idx _ _ _ _ F), fr_loc_valid, (f_uid_at _ _ _ _ F). apply c4.
Qed.
End Frame.

(** ---- the deliverables about unpin ---- *)
Lemma claim_ref_binfo w s c : cref (c_uid c) c = 1%nat -> claim_ok w s c -> binfo s (c_uid c) <> None.
Proof.
  destruct c as [wr acc|u l o|wr o]; cbn [claim_ok c_uid].
  - intros _ (cur & reg & H & _). congruence.
  - intros _ (cur & reg & H & _). congruence.
  - simpl. discriminate.
Qed.

Lemma unpin_inv : forall w c cl s,
  DInv w (c :: cl) s -> cref (c_uid c) c = 1%nat -> DInv w cl (unpin (w_cfg w) s (c_uid c)).
Proof.
  intros w c cl s [HA HU HC] Hr.
  assert (Hb : binfo s (c_uid c) <> None).
  { apply (claim_ref_binfo w); [exact Hr|]. apply (c_claims _ _ _ HC). now left. }
  destruct (unpin_spec _ _ _ _ _ HA HU Hr Hb) as (HA' & HU' & F).
  constructor; [exact HA'|exact HU'|].
  eapply CInv_frame; [exact F|]. eapply CInv_drop; eauto.
Qed.

Lemma cw_to_cu_inv : forall w cl s wr acc o,
  DInv w (CW wr acc :: cl) s -> acc = content w o -> N.of_nat (length acc) = wr_size wr ->
  DInv w (CU wr o :: cl) (unpin (w_cfg w) s (wr_uid wr)).
Proof.
  intros w cl s wr acc o [HA HU HC] Hacc Hlen.
  pose proof (c_claims _ _ _ HC _ (or_introl eq_refl)) as Hcw. cbn [claim_ok] in Hcw.
  destruct Hcw as (cur & reg & Hbi & Hle & _ & Hdat & Habs & Hlisted).
  assert (Hb : binfo s (wr_uid wr) <> None) by congruence.
  destruct (unpin_spec _ _ _ _ _ HA HU (cref_self_cw wr acc) Hb) as (HA' & HU' & F).
  set (s' := unpin (w_cfg w) s (wr_uid wr)) in *.
  pose proof (CInv_frame w _ _ _ _ F (CInv_drop _ _ _ _ HC)) as HC'.
  constructor; [exact HA'| |].
  - destruct HU' as [u1 u2]. constructor.
    + intros b Hx. rewrite nrefs_cons. simpl. now apply u1.
    + intros b Hx. rewrite nrefs_cons. simpl. now apply u2.
  - constructor.
    + intros c [<-|Hc]; [|now apply (c_claims _ _ _ HC')].
      cbn [claim_ok]. unfold cu_ok.
      rewrite (fr_abs_end _ _ _ _ F), (f_nuid _ _ _ _ F), (f_tbr _ _ _ _ F),
        (f_dev _ _ _ _ F), (f_uid_at _ _ _ _ F).
      split; [|split; [exact Habs|split]].
      * destruct (binfo_in _ _ _ _ Hbi) as (b & Hbl & Hbu & _). rewrite <- Hbu.
        apply (a_uid_lt _ _ HA _ Hbl).
      * intros cur' reg' Hb'. apply (fr_binfo_some _ _ _ _ F) in Hb'.
        rewrite Hbi in Hb'. inversion Hb'; subst. exact Hle.
      * intros Ht. pose proof (a_rel _ _ HA) as [Hrel _].
        assert (Hu : uid_at s (wr_abs wr) = Some (wr_uid wr)) by (apply Hlisted; lia).
        exists cur, reg. rewrite (fr_binfo_listed _ _ _ _ F _ _ Hu).
        split; [exact Hu|]. split; [exact Hbi|]. rewrite <- Hlen, <- Hacc. exact Hdat.
    + exact (c_idx _ _ _ HC').
    + split; [|exact (c_sep _ _ _ HC')].
      intros y Hy. pose proof (proj1 (c_sep _ _ _ HC) y Hy) as Hd.
      unfold cdisj in *. cbn [c_isw c_uid c_off c_size orb] in *.
      intros Hw. apply Hd. reflexivity.
    + intros wr' acc' k l [Hc|Hc]; [discriminate|]. now apply (c_sep_idx _ _ _ HC' wr' acc').
Qed.
