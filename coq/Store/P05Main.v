(** C05, part 8: preservation of the invariant, and the theorems. *)
From Coq Require Import List NArith ZArith Bool Arith Lia Relations.
From Coq Require Import ZifyN ZifyNat ZifyBool.
From BBS Require Import Common.Sx Store.Model Store.WfTids Run.RStore Run.R01 Run.R05.
From BBS Require Import Store.P05Cnt Store.P05Frame Store.P05Ops Store.P05Step Store.P05Surv Store.P05Mon Store.P05Inv.
Import ListNotations.
Open Scope nat_scope.

Lemma proj_thr_set s tid t : proj (thr_set s tid t) = proj s. Proof. reflexivity. Qed.
Lemma index_thr_set s tid t : s_index (thr_set s tid t) = s_index s. Proof. reflexivity. Qed.
Lemma proj_thr_rm s tid : proj (thr_rm s tid) = proj s. Proof. reflexivity. Qed.
Lemma index_thr_rm s tid : s_index (thr_rm s tid) = s_index s. Proof. reflexivity. Qed.

Lemma good_same w s s1 oi P0 T :
  proj s1 = proj s -> s_index s1 = s_index s -> good w s oi P0 T -> good w s1 oi P0 T.
Proof.
  intros P I (A & B & C). unfold good. rewrite P. split; [|auto].
  destruct A as (k & l & A1 & A2 & A3). exists k, l. rewrite I. auto.
Qed.

Lemma good_start w s oi T :
  s_negs s = 0 -> placed w s (fst oi) (snd oi) T -> kfresh (proj s) T -> good w s oi (s_pushbacks s) T.
Proof.
  intros N0 PL (F1 & F2 & F3). split; [exact PL|]. split; [exact F3|].
  pose proof (surv_start (w_cfg w) T (proj s) F1 F2) as SV. cbn [k_pb k_negs proj] in SV.
  rewrite N0 in SV. exact SV.
Qed.

Lemma live_getopen w seen s g tid o i s1 mo :
  Live w seen s g -> ~ In tid seen -> g_viol g = [] ->
  step w s (OGetOpen tid o i) = (s1, mo) -> s_negs s1 = 0 ->
  Inv w (tid :: seen) s1 (g05_step false w g (OGetOpen tid o i, (s, s1, mo))).
Proof.
  intros L NI V ES N1.
  pose proof (step_frame w s _ s1 mo (lv_kinv _ _ _ _ L) ES) as SFR.
  assert (LF : Live w (tid :: seen) s1 g).
  { eapply live_frame; eauto.
    - intros t E; inversion E; subst; exact NI.
    - apply incl_tl, incl_refl. }
  destruct (step_getopen w s tid o i s1 mo ES) as [[-> ->]|[(e & GE & ->)|(t & s0 & GO & -> & ->)]].
  - cbn. split; [exact V|right; exact LF].
  - apply get_open_spec in GE; [|apply (lv_kinv _ _ _ _ L)]. destruct GE as (F & HE & _).
    unfold g05_step. cbn [out_code].
    destruct (Z.eqb e cNotFound) eqn:EN; cbn [andb]; [|split; [exact V|right; exact LF]].
    apply Z.eqb_eq in EN.
    rewrite (not_lost w g s (o, i) (s_pushbacks s1)).
    + split; [exact V|right; exact LF].
    + apply (lv_negs _ _ _ _ L).
    + apply (lv_1 _ _ _ _ L).
    + destruct SFR as (R & _). apply creach_mono in R. unfold kmono in R. cbn in R. lia.
    + apply (HE e eq_refl EN).
  - apply get_open_spec in GO; [|apply (lv_kinv _ _ _ _ L)]. destruct GO as (F & _ & HP).
    specialize (HP t eq_refl). destruct HP as (uid & l0 & refresh & fkeys & -> & HP).
    unfold g05_step.
    split; [exact V|right].
    destruct LF as [L0 LK L1 L2 L3]. constructor; auto.
    + (* MI2 *)
      intros tid' oi P0 o' u l r f HA HT. cbn [g_gets g_setgets assoc] in HA.
      destruct (Nat.eqb tid' tid) eqn:ET.
      * apply Nat.eqb_eq in ET; subst tid'. inversion HA; subst oi P0; clear HA.
        rewrite thr_get_set, Nat.eqb_refl in HT. inversion HT; subst; clear HT.
        set (s1 := thr_set s0 tid (TGet o' u l r f)) in *.
        assert (N0 : s_negs s0 = 0) by exact N1.
        destruct r as [wr|].
        -- destruct HP as (HK & B1 & B2). split; [exact HK|]. split; [exact B2|].
           assert (TB : (k_tbr (proj s0) <= wr_abs wr)%N).
           { pose proof (ki_noneg _ _ LK) as X. cbn in X. specialize (X N1). cbn. cbn in B1. lia. }
           pose proof (surv_start (w_cfg w) (wr_abs wr) (proj s0) TB B1) as SV.
           cbn [k_pb k_negs proj] in SV. rewrite N0 in SV. exact SV.
        -- destruct HP as (T & PL & KF). exists T.
           apply (good_same w s0 s1); [reflexivity|reflexivity|].
           apply (good_start w s0 (o', i) T N0 PL KF).
      * apply (L2 tid' oi P0 o' u l r f); [exact HA|exact HT].
    + (* MI3 *)
      intros tid' H. cbn [g_gets g_setgets assoc] in H.
      destruct (Nat.eqb tid' tid) eqn:ET; [apply Nat.eqb_eq in ET; subst; left; reflexivity|].
      apply L3. exact H.
Qed.

Lemma live_weaken_gets w seen s g gets' :
  Live w seen s g ->
  (forall tid x, assoc gets' tid = Some x -> assoc (g_gets g) tid = Some x) ->
  Live w seen s (g_setgets g gets').
Proof.
  intros [L0 LK L1 L2 L3] H. constructor; auto.
  - intros tid oi P0 o u l r f HA HT. cbn [g_gets g_setgets] in HA. eapply L2; eauto.
  - intros tid HA. cbn [g_gets g_setgets] in HA. apply L3.
    destruct (assoc gets' tid) as [x|] eqn:E; [|congruence]. rewrite (H tid x E). discriminate.
Qed.

Lemma live_touch w seen s g oi P0 T :
  Live w seen s g -> good w s oi P0 T -> Live w seen s (g_touch g oi P0).
Proof.
  intros [L0 LK L1 L2 L3] G. constructor; auto.
  intros oi' P0' [E|H]; [inversion E; subst; exists T; exact G|apply L1; exact H].
Qed.

Lemma live_getconsume w seen s g tid s1 mo :
  Live w seen s g -> g_viol g = [] ->
  step w s (OGetConsume tid) = (s1, mo) -> s_negs s1 = 0 ->
  Inv w seen s1 (g05_step false w g (OGetConsume tid, (s, s1, mo))).
Proof.
  intros L V ES N1.
  pose proof (step_frame w s _ s1 mo (lv_kinv _ _ _ _ L) ES) as SFR.
  assert (LF : Live w seen s1 g).
  { eapply live_frame; eauto; [intros t E; inversion E|apply incl_refl]. }
  unfold g05_step.
  destruct (assoc (g_gets g) tid) as [[oi P0]|] eqn:EA; [|split; [exact V|right; exact LF]].
  assert (LW : Live w seen s1 (g_setgets g (unassoc (g_gets g) tid))).
  { apply live_weaken_gets; [exact LF|]. intros tid' x. apply assoc_unassoc. }
  destruct (out_ok mo) eqn:OK; [|split; [exact V|right; exact LW]].
  split; [exact V|right].
  destruct (step_getconsume w s tid s1 mo ES) as [[-> ->]|(o & u & l & r & f & code & bytes & s0 & HT & GC & -> & ->)];
    [discriminate|].
  cbn [out_ok] in OK. apply Z.eqb_eq in OK. subst code.
  apply get_consume_spec in GC. destruct GC as (F & HR).
  pose proof (lv_2 _ _ _ _ L tid oi P0 o u l r f EA HT) as M2.
  destruct SFR as (R & I & _).
  destruct r as [wr|].
  - destruct M2 as ((k & K1 & K2) & B & SV).
    destruct (HR eq_refl wr eq_refl) as (nl & A1 & A2 & A3).
    apply (live_touch w seen _ _ oi P0 (wr_abs wr)); [exact LW|].
    split; [exists k, nl; split; [exact K2|split; [apply A3; exact K1|exact A1]]|].
    split; [|eapply creach_surv; eauto].
    apply creach_mono in R. unfold kmono in R. lia.
  - destruct M2 as (T & G).
    apply (live_touch w seen _ _ oi P0 T); [exact LW|]. eapply good_frame; eauto.
Qed.

Lemma live_touch_all w seen s g missing stamp numbered :
  Live w seen s g ->
  (forall pos oi, In (pos, oi) numbered -> existsb (Nat.eqb pos) missing = false -> exists T, good w s oi stamp T) ->
  Live w seen s (g_touch_all missing stamp numbered g).
Proof.
  intros [L0 LK L1 L2 L3] H.
  destruct (touch_all_spec missing stamp numbered g) as (A & B & C & D).
  constructor; auto.
  - intros oi P0 Hx. destruct (D _ Hx) as [X|(pos & oi' & X1 & X2 & X3)]; [apply L1; exact X|].
    inversion X1; subst. eapply H; eauto.
  - intros tid oi P0 o u l r f HA HT. rewrite A in HA. eapply L2; eauto.
  - intros tid HA. rewrite A in HA. apply L3; exact HA.
Qed.

Lemma live_fm w seen s g ds s1 mo :
  Live w seen s g -> g_viol g = [] ->
  step w s (OFindMissing ds) = (s1, mo) -> s_negs s1 = 0 ->
  Inv w seen s1 (g05_step false w g (OFindMissing ds, (s, s1, mo))).
Proof.
  intros L V ES N1.
  pose proof (lv_kinv _ _ _ _ L) as K.
  pose proof (step_frame w s _ s1 mo K ES) as SFR.
  assert (LF : Live w seen s1 g).
  { eapply live_frame; eauto; [intros t E; inversion E|apply incl_refl]. }
  unfold g05_step.
  destruct (step_fm w s ds s1 mo ES) as [[-> ->]|[(e & FE & ->)|(m & FM & ->)]].
  - split; [exact V|right; exact LF].
  - apply find_missing_err in FE; [|exact K].
    destruct (Z.eqb e 0) eqn:E0; [apply Z.eqb_eq in E0; contradiction|]. split; [exact V|right; exact LF].
  - change (Z.eqb cOK 0) with true. cbv iota zeta. cbn [orb].
    apply find_missing_spec in FM; [|exact K]. destruct FM as (F & HM & HP).
    (* facts about intermediate states *)
    assert (MID : forall sm, frx (w_cfg w) s sm -> frx (w_cfg w) sm s1 ->
                   s_negs sm = 0 /\ MI1 w sm g /\ s_pushbacks s <= s_pushbacks sm <= s_pushbacks s1).
    { intros sm (R1 & I1 & _) (R2 & I2 & _).
      pose proof (creach_mono _ _ _ R1) as M1. pose proof (creach_mono _ _ _ R2) as M2.
      unfold kmono in M1, M2. cbn in M1, M2.
      split; [lia|]. split; [|lia].
      intros oi P0 Hx. destruct (lv_1 _ _ _ _ L oi P0 Hx) as [T G]. exists T. eapply good_frame; eauto. }
    assert (NL : existsb (fun '(pos, oi) => existsb (Nat.eqb pos) (sort_nat m) && g_lost w g oi (s_pushbacks s1)) (enumerate 0 ds) = false).
    { apply not_true_is_false. intros E. apply existsb_exists in E. destruct E as [[pos oi] [HI E]].
      apply andb_true_iff in E. destruct E as [E1 E2].
      rewrite existsb_eqb_in, sort_nat_in in E1.
      destruct (HM pos E1) as (o & i & sm & X1 & X2 & X3 & X4).
      assert (oi = (o, i)) by (eapply enumerate_fun; eauto). subst oi.
      destruct (MID sm X2 X3) as (Y1 & Y2 & Y3).
      rewrite (not_lost w g sm (o, i) (s_pushbacks s1)) in E2; [discriminate|exact Y1|exact Y2|lia|exact X4]. }
    rewrite NL. split.
    + destruct (touch_all_spec (sort_nat m) (if Nat.leb (length ds) 1 then s_pushbacks s1 else s_pushbacks s) (enumerate 0 ds) g) as (_ & _ & C & _).
      rewrite C. exact V.
    + right. apply live_touch_all; [exact LF|].
      intros pos [o i] HI HN.
      assert (NM : ~ In pos m).
      { intros X. apply (proj2 (sort_nat_in _ _)) in X. apply (proj2 (existsb_eqb_in _ _)) in X. congruence. }
      destruct (HP pos o i HI NM) as (sm & X2 & X3 & (T & PL & KF) & X4).
      destruct (MID sm X2 X3) as (Y1 & Y2 & Y3).
      exists T.
      pose proof (good_start w sm (o, i) T Y1 PL KF) as G.
      destruct X3 as (R3 & I3 & _).
      pose proof (good_frame w sm s1 (o, i) _ T R3 I3 G) as G1.
      destruct (Nat.leb (length ds) 1) eqn:EL.
      * apply Nat.leb_le in EL. rewrite <- (X4 EL). rewrite <- (X4 EL) in G1. exact G1.
      * destruct G1 as (A & B & C). split; [exact A|]. split; [exact B|].
        eapply surv_weaken; [|exact C]. lia.
Qed.

Lemma inv_step w seen s g e :
  Inv w seen s g ->
  (forall tid, start_tid e = Some tid -> ~ In tid seen) ->
  (is_corrupt e = false -> s_negs (fst (step w s e)) = s_negs s) ->
  Inv w (match start_tid e with Some t => t :: seen | None => seen end) (fst (step w s e))
      (g05_step false w g (e, (s, fst (step w s e), snd (step w s e)))).
Proof.
  intros [V [C|L]] FR NG.
  { destruct (dead_step w false g (e, (s, fst (step w s e), snd (step w s e))) C V) as [A B].
    split; [exact B|left; exact A]. }
  destruct (step w s e) as [s1 mo] eqn:ES. cbn [fst snd] in *.
  pose proof (lv_negs _ _ _ _ L) as N0.
  assert (GEN : is_corrupt e = false ->
                Live w (match start_tid e with Some t => t :: seen | None => seen end) s1 g).
  { intros IC. eapply live_frame; [exact L|eapply step_frame; [apply (lv_kinv _ _ _ _ L)|exact ES]| | |].
    - rewrite (NG IC). exact N0.
    - exact FR.
    - destruct (start_tid e); [apply incl_tl|]; apply incl_refl. }
  destruct e as [tid o i|tid data|tid err|tid o i|tid|ds|tid p i ch|tid slices|r off len];
    try (split; [exact V|right; exact (GEN eq_refl)]).
  - apply live_getopen; auto. rewrite (NG eq_refl); exact N0.
  - apply live_getconsume; auto. rewrite (NG eq_refl); exact N0.
  - apply live_fm; auto. rewrite (NG eq_refl); exact N0.
  - split; [exact V|left; reflexivity].
Qed.

Lemma inv_run w : forall es seen s g,
  Inv w seen s g -> wf_tids_from seen es = true -> integ w s es ->
  g_viol (fold_left (g05_step false w) (xs_of w s es) g) = [].
Proof.
  induction es as [|e t IH]; intros seen s g I WT IG.
  - destruct I as [V _]. exact V.
  - rewrite xs_of_cons. cbn [fold_left].
    cbn [wf_tids_from] in WT. cbn [integ] in IG.
    assert (FR : forall tid, start_tid e = Some tid -> ~ In tid seen).
    { intros tid E. rewrite E in WT. apply andb_true_iff in WT. destruct WT as [WT _].
      apply negb_true_iff in WT. intros HI. apply (proj2 (existsb_eqb_in tid seen)) in HI. congruence. }
    assert (NG : is_corrupt e = false -> s_negs (fst (step w s e)) = s_negs s).
    { intros E. rewrite E in IG. apply IG. }
    pose proof (inv_step w seen s g e I FR NG) as I1.
    destruct (is_corrupt e) eqn:IC.
    + (* after an injected corruption the bookkeeping stays switched off *)
      assert (D : g_corrupt (g05_step false w g (e, (s, fst (step w s e), snd (step w s e)))) = true).
      { destruct e; try discriminate. reflexivity. }
      destruct I1 as [V1 _].
      clear - D V1. revert D V1.
      generalize (g05_step false w g (e, (s, fst (step w s e), snd (step w s e)))).
      generalize (xs_of w (fst (step w s e)) t).
      induction l as [|x l IHl]; intros g0 D V1; cbn [fold_left]; [exact V1|].
      destruct (dead_step w false g0 x D V1) as [A B]. apply IHl; auto.
    + eapply IH; [exact I1| |apply IG].
      destruct (start_tid e); [apply andb_true_iff in WT; apply WT|exact WT].
Qed.

Lemma inv_init w : Inv w [] (init_state (w_cfg w)) g05_init.
Proof.
  split; [reflexivity|right]. constructor.
  - reflexivity.
  - apply kinv_init.
  - intros oi P0 [].
  - intros tid oi P0 o u l r f H; discriminate.
  - intros tid H; cbn in H; congruence.
Qed.

(** the early-stamping bookkeeping *)
Definition mon05_early (w : world) (es : list op) : list Z :=
  dedupZ (g_viol (fold_left (g05_step false w) (run_x w es) g05_init)).

Theorem early_monitor_silent w es :
  wf_tids es = true -> integ w (init_state (w_cfg w)) es -> mon05_early w es = [].
Proof.
  intros WT IG. unfold mon05_early.
  change (run_x w es) with (xs_of w (init_state (w_cfg w)) es).
  rewrite (inv_run w es [] _ _ (inv_init w) WT IG). reflexivity.
Qed.

(** clause 1 of the R05 monitor on the model = the early-stamping bookkeeping *)
Lemma fold_R_steps w : forall xs m g, R m g ->
  R (fold_left (m05m_step w) xs m) (fold_left (g05_step false w) xs g).
Proof. induction xs as [|x t IH]; intros m g H; cbn [fold_left]; [exact H|]. apply IH, R_step, H. Qed.

Lemma dedupZ_in z l : In z (dedupZ l) -> In z l.
Proof.
  induction l as [|x t IH]; cbn; [auto|].
  destruct (existsb (Z.eqb x) t); [intros H; right; auto|].
  intros [H|H]; [left; exact H|right; auto].
Qed.
Lemma dedupZ_nil l : dedupZ l = [] -> l = [].
Proof.
  induction l as [|x t IH]; cbn; [auto|].
  destruct (existsb (Z.eqb x) t) eqn:E; [|discriminate].
  intros H. specialize (IH H). subst t. discriminate.
Qed.

(** on the model's own observations, for ALL schedules: whatever the monitor
    reports is clause 5, clause 6, or a clause 1 that the early-stamping
    bookkeeping reports too; clauses 2, 3, 4 are never reported *)
Theorem mon05_model_clauses w es z :
  In z (mon05_model w es) -> (z = 1%Z /\ mon05_early w es <> []) \/ z = 5%Z \/ z = 6%Z.
Proof.
  intros H. unfold mon05_model in H. apply dedupZ_in in H.
  assert (R0 : R m05_init g05_init).
  { unfold R, V; cbn. repeat split; auto. intros ? []. }
  destruct (fold_R_steps w (run_x w es) _ _ R0) as (_ & _ & _ & D).
  destruct (D z H) as [[-> H1]|H1]; [|right; exact H1].
  left. split; [reflexivity|]. unfold mon05_early. intros E. apply dedupZ_nil in E. rewrite E in H1. destruct H1.
Qed.

Theorem model_satisfies_C05 w es :
  wf_tids es = true -> integ w (init_state (w_cfg w)) es ->
  forall z, In z (mon05_model w es) -> z = 5%Z \/ z = 6%Z.
Proof.
  intros WT IG z H. destruct (mon05_model_clauses w es z H) as [[_ N]|H1]; [|exact H1].
  exfalso. apply N. apply early_monitor_silent; assumption.
Qed.
