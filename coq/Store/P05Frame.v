(** C05, part 2: every step of the store model is a finite sequence of
    atomic counter moves (P05Cnt.v), never removes an index entry, and
    leaves parked readers alone.  Plus the specifications of the helper
    functions that the touch lemmas and the monitor proof need. *)
From Coq Require Import List NArith ZArith Bool Arith Lia Relations.
From Coq Require Import ZifyN ZifyNat ZifyBool.
From BBS Require Import Store.Model Store.WfTids Store.P05Cnt.
Import ListNotations.
Open Scope N_scope.

(** ---- small structural lemmas ---- *)
Lemma map_uid_length f uid l : length (map_uid f uid l) = length l.
Proof. induction l as [|b t IH]; cbn; [reflexivity|]. destruct (Nat.eqb (b_uid b) uid); cbn; congruence. Qed.

Definition ixt (s s' : state) : Prop := s_index s' = s_index s /\ s_threads s' = s_threads s.
Definition same (s s' : state) : Prop := proj s' = proj s /\ ixt s s'.
(** counters move by atoms; index and threads untouched *)
Definition fr (c : config) (s s' : state) : Prop := creach c (proj s) (proj s') /\ ixt s s'.

Lemma ixt_refl s : ixt s s. Proof. split; reflexivity. Qed.
Lemma ixt_trans a b d : ixt a b -> ixt b d -> ixt a d.
Proof. unfold ixt; intros [] []; split; congruence. Qed.
Lemma same_refl s : same s s. Proof. split; [reflexivity|apply ixt_refl]. Qed.
Lemma same_trans a b d : same a b -> same b d -> same a d.
Proof. unfold same; intros [] []; split; [congruence|eapply ixt_trans; eauto]. Qed.
Lemma same_fr c s s' : same s s' -> fr c s s'.
Proof. intros [H1 H2]; split; [apply creach_eq; auto|auto]. Qed.
Lemma fr_refl c s : fr c s s. Proof. apply same_fr, same_refl. Qed.
Lemma fr_trans c a b d : fr c a b -> fr c b d -> fr c a d.
Proof. unfold fr; intros [] []; split; [eapply creach_trans; eauto|eapply ixt_trans; eauto]. Qed.

Ltac fields := cbn [s_blocks s_zombies s_free s_next_region s_next_uid s_dev s_old s_cur s_new
                    s_released s_tbr s_attempts s_aidx s_index s_threads s_pushbacks s_negs
                    k_len k_old k_cur k_new k_rel k_tbr k_pb k_negs].

Lemma same_pin s uid : same s (pin s uid).
Proof. unfold same, ixt, proj, pin, upd_blocks; fields. rewrite map_uid_length. auto. Qed.

Lemma same_unpin c s uid : same s (unpin c s uid).
Proof.
  unfold unpin. destruct (find_uid uid (s_blocks s)).
  - unfold same, ixt, proj, upd_blocks; fields. rewrite map_uid_length. auto.
  - destruct (find_uid uid (s_zombies s)); [|apply same_refl].
    destruct (Nat.leb (b_use b) 1).
    + destruct (in_memory c); unfold same, ixt, proj, upd_free, upd_blocks; fields; auto.
    + unfold same, ixt, proj, upd_blocks; fields; auto.
Qed.

Lemma same_write_block s uid off data : same s (write_block s uid off data).
Proof.
  unfold write_block. destruct (find_block s uid); [|apply same_refl].
  unfold same, ixt, proj, upd_dev; fields; auto.
Qed.

Lemma same_upd_dev s d : same s (upd_dev s d).
Proof. unfold same, ixt, proj, upd_dev; fields; auto. Qed.

Lemma same_upd_alloc s a i : same s (upd_alloc s a i).
Proof. unfold same, ixt, proj, upd_alloc; fields; auto. Qed.

Lemma proj_upd_counts s o c n : proj (upd_counts s o c n) = k_counts (proj s) o c n.
Proof. reflexivity. Qed.
Lemma proj_reset_alloc s : proj (reset_alloc s) = proj s.
Proof. reflexivity. Qed.
Lemma ixt_upd_counts s o c n : ixt s (upd_counts s o c n). Proof. split; reflexivity. Qed.
Lemma ixt_reset_alloc s : ixt s (reset_alloc s). Proof. split; reflexivity. Qed.
Lemma ixt_upd_rel s r t : ixt s (upd_rel s r t). Proof. split; reflexivity. Qed.

Lemma proj_pop_front c s : proj (pop_front c s) = k_pop (proj s) /\ ixt s (pop_front c s).
Proof.
  unfold pop_front. destruct (s_blocks s) as [|b rest] eqn:E.
  - unfold k_pop, proj at 2. rewrite E. cbn. split; [reflexivity|apply ixt_refl].
  - unfold k_pop, proj at 2; fields. rewrite E. cbn [length].
    destruct (Nat.leb (b_use b) 1); [destruct (in_memory c)|];
      unfold ixt, proj, upd_free, upd_blocks, upd_rel; fields; auto.
Qed.

Lemma new_block_same c s b s' : new_block c s = Some (b, s') -> same s s' /\ s_blocks s' = s_blocks s.
Proof.
  unfold new_block. destruct (in_memory c).
  - intros H; inversion H; subst; clear H. unfold same, ixt, proj; fields; auto.
  - destruct (s_free s); [discriminate|]. intros H; inversion H; subst; clear H.
    unfold same, ixt, proj; fields; auto.
Qed.

Lemma proj_push_back c s s1 : push_back c s = Some s1 -> proj s1 = k_push (proj s) /\ ixt s s1.
Proof.
  unfold push_back. destruct (new_block c s) as [[b s']|] eqn:E; [|discriminate].
  apply new_block_same in E. destruct E as [[P [I1 I2]] B].
  intros H; inversion H; subst; clear H.
  unfold ixt, upd_blocks; fields. split; [|auto].
  unfold proj, k_push; fields. rewrite app_length, B. cbn [length].
  unfold proj in P. inversion P. f_equal; try congruence; lia.
Qed.

(** ---- findBlockWithSpace ---- *)
Lemma fbs_release_fr c fuel s : fr c s (fbs_release c fuel s).
Proof.
  revert s; induction fuel as [|f IH]; intros s; cbn [fbs_release]; [apply fr_refl|].
  destruct (s_released s <? s_tbr s) eqn:E; [|apply fr_refl].
  eapply fr_trans; [|apply IH].
  destruct (proj_pop_front c s) as [P I].
  assert (A : catom c (proj s) (k_dec (k_pop (proj s)))) by (apply ca_release; cbn; lia).
  split.
  - apply creach_atom.
    match goal with |- catom _ _ ?X => replace X with (k_dec (k_pop (proj s))) end; [exact A|].
    rewrite <- P. unfold k_dec. change (k_old (proj (pop_front c s))) with (s_old (pop_front c s)).
    change (k_cur (proj (pop_front c s))) with (s_cur (pop_front c s)).
    destruct (s_old (pop_front c s)); [destruct (s_cur (pop_front c s))|]; reflexivity.
  - eapply ixt_trans; [exact I|].
    destruct (s_old (pop_front c s)); [destruct (s_cur (pop_front c s))|]; split; reflexivity.
Qed.

Lemma fbs_grow_fr c fuel s b s' : fbs_grow c fuel s = (b, s') -> fr c s s'.
Proof.
  revert s; induction fuel as [|f IH]; intros s; cbn [fbs_grow].
  - intros H; inversion H; apply fr_refl.
  - destruct (grow_new c (s_cur s) (s_new s)); [|intros H; inversion H; apply fr_refl].
    destruct (push_back c s) as [s1|] eqn:E; [|intros H; inversion H; apply fr_refl].
    intros H. apply IH in H. eapply fr_trans; [|exact H].
    apply proj_push_back in E. destruct E as [P I]. split.
    + assert (O1 : s_old s1 = s_old s) by (change (k_old (proj s1) = k_old (proj s)); rewrite P; reflexivity).
      assert (C1 : s_cur s1 = s_cur s) by (change (k_cur (proj s1) = k_cur (proj s)); rewrite P; reflexivity).
      assert (N1 : s_new s1 = s_new s) by (change (k_new (proj s1) = k_new (proj s)); rewrite P; reflexivity).
      apply creach_atom. rewrite proj_upd_counts, P, O1, C1, N1. apply (ca_grow c (proj s)).
    + eapply ixt_trans; [exact I|apply ixt_upd_counts].
Qed.

Lemma fbs_rotate_fr c fuel size s b s' : fbs_rotate c fuel size s = (b, s') -> fr c s s'.
Proof.
  revert s; induction fuel as [|f IH]; intros s; cbn [fbs_rotate].
  - intros H; inversion H; apply fr_refl.
  - destruct (has_space c s (s_old s + s_cur s) size); [intros H; inversion H; apply fr_refl|].
    destruct (Nat.ltb (desired_new c) (s_new s)) eqn:D.
    + intros H. apply IH in H. eapply fr_trans; [|exact H]. split.
      * apply creach_atom. rewrite proj_reset_alloc, proj_upd_counts.
        apply (ca_shift c (proj s)). cbn. apply Nat.ltb_lt in D. lia.
      * eapply ixt_trans; [apply ixt_upd_counts|apply ixt_reset_alloc].
    + destruct (push_back c s) as [s1|] eqn:E; [|intros H; inversion H; apply fr_refl].
      intros H. apply IH in H. eapply fr_trans; [|exact H]. clear H.
      apply proj_push_back in E. destruct E as [P I].
      assert (O1 : s_old s1 = s_old s) by (change (k_old (proj s1) = k_old (proj s)); rewrite P; reflexivity).
      assert (C1 : s_cur s1 = s_cur s) by (change (k_cur (proj s1) = k_cur (proj s)); rewrite P; reflexivity).
      assert (N1 : s_new s1 = s_new s) by (change (k_new (proj s1) = k_new (proj s)); rewrite P; reflexivity).
      destruct (grow_cur c (s_cur s1)).
      * split.
        -- apply creach_atom. rewrite proj_reset_alloc, proj_upd_counts, P, O1, C1, N1. apply (ca_rot_cur c (proj s)).
        -- eapply ixt_trans; [exact I|]. eapply ixt_trans; [apply ixt_upd_counts|apply ixt_reset_alloc].
      * cbn [s_old upd_counts].
        destruct (Nat.ltb (c_old c) (S (s_old s1))) eqn:L.
        -- rewrite O1, C1, N1. set (s3 := upd_counts s1 (S (s_old s)) (s_cur s) (s_new s)).
           destruct (proj_pop_front c s3) as [PP IP].
           split.
           ++ apply creach_atom. rewrite proj_reset_alloc.
              match goal with |- catom _ _ ?X =>
                replace X with (let k4 := k_pop (k_counts (k_push (proj s)) (S (k_old (proj s))) (k_cur (proj s)) (k_new (proj s))) in
                                let k5 := k_counts k4 (pred (k_old k4)) (k_cur k4) (k_new k4) in
                                k_settbr k5 (N.max (k_tbr k5) (k_rel k5))) end.
              { apply (ca_rot_pop c (proj s)). cbn. apply Nat.ltb_lt in L. lia. }
              cbv zeta. change (k_old (proj s)) with (s_old s). change (k_cur (proj s)) with (s_cur s).
              change (k_new (proj s)) with (s_new s). unfold s3 in PP. rewrite proj_upd_counts, P in PP.
              rewrite <- PP. reflexivity.
           ++ eapply ixt_trans; [exact I|]. eapply ixt_trans; [apply (ixt_upd_counts s1 (S (s_old s)) (s_cur s) (s_new s))|].
              fold s3. eapply ixt_trans; [exact IP|]. split; reflexivity.
        -- split.
           ++ apply creach_atom. rewrite proj_reset_alloc, proj_upd_counts, P, O1, C1, N1.
              apply (ca_rot_old c (proj s)). cbn. apply Nat.ltb_ge in L. lia.
           ++ eapply ixt_trans; [exact I|]. eapply ixt_trans; [apply ixt_upd_counts|apply ixt_reset_alloc].
Qed.

Lemma fbs_pick_spec c fuel size s idx s' :
  fbs_pick c fuel size s = Some (idx, s') ->
  same s s' /\ (s_old s + s_cur s <= idx)%nat /\ (idx < length (s_blocks s))%nat /\ s_blocks s' = s_blocks s.
Proof.
  revert s; induction fuel as [|f IH]; intros s; cbn [fbs_pick]; [discriminate|].
  destruct (s_attempts s) as [|a] eqn:EA.
  - intros H. apply IH in H. destruct H as (S1 & H2 & H3 & H4).
    split; [eapply same_trans; [apply same_upd_alloc|exact S1]|]. auto.
  - destruct (s_aidx s) as [i|] eqn:EI.
    + destruct (has_space c s (s_old s + s_cur s + i) size) eqn:HS.
      * intros H; inversion H; subst; clear H.
        split; [apply same_upd_alloc|]. split; [lia|]. split; [|reflexivity].
        unfold has_space in HS. destruct (nth_error (s_blocks s) (s_old s + s_cur s + i)) eqn:N; [|discriminate].
        apply nth_error_Some. congruence.
      * intros H. apply IH in H. destruct H as (S1 & H2 & H3 & H4).
        split; [eapply same_trans; [apply same_upd_alloc|exact S1]|]. auto.
    + intros H. apply IH in H. destruct H as (S1 & H2 & H3 & H4).
      split; [eapply same_trans; [apply same_upd_alloc|exact S1]|]. auto.
Qed.

Lemma find_block_with_space_spec c s size r s' :
  find_block_with_space c s size = (r, s') ->
  fr c s s' /\ (forall idx, r = Ok idx -> (s_old s' + s_cur s' <= idx)%nat /\ (idx < length (s_blocks s'))%nat)
  /\ (forall e, r = Err e -> e <> cNotFound /\ e <> cOK).
Proof.
  unfold find_block_with_space.
  destruct (c_bs c <? size).
  { intros H; inversion H; subst. split; [apply fr_refl|]. split; intros; [discriminate|]. inversion H0; split; discriminate. }
  pose proof (fbs_release_fr c (S (length (s_blocks s))) s) as F1.
  destruct (fbs_grow c (S (c_cur c + c_new c)) (fbs_release c (S (length (s_blocks s))) s)) as [b2 s2] eqn:E2.
  pose proof (fbs_grow_fr _ _ _ _ _ E2) as F2.
  destruct b2.
  2:{ intros H; inversion H; subst. split; [eapply fr_trans; eauto|]. split; intros; [discriminate|]. inversion H0; split; discriminate. }
  destruct (fbs_rotate c (fuel_of s2) size s2) as [b3 s3] eqn:E3.
  pose proof (fbs_rotate_fr _ _ _ _ _ _ E3) as F3.
  destruct b3.
  2:{ intros H; inversion H; subst. split; [eapply fr_trans; [eauto|eapply fr_trans; eauto]|]. split; intros; [discriminate|]. inversion H0; split; discriminate. }
  destruct (fbs_pick c (S (S (s_new s3)) * 2) size s3) as [[idx s4]|] eqn:E4.
  - apply fbs_pick_spec in E4. destruct E4 as (S4 & L1 & L2 & B4).
    intros H; inversion H; subst.
    split; [eapply fr_trans; [eauto|eapply fr_trans; [eauto|eapply fr_trans; [eauto|apply same_fr; auto]]]|].
    split; [|intros; discriminate].
    intros idx' H'; inversion H'; subst.
    destruct S4 as [P _]. 
    assert (s_old s' = s_old s3) by (change (k_old (proj s') = k_old (proj s3)); rewrite P; reflexivity).
    assert (s_cur s' = s_cur s3) by (change (k_cur (proj s') = k_cur (proj s3)); rewrite P; reflexivity).
    rewrite B4. lia.
  - intros H; inversion H; subst. split; [eapply fr_trans; [eauto|eapply fr_trans; eauto]|]. split; intros; [discriminate|]. inversion H0; split; discriminate.
Qed.

Lemma ocn_put_spec c s size r s' :
  ocn_put c s size = (r, s') ->
  fr c s s' /\
  (forall wr, r = Ok wr -> s_released s' + N.of_nat (s_old s') <= wr_abs wr /\
                           wr_abs wr < s_released s' + N.of_nat (length (s_blocks s')))
  /\ (forall e, r = Err e -> e <> cNotFound /\ e <> cOK).
Proof.
  unfold ocn_put. destruct (find_block_with_space c s size) as [r0 s0] eqn:E.
  apply find_block_with_space_spec in E. destruct E as (F & HI & HE).
  destruct r0 as [idx|e].
  - destruct (nth_error (s_blocks s0) idx) as [b|] eqn:N.
    + intros H; inversion H; subst; clear H.
      destruct (HI idx eq_refl) as [L1 L2].
      assert (SM : same s0 (upd_blocks s0 (map_uid (fun x => set_use (set_cursor x (b_cursor x + size)) (S (b_use x))) (b_uid b) (s_blocks s0)) (s_zombies s0))).
      { unfold same, ixt, proj, upd_blocks; fields. rewrite map_uid_length. auto. }
      split; [eapply fr_trans; [exact F|apply same_fr; exact SM]|].
      split; [|intros; discriminate].
      intros wr H; inversion H; subst; clear H. cbn [wr_abs].
      unfold upd_blocks; fields. rewrite map_uid_length. lia.
    + intros H; inversion H; subst; clear H. split; [exact F|]. split; intros; [discriminate|]. inversion H; split; discriminate.
  - intros H; inversion H; subst; clear H. split; [exact F|]. split; intros; [discriminate|]. inversion H; subst. apply HE. reflexivity.
Qed.

Lemma finalize_spec c s wr ok r s' :
  finalize c s wr ok = (r, s') ->
  same s s' /\
  (forall l, r = Ok l -> l_abs l = wr_abs wr /\ s_tbr s' <= wr_abs wr /\ ok = true) /\
  (forall e, r = Err e -> e <> cOK /\ e <> cNotFound).
Proof.
  unfold finalize. pose proof (same_unpin c s (wr_uid wr)) as S.
  destruct ok; cbn [negb].
  - destruct (wr_abs wr <? s_tbr (unpin c s (wr_uid wr))) eqn:E.
    + intros H; inversion H; subst. split; [exact S|]. split; intros; [discriminate|]. inversion H0; split; discriminate.
    + intros H; inversion H; subst. split; [exact S|]. split; [|intros; discriminate].
      intros l H'; inversion H'; subst; cbn [l_abs]. split; [reflexivity|split; [lia|reflexivity]].
  - intros H; inversion H; subst. split; [exact S|]. split; intros; [discriminate|]. inversion H0; split; discriminate.
Qed.

Lemma fin_check_spec s wr :
  (forall l, fin_check s wr = Ok l -> l_abs l = wr_abs wr /\ s_tbr s <= wr_abs wr).
Proof.
  unfold fin_check. destruct (wr_abs wr <? s_tbr s) eqn:E; intros l H; inversion H; subst; cbn [l_abs].
  split; [reflexivity|lia].
Qed.

Lemma read_validated_spec w s o uid l v bytes s' :
  read_validated w s o uid l = (v, bytes, s') ->
  fr (w_cfg w) s s' /\ (v = true -> s' = s).
Proof.
  unfold read_validated.
  destruct (c_validate (w_cfg w) && negb (bytes_eqb (read_block s uid (l_off l) (l_size l)) (content w o))).
  - intros H; inversion H; subst; clear H. split; [|discriminate].
    split; [|split; reflexivity]. apply creach_atom.
    match goal with |- catom _ _ ?X => replace X with (k_bump (proj s) (l_abs l + 1)) by reflexivity end. apply ca_bump.
  - intros H; inversion H; subst; clear H. split; [apply fr_refl|auto].
Qed.

(** ---- the index ---- *)
Lemma key_eqb_eq a b : key_eqb a b = true <-> a = b.
Proof.
  unfold key_eqb. destruct a, b; cbn. rewrite andb_true_iff, !Nat.eqb_eq. split; [intros []; congruence|intros H; inversion H; auto].
Qed.

Lemma newest_spec cands : forall best l, newest cands best = Some l -> In l cands \/ best = Some l.
Proof.
  induction cands as [|x t IH]; intros best l; cbn; [auto|].
  intros H. apply IH in H. destruct H as [H|H]; [auto|].
  destruct best as [b|]; [destruct (loc_older b x)|]; inversion H; subst; auto.
Qed.
Lemma newest_some cands : forall best, (cands <> [] \/ best <> None) -> newest cands best <> None.
Proof.
  induction cands as [|x t IH]; intros best H; cbn.
  - destruct H; congruence.
  - apply IH. right. destruct best as [b|]; [destruct (loc_older b x)|]; discriminate.
Qed.

Lemma index_get_in s k l : index_get s k = Some l -> In (k, l) (s_index s) /\ loc_valid s l = true.
Proof.
  unfold index_get. intros H. apply newest_spec in H. destruct H as [H|H]; [|discriminate].
  apply in_map_iff in H. destruct H as [[k' l'] [E H]]. cbn in E; subst l'.
  apply filter_In in H. destruct H as [H1 H2]. cbn in H2. apply andb_true_iff in H2. destruct H2 as [H2 H3].
  apply key_eqb_eq in H2. subst. auto.
Qed.

Lemma index_get_some s k l : In (k, l) (s_index s) -> loc_valid s l = true -> index_get s k <> None.
Proof.
  intros H V. unfold index_get. apply newest_some. left.
  intros E. assert (I : In l (map snd (filter (fun e => key_eqb (fst e) k && loc_valid s (snd e)) (s_index s)))).
  { apply in_map_iff. exists (k, l). split; [reflexivity|]. apply filter_In. split; [exact H|]. cbn.
    rewrite V. rewrite (proj2 (key_eqb_eq k k) eq_refl). reflexivity. }
  rewrite E in I. exact I.
Qed.

Lemma least_specific_some s ks k l : least_specific s ks = Some (k, l) -> In k ks /\ index_get s k = Some l.
Proof.
  induction ks as [|k0 t IH]; cbn; [discriminate|].
  destruct (index_get s k0) eqn:E.
  - intros H; inversion H; subst. auto.
  - intros H. apply IH in H. tauto.
Qed.
Lemma least_specific_none s ks k : least_specific s ks = None -> In k ks -> index_get s k = None.
Proof.
  induction ks as [|k0 t IH]; cbn; [tauto|].
  destruct (index_get s k0) eqn:E; [discriminate|].
  intros H [->|I]; auto.
Qed.

Lemma same_index_put s k l : proj (index_put s k l) = proj s /\ s_threads (index_put s k l) = s_threads s
                              /\ s_index (index_put s k l) = (k, l) :: s_index s.
Proof. unfold index_put, upd_index, proj; fields. auto. Qed.

Lemma index_put_all_spec ks : forall s l,
  proj (index_put_all s ks l) = proj s /\ s_threads (index_put_all s ks l) = s_threads s /\
  incl (s_index s) (s_index (index_put_all s ks l)) /\
  (forall k, In k ks -> In (k, l) (s_index (index_put_all s ks l))).
Proof.
  induction ks as [|k t IH]; intros s l; cbn [index_put_all].
  - repeat split; auto. apply incl_refl. intros k [].
  - destruct (IH (index_put s k l) l) as (P & T & I & A).
    destruct (same_index_put s k l) as (P0 & T0 & I0).
    repeat split; try congruence.
    + intros x Hx. apply I. rewrite I0. right; exact Hx.
    + intros k' [->|Hk]; [|auto]. apply I. rewrite I0. left; reflexivity.
Qed.
