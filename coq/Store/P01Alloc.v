(** C01 proofs, allocator path: findBlockWithSpace's four loops and
    LocationBlobMap.Put preserve the data invariant; a successful Put adds
    the writer claim of the new allocation. *)
From Coq Require Import List NArith ZArith Bool Arith Lia Permutation ZifyN ZifyNat ZifyBool.
From BBS Require Import Store.Model Store.Wf Store.P01Inv
  Store.P01AllocA Store.P01AllocB Store.P01AllocC Store.P01AllocD.
Import ListNotations.
Open Scope N_scope.

Ltac proj :=
  cbn [s_blocks s_zombies s_free s_next_region s_next_uid s_dev s_old s_cur s_new s_released
       s_tbr s_attempts s_aidx s_index s_threads s_pushbacks s_negs
       upd_blocks upd_free upd_dev upd_counts upd_rel upd_alloc upd_index upd_threads].
Ltac proj_in H :=
  cbn [s_blocks s_zombies s_free s_next_region s_next_uid s_dev s_old s_cur s_new s_released
       s_tbr s_attempts s_aidx s_index s_threads s_pushbacks s_negs
       upd_blocks upd_free upd_dev upd_counts upd_rel upd_alloc upd_index upd_threads] in H.

(** ---- loop 1 ---- *)
Lemma pop_lt_inv w cl s s2 :
  DInv w cl s -> s_released s < s_tbr s -> core9 (pop_front (w_cfg w) s) s2 ->
  (s_old s2 + s_cur s2 + s_new s2 = pred (s_old s + s_cur s + s_new s))%nat ->
  DInv w cl s2.
Proof.
  intros D Hlt (e1 & e2 & e3 & e4 & e5 & e6 & e7 & e8 & e9) L.
  assert (Hne : s_blocks s <> []).
  { destruct (a_rel _ _ (d_a _ _ _ D)) as [_ H]. unfold abs_end in H. intros Hn.
    rewrite Hn in H. cbn [length] in H. lia. }
  apply (pop_max_inv w cl s s2 D Hne); [|exact L].
  destruct (s_blocks s) as [|b rest] eqn:Hb; [congruence|].
  destruct (pop_front_fields (w_cfg w) s b rest Hb)
    as (f1 & f2 & f3 & f4 & f5 & f6 & f7 & f8 & f9 & _).
  unfold core9, pop_max. proj. repeat split; try assumption.
  - rewrite e7, f7. reflexivity.
  - rewrite e8, f8. lia.
Qed.

Lemma fbs_release_inv w cl fuel : forall s,
  DInv w cl s ->
  DInv w cl (fbs_release (w_cfg w) fuel s) /\ frame_tin s (fbs_release (w_cfg w) fuel s).
Proof.
  induction fuel as [|f IH]; intros s D; cbn [fbs_release];
    [split; [exact D|apply frame_tin_refl]|].
  destruct (s_released s <? s_tbr s) eqn:E; [|split; [exact D|apply frame_tin_refl]].
  assert (Hlt : s_released s < s_tbr s) by lia.
  assert (Hne : s_blocks s <> []).
  { destruct (a_rel _ _ (d_a _ _ _ D)) as [_ H]. unfold abs_end in H. intros Hn.
    rewrite Hn in H. cbn [length] in H. lia. }
  pose proof (a_len _ _ (d_a _ _ _ D)) as Ln.
  destruct (s_blocks s) as [|b rest] eqn:Hb; [congruence|]. cbn [length] in Ln.
  destruct (pop_front_fields (w_cfg w) s b rest Hb)
    as (f1 & f2 & f3 & f4 & f5 & f6 & f7 & f8 & f9 & f10 & f11 & f12 & f13 & f14).
  set (p := pop_front (w_cfg w) s) in *.
  assert (STEP : forall s2, core9 p s2 ->
            (s_old s2 + s_cur s2 + s_new s2 = pred (s_old s + s_cur s + s_new s))%nat ->
            frame_tin s s2 ->
            DInv w cl (fbs_release (w_cfg w) f s2) /\ frame_tin s (fbs_release (w_cfg w) f s2)).
  { intros s2 H1 H2 H3.
    destruct (IH s2 (pop_lt_inv w cl s s2 D Hlt H1 H2)) as [Da Fa].
    split; [exact Da|]. eapply frame_tin_trans; eassumption. }
  rewrite f10, f11, f12.
  destruct (s_old s) as [|o] eqn:Eo; [destruct (s_cur s) as [|cu] eqn:Ec|]; apply STEP;
    unfold core9, frame_tin, reset_alloc; proj; repeat split; try assumption; try reflexivity;
    try lia.
Qed.

(** ---- loop 2 ---- *)
Lemma fbs_grow_inv w cl fuel : forall s r s',
  DInv w cl s -> fbs_grow (w_cfg w) fuel s = (r, s') -> DInv w cl s' /\ frame_tin s s'.
Proof.
  induction fuel as [|f IH]; intros s r s' D H; cbn [fbs_grow] in H.
  - inversion H; subst. split; [exact D|apply frame_tin_refl].
  - destruct (grow_new (w_cfg w) (s_cur s) (s_new s));
      [|inversion H; subst; split; [exact D|apply frame_tin_refl]].
    destruct (push_back (w_cfg w) s) as [s1|] eqn:Hp;
      [|inversion H; subst; split; [exact D|apply frame_tin_refl]].
    destruct (push_back_fields _ _ _ Hp) as (_ & g2 & g3 & g4 & g5 & g6 & g7 & g8 & g9 & g10 & g11).
    set (s2 := upd_counts s1 (s_old s1) (s_cur s1) (S (s_new s1))) in H.
    destruct (push_inv w cl s s1 s2 D Hp) as [D2 _].
    { unfold s2, core9. proj. repeat split; reflexivity. }
    { unfold s2. proj. lia. }
    destruct (IH s2 r s' D2 H) as [D3 F3]. split; [exact D3|].
    eapply frame_tin_trans; [|exact F3]. unfold frame_tin, s2. proj. repeat split; assumption.
Qed.

(** ---- loop 3 ---- *)
Lemma fbs_rotate_inv w cl size fuel : forall s r s',
  DInv w cl s -> fbs_rotate (w_cfg w) fuel size s = (r, s') -> DInv w cl s' /\ frame_tin s s'.
Proof.
  induction fuel as [|f IH]; intros s r s' D H; cbn [fbs_rotate] in H.
  - inversion H; subst. split; [exact D|apply frame_tin_refl].
  - destruct (has_space (w_cfg w) s (s_old s + s_cur s) size);
      [inversion H; subst; split; [exact D|apply frame_tin_refl]|].
    pose proof (a_len _ _ (d_a _ _ _ D)) as Ln.
    destruct (Nat.ltb (desired_new (w_cfg w)) (s_new s)) eqn:E1.
    + set (s2 := reset_alloc _) in H.
      assert (D2 : DInv w cl s2).
      { apply (DInv_ext w cl s s2); [| |exact D].
        - unfold core9, s2, reset_alloc. proj. repeat split; reflexivity.
        - unfold len_ok, s2, reset_alloc. proj. lia. }
      destruct (IH s2 r s' D2 H) as [D3 F3]. split; [exact D3|].
      eapply frame_tin_trans; [|exact F3]. unfold frame_tin, s2, reset_alloc. proj.
      repeat split; reflexivity.
    + destruct (push_back (w_cfg w) s) as [s1|] eqn:Hp;
        [|inversion H; subst; split; [exact D|apply frame_tin_refl]].
      destruct (push_back_fields _ _ _ Hp)
        as (_ & g2 & g3 & g4 & g5 & g6 & g7 & g8 & g9 & g10 & g11).
      destruct (grow_cur (w_cfg w) (s_cur s1)).
      * set (s2 := reset_alloc _) in H.
        destruct (push_inv w cl s s1 s2 D Hp) as [D2 _].
        { unfold s2, core9, reset_alloc. proj. repeat split; reflexivity. }
        { unfold s2, reset_alloc. proj. lia. }
        destruct (IH s2 r s' D2 H) as [D3 F3]. split; [exact D3|].
        eapply frame_tin_trans; [|exact F3]. unfold frame_tin, s2, reset_alloc. proj.
        repeat split; assumption.
      * proj_in H.
        set (s3 := upd_counts s1 (S (s_old s1)) (s_cur s1) (s_new s1)) in H.
        destruct (push_inv w cl s s1 s3 D Hp) as [D3 Hne3].
        { unfold s3, core9. proj. repeat split; reflexivity. }
        { unfold s3. proj. lia. }
        assert (F3 : frame_tin s s3).
        { unfold frame_tin, s3. proj. repeat split; assumption. }
        destruct (Nat.ltb (c_old (w_cfg w)) (S (s_old s1))).
        -- set (s2 := reset_alloc _) in H.
           destruct (s_blocks s3) as [|b rest] eqn:Hb; [congruence|].
           destruct (pop_front_fields (w_cfg w) s3 b rest Hb)
             as (f1 & f2 & f3 & f4 & f5 & f6 & f7 & f8 & f9 & f10 & f11 & f12 & f13 & f14).
           assert (D2 : DInv w cl s2).
           { apply (pop_max_inv w cl s3 s2 D3); [rewrite Hb; discriminate| |].
             - unfold core9, pop_max, s2, reset_alloc. proj. repeat split; try reflexivity.
               + rewrite f7. reflexivity.
               + rewrite f7, f8. reflexivity.
             - unfold s2, reset_alloc. proj. rewrite f10, f11, f12. unfold s3. proj. lia. }
           destruct (IH s2 r s' D2 H) as [D4 F4]. split; [exact D4|].
           eapply frame_tin_trans; [exact F3|]. eapply frame_tin_trans; [|exact F4].
           unfold frame_tin, s2, reset_alloc. proj. repeat split; assumption.
        -- set (s2 := reset_alloc s3) in H.
           assert (D2 : DInv w cl s2).
           { apply (DInv_ext w cl s3 s2); [| |exact D3].
             - unfold core9, s2, reset_alloc. proj. repeat split; reflexivity.
             - pose proof (a_len _ _ (d_a _ _ _ D3)) as L3.
               unfold len_ok, s2, reset_alloc. proj. exact L3. }
           destruct (IH s2 r s' D2 H) as [D4 F4]. split; [exact D4|].
           eapply frame_tin_trans; [exact F3|]. eapply frame_tin_trans; [|exact F4].
           unfold frame_tin, s2, reset_alloc. proj. repeat split; reflexivity.
Qed.

(** ---- loop 4 ---- *)
Lemma fbs_pick_inv c size fuel : forall s idx s',
  fbs_pick c fuel size s = Some (idx, s') ->
  core9 s s' /\ s_old s' = s_old s /\ s_cur s' = s_cur s /\ s_new s' = s_new s /\
  frame_tin s s' /\ has_space c s' idx size = true.
Proof.
  induction fuel as [|f IH]; intros s idx s' H; cbn [fbs_pick] in H; [discriminate|].
  assert (REC : forall a i, fbs_pick c f size (upd_alloc s a i) = Some (idx, s') ->
            core9 s s' /\ s_old s' = s_old s /\ s_cur s' = s_cur s /\ s_new s' = s_new s /\
            frame_tin s s' /\ has_space c s' idx size = true).
  { intros a i Hr. destruct (IH _ _ _ Hr) as (Hc & h1 & h2 & h3 & Hf & Hs).
    unfold core9, frame_tin in *. proj_in Hc. proj_in h1. proj_in h2. proj_in h3. proj_in Hf.
    repeat split; try tauto. }
  destruct (s_attempts s) as [|a]; [eapply REC; exact H|].
  destruct (s_aidx s) as [i|]; [|eapply REC; exact H].
  destruct (has_space c s (s_old s + s_cur s + i) size) eqn:E; [|eapply REC; exact H].
  inversion H; subst; clear H.
  unfold core9, frame_tin. proj. repeat split; try reflexivity. exact E.
Qed.

Lemma fbws_inv w cl s size r s' :
  DInv w cl s -> find_block_with_space (w_cfg w) s size = (r, s') ->
  DInv w cl s' /\ frame_tin s s' /\
  match r with
  | Ok idx => has_space (w_cfg w) s' idx size = true
  | Err _ => True
  end.
Proof.
  intros D H. unfold find_block_with_space in H.
  destruct (c_bs (w_cfg w) <? size);
    [inversion H; subst; split; [exact D|split; [apply frame_tin_refl|exact I]]|].
  destruct (fbs_release_inv w cl (S (length (s_blocks s))) s D) as [D1 F1].
  set (s1 := fbs_release (w_cfg w) (S (length (s_blocks s))) s) in *.
  destruct (fbs_grow (w_cfg w) (S (c_cur (w_cfg w) + c_new (w_cfg w))) s1) as [r2 s2] eqn:E2.
  destruct (fbs_grow_inv w cl _ _ _ _ D1 E2) as [D2 F2].
  pose proof (frame_tin_trans _ _ _ F1 F2) as F12.
  destruct r2; [|inversion H; subst; split; [exact D2|split; [exact F12|exact I]]].
  destruct (fbs_rotate (w_cfg w) (fuel_of s2) size s2) as [r3 s3] eqn:E3.
  destruct (fbs_rotate_inv w cl size _ _ _ _ D2 E3) as [D3 F3].
  pose proof (frame_tin_trans _ _ _ F12 F3) as F13.
  destruct r3; [|inversion H; subst; split; [exact D3|split; [exact F13|exact I]]].
  destruct (fbs_pick (w_cfg w) (S (S (s_new s3)) * 2) size s3) as [[idx s4]|] eqn:E4;
    [|inversion H; subst; split; [exact D3|split; [exact F13|exact I]]].
  inversion H; subst; clear H.
  destruct (fbs_pick_inv _ _ _ _ _ _ E4) as (Hc & h1 & h2 & h3 & F4 & Hs).
  split; [|split; [eapply frame_tin_trans; eassumption|exact Hs]].
  apply (DInv_ext w cl s3 s' Hc); [|exact D3].
  pose proof (a_len _ _ (d_a _ _ _ D3)) as L3. destruct Hc as (e1 & _).
  unfold len_ok. rewrite e1, h1, h2, h3. exact L3.
Qed.

(** ---- LocationBlobMap.Put ---- *)
Theorem ocn_put_inv : forall w cl s size r s',
  wf_config (w_cfg w) = true -> DInv w cl s -> ocn_put (w_cfg w) s size = (r, s') ->
  frame_tin s s' /\
  match r with
  | Err _ => DInv w cl s'
  | Ok wr => DInv w (CW wr [] :: cl) s' /\ wr_size wr = size
  end.
Proof.
  intros w cl s size r s' _ D H. unfold ocn_put in H.
  destruct (find_block_with_space (w_cfg w) s size) as [r0 s0] eqn:E.
  destruct (fbws_inv w cl s size r0 s0 D E) as (D0 & F0 & Hs).
  destruct r0 as [idx|e]; [|inversion H; subst; split; assumption].
  destruct (nth_error (s_blocks s0) idx) as [b|] eqn:En;
    [|inversion H; subst; split; assumption].
  inversion H; subst; clear H. split.
  - eapply frame_tin_trans; [exact F0|]. unfold frame_tin. proj. repeat split; reflexivity.
  - split; [|reflexivity]. apply DInv_split. apply DInv_split in D0. destruct D0 as [D9 Ln].
    split.
    + apply put_core; [exact D9|exact En|].
      unfold has_space in Hs. rewrite En in Hs.
      assert (Hc : b_cursor b <= c_bs (w_cfg w)).
      { apply (n_cur _ _ (e_a _ _ _ D9)). unfold live. apply in_or_app. left.
        eapply nth_error_In. exact En. }
      lia.
    + unfold len_ok in *. proj. rewrite map_uid_length. exact Ln.
Qed.
