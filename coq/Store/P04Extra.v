(** C04 proofs, part 9: the quarantine loop completes within its fuel; the
    global balance of pins and outstanding references. *)
From Coq Require Import List NArith ZArith Bool Arith Lia Permutation.
From Coq Require Import ZifyN ZifyNat ZifyBool.
From BBS Require Import Store.Model Store.Wf Store.P04Base Store.P04Prim Store.P04Fbs Store.P04Ops
  Store.P04Step Store.P04StepOps Store.P04Main.
Import ListNotations.
Local Open Scope nat_scope.

(** ---- loop 1 of findBlockWithSpace stops because released = toBeReleased,
        not because the fuel ran out ---- *)
Lemma fbs_release_unfold c f s : fbs_release c (S f) s =
  if N.ltb (s_released s) (s_tbr s) then
    fbs_release c f
      (let s1 := pop_front c s in
       match s_old s1, s_cur s1 with
       | S o, _ => upd_counts s1 o (s_cur s1) (s_new s1)
       | O, S cu => upd_counts s1 O cu (s_new s1)
       | O, O => reset_alloc (upd_counts s1 O O (pred (s_new s1)))
       end)
  else s.
Proof. reflexivity. Qed.

Lemma fbs_release_done c s0 R : forall fuel s, HI c s0 s R ->
  N.to_nat (s_tbr s - s_released s) < fuel ->
  (s_tbr (fbs_release c fuel s) <= s_released (fbs_release c fuel s))%N.
Proof.
  induction fuel as [|f IH]; intros s H Hf; [lia|].
  pose proof (fbs_release_ok c s0 R 1 s H) as H1. rewrite fbs_release_unfold in H1 |- *.
  destruct (N.ltb (s_released s) (s_tbr s)) eqn:E; [|apply N.ltb_ge in E; exact E].
  apply N.ltb_lt in E. cbn [fbs_release] in H1.
  match goal with |- context [fbs_release c f ?X] => set (s2 := X) in * end.
  assert (E2 : s_released s2 = (s_released s + 1)%N /\ s_tbr s2 = s_tbr s).
  { destruct H as [A [C F]].
    destruct (pop_front_spec c s0 s R A F) as (_ & _ & _ & _ & _ & Et & Hb).
    destruct C as [_ _ C3 _].
    destruct (s_blocks s) as [|b rest] eqn:EB; [cbn [length] in C3; lia|].
    destruct Hb as [_ Hr]. unfold s2. cbv zeta.
    destruct (s_old (pop_front c s)); [destruct (s_cur (pop_front c s))|]; unfold reset_alloc; sred; auto. }
  destruct E2 as [Er Et]. apply IH; [exact H1|]. rewrite Er, Et. lia.
Qed.

Theorem release_loop_completes_thm w es : wf_world w = true ->
  let c := w_cfg w in let s := reach w es in
  let s' := fbs_release c (S (length (s_blocks s))) s in
  s_released s' = s_tbr s'.
Proof.
  intros Wf c s s'. pose proof (Inv_reach w es Wf) as [A C _ _]. fold s c in A, C.
  assert (H : HI c s s _) by (split; [exact A | split; [exact C | apply Fr_refl]]).
  pose proof (fbs_release_done c s _ (S (length (s_blocks s))) s H) as D.
  pose proof (fbs_release_ok c s _ (S (length (s_blocks s))) s H) as [_ [[_ C2 _ _] _]].
  fold s' in D, C2. destruct C as [_ _ C3 _].
  assert (N.to_nat (s_tbr s - s_released s) < S (length (s_blocks s))) by lia.
  specialize (D H0). lia.
Qed.

(** ---- balance: pins held on blocks = references held by parked operations ---- *)
Definition pins (s : state) : nat :=
  list_sum (map (fun b => b_use b - 1) (s_blocks s)) + list_sum (map b_use (s_zombies s)).

Lemma list_sum_ext {A} (f g : A -> nat) l : (forall x, In x l -> f x = g x) ->
  list_sum (map f l) = list_sum (map g l).
Proof.
  induction l as [|a t IH]; intros H; simpl; [reflexivity|].
  rewrite (H a (or_introl eq_refl)), IH; [reflexivity|]. intros x Hx. apply H. right. exact Hx.
Qed.

Lemma list_sum_ind (a : nat) l : list_sum (map (fun u => if Nat.eqb a u then 1 else 0) l) = cnt l a.
Proof.
  induction l as [|x t IH]; [reflexivity|].
  cbn [map]. rewrite cnt_cons, <- IH, (Nat.eqb_sym a x). reflexivity.
Qed.

Lemma list_sum_add {A} (f g : A -> nat) l :
  list_sum (map (fun x => f x + g x) l) = list_sum (map f l) + list_sum (map g l).
Proof. induction l as [|a t IH]; simpl; [reflexivity | rewrite IH; lia]. Qed.

Lemma sum_cnt R : forall l, NoDup l -> (forall u, In u R -> In u l) ->
  list_sum (map (cnt R) l) = length R.
Proof.
  induction R as [|a R' IH]; intros l ND Hin.
  - cbn [length]. induction l as [|x t IHl]; simpl; [reflexivity|].
    inversion ND; subst. rewrite IHl; auto. intros u [].
  - rewrite (list_sum_ext (cnt (a :: R')) (fun u => (if Nat.eqb a u then 1 else 0) + cnt R' u)).
    2:{ intros x _. apply cnt_cons. }
    rewrite list_sum_add, list_sum_ind, IH; auto.
    2:{ intros u Hu. apply Hin. right. exact Hu. }
    assert (cnt l a = 1).
    { unfold cnt. apply (proj1 (NoDup_count_occ' Nat.eq_dec l)); [exact ND|]. apply Hin. left. reflexivity. }
    cbn [length]. lia.
Qed.

Theorem pins_balance_thm w es : wf_world w = true ->
  let s := reach w es in
  pins s = length (all_refs (w_cfg w) (s_threads s)).
Proof.
  intros Wf s. pose proof (Inv_reach w es Wf) as [[A1 A2 A3 A4 A5 A6] _ _ _]. fold s in A1, A2, A3, A4, A5, A6.
  set (R := all_refs (w_cfg w) (s_threads s)) in *.
  rewrite <- (sum_cnt R (uids s) A1 A6). unfold pins, uids. rewrite map_app, list_sum_app, !map_map.
  f_equal.
  - apply list_sum_ext. intros b Hb. rewrite (A4 b Hb). lia.
  - apply list_sum_ext. intros z Hz. apply (A5 z Hz).
Qed.
