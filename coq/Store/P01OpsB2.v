(** C01 proofs: adding index entries preserves the invariant. *)
From Coq Require Import List NArith ZArith Bool Arith Lia Permutation ZifyN ZifyNat ZifyBool.
From BBS Require Import Store.Model Store.Wf Store.P01Inv Store.P01OpsB1.
Import ListNotations.
Open Scope N_scope.

(** one new entry: what has to be shown about it *)
Lemma index_put_inv w cl s k l :
  DInv w cl s ->
  l_abs l < abs_end s ->
  (loc_valid s l = true -> idx_ok w s k l) ->
  (forall wr acc, In (CW wr acc) cl -> loc_valid s l = true ->
                  uid_at s (l_abs l) = Some (wr_uid wr) ->
                  rdisj (wr_off wr) (wr_size wr) (l_off l) (l_size l)) ->
  DInv w cl (index_put s k l).
Proof.
  intros [HA HU HC] Hlt Hidx Hsep.
  constructor.
  - destruct HA as [h1 h2 h3 h4 h5 h6 h7 h8 h9 h10 h11].
    constructor;
      [exact h1|exact h2|exact h3|exact h4|exact h5|exact h6|exact h7|exact h8|exact h9|exact h10|].
    intros k' l' Hi. change (In (k', l') ((k, l) :: s_index s)) in Hi.
    destruct Hi as [E|Hi]; [inversion E; subst; exact Hlt|eapply h11; exact Hi].
  - destruct HU as [u1 u2]. constructor; [exact u1|exact u2].
  - destruct HC as [c1 c2 c3 c4]. constructor.
    + intros c Hc. specialize (c1 c Hc). destruct c; exact c1.
    + intros k' l' Hi Hv. change (In (k', l') ((k, l) :: s_index s)) in Hi.
      change (loc_valid s l' = true) in Hv.
      change (idx_ok w s k' l').
      destruct Hi as [E|Hi]; [inversion E; subst; auto|auto].
    + exact c3.
    + intros wr acc k' l' Hc Hi Hv Hu. change (In (k', l') ((k, l) :: s_index s)) in Hi.
      change (loc_valid s l' = true) in Hv.
      change (uid_at s (l_abs l') = Some (wr_uid wr)) in Hu.
      destruct Hi as [E|Hi]; [inversion E; subst; eauto|eauto].
Qed.

Lemma index_put_sub_inv : forall w cl s k0 l k off len,
  DInv w cl s -> In (k0, l) (s_index s) -> loc_valid s l = true ->
  content w (fst k) = slice (content w (fst k0)) (N.to_nat off) (N.to_nat len) ->
  (N.to_nat off + N.to_nat len <= length (content w (fst k0)))%nat ->
  DInv w cl (index_put s k {| l_abs := l_abs l; l_off := l_off l + off; l_size := len |}).
Proof.
  intros w cl s k0 l k off len HD Hi Hv Hc Hb.
  pose proof HD as [HA HU HC].
  destruct (c_idx _ _ _ HC _ _ Hi Hv) as (uid & cur & reg & Hu & Hbi & Hle & Hdat).
  destruct (binfo_in _ _ _ _ Hbi) as (b & Hbl & Hbu & Hbc & Hbr).
  pose proof (a_cur _ _ HA b Hbl) as Hcur.
  pose proof (a_dev_live _ _ HA b Hbl) as Hdev.
  rewrite Hbc in Hcur. rewrite Hbr in Hdev.
  assert (Hsz : length (content w (fst k0)) = N.to_nat (l_size l)).
  { rewrite <- Hdat. unfold bslice. apply slice_length. lia. }
  assert (Hol : off + len <= l_size l) by lia.
  apply index_put_inv; [exact HD| | |].
  - exact (a_idx _ _ HA _ _ Hi).
  - intros _. exists uid, cur, reg. cbn [l_abs l_off l_size].
    split; [exact Hu|]. split; [exact Hbi|]. split; [lia|].
    rewrite Hc, <- Hdat. unfold bslice.
    rewrite slice_slice by lia. f_equal. lia.
  - cbn [l_abs l_off l_size]. intros wr acc Hcw _ Hu'.
    pose proof (c_sep_idx _ _ _ HC wr acc k0 l Hcw Hi Hv Hu') as Hr.
    unfold rdisj in *. lia.
Qed.

Lemma index_put_copy_inv : forall w cl s k0 l k,
  DInv w cl s -> In (k0, l) (s_index s) -> loc_valid s l = true -> fst k = fst k0 ->
  DInv w cl (index_put s k l).
Proof.
  intros w cl s k0 l k HD Hi Hv Hk.
  pose proof HD as [HA HU HC].
  apply index_put_inv; [exact HD| | |].
  - exact (a_idx _ _ HA _ _ Hi).
  - intros _. destruct (c_idx _ _ _ HC _ _ Hi Hv) as (uid & cur & reg & Hu & Hbi & Hle & Hdat).
    exists uid, cur, reg. rewrite Hk. auto.
  - intros wr acc Hcw _ Hu'. exact (c_sep_idx _ _ _ HC wr acc k0 l Hcw Hi Hv Hu').
Qed.

(** publishing a complete allocation *)
Lemma cu_publish1 w cl s wr o k :
  DInv w cl s -> In (CU wr o) cl -> s_tbr s <= wr_abs wr -> fst k = o ->
  DInv w cl (index_put s k {| l_abs := wr_abs wr; l_off := wr_off wr; l_size := wr_size wr |}).
Proof.
  intros HD Hin Ht Hk.
  pose proof HD as [HA HU HC].
  pose proof (c_claims _ _ _ HC _ Hin) as Hcu. cbn [claim_ok] in Hcu.
  destruct Hcu as (Hnu & Habs & Hcurb & Hpub).
  destruct (Hpub Ht) as (cur & reg & Hu & Hbi & Hdat).
  apply index_put_inv; [exact HD| | |]; cbn [l_abs l_off l_size].
  - exact Habs.
  - intros _. exists (wr_uid wr), cur, reg. cbn [l_abs l_off l_size].
    rewrite Hk. repeat split; auto. eapply Hcurb; eauto.
  - intros wr' acc' Hcw _ Hu'.
    assert (Hue : wr_uid wr = wr_uid wr') by congruence.
    assert (Hne : CU wr o <> CW wr' acc') by discriminate.
    destruct (pairwise_in _ _ _ _ (c_sep _ _ _ HC) Hin Hcw Hne) as [Hd|Hd];
      unfold cdisj in Hd; cbn [c_isw c_uid c_off c_size orb] in Hd.
    + apply rdisj_sym, Hd; [reflexivity|exact Hue].
    + apply Hd; [reflexivity|now symmetry].
Qed.

Lemma cu_publish_inv : forall w cl s wr o keys,
  DInv w cl s -> In (CU wr o) cl -> s_tbr s <= wr_abs wr -> (forall k, In k keys -> fst k = o) ->
  DInv w cl (index_put_all s keys {| l_abs := wr_abs wr; l_off := wr_off wr; l_size := wr_size wr |}).
Proof.
  intros w cl s wr o keys. revert s.
  induction keys as [|k t IH]; intros s HD Hin Ht Hk; cbn [index_put_all]; [exact HD|].
  apply IH.
  - apply cu_publish1 with (o := o); auto. apply Hk. now left.
  - exact Hin.
  - exact Ht.
  - intros k' Hk'. apply Hk. now right.
Qed.
