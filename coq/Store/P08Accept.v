(** C08 — still_accepts_uploads (partial): the only ways an upload that fits
    a block can be refused at its start are UNAVAILABLE from a block-device
    allocator whose free list is empty at the moment a block is needed, and
    the model's out-of-fuel code (-1).  The quarantine boundary itself never
    makes OPutStart fail.  Proofs only. *)
From Coq Require Import List NArith ZArith Bool Arith Lia ZifyN ZifyNat ZifyBool.
From BBS Require Import Store.Model Store.P08Frame Store.P08Step.
Import ListNotations.
Open Scope N_scope.

Lemma push_back_none c s : push_back c s = None -> in_memory c = false /\ s_free s = [].
Proof.
  unfold push_back, new_block. destruct (in_memory c); [discriminate|].
  destruct (s_free s); [auto|discriminate].
Qed.

Lemma fbs_grow_false c fuel : forall s s', fbs_grow c fuel s = (false, s') ->
  in_memory c = false /\ s_free s' = [].
Proof.
  induction fuel as [|f IH]; intros s s'; cbn [fbs_grow]; [discriminate|].
  destruct (grow_new c (s_cur s) (s_new s)); [|discriminate].
  destruct (push_back c s) as [s1|] eqn:E; [apply IH|].
  intros H; inv H. apply push_back_none, E.
Qed.

Lemma fbs_rotate_false c fuel size : forall s s', fbs_rotate c fuel size s = (false, s') ->
  in_memory c = false /\ s_free s' = [].
Proof.
  induction fuel as [|f IH]; intros s s'; cbn [fbs_rotate]; [discriminate|].
  destruct (has_space c s (s_old s + s_cur s) size); [discriminate|].
  destruct (Nat.ltb (desired_new c) (s_new s)); [apply IH|].
  destruct (push_back c s) as [s1|] eqn:E; [apply IH|].
  intros H; inv H. apply push_back_none, E.
Qed.

Lemma has_space_upd_alloc c s a i idx size : has_space c (upd_alloc s a i) idx size = has_space c s idx size.
Proof. reflexivity. Qed.

Lemma fbs_pick_has_space c fuel size : forall s idx s', fbs_pick c fuel size s = Some (idx, s') ->
  has_space c s' idx size = true.
Proof.
  induction fuel as [|f IH]; intros s idx s'; cbn [fbs_pick]; [discriminate|].
  destruct (s_attempts s) as [|a]; [|destruct (s_aidx s) as [i|]]; try apply IH.
  destruct (has_space c s (s_old s + s_cur s + i) size) eqn:E; [|apply IH].
  intros H; inv H. rewrite has_space_upd_alloc. exact E.
Qed.

(** the refusals of an allocation *)
Lemma ocn_put_refusals c s size e s' : ocn_put c s size = (Err e, s') ->
  (e = cInvalidArgument /\ c_bs c < size) \/
  (e = cUnavailable /\ in_memory c = false /\ s_free s' = []) \/
  e = (-1)%Z.
Proof.
  unfold ocn_put. destruct (find_block_with_space c s size) as [[idx|e1] s1] eqn:E.
  - revert E. unfold find_block_with_space.
    destruct (c_bs c <? size); [discriminate|].
    destruct (fbs_grow c _ _) as [[] s2]; [|discriminate].
    destruct (fbs_rotate c _ size s2) as [[] s3]; [|discriminate].
    destruct (fbs_pick c _ size s3) as [[idx' s4]|] eqn:P; [|discriminate].
    intros H; inv H. apply fbs_pick_has_space in P. unfold has_space in P.
    destruct (nth_error (s_blocks s1) idx); [discriminate|discriminate].
  - intros H; inv H. revert E. unfold find_block_with_space.
    destruct (c_bs c <? size) eqn:Eb; [intros H; inv H; left; split; [reflexivity|lia]|].
    destruct (fbs_grow c _ _) as [[] s2] eqn:G.
    2:{ intros H; inv H. right. left. split; [reflexivity|]. eapply fbs_grow_false, G. }
    destruct (fbs_rotate c _ size s2) as [[] s3] eqn:R.
    2:{ intros H; inv H. right. left. split; [reflexivity|]. eapply fbs_rotate_false, R. }
    destruct (fbs_pick c _ size s3) as [[idx' s4]|]; [discriminate|].
    intros H; inv H. right. right. reflexivity.
Qed.

(** OPutStart of an object that fits a block, on a free thread id: it parks,
    or the block-device allocator had no free block (UNAVAILABLE, and the
    free list of the resulting state is empty), or the model ran out of fuel *)
Lemma put_start_accepts w s tid o i s' out :
  thr_get (s_threads s) tid = None -> osize w o <= c_bs (w_cfg w) ->
  step w s (OPutStart tid o i) = (s', out) ->
  out = Parked \/
  (out = Done cUnavailable [] /\ in_memory (w_cfg w) = false /\ s_free s' = []) \/
  out = Done (-1)%Z [].
Proof.
  intros Ht Hsz. unfold step. cbn [may_take_refresh_lock is_corrupt andb]. rewrite Ht.
  unfold put_start.
  match goal with |- context [if ?x then (Ok (TPutExisting o i []), s) else _] => destruct x end.
  { iinv. left. reflexivity. }
  destruct (ocn_put (w_cfg w) s (osize w o)) as [[wr|e] s1] eqn:E; iinv; [left; reflexivity|].
  apply ocn_put_refusals in E as [[E0 E]|[(E0 & E1 & E2)|E0]]; subst e.
  - lia.
  - right. left. auto.
  - right. right. reflexivity.
Qed.

(** in particular with the in-memory allocator only the fuel code remains *)
Lemma put_start_accepts_in_memory w s tid o i s' out :
  in_memory (w_cfg w) = true ->
  thr_get (s_threads s) tid = None -> osize w o <= c_bs (w_cfg w) ->
  step w s (OPutStart tid o i) = (s', out) ->
  out = Parked \/ out = Done (-1)%Z [].
Proof.
  intros Hm Ht Hsz H. apply put_start_accepts in H as [H|[(_ & H & _)|H]]; auto. congruence.
Qed.
