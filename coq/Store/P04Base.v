(** C04 proofs, part 1: definitions of the invariant and the primitive
    allocator operations (pin, unpin, pop_front, new_block / push_back). *)
From Coq Require Import List NArith ZArith Bool Arith Lia Permutation.
From Coq Require Import ZifyN ZifyNat ZifyBool.
From BBS Require Import Store.Model Store.Wf.
Import ListNotations.
Local Open Scope nat_scope.

(** ---- reduction of the record projections over the [upd_*] functions ---- *)
Ltac sred :=
  cbn [s_blocks s_zombies s_free s_next_region s_next_uid s_dev s_old s_cur s_new
       s_released s_tbr s_attempts s_aidx s_index s_threads s_pushbacks s_negs
       upd_blocks upd_free upd_dev upd_counts upd_rel upd_alloc upd_index upd_threads
       bump_negs reset_alloc thr_set thr_rm index_put
       b_uid b_region b_cursor b_use set_use set_cursor fst snd] in *.

(** ---- multiset counting ---- *)
Definition cnt (R : list nat) (u : nat) : nat := count_occ Nat.eq_dec R u.

Lemma cnt_nil u : cnt [] u = 0.
Proof. reflexivity. Qed.
Lemma cnt_cons R u v : cnt (v :: R) u = (if Nat.eqb v u then 1 else 0) + cnt R u.
Proof.
  unfold cnt. cbn [count_occ]. destruct (Nat.eq_dec v u) as [E|E].
  - subst. rewrite Nat.eqb_refl. reflexivity.
  - apply Nat.eqb_neq in E. rewrite E. reflexivity.
Qed.
Lemma cnt_app R1 R2 u : cnt (R1 ++ R2) u = cnt R1 u + cnt R2 u.
Proof. unfold cnt. apply count_occ_app. Qed.
Lemma cnt_perm R R' u : Permutation R R' -> cnt R u = cnt R' u.
Proof. intros P. unfold cnt. revert u. apply Permutation_count_occ. exact P. Qed.
Lemma cnt_In R u : In u R <-> 1 <= cnt R u.
Proof. unfold cnt. rewrite (count_occ_In Nat.eq_dec). lia. Qed.
Lemma cnt_notin R u : ~ In u R -> cnt R u = 0.
Proof. intros H. unfold cnt. apply count_occ_not_In. exact H. Qed.

(** ---- references held by parked threads ---- *)
Definition wref (r : option writer) : list nat :=
  match r with Some wr => [wr_uid wr] | None => [] end.
Definition refs (c : config) (t : thread) : list nat :=
  match t with
  | TPut _ _ wr _ => [wr_uid wr]
  | TPutExisting _ _ _ => []
  | TGet _ uid _ r _ => uid :: wref r
  | TGfc _ _ uid _ r _ => uid :: (if lockstep c then wref r else [])
  | TGfcErr _ => []
  end.
Definition all_refs (c : config) (ts : list (nat * thread)) : list nat :=
  flat_map (fun e => refs c (snd e)) ts.
(** number of references parked threads hold on block [uid] *)
Definition nrefs (c : config) (s : state) (uid : nat) : nat := cnt (all_refs c (s_threads s)) uid.

(** ---- block lists ---- *)
Definition uids (s : state) : list nat := map b_uid (s_blocks s) ++ map b_uid (s_zombies s).
Definition allb (s : state) : list block := s_blocks s ++ s_zombies s.
Definition regions (s : state) : list nat :=
  map b_region (s_blocks s) ++ map b_region (s_zombies s) ++ s_free s.
Definition rcl (l : list block) (r : nat) : nat := cnt (map b_region l) r.
Definition rc (s : state) (r : nat) : nat := rcl (s_blocks s) r + rcl (s_zombies s) r + cnt (s_free s) r.

Lemma rc_regions s r : cnt (regions s) r = rc s r.
Proof. unfold regions, rc, rcl. rewrite !cnt_app. lia. Qed.
Lemma uids_allb s : uids s = map b_uid (allb s).
Proof. unfold uids, allb. rewrite map_app. reflexivity. Qed.

Lemma rcl_app l1 l2 r : rcl (l1 ++ l2) r = rcl l1 r + rcl l2 r.
Proof. unfold rcl. rewrite map_app, cnt_app. reflexivity. Qed.
Lemma rcl_cons b l r : rcl (b :: l) r = (if Nat.eqb (b_region b) r then 1 else 0) + rcl l r.
Proof. unfold rcl. cbn [map]. apply cnt_cons. Qed.
Lemma rcl_nil r : rcl [] r = 0.
Proof. reflexivity. Qed.
Lemma rcl_perm l l' r : Permutation l l' -> rcl l r = rcl l' r.
Proof. intros P. unfold rcl. apply cnt_perm. apply Permutation_map. exact P. Qed.

Lemma map_uid_uids f uid l : (forall b, b_uid (f b) = b_uid b) ->
  map b_uid (map_uid f uid l) = map b_uid l.
Proof.
  intros Hf. induction l as [|b t IH]; cbn [map_uid map]; [reflexivity|].
  destruct (Nat.eqb (b_uid b) uid); cbn [map]; [rewrite Hf; reflexivity | rewrite IH; reflexivity].
Qed.
Lemma map_uid_regions f uid l : (forall b, b_region (f b) = b_region b) ->
  map b_region (map_uid f uid l) = map b_region l.
Proof.
  intros Hf. induction l as [|b t IH]; cbn [map_uid map]; [reflexivity|].
  destruct (Nat.eqb (b_uid b) uid); cbn [map]; [rewrite Hf; reflexivity | rewrite IH; reflexivity].
Qed.
Lemma map_uid_length f uid l : length (map_uid f uid l) = length l.
Proof.
  induction l as [|b t IH]; cbn [map_uid length]; [reflexivity|].
  destruct (Nat.eqb (b_uid b) uid); cbn [length]; [reflexivity | rewrite IH; reflexivity].
Qed.

Lemma find_uid_some uid l b : find_uid uid l = Some b -> In b l /\ b_uid b = uid.
Proof.
  induction l as [|x t IH]; cbn [find_uid]; [discriminate|].
  destruct (Nat.eqb (b_uid x) uid) eqn:E.
  - intros H. inversion H; subst. apply Nat.eqb_eq in E. split; [left; reflexivity | exact E].
  - intros H. destruct (IH H) as [H1 H2]. split; [right; exact H1 | exact H2].
Qed.
Lemma find_uid_none uid l : find_uid uid l = None -> ~ In uid (map b_uid l).
Proof.
  induction l as [|x t IH]; cbn [find_uid map]; [intros _ []|].
  destruct (Nat.eqb (b_uid x) uid) eqn:E; [discriminate|].
  intros H [H1|H1]; [apply Nat.eqb_neq in E; congruence | exact (IH H H1)].
Qed.
Lemma find_uid_in uid l : In uid (map b_uid l) -> exists b, find_uid uid l = Some b.
Proof.
  intros H. destruct (find_uid uid l) eqn:E; [eexists; reflexivity|].
  exfalso. exact (find_uid_none _ _ E H).
Qed.
Lemma find_uid_nodup uid l b : NoDup (map b_uid l) -> In b l -> b_uid b = uid -> find_uid uid l = Some b.
Proof.
  induction l as [|x t IH]; cbn [find_uid map]; [intros _ []|].
  intros ND [H|H] Hu.
  - subst x. rewrite Hu, Nat.eqb_refl. reflexivity.
  - inversion ND as [|? ? Hn ND']; subst. destruct (Nat.eqb (b_uid x) (b_uid b)) eqn:E.
    + apply Nat.eqb_eq in E. exfalso. apply Hn. rewrite E. apply in_map. exact H.
    + apply IH; auto.
Qed.

Lemma map_uid_none f uid l : ~ In uid (map b_uid l) -> map_uid f uid l = l.
Proof.
  induction l as [|x t IH]; cbn [map_uid map]; [reflexivity|].
  intros H. destruct (Nat.eqb (b_uid x) uid) eqn:E.
  - apply Nat.eqb_eq in E. exfalso. apply H. left. exact E.
  - rewrite IH; [reflexivity|]. intros H1. apply H. right. exact H1.
Qed.

(** under unique uids, [map_uid] changes exactly the block with that uid *)
Lemma In_map_uid f uid l x : NoDup (map b_uid l) -> (forall b, b_uid (f b) = b_uid b) ->
  In x (map_uid f uid l) ->
  (In x l /\ b_uid x <> uid) \/ (exists y, In y l /\ b_uid y = uid /\ x = f y).
Proof.
  intros ND Hf. induction l as [|b t IH]; cbn [map_uid]; [intros []|].
  inversion ND as [|? ? Hn ND']; subst.
  destruct (Nat.eqb (b_uid b) uid) eqn:E.
  - apply Nat.eqb_eq in E. intros [H|H].
    + right. exists b. split; [left; reflexivity|]. split; [exact E | symmetry; exact H].
    + left. split; [right; exact H|]. intros Hx. apply Hn. rewrite E, <- Hx. apply in_map. exact H.
  - apply Nat.eqb_neq in E. intros [H|H].
    + left. subst x. split; [left; reflexivity | exact E].
    + destruct (IH ND' H) as [[H1 H2]|[y [H1 [H2 H3]]]].
      * left. split; [right; exact H1 | exact H2].
      * right. exists y. split; [right; exact H1|]. split; assumption.
Qed.

Definition not_uid (uid : nat) (z : block) : bool := negb (Nat.eqb (b_uid z) uid).
Lemma In_filter_uid uid l x : In x (filter (not_uid uid) l) <-> In x l /\ b_uid x <> uid.
Proof.
  rewrite filter_In. unfold not_uid. rewrite negb_true_iff, Nat.eqb_neq. reflexivity.
Qed.
Lemma filter_id {T} (f : T -> bool) l : (forall x, In x l -> f x = true) -> filter f l = l.
Proof.
  induction l as [|x t IH]; cbn [filter]; [reflexivity|].
  intros H. rewrite (H x (or_introl eq_refl)). rewrite IH; [reflexivity|].
  intros y Hy. apply H. right. exact Hy.
Qed.
Lemma filter_uid_perm uid l b : NoDup (map b_uid l) -> find_uid uid l = Some b ->
  Permutation l (b :: filter (not_uid uid) l).
Proof.
  induction l as [|x t IH]; cbn [find_uid filter map]; [discriminate|].
  intros ND. inversion ND as [|? ? Hn ND']; subst. unfold not_uid at 1.
  destruct (Nat.eqb (b_uid x) uid) eqn:E; cbn [negb].
  - intros H. inversion H; subst. apply Nat.eqb_eq in E.
    assert (F : filter (not_uid uid) t = t).
    { apply filter_id. intros y Hy. unfold not_uid.
      rewrite negb_true_iff, Nat.eqb_neq. intros Hx. apply Hn. rewrite E, <- Hx. apply in_map. exact Hy. }
    rewrite F. apply Permutation_refl.
  - intros H. specialize (IH ND' H). rewrite perm_swap. apply perm_skip. exact IH.
Qed.

(** ---- the invariant ---- *)
Definition RegInv (c : config) (s : state) : Prop :=
  forall r, if in_memory c
            then rc s r <= (if Nat.ltb r (s_next_region s) then 1 else 0)
            else rc s r = (if Nat.ltb r (c_nblocks c) then 1 else 0).

(** allocator invariant relative to the multiset [R] of references held by
    threads (parked ones and the operation being executed) *)
Record AInv (c : config) (s : state) (R : list nat) : Prop := {
  a_nodup : NoDup (uids s);
  a_lt : forall u, In u (uids s) -> u < s_next_uid s;
  a_reg : RegInv c s;
  a_useb : forall b, In b (s_blocks s) -> b_use b = S (cnt R (b_uid b));
  a_usez : forall b, In b (s_zombies s) -> b_use b = cnt R (b_uid b) /\ 1 <= b_use b;
  a_refs : forall u, In u R -> In u (uids s);
}.

(** counters *)
Record CInv (c : config) (s : state) : Prop := {
  c_len : length (s_blocks s) = s_old s + s_cur s + s_new s;
  c_rel : (s_released s <= s_tbr s)%N;
  c_tbr : (s_tbr s <= s_released s + N.of_nat (length (s_blocks s)))%N;
  c_imm : c_mutable c = false -> s_cur s <= c_cur c /\ s_cur s + s_new s <= c_cur c + c_new c;
}.

(** frame: what every function of the model leaves alone / only extends,
    relative to a reference state [s0] (the state before the step) *)
Record Fr (s0 s : state) : Prop := {
  f_thr : s_threads s = s_threads s0;
  f_nuid : s_next_uid s0 <= s_next_uid s;
  f_old : forall b', In b' (allb s) -> b_uid b' < s_next_uid s0 ->
          exists b, In b (allb s0) /\ b_uid b = b_uid b' /\ b_region b = b_region b';
  f_tot : (s_released s0 + N.of_nat (length (s_blocks s0)) <= s_released s + N.of_nat (length (s_blocks s)))%N;
}.

Definition HI (c : config) (s0 s : state) (R : list nat) : Prop :=
  AInv c s R /\ CInv c s /\ Fr s0 s.

Lemma Fr_refl s : Fr s s.
Proof.
  constructor; try reflexivity; try lia.
  intros b' H _. exists b'. auto.
Qed.

Lemma AInv_perm c s R R' : Permutation R R' -> AInv c s R -> AInv c s R'.
Proof.
  intros P [H1 H2 H3 H4 H5 H6]. constructor; auto.
  - intros b Hb. rewrite <- (cnt_perm _ _ _ P). auto.
  - intros b Hb. rewrite <- (cnt_perm _ _ _ P). auto.
  - intros u Hu. apply H6. eapply Permutation_in; [apply Permutation_sym; exact P | exact Hu].
Qed.
Lemma HI_perm c s0 s R R' : Permutation R R' -> HI c s0 s R -> HI c s0 s R'.
Proof. intros P [A [C F]]. split; [eapply AInv_perm; eauto | split; assumption]. Qed.

(** states that agree on the allocator fields *)
Definition same_alloc (s s' : state) : Prop :=
  s_blocks s' = s_blocks s /\ s_zombies s' = s_zombies s /\ s_free s' = s_free s /\
  s_next_region s' = s_next_region s /\ s_next_uid s' = s_next_uid s.
Definition same_cnt (s s' : state) : Prop :=
  s_old s' = s_old s /\ s_cur s' = s_cur s /\ s_new s' = s_new s /\
  s_released s' = s_released s /\ s_tbr s' = s_tbr s.

Lemma AInv_same c s s' R : same_alloc s s' -> AInv c s R -> AInv c s' R.
Proof.
  intros (E1 & E2 & E3 & E4 & E5) [H1 H2 H3 H4 H5 H6].
  assert (EU : uids s' = uids s) by (unfold uids; rewrite E1, E2; reflexivity).
  constructor; try rewrite EU; try rewrite E5; try rewrite E1; try rewrite E2; auto.
  intros r. specialize (H3 r). unfold rc in *. rewrite E1, E2, E3, E4. exact H3.
Qed.
Lemma CInv_same c s s' : s_blocks s' = s_blocks s -> same_cnt s s' -> CInv c s -> CInv c s'.
Proof.
  intros E0 (E1 & E2 & E3 & E4 & E5) [H1 H2 H3 H4].
  constructor; rewrite ?E0, ?E1, ?E2, ?E3, ?E4, ?E5; auto.
Qed.
Lemma Fr_same s0 s s' : s_blocks s' = s_blocks s -> s_zombies s' = s_zombies s ->
  s_next_uid s' = s_next_uid s -> s_threads s' = s_threads s -> s_released s' = s_released s ->
  Fr s0 s -> Fr s0 s'.
Proof.
  intros E1 E2 E5 ET ER [H1 H2 H3 H4].
  constructor; unfold allb in *; rewrite ?E1, ?E2, ?E5, ?ET, ?ER; auto.
Qed.

(** updates that touch neither allocator nor counters nor threads *)
Lemma HI_same c s0 s s' R : same_alloc s s' -> same_cnt s s' -> s_threads s' = s_threads s ->
  HI c s0 s R -> HI c s0 s' R.
Proof.
  intros SA SC ST [A [C F]]. split; [|split].
  - apply (AInv_same c s s'); assumption.
  - apply (CInv_same c s s'); [apply SA | exact SC | exact C].
  - destruct SA as (E1 & E2 & E3 & E4 & E5). destruct SC as (_ & _ & _ & E & _).
    apply (Fr_same s0 s s'); assumption.
Qed.

Ltac same_tac := unfold same_alloc, same_cnt; sred; repeat split; reflexivity.

Lemma HI_upd_dev c s0 s R d : HI c s0 s R -> HI c s0 (upd_dev s d) R.
Proof. apply HI_same; same_tac. Qed.
Lemma HI_upd_index c s0 s R ix : HI c s0 s R -> HI c s0 (upd_index s ix) R.
Proof. apply HI_same; same_tac. Qed.
Lemma HI_upd_alloc c s0 s R a i : HI c s0 s R -> HI c s0 (upd_alloc s a i) R.
Proof. apply HI_same; same_tac. Qed.
Lemma HI_bump_negs c s0 s R : HI c s0 s R -> HI c s0 (bump_negs s) R.
Proof. apply HI_same; same_tac. Qed.

Lemma HI_write_block c s0 s R uid off data : HI c s0 s R -> HI c s0 (write_block s uid off data) R.
Proof. intros H. unfold write_block. destruct (find_block s uid); [apply HI_upd_dev|]; exact H. Qed.
Lemma HI_index_put c s0 s R k l : HI c s0 s R -> HI c s0 (index_put s k l) R.
Proof. apply HI_upd_index. Qed.
Lemma HI_index_put_all c s0 ks : forall s R l, HI c s0 s R -> HI c s0 (index_put_all s ks l) R.
Proof.
  induction ks as [|k t IH]; intros s R l H; cbn [index_put_all]; [exact H|].
  apply IH. apply HI_index_put. exact H.
Qed.

(** ---- pin ---- *)
Lemma NoDup_app_disj {T} (l1 l2 : list T) x : NoDup (l1 ++ l2) -> In x l1 -> In x l2 -> False.
Proof.
  induction l1 as [|a t IH]; cbn [app]; [intros _ []|].
  intros ND. inversion ND as [|? ? Hn ND']; subst. intros [H|H] H2.
  - subst. apply Hn. apply in_or_app. right. exact H2.
  - exact (IH ND' H H2).
Qed.
Lemma NoDup_app_l {T} (l1 l2 : list T) : NoDup (l1 ++ l2) -> NoDup l1.
Proof.
  induction l1 as [|a t IH]; cbn [app]; [constructor|].
  intros ND. inversion ND as [|? ? Hn ND']; subst. constructor; [|auto].
  intros H. apply Hn. apply in_or_app. left. exact H.
Qed.
Lemma NoDup_app_r {T} (l1 l2 : list T) : NoDup (l1 ++ l2) -> NoDup l2.
Proof.
  induction l1 as [|a t IH]; cbn [app]; [auto|].
  intros ND. inversion ND; subst. auto.
Qed.
Lemma uids_in_split s u : In u (uids s) -> NoDup (uids s) ->
  (In u (map b_uid (s_blocks s)) /\ ~ In u (map b_uid (s_zombies s))) \/
  (~ In u (map b_uid (s_blocks s)) /\ In u (map b_uid (s_zombies s))).
Proof.
  unfold uids. intros H ND. apply in_app_or in H. destruct H as [H|H].
  - left. split; [exact H|]. intros H'. exact (NoDup_app_disj _ _ _ ND H H').
  - right. split; [|exact H]. intros H'. exact (NoDup_app_disj _ _ _ ND H' H).
Qed.

Lemma set_use_uid b u : b_uid (set_use b u) = b_uid b.
Proof. reflexivity. Qed.

Lemma HI_pin c s0 s R uid : In uid (uids s) -> HI c s0 s R -> HI c s0 (pin s uid) (uid :: R).
Proof.
  intros Hin [[A1 A2 A3 A4 A5 A6] [C F]].
  set (f := fun b => set_use b (S (b_use b))).
  assert (Hfu : forall b, b_uid (f b) = b_uid b) by reflexivity.
  assert (Hfr : forall b, b_region (f b) = b_region b) by reflexivity.
  assert (EU : uids (pin s uid) = uids s).
  { unfold uids, pin. sred. fold f. rewrite !map_uid_uids by exact Hfu. reflexivity. }
  assert (NDb : NoDup (map b_uid (s_blocks s))) by (unfold uids in A1; apply NoDup_app_l in A1; exact A1).
  assert (NDz : NoDup (map b_uid (s_zombies s))) by (unfold uids in A1; apply NoDup_app_r in A1; exact A1).
  split; [|split].
  - constructor; try rewrite EU; auto.
    + intros r. specialize (A3 r). unfold rc, rcl, pin in *. sred. fold f.
      rewrite !map_uid_regions by exact Hfr. exact A3.
    + unfold pin. sred. fold f. intros b Hb. rewrite cnt_cons.
      apply (In_map_uid f uid _ _ NDb Hfu) in Hb. destruct Hb as [[H1 H2]|[y [H1 [H2 H3]]]].
      * apply Nat.eqb_neq in H2. rewrite Nat.eqb_sym in H2. rewrite H2. cbn. auto.
      * subst b. unfold f. sred. rewrite H2, Nat.eqb_refl. rewrite (A4 _ H1), H2. cbn. reflexivity.
    + unfold pin. sred. fold f. intros b Hb. rewrite cnt_cons.
      apply (In_map_uid f uid _ _ NDz Hfu) in Hb. destruct Hb as [[H1 H2]|[y [H1 [H2 H3]]]].
      * apply Nat.eqb_neq in H2. rewrite Nat.eqb_sym in H2. rewrite H2. cbn. auto.
      * subst b. unfold f. sred. rewrite H2, Nat.eqb_refl. destruct (A5 _ H1) as [E1 E2].
        rewrite E1, H2. cbn. split; [reflexivity | lia].
    + intros u [Hu|Hu]; [subst; exact Hin | auto].
  - destruct C as [C1 C2 C3 C4]. unfold pin. constructor; sred; rewrite ?map_uid_length; auto.
  - destruct F as [F1 F2 F3 F4]. unfold pin. constructor; sred; rewrite ?map_uid_length; auto.
    fold f. intros b' Hb' Hlt. unfold allb in Hb'. sred.
    assert (exists y, In y (allb s) /\ b_uid y = b_uid b' /\ b_region y = b_region b') as [y [Y1 [Y2 Y3]]].
    { apply in_app_or in Hb'. destruct Hb' as [Hb'|Hb'].
      - apply (In_map_uid f uid _ _ NDb Hfu) in Hb'. destruct Hb' as [[H1 H2]|[y [H1 [H2 H3]]]].
        + exists b'. split; [apply in_or_app; left; exact H1 | auto].
        + exists y. split; [apply in_or_app; left; exact H1 | subst b'; auto].
      - apply (In_map_uid f uid _ _ NDz Hfu) in Hb'. destruct Hb' as [[H1 H2]|[y [H1 [H2 H3]]]].
        + exists b'. split; [apply in_or_app; right; exact H1 | auto].
        + exists y. split; [apply in_or_app; right; exact H1 | subst b'; auto]. }
    destruct (F3 y Y1) as [b [B1 [B2 B3]]]; [rewrite Y2; exact Hlt|].
    exists b. split; [exact B1|]. split; congruence.
Qed.
