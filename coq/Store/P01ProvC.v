(** C01 proofs: provenance / thread-id part.  File C: what one [step] does
    to the index and the thread list, per event kind (model only). *)
From Coq Require Import List NArith ZArith Bool Arith Lia.
From BBS Require Import Common.Sx Store.Model Store.Wf Store.WfTids Run.RStore Run.R01
  Store.P01Defs Store.P01Inv Store.P01ProvA Store.P01ProvB.
Import ListNotations.
Local Open Scope nat_scope.

Definition put_thread (w : world) (o i : nat) (t : thread) : Prop :=
  (exists wr acc, t = TPut o i wr acc) \/ ((exists acc, t = TPutExisting o i acc) /\ c_hier (w_cfg w) = true).

Lemma step_putstart w s tid o i s1 out :
  step w s (OPutStart tid o i) = (s1, out) ->
  (out = Bad /\ s1 = s) \/
  (thr_get (s_threads s) tid = None /\
   exists s', same s s' /\
     ((exists e, out = Done e [] /\ s1 = s') \/
      (exists t, out = Parked /\ s1 = thr_set s' tid t /\ put_thread w o i t))).
Proof.
  unfold step. cbn [may_take_refresh_lock is_corrupt andb].
  destruct (thr_get (s_threads s) tid) eqn:ET.
  { intros H; injection H as <- <-. left; split; reflexivity. }
  destruct (put_start w s o i) as [r s'] eqn:EP. apply put_start_spec in EP. destruct EP as [S1 R].
  right. split; [reflexivity|]. exists s'. split; [exact S1|].
  destruct r as [t|e]; injection H as <- <-.
  - right. exists t. split; [reflexivity|]. split; [reflexivity|].
    destruct R as [[wr ->]|[-> Hh]]; [left; eauto|right; eauto].
  - left. eauto.
Qed.

Lemma step_putchunk w s tid data s1 out :
  step w s (OPutChunk tid data) = (s1, out) ->
  match thr_get (s_threads s) tid with
  | Some (TPut o i wr acc) =>
      exists s', same s s' /\
        ((s1 = thr_rm s' tid /\ out = Done cInvalidArgument []) \/
         (exists acc', s1 = thr_set s' tid (TPut o i wr acc') /\ out = Parked))
  | Some (TPutExisting o i acc) =>
      (s1 = thr_rm s tid /\ out = Done cInvalidArgument []) \/
      (exists acc', s1 = thr_set s tid (TPutExisting o i acc') /\ out = Parked)
  | _ => s1 = s /\ out = Bad
  end.
Proof.
  unfold step. cbn [may_take_refresh_lock is_corrupt andb].
  destruct (thr_get (s_threads s) tid) as [t|] eqn:ET; [|intros H; injection H as <- <-; auto].
  destruct t as [o i wr acc|o i acc| | |]; try (intros H; injection H as <- <-; auto).
  - destruct (N.ltb (wr_size wr) (N.of_nat (length acc + length data))); intros H.
    + destruct (finalize (w_cfg w) s wr false) as [r s'] eqn:EF. apply finalize_spec in EF. destruct EF as [S1 _].
      injection H as <- <-. exists s'. split; [exact S1|]. left. auto.
    + injection H as <- <-. eexists. split; [apply same_write_block|]. right.
      eexists. split; reflexivity.
  - destruct (N.ltb (osize w o) (N.of_nat (length acc + length data))); intros H; injection H as <- <-.
    + left; auto.
    + right. eexists. split; reflexivity.
Qed.

Lemma step_putend w s tid err s1 out :
  step w s (OPutEnd tid err) = (s1, out) ->
  match thr_get (s_threads s) tid with
  | Some (TPut o i wr acc) =>
      exists s' code, s1 = thr_rm s' tid /\ out = Done code [] /\
        ext (fun k => code = 0%Z /\ In k (finalize_keys w o i)) s s'
  | Some (TPutExisting o i acc) =>
      exists s' code, s1 = thr_rm s' tid /\ out = Done code [] /\
        ext (fun k => code = 0%Z /\ k = (o, S i)) s s'
  | _ => s1 = s /\ out = Bad
  end.
Proof.
  unfold step. cbn [may_take_refresh_lock is_corrupt andb].
  destruct (thr_get (s_threads s) tid) as [t|] eqn:ET; [|intros H; injection H as <- <-; auto].
  destruct t as [o i wr acc|o i acc| | |]; try (intros H; injection H as <- <-; auto).
  - match goal with |- context [finalize ?c ?x ?wr ?okk] => destruct (finalize c x wr okk) as [r s'] eqn:EF end.
    apply finalize_spec in EF. destruct EF as [S1 _].
    destruct r as [l|e]; intros H; injection H as <- <-.
    + do 2 eexists. split; [reflexivity|]. split; [reflexivity|].
      eapply ext_same_l; [exact S1|]. eapply ext_weaken; [|apply ext_index_put_all].
      intros k Hk. split; [reflexivity|exact Hk].
    + do 2 eexists. split; [reflexivity|]. split; [reflexivity|]. apply same_ext. exact S1.
  - destruct (negb (Z.eqb err 0)).
    { intros H; injection H as <- <-. do 2 eexists. split; [reflexivity|]. split; [reflexivity|apply ext_refl]. }
    destruct (negb (bytes_eqb acc (content w o))).
    { intros H; injection H as <- <-. do 2 eexists. split; [reflexivity|]. split; [reflexivity|apply ext_refl]. }
    destruct (index_get s (canonical_key o)); intros H; injection H as <- <-.
    + do 2 eexists. split; [reflexivity|]. split; [reflexivity|].
      eapply ext_weaken; [|apply ext_index_put]. intros k ->. split; reflexivity.
    + do 2 eexists. split; [reflexivity|]. split; [reflexivity|apply ext_refl].
Qed.

Lemma step_getopen w up s tid o i s1 out :
  icov w up s ->
  step w s (OGetOpen tid o i) = (s1, out) ->
  (out = Bad /\ s1 = s) \/
  (thr_get (s_threads s) tid = None /\
   exists s', s_threads s' = s_threads s /\ icov w up s' /\
     ((exists e, out = Done e [] /\ s1 = s') \/
      (exists t, out = Parked /\ s1 = thr_set s' tid t /\
                 is_tget_of o (kcov w up) t /\ visible w up o i = true))).
Proof.
  intros IC. unfold step. cbn [may_take_refresh_lock is_corrupt andb].
  destruct (thr_get (s_threads s) tid) eqn:ET.
  { intros H; injection H as <- <-. left; split; reflexivity. }
  destruct (get_open w s o i) as [r s'] eqn:EP. apply (get_open_spec w up) in EP; [|exact IC].
  destruct EP as (T1 & I1 & R).
  right. split; [reflexivity|]. exists s'. split; [exact T1|]. split; [exact I1|].
  destruct r as [t|e]; injection H as <- <-.
  - right. exists t. destruct R. auto.
  - left. eauto.
Qed.

Lemma step_getconsume w s tid s1 out :
  step w s (OGetConsume tid) = (s1, out) ->
  match thr_get (s_threads s) tid with
  | Some (TGet o uid l rf fk) =>
      exists s' code bytes, s1 = thr_rm s' tid /\ out = Done code bytes /\
        ext (fun k => In k fk) s s' /\
        (c_validate (w_cfg w) = true -> code = cOK -> bytes = content w o)
  | _ => s1 = s /\ out = Bad
  end.
Proof.
  unfold step. cbn [may_take_refresh_lock is_corrupt andb].
  destruct (thr_get (s_threads s) tid) as [t|] eqn:ET; [|intros H; injection H as <- <-; auto].
  destruct t as [| |o uid l rf fk| |]; try (intros H; injection H as <- <-; auto).
  destruct (get_consume w s o uid l rf fk) as [[code bytes] s'] eqn:EG.
  apply get_consume_spec in EG. destruct EG as [X V].
  intros H; injection H as <- <-. exists s', code, bytes. auto.
Qed.

Lemma step_findmissing w up s ds s1 out :
  icov w up s ->
  step w s (OFindMissing ds) = (s1, out) ->
  s_threads s1 = s_threads s /\ icov w up s1 /\
  (out = Bad \/
   exists code ml, out = Missing code ml /\
     (code = 0%Z -> forall pos o i, In (pos, (o, i)) (enumerate 0 ds) -> In pos ml \/ visible w up o i = true)).
Proof.
  intros IC. unfold step. cbn [may_take_refresh_lock is_corrupt andb].
  destruct (refresh_lock_held s).
  { intros H; injection H as <- <-. auto. }
  destruct (find_missing w s ds) as [m s'] eqn:EF. apply (find_missing_spec w up) in EF; [|exact IC].
  destruct EF as (T1 & I1 & R).
  destruct m as [ml|e]; intros H; injection H as <- <-; (split; [exact T1|]); (split; [exact I1|]); right.
  - do 2 eexists. split; [reflexivity|]. intros _ pos o i Hin.
    destruct (R pos o i Hin) as [X|X]; [left; apply In_sort_nat; exact X|right; exact X].
  - do 2 eexists. split; [reflexivity|]. intros E. contradiction.
Qed.

Lemma step_corrupt w s r off len s1 out :
  step w s (OCorrupt r off len) = (s1, out) ->
  same s s1 /\ s_negs s1 = s_negs s /\ (out = Bad \/ out = Done cOK []).
Proof.
  unfold step. cbn [may_take_refresh_lock is_corrupt andb].
  destruct (reader_open s).
  { intros H; injection H as <- <-. auto. }
  destruct (dev_get (s_dev s) r); intros H; injection H as <- <-; (split; [|auto]).
  - apply same_refl.
  - split; reflexivity.
Qed.

Lemma flat_get_visible w up s o i l :
  c_hier (w_cfg w) = false -> icov w up s -> index_get s (flat_key (w_cfg w) o i) = Some l ->
  kcov w up (flat_key (w_cfg w) o i) /\ visible w up o i = true.
Proof.
  intros Eh IC G. assert (K : kcov w up (flat_key (w_cfg w) o i)) by (eapply icov_get; eauto).
  split; [exact K|]. eapply kcov_visible; [|exact K]. unfold lookup_keys. rewrite Eh. left; reflexivity.
Qed.

Definition gfc_thread (w : world) (up : list (nat * nat)) (p i : nat) (t : thread) : Prop :=
  (c_hier (w_cfg w) = true /\
   ((exists e, t = TGfcErr e /\ e <> 0%Z) \/ (is_tget_of p (kcov w up) t /\ visible w up p i = true))) \/
  (c_hier (w_cfg w) = false /\
   exists uid pl rf, t = TGfc p i uid pl rf (flat_key (w_cfg w) p i) /\
                     kcov w up (flat_key (w_cfg w) p i) /\ visible w up p i = true).

Lemma step_gfcstart w up s tid p i ch s1 out :
  icov w up s ->
  step w s (OGfcStart tid p i ch) = (s1, out) ->
  (out = Bad /\ s1 = s) \/
  (thr_get (s_threads s) tid = None /\
   exists s', s_threads s' = s_threads s /\ icov w up s' /\
     ((exists code bytes, out = Done code bytes /\ s1 = s' /\ c_hier (w_cfg w) = false /\
         (code = cOK -> visible w up ch i = true /\ (c_validate (w_cfg w) = true -> bytes = content w ch))) \/
      (exists t, out = Parked /\ s1 = thr_set s' tid t /\ gfc_thread w up p i t))).
Proof.
  intros IC. unfold step. cbn [may_take_refresh_lock is_corrupt andb].
  destruct (refresh_lock_held s).
  { intros H; injection H as <- <-. auto. }
  destruct (thr_get (s_threads s) tid) eqn:ET.
  { intros H; injection H as <- <-. auto. }
  destruct (c_hier (w_cfg w)) eqn:Eh.
  - destruct (get_open w s p i) as [r s'] eqn:EP. apply (get_open_spec w up) in EP; [|exact IC].
    destruct EP as (T1 & I1 & R).
    destruct r as [t|e].
    + destruct R as [R V]. pose proof R as R'. destruct R' as (uid & l & rf & fk & -> & FK).
      intros H; injection H as <- <-. right. split; [reflexivity|]. exists s'. split; [exact T1|]. split; [exact I1|].
      right. eexists. split; [reflexivity|]. split; [reflexivity|]. left. split; [exact Eh|]. right. auto.
    + intros H; injection H as <- <-. right. split; [reflexivity|]. exists s'. split; [exact T1|]. split; [exact I1|].
      right. eexists. split; [reflexivity|]. split; [reflexivity|]. left. split; [exact Eh|]. left. eauto.
  - destruct (index_get s (flat_key (w_cfg w) p i)) as [pl|] eqn:EG.
    2:{ intros H; injection H as <- <-. right. split; [reflexivity|]. exists s. split; [reflexivity|]. split; [exact IC|].
        left. do 2 eexists. split; [reflexivity|]. split; [reflexivity|]. split; [reflexivity|]. discriminate. }
    destruct (flat_get_visible _ _ _ _ _ _ Eh IC EG) as [KP VP].
    remember (if needs_refresh s pl then None
              else match index_get s (flat_key (w_cfg w) ch i) with
                   | Some cl => match block_of_loc s cl with Some b => Some (cl, b_uid b) | None => None end
                   | None => None
                   end) as direct eqn:ED.
    symmetry in ED. destruct direct as [[cl uid]|].
    + assert (GC : index_get s (flat_key (w_cfg w) ch i) = Some cl).
      { destruct (needs_refresh s pl); [discriminate|].
        destruct (index_get s (flat_key (w_cfg w) ch i)) as [cl'|]; [|discriminate].
        destruct (block_of_loc s cl'); [|discriminate]. injection ED as <- _. reflexivity. }
      destruct (flat_get_visible _ _ _ _ _ _ Eh IC GC) as [KC VC].
      destruct (get_consume w (pin s uid) ch uid cl None []) as [[code bytes] s2] eqn:EC.
      apply get_consume_spec in EC. destruct EC as [X V].
      assert (X' : ext (fun k => In k []) s s2) by (eapply ext_same_l; [apply same_pin|exact X]).
      intros H; injection H as <- <-. right. split; [reflexivity|]. exists s2. split; [apply X'|].
      split; [eapply ext_icov; [exact X'|exact IC|intros k []]|].
      left. exists code, bytes. split; [reflexivity|]. split; [reflexivity|]. split; [reflexivity|].
      intros Hc. split; [exact VC|]. intros Hv. apply V; assumption.
    + destruct (block_of_loc s pl) as [b|].
      2:{ intros H; injection H as <- <-. auto. }
      pose proof (same_pin s (b_uid b)) as S1.
      destruct (needs_refresh s pl).
      * destruct (ocn_put (w_cfg w) (pin s (b_uid b)) (l_size pl)) as [r2 s2] eqn:E2.
        apply ocn_put_spec in E2. destruct E2 as [S2 N2]. pose proof (same_trans _ _ _ S1 S2) as S2'.
        destruct r2 as [wr|e2].
        -- match goal with |- (thr_set ?s3 _ _, _) = _ -> _ => assert (S3 : same s s3) end.
           { destruct (lockstep (w_cfg w)); [exact S2'|].
             eapply same_trans; [exact S2'|]. eapply same_trans; [apply same_write_block|apply same_unpin]. }
           intros H; injection H as <- <-. right. split; [reflexivity|]. eexists. split; [apply S3|].
           split; [eapply same_icov; eauto|]. right. eexists. split; [reflexivity|]. split; [reflexivity|].
           right. split; [exact Eh|]. do 3 eexists. split; [reflexivity|]. auto.
        -- assert (S3 : same s (unpin (w_cfg w) s2 (b_uid b))) by (eapply same_trans; [exact S2'|apply same_unpin]).
           intros H; injection H as <- <-. right. split; [reflexivity|]. eexists. split; [apply S3|].
           split; [eapply same_icov; eauto|]. left. do 2 eexists. split; [reflexivity|]. split; [reflexivity|].
           split; [reflexivity|]. intros Hc. exfalso. eapply N2; [reflexivity|exact Hc].
      * intros H; injection H as <- <-. right. split; [reflexivity|]. eexists. split; [apply S1|].
        split; [eapply same_icov; eauto|]. right. eexists. split; [reflexivity|]. split; [reflexivity|].
        right. split; [exact Eh|]. do 3 eexists. split; [reflexivity|]. auto.
Qed.

Lemma fold_ext {A} (f : state -> A -> state) (K : A -> key) :
  (forall acc x, ext (fun k => k = K x) acc (f acc x)) ->
  forall l s, ext (fun k => exists x, In x l /\ k = K x) s (fold_left f l s).
Proof.
  intros HF. induction l as [|x t IH]; intros s; cbn [fold_left]; [apply ext_refl|].
  eapply ext_trans.
  - eapply ext_weaken; [|apply (HF s x)]. intros k ->. exists x. split; [left; reflexivity|reflexivity].
  - eapply ext_weaken; [|apply IH]. intros k [y [Hy ->]]. exists y. split; [right; exact Hy|reflexivity].
Qed.

Lemma same_finalize_snd c s wr ok : same s (snd (finalize c s wr ok)).
Proof. destruct (finalize c s wr ok) as [r s2] eqn:EF. apply finalize_spec in EF. apply EF. Qed.

Definition slice_keys (w : world) (i : nat) (pk : key) (slices : list (nat * (N * N))) (k : key) : Prop :=
  k = pk \/ exists x, In x slices /\ k = flat_key (w_cfg w) (fst x) i.

Lemma step_gfcslice w s tid slices s1 out :
  step w s (OGfcSlice tid slices) = (s1, out) ->
  match thr_get (s_threads s) tid with
  | Some (TGfcErr e) => s1 = thr_rm s tid /\ out = Done e []
  | Some (TGet o uid l rf fk) =>
      exists s' code bytes, s1 = thr_rm s' tid /\ out = Done code bytes /\
        ext (fun k => In k fk) s s' /\
        (c_validate (w_cfg w) = true -> code = cOK -> bytes = first_slice (content w o) slices)
  | Some (TGfc p i uid pl rf pk) =>
      exists s' code bytes, s1 = thr_rm s' tid /\ out = Done code bytes /\
        ext (fun k => code = 0%Z /\ slice_keys w i pk slices k) s s' /\
        (c_validate (w_cfg w) = true -> code = cOK -> bytes = first_slice (content w p) slices)
  | _ => s1 = s /\ out = Bad
  end.
Proof.
  unfold step. cbn [may_take_refresh_lock is_corrupt andb].
  destruct (thr_get (s_threads s) tid) as [t|] eqn:ET; [|intros H; injection H as <- <-; auto].
  destruct t as [| |o uid l rf fk|p i uid pl rf pk|e]; try (intros H; injection H as <- <-; auto).
  - (* TGet *)
    destruct (get_consume w s o uid l rf fk) as [[code bytes] s'] eqn:EG.
    apply get_consume_spec in EG. destruct EG as [X V].
    destruct (Z.eqb code cOK) eqn:EC; intros H; injection H as <- <-.
    + apply Z.eqb_eq in EC. do 3 eexists. split; [reflexivity|]. split; [reflexivity|]. split; [exact X|].
      intros Hv _. rewrite <- (V Hv EC). reflexivity.
    + do 3 eexists. split; [reflexivity|]. split; [reflexivity|]. split; [exact X|].
      intros _ Hc. subst code. discriminate.
  - (* TGfc *)
    cbv zeta.
    destruct (read_validated w s p uid pl) as [[valid bytes] s1'] eqn:ER.
    apply read_validated_spec in ER. destruct ER as [S1 V].
    assert (S1u : same s (unpin (w_cfg w) s1' uid)) by (eapply same_trans; [exact S1|apply same_unpin]).
    assert (MK : forall ploc s0,
      ext (fun k => exists x, In x slices /\ k = flat_key (w_cfg w) (fst x) i) s0
        (fold_left (fun acc '(cho, (off, len)) =>
                      index_put acc (flat_key (w_cfg w) cho i)
                        {| l_abs := l_abs ploc; l_off := (l_off ploc + off)%N; l_size := len |}) slices s0)).
    { intros ploc s0. apply (fold_ext _ (fun x => flat_key (w_cfg w) (fst x) i)).
      intros acc [cho [off len]]. apply ext_index_put. }
    destruct valid; cbn [negb].
    2:{ intros H; injection H as <- <-. do 3 eexists. split; [reflexivity|]. split; [reflexivity|].
        split; [|intros _ Hc; discriminate]. apply same_ext.
        destruct rf as [wr|]; [|exact S1u]. destruct (lockstep (w_cfg w)); [|exact S1u].
        eapply same_trans; [exact S1u|first [apply same_finalize_snd|apply same_unpin]]. }
    assert (OKC : forall s', ext (fun k => slice_keys w i pk slices k) s s' ->
       exists s'0 code bytes0, thr_rm s' tid = thr_rm s'0 tid /\
         Done cOK (match slices with (_, (off, len)) :: _ => slice bytes (N.to_nat off) (N.to_nat len) | [] => [] end)
           = Done code bytes0 /\
         ext (fun k => code = 0%Z /\ slice_keys w i pk slices k) s s'0 /\
         (c_validate (w_cfg w) = true -> code = cOK -> bytes0 = first_slice (content w p) slices)).
    { intros s' X. do 3 eexists. split; [reflexivity|]. split; [reflexivity|].
      split; [eapply ext_weaken; [|exact X]; intros k Hk; split; [reflexivity|exact Hk]|].
      intros Hv _. rewrite <- (V Hv eq_refl). reflexivity. }
    assert (ERRC : forall s' e, same s s' -> e <> 0%Z ->
       exists s'0 code bytes0, thr_rm s' tid = thr_rm s'0 tid /\ Done e [] = Done code bytes0 /\
         ext (fun k => code = 0%Z /\ slice_keys w i pk slices k) s s'0 /\
         (c_validate (w_cfg w) = true -> code = cOK -> bytes0 = first_slice (content w p) slices)).
    { intros s' e X Ne. do 3 eexists. split; [reflexivity|]. split; [reflexivity|].
      split; [apply same_ext; exact X|]. intros _ Hc. contradiction. }
    destruct rf as [wr|].
    + destruct (lockstep (w_cfg w)).
      * match goal with |- context [finalize ?c ?x ?wr ?okk] => destruct (finalize c x wr okk) as [r s3] eqn:EF end.
        apply finalize_spec in EF. destruct EF as [S3 N3].
        assert (S3' : same s s3).
        { eapply same_trans; [exact S1u|]. eapply same_trans; [apply same_write_block|exact S3]. }
        destruct r as [nl|e]; intros H; injection H as <- <-.
        -- apply OKC. eapply ext_same_l; [exact S3'|]. eapply ext_trans.
           ++ eapply ext_weaken; [|apply ext_index_put]. intros k ->. left; reflexivity.
           ++ eapply ext_weaken; [|apply MK]. intros k Hk. right; exact Hk.
        -- apply ERRC; [exact S3'|apply N3; reflexivity].
      * unfold fin_check. destruct (N.ltb (wr_abs wr) (s_tbr (unpin (w_cfg w) s1' uid)));
          intros H; injection H as <- <-.
        -- apply ERRC; [exact S1u|discriminate].
        -- apply OKC. eapply ext_same_l; [exact S1u|].
           set (nl := {| l_abs := wr_abs wr; l_off := wr_off wr; l_size := wr_size wr |}).
           apply (ext_trans _ _ (index_put (unpin (w_cfg w) s1' uid) pk nl)).
           ++ eapply ext_weaken; [|apply ext_index_put]. intros k ->. left; reflexivity.
           ++ eapply ext_weaken; [|apply (MK nl)]. intros k Hk. right; exact Hk.
    + destruct (index_get (unpin (w_cfg w) s1' uid) pk) as [pl'|]; intros H; injection H as <- <-.
      * apply OKC. eapply ext_same_l; [exact S1u|]. eapply ext_weaken; [|apply MK]. intros k Hk. right; exact Hk.
      * apply OKC. apply same_ext. exact S1u.
Qed.
