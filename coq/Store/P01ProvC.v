(** C01 proofs: provenance / thread-id part.  File C: what one [step] does
    to the index and the thread list, per event kind (model only). *)
From Coq Require Import List NArith ZArith Bool Arith Lia.
From BBS Require Import Common.Sx Store.Model Store.Wf Store.WfTids Run.RStore Run.R01
  Store.P01Defs Store.P01Inv Store.P01ProvA Store.P01ProvB.
Import ListNotations.
Local Open Scope nat_scope.

Definition put_thread (w : world) (o i : nat) (t : thread) : Prop :=
  (exists wr acc, t = TPut o i wr acc) \/ ((exists acc, t = TPutExisting o i acc) /\ c_hier (w_cfg w) = true).

Lemma step_putstart w s tid o i s1 out :
  step w s (OPutStart tid o i) = (s1, out) ->
  (out = Bad /\ s1 = s) \/
  (thr_get (s_threads s) tid = None /\
   exists s', same s s' /\
     ((exists e, out = Done e [] /\ s1 = s') \/
      (exists t, out = Parked /\ s1 = thr_set s' tid t /\ put_thread w o i t))).
Proof.
  unfold step. cbn [may_take_refresh_lock is_corrupt andb].
  destruct (thr_get (s_threads s) tid) eqn:ET.
  { intros H; injection H as <- <-. left; split; reflexivity. }
  destruct (put_start w s o i) as [r s'] eqn:EP. apply put_start_spec in EP. destruct EP as [S1 R].
  right. split; [reflexivity|]. exists s'. split; [exact S1|].
  destruct r as [t|e]; injection H as <- <-.
  - right. exists t. split; [reflexivity|]. split; [reflexivity|].
    destruct R as [[wr ->]|[-> Hh]]; [left; eauto|right; eauto].
  - left. eauto.
Qed.

Lemma step_putchunk w s tid data s1 out :
  step w s (OPutChunk tid data) = (s1, out) ->
  match thr_get (s_threads s) tid with
  | Some t =>
      (exists o i, put_thread w o i t /\ exists s', same s s' /\
        ((s1 = thr_rm s' tid /\ out = Done cInvalidArgument []) \/
         (exists t', put_thread w o i t' /\ s1 = thr_set s' tid t' /\ out = Parked)))
      \/ (s1 = s /\ out = Bad)
  | None => s1 = s /\ out = Bad
  end.
Proof.
  unfold step. cbn [may_take_refresh_lock is_corrupt andb].
  destruct (thr_get (s_threads s) tid) as [t|] eqn:ET; [|intros H; injection H as <- <-; auto].
  destruct t as [o i wr acc|o i acc| | |]; try (intros H; injection H as <- <-; right; auto).
  - left. exists o, i. split; [left; eauto|].
    destruct (N.ltb (wr_size wr) (N.of_nat (length acc + length data))).
    + destruct (finalize (w_cfg w) s wr false) as [r s'] eqn:EF. apply finalize_spec in EF. destruct EF as [S1 _].
      injection H as <- <-. exists s'. split; [exact S1|]. left. auto.
    + injection H as <- <-. eexists. split; [apply same_write_block|]. right.
      eexists. split; [left; eauto|]. split; reflexivity.
  - intros H. left. exists o, i. split; [right; eauto|]. admit.
Admitted.
