(** C01 proofs: provenance / thread-id part.  File E: one monitor step on
    one model step preserves the invariant and adds no violation. *)
From Coq Require Import List NArith ZArith Bool Arith Lia.
From BBS Require Import Common.Sx Store.Model Store.Wf Store.WfTids Run.RStore Run.R01
  Store.P01Defs Store.P01Inv Store.P01ProvA Store.P01ProvB Store.P01ProvC Store.P01ProvD.
Import ListNotations.
Local Open Scope nat_scope.

(** the monitor step without the clause-3 test *)
Definition mon01_body (w : world) (m : m01) (e : op) (o : sx) : m01 :=
  match e with
  | OPutStart tid ob i =>
      if Z.eqb (ob_kind o) 1 then
        {| m_puts := (tid, (ob, i)) :: m_puts m; m_gets := m_gets m; m_gfcs := m_gfcs m;
           m_uploaded := m_uploaded m; m_corrupted := m_corrupted m; m_viol := m_viol m |}
      else m
  | OPutChunk tid _ | OPutEnd tid _ =>
      if Z.eqb (ob_kind o) 0 then
        match assoc (m_puts m) tid with
        | Some oi =>
            {| m_puts := unassoc (m_puts m) tid; m_gets := m_gets m; m_gfcs := m_gfcs m;
               m_uploaded := if ob_ok o then oi :: m_uploaded m else m_uploaded m;
               m_corrupted := m_corrupted m; m_viol := m_viol m |}
        | None => m
        end
      else m
  | OGetOpen tid ob i =>
      if Z.eqb (ob_kind o) 1 then
        {| m_puts := m_puts m; m_gets := (tid, (ob, i)) :: m_gets m; m_gfcs := m_gfcs m;
           m_uploaded := m_uploaded m; m_corrupted := m_corrupted m; m_viol := m_viol m |}
      else m
  | OGetConsume tid =>
      match assoc (m_gets m) tid with
      | Some (ob, i) =>
          let m' := {| m_puts := m_puts m; m_gets := unassoc (m_gets m) tid; m_gfcs := m_gfcs m;
                       m_uploaded := m_uploaded m; m_corrupted := m_corrupted m; m_viol := m_viol m |} in
          if ob_ok o then add_viol m' (check_read w m ob i (ob_bytes o)) else m'
      | None => m
      end
  | OFindMissing ds =>
      if Z.eqb (ob_kind o) 2 && Z.eqb (ob_code o) 0 then
        let missing := sx_nats (sx_nth o 2) in
        let present := filter (fun '(pos, _) => negb (existsb (Nat.eqb pos) missing)) (enumerate 0 ds) in
        if forallb (fun '(_, (ob, i)) => visible w (m_uploaded m) ob i) present then m else add_viol m [2%Z]
      else m
  | OGfcStart tid p i ch =>
      if Z.eqb (ob_kind o) 1 then
        {| m_puts := m_puts m; m_gets := m_gets m; m_gfcs := (tid, (p, i, ch)) :: m_gfcs m;
           m_uploaded := m_uploaded m; m_corrupted := m_corrupted m; m_viol := m_viol m |}
      else if ob_ok o then add_viol m (check_read w m ch i (ob_bytes o)) else m
  | OGfcSlice tid slices =>
      match assoc (m_gfcs m) tid with
      | Some (p, i, ch) =>
          let m' := {| m_puts := m_puts m; m_gets := m_gets m; m_gfcs := unassoc (m_gfcs m) tid;
                       m_uploaded := m_uploaded m; m_corrupted := m_corrupted m; m_viol := m_viol m |} in
          if ob_ok o then
            let v := (if negb (bytes_eqb (ob_bytes o) (content w ch))
                         && (c_validate (w_cfg w) || negb (m_corrupted m)) then [1%Z] else []) ++
                     (if visible w (m_uploaded m) p i then [] else [2%Z]) in
            let m'' := add_viol m' v in
            {| m_puts := m_puts m''; m_gets := m_gets m''; m_gfcs := m_gfcs m'';
               m_uploaded := (if c_hier (w_cfg w) then [] else map (fun s => (fst s, i)) slices) ++ m_uploaded m'';
               m_corrupted := m_corrupted m''; m_viol := m_viol m'' |}
          else m'
      | None => m
      end
  | OCorrupt _ _ _ =>
      {| m_puts := m_puts m; m_gets := m_gets m; m_gfcs := m_gfcs m; m_uploaded := m_uploaded m;
         m_corrupted := true; m_viol := m_viol m |}
  end.

Lemma mon01_step_body w m e o :
  (0 <? ob_negs o)%Z && negb (m_corrupted m) = false -> mon01_step w m e o = mon01_body w m e o.
Proof. intros H. unfold mon01_step. rewrite H. reflexivity. Qed.

Lemma body_corrupted w m e o : m_corrupted (mon01_body w m e o) = m_corrupted m || is_corrupt e.
Proof.
  destruct e; cbn [mon01_body is_corrupt]; rewrite ?orb_false_r, ?orb_true_r;
  repeat match goal with
         | |- context [if ?b then _ else _] => destruct b
         | |- context [match ?x with Some _ => _ | None => _ end] => destruct x
         | |- context [let '(_, _) := ?x in _] => destruct x
         end; reflexivity.
Qed.

Definition PI (w : world) (m : m01) := PInv w (m_puts m) (m_gets m) (m_gfcs m) (m_uploaded m).

Lemma chk1 w m bytes x :
  (c_validate (w_cfg w) = true -> bytes = x) -> (m_corrupted m = false -> bytes = x) ->
  negb (bytes_eqb bytes x) && (c_validate (w_cfg w) || negb (m_corrupted m)) = false.
Proof.
  intros A B. destruct (c_validate (w_cfg w)).
  - rewrite A by reflexivity. rewrite bytes_eqb_refl. reflexivity.
  - destruct (m_corrupted m); cbn [negb orb]; [apply andb_false_r|].
    rewrite B by reflexivity. rewrite bytes_eqb_refl. reflexivity.
Qed.

Lemma check_read_ok w m ob i bytes :
  (c_validate (w_cfg w) = true -> bytes = content w ob) -> (m_corrupted m = false -> bytes = content w ob) ->
  visible w (m_uploaded m) ob i = true -> check_read w m ob i bytes = [].
Proof. intros A B V. unfold check_read. rewrite chk1 by assumption. rewrite V. reflexivity. Qed.

Section Events.
Variable w : world.
Variables (m : m01) (s : state) (pd : list (nat * (nat * nat))) (sn : list nat).
Hypothesis HP : PI w m s pd sn.
Hypothesis HV : m_viol m = [].

Lemma ev_putstart tid o i s1 out :
  ~ In tid sn -> step w s (OPutStart tid o i) = (s1, out) ->
  let m1 := mon01_body w m (OPutStart tid o i) (enc_obs (w_cfg w) (OPutStart tid o i) s s1 out) in
  PI w m1 s1 pd (tid :: sn) /\ m_viol m1 = [].
Proof.
  intros NS ST. apply step_putstart in ST. cbn [mon01_body].
  destruct ST as [[-> ->]|(ET & s' & S1 & [(e & -> & ->)|(t & -> & -> & PT)])].
  - rewrite dk_bad. cbn [Z.eqb]. split; [apply pinv_seen; exact HP|exact HV].
  - rewrite dk_done. cbn [Z.eqb]. split; [apply pinv_seen; eapply pinv_same; eauto|exact HV].
  - rewrite dk_parked. cbn [Z.eqb Pos.eqb]. split; [|exact HV].
    unfold PI. cbn [m_puts m_gets m_gfcs m_uploaded].
    assert (ET' : thr_get (s_threads s') tid = None) by (destruct S1 as [_ T]; rewrite T; exact ET).
    apply pinv_set.
    + eapply pinv_puts; [apply pinv_seen; eapply pinv_same; [exact HP|exact S1]|].
      intros tid' H. rewrite assoc_cons. destruct (Nat.eqb tid' tid) eqn:E; [|reflexivity].
      apply Nat.eqb_eq in E. subst. contradiction.
    + destruct PT as [(wr & acc & ->)|[(acc & ->) Hh]]; cbn [thr_ok]; rewrite assoc_cons, Nat.eqb_refl; auto.
    + intros o' uid l rf fk E. destruct PT as [(wr & acc & ->)|[(acc & ->) Hh]]; discriminate.
Qed.

Lemma rm_puts_ok s' tid :
  forall tid', thr_get (s_threads (thr_rm s' tid)) tid' <> None ->
               assoc (unassoc (m_puts m) tid) tid' = assoc (m_puts m) tid'.
Proof.
  intros tid' H. rewrite thr_get_rm in H. rewrite assoc_unassoc.
  destruct (Nat.eqb tid tid') eqn:E; [contradiction|]. rewrite Nat.eqb_sym, E. reflexivity.
Qed.

Lemma ev_putchunk tid data s1 out :
  step w s (OPutChunk tid data) = (s1, out) ->
  let m1 := mon01_body w m (OPutChunk tid data) (enc_obs (w_cfg w) (OPutChunk tid data) s s1 out) in
  PI w m1 s1 pd sn /\ m_viol m1 = [].
Proof.
  intros ST. apply step_putchunk in ST. cbn [mon01_body].
  destruct (thr_get (s_threads s) tid) as [t|] eqn:ET.
  2:{ destruct ST as [-> ->]. rewrite dk_bad. cbn [Z.eqb]. auto. }
  pose proof (p_thr _ _ _ _ _ _ _ _ HP _ _ ET) as TO.
  destruct t as [o i wr acc|o i acc| | |]; cbn [thr_ok] in TO;
    try (destruct ST as [-> ->]; rewrite dk_bad; cbn [Z.eqb]; auto; fail).
  - destruct ST as (s' & S1 & [[-> ->]|(acc' & -> & ->)]).
    + rewrite dk_done, dok_done. cbn [Z.eqb]. rewrite TO. split; [|exact HV].
      unfold PI. cbn [m_puts m_gets m_gfcs m_uploaded].
      eapply pinv_puts; [apply pinv_rm; eapply pinv_same; [exact HP|exact S1]|apply rm_puts_ok].
    + rewrite dk_parked. cbn [Z.eqb]. split; [|exact HV].
      apply pinv_set; [eapply pinv_same; [exact HP|exact S1]|exact TO|discriminate].
  - destruct ST as [[-> ->]|(acc' & -> & ->)].
    + rewrite dk_done, dok_done. cbn [Z.eqb]. destruct TO as [TO Hh]. rewrite TO. split; [|exact HV].
      unfold PI. cbn [m_puts m_gets m_gfcs m_uploaded].
      eapply pinv_puts; [apply pinv_rm; exact HP|apply rm_puts_ok].
    + rewrite dk_parked. cbn [Z.eqb]. split; [|exact HV].
      apply pinv_set; [exact HP|exact TO|discriminate].
Qed.

Lemma ev_putend tid err s1 out :
  step w s (OPutEnd tid err) = (s1, out) ->
  let m1 := mon01_body w m (OPutEnd tid err) (enc_obs (w_cfg w) (OPutEnd tid err) s s1 out) in
  PI w m1 s1 pd sn /\ m_viol m1 = [].
Proof.
  intros ST. apply step_putend in ST. cbn [mon01_body].
  destruct (thr_get (s_threads s) tid) as [t|] eqn:ET.
  2:{ destruct ST as [-> ->]. rewrite dk_bad. cbn [Z.eqb]. auto. }
  pose proof (p_thr _ _ _ _ _ _ _ _ HP _ _ ET) as TO.
  destruct t as [o i wr acc|o i acc| | |]; cbn [thr_ok] in TO;
    try (destruct ST as [-> ->]; rewrite dk_bad; cbn [Z.eqb]; auto; fail).
  - destruct ST as (s' & code & -> & -> & X).
    rewrite dk_done, dok_done. cbn [Z.eqb]. rewrite TO. split; [|exact HV].
    unfold PI. cbn [m_puts m_gets m_gfcs m_uploaded].
    eapply pinv_puts; [apply pinv_rm|apply rm_puts_ok].
    eapply pinv_state; [exact HP|apply X| |].
    + intros x Hx. destruct (Z.eqb code 0); [right|]; exact Hx.
    + eapply ext_icov; [exact X| |].
      * eapply icov_mono; [|apply HP]. intros x Hx. destruct (Z.eqb code 0); [right|]; exact Hx.
      * intros k [-> Hk]. cbn [Z.eqb]. eapply kcov_finalize_keys; [left; reflexivity|exact Hk].
  - destruct TO as [TO Hh]. destruct ST as (s' & code & -> & -> & X).
    rewrite dk_done, dok_done. cbn [Z.eqb]. rewrite TO. split; [|exact HV].
    unfold PI. cbn [m_puts m_gets m_gfcs m_uploaded].
    eapply pinv_puts; [apply pinv_rm|apply rm_puts_ok].
    eapply pinv_state; [exact HP|apply X| |].
    + intros x Hx. destruct (Z.eqb code 0); [right|]; exact Hx.
    + eapply ext_icov; [exact X| |].
      * eapply icov_mono; [|apply HP]. intros x Hx. destruct (Z.eqb code 0); [right|]; exact Hx.
      * intros k [-> ->]. cbn [Z.eqb]. apply kcov_inst; [exact Hh|left; reflexivity].
Qed.

Lemma ev_getopen tid o i s1 out :
  ~ In tid sn -> step w s (OGetOpen tid o i) = (s1, out) ->
  let m1 := mon01_body w m (OGetOpen tid o i) (enc_obs (w_cfg w) (OGetOpen tid o i) s s1 out) in
  PI w m1 s1 pd (tid :: sn) /\ m_viol m1 = [].
Proof.
  intros NS ST. apply (step_getopen w (m_uploaded m)) in ST; [|apply HP]. cbn [mon01_body].
  destruct (pinv_gets_none _ _ _ _ _ _ _ _ _ HP NS) as [GN FN].
  destruct ST as [[-> ->]|(ET & s' & T1 & I1 & [(e & -> & ->)|(t & -> & -> & TG & V)])].
  - rewrite dk_bad. cbn [Z.eqb]. split; [apply pinv_seen; exact HP|exact HV].
  - rewrite dk_done. cbn [Z.eqb]. split; [|exact HV]. apply pinv_seen. eapply pinv_state; eauto.
  - rewrite dk_parked. cbn [Z.eqb Pos.eqb]. split; [|exact HV].
    unfold PI. cbn [m_puts m_gets m_gfcs m_uploaded].
    assert (ET' : thr_get (s_threads s') tid = None) by (rewrite T1; exact ET).
    destruct TG as (uid & l & rf & fk & -> & FK).
    apply pinv_set.
    + apply pinv_gets_add; [apply pinv_seen; eapply pinv_state; eauto|left; reflexivity|exact V|].
      intros o' uid' l' rf' fk' G. congruence.
    + exact FK.
    + intros o' uid' l' rf' fk' E. injection E as <- _ _ _ _. split.
      * intros ob i' H. rewrite assoc_cons, Nat.eqb_refl in H. injection H as <- _. reflexivity.
      * intros p i' ch H. congruence.
Qed.

Lemma ev_corrupt r off len s1 out :
  step w s (OCorrupt r off len) = (s1, out) ->
  let m1 := mon01_body w m (OCorrupt r off len) (enc_obs (w_cfg w) (OCorrupt r off len) s s1 out) in
  PI w m1 s1 pd sn /\ m_viol m1 = [].
Proof.
  intros ST. apply step_corrupt in ST. destruct ST as (S1 & _ & _). cbn [mon01_body].
  split; [|exact HV]. unfold PI. cbn [m_puts m_gets m_gfcs m_uploaded]. eapply pinv_same; eauto.
Qed.

Lemma ev_findmissing ds s1 out :
  step w s (OFindMissing ds) = (s1, out) ->
  let m1 := mon01_body w m (OFindMissing ds) (enc_obs (w_cfg w) (OFindMissing ds) s s1 out) in
  PI w m1 s1 pd sn /\ m_viol m1 = [].
Proof.
  intros ST. apply (step_findmissing w (m_uploaded m)) in ST; [|apply HP]. cbn [mon01_body].
  destruct ST as (T1 & I1 & R).
  assert (P1 : PI w m s1 pd sn) by (eapply pinv_state; eauto).
  destruct R as [->|(code & ml & -> & R)].
  - rewrite dk_bad. cbn [Z.eqb andb]. auto.
  - rewrite dk_missing, dc_missing, dm_missing. cbn [Z.eqb Pos.eqb andb].
    destruct (Z.eqb code 0) eqn:EC; [|auto]. apply Z.eqb_eq in EC.
    match goal with |- context [if ?b then m else _] => assert (F : b = true) end.
    { apply forallb_forall. intros [pos [ob i]] Hin. apply filter_In in Hin. destruct Hin as [Hin Hn].
      destruct (R EC pos ob i Hin) as [X|X]; [|exact X].
      apply existsb_eqb_In in X. rewrite X in Hn. discriminate. }
    rewrite F. auto.
Qed.

Lemma add_viol_nil (m' : m01) : m_viol m' = [] -> m_viol (add_viol m' []) = [].
Proof. intros H. cbn. rewrite H. reflexivity. Qed.

Lemma ev_getconsume tid s1 out :
  step w s (OGetConsume tid) = (s1, out) ->
  (m_corrupted m = false -> read_ok w s (OGetConsume tid) s1 out) ->
  let m1 := mon01_body w m (OGetConsume tid) (enc_obs (w_cfg w) (OGetConsume tid) s s1 out) in
  PI w m1 s1 pd sn /\ m_viol m1 = [].
Proof.
  intros ST RO. apply step_getconsume in ST. cbn [mon01_body].
  assert (BAD : s1 = s /\ out = Bad ->
     PI w (mon01_body w m (OGetConsume tid) (enc_obs (w_cfg w) (OGetConsume tid) s s1 out)) s1 pd sn /\
     m_viol (mon01_body w m (OGetConsume tid) (enc_obs (w_cfg w) (OGetConsume tid) s s1 out)) = []).
  { intros [-> ->]. cbn [mon01_body]. destruct (assoc (m_gets m) tid) as [[ob i]|]; [|auto].
    rewrite dok_bad. split; [|exact HV]. unfold PI. cbn [m_puts m_gets m_gfcs m_uploaded].
    apply pinv_gets_rm. exact HP. }
  cbn [mon01_body] in BAD.
  destruct (thr_get (s_threads s) tid) as [t|] eqn:ET; [|auto].
  pose proof (p_thr _ _ _ _ _ _ _ _ HP _ _ ET) as TO.
  destruct t as [| |o uid l rf fk| |]; auto. cbn [thr_ok] in TO.
  destruct ST as (s' & code & bytes & -> & -> & X & V).
  assert (P1 : PI w m (thr_rm s' tid) pd sn).
  { apply pinv_rm. eapply pinv_state; [exact HP|apply X|auto|]. eapply ext_icov; [exact X|apply HP|exact TO]. }
  destruct (assoc (m_gets m) tid) as [[ob i]|] eqn:EA; [|auto].
  destruct (p_gets _ _ _ _ _ _ _ _ HP _ _ _ EA) as (_ & VIS & OB).
  assert (o = ob) by (eapply OB; eauto). subst ob.
  assert (P2 : PInv w (m_puts m) (unassoc (m_gets m) tid) (m_gfcs m) (m_uploaded m) (thr_rm s' tid) pd sn)
    by (apply pinv_gets_rm; exact P1).
  rewrite dok_done, db_done. destruct (Z.eqb code 0) eqn:EC; [|auto].
  apply Z.eqb_eq in EC. rewrite check_read_ok; [split; [exact P2|apply add_viol_nil; exact HV]| | |exact VIS].
  - intros Hv. apply V; assumption.
  - intros Hc. destruct (RO Hc) as [_ R]. rewrite ET in R. apply R. exact EC.
Qed.

Lemma ev_gfcstart tid p i ch s1 out :
  ~ In tid sn -> step w s (OGfcStart tid p i ch) = (s1, out) ->
  (m_corrupted m = false -> read_ok w s (OGfcStart tid p i ch) s1 out) ->
  let m1 := mon01_body w m (OGfcStart tid p i ch) (enc_obs (w_cfg w) (OGfcStart tid p i ch) s s1 out) in
  PI w m1 s1 ((tid, (p, ch)) :: pd) (tid :: sn) /\ m_viol m1 = [].
Proof.
  intros NS ST RO. apply (step_gfcstart w (m_uploaded m)) in ST; [|apply HP]. cbn [mon01_body].
  destruct (pinv_gets_none _ _ _ _ _ _ _ _ _ HP NS) as [GN FN].
  assert (EXT : forall s', s_threads s' = s_threads s -> icov w (m_uploaded m) s' ->
                PI w m s' ((tid, (p, ch)) :: pd) (tid :: sn)).
  { intros s' T1 I1. apply pinv_seen. apply pinv_pending; [|exact NS]. eapply pinv_state; eauto. }
  destruct ST as [[-> ->]|(ET & s' & T1 & I1 & [(code & bytes & -> & -> & Eh & R)|(t & -> & -> & TG)])].
  - rewrite dk_bad, dok_bad. cbn [Z.eqb]. split; [apply EXT; [reflexivity|apply HP]|exact HV].
  - rewrite dk_done, dok_done, db_done. cbn [Z.eqb]. destruct (Z.eqb code 0) eqn:EC; [|auto].
    apply Z.eqb_eq in EC. destruct (R EC) as [VIS V].
    rewrite check_read_ok; [split; [apply EXT; assumption|apply add_viol_nil; exact HV]|exact V| |exact VIS].
    intros Hc. destruct (RO Hc) as [_ R']. apply R'. exact EC.
  - rewrite dk_parked. cbn [Z.eqb Pos.eqb]. split; [|exact HV].
    unfold PI. cbn [m_puts m_gets m_gfcs m_uploaded].
    assert (ET' : thr_get (s_threads s') tid = None) by (rewrite T1; exact ET).
    assert (P1 : PInv w (m_puts m) (m_gets m) ((tid, (p, i, ch)) :: m_gfcs m) (m_uploaded m) s'
                   ((tid, (p, ch)) :: pd) (tid :: sn)).
    { apply pinv_gfcs_add; [apply EXT; assumption|exact ET'|left; reflexivity|].
      unfold pfind. cbn [find fst]. rewrite Nat.eqb_refl. reflexivity. }
    destruct TG as [[Eh [(e & -> & Ne)|[(uid & l & rf & fk & -> & FK) V]]]|[Eh (uid & pl & rf & -> & K & V)]].
    + apply pinv_set; [exact P1|exact Ne|discriminate].
    + apply pinv_set; [exact P1|exact FK|].
      intros o' uid' l' rf' fk' E. injection E as <- _ _ _ _. split.
      * intros ob i' H. congruence.
      * intros p' i' ch' H. rewrite assoc_cons, Nat.eqb_refl in H. injection H as <- <- _. auto.
    + apply pinv_set; [exact P1| |discriminate].
      cbn [thr_ok]. split; [exact Eh|]. split; [exact K|]. split; [exact V|].
      exists ch. rewrite assoc_cons, Nat.eqb_refl. reflexivity.
Qed.

Lemma wf_slice rest tid slices p ch :
  wf_ops w pd (OGfcSlice tid slices :: rest) = true -> pfind pd tid = Some (tid, (p, ch)) ->
  slices_ok w p slices /\ first_slice (content w p) slices = content w ch.
Proof.
  cbn [wf_ops]. fold (pfind pd tid). intros H F. rewrite F in H.
  apply andb_prop in H. destruct H as [H _]. apply andb_prop in H. destruct H as [H1 H2].
  assert (SO : slices_ok w p slices).
  { intros cho off len Hin. rewrite forallb_forall in H2. specialize (H2 _ Hin). cbn beta iota in H2.
    apply andb_prop in H2. destruct H2 as [A B]. apply bytes_eqb_eq in A. apply Nat.leb_le in B. auto. }
  split; [exact SO|]. destruct slices as [|[cho [off len]] tl]; [discriminate|].
  apply Nat.eqb_eq in H1. subst cho. cbn [first_slice]. symmetry. apply (SO ch off len). left; reflexivity.
Qed.

Lemma in_app_r {T} (a b : list T) x : In x b -> In x (a ++ b).
Proof. intros H. apply in_or_app. right; exact H. Qed.

Lemma ev_gfcslice rest tid slices s1 out :
  wf_ops w pd (OGfcSlice tid slices :: rest) = true ->
  step w s (OGfcSlice tid slices) = (s1, out) ->
  (m_corrupted m = false -> read_ok w s (OGfcSlice tid slices) s1 out) ->
  let m1 := mon01_body w m (OGfcSlice tid slices) (enc_obs (w_cfg w) (OGfcSlice tid slices) s s1 out) in
  PI w m1 s1 pd sn /\ m_viol m1 = [].
Proof.
  intros WF ST RO. apply step_gfcslice in ST. cbn [mon01_body].
  assert (BAD : s1 = s /\ out = Bad -> not_tgfc (thr_get (s_threads s) tid) ->
     PI w (mon01_body w m (OGfcSlice tid slices) (enc_obs (w_cfg w) (OGfcSlice tid slices) s s1 out)) s1 pd sn /\
     m_viol (mon01_body w m (OGfcSlice tid slices) (enc_obs (w_cfg w) (OGfcSlice tid slices) s s1 out)) = []).
  { intros [-> ->] NT. cbn [mon01_body]. destruct (assoc (m_gfcs m) tid) as [[[p i] ch]|]; [|auto].
    rewrite dok_bad. split; [|exact HV]. unfold PI. cbn [m_puts m_gets m_gfcs m_uploaded].
    apply pinv_gfcs_rm; [exact HP|exact NT]. }
  cbn [mon01_body] in BAD.
  destruct (thr_get (s_threads s) tid) as [t|] eqn:ET; [|apply BAD; [exact ST|exact I]].
  pose proof (p_thr _ _ _ _ _ _ _ _ HP _ _ ET) as TO.
  destruct t as [| |o uid l rf fk|p i uid pl rf pk|e]; try (apply BAD; [exact ST|exact I]); cbn [thr_ok] in TO.
  - (* hierarchical: TGet *)
    destruct ST as (s' & code & bytes & -> & -> & X & V).
    assert (NT : not_tgfc (thr_get (s_threads (thr_rm s' tid)) tid)).
    { rewrite thr_get_rm, Nat.eqb_refl. exact I. }
    assert (I1 : icov w (m_uploaded m) s') by (eapply ext_icov; [exact X|apply HP|exact TO]).
    assert (P1 : PI w m (thr_rm s' tid) pd sn).
    { apply pinv_rm. eapply pinv_state; [exact HP|apply X|auto|exact I1]. }
    destruct (assoc (m_gfcs m) tid) as [[[p i] ch]|] eqn:EA; [|auto].
    destruct (p_gfcs _ _ _ _ _ _ _ _ HP _ _ _ _ EA) as (_ & PF & OB).
    destruct (OB _ _ _ _ _ ET) as [-> VIS].
    destruct (wf_slice _ _ _ _ _ WF PF) as [SO FS].
    rewrite dok_done, db_done. destruct (Z.eqb code 0) eqn:EC.
    2:{ split; [|exact HV]. unfold PI. cbn [m_puts m_gets m_gfcs m_uploaded]. apply pinv_gfcs_rm; assumption. }
    apply Z.eqb_eq in EC. rewrite chk1, VIS.
    + cbn [app add_viol m_puts m_gets m_gfcs m_uploaded m_viol]. split; [|rewrite HV; reflexivity].
      unfold PI. cbn [m_puts m_gets m_gfcs m_uploaded]. apply pinv_gfcs_rm; [|exact NT].
      eapply pinv_state; [exact P1|reflexivity|intros x; apply in_app_r|].
      eapply icov_mono; [|exact I1]. intros x; apply in_app_r.
    + intros Hv. rewrite <- FS. apply V; assumption.
    + intros Hc. destruct (RO Hc) as [_ R]. rewrite ET in R. rewrite <- FS. apply R. exact EC.
  - (* flat: TGfc *)
    destruct TO as (Eh & KP & VIS & ch & EA).
    destruct ST as (s' & code & bytes & -> & -> & X & V).
    assert (NT : not_tgfc (thr_get (s_threads (thr_rm s' tid)) tid)).
    { rewrite thr_get_rm, Nat.eqb_refl. exact I. }
    rewrite EA.
    destruct (p_gfcs _ _ _ _ _ _ _ _ HP _ _ _ _ EA) as (_ & PF & _).
    destruct (wf_slice _ _ _ _ _ WF PF) as [SO FS].
    rewrite dok_done, db_done. destruct (Z.eqb code 0) eqn:EC.
    2:{ split; [|exact HV]. unfold PI. cbn [m_puts m_gets m_gfcs m_uploaded]. apply pinv_gfcs_rm; [|exact NT].
        apply pinv_rm. eapply pinv_state; [exact HP|apply X|auto|].
        eapply ext_icov; [exact X|apply HP|]. intros k [Hc _]. subst code. discriminate. }
    apply Z.eqb_eq in EC. rewrite chk1, VIS.
    + cbn [app add_viol m_puts m_gets m_gfcs m_uploaded m_viol]. split; [|rewrite HV; reflexivity].
      unfold PI. cbn [m_puts m_gets m_gfcs m_uploaded]. apply pinv_gfcs_rm; [|exact NT].
      apply pinv_rm. rewrite Eh.
      eapply pinv_state; [exact HP|apply X|intros x; apply in_app_r|].
      eapply ext_icov; [exact X|eapply icov_mono; [|apply HP]; intros x; apply in_app_r|].
      intros k [_ [->|(x & Hx & ->)]].
      * eapply kcov_mono; [|exact KP]. intros y; apply in_app_r.
      * apply kcov_flat_key; [exact Eh|]. apply in_or_app. left.
        apply in_map_iff. exists x. split; [reflexivity|exact Hx].
    + intros Hv. rewrite <- FS. apply V; assumption.
    + intros Hc. destruct (RO Hc) as [_ R]. rewrite ET in R. rewrite <- FS. apply R. exact EC.
  - (* TGfcErr *)
    destruct ST as [-> ->].
    assert (NT : not_tgfc (thr_get (s_threads (thr_rm s tid)) tid)).
    { rewrite thr_get_rm, Nat.eqb_refl. exact I. }
    assert (P1 : PI w m (thr_rm s tid) pd sn) by (apply pinv_rm; exact HP).
    destruct (assoc (m_gfcs m) tid) as [[[p i] ch]|] eqn:EA; [|auto].
    rewrite dok_done. apply Z.eqb_neq in TO. rewrite TO. split; [|exact HV].
    unfold PI. cbn [m_puts m_gets m_gfcs m_uploaded]. apply pinv_gfcs_rm; assumption.
Qed.
End Events.
