(** C01 proofs, part 1: the invariants of the local store model.
    Definitions only (plus trivial projections).

    The invariant is parametric in a list of CLAIMS (byte ranges of blocks
    that parked operations rely on); for a state between two events the
    claims are those of the parked threads ([claims]).  Inside an event the
    running operation holds additional claims, which the lemmas about the
    sub-operations (pin, ocn_put, write_block, finalize, unpin, ...) add and
    remove explicitly. *)
From Coq Require Import List NArith ZArith Bool Arith Lia Permutation.
From BBS Require Import Store.Model Store.Wf.
Import ListNotations.
Open Scope N_scope.

(** ---- byte ranges ---- *)
Definition rdisj (o1 s1 o2 s2 : N) : Prop := o1 + s1 <= o2 \/ o2 + s2 <= o1.
Definition bslice (bytes : list N) (off size : N) : list N := slice bytes (N.to_nat off) (N.to_nat size).

(** ---- block lookup, reduced to what the invariants need ---- *)
Definition live (s : state) : list block := s_blocks s ++ s_zombies s.
(** cursor and region of the block with this uid (listed or zombie) *)
Definition binfo (s : state) (uid : nat) : option (N * nat) :=
  match find_block s uid with Some b => Some (b_cursor b, b_region b) | None => None end.
(** uid of the listed block with this absolute number *)
Definition uid_at (s : state) (abs : N) : option nat :=
  if abs <? s_released s then None
  else match nth_error (s_blocks s) (N.to_nat (abs - s_released s)) with
       | Some b => Some (b_uid b) | None => None end.
Definition abs_end (s : state) : N := s_released s + N.of_nat (length (s_blocks s)).

(** ---- claims ---- *)
Inductive claim : Type :=
| CW (wr : writer) (acc : list N)   (* pinned allocation being written; [acc] = bytes written so far (a prefix) *)
| CR (uid : nat) (l : loc) (o : nat) (* pinned range holding the content of object [o] *)
| CU (wr : writer) (o : nat).        (* unpinned, completely written allocation (foreground refresh of a flat composite read) *)

Definition c_uid (c : claim) : nat :=
  match c with CW wr _ => wr_uid wr | CR u _ _ => u | CU wr _ => wr_uid wr end.
Definition c_off (c : claim) : N :=
  match c with CW wr _ => wr_off wr | CR _ l _ => l_off l | CU wr _ => wr_off wr end.
Definition c_size (c : claim) : N :=
  match c with CW wr _ => wr_size wr | CR _ l _ => l_size l | CU wr _ => wr_size wr end.
Definition c_isw (c : claim) : bool := match c with CW _ _ => true | _ => false end.
(** number of block references a claim holds on [uid] *)
Definition cref (uid : nat) (c : claim) : nat :=
  match c with
  | CW wr _ => if Nat.eqb (wr_uid wr) uid then 1%nat else 0%nat
  | CR u _ _ => if Nat.eqb u uid then 1%nat else 0%nat
  | CU _ _ => 0%nat
  end.
Definition nrefs (uid : nat) (cl : list claim) : nat := list_sum (map (cref uid) cl).

(** two claims on the same block of which at least one is a writer are disjoint (ordered) *)
Definition cdisj (c1 c2 : claim) : Prop :=
  c_isw c1 || c_isw c2 = true -> c_uid c1 = c_uid c2 -> rdisj (c_off c1) (c_size c1) (c_off c2) (c_size c2).

Fixpoint pairwise {T} (R : T -> T -> Prop) (l : list T) : Prop :=
  match l with
  | [] => True
  | x :: t => (forall y, In y t -> R x y) /\ pairwise R t
  end.

Definition refresh_claims (c : config) (refresh : option writer) (o : nat) (fg : bool) : list claim :=
  match refresh with
  | None => []
  | Some wr => if fg then [CU wr o] else [CW wr []]
  end.

Definition claims_of_thread (c : config) (t : thread) : list claim :=
  match t with
  | TPut o i wr acc => [CW wr acc]
  | TPutExisting _ _ _ => []
  | TGet o uid l refresh _ => CR uid l o :: refresh_claims c refresh o false
  | TGfc p i uid pl refresh _ => CR uid pl p :: refresh_claims c refresh p (negb (lockstep c))
  | TGfcErr _ => []
  end.
Definition claims_of_threads (c : config) (ts : list (nat * thread)) : list claim :=
  flat_map (fun e => claims_of_thread c (snd e)) ts.
Definition claims (c : config) (s : state) : list claim := claims_of_threads c (s_threads s).

(** ---- allocator / counter invariant (no claims) ---- *)
Record AInv (c : config) (s : state) : Prop := {
  a_len : length (s_blocks s) = (s_old s + s_cur s + s_new s)%nat;
  a_rel : s_released s <= s_tbr s /\ s_tbr s <= abs_end s;
  a_uid_nd : NoDup (map b_uid (live s));
  a_uid_lt : forall b, In b (live s) -> (b_uid b < s_next_uid s)%nat;
  a_reg_nd : NoDup (map b_region (live s) ++ s_free s);
  a_reg_lt : in_memory c = true -> forall b, In b (live s) -> (b_region b < s_next_region s)%nat;
  a_free_im : in_memory c = true -> s_free s = [];
  a_cur : forall b, In b (live s) -> b_cursor b <= c_bs c;
  a_dev_live : forall b, In b (live s) -> length (dev_get (s_dev s) (b_region b)) = N.to_nat (c_bs c);
  a_dev_free : forall r, In r (s_free s) ->
               dev_get (s_dev s) r = [] \/ length (dev_get (s_dev s) r) = N.to_nat (c_bs c);
  a_idx : forall k l, In (k, l) (s_index s) -> l_abs l < abs_end s;
}.

(** ---- use counts: a lower bound suffices for safety ---- *)
Record UInv (cl : list claim) (s : state) : Prop := {
  u_blocks : forall b, In b (s_blocks s) -> (1 + nrefs (b_uid b) cl <= b_use b)%nat;
  u_zombies : forall z, In z (s_zombies s) -> (nrefs (b_uid z) cl <= b_use z)%nat;
}.

(** ---- claims and data ---- *)
Definition cw_ok (s : state) (wr : writer) (acc : list N) : Prop :=
  exists cur reg,
    binfo s (wr_uid wr) = Some (cur, reg) /\
    wr_off wr + wr_size wr <= cur /\
    N.of_nat (length acc) <= wr_size wr /\
    bslice (dev_get (s_dev s) reg) (wr_off wr) (N.of_nat (length acc)) = acc /\
    wr_abs wr < abs_end s /\
    (s_released s <= wr_abs wr -> uid_at s (wr_abs wr) = Some (wr_uid wr)).

Definition cr_ok (w : world) (s : state) (uid : nat) (l : loc) (o : nat) : Prop :=
  exists cur reg,
    binfo s uid = Some (cur, reg) /\
    l_off l + l_size l <= cur /\
    bslice (dev_get (s_dev s) reg) (l_off l) (l_size l) = content w o.

Definition cu_ok (w : world) (s : state) (wr : writer) (o : nat) : Prop :=
  (wr_uid wr < s_next_uid s)%nat /\
  wr_abs wr < abs_end s /\
  (forall cur reg, binfo s (wr_uid wr) = Some (cur, reg) -> wr_off wr + wr_size wr <= cur) /\
  (s_tbr s <= wr_abs wr ->
   exists cur reg, uid_at s (wr_abs wr) = Some (wr_uid wr) /\ binfo s (wr_uid wr) = Some (cur, reg) /\
                   bslice (dev_get (s_dev s) reg) (wr_off wr) (wr_size wr) = content w o).

Definition claim_ok (w : world) (s : state) (c : claim) : Prop :=
  match c with
  | CW wr acc => cw_ok s wr acc
  | CR uid l o => cr_ok w s uid l o
  | CU wr o => cu_ok w s wr o
  end.

(** a valid index entry: its block is listed, the range lies below the cursor and holds the object's content *)
Definition idx_ok (w : world) (s : state) (k : key) (l : loc) : Prop :=
  exists uid cur reg,
    uid_at s (l_abs l) = Some uid /\ binfo s uid = Some (cur, reg) /\
    l_off l + l_size l <= cur /\
    bslice (dev_get (s_dev s) reg) (l_off l) (l_size l) = content w (fst k).

Record CInv (w : world) (cl : list claim) (s : state) : Prop := {
  c_claims : forall c, In c cl -> claim_ok w s c;
  c_idx : forall k l, In (k, l) (s_index s) -> loc_valid s l = true -> idx_ok w s k l;
  c_sep : pairwise cdisj cl;
  c_sep_idx : forall wr acc k l, In (CW wr acc) cl -> In (k, l) (s_index s) -> loc_valid s l = true ->
              uid_at s (l_abs l) = Some (wr_uid wr) ->
              rdisj (wr_off wr) (wr_size wr) (l_off l) (l_size l);
}.

(** everything, for an arbitrary claim list *)
Record DInv (w : world) (cl : list claim) (s : state) : Prop := {
  d_a : AInv (w_cfg w) s;
  d_u : UInv cl s;
  d_c : CInv w cl s;
}.

(** ---- threads ---- *)
Definition refresh_ok (refresh : option writer) (l : loc) : Prop :=
  match refresh with Some wr => wr_size wr = l_size l | None => True end.
Definition thread_ok (w : world) (t : thread) : Prop :=
  match t with
  | TPut o i wr acc => wr_size wr = osize w o
  | TPutExisting _ _ _ => True
  | TGet o uid l refresh fkeys => l_size l = osize w o /\ refresh_ok refresh l /\ (forall k, In k fkeys -> fst k = o)
  | TGfc p i uid pl refresh pk => l_size pl = osize w p /\ refresh_ok refresh pl /\ pk = flat_key (w_cfg w) p i
  | TGfcErr _ => True
  end.

(** the invariant of states between events (no corruption so far) *)
Record SInv (w : world) (s : state) : Prop := {
  s_d : DInv w (claims (w_cfg w) s) s;
  s_tids : NoDup (map fst (s_threads s));
  s_thr : forall tid t, In (tid, t) (s_threads s) -> thread_ok w t;
}.

(** ---- what the data invariant yields for one event ---- *)
Definition slices_ok (w : world) (p : nat) (slices : list (nat * (N * N))) : Prop :=
  forall cho off len, In (cho, (off, len)) slices ->
    content w cho = slice (content w p) (N.to_nat off) (N.to_nat len) /\
    (N.to_nat off + N.to_nat len <= length (content w p))%nat.

(** the slices handed to a parked composite read are slices of ITS parent *)
Definition step_wf (w : world) (s : state) (e : op) : Prop :=
  match e with
  | OGfcSlice tid slices =>
      match thr_get (s_threads s) tid with
      | Some (TGfc p _ _ _ _ _) => slices_ok w p slices
      | _ => True
      end
  | _ => True
  end.

Definition first_slice (bytes : list N) (slices : list (nat * (N * N))) : list N :=
  match slices with
  | (_, (off, len)) :: _ => slice bytes (N.to_nat off) (N.to_nat len)
  | [] => []
  end.

(** no negative verdict, and every successful read returns the content of
    the object the parked thread / the event names *)
Definition read_ok (w : world) (s : state) (e : op) (s1 : state) (o : out) : Prop :=
  s_negs s1 = s_negs s /\
  match e, o with
  | OGetConsume tid, Done code bytes =>
      code = cOK ->
      match thr_get (s_threads s) tid with
      | Some (TGet ob _ _ _ _) => bytes = content w ob
      | _ => True
      end
  | OGfcStart _ _ _ ch, Done code bytes => code = cOK -> bytes = content w ch
  | OGfcSlice tid slices, Done code bytes =>
      code = cOK ->
      match thr_get (s_threads s) tid with
      | Some (TGfc p _ _ _ _ _) => bytes = first_slice (content w p) slices
      | Some (TGet p _ _ _ _) => bytes = first_slice (content w p) slices
      | _ => True
      end
  | _, _ => True
  end.
