(** Well-formedness of worlds and schedules: the hypotheses under which the
    store theorems are stated.  They say nothing about the store; they only
    exclude meaningless inputs (a composite read whose slicer hands out
    slices that are not slices of the parent; a geometry the configuration
    code rejects).  Definitions only. *)
From Coq Require Import List NArith ZArith Bool Arith.
From BBS Require Import Store.Model.
Import ListNotations.

Definition wf_config (c : config) : bool :=
  (0 <? c_bs c)%N
  && Nat.leb 1 (c_new c)
  && (if c_mutable c then Nat.eqb (c_new c) 1 else true)
  && (if in_memory c then negb (c_validate c) else true)
  && (if in_memory c then true else Nat.leb (c_old c + c_cur c + c_new c + 1) (c_nblocks c))
  && (if c_hier c then c_inst_keys c else true).

(** every instance name's ancestor chain ends in itself and the chain of a
    parent is a prefix of the chain of its child *)
Definition wf_anc (w : world) : bool :=
  forallb (fun '(i, chain) =>
             match rev chain with
             | last :: _ => Nat.eqb last i
             | [] => false
             end
             && forallb (fun a => Nat.ltb a (length (w_anc w))) chain)
          (combine (seq 0 (length (w_anc w))) (w_anc w)).

(** composite reads: the slicer is handed the slices it announced for that
    parent, each slice object's content IS that slice, and the first slice
    is the requested child *)
Fixpoint wf_ops (w : world) (pending : list (nat * (nat * nat))) (es : list op) : bool :=
  match es with
  | [] => true
  | OGfcStart tid p _ ch :: t => wf_ops w ((tid, (p, ch)) :: pending) t
  | OGfcSlice tid slices :: t =>
      (match find (fun e => Nat.eqb (fst e) tid) pending with
       | Some (_, (p, ch)) =>
           match slices with
           | (cho, _) :: _ => Nat.eqb cho ch
           | [] => false
           end
           && forallb (fun '(cho, (off, len)) =>
                         bytes_eqb (content w cho) (slice (content w p) (N.to_nat off) (N.to_nat len))
                         && Nat.leb (N.to_nat off + N.to_nat len) (length (content w p)))
                      slices
       | None => true
       end) && wf_ops w pending t
  | OPutStart _ o i :: t | OGetOpen _ o i :: t =>
      Nat.ltb o (length (w_objs w)) && Nat.ltb i (length (w_anc w)) && wf_ops w pending t
  | _ :: t => wf_ops w pending t
  end.

Definition wf_world (w : world) : bool := wf_config (w_cfg w) && wf_anc w.
