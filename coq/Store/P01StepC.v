(** C01 proofs: opening and consuming readers (Get). *)
From Coq Require Import List NArith ZArith Bool Arith Lia Permutation.
From BBS Require Import Store.Model Store.Wf Store.P01Inv Store.P01Thr Store.P01StepA.
Import ListNotations.
Open Scope N_scope.

Section Steps.
Hypothesis I : iface.
Variable w : world.
Hypothesis Hwf : wf_config (w_cfg w) = true.
Let c := w_cfg w.

Lemma frame_tin_tn s s' : frame_tin s s' -> frame_tn s s'.
Proof. intros [A [B C]]. split; assumption. Qed.

(** the first write of a writer *)
Lemma write0_inv cl s wr data :
  DInv w (CW wr [] :: cl) s -> N.of_nat (length data) <= wr_size wr ->
  DInv w (CW wr data :: cl) (write_block s (wr_uid wr) (wr_off wr) data).
Proof.
  intros HD Hl. pose proof (i_write I w cl s wr [] data HD) as H.
  cbn [length app Nat.add N.of_nat] in H. rewrite N.add_0_r in H. apply H. exact Hl.
Qed.

(** foreground copy of a complete object into a fresh allocation, then finalize *)
Lemma copy_finalize_inv cl s wr o keys r s' :
  DInv w (CW wr [] :: cl) s -> wr_size wr = osize w o -> (forall k, In k keys -> fst k = o) ->
  finalize c (write_block s (wr_uid wr) (wr_off wr) (content w o)) wr true = (r, s') ->
  frame_tn s s' /\
  match r with
  | Err e => DInv w cl s' /\ e <> cOK
  | Ok nl => DInv w cl (index_put_all s' keys nl) /\
             DInv w (CU wr o :: cl) s' /\ s_tbr s' <= wr_abs wr /\
             nl = {| l_abs := wr_abs wr; l_off := wr_off wr; l_size := wr_size wr |}
  end.
Proof.
  intros HD Hsz Hk F.
  assert (HW : DInv w (CW wr (content w o) :: cl) (write_block s (wr_uid wr) (wr_off wr) (content w o))).
  { apply write0_inv; [exact HD|]. rewrite Hsz. unfold osize. apply N.le_refl. }
  destruct (finalize_ok_inv I w _ _ _ _ keys _ _ HW Hsz Hk F) as [F1 H].
  split; [|exact H]. eapply frame_tn_trans; [apply write_frame|exact F1].
Qed.

(** ---- open_with_refresh ---- *)
Lemma open_with_refresh_inv cl s o k l fkeys r s' :
  DInv w cl s -> In (k, l) (s_index s) -> loc_valid s l = true -> fst k = o ->
  (forall k', In k' fkeys -> fst k' = o) ->
  open_with_refresh w s o l fkeys = (r, s') ->
  frame_tn s s' /\
  match r with
  | Err _ => DInv w cl s'
  | Ok t => DInv w (claims_of_thread c t ++ cl) s' /\ thread_ok w t /\
            exists uid rf fk, t = TGet o uid l rf fk
  end.
Proof.
  intros HD Hin Hv Hk Hfk. subst o. unfold open_with_refresh.
  destruct (block_of_loc s l) as [b|] eqn:Eb;
    [|intros H; injection H as <- <-; split; [apply frame_tn_refl|exact HD]].
  pose proof (i_pin_loc I w cl s k l b HD Hin Hv Eb) as HP.
  pose proof (i_entry_size I w cl s k l HD Hin Hv) as Hsz.
  destruct (needs_refresh s l).
  2:{ intros H; injection H as <- <-. split; [apply pin_frame|].
      cbn [claims_of_thread refresh_claims app]. split; [exact HP|].
      split; [|eauto]. cbn [thread_ok refresh_ok]; repeat split; auto; try (intros ? []). }
  destruct (ocn_put (w_cfg w) (pin s (b_uid b)) (l_size l)) as [[wr|e] s2] eqn:Eo;
    destruct (i_ocn_put I w _ _ _ _ _ Hwf HP Eo) as [FT H].
  2:{ intros X; injection X as <- <-. split.
      - eapply frame_tn_trans; [apply pin_frame|]. eapply frame_tn_trans; [apply frame_tin_tn, FT|apply unpin_frame].
      - exact (i_unpin I w (CR (b_uid b) l (fst k)) cl s2 H (cref_cr _ _ _)). }
  destruct H as [H Hws].
  destruct (lockstep (w_cfg w)).
  { intros X; injection X as <- <-. split.
    - eapply frame_tn_trans; [apply pin_frame|apply frame_tin_tn, FT].
    - cbn [claims_of_thread refresh_claims app]. split; [|split; [|eauto]].
      + eapply (i_perm I); [|exact H]. apply perm_swap.
      + cbn [thread_ok refresh_ok]; repeat split; auto; try (intros ? []). }
  rewrite (i_read_block_cr I w _ s2 (b_uid b) l (fst k) H) by (right; left; reflexivity).
  destruct (finalize (w_cfg w) (write_block s2 (wr_uid wr) (wr_off wr) (content w (fst k))) wr true)
    as [r4 s4] eqn:F.
  assert (Hws' : wr_size wr = osize w (fst k)) by congruence.
  destruct (copy_finalize_inv _ _ _ _ fkeys _ _ H Hws' Hfk F) as [F4 H4].
  destruct r4 as [nl|e]; intros X; injection X as <- <-.
  - destruct H4 as [H4 _]. split.
    + eapply frame_tn_trans; [apply pin_frame|]. eapply frame_tn_trans; [apply frame_tin_tn, FT|].
      eapply frame_tn_trans; [exact F4|apply index_put_all_frame].
    + cbn [claims_of_thread refresh_claims app]. split; [exact H4|]. split; [|eauto]. cbn [thread_ok refresh_ok]; repeat split; auto; try (intros ? []).
  - destruct H4 as [H4 _]. split.
    + eapply frame_tn_trans; [apply pin_frame|]. eapply frame_tn_trans; [apply frame_tin_tn, FT|].
      eapply frame_tn_trans; [exact F4|apply unpin_frame].
    + exact (i_unpin I w (CR (b_uid b) l (fst k)) cl s4 H4 (cref_cr _ _ _)).
Qed.

(** ---- get_open ---- *)
Lemma get_open_inv cl s o i r s' :
  DInv w cl s -> get_open w s o i = (r, s') ->
  frame_tn s s' /\
  match r with
  | Err _ => DInv w cl s'
  | Ok t => DInv w (claims_of_thread c t ++ cl) s' /\ thread_ok w t /\
            exists uid l rf fk, t = TGet o uid l rf fk
  end.
Proof.
  intros HD. unfold get_open.
  destruct (least_specific s (lookup_keys w o i)) as [[k l]|] eqn:El;
    [|intros H; injection H as <- <-; split; [apply frame_tn_refl|exact HD]].
  destruct (i_least_specific_some I _ _ _ _ El) as [Hk Hg].
  apply lookup_keys_fst in Hk.
  destruct (i_index_get_some I _ _ _ Hg) as [Hin Hv].
  assert (Hnil : forall k', In k' (@nil key) -> fst k' = o) by (intros k' []).
  assert (post : forall r s', (frame_tn s s' /\
      match r with
      | Err _ => DInv w cl s'
      | Ok t => DInv w (claims_of_thread c t ++ cl) s' /\ thread_ok w t /\
                exists uid rf fk, t = TGet o uid l rf fk
      end) -> frame_tn s s' /\
      match r with
      | Err _ => DInv w cl s'
      | Ok t => DInv w (claims_of_thread c t ++ cl) s' /\ thread_ok w t /\
                exists uid l rf fk, t = TGet o uid l rf fk
      end).
  { intros r0 s0 [A B]. split; [exact A|]. destruct r0; [|exact B].
    destruct B as [B1 [B2 [u [rf [fk ->]]]]]. split; [exact B1|]. split; [exact B2|eauto]. }
  destruct (negb (needs_refresh s l)).
  { intros H. apply post. exact (open_with_refresh_inv cl s o k l _ _ _ HD Hin Hv Hk Hnil H). }
  destruct (c_hier (w_cfg w)).
  - unfold sync_from_canonical.
    destruct (index_get s (canonical_key o)) as [cl0|] eqn:Ec.
    + destruct (i_index_get_some I _ _ _ Ec) as [Hcin Hcv].
      destruct (needs_refresh s cl0).
      * intros H. apply post. refine (open_with_refresh_inv cl s o k l _ _ _ HD Hin Hv Hk _ H).
        intros k' [<-|[<-|[]]]; [reflexivity|exact Hk].
      * intros H.
        assert (HD1 : DInv w cl (index_put s k cl0)).
        { eapply (i_index_put_copy I); [exact HD|exact Hcin|exact Hcv|]. rewrite Hk. reflexivity. }
        pose proof (open_with_refresh_inv cl (index_put s k cl0) o k cl0 [] r s' HD1) as X.
        destruct X as [A B]; [left; reflexivity|exact Hcv|exact Hk|exact Hnil|exact H|].
        split; [exact A|]. destruct r; [|exact B].
        destruct B as [B1 [B2 [u [rf [fk ->]]]]]. split; [exact B1|]. split; [exact B2|eauto].
    + intros H. apply post. refine (open_with_refresh_inv cl s o k l _ _ _ HD Hin Hv Hk _ H).
      intros k' [<-|[<-|[]]]; [reflexivity|exact Hk].
  - intros H. apply post. refine (open_with_refresh_inv cl s o k l _ _ _ HD Hin Hv Hk _ H).
    intros k' [<-|[]]. exact Hk.
Qed.

Lemma step_get_open s tid o i :
  SInv w s -> thr_get (s_threads s) tid = None ->
  let r := match get_open w s o i with
           | (Err e, s1) => (s1, Done e [])
           | (Ok t, s1) => (thr_set s1 tid t, Parked)
           end in
  SInv w (fst r) /\ s_negs (fst r) = s_negs s.
Proof.
  intros HS Hg. destruct (get_open w s o i) as [[t|e] s1] eqn:E; cbn zeta;
    destruct (get_open_inv _ _ _ _ _ _ (s_d _ _ HS) E) as [[F1 F2] H]; cbn [fst].
  - destruct H as [H1 [H2 _]]. split; [|exact F2].
    eapply sinv_set; [exact I|exact HS|exact F1| |exact H2].
    rewrite (claims_del_none w _ _ Hg). exact H1.
  - split; [|exact F2]. eapply sinv_same; [exact HS|exact F1|exact H].
Qed.

(** ---- get_consume ---- *)
Lemma get_consume_inv cl s o uid l refresh fkeys code bytes s' :
  DInv w (CR uid l o :: refresh_claims c refresh o false ++ cl) s ->
  thread_ok w (TGet o uid l refresh fkeys) ->
  get_consume w s o uid l refresh fkeys = (code, bytes, s') ->
  frame_tn s s' /\ DInv w cl s' /\ (code = cOK -> bytes = content w o).
Proof.
  intros HD [Hsz [Hrf Hfk]]. unfold get_consume.
  rewrite (i_read_validated_cr I w _ s uid l o HD) by (left; reflexivity).
  destruct refresh as [wr|]; cbn [refresh_claims app] in HD.
  - cbn [refresh_ok] in Hrf.
    assert (HD' : DInv w (CW wr [] :: CR uid l o :: cl) s).
    { eapply (i_perm I); [|exact HD]. apply perm_swap. }
    destruct (finalize (w_cfg w) (write_block s (wr_uid wr) (wr_off wr) (content w o)) wr true)
      as [r4 s4] eqn:F.
    assert (Hws : wr_size wr = osize w o) by congruence.
    destruct (copy_finalize_inv _ _ _ _ fkeys _ _ HD' Hws Hfk F) as [F4 H4].
    destruct r4 as [nl|e]; cbn [negb]; intros X.
    + rewrite Z.eqb_refl in X. injection X as <- <- <-. destruct H4 as [H4 _].
      split; [|split; [|reflexivity]].
      * eapply frame_tn_trans; [exact F4|]. eapply frame_tn_trans; [apply index_put_all_frame|apply unpin_frame].
      * exact (i_unpin I w (CR uid l o) cl _ H4 (cref_cr _ _ _)).
    + destruct H4 as [H4 He].
      assert (Ez : Z.eqb e cOK = false) by (apply Z.eqb_neq; exact He).
      rewrite Ez in X. injection X as <- <- <-.
      split; [|split; [|intros; contradiction]].
      * eapply frame_tn_trans; [exact F4|apply unpin_frame].
      * exact (i_unpin I w (CR uid l o) cl _ H4 (cref_cr _ _ _)).
  - cbn [negb]. rewrite Z.eqb_refl. intros X. injection X as <- <- <-.
    split; [apply unpin_frame|]. split; [|reflexivity].
    exact (i_unpin I w (CR uid l o) cl _ HD (cref_cr _ _ _)).
Qed.

Lemma step_get_consume s tid :
  SInv w s ->
  let r := match thr_get (s_threads s) tid with
      | Some (TGet o uid l refresh fkeys) =>
          let '(code, bytes, s1) := get_consume w s o uid l refresh fkeys in
          (thr_rm s1 tid, Done code bytes)
      | _ => (s, Bad)
      end in
  SInv w (fst r) /\ read_ok w s (OGetConsume tid) (fst r) (snd r).
Proof.
  intros HS. unfold read_ok.
  destruct (thr_get (s_threads s) tid) as [t|] eqn:Hg; [|cbn; split; [exact HS|split; [reflexivity|exact Logic.I]]].
  destruct (sinv_split I w s tid t HS Hg) as [HD Hok].
  destruct t as [| |o uid l refresh fkeys| |]; try (cbn; split; [exact HS|split; [reflexivity|exact Logic.I]]).
  cbn [claims_of_thread] in HD.
  destruct (get_consume w s o uid l refresh fkeys) as [[code bytes] s1] eqn:E.
  destruct (get_consume_inv _ _ _ _ _ _ _ _ _ _ HD Hok E) as [[F1 F2] [H Hb]]. cbn [fst snd].
  split; [|split; [exact F2|exact Hb]].
  eapply sinv_rm; [exact I|exact HS|exact F1|exact H].
Qed.

End Steps.
