(** Store/SectorWriterProofs.v — theorems about the sector writer model. *)
From Coq Require Import List Arith ZArith Bool Lia.
From BBS Require Import Store.SectorWriter.
Import ListNotations.

(** * Lists *)

Lemma write_at_length d o s : length (write_at d o s) = length d.
Proof.
  revert o s. induction d as [|x d IH]; intros o s; cbn; [reflexivity|].
  destruct o; [destruct s; cbn; [reflexivity|rewrite IH; reflexivity]|cbn; rewrite IH; reflexivity].
Qed.

Lemma nth_write_at d o s i x :
  nth i (write_at d o s) x =
  if (o <=? i) && (i <? o + length s) && (i <? length d) then nth (i - o) s x else nth i d x.
Proof.
  revert o s i. induction d as [|y d IH]; intros o s i.
  - cbn. rewrite andb_false_r. destruct i; reflexivity.
  - destruct o as [|o].
    + destruct s as [|b s].
      * cbn [write_at length]. replace (i <? 0 + 0) with false by (symmetry; apply Nat.ltb_ge; lia).
        rewrite andb_false_r. reflexivity.
      * cbn [write_at]. destruct i as [|i]; [reflexivity|].
        cbn [nth]. rewrite IH. cbn [length].
        replace (S i - 0) with (S i) by lia. replace (i - 0) with i by lia. cbn [nth].
        replace (S i <? 0 + S (length s)) with (i <? 0 + length s)
          by (destruct (Nat.ltb_spec i (0 + length s)), (Nat.ltb_spec (S i) (0 + S (length s))); lia).
        replace (S i <? S (length d)) with (i <? length d)
          by (destruct (Nat.ltb_spec i (length d)), (Nat.ltb_spec (S i) (S (length d))); lia).
        reflexivity.
    + cbn [write_at]. destruct i as [|i]; [reflexivity|].
      cbn [nth]. rewrite IH. cbn [length].
      replace (S o <=? S i) with (o <=? i)
        by (destruct (Nat.leb_spec o i), (Nat.leb_spec (S o) (S i)); lia).
      replace (S i <? S o + length s) with (i <? o + length s)
        by (destruct (Nat.ltb_spec i (o + length s)), (Nat.ltb_spec (S i) (S o + length s)); lia).
      replace (S i <? S (length d)) with (i <? length d)
        by (destruct (Nat.ltb_spec i (length d)), (Nat.ltb_spec (S i) (S (length d))); lia).
      replace (S i - S o) with (i - o) by lia. reflexivity.
Qed.

Lemma nth_write_at_in d o s i x :
  o <= i -> i < o + length s -> i < length d -> nth i (write_at d o s) x = nth (i - o) s x.
Proof.
  intros. rewrite nth_write_at.
  destruct (Nat.leb_spec o i), (Nat.ltb_spec i (o + length s)), (Nat.ltb_spec i (length d)); try lia.
  reflexivity.
Qed.

Lemma nth_write_at_out d o s i x :
  i < o \/ o + length s <= i -> nth i (write_at d o s) x = nth i d x.
Proof.
  intros. rewrite nth_write_at.
  destruct (Nat.leb_spec o i), (Nat.ltb_spec i (o + length s)); try lia; reflexivity.
Qed.

Lemma upd_length {T} (l : list T) i x : length (upd l i x) = length l.
Proof. revert i; induction l; intros [|i]; cbn; auto. Qed.

Lemma nth_error_upd_eq {T} (l : list T) i x : i < length l -> nth_error (upd l i x) i = Some x.
Proof. revert i; induction l; intros [|i] H; cbn in *; try lia; auto. apply IHl. lia. Qed.

Lemma nth_error_upd_ne {T} (l : list T) i j x : i <> j -> nth_error (upd l i x) j = nth_error l j.
Proof. revert i j; induction l; intros [|i] [|j] H; cbn; auto; try lia. Qed.

Lemma nth_upd_eq {T} (l : list T) i x d : i < length l -> nth i (upd l i x) d = x.
Proof. revert i; induction l; intros [|i] H; cbn in *; try lia; auto. apply IHl. lia. Qed.

Lemma nth_upd_ne {T} (l : list T) i j x d : i <> j -> nth j (upd l i x) d = nth j l d.
Proof. revert i j; induction l; intros [|i] [|j] H; cbn; auto; try lia. Qed.

Lemma apply_writes_app dev l1 l2 : apply_writes dev (l1 ++ l2) = apply_writes (apply_writes dev l1) l2.
Proof. unfold apply_writes. apply fold_left_app. Qed.

Lemma apply_writes_length dev l : length (apply_writes dev l) = length dev.
Proof.
  revert dev; induction l as [|w l IH]; intros dev; cbn; [reflexivity|].
  unfold apply_writes in IH. rewrite IH. apply write_at_length.
Qed.

(** * The allocator *)

Definition cpos (c : cfg) (b : cursor) : nat := b_wos b * c_sector c + shared_off b.

Definition cursor_wf (c : cfg) (b : cursor) : Prop :=
  match b_shared b with Some (_, o) => 0 < o < c_sector c | None => True end.

Lemma has_space_fits c b size :
  has_space c b size = true <-> cpos c b + size <= c_spb c * c_sector c.
Proof. unfold has_space, cpos. rewrite Nat.leb_le. lia. Qed.

Lemma new_block_wf c : cursor_wf c new_block.
Proof. exact I. Qed.
Lemma new_block_at_wf c r : cursor_wf c (new_block_at c r).
Proof. exact I. Qed.

Lemma new_block_at_pos c r : 1 <= c_sector c ->
  r <= cpos c (new_block_at c r) < r + c_sector c /\ cpos c (new_block_at c r) mod c_sector c = 0.
Proof.
  intros HS. unfold cpos, new_block_at, shared_off. cbn.
  set (S := c_sector c) in *. rewrite Nat.add_0_r.
  pose proof (Nat.div_mod (r + S - 1) S ltac:(lia)) as E.
  pose proof (Nat.mod_upper_bound (r + S - 1) S ltac:(lia)) as U.
  split; [nia|]. apply Nat.mod_mul. lia.
Qed.

Lemma alloc_spec c b images size b' images' w start :
  1 <= c_sector c -> cursor_wf c b ->
  alloc c b images size = (b', images', w, start) ->
  start = cpos c b /\ cpos c b' = cpos c b + size /\ cursor_wf c b'.
Proof.
  intros HS Hwf. unfold alloc. set (S := c_sector c) in *.
  set (endoff := shared_off b + size).
  pose proof (Nat.div_mod endoff S ltac:(lia)) as E.
  pose proof (Nat.mod_upper_bound endoff S ltac:(lia)) as U.
  destruct (Nat.eqb_spec (endoff mod S) 0) as [H0|H0].
  - intros H. inversion H; subst; clear H. unfold cpos, cursor_wf, shared_off at 2. cbn.
    fold S. split; [reflexivity|]. split; [|exact I]. unfold endoff in *. nia.
  - destruct (b_shared b) as [[id o]|] eqn:Hs.
    + destruct (0 <? endoff / S); intros H; inversion H; subst; clear H;
        unfold cpos, cursor_wf, shared_off at 2; cbn; fold S;
        (split; [reflexivity|]); (split; [unfold endoff in *; nia|lia]).
    + intros H; inversion H; subst; clear H;
        unfold cpos, cursor_wf, shared_off at 2; cbn; fold S;
        (split; [reflexivity|]); (split; [unfold endoff in *; nia|lia]).
Qed.

(** * Shape of writer steps *)

Ltac dif := match goal with |- context [if ?b then _ else _] => destruct b eqn:? end.

Lemma write_rest_last c w p : w_last (fst (write_rest c w p)) = w_last w.
Proof. unfold write_rest. repeat (dif; cbn); reflexivity. Qed.

Lemma write_last c images w p : w_last (snd (fst (write c images w p))) = w_last w.
Proof.
  unfold write. destruct (w_first w).
  - dif; [reflexivity|].
    match goal with |- context [write_rest c ?w1 ?q] =>
      pose proof (write_rest_last c w1 q) as H; destruct (write_rest c w1 q) end.
    exact H.
  - pose proof (write_rest_last c w p) as H. destruct (write_rest c w p). exact H.
Qed.

Definition same_geom (t t' : thread) : Prop :=
  t_start t' = t_start t /\ t_size t' = t_size t /\ t_first0 t' = t_first0 t /\
  w_last (t_w t') = w_last (t_w t).

Definition is_alloc (e : event) : bool := match e with EAlloc _ => true | _ => false end.

Lemma step_writer_shape c s e s' log :
  step c s e = Some (s', log) -> is_alloc e = false ->
  exists k t t' images',
    nth_error (st_threads s) k = Some t /\ t_status t = Active /\
    s' = set_thread s k t' images' log /\ same_geom t t'.
Proof.
  destruct e as [size|k chunk|k|k]; cbn [step is_alloc]; intros H Ha; try discriminate.
  - destruct (nth_error (st_threads s) k) as [t|] eqn:Hk; [|discriminate].
    destruct (t_status t) eqn:Hst; try discriminate.
    destruct (_ <=? _); [|discriminate].
    pose proof (write_last c (st_images s) (t_w t) chunk) as Hl.
    destruct (write c (st_images s) (t_w t) chunk) as [[im w'] lg]. cbn in Hl.
    inversion H; subst; clear H. do 4 eexists.
    split; [eauto|split; [eauto|split; [reflexivity|repeat split; cbn; auto]]].
  - destruct (nth_error (st_threads s) k) as [t|] eqn:Hk; [|discriminate].
    destruct (t_status t) eqn:Hst; try discriminate.
    destruct (_ =? _); [|discriminate].
    destruct (flush c (st_images s) (t_w t)) as [im lg].
    inversion H; subst; clear H. do 4 eexists.
    split; [eauto|split; [eauto|split; [reflexivity|repeat split; cbn; auto]]].
  - destruct (nth_error (st_threads s) k) as [t|] eqn:Hk; [|discriminate].
    destruct (t_status t) eqn:Hst; try discriminate.
    inversion H; subst; clear H. do 4 eexists.
    split; [eauto|split; [eauto|split; [reflexivity|repeat split; cbn; auto]]].
Qed.

(** * Allocations are laid out contiguously *)

Fixpoint chained (lo : nat) (ts : list thread) : Prop :=
  match ts with [] => True | t :: ts' => t_start t = lo /\ chained (lo + t_size t) ts' end.
Fixpoint chain_end (lo : nat) (ts : list thread) : nat :=
  match ts with [] => lo | t :: ts' => chain_end (lo + t_size t) ts' end.

Lemma chained_app lo ts t :
  chained lo ts -> t_start t = chain_end lo ts -> chained lo (ts ++ [t]).
Proof. revert lo; induction ts as [|u ts IH]; cbn; intros lo H E; [auto|]. destruct H; split; auto. Qed.

Lemma chain_end_app lo ts t : chain_end lo (ts ++ [t]) = chain_end lo ts + t_size t.
Proof. revert lo; induction ts as [|u ts IH]; cbn; intros lo; auto. Qed.

Lemma chained_upd lo ts k t t' :
  nth_error ts k = Some t -> t_start t' = t_start t -> t_size t' = t_size t ->
  (chained lo ts -> chained lo (upd ts k t')) /\ chain_end lo (upd ts k t') = chain_end lo ts.
Proof.
  revert lo k; induction ts as [|u ts IH]; intros lo [|k] Hk Hs Hz; cbn in *; try discriminate.
  - inversion Hk; subst. rewrite Hs, Hz. tauto.
  - destruct (IH (lo + t_size u) k Hk Hs Hz). tauto.
Qed.

Lemma chained_bounds lo ts i ti :
  chained lo ts -> nth_error ts i = Some ti ->
  lo <= t_start ti /\ t_start ti + t_size ti <= chain_end lo ts.
Proof.
  assert (forall l m, m <= chain_end m l) as Mono.
  { induction l; cbn; intros; [lia|]. specialize (IHl (m + t_size a)). lia. }
  revert lo i; induction ts as [|u ts IH]; intros lo i H Hi; [destruct i; discriminate|].
  cbn in H. destruct H as [Hu H]. destruct i as [|i]; cbn in Hi |- *.
  - inversion Hi; subst u. specialize (Mono ts (lo + t_size ti)). lia.
  - specialize (IH _ _ H Hi). lia.
Qed.

Lemma chained_order lo ts i j ti tj :
  chained lo ts -> i < j -> nth_error ts i = Some ti -> nth_error ts j = Some tj ->
  lo <= t_start ti /\ t_start ti + t_size ti <= t_start tj /\ t_start tj + t_size tj <= chain_end lo ts.
Proof.
  revert lo i j; induction ts as [|u ts IH]; intros lo i j H Hij Hi Hj; [destruct i; discriminate|].
  destruct j as [|j]; [lia|]. cbn in H, Hj |- *. destruct H as [Hu H].
  destruct i as [|i]; cbn in Hi.
  - inversion Hi; subst u. pose proof (chained_bounds _ _ _ _ H Hj). lia.
  - specialize (IH (lo + t_size u) i j H ltac:(lia) Hi Hj). lia.
Qed.

(** allocator invariant of the transition system, from a cursor at position [lo] *)
Definition ainv (c : cfg) (lo : nat) (s : state) : Prop :=
  cursor_wf c (st_cur s) /\ chained lo (st_threads s) /\
  chain_end lo (st_threads s) = cpos c (st_cur s) /\
  (st_threads s <> [] -> cpos c (st_cur s) <= c_spb c * c_sector c).

Lemma ainv_init c dev b : cursor_wf c b -> ainv c (cpos c b) (init_state dev b).
Proof. intros H. repeat split; cbn; auto. congruence. Qed.

Lemma ainv_step c lo s e s' log :
  1 <= c_sector c -> ainv c lo s -> step c s e = Some (s', log) -> ainv c lo s'.
Proof.
  intros HS (Hwf & Hch & Hend & Hin) Hstep.
  destruct (is_alloc e) eqn:Ha.
  - destruct e as [size| | |]; try discriminate. cbn [step] in Hstep.
    destruct (has_space c (st_cur s) size) eqn:Hhs; [|discriminate].
    apply has_space_fits in Hhs.
    destruct (alloc c (st_cur s) (st_images s) size) as [[[b' im'] w] start] eqn:Hal.
    inversion Hstep; subst; clear Hstep.
    destruct (alloc_spec _ _ _ _ _ _ _ _ HS Hwf Hal) as (Hst & Hpos & Hwf').
    unfold ainv; cbn. repeat split; auto.
    + apply chained_app; auto. cbn. lia.
    + rewrite chain_end_app. cbn. lia.
    + intros _. lia.
  - destruct (step_writer_shape _ _ _ _ _ Hstep Ha) as (k & t & t' & im' & Hk & _ & -> & (Hs & Hz & _)).
    destruct (chained_upd lo _ _ _ _ Hk Hs Hz) as [C1 C2].
    unfold ainv; cbn. repeat split; auto; try lia.
    intros Hne. apply Hin. intros E. rewrite E in Hk. destruct k; discriminate.
Qed.

Lemma ainv_run c lo tr : forall s s',
  1 <= c_sector c -> ainv c lo s -> run c s tr = Some s' -> ainv c lo s'.
Proof.
  induction tr as [|e tr IH]; intros s s' HS Hi Hr; cbn in Hr.
  - inversion Hr; subst; auto.
  - destruct (step c s e) as [[s1 l]|] eqn:Hs; [|discriminate].
    apply (IH s1 s' HS); [exact (ainv_step _ _ _ _ _ _ HS Hi Hs)|exact Hr].
Qed.

Theorem allocations_disjoint_proof : forall c dev b0 tr s,
  1 <= c_sector c -> cursor_wf c b0 ->
  run c (init_state dev b0) tr = Some s ->
  (forall i j ti tj, i < j -> nth_error (st_threads s) i = Some ti -> nth_error (st_threads s) j = Some tj ->
     t_start ti + t_size ti <= t_start tj) /\
  (forall i ti, nth_error (st_threads s) i = Some ti ->
     cpos c b0 <= t_start ti /\ t_start ti + t_size ti <= c_spb c * c_sector c) /\
  (forall b size, has_space c b size = true <-> cpos c b + size <= c_spb c * c_sector c).
Proof.
  intros c dev b0 tr s HS Hwf Hr.
  pose proof (ainv_run c _ tr _ _ HS (ainv_init c dev b0 Hwf) Hr) as (Hw & Hch & He & Hin).
  split; [|split].
  - intros i j ti tj Hij Hi Hj. eapply chained_order in Hch; eauto. lia.
  - intros i ti Hi. pose proof (chained_bounds _ _ _ _ Hch Hi).
    assert (st_threads s <> []) by (intros E; rewrite E in Hi; destruct i; discriminate).
    specialize (Hin H0). lia.
  - intros. apply has_space_fits.
Qed.

Theorem restored_offset_rounds_up_proof : forall c dev r tr s i ti,
  1 <= c_sector c ->
  run c (init_state dev (new_block_at c r)) tr = Some s ->
  nth_error (st_threads s) i = Some ti ->
  r <= t_start ti /\ (exists m, cpos c (new_block_at c r) = m * c_sector c /\ m * c_sector c <= t_start ti).
Proof.
  intros c dev r tr s i ti HS Hr Hi.
  destruct (allocations_disjoint_proof c dev _ tr s HS (new_block_at_wf c r) Hr) as (_ & H & _).
  destruct (H _ _ Hi) as [H1 _]. pose proof (new_block_at_pos c r HS) as [H2 H3].
  split; [lia|]. exists (b_wos (new_block_at c r)). unfold cpos in *. cbn in *. lia.
Qed.
