(** C01 proofs: provenance / thread-id part.  File A: basic lemmas
    (decoding observations, association lists, key coverage, frame lemmas
    of the allocator sub-operations). *)
From Coq Require Import List NArith ZArith Bool Arith Lia.
From BBS Require Import Common.Sx Store.Model Store.Wf Store.WfTids Run.RStore Run.R01
  Store.P01Defs Store.P01Inv.
Import ListNotations.
Local Open Scope nat_scope.

(** ---- decoding ---- *)
Lemma sx_Ns_of_Ns l : sx_Ns (of_Ns l) = l.
Proof.
  unfold sx_Ns, of_Ns. cbn [sx_list]. rewrite map_map.
  induction l as [|a l IH]; cbn [map]; [reflexivity|].
  f_equal; [|exact IH]. unfold sx_N, of_N. cbn [sx_Z]. apply N2Z.id.
Qed.
Lemma sx_nats_of_nats l : sx_nats (of_nats l) = l.
Proof.
  unfold sx_nats, of_nats. cbn [sx_list]. rewrite map_map.
  induction l as [|a l IH]; cbn [map]; [reflexivity|].
  f_equal; [|exact IH]. unfold sx_nat, of_nat. cbn [sx_Z]. apply Nat2Z.id.
Qed.

Section Dec.
  Variables (c : config) (e : op) (s0 s1 : state).
  Lemma dk_done code b : ob_kind (enc_obs c e s0 s1 (Done code b)) = 0%Z. Proof. reflexivity. Qed.
  Lemma dc_done code b : ob_code (enc_obs c e s0 s1 (Done code b)) = code. Proof. reflexivity. Qed.
  Lemma db_done code b : ob_bytes (enc_obs c e s0 s1 (Done code b)) = b.
  Proof. unfold ob_bytes. change (sx_nth (enc_obs c e s0 s1 (Done code b)) 2) with (of_Ns b). apply sx_Ns_of_Ns. Qed.
  Lemma dok_done code b : ob_ok (enc_obs c e s0 s1 (Done code b)) = Z.eqb code 0.
  Proof. reflexivity. Qed.
  Lemma dk_parked : ob_kind (enc_obs c e s0 s1 Parked) = 1%Z. Proof. reflexivity. Qed.
  Lemma dok_parked : ob_ok (enc_obs c e s0 s1 Parked) = false. Proof. reflexivity. Qed.
  Lemma dk_missing code d : ob_kind (enc_obs c e s0 s1 (Missing code d)) = 2%Z. Proof. reflexivity. Qed.
  Lemma dc_missing code d : ob_code (enc_obs c e s0 s1 (Missing code d)) = code. Proof. reflexivity. Qed.
  Lemma dm_missing code d : sx_nats (sx_nth (enc_obs c e s0 s1 (Missing code d)) 2) = d.
  Proof. change (sx_nth (enc_obs c e s0 s1 (Missing code d)) 2) with (of_nats d). apply sx_nats_of_nats. Qed.
  Lemma dok_missing code d : ob_ok (enc_obs c e s0 s1 (Missing code d)) = false. Proof. reflexivity. Qed.
  Lemma dk_bad : ob_kind (enc_obs c e s0 s1 Bad) = 3%Z. Proof. reflexivity. Qed.
  Lemma dok_bad : ob_ok (enc_obs c e s0 s1 Bad) = false. Proof. reflexivity. Qed.
  Lemma dn_bad : ob_negs (enc_obs c e s0 s1 Bad) = 0%Z. Proof. reflexivity. Qed.
  Lemma dn_gen o : o <> Bad -> ob_negs (enc_obs c e s0 s1 o) = Z.of_nat (s_negs s1 - s_negs s0).
  Proof. destruct o; intros H; try reflexivity. congruence. Qed.
  Lemma negs_test o : s_negs s1 = s_negs s0 -> (0 <? ob_negs (enc_obs c e s0 s1 o))%Z = false.
  Proof.
    intros H. destruct o; try reflexivity;
    (rewrite dn_gen by congruence; rewrite H, Nat.sub_diag; reflexivity).
  Qed.
End Dec.

(** ---- association lists ---- *)
Lemma assoc_cons {T} (l : list (nat * T)) k v k' :
  assoc ((k, v) :: l) k' = if Nat.eqb k' k then Some v else assoc l k'.
Proof. reflexivity. Qed.
Lemma assoc_unassoc {T} (l : list (nat * T)) k k' :
  assoc (unassoc l k) k' = if Nat.eqb k' k then None else assoc l k'.
Proof.
  induction l as [|[a v] l IH]; cbn [unassoc filter assoc fst].
  - destruct (Nat.eqb k' k); reflexivity.
  - destruct (Nat.eqb a k) eqn:E; cbn [negb].
    + apply Nat.eqb_eq in E; subst a. fold (unassoc l k). rewrite IH.
      destruct (Nat.eqb k' k); reflexivity.
    + fold (unassoc l k). cbn [assoc]. rewrite IH.
      destruct (Nat.eqb k' a) eqn:E2; [|reflexivity].
      apply Nat.eqb_eq in E2; subst a. rewrite E. reflexivity.
Qed.

Lemma thr_get_del ts tid tid' :
  thr_get (thr_del ts tid) tid' = if Nat.eqb tid tid' then None else thr_get ts tid'.
Proof.
  induction ts as [|[a v] ts IH]; cbn [thr_del filter thr_get fst].
  - destruct (Nat.eqb tid tid'); reflexivity.
  - destruct (Nat.eqb a tid) eqn:E; cbn [negb].
    + apply Nat.eqb_eq in E; subst a. fold (thr_del ts tid). rewrite IH.
      destruct (Nat.eqb tid tid'); reflexivity.
    + fold (thr_del ts tid). cbn [thr_get]. rewrite IH.
      destruct (Nat.eqb a tid') eqn:E2; [|reflexivity].
      apply Nat.eqb_eq in E2; subst a. rewrite Nat.eqb_sym, E. reflexivity.
Qed.
Lemma thr_get_set s tid t tid' :
  thr_get (s_threads (thr_set s tid t)) tid' = if Nat.eqb tid tid' then Some t else thr_get (s_threads s) tid'.
Proof.
  unfold thr_set, upd_threads. cbn [s_threads thr_get]. rewrite thr_get_del.
  destruct (Nat.eqb tid tid'); reflexivity.
Qed.
Lemma thr_get_rm s tid tid' :
  thr_get (s_threads (thr_rm s tid)) tid' = if Nat.eqb tid tid' then None else thr_get (s_threads s) tid'.
Proof. unfold thr_rm, upd_threads. cbn [s_threads]. apply thr_get_del. Qed.
Lemma idx_set s tid t : s_index (thr_set s tid t) = s_index s. Proof. reflexivity. Qed.
Lemma idx_rm s tid : s_index (thr_rm s tid) = s_index s. Proof. reflexivity. Qed.

Lemma bytes_eqb_eq a : forall b, bytes_eqb a b = true -> a = b.
Proof.
  induction a as [|x a IH]; intros [|y b] H; cbn in H; try discriminate; [reflexivity|].
  apply andb_prop in H. destruct H as [H1 H2]. apply N.eqb_eq in H1. subst. f_equal. auto.
Qed.
Lemma bytes_eqb_refl a : bytes_eqb a a = true.
Proof. induction a as [|x a IH]; cbn; [reflexivity|]. rewrite N.eqb_refl. exact IH. Qed.

Lemma In_insert_nat x n l : In x (insert_nat n l) <-> x = n \/ In x l.
Proof.
  induction l as [|h t IH]; cbn [insert_nat].
  - cbn. intuition.
  - destruct (Nat.leb n h); cbn [In]; [intuition|]. rewrite IH. intuition.
Qed.
Lemma In_sort_nat x l : In x (sort_nat l) <-> In x l.
Proof.
  induction l as [|h t IH]; cbn [sort_nat fold_right]; [tauto|].
  fold (sort_nat t). rewrite In_insert_nat, IH. cbn. intuition.
Qed.
Lemma existsb_eqb_In x l : existsb (Nat.eqb x) l = true <-> In x l.
Proof.
  rewrite existsb_exists. split.
  - intros [y [H1 H2]]. apply Nat.eqb_eq in H2. subst. exact H1.
  - intros H. exists x. split; [exact H|apply Nat.eqb_refl].
Qed.

(** ---- key coverage ---- *)
Definition kcov (w : world) (up : list (nat * nat)) (k : key) : Prop :=
  if c_hier (w_cfg w) || c_inst_keys (w_cfg w)
  then forall a, snd k = S a -> In (fst k, a) up
  else exists i, In (fst k, i) up.
Definition icov (w : world) (up : list (nat * nat)) (s : state) : Prop :=
  forall k l, In (k, l) (s_index s) -> kcov w up k.

Lemma kcov_mono w up up' k : (forall x, In x up -> In x up') -> kcov w up k -> kcov w up' k.
Proof.
  unfold kcov. intros Hs. destruct (c_hier (w_cfg w) || c_inst_keys (w_cfg w)).
  - intros H a Ha. auto.
  - intros [i Hi]. exists i. auto.
Qed.
Lemma icov_mono w up up' s : (forall x, In x up -> In x up') -> icov w up s -> icov w up' s.
Proof. intros Hs H k l Hin. eapply kcov_mono; eauto. Qed.
Lemma visible_mono w up up' o i :
  (forall x, In x up -> In x up') -> visible w up o i = true -> visible w up' o i = true.
Proof.
  unfold visible. intros Hs H. apply existsb_exists in H. destruct H as [x [H1 H2]].
  apply existsb_exists. exists x. split; auto.
Qed.

Lemma kcov_canonical w up o : c_hier (w_cfg w) = true -> kcov w up (canonical_key o).
Proof. unfold kcov. intros ->. cbn. intros a Ha. discriminate. Qed.

Lemma kcov_visible w up o i k :
  In k (lookup_keys w o i) -> kcov w up k -> visible w up o i = true.
Proof.
  unfold lookup_keys, kcov, visible, flat_key. intros Hin Hc.
  destruct (c_hier (w_cfg w)) eqn:Eh; cbn [orb] in Hc.
  - apply in_map_iff in Hin. destruct Hin as [a [<- Ha]]. cbn [fst snd] in Hc.
    apply existsb_exists. exists (o, a). split; [apply Hc; reflexivity|].
    rewrite Nat.eqb_refl. cbn [andb]. apply existsb_exists. exists a. split; [exact Ha|apply Nat.eqb_refl].
  - destruct Hin as [<-|[]]. destruct (c_inst_keys (w_cfg w)) eqn:Ei; cbn [fst snd] in Hc.
    + apply existsb_exists. exists (o, i). split; [apply Hc; reflexivity|].
      rewrite !Nat.eqb_refl. reflexivity.
    + destruct Hc as [i' Hi']. apply existsb_exists. exists (o, i'). split; [exact Hi'|].
      rewrite Nat.eqb_refl. reflexivity.
Qed.

Lemma kcov_flat_key w up o i : c_hier (w_cfg w) = false -> In (o, i) up -> kcov w up (flat_key (w_cfg w) o i).
Proof.
  unfold kcov, flat_key. intros -> Hin. cbn [orb]. destruct (c_inst_keys (w_cfg w)); cbn [fst snd].
  - intros a Ha. injection Ha as <-. exact Hin.
  - exists i. exact Hin.
Qed.
Lemma kcov_inst w up o i : c_hier (w_cfg w) = true -> In (o, i) up -> kcov w up (o, S i).
Proof. unfold kcov. intros -> Hin. cbn. intros a Ha. injection Ha as <-. exact Hin. Qed.
Lemma kcov_finalize_keys w up o i k :
  In (o, i) up -> In k (finalize_keys w o i) -> kcov w up k.
Proof.
  unfold finalize_keys. intros Hin Hk. destruct (c_hier (w_cfg w)) eqn:Eh.
  - destruct Hk as [<-|[<-|[]]]; [apply kcov_canonical; exact Eh|apply kcov_inst; assumption].
  - destruct Hk as [<-|[]]. apply kcov_flat_key; assumption.
Qed.

(** ---- index lookups return stored entries ---- *)
Lemma key_eqb_eq a b : key_eqb a b = true -> a = b.
Proof.
  destruct a, b. unfold key_eqb. cbn [fst snd]. intros H. apply andb_prop in H.
  destruct H as [H1 H2]. apply Nat.eqb_eq in H1, H2. subst. reflexivity.
Qed.
Lemma newest_in cands : forall best l, newest cands best = Some l -> In l cands \/ best = Some l.
Proof.
  induction cands as [|x t IH]; cbn [newest]; intros best l H; [right; exact H|].
  apply IH in H. destruct H as [H|H]; [left; right; exact H|].
  destruct best as [b|]; [destruct (loc_older b x)|]; injection H as <-; cbn; auto.
Qed.
Lemma index_get_in s k l : index_get s k = Some l -> In (k, l) (s_index s).
Proof.
  unfold index_get. intros H. apply newest_in in H. destruct H as [H|H]; [|discriminate].
  apply in_map_iff in H. destruct H as [[k' l'] [E H]]. cbn [snd] in E. subst l'.
  apply filter_In in H. destruct H as [H1 H2]. cbn [fst snd] in H2.
  apply andb_prop in H2. destruct H2 as [H2 _]. apply key_eqb_eq in H2. subst. exact H1.
Qed.
Lemma least_specific_in s ks k l : least_specific s ks = Some (k, l) -> In k ks /\ index_get s k = Some l.
Proof.
  induction ks as [|k0 t IH]; cbn [least_specific]; [discriminate|].
  destruct (index_get s k0) eqn:E.
  - intros H. injection H as <- <-. split; [left; reflexivity|exact E].
  - intros H. apply IH in H. destruct H. split; [right|]; assumption.
Qed.
Lemma icov_get w up s k l : icov w up s -> index_get s k = Some l -> kcov w up k.
Proof. intros H G. apply index_get_in in G. eapply H; eauto. Qed.
Lemma icov_ls_visible w up s o i k l :
  icov w up s -> least_specific s (lookup_keys w o i) = Some (k, l) -> visible w up o i = true /\ kcov w up k.
Proof.
  intros H L. apply least_specific_in in L. destruct L as [L1 L2].
  assert (kcov w up k) by (eapply icov_get; eauto). split; [eapply kcov_visible; eauto|assumption].
Qed.

(** ---- frames: sub-operations that touch neither the index nor the threads ---- *)
Definition same (s s' : state) : Prop := s_index s' = s_index s /\ s_threads s' = s_threads s.
Lemma same_refl s : same s s. Proof. split; reflexivity. Qed.
Lemma same_trans a b c : same a b -> same b c -> same a c.
Proof. intros [A1 A2] [B1 B2]. split; congruence. Qed.
#[export] Hint Resolve same_refl : core.

Lemma same_pin s u : same s (pin s u). Proof. split; reflexivity. Qed.
Lemma same_unpin c s u : same s (unpin c s u).
Proof.
  unfold unpin. destruct (find_uid u (s_blocks s)); [split; reflexivity|].
  destruct (find_uid u (s_zombies s)); [|apply same_refl].
  destruct (Nat.leb (b_use b) 1); [|split; reflexivity].
  destruct (in_memory c); split; reflexivity.
Qed.
Lemma same_pop_front c s : same s (pop_front c s).
Proof.
  unfold pop_front. destruct (s_blocks s); [apply same_refl|].
  destruct (Nat.leb (b_use b) 1); [|split; reflexivity].
  destruct (in_memory c); split; reflexivity.
Qed.
Lemma same_push_back c s s' : push_back c s = Some s' -> same s s'.
Proof.
  unfold push_back, new_block. destruct (in_memory c).
  - intros H. injection H as <-. split; reflexivity.
  - destruct (s_free s); [discriminate|]. intros H. injection H as <-. split; reflexivity.
Qed.
Lemma same_write_block s u off d : same s (write_block s u off d).
Proof. unfold write_block. destruct (find_block s u); [split; reflexivity|apply same_refl]. Qed.
Lemma same_fbs_release c fuel : forall s, same s (fbs_release c fuel s).
Proof.
  induction fuel as [|f IH]; intros s; cbn [fbs_release]; [apply same_refl|].
  destruct (N.ltb (s_released s) (s_tbr s)); [|apply same_refl].
  eapply same_trans; [|apply IH].
  eapply same_trans; [apply (same_pop_front c s)|].
  destruct (s_old (pop_front c s)); [destruct (s_cur (pop_front c s))|]; split; reflexivity.
Qed.
Lemma same_fbs_grow c fuel : forall s b s', fbs_grow c fuel s = (b, s') -> same s s'.
Proof.
  induction fuel as [|f IH]; intros s b s'; cbn [fbs_grow].
  - intros H; injection H as <- <-; apply same_refl.
  - destruct (grow_new c (s_cur s) (s_new s)); [|intros H; injection H as <- <-; apply same_refl].
    destruct (push_back c s) as [s1|] eqn:E; [|intros H; injection H as <- <-; apply same_refl].
    intros H. apply IH in H. apply same_push_back in E.
    eapply same_trans; [exact E|]. eapply same_trans; [|exact H]. split; reflexivity.
Qed.
Lemma same_fbs_rotate c fuel size : forall s b s', fbs_rotate c fuel size s = (b, s') -> same s s'.
Proof.
  induction fuel as [|f IH]; intros s b s'; cbn [fbs_rotate].
  - intros H; injection H as <- <-; apply same_refl.
  - destruct (has_space c s (s_old s + s_cur s) size); [intros H; injection H as <- <-; apply same_refl|].
    destruct (Nat.ltb (desired_new c) (s_new s)).
    + intros H. apply IH in H. eapply same_trans; [|exact H]. split; reflexivity.
    + destruct (push_back c s) as [s1|] eqn:E; [|intros H; injection H as <- <-; apply same_refl].
      intros H. apply IH in H. apply same_push_back in E.
      eapply same_trans; [exact E|]. eapply same_trans; [|exact H].
      destruct (grow_cur c (s_cur s1)); [split; reflexivity|].
      match goal with |- context [if ?b then _ else _] => destruct b end; [|split; reflexivity].
      match goal with |- context [pop_front c ?x] =>
        pose proof (same_pop_front c x) as [P1 P2] end.
      split; cbn [reset_alloc upd_alloc upd_rel upd_counts s_index s_threads] in *; [rewrite P1|rewrite P2]; reflexivity.
Qed.
Lemma same_fbs_pick c fuel size : forall s idx s', fbs_pick c fuel size s = Some (idx, s') -> same s s'.
Proof.
  induction fuel as [|f IH]; intros s idx s'; cbn [fbs_pick]; [discriminate|].
  destruct (s_attempts s) as [|a]; [|destruct (s_aidx s) as [i|]].
  - intros H. apply IH in H. eapply same_trans; [|exact H]. split; reflexivity.
  - destruct (has_space c s (s_old s + s_cur s + i) size).
    + intros H; injection H as <- <-. split; reflexivity.
    + intros H. apply IH in H. eapply same_trans; [|exact H]. split; reflexivity.
  - intros H. apply IH in H. eapply same_trans; [|exact H]. split; reflexivity.
Qed.
Lemma fbws_spec c s size r s' :
  find_block_with_space c s size = (r, s') -> same s s' /\ (forall e, r = Err e -> e <> 0%Z).
Proof.
  unfold find_block_with_space. destruct (N.ltb (c_bs c) size).
  { intros H; injection H as <- <-. split; [apply same_refl|]. intros e E; injection E as <-. discriminate. }
  pose proof (same_fbs_release c (S (length (s_blocks s))) s) as S1.
  destruct (fbs_grow c (S (c_cur c + c_new c)) (fbs_release c (S (length (s_blocks s))) s)) as [b2 s2] eqn:E2.
  apply same_fbs_grow in E2. pose proof (same_trans _ _ _ S1 E2) as S2.
  destruct b2.
  2:{ intros H; injection H as <- <-. split; [exact S2|]. intros e E; injection E as <-. discriminate. }
  destruct (fbs_rotate c (fuel_of s2) size s2) as [b3 s3] eqn:E3.
  apply same_fbs_rotate in E3. pose proof (same_trans _ _ _ S2 E3) as S3.
  destruct b3.
  2:{ intros H; injection H as <- <-. split; [exact S3|]. intros e E; injection E as <-. discriminate. }
  destruct (fbs_pick c (S (S (s_new s3)) * 2) size s3) as [[idx s4]|] eqn:E4.
  - apply same_fbs_pick in E4. intros H; injection H as <- <-. split; [eapply same_trans; eauto|]. discriminate.
  - intros H; injection H as <- <-. split; [exact S3|]. intros e E; injection E as <-. discriminate.
Qed.
Lemma ocn_put_spec c s size r s' :
  ocn_put c s size = (r, s') -> same s s' /\ (forall e, r = Err e -> e <> 0%Z).
Proof.
  unfold ocn_put. destruct (find_block_with_space c s size) as [r0 s0] eqn:E.
  apply fbws_spec in E. destruct E as [S0 N0]. destruct r0 as [idx|e0].
  - destruct (nth_error (s_blocks s0) idx).
    + intros H; injection H as <- <-. split; [|discriminate]. eapply same_trans; [exact S0|]. split; reflexivity.
    + intros H; injection H as <- <-. split; [exact S0|]. intros e E; injection E as <-. discriminate.
  - intros H; injection H as <- <-. split; [exact S0|]. intros e E; injection E as <-. apply N0. reflexivity.
Qed.
Lemma finalize_spec c s wr ok r s' :
  finalize c s wr ok = (r, s') -> same s s' /\ (forall e, r = Err e -> e <> 0%Z).
Proof.
  unfold finalize. pose proof (same_unpin c s (wr_uid wr)) as S1.
  destruct (negb ok).
  { intros H; injection H as <- <-. split; [exact S1|]. intros e E; injection E as <-. discriminate. }
  destruct (N.ltb (wr_abs wr) (s_tbr (unpin c s (wr_uid wr)))).
  { intros H; injection H as <- <-. split; [exact S1|]. intros e E; injection E as <-. discriminate. }
  intros H; injection H as <- <-. split; [exact S1|]. discriminate.
Qed.
Lemma read_validated_spec w s o uid l valid bytes s' :
  read_validated w s o uid l = (valid, bytes, s') ->
  same s s' /\ (c_validate (w_cfg w) = true -> valid = true -> bytes = content w o).
Proof.
  unfold read_validated. destruct (c_validate (w_cfg w)); cbn [andb].
  - destruct (bytes_eqb (read_block s uid (l_off l) (l_size l)) (content w o)) eqn:E; cbn [negb].
    + intros H; injection H as <- <- <-. split; [apply same_refl|]. intros _ _. apply bytes_eqb_eq. exact E.
    + intros H; injection H as <- <- <-. split; [split; reflexivity|]. intros _ E'. discriminate.
  - intros H; injection H as <- <- <-. split; [apply same_refl|]. intros E'. discriminate.
Qed.
