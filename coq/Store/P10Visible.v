(** C10 — hierarchical CAS: objects are visible exactly under the uploader's
    instance subtree.  Trace-level theorems about the store model (all
    worlds with c_hier = true, all schedules).  Proofs only. *)
From Coq Require Import List NArith ZArith Bool Arith Lia ZifyN ZifyNat ZifyBool.
From BBS Require Import Store.Model Store.P08Frame Store.P08Step Store.P08Quarantine Store.P10Inv.
Import ListNotations.
Open Scope N_scope.

(** successful uploads (object, instance) completed during a schedule *)
Fixpoint ups (w : world) (s : state) (es : list op) : list (nat * nat) :=
  match es with
  | [] => []
  | e :: t => completed w s e ++ ups w (fst (step w s e)) t
  end.

Lemma ups_spec w es : forall s o i, In (o, i) (ups w s es) <->
  exists es1 e es2, es = es1 ++ e :: es2 /\ In (o, i) (completed w (exec w s es1) e).
Proof.
  induction es as [|e t IH]; intros s o i; cbn [ups].
  - split; [intros []|]. intros (es1 & e & es2 & E & _). destruct es1; discriminate.
  - rewrite in_app_iff, IH. split.
    + intros [H|(es1 & e' & es2 & -> & H)].
      * exists [], e, t. split; [reflexivity|exact H].
      * exists (e :: es1), e', es2. split; [reflexivity|exact H].
    + intros (es1 & e' & es2 & E & H). destruct es1 as [|e0 es1]; cbn in E; inv E.
      * left. exact H.
      * right. exists es1, e', es2. split; [reflexivity|exact H].
Qed.

Lemma hinv_init c : hinv (init_state c).
Proof. intros tid t []. Qed.

Lemma no_entry_init c k : ~ has_entry (init_state c) k.
Proof. intros [l []]. Qed.

(** the invariant along every schedule, and provenance of every lookup entry *)
Lemma exec_hier w es : c_hier (w_cfg w) = true -> forall s, hinv s ->
  hinv (exec w s es) /\
  forall o i, has_entry (exec w s es) (o, S i) -> has_entry s (o, S i) \/ In (o, i) (ups w s es).
Proof.
  intros Hh. induction es as [|e t IH]; intros s Hi; cbn [exec ups]; [split; [assumption|auto]|].
  destruct (step w s e) as [s1 out] eqn:E. cbn [fst].
  destruct (step_hier _ _ _ _ _ Hh Hi E) as [Hi1 Hk].
  destruct (IH s1 Hi1) as [Hi2 Hk2]. split; [assumption|].
  intros o i H. apply Hk2 in H as [H|H]; [|right; apply in_or_app; right; assumption].
  apply Hk in H as [[H|H]|(o' & i' & Ek & H)].
  - discriminate.
  - left. assumption.
  - inv Ek. right. apply in_or_app. left. assumption.
Qed.

Lemma reachable_hinv w es : c_hier (w_cfg w) = true -> hinv (exec w (init_state (w_cfg w)) es).
Proof. intros Hh. apply exec_hier; [assumption|apply hinv_init]. Qed.

Lemma entry_provenance w es o i : c_hier (w_cfg w) = true ->
  has_entry (exec w (init_state (w_cfg w)) es) (o, S i) -> In (o, i) (ups w (init_state (w_cfg w)) es).
Proof.
  intros Hh H. destruct (exec_hier w es Hh _ (hinv_init (w_cfg w))) as [_ Hk].
  apply Hk in H as [H|H]; [exfalso; eapply no_entry_init, H|assumption].
Qed.

Lemma lookup_key_hier w o j k : c_hier (w_cfg w) = true -> In k (lookup_keys w o j) ->
  exists a, k = (o, S a) /\ In a (ancestors w j).
Proof.
  intros Hh. rewrite hier_lookup_keys by assumption. intros H. apply in_map_iff in H as (a & <- & Ha). eauto.
Qed.

Lemma resolved_lookup_key_uploaded w es o j k l : c_hier (w_cfg w) = true ->
  In k (lookup_keys w o j) -> index_get (exec w (init_state (w_cfg w)) es) k = Some l ->
  exists i, In i (ancestors w j) /\ In (o, i) (ups w (init_state (w_cfg w)) es).
Proof.
  intros Hh Hk Hg. destruct (lookup_key_hier _ _ _ _ Hh Hk) as (a & -> & Ha).
  exists a. split; [assumption|]. apply entry_provenance; [assumption|].
  apply index_get_some in Hg as [Hg _]. exists l. assumption.
Qed.

(** ---- 1. visible_only_under_uploader_subtree ---- *)
Lemma visible_get w es tid o j s' : c_hier (w_cfg w) = true ->
  step w (exec w (init_state (w_cfg w)) es) (OGetOpen tid o j) = (s', Parked) ->
  exists i, In i (ancestors w j) /\ In (o, i) (ups w (init_state (w_cfg w)) es).
Proof.
  intros Hh H. apply get_open_parks_outside_quarantine in H as (_ & _ & _ & _ & _ & _ & k & l0 & Hk & Hg & _).
  eapply resolved_lookup_key_uploaded; eassumption.
Qed.

Lemma visible_find_missing w es ds m s' pos o j : c_hier (w_cfg w) = true ->
  step w (exec w (init_state (w_cfg w)) es) (OFindMissing ds) = (s', Missing cOK m) ->
  nth_error ds pos = Some (o, j) -> ~ In pos m ->
  exists i, In i (ancestors w j) /\ In (o, i) (ups w (init_state (w_cfg w)) es).
Proof.
  intros Hh H Hn Hm. destruct (find_missing_present_step _ _ _ _ _ _ _ _ H Hn Hm) as (k & l & Hk & Hg & _).
  eapply resolved_lookup_key_uploaded; eassumption.
Qed.

(** hierarchical composite read: the slicer gets the parent's reader only if
    the parent is visible; otherwise it gets an error buffer, and slicing
    an error buffer never succeeds *)
Lemma visible_composite w es tid o j ch s' uid l r fk : c_hier (w_cfg w) = true ->
  step w (exec w (init_state (w_cfg w)) es) (OGfcStart tid o j ch) = (s', Parked) ->
  thr_get (s_threads s') tid = Some (TGet o uid l r fk) ->
  exists i, In i (ancestors w j) /\ In (o, i) (ups w (init_state (w_cfg w)) es).
Proof.
  intros Hh. unfold step. cbn [may_take_refresh_lock is_corrupt andb].
  destruct (refresh_lock_held _); [discriminate|].
  destruct (thr_get _ tid); [discriminate|]. rewrite Hh.
  destruct (get_open w _ o j) as [[t|e] s1] eqn:E.
  - apply get_open_ok in E as (uid' & l' & r' & fk' & -> & (k & l0 & Hk & Hg) & _ & _).
    intros _ _. eapply resolved_lookup_key_uploaded; eassumption.
  - iinv. rewrite thr_get_set_same. discriminate.
Qed.

Lemma composite_error_never_ok w es tid e slices s' out : c_hier (w_cfg w) = true ->
  thr_get (s_threads (exec w (init_state (w_cfg w)) es)) tid = Some (TGfcErr e) ->
  step w (exec w (init_state (w_cfg w)) es) (OGfcSlice tid slices) = (s', out) ->
  exists c, out = Done c [] /\ c <> 0%Z.
Proof.
  intros Hh Ht. pose proof (reachable_hinv w es Hh _ _ (thr_get_in _ _ _ Ht)) as Hne. cbn in Hne.
  unfold step. cbn [may_take_refresh_lock is_corrupt andb]. rewrite Ht. iinv. eauto.
Qed.

(** ---- 2. existing_copy_requires_valid_content ---- *)
Lemma existing_copy_end w s tid o i acc err s' out :
  thr_get (s_threads s) tid = Some (TPutExisting o i acc) ->
  step w s (OPutEnd tid err) = (s', out) ->
  (out = Done cOK [] /\ err = 0%Z /\ acc = content w o /\
   exists l, index_get s (canonical_key o) = Some l /\ s_index s' = ((o, S i), l) :: s_index s) \/
  ((exists c, out = Done c [] /\ c <> 0%Z) /\ s_index s' = s_index s).
Proof.
  intros Ht. unfold step. cbn [may_take_refresh_lock is_corrupt andb]. rewrite Ht.
  destruct (Z.eqb_spec err 0) as [->|Hne]; cbn [negb].
  2:{ iinv. right. split; [eauto|reflexivity]. }
  destruct (bytes_eqb acc (content w o)) eqn:Eb; cbn [negb].
  2:{ iinv. right. split; [eexists; split; [reflexivity|discriminate]|reflexivity]. }
  apply bytes_eqb_eq in Eb.
  destruct (index_get s (canonical_key o)) as [l|]; iinv.
  - left. repeat split; try reflexivity. exists l. split; reflexivity.
  - right. split; [eexists; split; [reflexivity|discriminate]|reflexivity].
Qed.

Lemma existing_copy_chunk w s tid o i acc data s' out :
  thr_get (s_threads s) tid = Some (TPutExisting o i acc) ->
  step w s (OPutChunk tid data) = (s', out) -> s_index s' = s_index s.
Proof.
  intros Ht. unfold step. cbn [may_take_refresh_lock is_corrupt andb]. rewrite Ht.
  destruct (osize w o <? _); iinv; reflexivity.
Qed.

(** ---- 3. never_widens ---- *)
Lemma never_widens_step w es e s' out o i : c_hier (w_cfg w) = true ->
  let s := exec w (init_state (w_cfg w)) es in
  step w s e = (s', out) ->
  has_entry s' (o, S i) -> has_entry s (o, S i) \/ In (o, i) (completed w s e).
Proof.
  intros Hh s Hs H. destruct (step_hier _ _ _ _ _ Hh (reachable_hinv w es Hh) Hs) as [_ Hk].
  apply Hk in H as [[H|H]|(o' & i' & Ek & H)]; [discriminate|left; assumption|inv Ek; right; assumption].
Qed.

(** ---- 4. readable_under_every_descendant ---- *)
Lemma exec_sfr w es : forall s, exists n, sfr n s (exec w s es).
Proof.
  induction es as [|e t IH]; intros s; cbn [exec]; [exists 0%nat; apply sfr_refl|].
  destruct (step w s e) as [s1 out] eqn:E. cbn [fst]. destruct (IH s1) as [n Hn].
  apply step_sfr in E as [E|[E _]]; eexists; eapply sfr_trans; eassumption.
Qed.

(** a successful upload leaves a lookup entry that is valid at that moment *)
Lemma upload_entry_valid w s e s' out o i : c_hier (w_cfg w) = true -> hinv s ->
  step w s e = (s', out) -> In (o, i) (completed w s e) ->
  exists l, In ((o, S i), l) (s_index s') /\ s_tbr s' <= l_abs l /\ l_abs l < hiM s'.
Proof.
  intros Hh Hi Hs Hc. apply completed_spec in Hc as (tid & err & b & -> & Ho & Ht).
  rewrite Hs in Ho. cbn in Ho. subst out. revert Hs.
  unfold step. cbn [may_take_refresh_lock is_corrupt andb].
  destruct Ht as [(wr & acc & Ht)|(acc & Ht)]; rewrite Ht.
  - destruct (finalize (w_cfg w) s wr _) as [[l|e] s1] eqn:F.
    + apply finalize_ok in F as (_ & Hq & -> & ->). iinv.
      eexists. split; [|split].
      * cbn [thr_rm upd_threads s_index]. rewrite index_put_all_index. apply in_or_app. left.
        apply -> in_rev. apply in_map_iff. exists (o, S i). split; [reflexivity|].
        unfold finalize_keys. rewrite Hh. right. left. reflexivity.
      * cbn [thr_rm upd_threads s_tbr l_abs].
        destruct (index_put_all_ifr (unpin (w_cfg w) s (wr_uid wr)) (finalize_keys w o i)
                    {| l_abs := wr_abs wr; l_off := wr_off wr; l_size := wr_size wr |}) as [_ _ -> _ _ _].
        rewrite (xf_tbr _ _ (unpin_xfr _ _ _)). assumption.
      * apply thr_get_in, Hi in Ht. cbn in Ht. unfold hiM in *. cbn [thr_rm upd_threads s_released s_blocks l_abs].
        destruct (index_put_all_ifr (unpin (w_cfg w) s (wr_uid wr)) (finalize_keys w o i)
                    {| l_abs := wr_abs wr; l_off := wr_off wr; l_size := wr_size wr |}) as [_ _ _ -> -> _].
        rewrite (xf_rel _ _ (unpin_xfr _ _ _)), (xf_len _ _ (unpin_xfr _ _ _)). assumption.
    + apply finalize_err_code in F. revert F.
      destruct (Z.eqb_spec err 0) as [->|Hne]; intros F HH; inversion HH; exfalso.
      * destruct F; subst; discriminate.
      * apply Hne. assumption.
  - destruct (Z.eqb_spec err 0) as [->|Hne]; cbn [negb]; [|intros HH; inversion HH; exfalso; apply Hne; assumption].
    destruct (bytes_eqb acc (content w o)); cbn [negb]; [|iinv].
    destruct (index_get s (canonical_key o)) as [l|] eqn:G; iinv.
    apply index_get_some in G as [_ G]. unfold loc_valid in G.
    exists l. split; [left; reflexivity|]. unfold hiM. cbn. lia.
Qed.

Lemma readable_after_upload w s e sU out es2 o i j tid s' outG : c_hier (w_cfg w) = true -> hinv s ->
  step w s e = (sU, out) -> In (o, i) (completed w s e) ->
  s_tbr (exec w sU es2) = s_tbr sU ->
  In i (ancestors w j) ->
  step w (exec w sU es2) (OGetOpen tid o j) = (s', outG) ->
  forall b, outG <> Done cNotFound b.
Proof.
  intros Hh Hi Hs Hc Ht Ha Hg b.
  destruct (upload_entry_valid _ _ _ _ _ _ _ Hh Hi Hs Hc) as (l & Hin & Hq & Hhi).
  destruct (exec_sfr w es2 sU) as [n [[nw Ei] _ _ _ Hm]].
  set (sG := exec w sU es2) in *.
  assert (index_get sG (o, S i) <> None) as Hne.
  { apply (index_get_of_valid _ _ l).
    - rewrite Ei. apply in_or_app. right. assumption.
    - unfold loc_valid. unfold hiM in *. lia. }
  assert (least_specific sG (lookup_keys w o j) <> None) as Hls.
  { intros Hn. apply Hne. eapply least_specific_none; [exact Hn|].
    rewrite hier_lookup_keys by assumption. apply (in_map (fun a => (o, S a))). assumption. }
  revert Hg. unfold step. cbn [may_take_refresh_lock is_corrupt andb].
  destruct (thr_get (s_threads sG) tid); [iinv; discriminate|].
  destruct (get_open w sG o j) as [[t|e'] s1] eqn:E; iinv; [discriminate|].
  apply get_open_nwf in E as [_ [_ E]]. intros Hx. inv Hx. apply Hls, E. reflexivity.
Qed.

(** on traces from the initial state *)
Lemma readable_under_every_descendant_trace w es1 e es2 o i j tid s' outG : c_hier (w_cfg w) = true ->
  let s := exec w (init_state (w_cfg w)) es1 in
  let sU := fst (step w s e) in
  In (o, i) (completed w s e) ->
  s_tbr (exec w sU es2) = s_tbr sU ->
  In i (ancestors w j) ->
  step w (exec w sU es2) (OGetOpen tid o j) = (s', outG) ->
  forall b, outG <> Done cNotFound b.
Proof.
  intros Hh s sU Hc Ht Ha Hg. destruct (step w s e) as [sU' out] eqn:E.
  eapply (readable_after_upload w s e sU' out); try eassumption. apply reachable_hinv, Hh.
Qed.
