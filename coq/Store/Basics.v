(** Basic facts about the store model used by several properties. *)
From Coq Require Import List NArith ZArith Bool Arith Lia.
From BBS Require Import Store.Model.
Import ListNotations.
Open Scope N_scope.

Lemma newest_in cands best l :
  newest cands best = Some l -> best = Some l \/ In l cands.
Proof.
  revert best. induction cands as [|c t IH]; intros best H; cbn [newest] in H.
  - left; exact H.
  - apply IH in H. destruct H as [H|H]; [|right; right; exact H].
    destruct best as [b|].
    + destruct (loc_older b c); inversion H; subst; [right; left; reflexivity|left; reflexivity].
    + inversion H; subst. right; left; reflexivity.
Qed.

(** A lookup only ever resolves to a stored location of exactly that key
    which lies in a listed block at or above the quarantine boundary. *)
Theorem index_get_sound s k l :
  index_get s k = Some l ->
  In (k, l) (map (fun e => (k, snd e)) (filter (fun e => key_eqb (fst e) k) (s_index s)))
  /\ loc_valid s l = true.
Proof.
  unfold index_get. intros H. apply newest_in in H. destruct H as [H|H]; [discriminate|].
  apply in_map_iff in H. destruct H as ([k' l'] & Hl & Hin). cbn [snd] in Hl. subst l'.
  apply filter_In in Hin. destruct Hin as [Hin Hc]. cbn [fst snd] in Hc.
  apply andb_true_iff in Hc. destruct Hc as [Hk Hv]. split; [|exact Hv].
  apply in_map_iff. exists (k', l). split; [reflexivity|].
  apply filter_In. split; [exact Hin|exact Hk].
Qed.

Theorem index_get_above_quarantine s k l :
  index_get s k = Some l -> s_tbr s <= l_abs l /\ l_abs l < s_released s + N.of_nat (length (s_blocks s)).
Proof.
  intros H. apply index_get_sound in H. destruct H as [_ Hv]. unfold loc_valid in Hv.
  apply andb_true_iff in Hv. destruct Hv as [H1 H2].
  apply N.leb_le in H1. apply N.ltb_lt in H2. split; assumption.
Qed.

(** the put finalizer never acknowledges a write into a quarantined or released block *)
Theorem finalize_refuses_quarantined c s wr ok l s' :
  finalize c s wr ok = (Ok l, s') -> ok = true /\ s_tbr s' <= wr_abs wr.
Proof.
  unfold finalize. destruct ok; cbn [negb]; [|discriminate].
  destruct (wr_abs wr <? s_tbr (unpin c s (wr_uid wr))) eqn:Hlt; [discriminate|].
  intros H. inversion H; subst. split; [reflexivity|]. apply N.ltb_ge in Hlt. exact Hlt.
Qed.
