(** C05, part 3: specifications of the read / existence-check operations
    (where a touch places the object) and the frame property of [step]. *)
From Coq Require Import List NArith ZArith Bool Arith Lia Relations.
From Coq Require Import ZifyN ZifyNat ZifyBool.
From BBS Require Import Store.Model Store.WfTids Store.P05Cnt Store.P05Frame.
Import ListNotations.
Open Scope N_scope.

(** counters move by atoms, index entries are only added, threads untouched *)
Definition frx (c : config) (s s' : state) : Prop :=
  creach c (proj s) (proj s') /\ incl (s_index s) (s_index s') /\ s_threads s' = s_threads s.

Lemma frx_refl c s : frx c s s.
Proof. split; [apply creach_refl|split; [apply incl_refl|reflexivity]]. Qed.
Lemma frx_trans c a b d : frx c a b -> frx c b d -> frx c a d.
Proof.
  intros (A1 & A2 & A3) (B1 & B2 & B3). split; [eapply creach_trans; eauto|].
  split; [eapply incl_tran; eauto|congruence].
Qed.
Lemma fr_frx c s s' : fr c s s' -> frx c s s'.
Proof. intros (A & B & C). split; [auto|]. split; [rewrite B; apply incl_refl|auto]. Qed.
Lemma same_frx c s s' : same s s' -> frx c s s'.
Proof. intros H. apply fr_frx, same_fr, H. Qed.

Lemma frx_index_put_all c s ks l : frx c s (index_put_all s ks l).
Proof.
  destruct (index_put_all_spec ks s l) as (P & T & I & _).
  split; [apply creach_eq; auto|auto].
Qed.
Lemma frx_index_put c s k l : frx c s (index_put s k l).
Proof.
  destruct (same_index_put s k l) as (P & T & I).
  split; [apply creach_eq; auto|]. split; [rewrite I; apply incl_tl, incl_refl|auto].
Qed.

(** block number T is listed, not quarantined and not old *)
Definition kfresh (k : cnt) (T : N) : Prop :=
  k_tbr k <= T /\ k_rel k + N.of_nat (k_old k) <= T /\ T < k_end k.

(** object (o,i) has an index entry under one of its lookup keys in block T *)
Definition placed (w : world) (s : state) (o i : nat) (T : N) : Prop :=
  exists k l, In k (lookup_keys w o i) /\ In (k, l) (s_index s) /\ l_abs l = T.

Lemma placed_incl w s s' o i T : incl (s_index s) (s_index s') -> placed w s o i T -> placed w s' o i T.
Proof. intros I (k & l & A & B & C). exists k, l. auto. Qed.

Lemma not_old_fresh c s l :
  kinv c (proj s) -> loc_valid s l = true -> needs_refresh s l = false -> kfresh (proj s) (l_abs l).
Proof.
  intros K V R. unfold loc_valid in V. unfold needs_refresh in R.
  pose proof (ki_rel_tbr _ _ K) as H. cbn in H.
  unfold kfresh, k_end; cbn. lia.
Qed.

(** a placed object is found while its block is valid *)
Lemma placed_found w s o i T :
  placed w s o i T -> s_tbr s <= T -> T < s_released s + N.of_nat (length (s_blocks s)) ->
  least_specific s (lookup_keys w o i) <> None.
Proof.
  intros (k & l & A & B & C) H1 H2 E.
  eapply (index_get_some s k l); [exact B| |eapply least_specific_none; eauto].
  unfold loc_valid. lia.
Qed.

(** ---- Get ---- *)
Definition get_post (w : world) (s' : state) (o i : nat) (t : thread) : Prop :=
  exists uid l refresh fkeys, t = TGet o uid l refresh fkeys /\
    match refresh with
    | None => exists T, placed w s' o i T /\ kfresh (proj s') T
    | Some wr => (exists k, In k fkeys /\ In k (lookup_keys w o i)) /\
                 k_rel (proj s') + N.of_nat (k_old (proj s')) <= wr_abs wr /\ wr_abs wr < k_end (proj s')
    end.

Lemma open_with_refresh_spec w s o i l fkeys r s' :
  kinv (w_cfg w) (proj s) ->
  open_with_refresh w s o l fkeys = (r, s') ->
  (needs_refresh s l = false -> (exists k, In k (lookup_keys w o i) /\ In (k, l) (s_index s)) /\ loc_valid s l = true) ->
  (needs_refresh s l = true -> exists k, In k fkeys /\ In k (lookup_keys w o i)) ->
  frx (w_cfg w) s s' /\
  (forall e, r = Err e -> e <> cNotFound) /\
  (forall t, r = Ok t -> get_post w s' o i t).
Proof.
  intros K H HN HR. unfold open_with_refresh in H.
  destruct (block_of_loc s l) as [b|] eqn:EB.
  2:{ inversion H; subst. split; [apply frx_refl|]. split; intros; [inversion H0; discriminate|discriminate]. }
  pose proof (same_pin s (b_uid b)) as SP.
  destruct (needs_refresh s l) eqn:NR.
  - destruct (ocn_put (w_cfg w) (pin s (b_uid b)) (l_size l)) as [r2 s2] eqn:EO.
    apply ocn_put_spec in EO. destruct EO as (F2 & HW & HE).
    assert (F02 : frx (w_cfg w) s s2) by (eapply frx_trans; [apply same_frx; exact SP|apply fr_frx; exact F2]).
    destruct r2 as [wr|e].
    + destruct (HW wr eq_refl) as [B1 B2].
      destruct (lockstep (w_cfg w)).
      * inversion H; subst. split; [exact F02|]. split; [intros; discriminate|].
        intros t Ht; inversion Ht; subst. exists (b_uid b), l, (Some wr), fkeys. split; [reflexivity|].
        split; [apply HR; reflexivity|]. unfold k_end; cbn. auto.
      * set (s3 := write_block s2 (b_uid b) (wr_off wr) (read_block s2 (b_uid b) (l_off l) (l_size l))) in *.
        pose proof (same_write_block s2 (wr_uid wr) (wr_off wr) (read_block s2 (b_uid b) (l_off l) (l_size l))) as S3.
        destruct (finalize (w_cfg w) (write_block s2 (wr_uid wr) (wr_off wr) (read_block s2 (b_uid b) (l_off l) (l_size l))) wr true) as [r4 s4] eqn:EF.
        apply finalize_spec in EF. destruct EF as (S4 & HL & HE4).
        assert (S24 : same s2 s4) by (eapply same_trans; eauto).
        destruct r4 as [nl|e].
        -- inversion H; subst. destruct (HL nl eq_refl) as (A1 & A2 & _).
           destruct (index_put_all_spec fkeys s4 nl) as (P5 & T5 & I5 & A5).
           split; [eapply frx_trans; [exact F02|eapply frx_trans; [apply same_frx; exact S24|apply frx_index_put_all]]|].
           split; [intros; discriminate|].
           intros t Ht; inversion Ht; subst. exists (b_uid b), l, None, []. split; [reflexivity|].
           exists (l_abs nl). destruct (HR eq_refl) as (k & K1 & K2). split.
           ++ exists k, nl. auto.
           ++ destruct S24 as [P24 _]. rewrite P5, P24. unfold kfresh, k_end; cbn.
              destruct S4 as [P4 _]. assert (s_tbr s4 = s_tbr s2) by (change (k_tbr (proj s4) = k_tbr (proj s2)); rewrite P24; reflexivity).
              lia.
        -- inversion H; subst.
           split; [eapply frx_trans; [exact F02|eapply frx_trans; [apply same_frx; exact S24|apply same_frx, same_unpin]]|].
           split; [|intros; discriminate]. intros e' He; inversion He; subst. apply (HE4 e' eq_refl).
    + inversion H; subst.
      split; [eapply frx_trans; [exact F02|apply same_frx, same_unpin]|].
      split; [|intros; discriminate]. intros e' He; inversion He; subst. apply (HE e' eq_refl).
  - inversion H; subst. split; [apply same_frx; exact SP|]. split; [intros; discriminate|].
    intros t Ht; inversion Ht; subst. exists (b_uid b), l, None, fkeys. split; [reflexivity|].
    destruct (HN eq_refl) as [(k & K1 & K2) V].
    exists (l_abs l). destruct SP as [PP [IP _]]. split.
    + exists k, l. rewrite IP. auto.
    + rewrite PP. eapply not_old_fresh; eauto.
Qed.

Lemma needs_refresh_proj s s' l : proj s' = proj s -> needs_refresh s' l = needs_refresh s l.
Proof.
  intros P. unfold needs_refresh.
  change (s_released s') with (k_rel (proj s')). change (s_old s') with (k_old (proj s')). rewrite P. reflexivity.
Qed.
Lemma loc_valid_proj s s' l : proj s' = proj s -> loc_valid s' l = loc_valid s l.
Proof.
  intros P. unfold loc_valid.
  change (s_released s') with (k_rel (proj s')). change (s_tbr s') with (k_tbr (proj s')).
  change (length (s_blocks s')) with (k_len (proj s')). rewrite P. reflexivity.
Qed.

Lemma get_open_spec w s o i r s' :
  kinv (w_cfg w) (proj s) ->
  get_open w s o i = (r, s') ->
  frx (w_cfg w) s s' /\
  (forall e, r = Err e -> e = cNotFound -> least_specific s (lookup_keys w o i) = None) /\
  (forall t, r = Ok t -> get_post w s' o i t).
Proof.
  intros K H. unfold get_open in H.
  destruct (least_specific s (lookup_keys w o i)) as [[k l]|] eqn:LS.
  2:{ inversion H; subst. split; [apply frx_refl|]. split; [auto|intros; discriminate]. }
  apply least_specific_some in LS. destruct LS as [KI IG].
  apply index_get_in in IG. destruct IG as [IN V].
  assert (FIN : forall s0, frx (w_cfg w) s s0 ->
                (frx (w_cfg w) s0 s' /\ (forall e, r = Err e -> e <> cNotFound) /\
                 (forall t, r = Ok t -> get_post w s' o i t)) ->
                frx (w_cfg w) s s' /\
                (forall e, r = Err e -> e = cNotFound -> Some (k, l) = None) /\
                (forall t, r = Ok t -> get_post w s' o i t)).
  { intros s0 F0 (A & B & C). split; [eapply frx_trans; eauto|]. split; [|auto].
    intros e E1 E2. exfalso. eapply B; eauto. }
  destruct (negb (needs_refresh s l)) eqn:NR.
  - apply negb_true_iff in NR. apply (FIN s (frx_refl _ _)).
    apply (open_with_refresh_spec w s o i l [] r s' K H).
    + intros _. split; [exists k; auto|auto].
    + intros E; rewrite NR in E; discriminate.
  - apply negb_false_iff in NR. destruct (c_hier (w_cfg w)).
    + destruct (sync_from_canonical s o k) as [[cl s1]|] eqn:SY.
      * unfold sync_from_canonical in SY.
        destruct (index_get s (canonical_key o)) as [cl'|] eqn:IC; [|discriminate].
        destruct (needs_refresh s cl') eqn:NC; [discriminate|]. inversion SY; subst; clear SY.
        apply index_get_in in IC. destruct IC as [_ VC].
        destruct (same_index_put s k cl) as (P1 & T1 & I1).
        apply (FIN (index_put s k cl) (frx_index_put _ _ _ _)).
        assert (K1 : kinv (w_cfg w) (proj (index_put s k cl))) by (rewrite P1; exact K).
        apply (open_with_refresh_spec w (index_put s k cl) o i cl [] r s' K1 H).
        -- intros _. split; [exists k; split; [auto|rewrite I1; left; reflexivity]|].
           rewrite (loc_valid_proj _ _ _ P1). exact VC.
        -- rewrite (needs_refresh_proj _ _ _ P1). intros E; rewrite NC in E; discriminate.
      * apply (FIN s (frx_refl _ _)).
        apply (open_with_refresh_spec w s o i l [canonical_key o; k] r s' K H).
        -- intros E; rewrite NR in E; discriminate.
        -- intros _. exists k. split; [right; left; reflexivity|auto].
    + apply (FIN s (frx_refl _ _)).
      apply (open_with_refresh_spec w s o i l [k] r s' K H).
      * intros E; rewrite NR in E; discriminate.
      * intros _. exists k. split; [left; reflexivity|auto].
Qed.

Lemma get_consume_spec w s o uid l refresh fkeys code bytes s' :
  get_consume w s o uid l refresh fkeys = (code, bytes, s') ->
  frx (w_cfg w) s s' /\
  (code = cOK -> forall wr, refresh = Some wr ->
     exists nl, l_abs nl = wr_abs wr /\ s_tbr s' <= wr_abs wr /\ forall k, In k fkeys -> In (k, nl) (s_index s')).
Proof.
  unfold get_consume.
  destruct (read_validated w s o uid l) as [[valid bs] s1] eqn:ER.
  apply read_validated_spec in ER. destruct ER as [F1 V1].
  destruct refresh as [wr|].
  - set (s1' := if valid then write_block s1 (wr_uid wr) (wr_off wr) bs else s1).
    assert (S1' : same s1 s1') by (unfold s1'; destruct valid; [apply same_write_block|apply same_refl]).
    destruct (finalize (w_cfg w) s1' wr valid) as [r4 s4] eqn:EF.
    apply finalize_spec in EF. destruct EF as (S4 & HL & HE).
    destruct r4 as [nl|e].
    + destruct (index_put_all_spec fkeys s4 nl) as (P5 & T5 & I5 & A5).
      pose proof (same_unpin (w_cfg w) (index_put_all s4 fkeys nl) uid) as SU.
      assert (F : frx (w_cfg w) s (unpin (w_cfg w) (index_put_all s4 fkeys nl) uid)).
      { eapply frx_trans; [apply fr_frx; exact F1|]. eapply frx_trans; [apply same_frx; eapply same_trans; eauto|].
        eapply frx_trans; [apply frx_index_put_all|apply same_frx; exact SU]. }
      assert (R : forall wr0, Some wr = Some wr0 ->
                  exists nl0, l_abs nl0 = wr_abs wr0 /\ s_tbr (unpin (w_cfg w) (index_put_all s4 fkeys nl) uid) <= wr_abs wr0 /\
                              forall k, In k fkeys -> In (k, nl0) (s_index (unpin (w_cfg w) (index_put_all s4 fkeys nl) uid))).
      { intros wr0 E; inversion E; subst wr0. destruct (HL nl eq_refl) as (A1 & A2 & _). exists nl.
        destruct SU as [PU [IU _]]. split; [auto|]. split.
        - change (k_tbr (proj (unpin (w_cfg w) (index_put_all s4 fkeys nl) uid)) <= wr_abs wr). rewrite PU, P5. exact A2.
        - intros k Hk. rewrite IU. auto. }
      destruct (negb valid); [|destruct (Z.eqb cOK cOK)]; intros H; inversion H; subst; split; auto.
    + pose proof (same_unpin (w_cfg w) s4 uid) as SU.
      assert (F : frx (w_cfg w) s (unpin (w_cfg w) s4 uid)).
      { eapply frx_trans; [apply fr_frx; exact F1|]. apply same_frx. eapply same_trans; [exact S1'|]. eapply same_trans; eauto. }
      destruct (HE e eq_refl) as [N1 N2].
      destruct (negb valid).
      * intros H; inversion H; subst. split; [auto|discriminate].
      * destruct (Z.eqb e cOK) eqn:EZ; [apply Z.eqb_eq in EZ; contradiction|].
        intros H; inversion H; subst. split; [auto|]. intros; contradiction.
  - pose proof (same_unpin (w_cfg w) s1 uid) as SU.
    assert (F : frx (w_cfg w) s (unpin (w_cfg w) s1 uid)).
    { eapply frx_trans; [apply fr_frx; exact F1|apply same_frx; exact SU]. }
    destruct (negb valid); [|destruct (Z.eqb cOK cOK)]; intros H; inversion H; subst; split; auto; intros; discriminate.
Qed.

(** ---- FindMissing ---- *)
Lemma fm_refresh_one_spec w s o i r s' :
  kinv (w_cfg w) (proj s) ->
  fm_refresh_one w s o i = (r, s') ->
  frx (w_cfg w) s s' /\
  (r = Ok false -> least_specific s (lookup_keys w o i) = None) /\
  (r = Ok true -> exists T, placed w s' o i T /\ kfresh (proj s') T) /\
  (forall e, r = Err e -> e <> cOK).
Proof.
  intros K H. unfold fm_refresh_one in H.
  destruct (least_specific s (lookup_keys w o i)) as [[k l]|] eqn:LS.
  2:{ inversion H; subst. split; [apply frx_refl|]. split; [auto|]. split; [discriminate|intros; discriminate]. }
  apply least_specific_some in LS. destruct LS as [KI IG].
  apply index_get_in in IG. destruct IG as [IN V].
  destruct (negb (needs_refresh s l)) eqn:NR.
  { apply negb_true_iff in NR. inversion H; subst. split; [apply frx_refl|]. split; [discriminate|].
    split; [|intros; discriminate].
    intros _. exists (l_abs l). split; [exists k, l; auto|eapply not_old_fresh; eauto]. }
  apply negb_false_iff in NR.
  (* the direct (sync) path *)
  assert (SYNC : forall cl s1, sync_from_canonical s o k = Some (cl, s1) ->
            frx (w_cfg w) s s1 /\ exists T, placed w s1 o i T /\ kfresh (proj s1) T).
  { intros cl s1 SY. unfold sync_from_canonical in SY.
    destruct (index_get s (canonical_key o)) as [cl'|] eqn:IC; [|discriminate].
    destruct (needs_refresh s cl') eqn:NC; [discriminate|]. inversion SY; subst; clear SY.
    apply index_get_in in IC. destruct IC as [_ VC].
    destruct (same_index_put s k cl) as (P1 & T1 & I1).
    split; [apply frx_index_put|]. exists (l_abs cl). split.
    - exists k, cl. rewrite I1. split; [auto|]. split; [left; reflexivity|reflexivity].
    - rewrite P1. eapply not_old_fresh; eauto. }
  (* the copying path *)
  assert (COPY : forall fkeys, In k fkeys ->
            match block_of_loc s l with
            | None => (Err (-3)%Z, s)
            | Some b =>
                let s0 := pin s (b_uid b) in
                match ocn_put (w_cfg w) s0 (l_size l) with
                | (Err e, s1) => (Err e, unpin (w_cfg w) s1 (b_uid b))
                | (Ok wr, s1) =>
                    let '(valid, bytes, s2) := read_validated w s1 o (b_uid b) l in
                    let s2' := if valid then write_block s2 (wr_uid wr) (wr_off wr) bytes else s2 in
                    let s2'' := unpin (w_cfg w) s2' (b_uid b) in
                    match finalize (w_cfg w) s2'' wr valid with
                    | (Err e, s3) => (Err (if valid then e else cInternal), s3)
                    | (Ok nl, s3) => (Ok true, index_put_all s3 fkeys nl)
                    end
                end
            end = (r, s') ->
            frx (w_cfg w) s s' /\ (r = Ok false -> @None (key * loc) = Some (k, l)) /\
            (r = Ok true -> exists T, placed w s' o i T /\ kfresh (proj s') T) /\
            (forall e, r = Err e -> e <> cOK)).
  { intros fkeys KF HC.
    destruct (block_of_loc s l) as [b|].
    2:{ inversion HC; subst. split; [apply frx_refl|]. split; [discriminate|]. split; [discriminate|].
        intros e E; inversion E; discriminate. }
    cbv zeta in HC.
    pose proof (same_pin s (b_uid b)) as SP.
    destruct (ocn_put (w_cfg w) (pin s (b_uid b)) (l_size l)) as [r1 s1] eqn:EO.
    apply ocn_put_spec in EO. destruct EO as (F1 & HW & HE1).
    assert (F01 : frx (w_cfg w) s s1) by (eapply frx_trans; [apply same_frx; exact SP|apply fr_frx; exact F1]).
    destruct r1 as [wr|e].
    2:{ inversion HC; subst. split; [eapply frx_trans; [exact F01|apply same_frx, same_unpin]|].
        split; [discriminate|]. split; [discriminate|]. intros e' E; inversion E; subst. apply (HE1 e' eq_refl). }
    destruct (HW wr eq_refl) as [B1 B2].
    destruct (read_validated w s1 o (b_uid b) l) as [[valid bs] s2] eqn:ER.
    apply read_validated_spec in ER. destruct ER as [F2 V2].
    set (s2' := if valid then write_block s2 (wr_uid wr) (wr_off wr) bs else s2) in HC.
    assert (S2' : same s2 s2') by (unfold s2'; destruct valid; [apply same_write_block|apply same_refl]).
    pose proof (same_unpin (w_cfg w) s2' (b_uid b)) as S2''.
    destruct (finalize (w_cfg w) (unpin (w_cfg w) s2' (b_uid b)) wr valid) as [r3 s3] eqn:EF.
    apply finalize_spec in EF. destruct EF as (S3 & HL & HE).
    assert (S23 : same s2 s3) by (eapply same_trans; [exact S2'|eapply same_trans; eauto]).
    assert (F03 : frx (w_cfg w) s s3).
    { eapply frx_trans; [exact F01|]. eapply frx_trans; [apply fr_frx; exact F2|apply same_frx; exact S23]. }
    destruct r3 as [nl|e].
    - inversion HC; subst. destruct (HL nl eq_refl) as (A1 & A2 & A3). subst valid.
      destruct (index_put_all_spec fkeys s3 nl) as (P5 & T5 & I5 & A5).
      split; [eapply frx_trans; [exact F03|apply frx_index_put_all]|]. split; [discriminate|].
      split; [|intros; discriminate].
      intros _. exists (l_abs nl). split; [exists k, nl; auto|].
      rewrite P5. destruct S23 as [P23 _].
      rewrite (V2 eq_refl) in P23. rewrite P23. unfold kfresh, k_end; cbn.
      assert (s_tbr s3 = s_tbr s1) by (change (k_tbr (proj s3) = k_tbr (proj s1)); rewrite P23; reflexivity).
      lia.
    - inversion HC; subst. split; [exact F03|]. split; [discriminate|]. split; [discriminate|].
      intros e' E; inversion E; subst. destruct valid; [apply (HE e eq_refl)|discriminate]. }
  destruct (c_hier (w_cfg w)).
  - destruct (sync_from_canonical s o k) as [[cl s1]|] eqn:SY.
    + inversion H; subst. destruct (SYNC cl s' eq_refl) as [A B]. split; [auto|]. split; [discriminate|].
      split; [auto|intros; discriminate].
    + apply COPY in H; [|right; left; reflexivity]. destruct H as (A & B & C & D). split; [auto|]. split; [|auto].
      intros E. specialize (B E). discriminate.
  - apply COPY in H; [|left; reflexivity]. destruct H as (A & B & C & D). split; [auto|]. split; [|auto].
    intros E. specialize (B E). discriminate.
Qed.

Lemma frx_kinv c s s' : frx c s s' -> kinv c (proj s) -> kinv c (proj s').
Proof. intros (A & _) K. eapply creach_kinv; eauto. Qed.

(** what FindMissing establishes for a digest that it examines in state sm *)
Definition fm_present (w : world) (sm : state) (o i : nat) : Prop :=
  exists T, placed w sm o i T /\ kfresh (proj sm) T.

Lemma fm_phase2_spec w : forall todo s missing m s',
  kinv (w_cfg w) (proj s) ->
  fm_phase2 w s todo missing = (Ok m, s') ->
  frx (w_cfg w) s s' /\ incl missing m /\
  (forall pos, In pos m -> In pos missing \/
      exists o i sm, In (pos, (o, i)) todo /\ frx (w_cfg w) s sm /\ frx (w_cfg w) sm s' /\
                     least_specific sm (lookup_keys w o i) = None) /\
  (forall pos o i, In (pos, (o, i)) todo -> In pos m \/
      exists sm, frx (w_cfg w) s sm /\ frx (w_cfg w) sm s' /\ fm_present w sm o i /\
                 ((length todo <= 1)%nat -> sm = s')).
Proof.
  induction todo as [|[pos0 [o0 i0]] t IH]; intros s missing m s' K H; cbn [fm_phase2] in H.
  - inversion H; subst. split; [apply frx_refl|]. split; [apply incl_refl|]. split; [auto|]. intros ? ? ? [].
  - destruct (fm_refresh_one w s o0 i0) as [r1 s1] eqn:E1.
    apply fm_refresh_one_spec in E1; [|exact K]. destruct E1 as (F1 & HM & HP & _).
    pose proof (frx_kinv _ _ _ F1 K) as K1.
    destruct r1 as [[|]|e]; [| |discriminate].
    + pose proof H as H0. apply IH in H; [|exact K1]. destruct H as (F2 & IM & A & B).
      split; [eapply frx_trans; eauto|]. split; [exact IM|]. split.
      * intros pos Hp. destruct (A pos Hp) as [X|(o & i & sm & X1 & X2 & X3 & X4)]; [auto|].
        right. exists o, i, sm. split; [right; auto|]. split; [eapply frx_trans; eauto|auto].
      * intros pos o i [E|Hin].
        -- inversion E; subst. right. exists s1. split; [auto|]. split; [auto|]. split; [apply HP; reflexivity|].
           intros L. cbn in L. destruct t; [|cbn in L; lia]. cbn in H0. inversion H0; reflexivity.
        -- destruct (B pos o i Hin) as [X|(sm & X1 & X2 & X3 & X4)]; [auto|].
           right. exists sm. split; [eapply frx_trans; eauto|]. split; [auto|]. split; [auto|].
           intros L. cbn in L. destruct t; [destruct Hin|cbn in L; lia].
    + apply IH in H; [|exact K1]. destruct H as (F2 & IM & A & B).
      split; [eapply frx_trans; eauto|]. split; [intros x Hx; apply IM, in_or_app; auto|]. split.
      * intros pos Hp. destruct (A pos Hp) as [X|(o & i & sm & X1 & X2 & X3 & X4)].
        -- apply in_app_or in X. destruct X as [X|[X|[]]]; [auto|]. subst pos.
           right. exists o0, i0, s. split; [left; reflexivity|]. split; [apply frx_refl|].
           split; [eapply frx_trans; eauto|apply HM; reflexivity].
        -- right. exists o, i, sm. split; [right; auto|]. split; [eapply frx_trans; eauto|auto].
      * intros pos o i [E|Hin].
        -- inversion E; subst. left. apply IM, in_or_app. right. left. reflexivity.
        -- destruct (B pos o i Hin) as [X|(sm & X1 & X2 & X3 & X4)]; [auto|].
           right. exists sm. split; [eapply frx_trans; eauto|]. split; [auto|]. split; [auto|].
           intros L. cbn in L. destruct t; [destruct Hin|cbn in L; lia].
Qed.

Lemma fm_phase2_frx w : forall todo s missing r s',
  kinv (w_cfg w) (proj s) -> fm_phase2 w s todo missing = (r, s') -> frx (w_cfg w) s s'.
Proof.
  induction todo as [|[pos0 [o0 i0]] t IH]; intros s missing r s' K H; cbn [fm_phase2] in H.
  - inversion H; subst. apply frx_refl.
  - destruct (fm_refresh_one w s o0 i0) as [r1 s1] eqn:E1.
    apply fm_refresh_one_spec in E1; [|exact K]. destruct E1 as (F1 & _).
    pose proof (frx_kinv _ _ _ F1 K) as K1.
    destruct r1 as [[|]|e].
    + eapply frx_trans; [exact F1|eapply IH; eauto].
    + eapply frx_trans; [exact F1|eapply IH; eauto].
    + inversion H; subst. exact F1.
Qed.

Lemma enumerate_in {T} (l : list T) : forall n p x, In (p, x) (enumerate n l) -> (n <= p)%nat /\ nth_error l (p - n) = Some x.
Proof.
  induction l as [|y t IH]; intros n p x; cbn; [tauto|].
  intros [E|H].
  - inversion E; subst. rewrite Nat.sub_diag. split; [lia|reflexivity].
  - apply IH in H. destruct H as [H1 H2]. split; [lia|].
    replace (p - n)%nat with (S (p - S n)) by lia. exact H2.
Qed.
Lemma enumerate_fun {T} (l : list T) n p x y : In (p, x) (enumerate n l) -> In (p, y) (enumerate n l) -> x = y.
Proof. intros A B. apply enumerate_in in A, B. destruct A as [_ A], B as [_ B]. congruence. Qed.

Lemma find_missing_spec w s ds m s' :
  kinv (w_cfg w) (proj s) ->
  find_missing w s ds = (Ok m, s') ->
  frx (w_cfg w) s s' /\
  (forall pos, In pos m ->
      exists o i sm, In (pos, (o, i)) (enumerate 0 ds) /\ frx (w_cfg w) s sm /\ frx (w_cfg w) sm s' /\
                     least_specific sm (lookup_keys w o i) = None) /\
  (forall pos o i, In (pos, (o, i)) (enumerate 0 ds) -> ~ In pos m ->
      exists sm, frx (w_cfg w) s sm /\ frx (w_cfg w) sm s' /\ fm_present w sm o i /\
                 ((length ds <= 1)%nat -> sm = s')).
Proof.
  intros K H. unfold find_missing in H.
  set (numbered := enumerate 0 ds) in *.
  set (f1 := fun '(_, (o, i)) => match least_specific s (lookup_keys w o i) with None => true | Some _ => false end) in H.
  set (f2 := fun '(_, (o, i)) => match least_specific s (lookup_keys w o i) with
                                   | Some (_, l) => needs_refresh s l | None => false end) in H.
  pose proof H as H0.
  apply fm_phase2_spec in H; [|exact K]. destruct H as (F & IM & A & B).
  split; [exact F|]. split.
  - intros pos Hp. destruct (A pos Hp) as [X|(o & i & sm & X1 & X2 & X3 & X4)].
    + apply in_map_iff in X. destruct X as [[p [o i]] [E X]]. cbn in E; subst p.
      apply filter_In in X. destruct X as [X1 X2]. cbn in X2.
      exists o, i, s. split; [exact X1|]. split; [apply frx_refl|]. split; [exact F|].
      destruct (least_specific s (lookup_keys w o i)); [discriminate|reflexivity].
    + apply filter_In in X1. destruct X1 as [X1 _]. exists o, i, sm. auto.
  - intros pos o i Hin Hn.
    destruct (f2 (pos, (o, i))) eqn:E2.
    + assert (HT : In (pos, (o, i)) (filter f2 numbered)) by (apply filter_In; auto).
      destruct (B pos o i HT) as [X|(sm & X1 & X2 & X3 & X4)]; [contradiction|].
      exists sm. split; [auto|]. split; [auto|]. split; [auto|].
      intros L. apply X4. 
      assert (length (filter f2 numbered) <= length numbered)%nat.
      { clear. induction numbered as [|x t IH]; cbn; [lia|]. destruct (f2 x); cbn; lia. }
      assert (length numbered = length ds).
      { clear. unfold numbered. generalize 0%nat. induction ds; intros; cbn; auto. }
      lia.
    + cbn in E2. destruct (least_specific s (lookup_keys w o i)) as [[k l]|] eqn:LS.
      * exists s. split; [apply frx_refl|]. split; [exact F|]. split.
        -- apply least_specific_some in LS. destruct LS as [KI IG]. apply index_get_in in IG. destruct IG as [IN V].
           exists (l_abs l). split; [exists k, l; auto|eapply not_old_fresh; eauto].
        -- intros L. destruct ds as [|d [|d' ds']]; [destruct Hin| |cbn in L; lia].
           cbn in Hin. destruct Hin as [E|[]]. 
           unfold numbered in H0. cbn [enumerate filter] in H0. rewrite E in H0.
           change (f2 (pos, (o, i))) with (match least_specific s (lookup_keys w o i) with
                                   | Some (_, l) => needs_refresh s l | None => false end) in H0.
           rewrite LS, E2 in H0. cbn in H0. inversion H0; reflexivity.
      * exfalso. apply Hn. apply IM. apply in_map_iff. exists (pos, (o, i)). split; [reflexivity|].
        apply filter_In. split; [exact Hin|]. cbn. rewrite LS. reflexivity.
Qed.

Lemma find_missing_frx w s ds r s' :
  kinv (w_cfg w) (proj s) -> find_missing w s ds = (r, s') -> frx (w_cfg w) s s'.
Proof. intros K H. unfold find_missing in H. eapply fm_phase2_frx; eauto. Qed.

Lemma fm_phase2_err w : forall todo s missing e s',
  kinv (w_cfg w) (proj s) -> fm_phase2 w s todo missing = (Err e, s') -> e <> cOK.
Proof.
  induction todo as [|[pos0 [o0 i0]] t IH]; intros s missing e s' K H; cbn [fm_phase2] in H; [discriminate|].
  destruct (fm_refresh_one w s o0 i0) as [r1 s1] eqn:E1.
  apply fm_refresh_one_spec in E1; [|exact K]. destruct E1 as (F1 & _ & _ & HE).
  pose proof (frx_kinv _ _ _ F1 K) as K1.
  destruct r1 as [[|]|e1].
  - eapply IH; eauto.
  - eapply IH; eauto.
  - inversion H; subst. apply (HE e eq_refl).
Qed.
Lemma find_missing_err w s ds e s' :
  kinv (w_cfg w) (proj s) -> find_missing w s ds = (Err e, s') -> e <> cOK.
Proof. intros K H. unfold find_missing in H. eapply fm_phase2_err; eauto. Qed.
