(** C05, part 5: the counting core on the store model itself. *)
From Coq Require Import List NArith ZArith Bool Arith Lia Relations.
From Coq Require Import ZifyN ZifyNat ZifyBool.
From BBS Require Import Store.Model Store.WfTids Store.P05Cnt Store.P05Frame Store.P05Ops Store.P05Step.
Import ListNotations.
Open Scope N_scope.

Lemma run_cons w s e t : fst (run w s (e :: t)) = fst (run w (fst (step w s e)) t).
Proof. cbn [run]. destruct (step w s e) as [s1 o]. cbn [fst]. destruct (run w s1 t). reflexivity. Qed.

Lemma step_creach w s e :
  kinv (w_cfg w) (proj s) ->
  creach (w_cfg w) (proj s) (proj (fst (step w s e))) /\ incl (s_index s) (s_index (fst (step w s e))).
Proof.
  intros K. destruct (step w s e) as [s1 o] eqn:E. apply step_frame in E; [|exact K].
  destruct E as (A & B & _). auto.
Qed.

Lemma run_frame w es : forall s,
  kinv (w_cfg w) (proj s) ->
  creach (w_cfg w) (proj s) (proj (fst (run w s es))) /\ incl (s_index s) (s_index (fst (run w s es))).
Proof.
  induction es as [|e t IH]; intros s K.
  - split; [apply creach_refl|apply incl_refl].
  - rewrite run_cons. destruct (step_creach w s e K) as [A B].
    destruct (IH (fst (step w s e)) (creach_kinv _ _ _ A K)) as [C D].
    split; [eapply creach_trans; eauto|eapply incl_tran; eauto].
Qed.

(** the simple counter facts hold in every reachable state *)
Theorem reachable_counters w es :
  let s := fst (run w (init_state (w_cfg w)) es) in
  length (s_blocks s) = (s_old s + s_cur s + s_new s)%nat /\
  s_released s <= s_tbr s /\
  s_released s + N.of_nat (length (s_blocks s)) = N.of_nat (s_pushbacks s) /\
  (s_old s <= c_old (w_cfg w))%nat /\
  (s_negs s = O -> s_tbr s = s_released s).
Proof.
  cbv zeta. destruct (run_frame w es (init_state (w_cfg w)) (kinv_init _)) as [R _].
  pose proof (creach_kinv _ _ _ R (kinv_init _)) as [K1 K2 K3 K4 K5]. cbn in *.
  repeat split; auto. intros E. specialize (K5 E). lia.
Qed.

(** push-backs, the quarantine mark, the released count and the end of the
    list never decrease; the push-back counter counts the blocks appended:
    (released + length) = push-backs is part of [reachable_counters]. *)
Theorem counters_monotone w s es :
  kinv (w_cfg w) (proj s) ->
  let s' := fst (run w s es) in
  (s_pushbacks s <= s_pushbacks s')%nat /\ (s_negs s <= s_negs s')%nat /\ s_tbr s <= s_tbr s' /\
  s_released s <= s_released s'.
Proof.
  intros K. cbv zeta. destruct (run_frame w es s K) as [R _]. apply creach_mono in R.
  unfold kmono in R. cbn in R. lia.
Qed.

(** The counting core.  A block with absolute number T that is listed, not
    old (relative index >= s_old) and not quarantined in a state [s] whose
    counters are consistent (every reachable state) is still listed and not
    quarantined after any continuation [es] that performs at most c_old
    push-backs and meets no negative integrity verdict. *)
Theorem nonold_block_survives w s es T :
  kinv (w_cfg w) (proj s) ->
  s_tbr s <= T -> s_released s + N.of_nat (s_old s) <= T ->
  T < s_released s + N.of_nat (length (s_blocks s)) ->
  let s' := fst (run w s es) in
  s_negs s' = s_negs s -> (s_pushbacks s' - s_pushbacks s <= c_old (w_cfg w))%nat ->
  s_tbr s' <= T /\ s_released s' <= T /\ T < s_released s' + N.of_nat (length (s_blocks s')).
Proof.
  intros K H1 H2 H3. cbv zeta. intros H4 H5.
  destruct (run_frame w es s K) as [R _].
  exact (nonold_survives_cnt (w_cfg w) (proj s) (proj (fst (run w s es))) T R H1 H2 H3 H4 H5).
Qed.

(** ... hence an index entry in such a block keeps answering look-ups. *)
Theorem nonold_entry_survives w s es k l :
  kinv (w_cfg w) (proj s) ->
  In (k, l) (s_index s) -> loc_valid s l = true -> needs_refresh s l = false ->
  let s' := fst (run w s es) in
  s_negs s' = s_negs s -> (s_pushbacks s' - s_pushbacks s <= c_old (w_cfg w))%nat ->
  index_get s' k <> None.
Proof.
  intros K I V NR. cbv zeta. intros H4 H5.
  destruct (not_old_fresh _ _ _ K V NR) as (F1 & F2 & F3). cbn in F1, F2. unfold k_end in F3; cbn in F3.
  destruct (nonold_block_survives w s es (l_abs l) K F1 F2 F3 H4 H5) as (A & B & C).
  destruct (run_frame w es s K) as [_ IN].
  eapply index_get_some; [apply IN; exact I|]. unfold loc_valid. lia.
Qed.

Theorem reachable_kinv w es : kinv (w_cfg w) (proj (fst (run w (init_state (w_cfg w)) es))).
Proof.
  destruct (run_frame w es (init_state (w_cfg w)) (kinv_init _)) as [R _].
  exact (creach_kinv _ _ _ R (kinv_init _)).
Qed.

Theorem nonold_block_survives_reachable w es0 es T :
  let s := fst (run w (init_state (w_cfg w)) es0) in
  let s' := fst (run w s es) in
  s_tbr s <= T -> s_released s + N.of_nat (s_old s) <= T ->
  T < s_released s + N.of_nat (length (s_blocks s)) ->
  s_negs s' = s_negs s -> (s_pushbacks s' - s_pushbacks s <= c_old (w_cfg w))%nat ->
  s_tbr s' <= T /\ s_released s' <= T /\ T < s_released s' + N.of_nat (length (s_blocks s')).
Proof.
  cbv zeta. intros. apply nonold_block_survives; auto. apply reachable_kinv.
Qed.
