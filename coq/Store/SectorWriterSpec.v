(** Store/SectorWriterSpec.v — functional specification of [write_rest]/[write]/[flush]:
    the device writes of the private part tile a contiguous byte range. *)
From Coq Require Import List Arith ZArith Bool Lia.
From BBS Require Import Store.SectorWriter Store.SectorWriterProofs.
Import ListNotations.

Fixpoint contig (lo : nat) (log : list dwrite) : Prop :=
  match log with [] => True | w :: l => fst w = lo /\ contig (lo + length (snd w)) l end.
Definition payload (log : list dwrite) : list byte := concat (map snd log).

Lemma firstn_add_skipn {T} (a b : nat) (l : list T) :
  firstn (a + b) l = firstn a l ++ firstn b (skipn a l).
Proof. revert l; induction a; intros l; cbn; [reflexivity|]. destruct l; cbn; [destruct b; reflexivity|]. f_equal. apply IHa. Qed.

Lemma skipn_skipn' {T} (a b : nat) (l : list T) : skipn a (skipn b l) = skipn (b + a) l.
Proof. revert l; induction b; intros l; cbn; [reflexivity|]. destruct l; [destruct a; reflexivity|]. apply IHb. Qed.

Lemma length_zero_nil {T} (l : list T) : length l = 0 -> l = [].
Proof. destruct l; cbn; [reflexivity|discriminate]. Qed.

Lemma list_ext (l1 l2 : list byte) :
  length l1 = length l2 -> (forall i, i < length l1 -> nth i l1 0%Z = nth i l2 0%Z) -> l1 = l2.
Proof.
  revert l2; induction l1 as [|x l1 IH]; intros [|y l2] Hl Hn; cbn in *; try discriminate; [reflexivity|].
  f_equal; [apply (Hn 0); lia|]. apply IH; [lia|]. intros i Hi. apply (Hn (S i)). lia.
Qed.

Lemma write_at_app d o s1 s2 :
  write_at (write_at d o s1) (o + length s1) s2 = write_at d o (s1 ++ s2).
Proof.
  apply list_ext; [rewrite !write_at_length; reflexivity|].
  intros i Hi. rewrite !write_at_length in Hi.
  destruct (lt_dec i o) as [H1|H1].
  { rewrite !nth_write_at_out by (rewrite ?app_length; lia). reflexivity. }
  destruct (lt_dec i (o + length s1)) as [H2|H2].
  { rewrite nth_write_at_out by lia. rewrite !nth_write_at_in by (rewrite ?app_length; lia).
    rewrite app_nth1 by lia. reflexivity. }
  destruct (lt_dec i (o + length s1 + length s2)) as [H3|H3].
  { rewrite !nth_write_at_in by (rewrite ?app_length, ?write_at_length; lia).
    rewrite app_nth2 by lia. f_equal. lia. }
  rewrite !nth_write_at_out by (rewrite ?app_length; lia). reflexivity.
Qed.

Lemma write_at_nil d o : write_at d o [] = d.
Proof. revert o; induction d; intros [|o]; cbn; auto. f_equal. apply IHd. Qed.

Lemma contig_apply dev lo log : contig lo log -> apply_writes dev log = write_at dev lo (payload log).
Proof.
  revert dev lo; induction log as [|w log IH]; intros dev lo H; cbn.
  - symmetry. apply write_at_nil.
  - destruct H as [H1 H2]. unfold payload; cbn. fold (payload log).
    change (fold_left _ log ?d) with (apply_writes d log).
    rewrite (IH _ _ H2), H1. apply write_at_app.
Qed.

Lemma contig_range lo log w : contig lo log -> In w log ->
  lo <= fst w /\ fst w + length (snd w) <= lo + length (payload log).
Proof.
  revert lo; induction log as [|u log IH]; intros lo H Hin; [destruct Hin|].
  destruct H as [H1 H2]. unfold payload; cbn; rewrite app_length. fold (payload log).
  destruct Hin as [->|Hin]; [lia|]. specialize (IH _ H2 Hin). lia.
Qed.

Lemma contig_app lo l1 l2 : contig lo l1 -> contig (lo + length (payload l1)) l2 -> contig lo (l1 ++ l2).
Proof.
  revert lo; induction l1 as [|u l1 IH]; intros lo H1 H2; cbn in *.
  - unfold payload in H2; cbn in H2. rewrite Nat.add_0_r in H2. exact H2.
  - destruct H1 as [E H1]. split; [exact E|]. apply IH; [exact H1|].
    unfold payload in *; cbn in H2; rewrite app_length in H2. rewrite Nat.add_assoc in H2. exact H2.
Qed.

Lemma payload_app l1 l2 : payload (l1 ++ l2) = payload l1 ++ payload l2.
Proof. unfold payload. rewrite map_app, concat_app. reflexivity. Qed.

(** [write_rest] with an empty partial sector *)
Lemma write_rest_spec0 c w p : 1 <= c_sector c -> w_partial w = [] ->
  let q := length p / c_sector c in
  let w' := fst (write_rest c w p) in let log := snd (write_rest c w p) in
  w_off w' = w_off w + q /\ w_partial w' = skipn (q * c_sector c) p /\
  w_first w' = w_first w /\ w_firstoff w' = w_firstoff w /\ w_last w' = w_last w /\
  contig (w_off w * c_sector c) log /\ payload log = firstn (q * c_sector c) p.
Proof.
  intros HS Hp. unfold write_rest. rewrite Hp. change (0 <? length (@nil byte)) with false. cbv beta iota zeta.
  set (SS := c_sector c) in *. set (m := length p).
  assert (Hq : m / SS * SS <= m) by (pose proof (Nat.div_mod m SS ltac:(lia)); nia).
  destruct (Nat.ltb_spec 0 (m / SS * SS)) as [Ha|Ha].
  - cbn [fst snd]. rewrite skipn_length. fold m.
    destruct (Nat.ltb_spec 0 (m - m / SS * SS)) as [Ht|Ht]; cbn [fst snd w_off w_partial w_first w_firstoff w_last];
      rewrite ?Hp; cbn [app]; repeat split; auto; try (unfold payload; cbn; rewrite app_nil_r; reflexivity).
    + symmetry. apply length_zero_nil. rewrite skipn_length. fold m. lia.
  - assert (m / SS = 0) as E by nia. rewrite E. cbn [Nat.mul skipn firstn].
    fold m. destruct (Nat.ltb_spec 0 m) as [Ht|Ht]; cbn [fst snd w_off w_partial w_first w_firstoff w_last app];
      rewrite ?Hp; cbn [app]; repeat split; auto; try lia.
    symmetry; apply length_zero_nil; fold m; lia.
Qed.

Lemma write_rest_complete c w p :
  0 < length (w_partial w) ->
  c_sector c <= length (w_partial w ++ firstn (Nat.min (length p) (c_sector c - length (w_partial w))) p) ->
  let copied := Nat.min (length p) (c_sector c - length (w_partial w)) in
  let part := w_partial w ++ firstn copied p in
  let w1 := {| w_off := w_off w + 1; w_first := w_first w; w_firstoff := w_firstoff w;
               w_partial := []; w_last := w_last w |} in
  write_rest c w p = (fst (write_rest c w1 (skipn copied p)),
                      (w_off w * c_sector c, part) :: snd (write_rest c w1 (skipn copied p))).
Proof.
  intros Hr Hc. cbv zeta. unfold write_rest.
  replace (0 <? length (w_partial w)) with true by (symmetry; apply Nat.ltb_lt; exact Hr).
  match goal with |- context [length ?l <? c_sector c] =>
    replace (length l <? c_sector c) with false by (symmetry; apply Nat.ltb_ge; exact Hc) end.
  cbn [w_partial length]. change (0 <? 0) with false. cbv beta iota zeta.
  repeat (dif; cbn [fst snd w_off w_first w_firstoff w_partial w_last app]); reflexivity.
Qed.

Lemma write_rest_spec c w p : 1 <= c_sector c -> length (w_partial w) < c_sector c ->
  let buf := w_partial w ++ p in
  let q := length buf / c_sector c in
  let w' := fst (write_rest c w p) in let log := snd (write_rest c w p) in
  w_off w' = w_off w + q /\ w_partial w' = skipn (q * c_sector c) buf /\
  w_first w' = w_first w /\ w_firstoff w' = w_firstoff w /\ w_last w' = w_last w /\
  contig (w_off w * c_sector c) log /\ payload log = firstn (q * c_sector c) buf.
Proof.
  intros HS Hr. cbv zeta. set (SS := c_sector c) in *.
  destruct (Nat.eq_dec (length (w_partial w)) 0) as [Hz|Hz].
  { apply length_zero_nil in Hz. pose proof (write_rest_spec0 c w p HS Hz) as H. cbv zeta in H.
    rewrite Hz. cbn [app]. exact H. }
  set (r := length (w_partial w)) in *. set (m := length p).
  set (copied := Nat.min m (SS - r)).
  destruct (Nat.lt_ge_cases (r + copied) SS) as [Hlt|Hge].
  - (* the partial sector stays incomplete *)
    assert (copied = m) by (unfold copied in *; lia).
    assert (Hdiv : length (w_partial w ++ p) / SS = 0) by (apply Nat.div_small; rewrite app_length; fold r m; lia).
    rewrite Hdiv. cbn [Nat.mul skipn firstn Nat.add].
    unfold write_rest. fold SS r m copied.
    replace (0 <? r) with true by (symmetry; apply Nat.ltb_lt; lia).
    replace (length (w_partial w ++ firstn copied p) <? SS) with true
      by (symmetry; apply Nat.ltb_lt; rewrite app_length, firstn_length; fold r m; lia).
    cbn [fst snd w_off w_first w_firstoff w_partial w_last].
    rewrite H. unfold m. rewrite firstn_all. repeat split; auto.
  - assert (Hcop : copied = SS - r) by (unfold copied in *; lia).
    assert (Hm : SS - r <= m) by (unfold copied in *; lia).
    pose proof (write_rest_complete c w p ltac:(fold r; lia)) as Hid. cbv zeta in Hid.
    fold SS r m copied in Hid. rewrite Hid by (rewrite app_length, firstn_length; fold r m; lia).
    clear Hid. cbn [fst snd].
    match goal with |- context [write_rest c ?w1 ?p1] =>
      pose proof (write_rest_spec0 c w1 p1 HS eq_refl) as H; cbv zeta in H;
      set (res := write_rest c w1 p1) in * end.
    fold SS in H. cbn [w_off w_first w_firstoff w_last] in H.
    destruct H as (H1 & H2 & H3 & H4 & H5 & H6 & H7).
    rewrite skipn_length in H1, H2, H7. fold m in H1, H2, H7.
    assert (Hq : length (w_partial w ++ p) / SS = 1 + (m - copied) / SS).
    { rewrite app_length. fold r m. replace (r + m) with (1 * SS + (m - copied)) by lia.
      rewrite Nat.div_add_l by lia. reflexivity. }
    rewrite Hq. set (q1 := (m - copied) / SS) in *.
    assert (Hpart : length (w_partial w ++ firstn copied p) = SS)
      by (rewrite app_length, firstn_length; fold r m; lia).
    repeat split; auto; try lia.
    + rewrite H2. rewrite skipn_skipn'. rewrite skipn_app. fold r.
      rewrite (skipn_all2 (w_partial w)) by (fold r; lia). cbn [app]. f_equal. lia.
    + cbn [snd length]. rewrite Hpart.
      replace (w_off w * SS + SS) with ((w_off w + 1) * SS) by lia. exact H6.
    + unfold payload in *. cbn [map concat snd]. rewrite H7.
      replace ((1 + q1) * SS) with (SS + q1 * SS) by lia.
      rewrite firstn_app. fold r. rewrite (firstn_all2 (w_partial w)) by (fold r; lia).
      rewrite <- app_assoc. f_equal.
      replace (SS + q1 * SS - r) with (copied + q1 * SS) by lia.
      apply eq_sym, firstn_add_skipn.
Qed.

Lemma write_none c images w p : w_first w = None ->
  write c images w p = (images, fst (write_rest c w p), snd (write_rest c w p)).
Proof. intros H. unfold write. rewrite H. destruct (write_rest c w p); reflexivity. Qed.

Lemma write_first_short c images w p id :
  w_first w = Some id -> length (img_data images id) = c_sector c ->
  w_firstoff w + length p < c_sector c ->
  write c images w p =
  (set_img images id (write_at (img_data images id) (w_firstoff w) p),
   {| w_off := w_off w; w_first := Some id; w_firstoff := w_firstoff w + length p;
      w_partial := w_partial w; w_last := w_last w |}, []).
Proof.
  intros H Hl Hx. unfold write. rewrite H, Hl.
  replace (Nat.min (c_sector c - w_firstoff w) (length p)) with (length p) by lia.
  replace (w_firstoff w + length p <? c_sector c) with true by (symmetry; apply Nat.ltb_lt; lia).
  reflexivity.
Qed.

Lemma write_first_long c images w p id :
  w_first w = Some id -> length (img_data images id) = c_sector c ->
  w_firstoff w < c_sector c -> c_sector c <= w_firstoff w + length p ->
  let w1 := {| w_off := w_off w + 1; w_first := None; w_firstoff := c_sector c;
               w_partial := w_partial w; w_last := w_last w |} in
  let p1 := skipn (c_sector c - w_firstoff w) p in
  let img' := write_at (img_data images id) (w_firstoff w) p in
  write c images w p =
  (set_img images id img', fst (write_rest c w1 p1), (w_off w * c_sector c, img') :: snd (write_rest c w1 p1)).
Proof.
  intros H Hl Hx Hge. cbv zeta. unfold write. rewrite H, Hl.
  replace (Nat.min (c_sector c - w_firstoff w) (length p)) with (c_sector c - w_firstoff w) by lia.
  replace (w_firstoff w + (c_sector c - w_firstoff w)) with (c_sector c) by lia.
  rewrite Nat.ltb_irrefl. destruct (write_rest c _ _); reflexivity.
Qed.

Lemma flush_some c images w id : w_last w = Some id ->
  flush c images w =
  (set_img images id (write_at (img_data images id) 0 (w_partial w)),
   [(w_off w * length (write_at (img_data images id) 0 (w_partial w)),
     write_at (img_data images id) 0 (w_partial w))]).
Proof. intros H. unfold flush. rewrite H. reflexivity. Qed.

Lemma flush_none c images w : w_last w = None -> flush c images w = (images, []).
Proof. intros H. unfold flush. rewrite H. reflexivity. Qed.
