(** C01 proofs, operations part A, library: bytes (slice / overwrite /
    dev_get / dev_set), block lookup (find_uid / map_uid), and the
    index lookups of the model. *)
From Coq Require Import List NArith ZArith Bool Arith Lia ZifyN ZifyNat ZifyBool.
From BBS Require Import Store.Model Store.P01Inv.
Import ListNotations.
Open Scope N_scope.

(** ---- bytes ---- *)

Lemma slice_eq : forall bytes off len, slice bytes off len = firstn len (skipn off bytes).
Proof. destruct bytes; reflexivity. Qed.

Lemma slice_length : forall bytes off len,
  (off + len <= length bytes)%nat -> length (slice bytes off len) = len.
Proof.
  intros. rewrite slice_eq, firstn_length, skipn_length. lia.
Qed.

Lemma skipn_skipn' : forall (A : Type) (x y : nat) (l : list A), skipn x (skipn y l) = skipn (y + x) l.
Proof.
  intros A x y. induction y as [|y IH]; intros l.
  - reflexivity.
  - destruct l as [|a l].
    + cbn [skipn Nat.add]. destruct x; reflexivity.
    + cbn [skipn Nat.add]. apply IH.
Qed.

Lemma firstn_add : forall (A : Type) (a d : nat) (l : list A),
  firstn (a + d) l = firstn a l ++ firstn d (skipn a l).
Proof.
  intros A a d. induction a as [|a IH]; intros l.
  - reflexivity.
  - destruct l as [|x l].
    + cbn [Nat.add firstn skipn app]. destruct d; reflexivity.
    + cbn [Nat.add firstn skipn app]. f_equal. apply IH.
Qed.

Lemma slice_add : forall bytes off a d,
  slice bytes off (a + d) = slice bytes off a ++ slice bytes (off + a) d.
Proof.
  intros. rewrite !slice_eq, firstn_add, skipn_skipn'. reflexivity.
Qed.

Lemma slice_cons_S : forall b t off len, slice (b :: t) (S off) len = slice t off len.
Proof. intros. rewrite !slice_eq. reflexivity. Qed.

Lemma slice_cons_0 : forall b t len, slice (b :: t) 0 (S len) = b :: slice t 0 len.
Proof. intros. rewrite !slice_eq. reflexivity. Qed.

Lemma slice_len0 : forall bytes off, slice bytes off 0 = [].
Proof. intros. rewrite slice_eq. reflexivity. Qed.

Lemma slice_nil : forall off len, slice [] off len = [].
Proof. intros. rewrite slice_eq. destruct off; destruct len; reflexivity. Qed.

Lemma overwrite_length : forall off bytes data,
  (off + length data <= length bytes)%nat -> length (overwrite bytes off data) = length bytes.
Proof.
  induction off as [|o IH]; intros bytes data H.
  - destruct bytes; cbn [overwrite]; rewrite app_length, skipn_length; cbn [length Nat.add] in *; lia.
  - destruct bytes as [|b t]; cbn [overwrite length] in *.
    + reflexivity.
    + rewrite IH by lia. reflexivity.
Qed.

Lemma overwrite_0 : forall bytes data, overwrite bytes 0 data = data ++ skipn (length data) bytes.
Proof. destruct bytes; reflexivity. Qed.

Lemma slice_overwrite_before : forall off bytes data off' len',
  (off' + len' <= off)%nat -> slice (overwrite bytes off data) off' len' = slice bytes off' len'.
Proof.
  induction off as [|o IH]; intros bytes data off' len' H.
  - assert (len' = 0)%nat by lia. subst. rewrite !slice_len0. reflexivity.
  - destruct bytes as [|b t]; cbn [overwrite].
    + reflexivity.
    + destruct off' as [|p].
      * destruct len' as [|n].
        -- rewrite !slice_len0. reflexivity.
        -- rewrite !slice_cons_0. f_equal. apply IH. lia.
      * rewrite !slice_cons_S. apply IH. lia.
Qed.

Lemma slice_overwrite_after : forall off bytes data off' len',
  (off + length data <= off')%nat -> slice (overwrite bytes off data) off' len' = slice bytes off' len'.
Proof.
  induction off as [|o IH]; intros bytes data off' len' H.
  - rewrite overwrite_0, !slice_eq. f_equal.
    rewrite skipn_app, (@skipn_all2 _ off' data) by lia. cbn [app].
    rewrite skipn_skipn'. f_equal. lia.
  - destruct bytes as [|b t]; cbn [overwrite].
    + reflexivity.
    + destruct off' as [|p]; [lia|].
      rewrite !slice_cons_S. apply IH. lia.
Qed.

Lemma slice_overwrite_same : forall off bytes data,
  (off <= length bytes)%nat -> slice (overwrite bytes off data) off (length data) = data.
Proof.
  induction off as [|o IH]; intros bytes data H.
  - rewrite overwrite_0, slice_eq. cbn [skipn].
    rewrite <- (Nat.add_0_r (length data)), firstn_app_2. cbn [firstn]. apply app_nil_r.
  - destruct bytes as [|b t]; cbn [length] in H; [lia|].
    cbn [overwrite]. rewrite slice_cons_S. apply IH. lia.
Qed.

Lemma slice_overwrite_in : forall bytes off acc data,
  slice bytes off (length acc) = acc ->
  (off + length acc + length data <= length bytes)%nat ->
  slice (overwrite bytes (off + length acc) data) off (length acc + length data) = acc ++ data.
Proof.
  intros bytes off acc data Hacc Hlen.
  rewrite slice_add. f_equal.
  - rewrite slice_overwrite_before by lia. exact Hacc.
  - apply slice_overwrite_same. lia.
Qed.

(** ---- the device ---- *)
Lemma dev_get_set : forall d r x r',
  dev_get (dev_set d r x) r' = if Nat.eqb r' r then x else dev_get d r'.
Proof.
  induction d as [|[r0 b0] t IH]; intros r x r'; cbn [dev_set dev_get].
  - destruct (Nat.eqb r' r); reflexivity.
  - destruct (Nat.eqb r r0) eqn:E; cbn [dev_get].
    + apply Nat.eqb_eq in E. subst r0.
      destruct (Nat.eqb r' r); reflexivity.
    + destruct (Nat.eqb r' r0) eqn:E2.
      * apply Nat.eqb_eq in E2. subst r0.
        rewrite Nat.eqb_sym, E. reflexivity.
      * apply IH.
Qed.

(** ---- lists ---- *)
Lemma NoDup_app_l : forall (A : Type) (l1 l2 : list A), NoDup (l1 ++ l2) -> NoDup l1.
Proof.
  induction l1 as [|a l1 IH]; intros l2 H.
  - constructor.
  - cbn [app] in H. inversion H; subst. constructor.
    + intro Hin. apply H2. apply in_or_app. left. exact Hin.
    + eapply IH. eassumption.
Qed.

Lemma NoDup_app_r : forall (A : Type) (l1 l2 : list A), NoDup (l1 ++ l2) -> NoDup l2.
Proof.
  induction l1 as [|a l1 IH]; intros l2 H.
  - exact H.
  - cbn [app] in H. inversion H; subst. apply IH. assumption.
Qed.

Lemma NoDup_app_disj : forall (A : Type) (l1 l2 : list A) x,
  NoDup (l1 ++ l2) -> In x l1 -> In x l2 -> False.
Proof.
  induction l1 as [|a l1 IH]; intros l2 x H H1 H2.
  - destruct H1.
  - cbn [app] in H. inversion H; subst. destruct H1 as [->|H1].
    + apply H4. apply in_or_app. right. exact H2.
    + eapply IH; eassumption.
Qed.

Lemma NoDup_map_inj : forall (A B : Type) (f : A -> B) (l : list A) a b,
  NoDup (map f l) -> In a l -> In b l -> f a = f b -> a = b.
Proof.
  induction l as [|x l IH]; intros a b H Ha Hb E.
  - destruct Ha.
  - cbn [map] in H. inversion H; subst.
    destruct Ha as [->|Ha]; destruct Hb as [->|Hb].
    + reflexivity.
    + exfalso. apply H2. rewrite E. apply in_map. exact Hb.
    + exfalso. apply H2. rewrite <- E. apply in_map. exact Ha.
    + apply IH; assumption.
Qed.

(** ---- block lookup ---- *)
Lemma find_uid_some : forall uid l b, find_uid uid l = Some b -> In b l /\ b_uid b = uid.
Proof.
  induction l as [|x l IH]; intros b H; cbn [find_uid] in H.
  - discriminate.
  - destruct (Nat.eqb (b_uid x) uid) eqn:E.
    + inversion H; subst. apply Nat.eqb_eq in E. split; [left; reflexivity|exact E].
    + destruct (IH _ H) as [H1 H2]. split; [right; exact H1|exact H2].
Qed.

Lemma find_uid_none : forall uid l, find_uid uid l = None -> ~ In uid (map b_uid l).
Proof.
  induction l as [|x l IH]; intros H; cbn [find_uid map] in *.
  - intros [].
  - destruct (Nat.eqb (b_uid x) uid) eqn:E; [discriminate|].
    apply Nat.eqb_neq in E. intros [H1|H1]; [contradiction|]. apply IH; assumption.
Qed.

Lemma find_uid_nodup : forall l b, NoDup (map b_uid l) -> In b l -> find_uid (b_uid b) l = Some b.
Proof.
  induction l as [|x l IH]; intros b H Hin.
  - destruct Hin.
  - cbn [map] in H. inversion H; subst. cbn [find_uid].
    destruct Hin as [->|Hin].
    + rewrite Nat.eqb_refl. reflexivity.
    + destruct (Nat.eqb (b_uid x) (b_uid b)) eqn:E.
      * apply Nat.eqb_eq in E. exfalso. apply H2. rewrite E. apply in_map. exact Hin.
      * apply IH; assumption.
Qed.

Lemma find_block_some : forall s uid b, find_block s uid = Some b -> In b (live s) /\ b_uid b = uid.
Proof.
  unfold find_block, live. intros s uid b H.
  destruct (find_uid uid (s_blocks s)) eqn:E.
  - inversion H; subst. apply find_uid_some in E. destruct E. split; [apply in_or_app; left|]; assumption.
  - apply find_uid_some in H. destruct H. split; [apply in_or_app; right|]; assumption.
Qed.

Lemma find_block_live : forall s b, NoDup (map b_uid (live s)) -> In b (live s) ->
  find_block s (b_uid b) = Some b.
Proof.
  unfold find_block, live. intros s b H Hin. rewrite map_app in H.
  apply in_app_or in Hin. destruct Hin as [Hin|Hin].
  - rewrite (find_uid_nodup _ _ (NoDup_app_l _ _ _ H) Hin). reflexivity.
  - destruct (find_uid (b_uid b) (s_blocks s)) eqn:E.
    + apply find_uid_some in E. destruct E as [E1 E2]. exfalso.
      eapply (NoDup_app_disj _ _ _ (b_uid b) H).
      * rewrite <- E2. apply in_map. exact E1.
      * apply in_map. exact Hin.
    + apply find_uid_nodup; [eapply NoDup_app_r; eassumption|assumption].
Qed.

Lemma binfo_in : forall s uid cur reg, binfo s uid = Some (cur, reg) ->
  exists b, find_block s uid = Some b /\ In b (live s) /\ b_uid b = uid /\ b_cursor b = cur /\ b_region b = reg.
Proof.
  unfold binfo. intros s uid cur reg H. destruct (find_block s uid) as [b|] eqn:E; [|discriminate].
  inversion H; subst. exists b. destruct (find_block_some _ _ _ E). auto.
Qed.

Lemma binfo_live : forall s b, NoDup (map b_uid (live s)) -> In b (live s) ->
  binfo s (b_uid b) = Some (b_cursor b, b_region b).
Proof. intros. unfold binfo. rewrite find_block_live by assumption. reflexivity. Qed.

(** equal regions of live blocks: equal uids *)
Lemma binfo_region_inj : forall c s u1 u2 c1 c2 r,
  AInv c s -> binfo s u1 = Some (c1, r) -> binfo s u2 = Some (c2, r) -> u1 = u2.
Proof.
  intros c s u1 u2 c1 c2 r A H1 H2.
  apply binfo_in in H1. apply binfo_in in H2.
  destruct H1 as [b1 [_ [I1 [U1 [_ R1]]]]]. destruct H2 as [b2 [_ [I2 [U2 [_ R2]]]]].
  assert (b1 = b2).
  { apply (NoDup_map_inj _ _ b_region (live s)); try assumption.
    - eapply NoDup_app_l. apply (a_reg_nd _ _ A).
    - congruence. }
  subst. reflexivity.
Qed.

(** ---- the index ---- *)
Lemma key_eqb_eq : forall a b, key_eqb a b = true -> a = b.
Proof.
  intros [a1 a2] [b1 b2]. unfold key_eqb. cbn [fst snd]. intro H.
  apply andb_true_iff in H. destruct H as [H1 H2].
  apply Nat.eqb_eq in H1. apply Nat.eqb_eq in H2. subst. reflexivity.
Qed.

Lemma newest_in : forall cands best l, newest cands best = Some l -> best = Some l \/ In l cands.
Proof.
  induction cands as [|c t IH]; intros best l H; cbn [newest] in H.
  - left. exact H.
  - apply IH in H. destruct H as [H|H].
    + destruct best as [b|].
      * destruct (loc_older b c); inversion H; subst; [right; left; reflexivity|left; reflexivity].
      * inversion H; subst. right. left. reflexivity.
    + right. right. exact H.
Qed.



Lemma loc_valid_bounds : forall s l, loc_valid s l = true -> s_tbr s <= l_abs l /\ l_abs l < abs_end s.
Proof.
  unfold loc_valid, abs_end. intros s l H. apply andb_true_iff in H. destruct H as [H1 H2].
  apply N.leb_le in H1. apply N.ltb_lt in H2. split; assumption.
Qed.


(** the model's block lookup by location agrees with [uid_at] *)
Lemma block_of_loc_uid_at : forall s l b,
  block_of_loc s l = Some b -> s_released s <= l_abs l ->
  uid_at s (l_abs l) = Some (b_uid b) /\ In b (s_blocks s).
Proof.
  unfold block_of_loc, uid_at. intros s l b H R.
  assert (E : (l_abs l <? s_released s) = false) by (apply N.ltb_ge; exact R).
  rewrite E, H. split; [reflexivity|]. eapply nth_error_In. eassumption.
Qed.
