(** increaseTotalBlocksToBeReleased (old_current_new_location_blob_map.go
    224-234) at the granularity of its atomic operations, run by any number of
    goroutines at once (integrity callbacks and the rotating Put):

      for { old := v.Load(); if new <= old { return 0 }
            if v.CompareAndSwap(old, new) { return new - old } }

    Store/Quarantine.v treats one call as ONE atomic step "v := max v new".
    This file justifies that: under every interleaving of Loads and
    CompareAndSwaps the variable only grows, never exceeds the largest value
    asked for, is at least [new] once the call asking for [new] has returned (and
    for ever after), and the returned amounts add up to the total growth. *)
From Coq Require Import List ZArith Bool Lia.
Import ListNotations.
Open Scope Z_scope.

Inductive cpc := CLoad | CCas (ov : Z) | CRet (r : Z).
Record cth := { c_new : Z; c_pc : cpc }.
Record cst := { c_v : Z; c_ths : list cth }.

Inductive cev := CSpawn (new : Z) | CStep (i : nat).

Fixpoint upd (l : list cth) (i : nat) (t : cth) : list cth :=
  match l, i with
  | [], _ => []
  | _ :: r, O => t :: r
  | x :: r, S j => x :: upd r j t
  end.

Definition cstep (s : cst) (e : cev) : cst :=
  match e with
  | CSpawn n => {| c_v := c_v s; c_ths := c_ths s ++ [{| c_new := n; c_pc := CLoad |}] |}
  | CStep i =>
      match nth_error (c_ths s) i with
      | None => s
      | Some t =>
          match c_pc t with
          | CLoad =>
              if c_new t <=? c_v s
              then {| c_v := c_v s; c_ths := upd (c_ths s) i {| c_new := c_new t; c_pc := CRet 0 |} |}
              else {| c_v := c_v s; c_ths := upd (c_ths s) i {| c_new := c_new t; c_pc := CCas (c_v s) |} |}
          | CCas ov =>
              if c_v s =? ov
              then {| c_v := c_new t;
                      c_ths := upd (c_ths s) i {| c_new := c_new t; c_pc := CRet (c_new t - ov) |} |}
              else {| c_v := c_v s; c_ths := upd (c_ths s) i {| c_new := c_new t; c_pc := CLoad |} |}
          | CRet _ => s
          end
      end
  end.

Definition crun (v0 : Z) (es : list cev) : cst := fold_left cstep es {| c_v := v0; c_ths := [] |}.

Definition ret_of (t : cth) : Z := match c_pc t with CRet r => r | _ => 0 end.
Fixpoint sum_ret (l : list cth) : Z := match l with [] => 0 | t :: r => ret_of t + sum_ret r end.
Fixpoint max_new (v0 : Z) (l : list cth) : Z :=
  match l with [] => v0 | t :: r => Z.max (c_new t) (max_new v0 r) end.

Definition th_ok (v : Z) (t : cth) : Prop :=
  match c_pc t with
  | CLoad => True
  | CCas ov => ov <= v /\ ov < c_new t
  | CRet r => c_new t <= v /\ 0 <= r
  end.

Record CInv (v0 : Z) (s : cst) : Prop := {
  ci_lo : v0 <= c_v s;
  ci_hi : c_v s <= max_new v0 (c_ths s);
  ci_sum : c_v s = v0 + sum_ret (c_ths s);
  ci_th : forall t, In t (c_ths s) -> th_ok (c_v s) t
}.

Lemma th_ok_mono v v' t : v <= v' -> th_ok v t -> th_ok v' t.
Proof. unfold th_ok. destruct (c_pc t); intros; auto; lia. Qed.

Lemma in_upd l : forall i t x, In x (upd l i t) -> x = t \/ In x l.
Proof.
  induction l as [|y r IH]; intros [|j] t x H; cbn [upd] in H; auto.
  - destruct H as [<-|H]; [left; reflexivity|right; right; exact H].
  - destruct H as [<-|H]; [right; left; reflexivity|].
    destruct (IH _ _ _ H) as [->|H']; [left; reflexivity|right; right; exact H'].
Qed.

Lemma sum_upd l : forall i t t0, nth_error l i = Some t0 ->
  sum_ret (upd l i t) = sum_ret l - ret_of t0 + ret_of t.
Proof.
  induction l as [|y r IH]; intros [|j] t t0 H; cbn [nth_error] in H; try discriminate; cbn [upd sum_ret].
  - injection H as ->. lia.
  - rewrite (IH _ _ _ H). lia.
Qed.

Lemma max_upd v0 l : forall i t t0, nth_error l i = Some t0 -> c_new t = c_new t0 ->
  max_new v0 (upd l i t) = max_new v0 l.
Proof.
  induction l as [|y r IH]; intros [|j] t t0 H E; cbn [nth_error] in H; try discriminate; cbn [upd max_new].
  - injection H as ->. rewrite E. reflexivity.
  - rewrite (IH _ _ _ H E). reflexivity.
Qed.

Lemma max_new_ge v0 l : v0 <= max_new v0 l.
Proof. induction l; cbn [max_new]; lia. Qed.

Lemma max_new_in v0 l t : In t l -> c_new t <= max_new v0 l.
Proof. induction l as [|y r IH]; intros []; cbn [max_new]; [subst; lia|specialize (IH H); lia]. Qed.

Lemma cinv_step v0 s e : CInv v0 s -> CInv v0 (cstep s e) /\ c_v s <= c_v (cstep s e).
Proof.
  intros [Hlo Hhi Hsum Hth]. destruct e as [n|i]; cbn [cstep].
  - split; [|cbn; lia]. constructor; cbn [c_v c_ths]; auto.
    + clear - Hhi. induction (c_ths s) as [|y r IH]; cbn [app max_new] in *; [lia|].
      pose proof (max_new_ge v0 r). pose proof (max_new_ge v0 (r ++ [{| c_new := n; c_pc := CLoad |}])).
      assert (max_new v0 r <= max_new v0 (r ++ [{| c_new := n; c_pc := CLoad |}])).
      { clear. induction r; cbn [app max_new]; lia. }
      lia.
    + rewrite Hsum. clear. induction (c_ths s) as [|y r IH]; cbn [app sum_ret ret_of c_pc]; lia.
    + intros t Hi. apply in_app_or in Hi. destruct Hi as [Hi|[<-|[]]]; [auto|exact I].
  - destruct (nth_error (c_ths s) i) as [t|] eqn:En; [|split; [constructor; auto|lia]].
    pose proof (nth_error_In _ _ En) as Hin. pose proof (Hth t Hin) as Hok. unfold th_ok in Hok.
    destruct (c_pc t) as [|ov|r] eqn:Epc.
    + destruct (c_new t <=? c_v s) eqn:El.
      * apply Z.leb_le in El. split; [|cbn; lia]. constructor; cbn [c_v c_ths]; auto.
        -- erewrite max_upd; eauto.
        -- erewrite sum_upd by eauto. unfold ret_of. rewrite Epc. cbn [c_pc]. lia.
        -- intros x Hx. destruct (in_upd _ _ _ _ Hx) as [->|Hx']; [|auto].
           unfold th_ok. cbn [c_pc c_new]. lia.
      * apply Z.leb_gt in El. split; [|cbn; lia]. constructor; cbn [c_v c_ths]; auto.
        -- erewrite max_upd; eauto.
        -- erewrite sum_upd by eauto. unfold ret_of. rewrite Epc. cbn [c_pc]. lia.
        -- intros x Hx. destruct (in_upd _ _ _ _ Hx) as [->|Hx']; [|auto].
           unfold th_ok. cbn [c_pc c_new]. lia.
    + destruct Hok as [Ho1 Ho2]. destruct (c_v s =? ov) eqn:Ev.
      * apply Z.eqb_eq in Ev. split; [|cbn [c_v]; lia]. constructor; cbn [c_v c_ths].
        -- lia.
        -- erewrite max_upd by eauto. apply max_new_in. exact Hin.
        -- erewrite sum_upd by eauto. unfold ret_of. rewrite Epc. cbn [c_pc]. lia.
        -- intros x Hx. destruct (in_upd _ _ _ _ Hx) as [->|Hx'].
           ++ unfold th_ok. cbn [c_pc c_new]. lia.
           ++ apply (th_ok_mono (c_v s)); [lia|auto].
      * split; [|cbn; lia]. constructor; cbn [c_v c_ths]; auto.
        -- erewrite max_upd; eauto.
        -- erewrite sum_upd by eauto. unfold ret_of. rewrite Epc. cbn [c_pc]. lia.
        -- intros x Hx. destruct (in_upd _ _ _ _ Hx) as [->|Hx']; [|auto]. exact I.
    + split; [constructor; auto|lia].
Qed.

Lemma cinv_init v0 : CInv v0 {| c_v := v0; c_ths := [] |}.
Proof. constructor; cbn; try lia. all: try (intros t []). Qed.

Lemma cinv_run v0 es : forall s, CInv v0 s ->
  CInv v0 (fold_left cstep es s) /\ c_v s <= c_v (fold_left cstep es s).
Proof.
  induction es as [|e r IH]; intros s H; cbn [fold_left]; [split; [exact H|lia]|].
  destruct (cinv_step v0 s e H) as [H1 H2]. destruct (IH _ H1) as [H3 H4]. split; [exact H3|lia].
Qed.

(** Under every interleaving: the variable never decreases, stays within what
    was asked for, accounts exactly for the returned amounts, and a call that
    has returned has its value in place — now and after any further steps. *)
Theorem cas_loop_is_atomic_maximum_all : forall v0 es,
  let s := crun v0 es in
  v0 <= c_v s <= max_new v0 (c_ths s)
  /\ c_v s = v0 + sum_ret (c_ths s)
  /\ (forall i t r, nth_error (c_ths s) i = Some t -> c_pc t = CRet r ->
        0 <= r /\ forall es', c_new t <= c_v (fold_left cstep es' s))
  /\ (forall es', c_v s <= c_v (fold_left cstep es' s)).
Proof.
  intros v0 es s. destruct (cinv_run v0 es _ (cinv_init v0)) as [H _]. fold (crun v0 es) in H. fold s in H.
  split; [split; apply H|]. split; [apply H|]. split.
  - intros i t r En Ep. pose proof (ci_th _ _ H t (nth_error_In _ _ En)) as Hok.
    unfold th_ok in Hok. rewrite Ep in Hok. split; [apply Hok|].
    intros es'. destruct (cinv_run v0 es' s H) as [_ Hm]. lia.
  - intros es'. apply (cinv_run v0 es' s H).
Qed.
