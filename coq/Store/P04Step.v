(** C04 proofs, part 5: the global invariant and its preservation by [step]. *)
From Coq Require Import List NArith ZArith Bool Arith Lia Permutation.
From Coq Require Import ZifyN ZifyNat ZifyBool.
From BBS Require Import Store.Model Store.Wf Store.P04Base Store.P04Prim Store.P04Fbs Store.P04Ops.
Import ListNotations.
Local Open Scope nat_scope.

Definition tids (s : state) : list nat := map fst (s_threads s).

Record Inv (w : world) (s : state) : Prop := {
  i_a : AInv (w_cfg w) s (all_refs (w_cfg w) (s_threads s));
  i_c : CInv (w_cfg w) s;
  i_nd : NoDup (tids s);
  i_thr : forall tid t, In (tid, t) (s_threads s) -> thr_ok s t;
}.

(** no impossible (negative) code is ever reported; the only codes that are
    not the model's own are the source errors injected by [OPutEnd] *)
Definition out_ok (e : op) (o : out) : Prop :=
  match o with
  | Done code _ | Missing code _ => (0 <= code)%Z \/ (exists tid, e = OPutEnd tid code)
  | _ => True
  end.

Definition op_start (e : op) : option nat :=
  match e with OPutStart t _ _ | OGetOpen t _ _ | OGfcStart t _ _ _ => Some t | _ => None end.
Definition op_cont (e : op) : option nat :=
  match e with OPutChunk t _ | OPutEnd t _ | OGetConsume t | OGfcSlice t _ => Some t | _ => None end.

(** effect of a step on the table of parked operations *)
Definition thr_eff (e : op) (o : out) (ts ts' : list (nat * thread)) : Prop :=
  match o with
  | Bad => ts' = ts
  | Parked => (exists tid t, op_start e = Some tid /\ thr_get ts tid = None /\ ts' = (tid, t) :: thr_del ts tid) \/
              (exists tid t, op_cont e = Some tid /\ thr_get ts tid <> None /\ ts' = (tid, t) :: thr_del ts tid)
  | Done _ _ => (op_cont e = None /\ ts' = ts) \/ (exists tid, op_cont e = Some tid /\ ts' = thr_del ts tid)
  | Missing _ _ => op_start e = None /\ op_cont e = None /\ ts' = ts
  end.

(** blocks only appear with fresh uids; uids keep their region *)
Definition Ext (s s' : state) : Prop :=
  s_next_uid s <= s_next_uid s' /\
  (forall b', In b' (allb s') -> b_uid b' < s_next_uid s ->
     exists b, In b (allb s) /\ b_uid b = b_uid b' /\ b_region b = b_region b') /\
  (tot s <= tot s')%N.

Definition StepOK (w : world) (s : state) (e : op) (r : state * out) : Prop :=
  Inv w (fst r) /\ out_ok e (snd r) /\ thr_eff e (snd r) (s_threads s) (s_threads (fst r)) /\
  (snd r = Bad -> fst r = s) /\ Ext s (fst r) /\
  (s_next_uid s < s_next_uid (fst r) -> incl (s_threads s) (s_threads (fst r))).

(** ---- thread table lemmas ---- *)
Lemma thr_get_in ts tid t : thr_get ts tid = Some t -> In (tid, t) ts.
Proof.
  induction ts as [|[i t0] r IH]; cbn [thr_get]; [discriminate|].
  destruct (Nat.eqb i tid) eqn:E.
  - apply Nat.eqb_eq in E. intros H. inversion H; subst. left. reflexivity.
  - intros H. right. auto.
Qed.
Lemma thr_get_none ts tid : thr_get ts tid = None -> ~ In tid (map fst ts).
Proof.
  induction ts as [|[i t0] r IH]; cbn [thr_get map fst]; [intros _ []|].
  destruct (Nat.eqb i tid) eqn:E; [discriminate|]. apply Nat.eqb_neq in E.
  intros H [X|X]; [congruence | exact (IH H X)].
Qed.
Lemma thr_get_some_in ts tid : In tid (map fst ts) -> thr_get ts tid <> None.
Proof. intros H X. exact (thr_get_none _ _ X H). Qed.
Lemma thr_del_none ts tid : ~ In tid (map fst ts) -> thr_del ts tid = ts.
Proof.
  intros H. unfold thr_del. apply filter_id. intros [i t] Hx. cbn [fst].
  apply negb_true_iff. apply Nat.eqb_neq. intros ->. apply H.
  change tid with (fst (tid, t)). apply in_map. exact Hx.
Qed.
Lemma thr_del_in ts tid i t : In (i, t) (thr_del ts tid) <-> In (i, t) ts /\ i <> tid.
Proof.
  unfold thr_del. rewrite filter_In. cbn [fst]. rewrite negb_true_iff, Nat.eqb_neq. reflexivity.
Qed.
Lemma thr_del_tids ts tid x : In x (map fst (thr_del ts tid)) <-> In x (map fst ts) /\ x <> tid.
Proof.
  rewrite !in_map_iff. split.
  - intros [[i t] [E H]]. cbn [fst] in E. subst i. apply thr_del_in in H. destruct H as [H1 H2].
    split; [exists (x, t); split; [reflexivity | exact H1] | exact H2].
  - intros [[[i t] [E H]] Hn]. cbn [fst] in E. subst i. exists (x, t). split; [reflexivity|].
    apply thr_del_in. split; assumption.
Qed.
Lemma thr_del_nodup ts tid : NoDup (map fst ts) -> NoDup (map fst (thr_del ts tid)).
Proof.
  induction ts as [|[i t] r IH]; cbn [thr_del filter map fst]; [constructor|].
  intros ND. inversion ND as [|? ? Hn ND']; subst.
  destruct (negb (Nat.eqb i tid)); cbn [map fst]; [|apply IH; exact ND'].
  constructor; [|apply IH; exact ND']. intros X. apply Hn.
  apply (thr_del_tids r tid i) in X. apply X.
Qed.
Lemma all_refs_split c ts tid t : NoDup (map fst ts) -> thr_get ts tid = Some t ->
  Permutation (all_refs c ts) (refs c t ++ all_refs c (thr_del ts tid)).
Proof.
  induction ts as [|[i t0] r IH]; cbn [thr_get]; [discriminate|].
  intros ND. inversion ND as [|? ? Hn ND']; subst. cbn [fst] in Hn.
  unfold thr_del. cbn [filter fst]. destruct (Nat.eqb i tid) eqn:E; cbn [negb].
  - apply Nat.eqb_eq in E. subst i. intros H. inversion H; subst.
    fold (thr_del r tid). rewrite thr_del_none by exact Hn. cbn [all_refs flat_map snd]. apply Permutation_refl.
  - intros H. fold (thr_del r tid). cbn [all_refs flat_map snd]. fold (all_refs c r). fold (all_refs c (thr_del r tid)).
    rewrite (IH ND' H). apply Permutation_app_swap_app.
Qed.

Lemma thr_ok_mono s s' t : (tot s <= tot s')%N -> thr_ok s t -> thr_ok s' t.
Proof. intros H. destruct t; cbn [thr_ok]; auto; lia. Qed.

(** ---- assembling the invariant after an operation ---- *)
Lemma Inv_final w s s1 s' R1 :
  HI (w_cfg w) s s1 R1 -> same_alloc s1 s' -> same_cnt s1 s' ->
  Permutation R1 (all_refs (w_cfg w) (s_threads s')) -> NoDup (tids s') ->
  (forall i t, In (i, t) (s_threads s') -> thr_ok s1 t) ->
  Inv w s' /\ Ext s s'.
Proof.
  intros [A [C F]] SA SC P ND HT.
  assert (ET : tot s' = tot s1).
  { unfold tot. destruct SA as (E1 & _). destruct SC as (_ & _ & _ & E4 & _). rewrite E1, E4. reflexivity. }
  split.
  - constructor.
    + eapply AInv_same; [exact SA|]. eapply AInv_perm; eauto.
    + eapply CInv_same; [apply SA | exact SC | exact C].
    + exact ND.
    + intros i t H. eapply thr_ok_mono; [|apply (HT i t H)]. lia.
  - destruct F as [F1 F2 F3 F4]. destruct SA as (E1 & E2 & E3 & E4 & E5). unfold Ext.
    split; [lia|]. split.
    + intros b' Hb' Hlt. apply F3; [|exact Hlt]. unfold allb in *. rewrite <- E1, <- E2. exact Hb'.
    + rewrite ET. exact F4.
Qed.

Section STEP.
Variable w : world.
Let c := w_cfg w.
Hypothesis W : wfc c.
Variable s : state.
Hypothesis HInv : Inv w s.

Let ts := s_threads s.
Let R := all_refs c ts.

Lemma H0 : HI c s s R.
Proof. destruct HInv as [A C _ _]. split; [exact A|]. split; [exact C | apply Fr_refl]. Qed.

Lemma thr_ok_s1 s1 R1 : HI c s s1 R1 -> forall i t, In (i, t) ts -> thr_ok s1 t.
Proof.
  intros H i t Hin. eapply thr_ok_mono; [apply (HI_tot _ _ _ _ H)|]. destruct HInv as [_ _ _ T]. eapply T; eauto.
Qed.

Lemma step_bad e : StepOK w s e (s, Bad).
Proof.
  unfold StepOK. cbn [fst snd]. split; [exact HInv|]. split; [exact I|]. split; [reflexivity|].
  split; [reflexivity|]. split.
  - unfold Ext. split; [lia|]. split; [|lia]. intros b' H _. exists b'. auto.
  - intros _. apply incl_refl.
Qed.

(** the operation returned without touching the thread table *)
Lemma fin_same e s1 o : HI c s s1 R -> op_cont e = None ->
  match o with Done code _ | Missing code _ => (0 <= code)%Z | _ => False end ->
  (forall code ds, o = Missing code ds -> op_start e = None) ->
  StepOK w s e (s1, o).
Proof.
  intros H Hc Ho Hm. pose proof H as [_ [_ F]]. destruct F as [F1 _ _ _].
  destruct (Inv_final w s s1 s1 R H) as [I1 E1]; try same_tac.
  - rewrite F1. apply Permutation_refl.
  - unfold tids. rewrite F1. destruct HInv as [_ _ ND _]. exact ND.
  - intros i t Hin. rewrite F1 in Hin. eapply thr_ok_s1; eauto.
  - unfold StepOK. cbn [fst snd]. split; [exact I1|]. split.
    + destruct o; try exact I; left; exact Ho.
    + split; [|split; [|split]].
      * destruct o; cbn [thr_eff]; try contradiction.
        -- left. split; [exact Hc | exact F1].
        -- split; [eapply Hm; reflexivity|]. split; [exact Hc | exact F1].
      * intros ->. contradiction.
      * exact E1.
      * intros _. rewrite F1. apply incl_refl.
Qed.

(** a new operation parks *)
Lemma fin_start e tid t s1 : op_start e = Some tid -> thr_get ts tid = None ->
  HI c s s1 (refs c t ++ R) -> thr_ok s1 t ->
  StepOK w s e (thr_set s1 tid t, Parked).
Proof.
  intros Hs Hg H Ht. pose proof H as [_ [_ F]]. destruct F as [F1 _ _ _].
  assert (Hn : ~ In tid (map fst ts)) by (apply thr_get_none; exact Hg).
  assert (ED : thr_del (s_threads s1) tid = ts) by (rewrite F1; apply thr_del_none; exact Hn).
  destruct (Inv_final w s s1 (thr_set s1 tid t) _ H) as [I1 E1]; try same_tac.
  - unfold thr_set. sred. rewrite ED. cbn [all_refs flat_map snd]. apply Permutation_refl.
  - unfold tids, thr_set. sred. rewrite ED. cbn [map fst]. constructor; [exact Hn|].
    destruct HInv as [_ _ ND _]. exact ND.
  - unfold thr_set. sred. rewrite ED. intros i t' [X|X]; [inversion X; subst; exact Ht|].
    eapply thr_ok_s1; eauto.
  - unfold StepOK. cbn [fst snd]. split; [exact I1|]. split; [exact I|].
    split; [|split; [discriminate|split; [exact E1|]]].
    + cbn [thr_eff]. left. exists tid, t. split; [exact Hs|]. split; [exact Hg|].
      unfold thr_set. sred. rewrite ED. fold ts. rewrite (thr_del_none ts tid Hn). reflexivity.
    + intros _. unfold thr_set. sred. rewrite ED. apply incl_tl. apply incl_refl.
Qed.

(** a parked operation returns *)
Lemma fin_cont_done e tid t s1 code bytes : op_cont e = Some tid -> thr_get ts tid = Some t ->
  HI c s s1 (all_refs c (thr_del ts tid)) -> s_next_uid s1 = s_next_uid s ->
  ((0 <= code)%Z \/ exists tid', e = OPutEnd tid' code) ->
  StepOK w s e (thr_rm s1 tid, Done code bytes).
Proof.
  intros Hc Hg H Hnu Hcode. pose proof H as [_ [_ F]]. destruct F as [F1 _ _ _].
  destruct (Inv_final w s s1 (thr_rm s1 tid) _ H) as [I1 E1]; try same_tac.
  - unfold thr_rm. sred. rewrite F1. apply Permutation_refl.
  - unfold tids, thr_rm. sred. rewrite F1. apply thr_del_nodup. destruct HInv as [_ _ ND _]. exact ND.
  - unfold thr_rm. sred. rewrite F1. intros i t' X. apply thr_del_in in X. eapply thr_ok_s1; [exact H | apply X].
  - unfold StepOK. cbn [fst snd]. split; [exact I1|]. split; [exact Hcode|].
    split; [|split; [discriminate|split; [exact E1|]]].
    + cbn [thr_eff]. right. exists tid. split; [exact Hc|]. unfold thr_rm. sred. rewrite F1. reflexivity.
    + unfold thr_rm. sred. lia.
Qed.

(** a parked operation takes a step and stays parked *)
Lemma fin_cont_park e tid t t' s1 : op_cont e = Some tid -> thr_get ts tid = Some t ->
  HI c s s1 (refs c t' ++ all_refs c (thr_del ts tid)) -> s_next_uid s1 = s_next_uid s ->
  thr_ok s1 t' ->
  StepOK w s e (thr_set s1 tid t', Parked).
Proof.
  intros Hc Hg H Hnu Ht. pose proof H as [_ [_ F]]. destruct F as [F1 _ _ _].
  destruct (Inv_final w s s1 (thr_set s1 tid t') _ H) as [I1 E1]; try same_tac.
  - unfold thr_set. sred. rewrite F1. cbn [all_refs flat_map snd]. apply Permutation_refl.
  - unfold tids, thr_set. sred. rewrite F1. cbn [map fst]. constructor.
    + intros X. apply thr_del_tids in X. destruct X as [_ X]. congruence.
    + apply thr_del_nodup. destruct HInv as [_ _ ND _]. exact ND.
  - unfold thr_set. sred. rewrite F1. intros i t0 [X|X]; [inversion X; subst; exact Ht|].
    apply thr_del_in in X. eapply thr_ok_s1; [exact H | apply X].
  - unfold StepOK. cbn [fst snd]. split; [exact I1|]. split; [exact I|].
    split; [|split; [discriminate|split; [exact E1|]]].
    + cbn [thr_eff]. right. exists tid, t'. split; [exact Hc|]. split; [fold ts; congruence|].
      unfold thr_set. sred. rewrite F1. reflexivity.
    + unfold thr_set. sred. lia.
Qed.

(** references of the thread [tid] split off *)
Lemma R_split tid t : thr_get ts tid = Some t -> Permutation R (refs c t ++ all_refs c (thr_del ts tid)).
Proof. intros H. apply all_refs_split; [|exact H]. destruct HInv as [_ _ ND _]. exact ND. Qed.

Lemma H0_split tid t : thr_get ts tid = Some t -> HI c s s (refs c t ++ all_refs c (thr_del ts tid)).
Proof. intros H. eapply HI_perm; [apply R_split; exact H | apply H0]. Qed.

Lemma thr_ok_ts tid t : thr_get ts tid = Some t -> thr_ok s t.
Proof. intros H. destruct HInv as [_ _ _ T]. eapply T. apply thr_get_in. exact H. Qed.

End STEP.

(** ---- functions that never allocate: [s_next_uid] is unchanged ---- *)
Lemma nu_unpin c s uid : s_next_uid (unpin c s uid) = s_next_uid s.
Proof.
  unfold unpin. destruct (find_uid uid (s_blocks s)); [reflexivity|].
  destruct (find_uid uid (s_zombies s)); [|reflexivity].
  destruct (Nat.leb _ _); [destruct (in_memory c)|]; reflexivity.
Qed.
Lemma nu_finalize c s wr ok : s_next_uid (snd (finalize c s wr ok)) = s_next_uid s.
Proof.
  unfold finalize. destruct (negb ok); [apply nu_unpin|]. destruct (N.ltb _ _); apply nu_unpin.
Qed.
Lemma nu_write_block s uid off data : s_next_uid (write_block s uid off data) = s_next_uid s.
Proof. unfold write_block. destruct (find_block s uid); reflexivity. Qed.
Lemma nu_read_validated w s o uid l : s_next_uid (snd (read_validated w s o uid l)) = s_next_uid s.
Proof. unfold read_validated. destruct (_ && _); reflexivity. Qed.
Lemma nu_index_put_all ks : forall s l, s_next_uid (index_put_all s ks l) = s_next_uid s.
Proof. induction ks as [|k t IH]; intros s l; cbn [index_put_all]; [reflexivity|]. rewrite IH. reflexivity. Qed.
Lemma nu_get_consume w s o uid l refresh fkeys :
  s_next_uid (gc_state (get_consume w s o uid l refresh fkeys)) = s_next_uid s.
Proof.
  unfold get_consume.
  pose proof (nu_read_validated w s o uid l) as E1.
  destruct (read_validated w s o uid l) as [[valid bytes] s1]. cbn [snd] in E1.
  assert (G : forall code s2, s_next_uid s2 = s_next_uid s ->
     s_next_uid (gc_state (let s3 := unpin (w_cfg w) s2 uid in
                         if negb valid then (cInternal, [], s3)
                         else if Z.eqb code cOK then (cOK, bytes, s3) else (code, [], s3))) = s_next_uid s).
  { intros code s2 E. cbv zeta. destruct (negb valid); [|destruct (Z.eqb code cOK)];
      unfold gc_state; cbn [snd]; rewrite nu_unpin; exact E. }
  destruct refresh as [wr|].
  - set (s1' := if valid then write_block s1 (wr_uid wr) (wr_off wr) bytes else s1).
    assert (E1' : s_next_uid s1' = s_next_uid s).
    { unfold s1'. destruct valid; [rewrite nu_write_block|]; exact E1. }
    pose proof (nu_finalize (w_cfg w) s1' wr valid) as E2.
    destruct (finalize (w_cfg w) s1' wr valid) as [[nl|e] s1'']; cbn [snd] in E2.
    + apply G. rewrite nu_index_put_all. congruence.
    + apply G. congruence.
  - apply G. exact E1.
Qed.

Lemma fold_left_pres {A} (P : state -> Prop) (f : state -> A -> state) :
  (forall s a, P s -> P (f s a)) -> forall l s, P s -> P (fold_left f l s).
Proof. intros Hf. induction l as [|a t IH]; intros s H; cbn [fold_left]; auto. Qed.
