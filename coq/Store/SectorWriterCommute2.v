(** Store/SectorWriterCommute2.v — steps of two writers whose sector spans are disjoint commute. *)
From Coq Require Import List Arith ZArith Bool Lia.
From BBS Require Import Store.SectorWriter Store.SectorWriterProofs Store.SectorWriterSpec
  Store.SectorWriterCommute Store.SectorWriterInv.
Import ListNotations.

Lemma ids_in_span c images t i :
  1 <= c_sector c -> tinv c images t -> In i (ids_of (t_w t)) ->
  span_lo c t <= (c_base c + isec images i) * c_sector c /\
  (c_base c + isec images i + 1) * c_sector c <= span_hi c t.
Proof.
  intros HS (T1 & T2 & T3 & T4) Hin. unfold ids_of in Hin. apply in_app_or in Hin.
  destruct (t_start_eq c HS t) as [Est Ua]. destruct (dm_eq c HS (t_end t)) as [Ee Ue].
  pose proof (ceil_ge c HS (t_end t)) as Hc.
  assert (Hfe : t_fs c t <= t_end t / c_sector c) by (unfold t_fs, t_end; apply Nat.div_le_mono; lia).
  assert (Hend : t_end t = t_fs c t * c_sector c + t_a c t + t_size t) by (unfold t_end; lia).
  unfold span_lo, span_hi. destruct Hin as [Hin|Hin].
  - unfold wphase in T4. cbv zeta in T4. destruct (w_first (t_w t)) as [id|]; [|destruct Hin].
    destruct Hin as [<-|[]]. destruct T4 as (F0 & _). rewrite F0 in T2. destruct T2 as (A0 & _ & Hs).
    rewrite Hs. assert (t_fs c t < (t_end t + c_sector c - 1) / c_sector c) by nia. nia.
  - destruct (w_last (t_w t)) as [id|]; [|destruct Hin]. destruct Hin as [<-|[]].
    destruct T3 as (E0 & _ & Hs). rewrite Hs, (ceil_succ c HS _ E0). nia.
Qed.

Theorem private_write_commutes_spans : forall c dev b0 tr s ea eb ka kb ta tb sa la sb lb,
  1 <= c_sector c -> b_shared b0 = None -> run c (init_state dev b0) tr = Some s ->
  ev_thread ea = Some ka -> ev_thread eb = Some kb -> ka <> kb ->
  nth_error (st_threads s) ka = Some ta -> nth_error (st_threads s) kb = Some tb ->
  (span_hi c ta <= span_lo c tb \/ span_hi c tb <= span_lo c ta) ->
  step c s ea = Some (sa, la) -> step c s eb = Some (sb, lb) ->
  exists sab, step c sa eb = Some (sab, lb) /\ step c sb ea = Some (sab, la).
Proof.
  intros c dev b0 tr s ea eb ka kb ta tb sa la sb lb HS Hb Hr Hea Heb Hne Hka Hkb Hdis Hsa Hsb.
  pose proof (sinv_run c HS _ tr _ _ (sinv_init c HS dev b0 Hb) Hr) as Hinv.
  destruct (sinv_writer_step c HS _ s ea sa la ka ta Hinv Hsa Hea Hka) as [_ Hla].
  destruct (sinv_writer_step c HS _ s eb sb lb kb tb Hinv Hsb Heb Hkb) as [_ Hlb].
  destruct Hinv as (_ & _ & Ht).
  pose proof (Forall_nth_error _ _ _ _ Ht Hka) as Hta. pose proof (Forall_nth_error _ _ _ _ Ht Hkb) as Htb.
  eapply private_write_commutes_gen; eauto.
  - intros i Hia Hib. pose proof (ids_in_span c _ _ _ HS Hta Hia). pose proof (ids_in_span c _ _ _ HS Htb Hib). nia.
  - intros w1 w2 H1 H2. rewrite Forall_forall in Hla, Hlb.
    specialize (Hla _ H1). specialize (Hlb _ H2). unfold in_span in *. lia.
Qed.
