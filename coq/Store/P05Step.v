(** C05, part 4: the frame property of [step]: counters move by atoms, index
    entries are only added, a parked reader is changed only by its own
    events. *)
From Coq Require Import List NArith ZArith Bool Arith Lia Relations.
From Coq Require Import ZifyN ZifyNat ZifyBool.
From BBS Require Import Store.Model Store.WfTids Store.P05Cnt Store.P05Frame Store.P05Ops.
Import ListNotations.
Open Scope N_scope.

Lemma thr_get_del ts id id' :
  thr_get (thr_del ts id) id' = if Nat.eqb id id' then None else thr_get ts id'.
Proof.
  unfold thr_del. induction ts as [|[j t] r IH]; cbn [filter fst thr_get].
  - destruct (Nat.eqb id id'); reflexivity.
  - destruct (Nat.eqb j id) eqn:E1; cbn [negb thr_get].
    + apply Nat.eqb_eq in E1; subst j. rewrite IH. destruct (Nat.eqb id id'); reflexivity.
    + rewrite IH. destruct (Nat.eqb j id') eqn:E2; [|reflexivity].
      apply Nat.eqb_eq in E2; subst j. rewrite Nat.eqb_sym, E1. reflexivity.
Qed.
Lemma thr_get_set s id t id' :
  thr_get (s_threads (thr_set s id t)) id' = if Nat.eqb id id' then Some t else thr_get (s_threads s) id'.
Proof.
  unfold thr_set, upd_threads; cbn [s_threads thr_get]. rewrite thr_get_del.
  destruct (Nat.eqb id id'); reflexivity.
Qed.
Lemma thr_get_rm s id id' :
  thr_get (s_threads (thr_rm s id)) id' = if Nat.eqb id id' then None else thr_get (s_threads s) id'.
Proof. unfold thr_rm, upd_threads; cbn [s_threads]. apply thr_get_del. Qed.

Definition thr_frame (e : op) (s s1 : state) : Prop :=
  forall tid o u l r f, thr_get (s_threads s1) tid = Some (TGet o u l r f) ->
    thr_get (s_threads s) tid = Some (TGet o u l r f) \/ start_tid e = Some tid.

Definition not_tget (t : thread) : Prop := forall o u l r f, t <> TGet o u l r f.

Definition SF (c : config) (e : op) (s s1 : state) : Prop :=
  creach c (proj s) (proj s1) /\ incl (s_index s) (s_index s1) /\ thr_frame e s s1.

Lemma sf_same c e s s0 : frx c s s0 -> SF c e s s0.
Proof. intros (A & B & C). split; [auto|]. split; [auto|]. intros tid o u l r f H. left. congruence. Qed.
Lemma sf_set c e s s0 tid t :
  frx c s s0 -> (start_tid e = Some tid \/ not_tget t) -> SF c e s (thr_set s0 tid t).
Proof.
  intros (A & B & C) D. split; [exact A|]. split; [exact B|].
  intros tid' o u l r f H. rewrite thr_get_set in H.
  destruct (Nat.eqb tid tid') eqn:E.
  - apply Nat.eqb_eq in E; subst tid'. destruct D as [D|D]; [auto|]. inversion H. exfalso. eapply D; eauto.
  - left. congruence.
Qed.
Lemma sf_rm c e s s0 tid : frx c s s0 -> SF c e s (thr_rm s0 tid).
Proof.
  intros (A & B & C). split; [exact A|]. split; [exact B|].
  intros tid' o u l r f H. rewrite thr_get_rm in H.
  destruct (Nat.eqb tid tid'); [discriminate|]. left. congruence.
Qed.

Lemma put_start_spec w s o i r s1 :
  put_start w s o i = (r, s1) -> frx (w_cfg w) s s1 /\ forall t, r = Ok t -> not_tget t.
Proof.
  unfold put_start.
  destruct (if c_hier (w_cfg w) then match index_get s (canonical_key o) with Some l => negb (needs_refresh s l) | None => false end else false).
  - intros H; inversion H; subst. split; [apply frx_refl|]. intros t E; inversion E; subst. intros ? ? ? ? ?; discriminate.
  - destruct (ocn_put (w_cfg w) s (osize w o)) as [r0 s0] eqn:E.
    apply ocn_put_spec in E. destruct E as (F & _).
    destruct r0; intros H; inversion H; subst; (split; [apply fr_frx; exact F|]); intros t E; inversion E; subst.
    intros ? ? ? ? ?; discriminate.
Qed.

Lemma mk_fold_frx c i (slices : list (nat * (N * N))) ploc : forall s,
  frx c s (fold_left (fun acc '(cho, (off, len)) =>
                           index_put acc (flat_key c cho i)
                                     {| l_abs := l_abs ploc; l_off := l_off ploc + off; l_size := len |})
                     slices s).
Proof.
  induction slices as [|[cho [off len]] t IH]; intros s; cbn [fold_left]; [apply frx_refl|].
  eapply frx_trans; [apply frx_index_put|apply IH].
Qed.

Lemma step_frame w s e s1 out :
  kinv (w_cfg w) (proj s) -> step w s e = (s1, out) -> SF (w_cfg w) e s s1.
Proof.
  intros K H. unfold step in H.
  destruct (may_take_refresh_lock e && refresh_lock_held s).
  { inversion H; subst. apply sf_same, frx_refl. }
  destruct (is_corrupt e && reader_open s).
  { inversion H; subst. apply sf_same, frx_refl. }
  destruct e as [tid o i|tid data|tid err|tid o i|tid|ds|tid p i ch|tid slices|r off len].
  - (* OPutStart *)
    destruct (thr_get (s_threads s) tid); [inversion H; subst; apply sf_same, frx_refl|].
    destruct (put_start w s o i) as [r0 s0] eqn:E. apply put_start_spec in E. destruct E as [F NT].
    destruct r0; inversion H; subst.
    + apply sf_set; [exact F|]. left; reflexivity.
    + apply sf_same; exact F.
  - (* OPutChunk *)
    destruct (thr_get (s_threads s) tid) as [[o i wr acc|o i acc|? ? ? ? ?|? ? ? ? ? ?|?]|];
      try (inversion H; subst; apply sf_same, frx_refl).
    + destruct (wr_size wr <? N.of_nat (length acc + length data)).
      * destruct (finalize (w_cfg w) s wr false) as [r0 s0] eqn:E. apply finalize_spec in E. destruct E as (S0 & _).
        inversion H; subst. apply sf_rm. apply same_frx; exact S0.
      * inversion H; subst. apply sf_set; [apply same_frx, same_write_block|]. right. intros ? ? ? ? ?; discriminate.
    + destruct (osize w o <? N.of_nat (length acc + length data)); inversion H; subst.
      * apply sf_rm, frx_refl.
      * apply sf_set; [apply frx_refl|]. right. intros ? ? ? ? ?; discriminate.
  - (* OPutEnd *)
    destruct (thr_get (s_threads s) tid) as [[o i wr acc|o i acc|? ? ? ? ?|? ? ? ? ? ?|?]|];
      try (inversion H; subst; apply sf_same, frx_refl).
    + destruct (finalize (w_cfg w) s wr (Z.eqb err 0 && bytes_eqb acc (content w o))) as [r0 s0] eqn:E.
      apply finalize_spec in E. destruct E as (S0 & _).
      destruct r0; inversion H; subst.
      * apply sf_rm. eapply frx_trans; [apply same_frx; exact S0|apply frx_index_put_all].
      * apply sf_rm. apply same_frx; exact S0.
    + destruct (negb (Z.eqb err 0)); [inversion H; subst; apply sf_rm, frx_refl|].
      destruct (negb (bytes_eqb acc (content w o))); [inversion H; subst; apply sf_rm, frx_refl|].
      destruct (index_get s (canonical_key o)); inversion H; subst.
      * apply sf_rm, frx_index_put.
      * apply sf_rm, frx_refl.
  - (* OGetOpen *)
    destruct (thr_get (s_threads s) tid); [inversion H; subst; apply sf_same, frx_refl|].
    destruct (get_open w s o i) as [r0 s0] eqn:E. apply get_open_spec in E; [|exact K]. destruct E as (F & _).
    destruct r0; inversion H; subst.
    + apply sf_set; [exact F|]. left; reflexivity.
    + apply sf_same; exact F.
  - (* OGetConsume *)
    destruct (thr_get (s_threads s) tid) as [[? ? ? ?|? ? ?|o uid l refresh fkeys|? ? ? ? ? ?|?]|];
      try (inversion H; subst; apply sf_same, frx_refl).
    destruct (get_consume w s o uid l refresh fkeys) as [[code bytes] s0] eqn:E.
    apply get_consume_spec in E. destruct E as (F & _).
    inversion H; subst. apply sf_rm; exact F.
  - (* OFindMissing *)
    destruct (find_missing w s ds) as [r0 s0] eqn:E. apply find_missing_frx in E; [|exact K].
    destruct r0; inversion H; subst; apply sf_same; exact E.
  - (* OGfcStart *)
    destruct (thr_get (s_threads s) tid); [inversion H; subst; apply sf_same, frx_refl|].
    destruct (c_hier (w_cfg w)).
    + destruct (get_open w s p i) as [r0 s0] eqn:E. apply get_open_spec in E; [|exact K]. destruct E as (F & _).
      destruct r0 as [[| |? ? ? ? ?| |]|]; inversion H; subst;
        try (apply sf_same; exact F); (apply sf_set; [exact F|left; reflexivity]).
    + destruct (index_get s (flat_key (w_cfg w) p i)) as [pl|]; [|inversion H; subst; apply sf_same, frx_refl].
      match type of H with (match ?D with _ => _ end) = _ => destruct D as [[cl uid]|] end.
      * destruct (get_consume w (pin s uid) ch uid cl None []) as [[code bytes] s2] eqn:E.
        apply get_consume_spec in E. destruct E as (F & _).
        inversion H; subst. apply sf_same. eapply frx_trans; [apply same_frx, same_pin|exact F].
      * destruct (block_of_loc s pl) as [b|]; [|inversion H; subst; apply sf_same, frx_refl].
        destruct (needs_refresh s pl).
        -- destruct (ocn_put (w_cfg w) (pin s (b_uid b)) (l_size pl)) as [r2 s2] eqn:E.
           apply ocn_put_spec in E. destruct E as (F & _).
           assert (F02 : frx (w_cfg w) s s2) by (eapply frx_trans; [apply same_frx, same_pin|apply fr_frx; exact F]).
           destruct r2 as [wr|e0]; inversion H; subst.
           ++ apply sf_set; [|left; reflexivity].
              destruct (lockstep (w_cfg w)); [exact F02|].
              eapply frx_trans; [exact F02|]. apply same_frx. eapply same_trans; [apply same_write_block|apply same_unpin].
           ++ apply sf_same. eapply frx_trans; [exact F02|apply same_frx, same_unpin].
        -- inversion H; subst. apply sf_set; [apply same_frx, same_pin|left; reflexivity].
  - (* OGfcSlice *)
    destruct (thr_get (s_threads s) tid) as [[? ? ? ?|? ? ?|o uid l refresh fkeys|p i uid pl refresh pk|e0]|];
      try (inversion H; subst; apply sf_same, frx_refl).
    + destruct (get_consume w s o uid l refresh fkeys) as [[code bytes] s0] eqn:E.
      apply get_consume_spec in E. destruct E as (F & _).
      inversion H; subst. apply sf_rm; exact F.
    + destruct (read_validated w s p uid pl) as [[valid bytes] s0] eqn:E.
      apply read_validated_spec in E. destruct E as (F0 & _).
      assert (F1 : frx (w_cfg w) s (unpin (w_cfg w) s0 uid)).
      { eapply frx_trans; [apply fr_frx; exact F0|apply same_frx, same_unpin]. }
      destruct (negb valid).
      * inversion H; subst. apply sf_rm.
        destruct refresh as [wr|]; [|exact F1]. destruct (lockstep (w_cfg w)); [|exact F1].
        eapply frx_trans; [exact F1|apply same_frx, same_unpin].
      * destruct refresh as [wr|].
        -- destruct (lockstep (w_cfg w)).
           ++ destruct (finalize (w_cfg w) (write_block (unpin (w_cfg w) s0 uid) (wr_uid wr) (wr_off wr) bytes) wr true) as [r3 s3] eqn:E.
              apply finalize_spec in E. destruct E as (S3 & _).
              assert (F3 : frx (w_cfg w) s s3).
              { eapply frx_trans; [exact F1|]. apply same_frx. eapply same_trans; [apply same_write_block|exact S3]. }
              destruct r3 as [nl|e1]; inversion H; subst; apply sf_rm; [|exact F3].
              eapply frx_trans; [exact F3|]. eapply frx_trans; [apply frx_index_put|apply mk_fold_frx].
           ++ destruct (fin_check (unpin (w_cfg w) s0 uid) wr) as [nl|e1]; inversion H; subst; apply sf_rm; [|exact F1].
              eapply frx_trans; [exact F1|]. eapply frx_trans; [apply frx_index_put|apply mk_fold_frx].
        -- destruct (index_get (unpin (w_cfg w) s0 uid) pk); inversion H; subst; apply sf_rm; [|exact F1].
           eapply frx_trans; [exact F1|apply mk_fold_frx].
    + inversion H; subst. apply sf_rm, frx_refl.
  - (* OCorrupt *)
    destruct (dev_get (s_dev s) r); inversion H; subst; apply sf_same; [apply frx_refl|apply same_frx, same_upd_dev].
Qed.
