(** C01 proofs: thread list / claim list bookkeeping, small facts about the
    model that need no invariant. *)
From Coq Require Import List NArith ZArith Bool Arith Lia Permutation.
From BBS Require Import Store.Model Store.Wf Store.P01Inv.
Import ListNotations.
Open Scope N_scope.

Lemma thr_get_in ts tid t : thr_get ts tid = Some t -> In (tid, t) ts.
Proof.
  induction ts as [|[i x] r IH]; cbn [thr_get]; [discriminate|].
  destruct (Nat.eqb i tid) eqn:E.
  - apply Nat.eqb_eq in E. subst. intros H. injection H as ->. left. reflexivity.
  - intros H. right. auto.
Qed.

Lemma thr_get_none ts tid : thr_get ts tid = None -> ~ In tid (map fst ts).
Proof.
  induction ts as [|[i x] r IH]; cbn [thr_get map fst In]; [tauto|].
  destruct (Nat.eqb i tid) eqn:E; [discriminate|].
  apply Nat.eqb_neq in E. intros H [A|A]; [congruence|]. exact (IH H A).
Qed.

Lemma thr_del_notin ts tid : ~ In tid (map fst ts) -> thr_del ts tid = ts.
Proof.
  unfold thr_del. induction ts as [|[i x] r IH]; cbn [filter map fst In]; [reflexivity|].
  intros H. destruct (Nat.eqb i tid) eqn:E.
  - apply Nat.eqb_eq in E. tauto.
  - cbn [negb]. f_equal. apply IH. tauto.
Qed.

Lemma thr_del_none ts tid : thr_get ts tid = None -> thr_del ts tid = ts.
Proof. intros H. apply thr_del_notin, thr_get_none, H. Qed.

Lemma thr_del_in ts tid i t : In (i, t) (thr_del ts tid) -> In (i, t) ts /\ i <> tid.
Proof.
  unfold thr_del. rewrite filter_In. cbn [fst]. intros [A B]. split; [exact A|].
  destruct (Nat.eqb i tid) eqn:E; [discriminate|]. apply Nat.eqb_neq, E.
Qed.

Lemma thr_del_fst_notin ts tid : ~ In tid (map fst (thr_del ts tid)).
Proof.
  intros H. apply in_map_iff in H. destruct H as [[i t] [E H]]. cbn in E. subst i.
  apply thr_del_in in H. tauto.
Qed.

Lemma thr_del_nodup ts tid : NoDup (map fst ts) -> NoDup (map fst (thr_del ts tid)).
Proof.
  unfold thr_del. induction ts as [|[i x] r IH]; cbn [filter map fst]; [constructor|].
  intros H. inversion H as [|a l Hn Hd]; subst.
  destruct (negb (Nat.eqb i tid)); [|auto].
  cbn [map fst]. constructor; [|auto].
  intros A. apply Hn. apply in_map_iff in A. destruct A as [[j t] [E A]]. cbn in E. subst j.
  apply filter_In in A. apply in_map_iff. exists (i, t). tauto.
Qed.

Lemma claims_get_perm c ts tid t :
  NoDup (map fst ts) -> thr_get ts tid = Some t ->
  Permutation (claims_of_threads c ts) (claims_of_thread c t ++ claims_of_threads c (thr_del ts tid)).
Proof.
  unfold claims_of_threads, thr_del.
  induction ts as [|[i x] r IH]; cbn [thr_get]; [discriminate|].
  intros Hnd H. cbn [map fst] in Hnd. inversion Hnd as [|a l Hn Hd]; subst.
  cbn [flat_map filter fst snd].
  destruct (Nat.eqb i tid) eqn:E.
  - apply Nat.eqb_eq in E. subst i. injection H as ->. cbn [negb].
    fold (thr_del r tid). rewrite thr_del_notin by exact Hn. apply Permutation_refl.
  - cbn [negb flat_map snd]. specialize (IH Hd H).
    rewrite IH. rewrite !app_assoc. apply Permutation_app_tail. apply Permutation_app_comm.
Qed.

(** ---- frames ---- *)
Definition frame_tn (s s' : state) : Prop := s_threads s' = s_threads s /\ s_negs s' = s_negs s.
Lemma frame_tn_refl s : frame_tn s s. Proof. split; reflexivity. Qed.
Lemma frame_tn_trans a b c : frame_tn a b -> frame_tn b c -> frame_tn a c.
Proof. unfold frame_tn. intros [A B] [C D]. split; congruence. Qed.

Lemma pin_frame s u : frame_tn s (pin s u).
Proof. split; reflexivity. Qed.
Lemma unpin_frame c s u : frame_tn s (unpin c s u).
Proof.
  unfold unpin. destruct (find_uid u (s_blocks s)); [split; reflexivity|].
  destruct (find_uid u (s_zombies s)); [|split; reflexivity].
  destruct (Nat.leb (b_use b) 1); [|split; reflexivity].
  destruct (in_memory c); split; reflexivity.
Qed.
Lemma write_frame s u off data : frame_tn s (write_block s u off data).
Proof. unfold write_block. destruct (find_block s u); split; reflexivity. Qed.
Lemma index_put_frame s k l : frame_tn s (index_put s k l).
Proof. split; reflexivity. Qed.
Lemma index_put_all_frame ks : forall s l, frame_tn s (index_put_all s ks l).
Proof.
  induction ks as [|k t IH]; intros s l; cbn [index_put_all]; [apply frame_tn_refl|].
  eapply frame_tn_trans; [apply index_put_frame|apply IH].
Qed.
Lemma index_put_all_valid ks : forall s l l', loc_valid (index_put_all s ks l) l' = loc_valid s l'.
Proof.
  induction ks as [|k t IH]; intros s l l'; cbn [index_put_all]; [reflexivity|].
  rewrite IH. reflexivity.
Qed.
Lemma index_put_all_in ks : forall s l e, In e (s_index s) -> In e (s_index (index_put_all s ks l)).
Proof.
  induction ks as [|k t IH]; intros s l e H; cbn [index_put_all]; [exact H|].
  apply IH. cbn. right. exact H.
Qed.
Lemma index_put_all_tbr ks : forall s l, s_tbr (index_put_all s ks l) = s_tbr s.
Proof. induction ks as [|k t IH]; intros s l; cbn [index_put_all]; [reflexivity|]. rewrite IH. reflexivity. Qed.

Lemma finalize_eq c s wr ok :
  finalize c s wr ok =
  (if negb ok then Err cInvalidArgument
   else if wr_abs wr <? s_tbr (unpin c s (wr_uid wr)) then Err cInternal
   else Ok {| l_abs := wr_abs wr; l_off := wr_off wr; l_size := wr_size wr |},
   unpin c s (wr_uid wr)).
Proof.
  unfold finalize. destruct (negb ok); [reflexivity|].
  destruct (wr_abs wr <? s_tbr (unpin c s (wr_uid wr))); reflexivity.
Qed.

(** error codes of ocn_put are never OK *)
Lemma fbws_err c s size e s' : find_block_with_space c s size = (Err e, s') -> e <> cOK.
Proof.
  unfold find_block_with_space.
  destruct (c_bs c <? size); [intros H; injection H as <- _; discriminate|].
  destruct (fbs_grow _ _ _) as [[|] s2]; [|intros H; injection H as <- _; discriminate].
  destruct (fbs_rotate _ _ _ _) as [[|] s3]; [|intros H; injection H as <- _; discriminate].
  destruct (fbs_pick _ _ _ _) as [[idx s4]|]; [discriminate|].
  intros H; injection H as <- _; discriminate.
Qed.
Lemma ocn_put_err c s size e s' : ocn_put c s size = (Err e, s') -> e <> cOK.
Proof.
  unfold ocn_put. destruct (find_block_with_space c s size) as [[idx|e0] s1] eqn:F.
  - destruct (nth_error (s_blocks s1) idx); [discriminate|].
    intros H; injection H as <- _; discriminate.
  - intros H; injection H as <- _. eapply fbws_err, F.
Qed.

Lemma flat_key_fst c o i : fst (flat_key c o i) = o.
Proof. unfold flat_key. destruct (c_inst_keys c); reflexivity. Qed.
Lemma lookup_keys_fst w o i k : In k (lookup_keys w o i) -> fst k = o.
Proof.
  unfold lookup_keys. destruct (c_hier (w_cfg w)).
  - intros H. apply in_map_iff in H. destruct H as [a [<- _]]. reflexivity.
  - intros [<-|[]]. apply flat_key_fst.
Qed.
Lemma finalize_keys_fst w o i k : In k (finalize_keys w o i) -> fst k = o.
Proof.
  unfold finalize_keys. destruct (c_hier (w_cfg w)).
  - intros [<-|[<-|[]]]; reflexivity.
  - intros [<-|[]]. apply flat_key_fst.
Qed.
