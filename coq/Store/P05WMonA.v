(** C05, idempotence part 3a: the R05 monitor on the model's observations
    with the model's own write indication ([enc_obs05]); helper lemmas. *)
From Coq Require Import List NArith ZArith Bool Arith Lia Relations.
From Coq Require Import ZifyN ZifyNat ZifyBool.
From BBS Require Import Common.Sx Common.SxFactsMA Store.Model Store.Wf Store.WfTids Run.RStore Run.R01 Run.R05.
From BBS Require Import Store.P05Cnt Store.P05Frame Store.P05Ops Store.P05Step Store.P05Surv Store.P05Mon
                        Store.P05Inv Store.P05Main Store.P05Touch.
From BBS Require Import Store.P05WInv Store.P05WRep.
Import ListNotations.
Open Scope Z_scope.

Definition m05w_step (w : world) (m : m05) (x : op * (state * state * out)) : m05 :=
  let '(e, (s0, s1, mo)) := x in m05_step w m (e, (s0, s1, mo), enc_obs05 w e s0 s1 mo).

Definition mon05w_model (w : world) (es : list op) : list Z :=
  dedupZ (t_viol (fold_left (m05w_step w) (run_x w es) m05_init)).

Theorem mon05_on_run05 inp : mon05 inp (run05 inp) = mon05w_model (dec_world inp) (dec_ops inp).
Proof.
  unfold mon05, run05, mon05w_model, run_x. cbn [sx_list]. f_equal. f_equal.
  rewrite fold_left_combine_map. apply fold_left_ext.
  intros a [e [[s0 s1] mo]]. reflexivity.
Qed.

(** [run05] and [run_store] differ in the last field only *)
Lemma enc_obs05_agrees w e s0 s1 mo : obs_agree (enc_obs (w_cfg w) e s0 s1 mo) (enc_obs05 w e s0 s1 mo) = true.
Proof. unfold obs_agree. destruct mo; cbn [enc_obs enc_obs05 sx_list app firstn]; apply SxFactsMA.sx_eqb_refl. Qed.

Lemma all2b_map {X} (f g : X -> sx) (h : sx -> sx -> bool) : (forall x, h (f x) (g x) = true) ->
  forall l, all2b h (map f l) (map g l) = true.
Proof. intros H. induction l as [|x t IH]; cbn; [reflexivity|]. rewrite H, IH. reflexivity. Qed.

Theorem run05_agrees inp : all2b obs_agree (sx_list (run_store inp)) (sx_list (run05 inp)) = true.
Proof.
  unfold run_store, run05. cbn [sx_list]. apply all2b_map. intros [e [[s0 s1] mo]]. apply enc_obs05_agrees.
Qed.

(** ---- accessors on [enc_obs05] ---- *)
Definition wbit (w : world) (e : op) (s0 s1 : state) : Z := if wrote w s0 e s1 then 1 else 0.
Definition out_kind (mo : out) : Z := match mo with Done _ _ => 0 | Parked => 1 | Missing _ _ => 2 | Bad => 3 end.

Lemma obk w e s0 s1 mo : ob_kind (enc_obs05 w e s0 s1 mo) = out_kind mo.
Proof. destruct mo; reflexivity. Qed.
Lemma obc w e s0 s1 mo : ob_code (enc_obs05 w e s0 s1 mo) = out_code mo.
Proof. destruct mo; reflexivity. Qed.
Lemma obw w e s0 s1 mo : ob_writes (enc_obs05 w e s0 s1 mo) = match mo with Bad => 0 | _ => wbit w e s0 s1 end.
Proof. destruct mo; reflexivity. Qed.
Lemma obok w e s0 s1 mo : ob_ok (enc_obs05 w e s0 s1 mo) = out_ok mo.
Proof. destruct mo; reflexivity. Qed.
Lemma obmiss w e s0 s1 c mm : sx_nats (sx_nth (enc_obs05 w e s0 s1 (Missing c mm)) 2) = mm.
Proof. change (sx_nth (enc_obs05 w e s0 s1 (Missing c mm)) 2) with (of_nats mm). apply sx_nats_of_nats. Qed.
Lemma wbit_range w e s0 s1 : wbit w e s0 s1 = 0 \/ wbit w e s0 s1 = 1.
Proof. unfold wbit. destruct (wrote w s0 e s1); auto. Qed.

(** ---- an event answered [Bad] leaves the state alone ---- *)
Lemma get_open_tget w s o i t s0 :
  kinv (w_cfg w) (proj s) -> get_open w s o i = (Ok t, s0) -> exists o' u l r f, t = TGet o' u l r f.
Proof.
  intros K H. apply get_open_spec in H; [|exact K]. destruct H as (_ & _ & HP).
  destruct (HP t eq_refl) as (u & l & r & f & -> & _). exists o, u, l, r, f. reflexivity.
Qed.

Lemma step_bad_same w s e s1 : kinv (w_cfg w) (proj s) -> step w s e = (s1, Bad) -> s1 = s.
Proof.
  intros K H. unfold step in H.
  destruct (may_take_refresh_lock e && refresh_lock_held s); [inversion H; reflexivity|].
  destruct (is_corrupt e && reader_open s); [inversion H; reflexivity|].
  destruct e as [tid o i|tid data|tid err|tid o i|tid|ds|tid p i ch|tid slices|r off len].
  - destruct (thr_get (s_threads s) tid); [inversion H; reflexivity|].
    destruct (put_start w s o i) as [[t|e] s0]; inversion H.
  - destruct (thr_get (s_threads s) tid) as [[o i wr acc|o i acc|? ? ? ? ?|? ? ? ? ? ?|?]|];
      try (inversion H; reflexivity).
    + destruct (wr_size wr <? N.of_nat (length acc + length data))%N; [|inversion H].
      destruct (finalize (w_cfg w) s wr false); inversion H.
    + destruct (osize w o <? N.of_nat (length acc + length data))%N; inversion H.
  - destruct (thr_get (s_threads s) tid) as [[o i wr acc|o i acc|? ? ? ? ?|? ? ? ? ? ?|?]|];
      try (inversion H; reflexivity).
    + destruct (finalize (w_cfg w) s wr (Z.eqb err 0 && bytes_eqb acc (content w o))) as [[l|e] s0]; inversion H.
    + destruct (negb (Z.eqb err 0)); [inversion H|].
      destruct (negb (bytes_eqb acc (content w o))); [inversion H|].
      destruct (index_get s (canonical_key o)); inversion H.
  - destruct (thr_get (s_threads s) tid); [inversion H; reflexivity|].
    destruct (get_open w s o i) as [[t|e] s0]; inversion H.
  - destruct (thr_get (s_threads s) tid) as [[? ? ? ?|? ? ?|o uid l refresh fkeys|? ? ? ? ? ?|?]|];
      try (inversion H; reflexivity).
    destruct (get_consume w s o uid l refresh fkeys) as [[code bytes] s0]. inversion H.
  - destruct (find_missing w s ds) as [[m|e] s0]; inversion H.
  - destruct (thr_get (s_threads s) tid); [inversion H; reflexivity|].
    destruct (c_hier (w_cfg w)).
    + destruct (get_open w s p i) as [[t|e] s0] eqn:E; [|inversion H].
      destruct (get_open_tget _ _ _ _ _ _ K E) as (o' & u & l & r & f & ->). inversion H.
    + destruct (index_get s (flat_key (w_cfg w) p i)) as [pl|]; [|inversion H].
      match type of H with (match ?D with _ => _ end) = _ => destruct D as [[cl uid]|] end.
      * destruct (get_consume w (pin s uid) ch uid cl None []) as [[code bytes] s2]. inversion H.
      * destruct (block_of_loc s pl) as [b|]; [|inversion H; reflexivity].
        destruct (needs_refresh s pl); [|inversion H].
        destruct (ocn_put (w_cfg w) (pin s (b_uid b)) (l_size pl)) as [[wr|e0] s2]; inversion H.
  - destruct (thr_get (s_threads s) tid) as [[? ? ? ?|? ? ?|o uid l refresh fkeys|p i uid pl refresh pk|e0]|];
      try (inversion H; reflexivity).
    + destruct (get_consume w s o uid l refresh fkeys) as [[code bytes] s0].
      destruct (Z.eqb code cOK); inversion H.
    + destruct (read_validated w s p uid pl) as [[valid bytes] s0].
      destruct (negb valid); [inversion H|].
      destruct refresh as [wr|].
      * destruct (if lockstep (w_cfg w)
                  then finalize (w_cfg w) (write_block (unpin (w_cfg w) s0 uid) (wr_uid wr) (wr_off wr) bytes) wr true
                  else (fin_check (unpin (w_cfg w) s0 uid) wr, unpin (w_cfg w) s0 uid)) as [[nl|e1] s3]; inversion H.
      * destruct (index_get (unpin (w_cfg w) s0 uid) pk); inversion H.
  - destruct (dev_get (s_dev s) r); inversion H.
Qed.
