(** Every configuration the constructor accepts (and that is sane in the sense
    of Store/Wiring.v) denotes a well-formed store configuration, so that the
    store theorems (Store/P01*.v, P05*.v, ...) apply to it. *)
From Coq Require Import List NArith ZArith Bool Arith Lia.
From BBS Require Import Store.Model Store.Wf Store.Wiring.
Import ListNotations.

Lemma wire_fields wi c : wire wi = Some c ->
  c_old c = wi_old wi /\ c_cur c = wi_cur wi /\ c_new c = wi_new wi /\
  c_mutable c = wi_ac wi /\ c_hier c = wi_hier wi /\
  c_inst_keys c = (wi_hier wi || wi_ac wi) /\
  c_nblocks c = (if wi_device wi then wi_block_count wi else 0%nat) /\
  c_validate c = (wi_device wi && negb (wi_ac wi)) /\
  c_bs c = (if wi_device wi then (wi_sector_size wi * wi_block_sectors wi)%N else wi_block_size wi).
Proof.
  unfold wire. intros H.
  destruct (wi_device wi && Nat.ltb 100 (wi_block_count wi)); [discriminate|].
  destruct (wi_device wi && N.eqb (wi_block_sectors wi) 0); [discriminate|].
  destruct (wi_ac wi && negb (Nat.eqb (wi_new wi) 1)); [discriminate|].
  destruct (wi_ac wi && wi_hier wi); [discriminate|].
  injection H as <-. cbn. repeat split; reflexivity.
Qed.

Lemma wire_accept_conditions wi c : wire wi = Some c ->
  (wi_device wi = true -> (wi_block_count wi <= 100)%nat /\ wi_block_sectors wi <> 0%N) /\
  (wi_ac wi = true -> wi_new wi = 1%nat /\ wi_hier wi = false).
Proof.
  unfold wire. intros H.
  destruct (wi_device wi && Nat.ltb 100 (wi_block_count wi)) eqn:E1; [discriminate|].
  destruct (wi_device wi && N.eqb (wi_block_sectors wi) 0) eqn:E2; [discriminate|].
  destruct (wi_ac wi && negb (Nat.eqb (wi_new wi) 1)) eqn:E3; [discriminate|].
  destruct (wi_ac wi && wi_hier wi) eqn:E4; [discriminate|].
  split.
  - intros D. rewrite D in E1, E2. cbn [andb] in E1, E2.
    apply Nat.ltb_ge in E1. apply N.eqb_neq in E2. split; assumption.
  - intros A. rewrite A in E3, E4. cbn [andb] in E3, E4.
    apply negb_false_iff in E3. apply Nat.eqb_eq in E3. split; assumption.
Qed.

(** the constructor's refusals, one by one *)
Lemma wire_refuses_ac_hierarchical wi : wi_ac wi = true -> wi_hier wi = true -> wire wi = None.
Proof.
  intros A H. unfold wire. rewrite A, H.
  destruct (wi_device wi && Nat.ltb 100 (wi_block_count wi)); [reflexivity|].
  destruct (wi_device wi && N.eqb (wi_block_sectors wi) 0); [reflexivity|].
  destruct (true && negb (Nat.eqb (wi_new wi) 1)); reflexivity.
Qed.

Lemma wire_refuses_ac_several_new wi : wi_ac wi = true -> wi_new wi <> 1%nat -> wire wi = None.
Proof.
  intros A H. unfold wire. rewrite A.
  destruct (wi_device wi && Nat.ltb 100 (wi_block_count wi)); [reflexivity|].
  destruct (wi_device wi && N.eqb (wi_block_sectors wi) 0); [reflexivity|].
  apply Nat.eqb_neq in H. rewrite H. reflexivity.
Qed.

Lemma wire_refuses_too_many_blocks wi : wi_device wi = true -> (100 < wi_block_count wi)%nat -> wire wi = None.
Proof.
  intros D H. unfold wire. rewrite D. apply Nat.ltb_lt in H. rewrite H. reflexivity.
Qed.

Lemma wire_refuses_tiny_device wi :
  wi_device wi = true -> (wi_sector_count wi < N.of_nat (wi_block_count wi))%N -> wire wi = None.
Proof.
  intros D H. unfold wire. rewrite D.
  destruct (true && Nat.ltb 100 (wi_block_count wi)); [reflexivity|].
  unfold wi_block_sectors. rewrite (N.div_small _ _ H). reflexivity.
Qed.

Theorem wire_wf wi c : wire wi = Some c -> wiring_sane wi = true -> wf_config c = true.
Proof.
  intros W S.
  destruct (wire_fields wi c W) as (Ho & Hc & Hn & Hm & Hh & Hk & Hb & Hv & Hs).
  destruct (wire_accept_conditions wi c W) as (AD & AA).
  unfold wiring_sane in S. apply andb_true_iff in S. destruct S as (S1 & S2).
  apply Nat.leb_le in S1.
  unfold wf_config, in_memory. rewrite Hn, Hm, Hh, Hk, Hb, Hv, Hs, Ho, Hc.
  destruct (wi_device wi) eqn:D.
  - apply andb_true_iff in S2. destruct S2 as (S2 & S3).
    apply N.ltb_lt in S2. apply Nat.leb_le in S3.
    destruct (AD eq_refl) as (_ & NZ).
    assert (NB : Nat.eqb (wi_block_count wi) 0 = false).
    { apply Nat.eqb_neq. unfold wi_block_count. lia. }
    rewrite NB.
    assert (B : (0 <? wi_sector_size wi * wi_block_sectors wi)%N = true).
    { apply N.ltb_lt. apply N.mul_pos_pos; [exact S2|]. lia. }
    rewrite B. assert (N1 : Nat.leb 1 (wi_new wi) = true) by (apply Nat.leb_le; exact S1). rewrite N1.
    assert (SP : Nat.leb (wi_old wi + wi_cur wi + wi_new wi + 1) (wi_block_count wi) = true).
    { apply Nat.leb_le. unfold wi_block_count. lia. }
    rewrite SP. cbn [andb].
    destruct (wi_ac wi) eqn:A.
    + destruct (AA eq_refl) as (N1' & H0). rewrite N1', H0. reflexivity.
    + destruct (wi_hier wi); reflexivity.
  - cbn [Nat.eqb andb]. rewrite S2.
    assert (N1 : Nat.leb 1 (wi_new wi) = true) by (apply Nat.leb_le; exact S1). rewrite N1. cbn [andb negb].
    destruct (wi_ac wi) eqn:A.
    + destruct (AA eq_refl) as (N1' & H0). rewrite N1', H0. reflexivity.
    + destruct (wi_hier wi); reflexivity.
Qed.

(** the retention parameters of the wired store are the configured ones, and
    the number of block regions on a device is the sum of the four counts *)
Theorem wire_retention wi c : wire wi = Some c ->
  c_old c = wi_old wi /\ c_cur c = wi_cur wi /\ c_new c = wi_new wi /\
  (wi_device wi = true -> c_nblocks c = (wi_spare wi + wi_old wi + wi_cur wi + wi_new wi)%nat).
Proof.
  intros W. destruct (wire_fields wi c W) as (Ho & Hc & Hn & _ & _ & _ & Hb & _).
  repeat split; try assumption. intros D. rewrite Hb, D. reflexivity.
Qed.

(** key format and growth policy follow the storage type *)
Theorem wire_storage_type wi c : wire wi = Some c ->
  c_mutable c = wi_ac wi /\
  (c_hier c = true -> wi_ac wi = false /\ c_inst_keys c = true) /\
  (c_hier c = false -> c_inst_keys c = wi_ac wi).
Proof.
  intros W. destruct (wire_fields wi c W) as (_ & _ & _ & Hm & Hh & Hk & _).
  destruct (wire_accept_conditions wi c W) as (_ & AA).
  split; [exact Hm|]. rewrite Hh, Hk. split.
  - intros H. rewrite H. split; [|reflexivity].
    destruct (wi_ac wi) eqn:A; [|reflexivity]. destruct (AA eq_refl) as (_ & H0). congruence.
  - intros H. rewrite H. reflexivity.
Qed.

(** every block of a device-backed store lies inside the device *)
Theorem wire_blocks_fit_device wi c : wire wi = Some c -> wi_device wi = true ->
  (c_bs c * N.of_nat (c_nblocks c) <= wi_sector_size wi * wi_sector_count wi)%N.
Proof.
  intros W D. destruct (wire_fields wi c W) as (_ & _ & _ & _ & _ & _ & Hb & _ & Hs).
  rewrite Hb, Hs, D. unfold wi_block_sectors.
  rewrite <- N.mul_assoc. apply N.mul_le_mono_l.
  rewrite N.mul_comm. apply N.mul_div_le.
  destruct (wire_accept_conditions wi c W) as (AD & _). destruct (AD D) as (_ & NZ).
  unfold wi_block_sectors in NZ. intros Z. rewrite Z in NZ. apply NZ. destruct (wi_sector_count wi); reflexivity.
Qed.
