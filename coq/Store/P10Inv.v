(** C10 — hierarchical CAS: the set of lookup keys (object, instance) that
    have a stored index entry only grows through successful uploads under
    that very instance name.  Step invariant of the store model.  Proofs only. *)
From Coq Require Import List NArith ZArith Bool Arith Lia ZifyN ZifyNat ZifyBool.
From BBS Require Import Store.Model Store.P08Frame Store.P08Step Store.P08Quarantine.
Import ListNotations.
Open Scope N_scope.

Definition has_entry (s : state) (k : key) : Prop := exists l, In (k, l) (s_index s).
(** a key that may be (re)written by refresh / sync: the canonical key, or a
    lookup key that already has an entry *)
Definition lookup_ok (s : state) (k : key) : Prop := snd k = 0%nat \/ has_entry s k.

Definition thread_ok (s : state) (t : thread) : Prop :=
  match t with
  | TPut _ _ wr _ => wr_abs wr < hiM s
  | TPutExisting _ _ _ => True
  | TGet _ _ _ _ fk => Forall (lookup_ok s) fk
  | TGfc _ _ _ _ _ _ => False               (* flat composite reads do not occur in hierarchical stores *)
  | TGfcErr e => e <> 0%Z
  end.
Definition hinv (s : state) : Prop := forall tid t, In (tid, t) (s_threads s) -> thread_ok s t.

Lemma has_entry_ext s s' k : (exists new, s_index s' = new ++ s_index s) -> has_entry s k -> has_entry s' k.
Proof. intros [nw E] [l H]. exists l. rewrite E. apply in_or_app. right. assumption. Qed.
Lemma lookup_ok_ext s s' k : (exists new, s_index s' = new ++ s_index s) -> lookup_ok s k -> lookup_ok s' k.
Proof. intros E [H|H]; [left; assumption|right; eapply has_entry_ext; eassumption]. Qed.
Lemma thread_ok_ext s s' t :
  (exists new, s_index s' = new ++ s_index s) -> hiM s <= hiM s' -> thread_ok s t -> thread_ok s' t.
Proof.
  intros E Hh. destruct t; cbn; auto; [lia|].
  intros H. eapply Forall_impl; [|exact H]. intros k. apply lookup_ok_ext, E.
Qed.

(** "no widening" frame: threads untouched, index grows only at allowed keys *)
Record nwf (s s' : state) : Prop := {
  nw_thr : s_threads s' = s_threads s;
  nw_ext : exists new, s_index s' = new ++ s_index s;
  nw_keys : forall k, has_entry s' k -> lookup_ok s k;
  nw_hi : hiM s <= hiM s';
}.

Lemma nwf_refl s : nwf s s.
Proof. constructor; try reflexivity; try lia. exists []; reflexivity. intros k H; right; exact H. Qed.
Lemma nwf_afr_step s s1 s2 : afr s1 s2 -> nwf s s1 -> nwf s s2.
Proof.
  intros [] [T [nw E] K H]. constructor.
  - congruence.
  - exists nw. congruence.
  - intros k [l Hl]. apply K. exists l. congruence.
  - lia.
Qed.
Lemma nwf_xfr_step s s1 s2 : xfr s1 s2 -> nwf s s1 -> nwf s s2.
Proof. intros H. apply nwf_afr_step, xfr_afr, H. Qed.
Lemma nwf_pin s s1 u : nwf s s1 -> nwf s (pin s1 u).
Proof. apply nwf_xfr_step, pin_xfr. Qed.
Lemma nwf_unpin s s1 c u : nwf s s1 -> nwf s (unpin c s1 u).
Proof. apply nwf_xfr_step, unpin_xfr. Qed.
Lemma nwf_write_block s s1 u off d : nwf s s1 -> nwf s (write_block s1 u off d).
Proof. apply nwf_xfr_step, write_block_xfr. Qed.
Lemma nwf_finalize s s1 c wr ok : nwf s s1 -> nwf s (snd (finalize c s1 wr ok)).
Proof. rewrite finalize_state. apply nwf_unpin. Qed.
Lemma nwf_index_put s s1 k l : lookup_ok s k -> nwf s s1 -> nwf s (index_put s1 k l).
Proof.
  intros Hk [T [nw E] K H]. constructor; unfold hiM in *; cbn; try assumption.
  - exists ((k, l) :: nw). rewrite E. reflexivity.
  - intros k' [l' [Hl|Hl]]; [inversion Hl; subst; assumption|apply K; exists l'; assumption].
Qed.
Lemma nwf_index_put_all s ks l : Forall (lookup_ok s) ks -> forall s1, nwf s s1 -> nwf s (index_put_all s1 ks l).
Proof.
  induction 1 as [|k t Hk Ht IH]; intros s1 H; cbn [index_put_all]; [assumption|].
  apply IH, nwf_index_put; assumption.
Qed.
Lemma nwf_dfr_step l s s1 s2 : dfr l s1 s2 -> nwf s s1 -> nwf s s2.
Proof.
  intros [] [T [nw E] K H]. constructor.
  - congruence.
  - exists nw. congruence.
  - intros k [l' Hl]. apply K. exists l'. congruence.
  - unfold hiM in *. rewrite df_rel, df_blocks. assumption.
Qed.
Lemma nwf_trans a b c : nwf a b -> nwf b c -> nwf a c.
Proof.
  intros [T1 [n1 E1] K1 H1] [T2 [n2 E2] K2 H2]. constructor.
  - congruence.
  - exists (n2 ++ n1). rewrite E2, E1, app_assoc. reflexivity.
  - intros k Hk. apply K2 in Hk as [Hk|Hk]; [left; assumption|apply K1, Hk].
  - lia.
Qed.

Create HintDb nwf.
#[export] Hint Resolve nwf_refl nwf_pin nwf_unpin nwf_write_block nwf_finalize nwf_afr_step nwf_xfr_step
  nwf_index_put nwf_index_put_all nwf_dfr_step : nwf.

Lemma index_get_lookup_ok s k l : index_get s k = Some l -> lookup_ok s k.
Proof. intros H. apply index_get_some in H as [H _]. right. exists l. assumption. Qed.

(** ---- compound operations ---- *)
Lemma open_with_refresh_nwf w s0 s o l fk r s' :
  Forall (lookup_ok s0) fk -> nwf s0 s -> open_with_refresh w s o l fk = (r, s') -> nwf s0 s'.
Proof.
  intros Hfk Hs. unfold open_with_refresh. destruct (block_of_loc s l) as [b|]; [|iinv; assumption].
  destruct (needs_refresh s l); [|iinv; auto with nwf].
  destruct (ocn_put (w_cfg w) (pin s (b_uid b)) (l_size l)) as [[wr|e] s2] eqn:E; apply ocn_put_afr in E.
  - destruct (lockstep (w_cfg w)); [iinv; eauto with nwf|].
    destruct (finalize _ _ wr true) as [[nl|e] s4] eqn:F; apply finalize_xfr in F; iinv; eauto 10 with nwf.
  - iinv; eauto with nwf.
Qed.

Lemma open_with_refresh_err w s o l fk e s' : open_with_refresh w s o l fk = (Err e, s') ->
  e <> cNotFound /\ e <> 0%Z.
Proof.
  unfold open_with_refresh. destruct (block_of_loc s l) as [b|]; [|iinv; split; discriminate].
  destruct (needs_refresh s l); [|discriminate].
  destruct (ocn_put (w_cfg w) (pin s (b_uid b)) (l_size l)) as [[wr|e1] s2] eqn:E.
  - destruct (lockstep (w_cfg w)); [discriminate|].
    destruct (finalize _ _ wr true) as [[nl|e1] s4] eqn:F; [discriminate|].
    apply finalize_err_code in F. iinv. destruct F as [-> | ->]; split; discriminate.
  - apply ocn_put_err_code in E. iinv. destruct E as [-> | [-> | [-> | ->]]]; split; discriminate.
Qed.

Lemma hier_lookup_keys w o i : c_hier (w_cfg w) = true ->
  lookup_keys w o i = map (fun a => (o, S a)) (ancestors w i).
Proof. unfold lookup_keys. intros ->. reflexivity. Qed.

Lemma get_open_nwf w s o i r s' : get_open w s o i = (r, s') ->
  nwf s s' /\ match r with
              | Ok t => exists uid l rf fk, t = TGet o uid l rf fk /\ Forall (lookup_ok s) fk
              | Err e => e <> 0%Z /\ (e = cNotFound -> least_specific s (lookup_keys w o i) = None)
              end.
Proof.
  unfold get_open. destruct (least_specific s (lookup_keys w o i)) as [[k l]|] eqn:L.
  2:{ iinv. split; [apply nwf_refl|split; [discriminate|reflexivity]]. }
  apply least_specific_some in L as [Lk Lg]. pose proof (index_get_lookup_ok _ _ _ Lg) as Hk.
  assert (forall s1 l1 fk, Forall (lookup_ok s) fk -> nwf s s1 -> open_with_refresh w s1 o l1 fk = (r, s') ->
          nwf s s' /\ match r with
                      | Ok t => exists uid l rf fk, t = TGet o uid l rf fk /\ Forall (lookup_ok s) fk
                      | Err e => e <> 0%Z /\ (e = cNotFound -> @None (key * loc) = None)
                      end) as Hd.
  { intros s1 l1 fk Hfk Hs1 H. split; [eapply open_with_refresh_nwf; eassumption|].
    destruct r as [t|e].
    - apply open_with_refresh_ok in H as (uid & rf & fk' & -> & [-> | ->] & _); eexists _, _, _, _; eauto.
    - apply open_with_refresh_err in H as [H1 H2]. split; [assumption|reflexivity]. }
  assert (forall s1 l1 fk, Forall (lookup_ok s) fk -> nwf s s1 -> open_with_refresh w s1 o l1 fk = (r, s') ->
          nwf s s' /\ match r with
                      | Ok t => exists uid l rf fk, t = TGet o uid l rf fk /\ Forall (lookup_ok s) fk
                      | Err e => e <> 0%Z /\ (e = cNotFound -> @Some (key * loc) (k, l) = None)
                      end) as Hd'.
  { intros s1 l1 fk Hfk Hs1 H. destruct (Hd s1 l1 fk Hfk Hs1 H) as [H1 H2]. split; [assumption|].
    destruct r as [t|e]; [assumption|]. split; [apply H2|]. intros ->.
    apply open_with_refresh_err in H as [H _]. contradiction. }
  destruct (negb (needs_refresh s l)); [apply Hd'; [constructor|apply nwf_refl]|].
  destruct (c_hier (w_cfg w)).
  - destruct (sync_from_canonical s o k) as [[cl s1]|] eqn:E.
    + apply sync_from_canonical_sfr in E as [-> Ec]. apply Hd'; [constructor|auto with nwf].
    + apply Hd'; [|apply nwf_refl]. constructor; [left; reflexivity|constructor; [assumption|constructor]].
  - apply Hd'; [|apply nwf_refl]. constructor; [assumption|constructor].
Qed.

Lemma get_consume_nwf w s o uid l refresh fk code bytes s' :
  Forall (lookup_ok s) fk -> get_consume w s o uid l refresh fk = (code, bytes, s') -> nwf s s'.
Proof.
  intros Hfk. unfold get_consume. destruct (read_validated w s o uid l) as [[valid b] s1] eqn:R.
  destruct valid.
  - apply read_validated_true in R; subst s1.
    destruct refresh as [wr|].
    + destruct (finalize _ _ wr true) as [[nl|e] s2] eqn:F; apply finalize_xfr in F;
        cbn [negb]; dm; iinv; eauto 10 with nwf.
    + cbn [negb]. dm; iinv; eauto with nwf.
  - apply read_validated_false_dfr in R.
    destruct refresh as [wr|].
    + destruct (finalize _ s1 wr false) as [[nl|e] s2] eqn:F.
      { apply finalize_ok in F as [F _]. discriminate. }
      apply finalize_xfr in F. cbn [negb]. iinv. eauto 10 with nwf.
    + cbn [negb]. iinv. eauto with nwf.
Qed.

Lemma fm_refresh_one_nwf w s o i r s' : fm_refresh_one w s o i = (r, s') -> nwf s s'.
Proof.
  unfold fm_refresh_one.
  destruct (least_specific s (lookup_keys w o i)) as [[k l]|] eqn:L; [|iinv; apply nwf_refl].
  apply least_specific_some in L as [Lk Lg]. pose proof (index_get_lookup_ok _ _ _ Lg) as Hk.
  destruct (negb (needs_refresh s l)); [iinv; apply nwf_refl|].
  match goal with |- context [match ?d with Some s1 => (Ok true, s1) | None => _ end] => destruct d as [s1|] eqn:D end.
  { iinv. destruct (c_hier (w_cfg w)); [|discriminate].
    destruct (sync_from_canonical s o k) as [[cl s2]|] eqn:E; [|discriminate]. inv D.
    apply sync_from_canonical_sfr in E as [-> _]. auto with nwf. }
  clear D. destruct (block_of_loc s l) as [b|]; [|iinv; apply nwf_refl].
  destruct (ocn_put (w_cfg w) (pin s (b_uid b)) (l_size l)) as [[wr|e] s1] eqn:E; apply ocn_put_afr in E.
  2:{ iinv. eauto with nwf. }
  assert (Forall (lookup_ok s) (if c_hier (w_cfg w) then [canonical_key o; k] else [k])) as Hfk.
  { destruct (c_hier (w_cfg w)); [constructor; [left; reflexivity|]|]; (constructor; [assumption|constructor]). }
  destruct (read_validated w s1 o (b_uid b) l) as [[valid bytes] s2] eqn:R. destruct valid.
  - apply read_validated_true in R; subst s2.
    destruct (finalize _ _ wr true) as [[nl|e] s3] eqn:F; apply finalize_xfr in F; iinv; eauto 10 with nwf.
  - apply read_validated_false_dfr in R.
    destruct (finalize _ _ wr false) as [[nl|e] s3] eqn:F.
    { apply finalize_ok in F as [F _]. discriminate. }
    apply finalize_xfr in F. iinv. eauto 10 with nwf.
Qed.

Lemma fm_phase2_nwf w : forall todo s missing r s', fm_phase2 w s todo missing = (r, s') -> nwf s s'.
Proof.
  induction todo as [|[pos [o i]] t IH]; intros s missing r s'; cbn [fm_phase2]; [iinv; apply nwf_refl|].
  destruct (fm_refresh_one w s o i) as [[[]|e] s1] eqn:E; apply fm_refresh_one_nwf in E.
  - intros H. apply IH in H. eapply nwf_trans; eassumption.
  - intros H. apply IH in H. eapply nwf_trans; eassumption.
  - iinv. assumption.
Qed.

Lemma put_start_nwf w s o i r s' : put_start w s o i = (r, s') ->
  nwf s s' /\ match r with
              | Ok t => (exists wr, t = TPut o i wr [] /\ wr_abs wr < hiM s') \/ t = TPutExisting o i []
              | Err e => e <> 0%Z
              end.
Proof.
  unfold put_start.
  match goal with |- context [if ?x then (Ok (TPutExisting o i []), s) else _] => destruct x end.
  - iinv. split; [apply nwf_refl|right; reflexivity].
  - destruct (ocn_put (w_cfg w) s (osize w o)) as [[wr|e] s1] eqn:E; pose proof (ocn_put_afr _ _ _ _ _ E) as A;
      iinv; (split; [eauto with nwf|]).
    + left. exists wr. split; [reflexivity|]. eapply ocn_put_wr_abs; eassumption.
    + apply ocn_put_err_code in E. destruct E as [-> | [-> | [-> | ->]]]; discriminate.
Qed.

(** ---- invariant maintenance helpers ---- *)
Lemma hinv_nwf s s1 : hinv s -> nwf s s1 -> hinv s1.
Proof.
  intros Hi [T E K H] tid t Ht. rewrite T in Ht. eapply thread_ok_ext; [exact E|exact H|]. eapply Hi, Ht.
Qed.
Lemma thread_ok_thr s ts t : thread_ok (upd_threads s ts) t <-> thread_ok s t.
Proof. destruct t; cbn; reflexivity. Qed.
Lemma hinv_rm s tid : hinv s -> hinv (thr_rm s tid).
Proof.
  intros Hi tid' t Ht. unfold thr_rm in *. apply thread_ok_thr. cbn in Ht.
  apply thr_del_in in Ht as [Ht _]. eapply Hi, Ht.
Qed.
Lemma hinv_set s tid t : hinv s -> thread_ok s t -> hinv (thr_set s tid t).
Proof.
  intros Hi Hok tid' t' Ht. unfold thr_set in *. apply thread_ok_thr. cbn in Ht.
  destruct Ht as [Ht|Ht]; [inversion Ht; subst; assumption|].
  apply thr_del_in in Ht as [Ht _]. eapply Hi, Ht.
Qed.

(** successful completions of uploads, as seen on the step *)
Definition completed (w : world) (s : state) (e : op) : list (nat * nat) :=
  match e with
  | OPutEnd tid _ =>
      match thr_get (s_threads s) tid, snd (step w s e) with
      | Some (TPut o i _ _), Done c _ => if Z.eqb c 0 then [(o, i)] else []
      | Some (TPutExisting o i _), Done c _ => if Z.eqb c 0 then [(o, i)] else []
      | _, _ => []
      end
  | _ => []
  end.

Lemma completed_spec w s e o i : In (o, i) (completed w s e) <->
  exists tid err b, e = OPutEnd tid err /\ snd (step w s e) = Done cOK b /\
    ((exists wr acc, thr_get (s_threads s) tid = Some (TPut o i wr acc)) \/
     (exists acc, thr_get (s_threads s) tid = Some (TPutExisting o i acc))).
Proof.
  split.
  - destruct e; cbn [completed]; try solve [intros []].
    destruct (thr_get (s_threads s) tid) as [[o' i' wr acc|o' i' acc| | |]|] eqn:Ht; try solve [intros []];
      destruct (snd (step w s (OPutEnd tid err))) as [c b| | |] eqn:Es; try solve [intros []];
      destruct (Z.eqb_spec c 0); try solve [intros []]; subst c; intros [Hx|[]]; inv Hx;
      exists tid, err, b; (split; [reflexivity|split; [reflexivity|eauto]]).
  - intros (tid & err & b & -> & Es & Ht). cbn [completed]. rewrite Es.
    destruct Ht as [(wr & acc & ->)|(acc & ->)]; cbn; left; reflexivity.
Qed.

(** the main step lemma (hierarchical stores): the invariant is preserved,
    the index only grows, and a new lookup key appears only through a
    successful upload under that very instance name *)
Lemma step_hier w s e s' out : c_hier (w_cfg w) = true -> hinv s -> step w s e = (s', out) ->
  hinv s' /\
  (forall k, has_entry s' k -> lookup_ok s k \/ exists o i, k = (o, S i) /\ In (o, i) (completed w s e)).
Proof.
  intros Hh Hi Hstep.
  assert (forall s1, nwf s s1 -> forall k, has_entry s1 k ->
          lookup_ok s k \/ exists o i, k = (o, S i) /\ In (o, i) (completed w s e)) as Hnw.
  { intros s1 [_ _ K _] k Hk. left. apply K, Hk. }
  assert (forall s1 tid, nwf s s1 -> hinv (thr_rm s1 tid) /\
          (forall k, has_entry (thr_rm s1 tid) k ->
             lookup_ok s k \/ exists o i, k = (o, S i) /\ In (o, i) (completed w s e))) as Hrm.
  { intros s1 tid N. split; [apply hinv_rm; eapply hinv_nwf; eassumption|apply (Hnw s1 N)]. }
  assert (forall s1 tid t, nwf s s1 -> thread_ok s1 t -> hinv (thr_set s1 tid t) /\
          (forall k, has_entry (thr_set s1 tid t) k ->
             lookup_ok s k \/ exists o i, k = (o, S i) /\ In (o, i) (completed w s e))) as Hset.
  { intros s1 tid t N Ht. split; [apply hinv_set; [eapply hinv_nwf; eassumption|assumption]|apply (Hnw s1 N)]. }
  assert (forall s1, nwf s s1 -> hinv s1 /\
          (forall k, has_entry s1 k ->
             lookup_ok s k \/ exists o i, k = (o, S i) /\ In (o, i) (completed w s e))) as Hid.
  { intros s1 N. split; [eapply hinv_nwf; eassumption|apply (Hnw s1 N)]. }
  pose proof Hstep as Hstep0.
  revert Hstep. unfold step.
  destruct (may_take_refresh_lock e && refresh_lock_held s); [iinv; apply Hid, nwf_refl|].
  destruct (is_corrupt e && reader_open s); [iinv; apply Hid, nwf_refl|].
  destruct e as [tid ob i|tid data|tid err|tid ob i|tid|ds|tid p i ch|tid slices|rg off len].
  - (* OPutStart *)
    destruct (thr_get (s_threads s) tid); [iinv; apply Hid, nwf_refl|].
    destruct (put_start w s ob i) as [[t|e] s1] eqn:E; apply put_start_nwf in E as [N Ht]; iinv.
    + apply Hset; [assumption|]. destruct Ht as [(wr & -> & Hw)| ->]; cbn; auto.
    + apply Hid; assumption.
  - (* OPutChunk *)
    destruct (thr_get (s_threads s) tid) as [[o i wr acc|o i acc| | |]|] eqn:Ht; try solve [iinv; apply Hid, nwf_refl].
    + destruct (wr_size wr <? _).
      * destruct (finalize (w_cfg w) s wr false) as [r s1] eqn:F. apply finalize_xfr in F.
        iinv. apply Hrm. eauto with nwf.
      * iinv. apply Hset; [auto with nwf|]. cbn.
        apply thr_get_in, Hi in Ht. cbn in Ht.
        rewrite (nw_hi _ _ (nwf_write_block s s (wr_uid wr) (wr_off wr + N.of_nat (length acc)) data (nwf_refl s))) in Ht || idtac.
        pose proof (nw_hi _ _ (nwf_write_block s s (wr_uid wr) (wr_off wr + N.of_nat (length acc)) data (nwf_refl s))). lia.
    + destruct (osize w o <? _); iinv; [apply Hrm, nwf_refl|apply Hset; [apply nwf_refl|exact I]].
  - (* OPutEnd *)
    destruct (thr_get (s_threads s) tid) as [[o i wr acc|o i acc| | |]|] eqn:Ht; try solve [iinv; apply Hid, nwf_refl].
    + destruct (finalize (w_cfg w) s wr _) as [[l|e] s1] eqn:F; pose proof (finalize_xfr _ _ _ _ _ _ F) as X; iinv.
      2:{ apply Hrm. eauto with nwf. }
      assert (nwf s s1) as N by eauto with nwf.
      split.
      * apply hinv_rm. intros tid' t Hin.
        rewrite (if_threads _ _ (index_put_all_ifr s1 (finalize_keys w o i) l)) in Hin.
        eapply thread_ok_ext; [| |eapply (hinv_nwf s s1 Hi N), Hin].
        -- rewrite index_put_all_index. eexists. reflexivity.
        -- unfold hiM. destruct (index_put_all_ifr s1 (finalize_keys w o i) l) as [_ _ _ -> -> _]. lia.
      * intros k [l' Hl']. cbn [thr_rm upd_threads s_index] in Hl'. rewrite index_put_all_index in Hl'.
        apply in_app_or in Hl' as [Hl'|Hl'].
        -- apply in_rev, in_map_iff in Hl' as (k' & Hk' & Hin). inv Hk'.
           unfold finalize_keys in Hin. rewrite Hh in Hin. destruct Hin as [<-|[<-|[]]]; [left; left; reflexivity|].
           right. exists o, i. split; [reflexivity|]. apply completed_spec.
           exists tid, err, []. rewrite Hstep0. eauto 10.
        -- left. apply (nw_keys _ _ N). exists l'. assumption.
    + destruct (negb (Z.eqb err 0)) eqn:Ee; [iinv; apply Hrm, nwf_refl|].
      destruct (negb (bytes_eqb acc (content w o))); [iinv; apply Hrm, nwf_refl|].
      destruct (index_get s (canonical_key o)) as [l|]; iinv; [|apply Hrm, nwf_refl].
      split.
      * apply hinv_rm. intros tid' t Hin. cbn in Hin.
        eapply thread_ok_ext; [| |eapply Hi, Hin]; [exists [((o, S i), l)]; reflexivity|unfold hiM; cbn; lia].
      * intros k [l' Hl']. cbn in Hl'. destruct Hl' as [Hl'|Hl'].
        -- inv Hl'. right. exists o, i. split; [reflexivity|]. apply completed_spec.
           exists tid, err, []. rewrite Hstep0. eauto 10.
        -- left. right. exists l'. assumption.
  - (* OGetOpen *)
    destruct (thr_get (s_threads s) tid); [iinv; apply Hid, nwf_refl|].
    destruct (get_open w s ob i) as [[t|e] s1] eqn:E; apply get_open_nwf in E as [N Ht]; iinv.
    + apply Hset; [assumption|]. destruct Ht as (uid & l & rf & fk & -> & Hfk). cbn.
      eapply Forall_impl; [|exact Hfk]. intros k. apply lookup_ok_ext, N.
    + apply Hid; assumption.
  - (* OGetConsume *)
    destruct (thr_get (s_threads s) tid) as [[| |o uid l refresh fk| |]|] eqn:Ht; try solve [iinv; apply Hid, nwf_refl].
    destruct (get_consume w s o uid l refresh fk) as [[code bytes] s1] eqn:E.
    apply get_consume_nwf in E; [|apply thr_get_in, Hi in Ht; exact Ht]. iinv. apply Hrm; assumption.
  - (* OFindMissing *)
    destruct (find_missing w s ds) as [[m|e] s1] eqn:E; apply fm_phase2_nwf in E; iinv; apply Hid; assumption.
  - (* OGfcStart *)
    destruct (thr_get (s_threads s) tid); [iinv; apply Hid, nwf_refl|].
    rewrite Hh.
    destruct (get_open w s p i) as [[t|e] s1] eqn:E; apply get_open_nwf in E as [N Ht].
    + destruct Ht as (uid & l & rf & fk & -> & Hfk). iinv. apply Hset; [assumption|]. cbn.
      eapply Forall_impl; [|exact Hfk]. intros k. apply lookup_ok_ext, N.
    + iinv. apply Hset; [assumption|]. cbn. apply Ht.
  - (* OGfcSlice *)
    destruct (thr_get (s_threads s) tid) as [[| |o uid l refresh fk|p i uid pl refresh pk|code]|] eqn:Ht;
      try solve [iinv; apply Hid, nwf_refl].
    + destruct (get_consume w s o uid l refresh fk) as [[code bytes] s1] eqn:E.
      apply get_consume_nwf in E; [|apply thr_get_in, Hi in Ht; exact Ht]. iinv. apply Hrm; assumption.
    + apply thr_get_in, Hi in Ht. destruct Ht.
    + iinv. apply Hrm, nwf_refl.
  - (* OCorrupt *)
    assert (forall d, nwf s (upd_dev s d)) as Hd.
    { intros d. constructor; unfold hiM; cbn; try reflexivity; try lia. exists []; reflexivity. intros k Hk; right; exact Hk. }
    dm; iinv; apply Hid; auto using nwf_refl.
Qed.
