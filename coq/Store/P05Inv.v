(** C05, part 7: the early-stamping bookkeeping never reports clause 1 on
    the model: the inductive invariant relating the monitor's bookkeeping to
    the model state. *)
From Coq Require Import List NArith ZArith Bool Arith Lia Relations.
From Coq Require Import ZifyN ZifyNat ZifyBool.
From BBS Require Import Common.Sx Store.Model Store.WfTids Run.RStore Run.R01 Run.R05.
From BBS Require Import Store.P05Cnt Store.P05Frame Store.P05Ops Store.P05Step Store.P05Surv Store.P05Mon.
Import ListNotations.
Open Scope nat_scope.

(** no negative integrity verdict before the first injected corruption
    (this is what C01's integrity invariant provides) *)
Fixpoint integ (w : world) (s : state) (es : list op) : Prop :=
  match es with
  | [] => True
  | e :: t => if is_corrupt e then True
              else s_negs (fst (step w s e)) = s_negs s /\ integ w (fst (step w s e)) t
  end.

Definition xs_of (w : world) (s : state) (es : list op) : list (op * (state * state * out)) :=
  combine es (run_states w s es).
Lemma xs_of_cons w s e t :
  xs_of w s (e :: t) = (e, (s, fst (step w s e), snd (step w s e))) :: xs_of w (fst (step w s e)) t.
Proof. unfold xs_of. cbn [run_states]. destruct (step w s e) as [s1 o]. reflexivity. Qed.

Section Inv.
Variable w : world.
Let c := w_cfg w.

Definition good (s : state) (oi : nat * nat) (P0 : nat) (T : N) : Prop :=
  placed w s (fst oi) (snd oi) T /\ (T < k_end (proj s))%N /\ surv c T P0 0 (proj s).

Definition MI1 (s : state) (g : g05) : Prop :=
  forall oi P0, In (oi, P0) (g_touched g) -> exists T, good s oi P0 T.
Definition MI2 (s : state) (g : g05) : Prop :=
  forall tid oi P0 o u l r f,
    assoc (g_gets g) tid = Some (oi, P0) ->
    thr_get (s_threads s) tid = Some (TGet o u l r f) ->
    match r with
    | None => exists T, good s oi P0 T
    | Some wr => (exists k, In k f /\ In k (lookup_keys w (fst oi) (snd oi))) /\
                 (wr_abs wr < k_end (proj s))%N /\ surv c (wr_abs wr) P0 0 (proj s)
    end.
Definition MI3 (seen : list nat) (g : g05) : Prop :=
  forall tid, assoc (g_gets g) tid <> None -> In tid seen.

Record Live (seen : list nat) (s : state) (g : g05) : Prop := {
  lv_negs : s_negs s = 0;
  lv_kinv : kinv c (proj s);
  lv_1 : MI1 s g; lv_2 : MI2 s g; lv_3 : MI3 seen g }.

Definition Inv (seen : list nat) (s : state) (g : g05) : Prop :=
  g_viol g = [] /\ (g_corrupt g = true \/ Live seen s g).

Lemma good_frame s s1 oi P0 T :
  creach c (proj s) (proj s1) -> incl (s_index s) (s_index s1) -> good s oi P0 T -> good s1 oi P0 T.
Proof.
  intros R I (A & B & C). split; [eapply placed_incl; eauto|]. split; [|eapply creach_surv; eauto].
  apply creach_mono in R. unfold kmono in R. lia.
Qed.

Lemma live_frame seen seen' s s1 g e :
  Live seen s g -> SF c e s s1 -> s_negs s1 = 0 ->
  (forall tid, start_tid e = Some tid -> ~ In tid seen) -> incl seen seen' ->
  Live seen' s1 g.
Proof.
  intros [L0 LK L1 L2 L3] (R & I & TF) N1 FR IS. constructor.
  - exact N1.
  - eapply creach_kinv; eauto.
  - intros oi P0 H. destruct (L1 oi P0 H) as [T G]. exists T. eapply good_frame; eauto.
  - intros tid oi P0 o u l r f HA HT.
    destruct (TF tid o u l r f HT) as [HT0|HS].
    + specialize (L2 tid oi P0 o u l r f HA HT0). destruct r as [wr|].
      * destruct L2 as (A & B & C). split; [exact A|]. split; [|eapply creach_surv; eauto].
        apply creach_mono in R. unfold kmono in R. lia.
      * destruct L2 as [T G]. exists T. eapply good_frame; eauto.
    + exfalso. apply (FR tid HS). apply L3. rewrite HA. discriminate.
  - intros tid H. apply IS, L3, H.
Qed.

(** ---- membership helpers ---- *)
Lemma existsb_eqb_in pos l : existsb (Nat.eqb pos) l = true <-> In pos l.
Proof.
  rewrite existsb_exists. split.
  - intros (x & H1 & H2). apply Nat.eqb_eq in H2. subst; exact H1.
  - intros H. exists pos. split; [exact H|apply Nat.eqb_refl].
Qed.
Lemma insert_nat_in x n l : In x (insert_nat n l) <-> x = n \/ In x l.
Proof.
  induction l as [|h t IH]; cbn; [intuition|].
  destruct (Nat.leb n h); cbn; [intuition|]. rewrite IH. intuition.
Qed.
Lemma sort_nat_in x l : In x (sort_nat l) <-> In x l.
Proof.
  unfold sort_nat. induction l as [|h t IH]; cbn; [tauto|]. rewrite insert_nat_in, IH. intuition.
Qed.

Lemma same_key_lookup a b : same_key w a b = true ->
  lookup_keys w (fst a) (snd a) = lookup_keys w (fst b) (snd b).
Proof.
  unfold same_key, lookup_keys, flat_key. destruct a as [o i], b as [o' i']; cbn [fst snd].
  intros H. apply andb_true_iff in H. destruct H as [H1 H2]. apply Nat.eqb_eq in H1; subst o'.
  destruct (c_hier (w_cfg w)); cbn [orb] in H2.
  - apply Nat.eqb_eq in H2; subst; reflexivity.
  - destruct (c_inst_keys (w_cfg w)); [apply Nat.eqb_eq in H2; subst|]; reflexivity.
Qed.

(** nothing touched recently can be missing *)
Lemma not_lost g sm oi pb :
  s_negs sm = 0 -> MI1 sm g -> s_pushbacks sm <= pb ->
  least_specific sm (lookup_keys w (fst oi) (snd oi)) = None ->
  g_lost w g oi pb = false.
Proof.
  intros N0 M1 LE LS. unfold g_lost.
  destruct (existsb (fun '(k, pb0) => same_key w k oi && Nat.leb (pb - pb0) (c_old (w_cfg w))) (g_touched g)) eqn:E;
    [|apply andb_false_r].
  exfalso. apply existsb_exists in E. destruct E as [[k P0] [HI HK]].
  apply andb_true_iff in HK. destruct HK as [SK LB]. apply Nat.leb_le in LB.
  destruct (M1 k P0 HI) as (T & PL & KE & SV).
  unfold placed in PL. rewrite (same_key_lookup _ _ SK) in PL.
  assert (TB : (k_tbr (proj sm) <= T)%N).
  { eapply surv_valid; [exact SV|exact N0|]. cbn. unfold c. lia. }
  eapply placed_found; [exact PL|exact TB|exact KE|exact LS].
Qed.

(** ---- the shape of the three relevant steps ---- *)
Lemma step_getopen s tid o i s1 mo :
  step w s (OGetOpen tid o i) = (s1, mo) ->
  (mo = Bad /\ s1 = s) \/
  (exists e, get_open w s o i = (Err e, s1) /\ mo = Done e []) \/
  (exists t s0, get_open w s o i = (Ok t, s0) /\ s1 = thr_set s0 tid t /\ mo = Parked).
Proof.
  unfold step. cbn [may_take_refresh_lock is_corrupt andb].
  destruct (thr_get (s_threads s) tid).
  - intros H; inversion H; auto.
  - destruct (get_open w s o i) as [[t|e] s0]; intros H; inversion H; subst.
    + right; right. exists t, s0. auto.
    + right; left. exists e. auto.
Qed.

Lemma step_getconsume s tid s1 mo :
  step w s (OGetConsume tid) = (s1, mo) ->
  (mo = Bad /\ s1 = s) \/
  (exists o u l r f code bytes s0, thr_get (s_threads s) tid = Some (TGet o u l r f) /\
      get_consume w s o u l r f = (code, bytes, s0) /\ s1 = thr_rm s0 tid /\ mo = Done code bytes).
Proof.
  unfold step. cbn [may_take_refresh_lock is_corrupt andb].
  destruct (thr_get (s_threads s) tid) as [[? ? ? ?|? ? ?|o u l r f|? ? ? ? ? ?|?]|];
    try (intros H; inversion H; auto; fail).
  destruct (get_consume w s o u l r f) as [[code bytes] s0] eqn:E.
  intros H; inversion H; subst. right. exists o, u, l, r, f, code, bytes, s0. auto.
Qed.

Lemma step_fm s ds s1 mo :
  step w s (OFindMissing ds) = (s1, mo) ->
  (mo = Bad /\ s1 = s) \/
  (exists e, find_missing w s ds = (Err e, s1) /\ mo = Missing e []) \/
  (exists m, find_missing w s ds = (Ok m, s1) /\ mo = Missing cOK (sort_nat m)).
Proof.
  unfold step. cbn [may_take_refresh_lock is_corrupt andb].
  destruct (refresh_lock_held s); [intros H; inversion H; auto|].
  destruct (find_missing w s ds) as [[m|e] s0]; intros H; inversion H; subst.
  - right; right. exists m. auto.
  - right; left. exists e. auto.
Qed.

(** ---- bookkeeping helpers ---- *)
Lemma assoc_unassoc {T} (l : list (nat * T)) tid tid' x :
  assoc (unassoc l tid) tid' = Some x -> assoc l tid' = Some x.
Proof.
  unfold unassoc. induction l as [|[t v] r IH]; cbn; [auto|].
  destruct (Nat.eqb t tid) eqn:E1; cbn.
  - intros H. specialize (IH H). destruct (Nat.eqb tid' t) eqn:E2; [|exact IH].
    apply Nat.eqb_eq in E1, E2. subst. 
    exfalso. clear IH. revert H. induction r as [|[t' v'] r' IH']; cbn; [discriminate|].
    destruct (Nat.eqb t' tid) eqn:E3; cbn; [exact IH'|].
    destruct (Nat.eqb tid t') eqn:E4; [|exact IH']. apply Nat.eqb_eq in E4. subst. rewrite Nat.eqb_refl in E3. discriminate.
  - destruct (Nat.eqb tid' t); [auto|exact IH].
Qed.

Lemma touch_all_spec missing stamp : forall numbered g,
  g_gets (g_touch_all missing stamp numbered g) = g_gets g /\
  g_corrupt (g_touch_all missing stamp numbered g) = g_corrupt g /\
  g_viol (g_touch_all missing stamp numbered g) = g_viol g /\
  (forall x, In x (g_touched (g_touch_all missing stamp numbered g)) ->
     In x (g_touched g) \/
     exists pos oi, x = (oi, stamp) /\ In (pos, oi) numbered /\ existsb (Nat.eqb pos) missing = false).
Proof.
  unfold g_touch_all. induction numbered as [|[pos oi] t IH]; intros g; cbn [fold_left].
  - repeat split; auto.
  - destruct (existsb (Nat.eqb pos) missing) eqn:E.
    + destruct (IH g) as (A & B & C & D). repeat split; auto.
      intros x Hx. destruct (D x Hx) as [X|(p & o & X1 & X2 & X3)]; [auto|].
      right. exists p, o. split; [auto|]. split; [right; auto|auto].
    + destruct (IH (g_touch g oi stamp)) as (A & B & C & D). repeat split; auto.
      intros x Hx. destruct (D x Hx) as [[X|X]|(p & o & X1 & X2 & X3)].
      * right. exists pos, oi. split; [auto|]. split; [left; reflexivity|auto].
      * auto.
      * right. exists p, o. split; [auto|]. split; [right; auto|auto].
Qed.

(** once a corruption was injected the bookkeeping is switched off *)
Lemma dead_step late g x :
  g_corrupt g = true -> g_viol g = [] ->
  g_corrupt (g05_step late w g x) = true /\ g_viol (g05_step late w g x) = [].
Proof.
  intros C V. destruct x as [e [[s0 s1] mo]]. unfold g05_step.
  assert (L : forall oi pb, g_lost w g oi pb = false) by (intros; unfold g_lost; rewrite C; reflexivity).
  destruct e; auto.
  - destruct mo; cbn; rewrite ?L, ?andb_false_r; auto.
  - destruct (assoc (g_gets g) tid) as [[oi p0]|]; [|auto]. destruct (out_ok mo); cbn; auto.
  - destruct mo; auto. destruct (Z.eqb code 0); [|auto].
    cbv zeta.
    replace (existsb (fun '(pos, oi) => existsb (Nat.eqb pos) ds0 && g_lost w g oi (s_pushbacks s1)) (enumerate 0 ds)) with false.
    + match goal with |- context [g_touch_all ?a ?b ?d g] => destruct (touch_all_spec a b d g) as (_ & B & D & _) end.
      rewrite B, D. auto.
    + symmetry. apply not_true_is_false. intros E. apply existsb_exists in E. destruct E as [[pos oi] [_ E]].
      rewrite L, andb_false_r in E. discriminate.
Qed.
End Inv.
