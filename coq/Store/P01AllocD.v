(** C01 proofs, allocator path, part D: the allocation inside the chosen
    block (cursor and use count of one listed block advance; a new writer
    claim is added). *)
From Coq Require Import List NArith ZArith Bool Arith Lia Permutation ZifyN ZifyNat ZifyBool.
From BBS Require Import Store.Model Store.Wf Store.P01Inv Store.P01AllocA.
Import ListNotations.
Open Scope N_scope.

Lemma map_uid_length f uid l : length (map_uid f uid l) = length l.
Proof.
  induction l as [|a l IH]; cbn [map_uid]; [reflexivity|].
  destruct (Nat.eqb (b_uid a) uid); cbn [length]; [reflexivity|]. rewrite IH. reflexivity.
Qed.

Lemma map_uid_map f uid l :
  NoDup (map b_uid l) ->
  map_uid f uid l = map (fun x => if Nat.eqb (b_uid x) uid then f x else x) l.
Proof.
  induction l as [|a l IH]; intros ND; [reflexivity|].
  cbn [map] in ND. inversion ND as [|u v Hn ND']; subst.
  cbn [map_uid map]. destruct (Nat.eqb (b_uid a) uid) eqn:E.
  - f_equal. rewrite <- (map_id l) at 1. apply map_ext_in. intros x Hx.
    destruct (Nat.eqb (b_uid x) uid) eqn:E2; [|reflexivity].
    exfalso. apply Nat.eqb_eq in E. apply Nat.eqb_eq in E2.
    apply Hn. rewrite E, <- E2. apply in_map. exact Hx.
  - f_equal. apply IH. exact ND'.
Qed.

Lemma slice_zero bytes off : slice bytes off 0 = [].
Proof. destruct bytes; reflexivity. Qed.

Lemma put_core w cl s idx b size :
  let f := fun x => set_use (set_cursor x (b_cursor x + size)) (S (b_use x)) in
  let wr := {| wr_uid := b_uid b; wr_abs := s_released s + N.of_nat idx;
               wr_off := b_cursor b; wr_size := size |} in
  DInv9 w cl s -> nth_error (s_blocks s) idx = Some b -> b_cursor b + size <= c_bs (w_cfg w) ->
  DInv9 w (CW wr [] :: cl) (upd_blocks s (map_uid f (b_uid b) (s_blocks s)) (s_zombies s)).
Proof.
  intros f wr [A U C] Hn Hsz.
  set (g := fun x => if Nat.eqb (b_uid x) (b_uid b) then f x else x).
  set (s' := upd_blocks s (map_uid f (b_uid b) (s_blocks s)) (s_zombies s)).
  pose proof (n_uid_nd _ _ A) as ND.
  pose proof ND as ND2. unfold live in ND2. rewrite map_app in ND2.
  pose proof (NoDup_app_l _ _ ND2) as NDb.
  assert (Hbin : In b (s_blocks s)) by (eapply nth_error_In; exact Hn).
  assert (Hbl : In b (live s)) by (unfold live; apply in_or_app; left; exact Hbin).
  assert (Hb' : s_blocks s' = map g (s_blocks s)) by (apply map_uid_map; exact NDb).
  assert (Hz : s_zombies s' = s_zombies s) by reflexivity.
  assert (Hf : s_free s' = s_free s) by reflexivity.
  assert (Hnr : s_next_region s' = s_next_region s) by reflexivity.
  assert (Hnu : s_next_uid s' = s_next_uid s) by reflexivity.
  assert (Hd : s_dev s' = s_dev s) by reflexivity.
  assert (Hr : s_released s' = s_released s) by reflexivity.
  assert (Ht : s_tbr s' = s_tbr s) by reflexivity.
  assert (Hi : s_index s' = s_index s) by reflexivity.
  clearbody s'.
  assert (Hzn : forall z, In z (s_zombies s) -> Nat.eqb (b_uid z) (b_uid b) = false).
  { intros z Hzin. apply Nat.eqb_neq. intros E.
    apply (NoDup_app_disj _ _ (b_uid b) ND2); [apply in_map; exact Hbin|].
    rewrite <- E. apply in_map. exact Hzin. }
  assert (Hzg : map g (s_zombies s) = s_zombies s).
  { rewrite <- (map_id (s_zombies s)) at 2. apply map_ext_in. intros z Hzin.
    unfold g. rewrite (Hzn z Hzin). reflexivity. }
  assert (L1 : live s' = map g (live s)).
  { unfold live. rewrite Hb', Hz, map_app, Hzg. reflexivity. }
  assert (Gu : forall x, b_uid (g x) = b_uid x).
  { intros x. unfold g, f. destruct (Nat.eqb (b_uid x) (b_uid b)); reflexivity. }
  assert (Gr : forall x, b_region (g x) = b_region x).
  { intros x. unfold g, f. destruct (Nat.eqb (b_uid x) (b_uid b)); reflexivity. }
  assert (Gc : forall x, b_cursor x <= b_cursor (g x)).
  { intros x. unfold g, f. destruct (Nat.eqb (b_uid x) (b_uid b));
      cbn [set_use set_cursor b_cursor]; lia. }
  assert (Gb : forall x, In x (live s) -> b_uid x = b_uid b -> x = b).
  { intros x Hx E. apply (NoDup_map_inj b_uid (live s)); assumption. }
  assert (Egb : g b = f b) by (unfold g; rewrite Nat.eqb_refl; reflexivity).
  assert (E0 : abs_end s' = abs_end s).
  { unfold abs_end. rewrite Hb', Hr, map_length. reflexivity. }
  assert (Lin : forall x, In x (live s') -> exists y, In y (live s) /\ x = g y).
  { intros x Hx. rewrite L1 in Hx. apply in_map_iff in Hx. destruct Hx as (y & e & Hy).
    exists y. auto. }
  assert (A' : AInv9 (w_cfg w) s').
  { constructor.
    - rewrite E0, Hr, Ht. apply (n_rel _ _ A).
    - rewrite L1, map_map, (map_ext _ b_uid Gu). exact ND.
    - intros x Hx. destruct (Lin x Hx) as (y & Hy & ->). rewrite Gu, Hnu. apply (n_uid_lt _ _ A y Hy).
    - rewrite L1, map_map, (map_ext _ b_region Gr), Hf. apply (n_reg_nd _ _ A).
    - intros Him x Hx. destruct (Lin x Hx) as (y & Hy & ->). rewrite Gr, Hnr.
      apply (n_reg_lt _ _ A Him y Hy).
    - intros Him. rewrite Hf. apply (n_free_im _ _ A Him).
    - intros x Hx. destruct (Lin x Hx) as (y & Hy & ->). unfold g.
      destruct (Nat.eqb (b_uid y) (b_uid b)) eqn:E.
      + apply Nat.eqb_eq in E. rewrite (Gb y Hy E). unfold f.
        cbn [set_use set_cursor b_cursor]. exact Hsz.
      + apply (n_cur _ _ A y Hy).
    - intros x Hx. destruct (Lin x Hx) as (y & Hy & ->). rewrite Gr, Hd.
      apply (n_dev_live _ _ A y Hy).
    - intros r Hin. rewrite Hd. rewrite Hf in Hin. apply (n_dev_free _ _ A r Hin).
    - intros k l Hin. rewrite E0. rewrite Hi in Hin. apply (n_idx _ _ A k l Hin). }
  assert (U' : UInv (CW wr [] :: cl) s').
  { constructor.
    - intros x Hx. rewrite Hb' in Hx. apply in_map_iff in Hx. destruct Hx as (y & <- & Hy).
      rewrite nrefs_cons, Gu. cbn [cref wr wr_uid]. rewrite Nat.eqb_sym. unfold g.
      pose proof (u_blocks _ _ U y Hy).
      destruct (Nat.eqb (b_uid y) (b_uid b)); unfold f; cbn [set_use b_use]; lia.
    - intros z Hzin. rewrite Hz in Hzin. rewrite nrefs_cons. cbn [cref wr wr_uid].
      rewrite Nat.eqb_sym, (Hzn z Hzin). apply (u_zombies _ _ U z Hzin). }
  assert (M : Mono cl s s').
  { constructor.
    - exact Hi.
    - lia.
    - lia.
    - lia.
    - lia.
    - intros abs H1 H2. unfold uid_at. rewrite Hr, Hb', nth_error_map.
      destruct (abs <? s_released s); [reflexivity|].
      destruct (nth_error (s_blocks s) (N.to_nat (abs - s_released s))); cbn [option_map];
        rewrite ?Gu; reflexivity.
    - intros x Hx _. destruct (Lin x Hx) as (y & Hy & ->). exists y.
      rewrite Gu, Gr. repeat split; auto.
    - intros y _. rewrite Hd. reflexivity.
    - intros y Hy _. exists (g y). split; [rewrite L1; apply in_map; exact Hy|]. auto.
    - intros y n Hny _. exists (g y). split; [|auto]. rewrite L1. apply in_map.
      unfold live. apply in_or_app. left. eapply nth_error_In. exact Hny. }
  pose proof (CInv_mono w cl s s' A A' M C) as C1.
  assert (Bb : binfo s (b_uid b) = Some (b_cursor b, b_region b)) by (apply binfo_in; assumption).
  assert (Bb' : binfo s' (b_uid b) = Some (b_cursor b + size, b_region b)).
  { pose proof (binfo_in s' (g b) (n_uid_nd _ _ A')) as H. rewrite Gu, Gr in H.
    rewrite H; [|rewrite L1; apply in_map; exact Hbl].
    rewrite Egb. reflexivity. }
  assert (Hlv : forall l, loc_valid s' l = loc_valid s l).
  { intros l. unfold loc_valid. rewrite Ht, Hr, Hb', map_length. reflexivity. }
  constructor; [exact A'|exact U'|]. constructor.
  - intros c0 [<-|Hin]; [|apply (c_claims _ _ _ C1 c0 Hin)].
    cbn [claim_ok]. exists (b_cursor b + size), (b_region b).
    split; [exact Bb'|]. cbn [wr wr_uid wr_abs wr_off wr_size length].
    split; [lia|]. split; [lia|]. split; [apply slice_zero|].
    pose proof (nth_error_lt _ _ _ Hn) as Hlt.
    split; [unfold abs_end; rewrite Hr, Hb', map_length; lia|].
    intros _. rewrite <- Hr, <- (Gu b). apply uid_at_nth.
    rewrite Hb', nth_error_map, Hn. reflexivity.
  - apply (c_idx _ _ _ C1).
  - cbn [pairwise]. split; [|apply (c_sep _ _ _ C)].
    intros y Hy _ Huid. right.
    pose proof (c_claims _ _ _ C y Hy) as Hok.
    cbn [c_uid c_off c_size wr wr_uid wr_off wr_size] in *.
    destruct y as [wr0 acc|u l o|wr0 o]; cbn [claim_ok c_uid c_off c_size] in *.
    + destruct Hok as (cur & reg & Hbi & Hle & _). rewrite <- Huid, Bb in Hbi.
      inversion Hbi; subst. exact Hle.
    + destruct Hok as (cur & reg & Hbi & Hle & _). rewrite <- Huid, Bb in Hbi.
      inversion Hbi; subst. exact Hle.
    + destruct Hok as (_ & _ & H2 & _). apply (H2 (b_cursor b) (b_region b)).
      rewrite <- Huid. exact Bb.
  - intros wr0 acc k l [Heq|Hin] Hix Hv Hu; [|apply (c_sep_idx _ _ _ C1 wr0 acc k l Hin Hix Hv Hu)].
    inversion Heq; subst wr0 acc. cbn [wr wr_uid wr_off wr_size] in *. right.
    rewrite Hi in Hix. rewrite Hlv in Hv.
    pose proof (n_idx _ _ A k l Hix) as Hlt. destruct (n_rel _ _ A) as [R1 R2].
    assert (Hu0 : uid_at s (l_abs l) = Some (b_uid b)).
    { rewrite <- Hu. symmetry. apply (m_uid_at _ _ _ M); [|exact Hlt].
      unfold loc_valid in Hv. lia. }
    destruct (c_idx _ _ _ C k l Hix Hv) as (uid & cur & reg & Hu1 & Hbi & Hle & _).
    rewrite Hu0 in Hu1. inversion Hu1; subst uid. rewrite Bb in Hbi. inversion Hbi; subst.
    exact Hle.
Qed.
