(** C05, part 9: where a touch places the object (statements in terms of
    [index_get]) and the model-integrity hypothesis in prefix form. *)
From Coq Require Import List NArith ZArith Bool Arith Lia Relations.
From Coq Require Import ZifyN ZifyNat ZifyBool.
From BBS Require Import Common.Sx Store.Model Store.Wf Store.WfTids Run.RStore Run.R01 Run.R05.
From BBS Require Import Store.P05Cnt Store.P05Frame Store.P05Ops Store.P05Step Store.P05Surv Store.P05Mon Store.P05Inv Store.P05Main.
Import ListNotations.
Open Scope N_scope.

(** [newest] returns a maximal candidate *)
Definition loc_le (a b : loc) : Prop := l_abs a < l_abs b \/ (l_abs a = l_abs b /\ l_off a <= l_off b).
Lemma loc_older_spec a b : loc_older a b = true <-> (l_abs a < l_abs b \/ (l_abs a = l_abs b /\ l_off a < l_off b)).
Proof. unfold loc_older. rewrite orb_true_iff, andb_true_iff, !N.ltb_lt, N.eqb_eq. tauto. Qed.

Lemma newest_max cands : forall best r, newest cands best = Some r ->
  (forall x, In x cands -> loc_le x r) /\ (forall b, best = Some b -> loc_le b r).
Proof.
  induction cands as [|x t IH]; intros best r H; cbn in H.
  - split; [intros ? []|]. intros b E. rewrite E in H. inversion H; subst. unfold loc_le; lia.
  - apply IH in H. destruct H as [H1 H2]. destruct best as [b|].
    + destruct (loc_older b x) eqn:E.
      * specialize (H2 x eq_refl). apply loc_older_spec in E. split.
        -- intros y [Ey|Hy]; [subst y; exact H2|auto].
        -- intros b' Eb; inversion Eb; subst. unfold loc_le in *. lia.
      * specialize (H2 b eq_refl). split.
        -- intros y [Ey|Hy]; [rewrite <- Ey|auto].
           assert (N : ~ (l_abs b < l_abs x \/ (l_abs b = l_abs x /\ l_off b < l_off x))).
           { rewrite <- loc_older_spec. congruence. }
           unfold loc_le in *. lia.
        -- intros b' Eb; inversion Eb; subst. exact H2.
    + specialize (H2 x eq_refl). split; [|intros; discriminate].
      intros y [Ey|Hy]; [subst y; exact H2|auto].
Qed.

Lemma index_get_newest s k l :
  In (k, l) (s_index s) -> loc_valid s l = true ->
  exists l', index_get s k = Some l' /\ l_abs l <= l_abs l' /\ loc_valid s l' = true.
Proof.
  intros HI V. destruct (index_get s k) as [l'|] eqn:E; [|exfalso; eapply index_get_some; eauto].
  exists l'. split; [reflexivity|]. pose proof E as E'. apply index_get_in in E'. destruct E' as [_ V'].
  split; [|exact V'].
  unfold index_get in E. apply newest_max in E. destruct E as [E _].
  assert (X : loc_le l l').
  { apply E. apply in_map_iff. exists (k, l). split; [reflexivity|]. apply filter_In. split; [exact HI|]. cbn.
    rewrite V, (proj2 (key_eqb_eq k k) eq_refl). reflexivity. }
  unfold loc_le in X. lia.
Qed.

(** "the object is found under one of its lookup keys at a location that is
    not old" *)
Definition found_fresh (w : world) (s : state) (o i : nat) : Prop :=
  exists k l, In k (lookup_keys w o i) /\ index_get s k = Some l /\ needs_refresh s l = false.

Lemma placed_fresh_found w s o i T : placed w s o i T -> kfresh (proj s) T -> found_fresh w s o i.
Proof.
  intros (k & l & A & B & C) (F1 & F2 & F3). unfold k_end in F3. cbn in F1, F2, F3. subst T.
  assert (V : loc_valid s l = true) by (unfold loc_valid; lia).
  destruct (index_get_newest s k l B V) as (l' & G & LE & V').
  exists k, l'. split; [exact A|]. split; [exact G|]. unfold needs_refresh. lia.
Qed.

(** Get: when the reader is opened, the object either already is at a
    location that is not old (found directly, synchronised from the
    canonical entry, or copied at once), or a copy into a new block has been
    started whose completion - at consumption - will enter it under a lookup
    key. *)
Theorem get_open_places_object w s tid o i s1 :
  kinv (w_cfg w) (proj s) ->
  step w s (OGetOpen tid o i) = (s1, Parked) ->
  exists u l r f, thr_get (s_threads s1) tid = Some (TGet o u l r f) /\
    match r with
    | None => found_fresh w s1 o i
    | Some wr => (exists k, In k f /\ In k (lookup_keys w o i)) /\
                 s_released s1 + N.of_nat (s_old s1) <= wr_abs wr /\
                 wr_abs wr < s_released s1 + N.of_nat (length (s_blocks s1))
    end.
Proof.
  intros K ES. destruct (step_getopen w s tid o i s1 Parked ES) as [[X _]|[(e & _ & X)|(t & s0 & GO & -> & _)]];
    try discriminate.
  apply get_open_spec in GO; [|exact K]. destruct GO as (_ & _ & HP).
  destruct (HP t eq_refl) as (u & l & r & f & -> & HP').
  exists u, l, r, f. split; [rewrite thr_get_set, Nat.eqb_refl; reflexivity|].
  destruct r as [wr|].
  - exact HP'.
  - destruct HP' as (T & PL & KF). 
    assert (FF : found_fresh w s0 o i) by (eapply placed_fresh_found; eauto).
    exact FF.
Qed.

(** Get: a reader without a pending copy leaves the index alone; with a
    pending copy a successful consumption enters the copy under the lookup
    key. *)
Theorem get_consume_completes_copy w s tid o u l wr f s1 bytes :
  thr_get (s_threads s) tid = Some (TGet o u l (Some wr) f) ->
  wr_abs wr < s_released s + N.of_nat (length (s_blocks s)) ->
  step w s (OGetConsume tid) = (s1, Done cOK bytes) ->
  forall k, In k f -> exists l', index_get s1 k = Some l' /\ wr_abs wr <= l_abs l'.
Proof.
  intros HT HB ES k Hk.
  destruct (step_getconsume w s tid s1 _ ES) as [[X _]|(o' & u' & l' & r' & f' & code & bs & s0 & HT' & GC & -> & X)];
    [discriminate|].
  rewrite HT in HT'. inversion HT'; subst o' u' l' r' f'. inversion X; subst code bs.
  apply get_consume_spec in GC. destruct GC as ((R & _) & HR).
  destruct (HR eq_refl wr eq_refl) as (nl & A1 & A2 & A3).
  assert (V : loc_valid s0 nl = true).
  { unfold loc_valid. rewrite A1.
    pose proof (creach_mono _ _ _ R) as M. unfold kmono, k_end in M. cbn in M. lia. }
  destruct (index_get_newest s0 k nl (A3 k Hk) V) as (l2 & G & LE & _).
  exists l2. split; [exact G|lia].
Qed.

(** FindMissing with one digest: reported present = found at a location
    that is not old when the call returns. *)
Theorem find_missing_single_places_object w s o i s1 :
  kinv (w_cfg w) (proj s) ->
  step w s (OFindMissing [(o, i)]) = (s1, Missing cOK []) ->
  found_fresh w s1 o i.
Proof.
  intros K ES. destruct (step_fm w s _ s1 _ ES) as [[X _]|[(e & FE & X)|(m & FM & X)]]; [discriminate| |].
  - inversion X; subst. apply find_missing_err in FE; [|exact K]. contradiction.
  - inversion X as [X']. assert (m = []).
    { destruct m as [|p m']; [reflexivity|]. exfalso.
      assert (In p (sort_nat (p :: m'))) by (apply sort_nat_in; left; reflexivity).
      rewrite <- X' in H. destruct H. }
    subst m. apply find_missing_spec in FM; [|exact K]. destruct FM as (_ & _ & HP).
    destruct (HP 0%nat o i (or_introl eq_refl) (fun F => F)) as (sm & _ & _ & (T & PL & KF) & X4).
    rewrite <- (X4 (le_n 1)). eapply placed_fresh_found; eauto.
Qed.

(** FindMissing with several digests: every digest reported present was
    found at a location that was not old at SOME moment during the call
    (possibly before later refreshes of the same call rotated blocks). *)
Theorem find_missing_multi_places_object w s ds m s1 :
  kinv (w_cfg w) (proj s) ->
  step w s (OFindMissing ds) = (s1, Missing cOK m) ->
  forall pos o i, nth_error ds pos = Some (o, i) -> ~ In pos m ->
    exists sm, found_fresh w sm o i /\ (s_pushbacks s <= s_pushbacks sm)%nat /\
               (s_pushbacks sm <= s_pushbacks s1)%nat /\ incl (s_index sm) (s_index s1).
Proof.
  intros K ES pos o i HN NM.
  destruct (step_fm w s _ s1 _ ES) as [[X _]|[(e & FE & X)|(m0 & FM & X)]]; [discriminate| |].
  - inversion X; subst. apply find_missing_err in FE; [|exact K]. contradiction.
  - inversion X; subst m. apply find_missing_spec in FM; [|exact K]. destruct FM as (_ & _ & HP).
    assert (HI : In (pos, (o, i)) (enumerate 0 ds)).
    { clear - HN. replace pos with (0 + pos)%nat by lia. generalize 0%nat. revert pos HN.
      induction ds as [|d t IH]; intros pos HN n; [destruct pos; discriminate|].
      destruct pos; cbn in *.
      - inversion HN; subst. left. f_equal. lia.
      - right. replace (n + S pos)%nat with (S n + pos)%nat by lia. apply IH. exact HN. }
    assert (NM0 : ~ In pos m0) by (intros F; apply NM, sort_nat_in, F).
    destruct (HP pos o i HI NM0) as (sm & (R1 & _) & (R2 & I2 & _) & (T & PL & KF) & _).
    exists sm. split; [eapply placed_fresh_found; eauto|].
    pose proof (creach_mono _ _ _ R1) as M1. pose proof (creach_mono _ _ _ R2) as M2.
    unfold kmono in M1, M2. cbn in M1, M2. split; [lia|]. split; [lia|exact I2].
Qed.

(** ---- the integrity hypothesis in prefix form ---- *)
Definition model_integrity (w : world) (es : list op) : Prop :=
  forall es1 es2, es = es1 ++ es2 -> existsb is_corrupt es1 = false ->
    s_negs (fst (run w (init_state (w_cfg w)) es1)) = O.

Lemma integ_of_prefixes w : forall es s,
  (forall es1 es2, es = es1 ++ es2 -> existsb is_corrupt es1 = false -> s_negs (fst (run w s es1)) = s_negs s) ->
  integ w s es.
Proof.
  induction es as [|e t IH]; intros s H; cbn [integ]; [exact I|].
  destruct (is_corrupt e) eqn:IC; [exact I|]. split.
  - specialize (H [e] t eq_refl). cbn [existsb] in H. rewrite IC in H. specialize (H eq_refl).
    rewrite run_cons in H. exact H.
  - assert (E1 : s_negs (fst (step w s e)) = s_negs s).
    { specialize (H [e] t eq_refl). cbn [existsb] in H. rewrite IC in H. specialize (H eq_refl).
      rewrite run_cons in H. exact H. }
    apply IH. intros es1 es2 E NC. rewrite E1.
    specialize (H (e :: es1) es2). rewrite run_cons in H. apply H.
    + rewrite E. reflexivity.
    + cbn [existsb]. rewrite IC. exact NC.
Qed.

Lemma integ_of_model_integrity w es : model_integrity w es -> integ w (init_state (w_cfg w)) es.
Proof. intros H. apply integ_of_prefixes. intros es1 es2 E NC. rewrite (H es1 es2 E NC). reflexivity. Qed.

(** bridge to C01: its theorem "a corruption-free well-formed schedule ends
    with s_negs = 0" gives [model_integrity] for every well-formed schedule,
    because well-formedness is closed under prefixes *)
Lemma wf_tids_from_prefix : forall es1 es2 seen,
  wf_tids_from seen (es1 ++ es2) = true -> wf_tids_from seen es1 = true.
Proof.
  induction es1 as [|e t IH]; intros es2 seen H; [reflexivity|].
  cbn [app wf_tids_from] in *. destruct (start_tid e).
  - apply andb_true_iff in H. destruct H as [H1 H2]. rewrite H1. cbn. eapply IH; eauto.
  - eapply IH; eauto.
Qed.

Lemma wf_ops_prefix w : forall es1 es2 pending,
  Wf.wf_ops w pending (es1 ++ es2) = true -> Wf.wf_ops w pending es1 = true.
Proof.
  induction es1 as [|e t IH]; intros es2 pending H; [reflexivity|].
  cbn [app] in H. destruct e; cbn [Wf.wf_ops] in *;
    try (eapply IH; eauto; fail);
    try (apply andb_true_iff in H; destruct H as [H1 H2]; rewrite H1; cbn [andb]; eapply IH; eauto).
Qed.

Definition C01_integrity_statement (w : world) : Prop :=
  forall es, Wf.wf_ops w [] es = true -> wf_tids es = true ->
             forallb (fun e => negb (is_corrupt e)) es = true ->
             s_negs (fst (run w (init_state (w_cfg w)) es)) = O.

Lemma model_integrity_from_C01 w es :
  C01_integrity_statement w -> Wf.wf_ops w [] es = true -> wf_tids es = true -> model_integrity w es.
Proof.
  intros HC WO WT es1 es2 E NC. subst es. apply HC.
  - eapply wf_ops_prefix; eauto.
  - unfold wf_tids in *. eapply wf_tids_from_prefix; eauto.
  - clear - NC. induction es1 as [|e t IH]; [reflexivity|]. cbn in *.
    apply orb_false_iff in NC. destruct NC as [N1 N2]. rewrite N1. cbn. auto.
Qed.
