(** C05, part 6: the C05 monitor on the model's own observations.

    [mon05_model] is what [mon05 inp (run_store inp)] reduces to.  [g05_step]
    is the retention bookkeeping stated on model outputs, parametrised by the
    moment at which a touch is stamped with the push-back count:
    - late = false (clause 1 of R05): when the object was actually placed
      (Get: when the reader was obtained; multi-digest FindMissing: when the
      call started; single-digest FindMissing: at return);
    - late = true (clauses 5/6 of R05): Get: when the reader is consumed;
      FindMissing: when the call returns. *)
From Coq Require Import List NArith ZArith Bool Arith Lia.
From BBS Require Import Common.Sx Store.Model Store.WfTids Run.RStore Run.R01 Run.R05.
Import ListNotations.
Open Scope Z_scope.

Definition m05m_step (w : world) (m : m05) (x : op * (state * state * out)) : m05 :=
  let '(e, (s0, s1, mo)) := x in m05_step w m (e, (s0, s1, mo), enc_obs (w_cfg w) e s0 s1 mo).

Definition run_x (w : world) (es : list op) : list (op * (state * state * out)) :=
  combine es (run_states w (init_state (w_cfg w)) es).

Definition mon05_model (w : world) (es : list op) : list Z :=
  dedupZ (t_viol (fold_left (m05m_step w) (run_x w es) m05_init)).

Lemma fold_left_combine_map {A B C} (g : A -> B * C -> A) (f : B -> C) : forall l a,
  fold_left g (combine l (map f l)) a = fold_left (fun a x => g a (x, f x)) l a.
Proof. induction l as [|x t IH]; intros a; cbn; auto. Qed.
Lemma fold_left_ext {A B} (g1 g2 : A -> B -> A) : (forall a x, g1 a x = g2 a x) ->
  forall l a, fold_left g1 l a = fold_left g2 l a.
Proof. intros H; induction l as [|x t IH]; intros a; cbn; [auto|]. rewrite H. apply IH. Qed.

Theorem mon05_on_model inp : mon05 inp (run_store inp) = mon05_model (dec_world inp) (dec_ops inp).
Proof.
  unfold mon05, run_store, mon05_model, run_x. cbn [sx_list]. f_equal. f_equal.
  rewrite fold_left_combine_map. apply fold_left_ext.
  intros a [e [[s0 s1] mo]]. reflexivity.
Qed.

(** ---- the generalised bookkeeping ---- *)
Record g05 := {
  g_gets : list (nat * ((nat * nat) * nat));   (* tid -> (obj, inst), push-backs after the open *)
  g_touched : list ((nat * nat) * nat);
  g_corrupt : bool;
  g_viol : list Z }.

Definition g05_init : g05 := {| g_gets := []; g_touched := []; g_corrupt := false; g_viol := [] |}.

Definition g_lost (w : world) (g : g05) (oi : nat * nat) (pb : nat) : bool :=
  negb (g_corrupt g) &&
  existsb (fun '(k, pb0) => same_key w k oi && Nat.leb (pb - pb0) (c_old (w_cfg w))) (g_touched g).
Definition g_touch (g : g05) (oi : nat * nat) (pb : nat) : g05 :=
  {| g_gets := g_gets g; g_touched := (oi, pb) :: g_touched g; g_corrupt := g_corrupt g; g_viol := g_viol g |}.
Definition g_addviol (g : g05) (v : list Z) : g05 :=
  {| g_gets := g_gets g; g_touched := g_touched g; g_corrupt := g_corrupt g; g_viol := g_viol g ++ v |}.
Definition g_setgets (g : g05) (l : list (nat * ((nat * nat) * nat))) : g05 :=
  {| g_gets := l; g_touched := g_touched g; g_corrupt := g_corrupt g; g_viol := g_viol g |}.

Definition out_ok (mo : out) : bool := match mo with Done code _ => Z.eqb code 0 | _ => false end.
Definition out_code (mo : out) : Z := match mo with Done c _ => c | Missing c _ => c | _ => 0 end.

Definition g_touch_all (missing : list nat) (stamp : nat) (numbered : list (nat * (nat * nat))) (g : g05) : g05 :=
  fold_left (fun acc '(pos, oi) => if existsb (Nat.eqb pos) missing then acc else g_touch acc oi stamp) numbered g.

Definition g05_step (late : bool) (w : world) (g : g05) (x : op * (state * state * out)) : g05 :=
  let '(e, (s0, s1, mo)) := x in
  let pb := s_pushbacks s1 in
  match e with
  | OGetOpen tid ob i =>
      match mo with
      | Parked => g_setgets g ((tid, ((ob, i), pb)) :: g_gets g)
      | _ => if Z.eqb (out_code mo) cNotFound && g_lost w g (ob, i) pb then g_addviol g [1] else g
      end
  | OGetConsume tid =>
      match assoc (g_gets g) tid with
      | Some (oi, p0) =>
          let g1 := g_setgets g (unassoc (g_gets g) tid) in
          if out_ok mo then g_touch g1 oi (if late then pb else p0) else g1
      | None => g
      end
  | OFindMissing ds =>
      match mo with
      | Missing code missing =>
          if Z.eqb code 0 then
            let numbered := enumerate 0 ds in
            let lost := existsb (fun '(pos, oi) => existsb (Nat.eqb pos) missing && g_lost w g oi pb) numbered in
            let g1 := if lost then g_addviol g [1] else g in
            let stamp := if late || Nat.leb (length ds) 1 then pb else s_pushbacks s0 in
            g_touch_all missing stamp numbered g1
          else g
      | _ => g
      end
  | OCorrupt _ _ _ =>
      {| g_gets := g_gets g; g_touched := g_touched g; g_corrupt := true; g_viol := g_viol g |}
  | _ => g
  end.

(** clause 1 of the R05 monitor on model observations IS the early-stamping
    bookkeeping; clauses 2-4 are never reported on model observations *)
Definition V (m : m05) (g : g05) : Prop :=
  forall z, In z (t_viol m) -> (z = 1 /\ In 1 (g_viol g)) \/ z = 5 \/ z = 6.
Definition R (m : m05) (g : g05) : Prop :=
  t_gets m = g_gets g /\ t_touched m = g_touched g /\ t_corrupt m = g_corrupt g /\ V m g.

Lemma sx_nats_of_nats l : sx_nats (of_nats l) = l.
Proof.
  unfold sx_nats, of_nats. cbn [sx_list]. rewrite map_map.
  induction l as [|x t IH]; cbn; [reflexivity|]. rewrite IH. unfold sx_nat. cbn. rewrite Nat2Z.id. reflexivity.
Qed.

Lemma lost_R w m g oi pb : R m g -> g_lost w g oi pb = negb (t_corrupt m) && recent w (t_touched m) oi pb.
Proof. intros (_ & B & C & _). unfold g_lost, recent. rewrite B, C. reflexivity. Qed.

(** a loss clause is 1 (and then the early bookkeeping reports it too), 5 or 6 *)
Lemma loss_R w m g oi pb z : R m g -> In z (loss_clauses w m oi pb) ->
  (z = 1 /\ g_lost w g oi pb = true) \/ z = 5 \/ z = 6.
Proof.
  intros HR H. rewrite (lost_R w m g oi pb HR). unfold loss_clauses in H.
  destruct (t_corrupt m); [destruct H|].
  destruct (recent w (t_touched m) oi pb).
  - destruct H as [<-|[]]. left. split; reflexivity.
  - right. apply in_app_or in H. destruct H as [H|H].
    + destruct (recent w (t_late_get m) oi pb); [destruct H as [<-|[]]; left; reflexivity|destruct H].
    + destruct (recent w (t_late_fm m) oi pb); [destruct H as [<-|[]]; right; reflexivity|destruct H].
Qed.

Lemma R_frame m g m' g' :
  R m g -> t_gets m' = g_gets g' -> t_touched m' = g_touched g' -> t_corrupt m' = g_corrupt g' ->
  t_viol m' = t_viol m -> incl (g_viol g) (g_viol g') -> R m' g'.
Proof.
  intros (_ & _ & _ & HV) A B C D E. split; [exact A|]. split; [exact B|]. split; [exact C|].
  intros z Hz. rewrite D in Hz. destruct (HV z Hz) as [[-> H1]|H]; [left; split; [reflexivity|apply E, H1]|right; exact H].
Qed.

Lemma R_setprev m g p : R m g -> R (m_setprev m p) g.
Proof. intros HR. pose proof HR as (A & B & C & D). eapply R_frame; eauto. apply incl_refl. Qed.

(** adding loss clauses on the monitor side and [1] on the bookkeeping side when lost *)
Lemma R_viol_loss m g (ls : list Z) (lostb : bool) :
  R m g ->
  (forall z, In z ls -> (z = 1 /\ lostb = true) \/ z = 5 \/ z = 6) ->
  R (m_viol m ls) (if lostb then g_addviol g [1] else g).
Proof.
  intros (A & B & C & HV) HL.
  assert (I : incl (g_viol g) (g_viol (if lostb then g_addviol g [1] else g))).
  { destruct lostb; [cbn; apply incl_appl|]; apply incl_refl. }
  split; [destruct lostb; exact A|]. split; [destruct lostb; exact B|]. split; [destruct lostb; exact C|].
  intros z Hz. cbn [t_viol m_viol] in Hz. apply in_app_or in Hz. destruct Hz as [Hz|Hz].
  - destruct (HV z Hz) as [[-> H1]|H]; [left; split; [reflexivity|apply I, H1]|right; exact H].
  - destruct (HL z Hz) as [[-> H1]|H]; [|right; exact H]. subst lostb. left. split; [reflexivity|].
    cbn. apply in_or_app. right. left. reflexivity.
Qed.

Lemma fold_R {X} (f : m05 -> X -> m05) (h : g05 -> X -> g05) :
  (forall a b x, R a b -> R (f a x) (h b x)) -> forall l a b, R a b -> R (fold_left f l a) (fold_left h l b).
Proof. intros H; induction l as [|x t IH]; intros a b HR; cbn; auto. Qed.

Lemma ltb_leb n : Nat.ltb 1 n = negb (Nat.leb n 1).
Proof. destruct n as [|[|n]]; reflexivity. Qed.

Lemma R_generic w m g e s0 s1 mo :
  R m g -> R (if Z.eqb (ob_kind (enc_obs (w_cfg w) e s0 s1 mo)) 3 then m else m_setprev m None) g.
Proof. intros H. destruct (Z.eqb _ 3); [exact H|apply R_setprev; exact H]. Qed.

Lemma R_step w m g x : R m g -> R (m05m_step w m x) (g05_step false w g x).
Proof.
  intros HR. pose proof HR as (RG & RT & RC & RV).
  destruct x as [e [[s0 s1] mo]]. unfold m05m_step.
  destruct e as [tid o i|tid data|tid err|tid o i|tid|ds|tid p i ch|tid slices|r off len].
  - unfold m05_step, g05_step. apply R_generic; exact HR.
  - unfold m05_step, g05_step. apply R_generic; exact HR.
  - unfold m05_step, g05_step. apply R_generic; exact HR.
  - (* OGetOpen *)
    unfold m05_step, g05_step.
    destruct mo as [code bytes| |code dd|].
    + change (ob_kind (enc_obs (w_cfg w) (OGetOpen tid o i) s0 s1 (Done code bytes))) with 0.
      change (ob_code (enc_obs (w_cfg w) (OGetOpen tid o i) s0 s1 (Done code bytes))) with code.
      change (Z.eqb 0 1) with false. cbv iota. cbn [out_code]. apply R_setprev.
      destruct (Z.eqb code cNotFound); cbn [andb]; [|exact HR].
      apply R_viol_loss; [exact HR|]. intros z Hz. eapply loss_R; eauto.
    + change (ob_kind (enc_obs (w_cfg w) (OGetOpen tid o i) s0 s1 Parked)) with 1.
      change (Z.eqb 1 1) with true. cbv iota. apply R_setprev. eapply R_frame; [exact HR| | | | |apply incl_refl]; cbn; congruence.
    + change (ob_kind (enc_obs (w_cfg w) (OGetOpen tid o i) s0 s1 (Missing code dd))) with 2.
      change (ob_code (enc_obs (w_cfg w) (OGetOpen tid o i) s0 s1 (Missing code dd))) with code.
      change (Z.eqb 2 1) with false. cbv iota. cbn [out_code]. apply R_setprev.
      destruct (Z.eqb code cNotFound); cbn [andb]; [|exact HR].
      apply R_viol_loss; [exact HR|]. intros z Hz. eapply loss_R; eauto.
    + change (ob_kind (enc_obs (w_cfg w) (OGetOpen tid o i) s0 s1 Bad)) with 3.
      change (ob_code (enc_obs (w_cfg w) (OGetOpen tid o i) s0 s1 Bad)) with 0.
      change (Z.eqb 3 1) with false. cbv iota. cbn [out_code]. change (Z.eqb 0 cNotFound) with false. cbv iota. cbn [andb].
      apply R_setprev. exact HR.
  - (* OGetConsume *)
    unfold m05_step, g05_step. rewrite RG.
    destruct (assoc (g_gets g) tid) as [[oi p0]|]; [|apply R_setprev; exact HR].
    set (o := enc_obs (w_cfg w) (OGetConsume tid) s0 s1 mo).
    assert (OK : ob_ok o = out_ok mo) by (destruct mo; reflexivity).
    assert (WR : ob_ok o && (0 <=? ob_writes o) = false) by (destruct mo as [c b| |c d|]; cbn; rewrite ?andb_false_r; reflexivity).
    set (m1 := m_setgets m (unassoc (g_gets g) tid)).
    assert (R1 : R m1 (g_setgets g (unassoc (g_gets g) tid))).
    { eapply R_frame; [exact HR| | | | |apply incl_refl]; cbn; congruence. }
    match goal with |- R (if _ then m_setprev (m_late_get (m_touch ?M2 _ _) _ _) _ else _) _ => set (m2 := M2) end.
    assert (E2 : m2 = m1).
    { unfold m2. destruct (t_prev m) as [[[pe pb0] pw]|]; [|reflexivity].
      destruct pe; try reflexivity. destruct pb0; try reflexivity.
      destruct (Nat.eqb tid tid0); cbn [andb]; [|reflexivity]. rewrite WR. reflexivity. }
    rewrite E2, OK. destruct (out_ok mo).
    + apply R_setprev. destruct R1 as (A & B & C & D).
      eapply R_frame; [exact (conj A (conj B (conj C D)))| | | | |apply incl_refl]; cbn; congruence.
    + apply R_setprev. exact R1.
  - (* OFindMissing *)
    unfold m05_step, g05_step.
    destruct mo as [code bytes| |code mm|]; try (apply R_setprev; exact HR).
    change (ob_kind (enc_obs (w_cfg w) (OFindMissing ds) s0 s1 (Missing code mm))) with 2.
    change (ob_code (enc_obs (w_cfg w) (OFindMissing ds) s0 s1 (Missing code mm))) with code.
    change (ob_writes (enc_obs (w_cfg w) (OFindMissing ds) s0 s1 (Missing code mm))) with (-1).
    change (sx_nth (enc_obs (w_cfg w) (OFindMissing ds) s0 s1 (Missing code mm)) 2) with (of_nats mm).
    rewrite sx_nats_of_nats. change (Z.eqb 2 2) with true. cbn [andb].
    destruct (Z.eqb code 0); [|apply R_setprev; exact HR].
    cbv zeta. apply R_setprev. cbn [orb].
    unfold g_touch_all. apply fold_R.
    + intros a b [pos oi] Hab. destruct (existsb (Nat.eqb pos) mm); [exact Hab|].
      unfold m_touch_fm. rewrite ltb_leb.
      destruct Hab as (A & B & C & D).
      destruct (Nat.leb (length ds) 1); cbn [negb];
        (eapply R_frame; [exact (conj A (conj B (conj C D)))| | | | |apply incl_refl]; cbn; congruence).
    + set (lostb := existsb (fun '(pos, oi) => existsb (Nat.eqb pos) mm && g_lost w g oi (s_pushbacks s1)) (enumerate 0 ds)).
      set (ls := flat_map (fun '(pos, oi) => if existsb (Nat.eqb pos) mm then loss_clauses w m oi (s_pushbacks s1) else [])
                          (enumerate 0 ds)).
      assert (R1 : R (m_viol m ls) (if lostb then g_addviol g [1] else g)).
      { apply R_viol_loss; [exact HR|]. intros z Hz. unfold ls in Hz. apply in_flat_map in Hz.
        destruct Hz as [[pos oi] [HI Hz]]. destruct (existsb (Nat.eqb pos) mm) eqn:EM; [|destruct Hz].
        destruct (loss_R w m g oi _ z HR Hz) as [[-> HL]|H]; [|right; exact H].
        left. split; [reflexivity|]. unfold lostb. apply existsb_exists. exists (pos, oi). split; [exact HI|].
        rewrite EM, HL. reflexivity. }
      destruct (t_prev m) as [[[pe pb0] pw]|]; [|exact R1].
      destruct pe; try exact R1. destruct pb0; try exact R1.
      rewrite andb_false_r. exact R1.
  - unfold m05_step, g05_step. apply R_generic; exact HR.
  - unfold m05_step, g05_step. apply R_generic; exact HR.
  - (* OCorrupt *)
    unfold m05_step, g05_step. eapply R_frame; [exact HR| | | | |apply incl_refl]; cbn; congruence.
Qed.
