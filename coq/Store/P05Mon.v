(** C05, part 6: the C05 monitor on the model's own observations.

    [mon05_model] is what [mon05 inp (run_store inp)] reduces to.  [g05_step]
    is the same bookkeeping stated on model outputs, parametrised by the
    moment at which a touch is stamped with the push-back count:
    - late = true: as the monitor R05 does (Get: when the reader is
      consumed; FindMissing: when the call returns);
    - late = false: when the object was actually placed (Get: when the
      reader was opened; multi-digest FindMissing: when the call started). *)
From Coq Require Import List NArith ZArith Bool Arith Lia.
From BBS Require Import Common.Sx Store.Model Store.WfTids Run.RStore Run.R01 Run.R05.
Import ListNotations.
Open Scope Z_scope.

Definition m05_init : m05 :=
  {| t_gets := []; t_touched := []; t_corrupt := false; t_prev := None; t_viol := [] |}.

Definition m05m_step (w : world) (m : m05) (x : op * (state * state * out)) : m05 :=
  let '(e, (s0, s1, mo)) := x in m05_step w m (e, (s0, s1, mo), enc_obs (w_cfg w) e s0 s1 mo).

Definition run_x (w : world) (es : list op) : list (op * (state * state * out)) :=
  combine es (run_states w (init_state (w_cfg w)) es).

Definition mon05_model (w : world) (es : list op) : list Z :=
  dedupZ (t_viol (fold_left (m05m_step w) (run_x w es) m05_init)).

Lemma fold_left_combine_map {A B C} (g : A -> B * C -> A) (f : B -> C) : forall l a,
  fold_left g (combine l (map f l)) a = fold_left (fun a x => g a (x, f x)) l a.
Proof. induction l as [|x t IH]; intros a; cbn; auto. Qed.
Lemma fold_left_ext {A B} (g1 g2 : A -> B -> A) : (forall a x, g1 a x = g2 a x) ->
  forall l a, fold_left g1 l a = fold_left g2 l a.
Proof. intros H; induction l as [|x t IH]; intros a; cbn; [auto|]. rewrite H. apply IH. Qed.

Theorem mon05_on_model inp : mon05 inp (run_store inp) = mon05_model (dec_world inp) (dec_ops inp).
Proof.
  unfold mon05, run_store, mon05_model, run_x. cbn [sx_list]. f_equal. f_equal.
  rewrite fold_left_combine_map. apply fold_left_ext.
  intros a [e [[s0 s1] mo]]. reflexivity.
Qed.

(** ---- the generalised bookkeeping ---- *)
Record g05 := {
  g_gets : list (nat * ((nat * nat) * nat));   (* tid -> (obj, inst), push-backs after the open *)
  g_touched : list ((nat * nat) * nat);
  g_corrupt : bool;
  g_viol : list Z }.

Definition g05_init : g05 := {| g_gets := []; g_touched := []; g_corrupt := false; g_viol := [] |}.

Definition g_lost (w : world) (g : g05) (oi : nat * nat) (pb : nat) : bool :=
  negb (g_corrupt g) &&
  existsb (fun '(k, pb0) => same_key w k oi && Nat.leb (pb - pb0) (c_old (w_cfg w))) (g_touched g).
Definition g_touch (g : g05) (oi : nat * nat) (pb : nat) : g05 :=
  {| g_gets := g_gets g; g_touched := (oi, pb) :: g_touched g; g_corrupt := g_corrupt g; g_viol := g_viol g |}.
Definition g_addviol (g : g05) (v : list Z) : g05 :=
  {| g_gets := g_gets g; g_touched := g_touched g; g_corrupt := g_corrupt g; g_viol := g_viol g ++ v |}.
Definition g_setgets (g : g05) (l : list (nat * ((nat * nat) * nat))) : g05 :=
  {| g_gets := l; g_touched := g_touched g; g_corrupt := g_corrupt g; g_viol := g_viol g |}.

Definition out_ok (mo : out) : bool := match mo with Done code _ => Z.eqb code 0 | _ => false end.
Definition out_code (mo : out) : Z := match mo with Done c _ => c | Missing c _ => c | _ => 0 end.

Definition g_touch_all (missing : list nat) (stamp : nat) (numbered : list (nat * (nat * nat))) (g : g05) : g05 :=
  fold_left (fun acc '(pos, oi) => if existsb (Nat.eqb pos) missing then acc else g_touch acc oi stamp) numbered g.

Definition g05_step (late : bool) (w : world) (g : g05) (x : op * (state * state * out)) : g05 :=
  let '(e, (s0, s1, mo)) := x in
  let pb := s_pushbacks s1 in
  match e with
  | OGetOpen tid ob i =>
      match mo with
      | Parked => g_setgets g ((tid, ((ob, i), pb)) :: g_gets g)
      | _ => if Z.eqb (out_code mo) cNotFound && g_lost w g (ob, i) pb then g_addviol g [1] else g
      end
  | OGetConsume tid =>
      match assoc (g_gets g) tid with
      | Some (oi, p0) =>
          let g1 := g_setgets g (unassoc (g_gets g) tid) in
          if out_ok mo then g_touch g1 oi (if late then pb else p0) else g1
      | None => g
      end
  | OFindMissing ds =>
      match mo with
      | Missing code missing =>
          if Z.eqb code 0 then
            let numbered := enumerate 0 ds in
            let lost := existsb (fun '(pos, oi) => existsb (Nat.eqb pos) missing && g_lost w g oi pb) numbered in
            let g1 := if lost then g_addviol g [1] else g in
            let stamp := if late || Nat.leb (length ds) 1 then pb else s_pushbacks s0 in
            g_touch_all missing stamp numbered g1
          else g
      | _ => g
      end
  | OCorrupt _ _ _ =>
      {| g_gets := g_gets g; g_touched := g_touched g; g_corrupt := true; g_viol := g_viol g |}
  | _ => g
  end.

(** the R05 monitor on model observations IS the late-stamping bookkeeping *)
Definition forget (x : nat * ((nat * nat) * nat)) : nat * (nat * nat) := (fst x, fst (snd x)).
Definition R (m : m05) (g : g05) : Prop :=
  t_gets m = map forget (g_gets g) /\ t_touched m = g_touched g /\
  t_corrupt m = g_corrupt g /\ t_viol m = g_viol g.

Lemma assoc_forget l tid : assoc (map forget l) tid = option_map fst (assoc l tid).
Proof.
  induction l as [|[t [oi p]] r IH]; cbn; [reflexivity|].
  destruct (Nat.eqb tid t); [reflexivity|exact IH].
Qed.
Lemma unassoc_forget l tid : unassoc (map forget l) tid = map forget (unassoc l tid).
Proof.
  unfold unassoc. induction l as [|[t [oi p]] r IH]; cbn; [reflexivity|].
  destruct (Nat.eqb t tid); cbn; [exact IH|]. f_equal. exact IH.
Qed.

Lemma sx_nats_of_nats l : sx_nats (of_nats l) = l.
Proof.
  unfold sx_nats, of_nats. cbn [sx_list]. rewrite map_map.
  induction l as [|x t IH]; cbn; [reflexivity|]. rewrite IH. unfold sx_nat. cbn. rewrite Nat2Z.id. reflexivity.
Qed.

Lemma existsb_ext_in {T} (f h : T -> bool) l : (forall x, In x l -> f x = h x) -> existsb f l = existsb h l.
Proof.
  induction l as [|x t IH]; intros H; cbn; [reflexivity|].
  rewrite (H x (or_introl eq_refl)), IH; [reflexivity|]. intros y Hy. apply H. right; exact Hy.
Qed.

Lemma lost_R w m g oi pb : R m g -> lost_too_early w m oi pb = g_lost w g oi pb.
Proof. intros (_ & B & C & _). unfold lost_too_early, g_lost. rewrite B, C. reflexivity. Qed.

Ltac Rsplit := unfold R; cbn [t_gets t_touched t_corrupt t_viol g_gets g_touched g_corrupt g_viol
                                g_setgets g_touch g_addviol]; repeat split; auto.

Definition m_touch (m : m05) (oi : nat * nat) (pb : nat) : m05 :=
  {| t_gets := t_gets m; t_touched := (oi, pb) :: t_touched m; t_corrupt := t_corrupt m;
     t_prev := t_prev m; t_viol := t_viol m |}.
Definition m_viol (m : m05) (v : list Z) : m05 :=
  {| t_gets := t_gets m; t_touched := t_touched m; t_corrupt := t_corrupt m;
     t_prev := t_prev m; t_viol := t_viol m ++ v |}.
Definition m_setprev (m : m05) (p : option (op * bool * Z)) : m05 :=
  {| t_gets := t_gets m; t_touched := t_touched m; t_corrupt := t_corrupt m;
     t_prev := p; t_viol := t_viol m |}.

Lemma m05_step_fm w m ds s0 s1 (mo : out) o :
  m05_step w m (OFindMissing ds, (s0, s1, mo), o) =
  if Z.eqb (ob_kind o) 2 && Z.eqb (ob_code o) 0 then
    let pb := s_pushbacks s1 in
    let missing := sx_nats (sx_nth o 2) in
    let numbered := enumerate 0 ds in
    let lost := existsb (fun '(pos, oi) => existsb (Nat.eqb pos) missing && lost_too_early w m oi pb) numbered in
    let m1 := if lost then m_viol m [1] else m in
    let m2 := match t_prev m with
              | Some (OFindMissing ds', true, _) =>
                  if sx_eqb (of_nats (map fst ds ++ map snd ds)) (of_nats (map fst ds' ++ map snd ds'))
                     && (0 <? ob_writes o)
                  then m_viol m1 [if Nat.leb (length ds - length missing) 1 then 3 else 4]
                  else m1
              | _ => m1
              end in
    m_setprev (fold_left (fun acc '(pos, oi) => if existsb (Nat.eqb pos) missing then acc else m_touch acc oi pb) numbered m2)
              (Some (OFindMissing ds, true, 0))
  else m_setprev m None.
Proof. reflexivity. Qed.

Lemma R_m_touch m g oi pb : R m g -> R (m_touch m oi pb) (g_touch g oi pb).
Proof. intros (A & B & C & D). unfold R; cbn. rewrite B. auto. Qed.
Lemma R_m_viol m g v : R m g -> R (m_viol m v) (g_addviol g v).
Proof. intros (A & B & C & D). unfold R; cbn. rewrite D. auto. Qed.
Lemma R_m_setprev m g p : R m g -> R (m_setprev m p) g.
Proof. intros (A & B & C & D). unfold R; cbn. auto. Qed.
Lemma fold_R {X} (f : m05 -> X -> m05) (h : g05 -> X -> g05) :
  (forall a b x, R a b -> R (f a x) (h b x)) -> forall l a b, R a b -> R (fold_left f l a) (fold_left h l b).
Proof. intros H; induction l as [|x t IH]; intros a b HR; cbn; auto. Qed.

Lemma R_step w m g x : R m g -> R (m05m_step w m x) (g05_step true w g x).
Proof.
  intros HR. pose proof HR as (RG & RT & RC & RV).
  destruct x as [e [[s0 s1] mo]]. unfold m05m_step.
  destruct e as [tid o i|tid data|tid err|tid o i|tid|ds|tid p i ch|tid slices|r off len].
  - destruct mo; cbn; Rsplit.
  - destruct mo; cbn; Rsplit.
  - destruct mo; cbn; Rsplit.
  - (* OGetOpen *)
    destruct mo as [code bytes| |code dd|].
    + cbn. rewrite (lost_R w m g _ _ HR). destruct (Z.eqb code cNotFound && g_lost w g (o, i) (s_pushbacks s1)); Rsplit.
      rewrite RV; reflexivity.
    + cbn. Rsplit. rewrite RG. reflexivity.
    + cbn. rewrite (lost_R w m g _ _ HR). destruct (Z.eqb code cNotFound && g_lost w g (o, i) (s_pushbacks s1)); Rsplit.
      rewrite RV; reflexivity.
    + cbn. Rsplit.
  - (* OGetConsume *)
    unfold m05_step, g05_step. rewrite RG, assoc_forget.
    destruct (assoc (g_gets g) tid) as [[oi p0]|]; cbn [option_map fst].
    2:{ Rsplit. }
    destruct (t_prev m) as [[[pe pb0] pw]|]; [destruct pe; destruct pb0|];
      destruct mo as [code bytes| |code dd|]; cbn; rewrite ?andb_false_r; cbn;
      try (destruct (Z.eqb code 0)); Rsplit; rewrite ?unassoc_forget, ?RT; auto.
  - (* OFindMissing *)
    rewrite m05_step_fm. unfold g05_step.
    destruct mo as [code bytes| |code mm|]; try (apply R_m_setprev; exact HR).
    change (ob_kind (enc_obs (w_cfg w) (OFindMissing ds) s0 s1 (Missing code mm))) with 2.
    change (ob_code (enc_obs (w_cfg w) (OFindMissing ds) s0 s1 (Missing code mm))) with code.
    change (ob_writes (enc_obs (w_cfg w) (OFindMissing ds) s0 s1 (Missing code mm))) with (-1).
    change (sx_nth (enc_obs (w_cfg w) (OFindMissing ds) s0 s1 (Missing code mm)) 2) with (of_nats mm).
    rewrite sx_nats_of_nats. cbn [Z.eqb andb Pos.eqb].
    destruct (Z.eqb code 0); [|apply R_m_setprev; exact HR].
    cbv zeta. apply R_m_setprev. cbn [orb].
    unfold g_touch_all. apply fold_R.
    + intros a b [pos oi] Hab. destruct (existsb (Nat.eqb pos) mm); [exact Hab|apply R_m_touch; exact Hab].
    + assert (R1 : R (if existsb (fun '(pos, oi) => existsb (Nat.eqb pos) mm && lost_too_early w m oi (s_pushbacks s1)) (enumerate 0 ds)
                      then m_viol m [1] else m)
                     (if existsb (fun '(pos, oi) => existsb (Nat.eqb pos) mm && g_lost w g oi (s_pushbacks s1)) (enumerate 0 ds)
                      then g_addviol g [1] else g)).
      { replace (existsb (fun '(pos, oi) => existsb (Nat.eqb pos) mm && lost_too_early w m oi (s_pushbacks s1)) (enumerate 0 ds))
          with (existsb (fun '(pos, oi) => existsb (Nat.eqb pos) mm && g_lost w g oi (s_pushbacks s1)) (enumerate 0 ds)).
        - destruct (existsb _ (enumerate 0 ds)); [apply R_m_viol|]; exact HR.
        - apply existsb_ext_in. intros [pos oi] _. rewrite (lost_R w m g oi _ HR). reflexivity. }
      destruct (t_prev m) as [[[pe pb0] pw]|]; [|exact R1].
      destruct pe; try exact R1. destruct pb0; try exact R1.
      rewrite andb_false_r. exact R1.
  - destruct mo; cbn; Rsplit.
  - destruct mo; cbn; Rsplit.
  - cbn. Rsplit.
Qed.
