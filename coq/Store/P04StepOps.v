(** C04 proofs, part 6: every operation of [step] preserves the invariant. *)
From Coq Require Import List NArith ZArith Bool Arith Lia Permutation.
From Coq Require Import ZifyN ZifyNat ZifyBool.
From BBS Require Import Store.Model Store.Wf Store.P04Base Store.P04Prim Store.P04Fbs Store.P04Ops Store.P04Step.
Import ListNotations.
Local Open Scope nat_scope.

Section OPS.
Variable w : world.
Local Notation c := (w_cfg w).
Hypothesis W : wfc c.
Variable s : state.
Hypothesis HInv : Inv w s.
Local Notation ts := (s_threads s).
Local Notation R := (all_refs c ts).

Ltac bad := apply step_bad; exact HInv.
(* three goals remain: the invariant, no allocation, the code *)
Ltac fcd := eapply (fin_cont_done w s HInv); [reflexivity | eassumption | ..].
Ltac fcp t := eapply (fin_cont_park w s HInv) with (t' := t); [reflexivity | eassumption | ..].
(* two goals remain: the invariant, the code *)
Ltac fsa := apply (fin_same w s HInv); [ | reflexivity | | first [discriminate | intros; reflexivity]].
(* two goals remain: the invariant, thr_ok *)
Ltac fsta := apply (fin_start w s HInv); [reflexivity | assumption | ..].
Ltac code0 := left; unfold cOK, cInvalidArgument, cInternal, cNotFound, cUnavailable; lia.

Lemma step_put_start tid o i : StepOK w s (OPutStart tid o i) (step w s (OPutStart tid o i)).
Proof.
  unfold step. cbn [may_take_refresh_lock is_corrupt andb].
  destruct (thr_get ts tid) eqn:Eg; [bad|].
  pose proof (put_start_ok w s s R o i W (H0 w s HInv)) as H.
  destruct (put_start w s o i) as [[t|e] s1]; cbn [fst snd] in H.
  - destruct H as [Ht H]. fsta; [exact H|].
    destruct t; try contradiction; exact Logic.I.
  - destruct H as [H He]. fsa; [exact H | lia].
Qed.

Lemma step_get_open tid o i : StepOK w s (OGetOpen tid o i) (step w s (OGetOpen tid o i)).
Proof.
  unfold step. cbn [may_take_refresh_lock is_corrupt andb].
  destruct (thr_get ts tid) eqn:Eg; [bad|].
  pose proof (get_open_ok w s s R o i W (H0 w s HInv)) as H.
  destruct (get_open w s o i) as [[t|e] s1]; cbn [fst snd] in H.
  - destruct H as [Ht [H Hk]]. fsta; [exact H | exact Hk].
  - destruct H as [H He]. fsa; [exact H | lia].
Qed.

Lemma step_put_chunk tid data : StepOK w s (OPutChunk tid data) (step w s (OPutChunk tid data)).
Proof.
  unfold step. cbn [may_take_refresh_lock is_corrupt andb].
  destruct (thr_get ts tid) as [t|] eqn:Eg; [|bad].
  pose proof (H0_split w s HInv tid _ Eg) as H.
  destruct t as [o i wr acc|o i acc|? ? ? ? ?|? ? ? ? ? ?|?]; try bad; cbn [refs app] in H.
  - destruct (N.ltb (wr_size wr) _).
    + pose proof (finalize_ok c s s _ wr false H) as H1. pose proof (nu_finalize c s wr false) as N1.
      destruct (finalize c s wr false) as [r s1]. cbn [snd] in *.
      fcd; [exact H1 | exact N1 | code0].
    + fcp (TPut o i wr (acc ++ data)); [| apply nu_write_block | exact Logic.I].
      cbn [refs app]. apply HI_write_block. exact H.
  - destruct (N.ltb (osize w o) _).
    + fcd; [exact H | reflexivity | code0].
    + fcp (TPutExisting o i (acc ++ data)); [exact H | reflexivity | exact Logic.I].
Qed.

Lemma step_put_end tid err : StepOK w s (OPutEnd tid err) (step w s (OPutEnd tid err)).
Proof.
  unfold step. cbn [may_take_refresh_lock is_corrupt andb].
  destruct (thr_get ts tid) as [t|] eqn:Eg; [|bad].
  pose proof (H0_split w s HInv tid _ Eg) as H.
  destruct t as [o i wr acc|o i acc|? ? ? ? ?|? ? ? ? ? ?|?]; try bad; cbn [refs app] in H.
  - set (ok := Z.eqb err 0 && bytes_eqb acc (content w o)).
    pose proof (finalize_ok c s s _ wr ok H) as H1. pose proof (nu_finalize c s wr ok) as N1.
    pose proof (finalize_err c s wr ok) as He.
    destruct (finalize c s wr ok) as [[l|e] s1]; cbn [fst snd] in *.
    + fcd; [apply HI_index_put_all; exact H1 | rewrite nu_index_put_all; exact N1 | code0].
    + fcd; [exact H1 | exact N1 |].
      destruct (Z.eqb err 0); [left; lia | right; exists tid; reflexivity].
  - destruct (negb (Z.eqb err 0)).
    { fcd; [exact H | reflexivity | right; exists tid; reflexivity]. }
    destruct (negb (bytes_eqb acc (content w o))).
    { fcd; [exact H | reflexivity | code0]. }
    destruct (index_get s (canonical_key o)) as [l|].
    + fcd; [apply HI_index_put; exact H | reflexivity | code0].
    + fcd; [exact H | reflexivity | code0].
Qed.

Lemma step_get_consume tid : StepOK w s (OGetConsume tid) (step w s (OGetConsume tid)).
Proof.
  unfold step. cbn [may_take_refresh_lock is_corrupt andb].
  destruct (thr_get ts tid) as [t|] eqn:Eg; [|bad].
  pose proof (H0_split w s HInv tid _ Eg) as H.
  pose proof (thr_ok_ts w s HInv tid _ Eg) as Hl.
  destruct t as [? ? ? ?|? ? ?|o uid l refresh fkeys|? ? ? ? ? ?|?]; try bad; cbn [refs app thr_ok] in H, Hl.
  pose proof (get_consume_ok w s s _ o uid l refresh fkeys H Hl) as [H1 Hc].
  pose proof (nu_get_consume w s o uid l refresh fkeys) as N1.
  destruct (get_consume w s o uid l refresh fkeys) as [[code bytes] s1].
  unfold gc_state, gc_code in *. cbn [fst snd] in *.
  fcd; [exact H1 | exact N1 | left; exact Hc].
Qed.

Lemma step_find_missing ds : StepOK w s (OFindMissing ds) (step w s (OFindMissing ds)).
Proof.
  unfold step. cbn [may_take_refresh_lock is_corrupt andb].
  destruct (refresh_lock_held s); [bad|].
  pose proof (find_missing_ok w s s R ds W (H0 w s HInv)) as [H He].
  destruct (find_missing w s ds) as [[m|e] s1]; cbn [fst snd] in *.
  - fsa; [exact H | unfold cOK; lia].
  - fsa; [exact H | lia].
Qed.

Lemma step_corrupt r off len : StepOK w s (OCorrupt r off len) (step w s (OCorrupt r off len)).
Proof.
  unfold step. cbn [may_take_refresh_lock is_corrupt andb].
  destruct (reader_open s); [bad|].
  destruct (dev_get (s_dev s) r).
  - fsa; [apply (H0 w s HInv) | unfold cOK; lia].
  - fsa; [apply HI_upd_dev; apply (H0 w s HInv) | unfold cOK; lia].
Qed.

Lemma tot_pin s' uid : tot (pin s' uid) = tot s'.
Proof. unfold tot, pin. sred. rewrite map_uid_length. reflexivity. Qed.

Lemma step_gfc_start tid p i ch : StepOK w s (OGfcStart tid p i ch) (step w s (OGfcStart tid p i ch)).
Proof.
  unfold step. cbn [may_take_refresh_lock is_corrupt andb].
  destruct (refresh_lock_held s); [bad|].
  destruct (thr_get ts tid) eqn:Eg; [bad|].
  pose proof (H0 w s HInv) as HH.
  destruct (c_hier c) eqn:EH.
  - (* hierarchical: slicer.Slice(ba.Get(parent)) *)
    pose proof (get_open_ok w s s R p i W HH) as H.
    destruct (get_open w s p i) as [[t|e] s1]; cbn [fst snd] in H.
    + destruct H as [Ht [H Hk]]. destruct t; try contradiction.
      fsta; [exact H | exact Hk].
    + destruct H as [H He]. fsta; [exact H | exact He].
  - (* flat *)
    destruct (index_get s (flat_key c p i)) as [pl|] eqn:EP.
    2:{ fsa; [exact HH | unfold cNotFound; lia]. }
    pose proof HH as [_ [C _]].
    pose proof (index_get_valid _ _ _ EP) as VP.
    set (direct := if needs_refresh s pl then None
                   else match index_get s (flat_key c ch i) with
                        | Some cl => match block_of_loc s cl with Some b => Some (cl, b_uid b) | None => None end
                        | None => None
                        end).
    destruct direct as [[cl uid]|] eqn:ED.
    + (* the child is already indexed: read it directly *)
      assert (X : exists b, loc_valid s cl = true /\ block_of_loc s cl = Some b /\ uid = b_uid b).
      { unfold direct in ED. destruct (needs_refresh s pl); [discriminate|].
        destruct (index_get s (flat_key c ch i)) as [cl'|] eqn:EC; [|discriminate].
        destruct (block_of_loc s cl') as [b|] eqn:EB; [|discriminate].
        inversion ED; subst. exists b. split; [eapply index_get_valid; eauto | auto]. }
      destruct X as (b & V & EB & ->).
      destruct (loc_valid_block c s cl C V) as [[b' [Eb' Hb']] Hl].
      assert (b' = b) by congruence. subst b'.
      assert (Hu : In (b_uid b) (uids s)) by (apply uids_blocks; exact Hb').
      pose proof (HI_pin c s s R (b_uid b) Hu HH) as H1.
      assert (Hl1 : (l_abs cl < tot (pin s (b_uid b)))%N) by (rewrite tot_pin; exact Hl).
      pose proof (get_consume_ok w s (pin s (b_uid b)) R ch (b_uid b) cl None [] H1 Hl1) as [H2 Hc].
      destruct (get_consume w (pin s (b_uid b)) ch (b_uid b) cl None []) as [[code bytes] s2].
      unfold gc_state, gc_code in *. cbn [fst snd] in *.
      fsa; [exact H2 | exact Hc].
    + destruct (loc_valid_block c s pl C VP) as [[b [Eb Hb]] Hl]. rewrite Eb.
      assert (Hu : In (b_uid b) (uids s)) by (apply uids_blocks; exact Hb).
      pose proof (HI_pin c s s R (b_uid b) Hu HH) as H1.
      destruct (needs_refresh s pl).
      * pose proof (ocn_put_ok c s (pin s (b_uid b)) _ (l_size pl) W H1) as H2.
        destruct (ocn_put c (pin s (b_uid b)) (l_size pl)) as [[wr|e] s2]; cbn [fst snd] in *.
        -- fsta.
           ++ cbn [refs]. destruct (lockstep c); cbn [wref app].
              ** eapply HI_perm; [apply perm_swap | exact H2].
              ** apply HI_unpin. apply HI_write_block. exact H2.
           ++ cbn [thr_ok].
              assert (X : (tot s <= tot (if lockstep c then s2
                    else unpin c (write_block s2 (wr_uid wr) (wr_off wr) (read_block s2 (b_uid b) (l_off pl) (l_size pl))) (wr_uid wr)))%N).
              { destruct (lockstep c); [apply (HI_tot _ _ _ _ H2)|].
                eapply HI_tot. apply HI_unpin. apply HI_write_block. exact H2. }
              lia.
        -- destruct H2 as [H2 He]. fsa; [apply HI_unpin; exact H2 |].
           destruct He as [-> | ->]; [unfold cInvalidArgument | unfold cUnavailable]; lia.
      * fsta.
        -- cbn [refs]. destruct (lockstep c); cbn [wref app]; exact H1.
        -- cbn [thr_ok]. rewrite tot_pin. exact Hl.
Qed.

Lemma step_gfc_slice tid slices : StepOK w s (OGfcSlice tid slices) (step w s (OGfcSlice tid slices)).
Proof.
  unfold step. cbn [may_take_refresh_lock is_corrupt andb].
  destruct (thr_get ts tid) as [t|] eqn:Eg; [|bad].
  pose proof (H0_split w s HInv tid _ Eg) as H.
  pose proof (thr_ok_ts w s HInv tid _ Eg) as Hl.
  destruct t as [? ? ? ?|? ? ?|o uid l refresh fkeys|p i uid pl refresh pk|e]; try bad; cbn [refs app thr_ok] in H, Hl.
  - (* hierarchical composite read *)
    pose proof (get_consume_ok w s s _ o uid l refresh fkeys H Hl) as [H1 Hc].
    pose proof (nu_get_consume w s o uid l refresh fkeys) as N1.
    destruct (get_consume w s o uid l refresh fkeys) as [[code bytes] s1].
    unfold gc_state, gc_code in *. cbn [fst snd] in *.
    destruct (Z.eqb code cOK).
    + fcd; [exact H1 | exact N1 | code0].
    + fcd; [exact H1 | exact N1 | left; exact Hc].
  - (* flat composite read *)
    set (R' := all_refs c (thr_del ts tid)) in *.
    pose proof (read_validated_ok w s s _ p uid pl Hl H) as H1.
    pose proof (nu_read_validated w s p uid pl) as N1.
    destruct (read_validated w s p uid pl) as [[valid bytes] s1]. cbn [fst snd] in *.
    apply HI_unpin in H1. pose proof (nu_unpin c s1 uid) as N2.
    set (s1u := unpin c s1 uid) in *.
    assert (MK : forall (ploc : loc) s',
       (HI c s s' R' /\ s_next_uid s' = s_next_uid s) ->
       (fun s'' => HI c s s'' R' /\ s_next_uid s'' = s_next_uid s)
       (fold_left (fun acc '(cho, (off, len)) =>
                     index_put acc (flat_key c cho i)
                               {| l_abs := l_abs ploc; l_off := (l_off ploc + off)%N; l_size := len |})
                  slices s')).
    { intros ploc. apply (fold_left_pres (fun s'' => HI c s s'' R' /\ s_next_uid s'' = s_next_uid s)).
      intros s' [cho [off len]] [X1 X2]. split; [apply HI_index_put; exact X1 | exact X2]. }
    cbv beta in MK.
    destruct (negb valid).
    + (* the parent is corrupted *)
      match goal with |- StepOK _ _ _ (thr_rm ?s2 tid, _) =>
        assert (X : HI c s s2 R' /\ s_next_uid s2 = s_next_uid s) end.
      { destruct refresh as [wr|]; [destruct (lockstep c)|]; cbn [wref app] in *.
        - split; [apply finalize_ok; exact H1 | rewrite nu_finalize; congruence].
        - split; [exact H1 | congruence].
        - split; [destruct (lockstep c); exact H1 | congruence]. }
      destruct X as [X1 X2].
      fcd; [exact X1 | exact X2 | code0].
    + cbv zeta. destruct refresh as [wr|].
      * destruct (lockstep c) eqn:EL; cbn [wref app] in H1.
        -- pose proof (finalize_ok c s _ _ wr true (HI_write_block c s s1u _ (wr_uid wr) (wr_off wr) bytes H1)) as H2.
           pose proof (finalize_err c (write_block s1u (wr_uid wr) (wr_off wr) bytes) wr true) as He.
           pose proof (nu_finalize c (write_block s1u (wr_uid wr) (wr_off wr) bytes) wr true) as N3.
           rewrite nu_write_block in N3.
           destruct (finalize c (write_block s1u (wr_uid wr) (wr_off wr) bytes) wr true) as [[nl|e] s3]; cbn [fst snd] in *.
           ++ destruct (MK nl (index_put s3 pk nl)) as [X1 X2].
              { split; [apply HI_index_put; exact H2 | sred; congruence]. }
              fcd; [exact X1 | exact X2 | code0].
           ++ fcd; [exact H2 | congruence | left; lia].
        -- unfold fin_check. destruct (N.ltb (wr_abs wr) (s_tbr s1u)).
           ++ fcd; [exact H1 | congruence | code0].
           ++ match goal with |- context [fold_left _ slices (index_put s1u pk ?nl)] =>
                destruct (MK nl (index_put s1u pk nl)) as [X1 X2] end.
              { split; [apply HI_index_put; exact H1 | sred; congruence]. }
              fcd; [exact X1 | exact X2 | code0].
      * assert (H1' : HI c s s1u R') by (destruct (lockstep c); exact H1).
        destruct (index_get s1u pk) as [pl'|].
        -- destruct (MK pl' s1u) as [X1 X2]; [split; [exact H1' | congruence]|].
           fcd; [exact X1 | exact X2 | code0].
        -- fcd; [exact H1' | congruence | code0].
  - (* the slicer was handed an error *)
    fcd; [exact H | reflexivity | left; lia].
Qed.

Theorem step_ok e : StepOK w s e (step w s e).
Proof.
  destruct e.
  - apply step_put_start.
  - apply step_put_chunk.
  - apply step_put_end.
  - apply step_get_open.
  - apply step_get_consume.
  - apply step_find_missing.
  - apply step_gfc_start.
  - apply step_gfc_slice.
  - apply step_corrupt.
Qed.

End OPS.
