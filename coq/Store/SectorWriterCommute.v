(** Store/SectorWriterCommute.v — steps of two different writers that share no
    shared-sector image and whose device writes hit disjoint byte ranges commute. *)
From Coq Require Import List Arith ZArith Bool Lia.
From BBS Require Import Store.SectorWriter.
Import ListNotations.

Definition ids_of (w : writer) : list nat :=
  (match w_first w with Some i => [i] | None => [] end) ++
  (match w_last w with Some i => [i] | None => [] end).

Definition ev_thread (e : event) : option nat :=
  match e with EWrite k _ | EFlush k | EAbandon k => Some k | EAlloc _ => None end.

(* byte ranges of the device writes of two logs are pairwise disjoint *)
Definition disjoint_writes (l1 l2 : list dwrite) : Prop :=
  forall w1 w2, In w1 l1 -> In w2 l2 ->
    fst w1 + length (snd w1) <= fst w2 \/ fst w2 + length (snd w2) <= fst w1.

(** ---- device writes ---- *)

Lemma write_at_comm : forall d o1 s1 o2 s2,
  o1 + length s1 <= o2 \/ o2 + length s2 <= o1 ->
  write_at (write_at d o1 s1) o2 s2 = write_at (write_at d o2 s2) o1 s1.
Proof.
  induction d as [|x d IH]; intros o1 s1 o2 s2 H; [reflexivity|].
  destruct o1 as [|o1], o2 as [|o2].
  - destruct s1 as [|b1 s1], s2 as [|b2 s2]; try reflexivity.
    simpl in H; lia.
  - destruct s1 as [|b1 s1]; [reflexivity|].
    simpl. f_equal. apply IH. simpl in H. lia.
  - destruct s2 as [|b2 s2]; [reflexivity|].
    simpl. f_equal. apply IH. simpl in H. lia.
  - simpl. f_equal. apply IH. lia.
Qed.

Lemma apply_writes_cons : forall d w l,
  apply_writes d (w :: l) = apply_writes (write_at d (fst w) (snd w)) l.
Proof. reflexivity. Qed.

Lemma apply_writes_write_at : forall lb d o s,
  (forall w2, In w2 lb ->
     o + length s <= fst w2 \/ fst w2 + length (snd w2) <= o) ->
  apply_writes (write_at d o s) lb = write_at (apply_writes d lb) o s.
Proof.
  induction lb as [|w lb IH]; intros d o s H; [reflexivity|].
  rewrite !apply_writes_cons.
  rewrite write_at_comm by (apply H; left; reflexivity).
  apply IH. intros w2 Hin. apply H. right. exact Hin.
Qed.

Lemma apply_writes_comm : forall la lb d,
  disjoint_writes la lb ->
  apply_writes (apply_writes d la) lb = apply_writes (apply_writes d lb) la.
Proof.
  induction la as [|w la IH]; intros lb d H; [reflexivity|].
  rewrite !apply_writes_cons.
  rewrite IH by (intros w1 w2 H1 H2; apply H; [right; exact H1 | exact H2]).
  rewrite apply_writes_write_at; [reflexivity|].
  intros w2 H2. apply H; [left; reflexivity | exact H2].
Qed.

(** ---- upd / set_img ---- *)

Lemma nth_error_upd_neq : forall T (l : list T) i j x,
  i <> j -> nth_error (upd l i x) j = nth_error l j.
Proof.
  induction l as [|h l IH]; intros i j x H; [destruct i; reflexivity|].
  destruct i as [|i], j as [|j]; simpl; try reflexivity; try congruence.
  apply IH. congruence.
Qed.

Lemma nth_upd_neq : forall T (l : list T) i j x d,
  i <> j -> nth j (upd l i x) d = nth j l d.
Proof.
  induction l as [|h l IH]; intros i j x d H; [destruct i; reflexivity|].
  destruct i as [|i], j as [|j]; simpl; try reflexivity; try congruence.
  apply IH. congruence.
Qed.

Lemma upd_comm : forall T (l : list T) i j x y,
  i <> j -> upd (upd l i x) j y = upd (upd l j y) i x.
Proof.
  induction l as [|h l IH]; intros i j x y H; [destruct i, j; reflexivity|].
  destruct i as [|i], j as [|j]; simpl; try reflexivity; try congruence.
  f_equal. apply IH. congruence.
Qed.

Lemma img_data_set_img_neq : forall images id id' d,
  id <> id' -> img_data (set_img images id' d) id = img_data images id.
Proof.
  intros. unfold img_data, set_img. rewrite nth_upd_neq by congruence. reflexivity.
Qed.

Lemma set_img_comm : forall images id id' d d',
  id <> id' ->
  set_img (set_img images id' d') id d = set_img (set_img images id d) id' d'.
Proof.
  intros. unfold set_img. rewrite !nth_upd_neq by congruence.
  apply upd_comm. congruence.
Qed.

(** an optional image update *)
Definition set_opt (images : list image) (u : option (nat * list byte)) : list image :=
  match u with Some (id, d) => set_img images id d | None => images end.

Definition upd_in (u : option (nat * list byte)) (l : list nat) : Prop :=
  match u with Some (id, _) => In id l | None => True end.
Definition upd_notin (u : option (nat * list byte)) (l : list nat) : Prop :=
  match u with Some (id, _) => ~ In id l | None => True end.

Lemma set_opt_comm : forall images u v l1 l2,
  upd_in u l1 -> upd_in v l2 -> (forall i, In i l1 -> ~ In i l2) ->
  set_opt (set_opt images u) v = set_opt (set_opt images v) u.
Proof.
  intros images [[i d]|] [[j e]|] l1 l2 Hu Hv H; simpl in *; try reflexivity.
  apply set_img_comm. intro; subst. exact (H _ Hu Hv).
Qed.

(** ---- frame and effect of write / flush ---- *)

Lemma in_ids_first : forall w id, w_first w = Some id -> In id (ids_of w).
Proof. intros w id H. unfold ids_of. rewrite H. left. reflexivity. Qed.

Lemma in_ids_last : forall w id, w_last w = Some id -> In id (ids_of w).
Proof.
  intros w id H. unfold ids_of. rewrite H. apply in_or_app. right. left. reflexivity.
Qed.

Lemma write_frame : forall c images w p id' d,
  ~ In id' (ids_of w) ->
  write c (set_img images id' d) w p =
  let '(im, w', log) := write c images w p in (set_img im id' d, w', log).
Proof.
  intros c images w p id' d H. unfold write.
  destruct (w_first w) as [id|] eqn:E.
  - assert (Hne : id <> id') by (intro; subst; apply H, in_ids_first, E).
    rewrite img_data_set_img_neq by exact Hne.
    cbv zeta.
    destruct (_ <? _).
    + rewrite set_img_comm by exact Hne. reflexivity.
    + destruct (write_rest _ _ _) as [w2 log].
      rewrite set_img_comm by exact Hne. reflexivity.
  - destruct (write_rest _ _ _) as [w2 log]. reflexivity.
Qed.

Lemma flush_frame : forall c images w id' d,
  ~ In id' (ids_of w) ->
  flush c (set_img images id' d) w =
  let '(im, log) := flush c images w in (set_img im id' d, log).
Proof.
  intros c images w id' d H. unfold flush.
  destruct (w_last w) as [id|] eqn:E; [|reflexivity].
  assert (Hne : id <> id') by (intro; subst; apply H, in_ids_last, E).
  rewrite img_data_set_img_neq by exact Hne.
  cbv zeta. rewrite set_img_comm by exact Hne. reflexivity.
Qed.

Lemma write_effect : forall c images w p,
  exists u, fst (fst (write c images w p)) = set_opt images u /\ upd_in u (ids_of w).
Proof.
  intros c images w p. unfold write.
  destruct (w_first w) as [id|] eqn:E.
  - cbv zeta. destruct (_ <? _).
    + eexists (Some (id, _)). split; [reflexivity|]. apply in_ids_first, E.
    + destruct (write_rest _ _ _) as [w2 log].
      eexists (Some (id, _)). split; [reflexivity|]. apply in_ids_first, E.
  - destruct (write_rest _ _ _) as [w2 log]. exists None. split; [reflexivity|exact I].
Qed.

Lemma flush_effect : forall c images w,
  exists u, fst (flush c images w) = set_opt images u /\ upd_in u (ids_of w).
Proof.
  intros c images w. unfold flush.
  destruct (w_last w) as [id|] eqn:E.
  - eexists (Some (id, _)). split; [reflexivity|]. apply in_ids_last, E.
  - exists None. split; [reflexivity|exact I].
Qed.

(** ---- normal form of a writer step ---- *)

Definition wstep (c : cfg) (images : list image) (t : thread) (e : event)
  : option (list image * thread * list dwrite) :=
  match e with
  | EAlloc _ => None
  | EWrite _ chunk =>
      match t_status t with
      | Active =>
          if length (t_data t) + length chunk <=? t_size t then
            let '(images', w', log) := write c images (t_w t) chunk in
            Some (images',
                  {| t_w := w'; t_start := t_start t; t_size := t_size t;
                     t_data := t_data t ++ chunk; t_first0 := t_first0 t;
                     t_status := Active |}, log)
          else None
      | _ => None
      end
  | EFlush _ =>
      match t_status t with
      | Active =>
          if length (t_data t) =? t_size t then
            let '(images', log) := flush c images (t_w t) in
            Some (images',
                  {| t_w := t_w t; t_start := t_start t; t_size := t_size t;
                     t_data := t_data t; t_first0 := t_first0 t;
                     t_status := Flushed |}, log)
          else None
      | _ => None
      end
  | EAbandon _ =>
      match t_status t with
      | Active =>
          Some (images,
                {| t_w := t_w t; t_start := t_start t; t_size := t_size t;
                   t_data := t_data t; t_first0 := t_first0 t;
                   t_status := Abandoned |}, [])
      | _ => None
      end
  end.

Lemma step_wstep : forall c s e k,
  ev_thread e = Some k ->
  step c s e =
  match nth_error (st_threads s) k with
  | Some t =>
      match wstep c (st_images s) t e with
      | Some (im, t', l) => Some (set_thread s k t' im l, l)
      | None => None
      end
  | None => None
  end.
Proof.
  intros c s e k H.
  destruct e; simpl in H; try discriminate; injection H as ->; simpl;
    destruct (nth_error (st_threads s) k) as [t|]; try reflexivity;
    destruct (t_status t); try reflexivity.
  - destruct (_ <=? _); [|reflexivity].
    destruct (write _ _ _ _) as [[im w'] log]. reflexivity.
  - destruct (_ =? _); [|reflexivity].
    destruct (flush _ _ _) as [im log]. reflexivity.
Qed.

Lemma wstep_frame : forall c images t e u,
  upd_notin u (ids_of (t_w t)) ->
  wstep c (set_opt images u) t e =
  match wstep c images t e with
  | Some (im, t', l) => Some (set_opt im u, t', l)
  | None => None
  end.
Proof.
  intros c images t e [[id' d]|] H; simpl in H; simpl set_opt.
  2:{ destruct (wstep c images t e) as [[[im t'] l]|]; reflexivity. }
  destruct e; simpl; try reflexivity; destruct (t_status t); try reflexivity.
  - destruct (_ <=? _); [|reflexivity].
    rewrite write_frame by exact H.
    destruct (write _ _ _ _) as [[im w'] log]. reflexivity.
  - destruct (_ =? _); [|reflexivity].
    rewrite flush_frame by exact H.
    destruct (flush _ _ _) as [im log]. reflexivity.
Qed.

Lemma wstep_effect : forall c images t e im' t' l,
  wstep c images t e = Some (im', t', l) ->
  exists u, im' = set_opt images u /\ upd_in u (ids_of (t_w t)).
Proof.
  intros c images t e im' t' l.
  destruct e; simpl; try discriminate; destruct (t_status t); try discriminate.
  - destruct (_ <=? _); [|discriminate].
    destruct (write_effect c images (t_w t) chunk) as [u [Hu Hok]].
    destruct (write _ _ _ _) as [[im w'] log]. simpl in Hu.
    intros H. injection H as <- _ _. exists u. split; assumption.
  - destruct (_ =? _); [|discriminate].
    destruct (flush_effect c images (t_w t)) as [u [Hu Hok]].
    destruct (flush _ _ _) as [im log]. simpl in Hu.
    intros H. injection H as <- _ _. exists u. split; assumption.
  - intros H. injection H as <- _ _. exists None. split; [reflexivity|exact I].
Qed.

(** ---- the theorem ---- *)

(* Steps of two different writers that touch no common shared-sector image and whose
   device writes hit disjoint byte ranges commute: same final state, and each step issues
   the same device writes in either order. *)
Theorem private_write_commutes_gen : forall c s ea eb ka kb ta tb sa la sb lb,
  ev_thread ea = Some ka -> ev_thread eb = Some kb -> ka <> kb ->
  nth_error (st_threads s) ka = Some ta -> nth_error (st_threads s) kb = Some tb ->
  (forall i, In i (ids_of (t_w ta)) -> ~ In i (ids_of (t_w tb))) ->
  step c s ea = Some (sa, la) -> step c s eb = Some (sb, lb) ->
  disjoint_writes la lb ->
  exists sab, step c sa eb = Some (sab, lb) /\ step c sb ea = Some (sab, la).
Proof.
  intros c s ea eb ka kb ta tb sa la sb lb Ea Eb Hk Ta Tb Hids Sa Sb Hdis.
  rewrite (step_wstep c s ea ka Ea), Ta in Sa.
  rewrite (step_wstep c s eb kb Eb), Tb in Sb.
  destruct (wstep c (st_images s) ta ea) as [[[ima ta'] la']|] eqn:Wa; [|discriminate].
  destruct (wstep c (st_images s) tb eb) as [[[imb tb'] lb']|] eqn:Wb; [|discriminate].
  injection Sa as Hsa Hla. injection Sb as Hsb Hlb. subst sa la' sb lb'.
  destruct (wstep_effect _ _ _ _ _ _ _ Wa) as [ua [Hima Hua]].
  destruct (wstep_effect _ _ _ _ _ _ _ Wb) as [ub [Himb Hub]].
  subst ima imb.
  assert (Hna : upd_notin ua (ids_of (t_w tb))).
  { destruct ua as [[i d]|]; simpl in *; [apply Hids, Hua | exact I]. }
  assert (Hnb : upd_notin ub (ids_of (t_w ta))).
  { destruct ub as [[i d]|]; simpl in *; [|exact I].
    intro Hin. exact (Hids _ Hin Hub). }
  rewrite (step_wstep c _ eb kb Eb), (step_wstep c _ ea ka Ea).
  cbn [set_thread st_threads st_images].
  rewrite !nth_error_upd_neq by congruence.
  rewrite Ta, Tb.
  rewrite (wstep_frame _ _ _ _ _ Hna), (wstep_frame _ _ _ _ _ Hnb), Wa, Wb.
  eexists. split; [reflexivity|].
  do 2 f_equal.
  unfold set_thread. cbn [st_dev st_cur st_images st_threads].
  f_equal.
  - symmetry. apply apply_writes_comm. exact Hdis.
  - apply (set_opt_comm _ _ _ _ _ Hua Hub). exact Hids.
  - apply upd_comm. congruence.
Qed.

Print Assumptions private_write_commutes_gen.
