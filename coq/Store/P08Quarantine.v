(** C08 — detected corruption is quarantined: theorems about the store model
    (all worlds, all states / all schedules as stated).  Proofs only. *)
From Coq Require Import List NArith ZArith Bool Arith Lia ZifyN ZifyNat ZifyBool.
From BBS Require Import Store.Model Store.P08Frame Store.P08Step.
Import ListNotations.
Open Scope N_scope.

(** state reached by a schedule *)
Fixpoint exec (w : world) (s : state) (es : list op) : state :=
  match es with
  | [] => s
  | e :: t => exec w (fst (step w s e)) t
  end.

Lemma exec_run w es : forall s, fst (run w s es) = exec w s es.
Proof.
  induction es as [|e t IH]; intros s; cbn [run exec]; [reflexivity|].
  destruct (step w s e) as [s1 o] eqn:E. specialize (IH s1). destruct (run w s1 t) as [s2 os]. exact IH.
Qed.

Lemma exec_app w es1 es2 s : exec w s (es1 ++ es2) = exec w (exec w s es1) es2.
Proof. revert s. induction es1 as [|e t IH]; intros s; cbn; [reflexivity|apply IH]. Qed.

(** ---- 1. detect_fails_internal ---- *)

(** the detection proper: the verdict is counted and the boundary is raised above the block *)
Lemma detect_read_validated w s o u l bytes s' :
  read_validated w s o u l = (false, bytes, s') ->
  bytes <> content w o /\ s_negs s' = S (s_negs s) /\
  s_tbr s' = N.max (s_tbr s) (l_abs l + 1) /\ l_abs l + 1 <= s_tbr s' /\ s_tbr s <= s_tbr s'.
Proof.
  intros H. pose proof (read_validated_false _ _ _ _ _ _ _ H) as (_ & _ & Hne & _).
  apply read_validated_false_dfr in H as []. repeat split; try assumption; lia.
Qed.

(** no false alarm: a negative verdict means the bytes read differ from the content *)
Lemma read_validated_sound w s o u l :
  read_block s u (l_off l) (l_size l) = content w o -> fst (fst (read_validated w s o u l)) = true.
Proof.
  intros H. unfold read_validated. rewrite H.
  replace (bytes_eqb (content w o) (content w o)) with true by (symmetry; apply bytes_eqb_eq; reflexivity).
  rewrite andb_false_r. reflexivity.
Qed.

(** every step: whenever the verdict counter grows, the operation's output
    carries INTERNAL (so it is never [Done 0]); the boundary never decreases *)
Lemma detect_step w s e s' out : step w s e = (s', out) ->
  (s_negs s' = s_negs s \/ (s_negs s' = S (s_negs s) /\ out_internal out)) /\ s_tbr s <= s_tbr s'.
Proof.
  intros H. apply step_sfr in H as [[]|[[] Ho]]; (split; [|assumption]); [left|right; split]; assumption.
Qed.

Lemma out_internal_not_ok out : out_internal out -> forall b, out <> Done cOK b.
Proof. destruct out; cbn; intros H b E; inversion E; subst; discriminate. Qed.

(** consuming a reader whose bytes fail validation *)
Lemma detect_get_consume w s tid o uid l r fk s' out :
  thr_get (s_threads s) tid = Some (TGet o uid l r fk) ->
  fst (fst (read_validated w s o uid l)) = false ->
  step w s (OGetConsume tid) = (s', out) ->
  out = Done cInternal [] /\ s_negs s' = S (s_negs s) /\ l_abs l + 1 <= s_tbr s'.
Proof.
  intros Ht Hv. unfold step. cbn [may_take_refresh_lock is_corrupt andb]. rewrite Ht.
  destruct (get_consume w s o uid l r fk) as [[code bytes] s1] eqn:E. intros H; inv H.
  apply get_consume_cases in E as [[E _]|(b & s2 & R & X & -> & ->)]; [congruence|].
  apply read_validated_false_dfr in R as []. destruct X.
  repeat split; cbn; try congruence. rewrite xf_tbr, df_tbr. lia.
Qed.

(** hierarchical composite read: the parent's bytes fail validation *)
Lemma detect_slice_hier w s tid o uid l r fk slices s' out :
  thr_get (s_threads s) tid = Some (TGet o uid l r fk) ->
  fst (fst (read_validated w s o uid l)) = false ->
  step w s (OGfcSlice tid slices) = (s', out) ->
  out = Done cInternal [] /\ s_negs s' = S (s_negs s) /\ l_abs l + 1 <= s_tbr s'.
Proof.
  intros Ht Hv. unfold step. cbn [may_take_refresh_lock is_corrupt andb]. rewrite Ht.
  destruct (get_consume w s o uid l r fk) as [[code bytes] s1] eqn:E. intros H; inv H.
  apply get_consume_cases in E as [[E _]|(b & s2 & R & X & -> & ->)]; [congruence|].
  apply read_validated_false_dfr in R as []. destruct X.
  repeat split; cbn; try congruence. rewrite xf_tbr, df_tbr. lia.
Qed.

(** flat composite read: the parent's bytes fail validation in the slicer *)
Lemma detect_slice_flat w s tid p i uid pl r pk slices s' out :
  thr_get (s_threads s) tid = Some (TGfc p i uid pl r pk) ->
  fst (fst (read_validated w s p uid pl)) = false ->
  step w s (OGfcSlice tid slices) = (s', out) ->
  out = Done cInternal [] /\ s_negs s' = S (s_negs s) /\ l_abs pl + 1 <= s_tbr s' /\ s_index s' = s_index s.
Proof.
  intros Ht Hv. unfold step. cbn [may_take_refresh_lock is_corrupt andb]. rewrite Ht.
  destruct (read_validated w s p uid pl) as [[valid bytes] s1] eqn:R. cbn in Hv; subst valid. cbn [negb].
  apply read_validated_false_dfr in R as [].
  match goal with |- (thr_rm ?X tid, _) = _ -> _ => assert (xfr s1 X) as []; [|generalize dependent X; intros sX] end.
  { destruct r as [wr|]; [destruct (lockstep (w_cfg w))|]; try apply unpin_xfr.
    rewrite finalize_state. eapply xfr_trans; apply unpin_xfr. }
  intros; inv H. cbn [thr_rm upd_threads s_negs s_tbr s_index].
  split; [reflexivity|]. split; [congruence|]. split; [|congruence]. rewrite xf_tbr, df_tbr. lia.
Qed.

(** FindMissing: a verdict counted during a refresh fails the call with INTERNAL *)
Lemma detect_find_missing w s ds s' out :
  step w s (OFindMissing ds) = (s', out) -> s_negs s' <> s_negs s ->
  out = Missing cInternal [] /\ s_negs s' = S (s_negs s).
Proof.
  unfold step. cbn [may_take_refresh_lock is_corrupt andb].
  destruct (refresh_lock_held s); [intros H; inv H; congruence|].
  destruct (find_missing w s ds) as [[m|e] s1] eqn:E; apply find_missing_cases in E; intros H; inv H.
  - destruct E as [[]|[[] E']]; [intros Hn; exfalso; apply Hn; assumption|discriminate].
  - destruct E as [[]|[[] E']]; [intros Hn; exfalso; apply Hn; assumption|]. inv E'. intros _. split; [reflexivity|assumption].
Qed.

Lemma exec_tbr_mono w es : forall s, s_tbr s <= s_tbr (exec w s es).
Proof.
  induction es as [|e t IH]; intros s; cbn [exec]; [lia|].
  destruct (step w s e) as [s1 o] eqn:E. apply detect_step in E as [_ E]. cbn [fst].
  specialize (IH s1). lia.
Qed.

(** ---- 2. quarantine_hides ---- *)

Lemma open_with_refresh_ok w s o l fk t s' : open_with_refresh w s o l fk = (Ok t, s') ->
  exists uid r fk', t = TGet o uid l r fk' /\ (fk' = fk \/ fk' = []) /\ s_threads s' = s_threads s.
Proof.
  unfold open_with_refresh. destruct (block_of_loc s l) as [b|]; [|discriminate].
  destruct (needs_refresh s l).
  2:{ intros H; inv H. eexists _, _, _. split; [reflexivity|split; [auto|reflexivity]]. }
  destruct (ocn_put (w_cfg w) (pin s (b_uid b)) (l_size l)) as [[wr|e] s2] eqn:E; [|discriminate].
  apply ocn_put_afr in E as [_ Hthr _ _ _ _].
  destruct (lockstep (w_cfg w)).
  { intros H; inv H. eexists _, _, _. split; [reflexivity|split; [auto|exact Hthr]]. }
  destruct (finalize _ _ wr true) as [[nl|e] s4] eqn:F; [|discriminate].
  apply finalize_xfr in F as []. intros H; inv H. eexists _, _, _. split; [reflexivity|split; [auto|]].
  rewrite (if_threads _ _ (index_put_all_ifr s4 fk nl)), xf_threads.
  rewrite (P08Frame.xf_threads _ _ (write_block_xfr _ _ _ _)). exact Hthr.
Qed.

(** a reader is only ever opened on a location that a lookup key of the
    request (or, hierarchical refresh, the canonical key) resolves to *)
Lemma get_open_ok w s o i t s' : get_open w s o i = (Ok t, s') ->
  exists uid l r fk, t = TGet o uid l r fk /\
    (exists k l0, In k (lookup_keys w o i) /\ index_get s k = Some l0) /\
    (exists k, index_get s k = Some l) /\ s_threads s' = s_threads s.
Proof.
  unfold get_open. destruct (least_specific s (lookup_keys w o i)) as [[k l]|] eqn:L; [|discriminate].
  apply least_specific_some in L as [Lk Lg].
  assert (forall fk, open_with_refresh w s o l fk = (Ok t, s') ->
          exists uid l1 r fk', t = TGet o uid l1 r fk' /\
            (exists k l0, In k (lookup_keys w o i) /\ index_get s k = Some l0) /\
            (exists k, index_get s k = Some l1) /\ s_threads s' = s_threads s) as Hd.
  { intros fk H. apply open_with_refresh_ok in H as (uid & r & fk' & -> & _ & Ht).
    exists uid, l, r, fk'. split; [reflexivity|]. split; [eauto|]. split; [eauto|assumption]. }
  destruct (negb (needs_refresh s l)); [apply Hd|].
  destruct (c_hier (w_cfg w)); [|apply Hd].
  destruct (sync_from_canonical s o k) as [[cl s1]|] eqn:E; [|apply Hd].
  apply sync_from_canonical_sfr in E as [-> Ec]. intros H.
  apply open_with_refresh_ok in H as (uid & r & fk' & -> & _ & Ht).
  exists uid, cl, r, fk'. split; [reflexivity|]. split; [eauto|]. split; [eauto|exact Ht].
Qed.

Lemma thr_get_set_same s id t : thr_get (s_threads (thr_set s id t)) id = Some t.
Proof. cbn. rewrite Nat.eqb_refl. reflexivity. Qed.

(** OGetOpen parks a reader only on a location outside the quarantine (as of invocation) *)
Lemma get_open_parks_outside_quarantine w s tid o j s' :
  step w s (OGetOpen tid o j) = (s', Parked) ->
  exists uid l r fk, thr_get (s_threads s') tid = Some (TGet o uid l r fk) /\ s_tbr s <= l_abs l /\
    exists k l0, In k (lookup_keys w o j) /\ index_get s k = Some l0 /\ s_tbr s <= l_abs l0.
Proof.
  unfold step. cbn [may_take_refresh_lock is_corrupt andb].
  destruct (thr_get (s_threads s) tid); [discriminate|].
  destruct (get_open w s o j) as [[t|e] s1] eqn:E; [|discriminate].
  apply get_open_ok in E as (uid & l & r & fk & -> & (k & l0 & Hk & Hl0) & [k' Hk'] & _).
  intros H; inv H. exists uid, l, r, fk. split; [apply thr_get_set_same|].
  split; [eapply index_get_quarantine; eassumption|].
  exists k, l0. repeat split; try assumption. eapply index_get_quarantine; eassumption.
Qed.

(** objects all of whose stored locations (under the lookup keys of the
    request) lie below the boundary: NOT_FOUND *)
Lemma least_specific_all_none s ks : (forall k, In k ks -> index_get s k = None) -> least_specific s ks = None.
Proof.
  induction ks as [|k t IH]; intros H; cbn [least_specific]; [reflexivity|].
  rewrite (H k (or_introl eq_refl)). apply IH. intros k' Hk'. apply H. right. assumption.
Qed.

Lemma quarantined_lookup_none w s o j :
  (forall k l, In k (lookup_keys w o j) -> In (k, l) (s_index s) -> l_abs l < s_tbr s) ->
  least_specific s (lookup_keys w o j) = None.
Proof.
  intros H. apply least_specific_all_none. intros k Hk.
  destruct (index_get s k) as [l|] eqn:E; [|reflexivity].
  pose proof (index_get_quarantine _ _ _ E). apply index_get_some in E as [E _].
  specialize (H k l Hk E). lia.
Qed.

Lemma quarantined_get_not_found w s tid o j :
  thr_get (s_threads s) tid = None ->
  (forall k l, In k (lookup_keys w o j) -> In (k, l) (s_index s) -> l_abs l < s_tbr s) ->
  step w s (OGetOpen tid o j) = (s, Done cNotFound []).
Proof.
  intros Ht H. unfold step. cbn [may_take_refresh_lock is_corrupt andb]. rewrite Ht.
  unfold get_open. rewrite (quarantined_lookup_none w s o j H). reflexivity.
Qed.

(** FindMissing *)
Lemma insert_nat_in n x l : In x (insert_nat n l) <-> x = n \/ In x l.
Proof.
  induction l as [|h t IH]; cbn; [intuition|].
  destruct (Nat.leb n h); cbn; [intuition|]. rewrite IH. intuition.
Qed.
Lemma sort_nat_in x l : In x (sort_nat l) <-> In x l.
Proof.
  induction l as [|h t IH]; cbn; [reflexivity|]. rewrite insert_nat_in, IH. intuition.
Qed.

Lemma fm_phase2_missing_mono w : forall todo s missing m s',
  fm_phase2 w s todo missing = (Ok m, s') -> incl missing m.
Proof.
  induction todo as [|[pos [o i]] t IH]; intros s missing m s'; cbn [fm_phase2].
  - intros H; inv H. apply incl_refl.
  - destruct (fm_refresh_one w s o i) as [[[]|e] s1]; [| |discriminate]; intros H; apply IH in H.
    + assumption.
    + intros x Hx. apply H, in_or_app. left. assumption.
Qed.

Lemma enumerate_nth {T} (l : list T) : forall n p x, nth_error l p = Some x -> In ((n + p)%nat, x) (enumerate n l).
Proof.
  induction l as [|h t IH]; intros n [|p] x; cbn; try discriminate.
  - intros H; inv H. left. f_equal. lia.
  - intros H. right. replace (n + S p)%nat with (S n + p)%nat by lia. apply IH, H.
Qed.

Lemma enumerate_in {T} (l : list T) : forall n p x, In (p, x) (enumerate n l) ->
  (n <= p)%nat /\ nth_error l (p - n) = Some x.
Proof.
  induction l as [|h t IH]; intros n p x; cbn; [intros []|].
  intros [H|H].
  - inv H. rewrite Nat.sub_diag. split; [lia|reflexivity].
  - apply IH in H as [H1 H2]. split; [lia|]. replace (p - n)%nat with (S (p - S n)) by lia. exact H2.
Qed.

(** a digest reported present resolved, at invocation, under one of its lookup keys *)
Lemma find_missing_present w s ds m s' pos o j :
  find_missing w s ds = (Ok m, s') -> nth_error ds pos = Some (o, j) -> ~ In pos m ->
  exists k l, In k (lookup_keys w o j) /\ index_get s k = Some l.
Proof.
  unfold find_missing. intros H Hn Hm. apply fm_phase2_missing_mono in H.
  destruct (least_specific s (lookup_keys w o j)) as [[k l]|] eqn:L.
  { apply least_specific_some in L as []. eauto. }
  exfalso. apply Hm, H. apply in_map_iff. exists (pos, (o, j)). split; [reflexivity|].
  apply filter_In. split; [apply (enumerate_nth ds 0 pos), Hn|]. rewrite L. reflexivity.
Qed.

Lemma fm_refresh_one_err w s o i e s' : fm_refresh_one w s o i = (Err e, s') -> e <> 0%Z.
Proof.
  unfold fm_refresh_one.
  destruct (least_specific s (lookup_keys w o i)) as [[k l]|]; [|discriminate].
  destruct (negb (needs_refresh s l)); [discriminate|].
  match goal with |- context [match ?d with Some s1 => (Ok true, s1) | None => _ end] => destruct d as [s1|] end;
    [discriminate|].
  destruct (block_of_loc s l) as [b|]; [|intros H; inv H; discriminate].
  destruct (ocn_put (w_cfg w) (pin s (b_uid b)) (l_size l)) as [[wr|e1] s1] eqn:E.
  2:{ intros H; inv H. apply ocn_put_err_code in E. intros ->. intuition discriminate. }
  destruct (read_validated w s1 o (b_uid b) l) as [[valid bytes] s2].
  destruct (finalize _ _ wr valid) as [[nl|e1] s3] eqn:F; [discriminate|].
  apply finalize_err_code in F. intros H; inv H. destruct valid; [|discriminate]. intros ->. intuition discriminate.
Qed.

Lemma fm_phase2_err w : forall todo s missing e s', fm_phase2 w s todo missing = (Err e, s') -> e <> 0%Z.
Proof.
  induction todo as [|[pos [o i]] t IH]; intros s missing e s'; cbn [fm_phase2]; [discriminate|].
  destruct (fm_refresh_one w s o i) as [[[]|e1] s1] eqn:E; try apply IH.
  intros H; inv H. eapply fm_refresh_one_err, E.
Qed.

Lemma find_missing_present_step w s ds m s' pos o j :
  step w s (OFindMissing ds) = (s', Missing cOK m) -> nth_error ds pos = Some (o, j) -> ~ In pos m ->
  exists k l, In k (lookup_keys w o j) /\ index_get s k = Some l /\ s_tbr s <= l_abs l.
Proof.
  unfold step. cbn [may_take_refresh_lock is_corrupt andb].
  destruct (refresh_lock_held s); [discriminate|].
  destruct (find_missing w s ds) as [[m0|e] s1] eqn:E; intros H; inv H.
  2:{ unfold find_missing in E. apply fm_phase2_err in E. exfalso; apply E; reflexivity. }
  intros Hn Hm. rewrite sort_nat_in in Hm.
  destruct (find_missing_present _ _ _ _ _ _ _ _ E Hn Hm) as (k & l & Hk & Hl).
  exists k, l. repeat split; try assumption. eapply index_get_quarantine; eassumption.
Qed.

(** on traces: once the boundary has been raised to B+1 (e.g. by a detection
    in block B), no operation invoked later resolves a location in block <= B *)
Lemma quarantine_hides_get w s0 es1 es2 B tid o j s' :
  B + 1 <= s_tbr (exec w s0 es1) ->
  step w (exec w s0 (es1 ++ es2)) (OGetOpen tid o j) = (s', Parked) ->
  exists uid l r fk, thr_get (s_threads s') tid = Some (TGet o uid l r fk) /\ B < l_abs l.
Proof.
  intros HB H. rewrite exec_app in H.
  apply get_open_parks_outside_quarantine in H as (uid & l & r & fk & Ht & Hl & _).
  exists uid, l, r, fk. split; [assumption|].
  pose proof (exec_tbr_mono w es2 (exec w s0 es1)). lia.
Qed.

Lemma quarantine_hides_find_missing w s0 es1 es2 B ds m s' pos o j :
  B + 1 <= s_tbr (exec w s0 es1) ->
  step w (exec w s0 (es1 ++ es2)) (OFindMissing ds) = (s', Missing cOK m) ->
  nth_error ds pos = Some (o, j) -> ~ In pos m ->
  exists k l, In k (lookup_keys w o j) /\ index_get (exec w s0 (es1 ++ es2)) k = Some l /\ B < l_abs l.
Proof.
  intros HB H Hn Hm.
  destruct (find_missing_present_step _ _ _ _ _ _ _ _ H Hn Hm) as (k & l & Hk & Hl & Hq).
  exists k, l. repeat split; try assumption. rewrite exec_app in Hq.
  pose proof (exec_tbr_mono w es2 (exec w s0 es1)). lia.
Qed.

(** ---- 3. newer_unaffected ---- *)
Definition above (B : N) (l : loc) : bool := B + 1 <=? l_abs l.
Definition fopt (B : N) (b : option loc) : option loc :=
  match b with Some x => if above B x then Some x else None | None => None end.

Lemma newest_filter_above B cands : forall best l0,
  newest cands best = Some l0 -> B < l_abs l0 ->
  newest (filter (above B) cands) (fopt B best) = Some l0.
Proof.
  induction cands as [|c t IH]; intros best l0; cbn [newest filter].
  - intros -> H. cbn. unfold above. destruct (B + 1 <=? l_abs l0) eqn:E; [reflexivity|lia].
  - intros H HB. specialize (IH _ _ H HB).
    destruct (above B c) eqn:Ec; cbn [newest].
    + replace (match fopt B best with None => Some c | Some b => if loc_older b c then Some c else Some b end)
        with (fopt B (match best with None => Some c | Some b => if loc_older b c then Some c else Some b end)); [exact IH|].
      destruct best as [b|]; cbn [fopt]; [|rewrite Ec; reflexivity].
      destruct (above B b) eqn:Eb.
      * destruct (loc_older b c); cbn [fopt]; [rewrite Ec|rewrite Eb]; reflexivity.
      * assert (loc_older b c = true) as -> by (unfold loc_older, above in *; lia).
        cbn [fopt]. rewrite Ec. reflexivity.
    + replace (fopt B best)
        with (fopt B (match best with None => Some c | Some b => if loc_older b c then Some c else Some b end)); [exact IH|].
      destruct best as [b|]; cbn [fopt]; [|rewrite Ec; reflexivity].
      destruct (loc_older b c) eqn:Eo; cbn [fopt]; [|reflexivity].
      rewrite Ec. assert (above B b = false) as -> by (unfold loc_older, above in *; lia). reflexivity.
Qed.

Lemma filter_filter {T} (f g : T -> bool) l : filter f (filter g l) = filter (fun x => g x && f x) l.
Proof.
  induction l as [|x t IH]; cbn; [reflexivity|].
  destruct (g x); cbn; [destruct (f x); cbn; congruence|assumption].
Qed.
Lemma filter_map_snd {K} (p : loc -> bool) (l : list (K * loc)) :
  filter p (map snd l) = map snd (filter (fun e => p (snd e)) l).
Proof. induction l as [|x t IH]; cbn; [reflexivity|]. destruct (p (snd x)); cbn; congruence. Qed.

(** the detection proper leaves every key that resolved into a newer block alone *)
Lemma newer_unaffected_dfr l s s' : dfr l s s' ->
  forall k l0, index_get s k = Some l0 -> l_abs l < l_abs l0 -> index_get s' k = Some l0.
Proof.
  intros [] k l0 Hg Hn. unfold index_get in *. rewrite df_index.
  apply (newest_filter_above (l_abs l)) in Hg; [|assumption]. cbn [fopt] in Hg.
  rewrite filter_map_snd, filter_filter in Hg. rewrite <- Hg. f_equal. f_equal.
  apply filter_ext. intros [k' x]. cbn. unfold loc_valid, above. rewrite df_tbr, df_rel, df_blocks.
  destruct (key_eqb k' k); cbn; [|reflexivity]. lia.
Qed.

Lemma newer_unaffected_read_validated w s o u l bytes s' :
  read_validated w s o u l = (false, bytes, s') ->
  forall k l0, index_get s k = Some l0 -> l_abs l < l_abs l0 -> index_get s' k = Some l0.
Proof. intros H. eapply newer_unaffected_dfr, read_validated_false_dfr, H. Qed.

(** the whole reading step in which the detection happens *)
Lemma index_get_thr_rm s id k : index_get (thr_rm s id) k = index_get s k.
Proof. reflexivity. Qed.

Lemma newer_unaffected_get_consume w s tid o uid l r fk s' out :
  thr_get (s_threads s) tid = Some (TGet o uid l r fk) ->
  step w s (OGetConsume tid) = (s', out) -> s_negs s' <> s_negs s ->
  forall k l0, index_get s k = Some l0 -> l_abs l < l_abs l0 -> index_get s' k = Some l0.
Proof.
  intros Ht. unfold step. cbn [may_take_refresh_lock is_corrupt andb]. rewrite Ht.
  destruct (get_consume w s o uid l r fk) as [[code bytes] s1] eqn:E. intros H; inv H.
  apply get_consume_cases in E as [[_ [_ Hng _ _ _]]|(b & s2 & R & X & -> & ->)]; [intros Hn; exfalso; apply Hn; exact Hng|].
  intros _ k l0 Hg Hn. rewrite index_get_thr_rm, (index_get_xfr _ _ k X).
  eapply newer_unaffected_read_validated; eassumption.
Qed.

Lemma newer_unaffected_slice_hier w s tid o uid l r fk slices s' out :
  thr_get (s_threads s) tid = Some (TGet o uid l r fk) ->
  step w s (OGfcSlice tid slices) = (s', out) -> s_negs s' <> s_negs s ->
  forall k l0, index_get s k = Some l0 -> l_abs l < l_abs l0 -> index_get s' k = Some l0.
Proof.
  intros Ht. unfold step. cbn [may_take_refresh_lock is_corrupt andb]. rewrite Ht.
  destruct (get_consume w s o uid l r fk) as [[code bytes] s1] eqn:E. intros H; inv H.
  apply get_consume_cases in E as [[_ [_ Hng _ _ _]]|(b & s2 & R & X & -> & ->)]; [intros Hn; exfalso; apply Hn; exact Hng|].
  intros _ k l0 Hg Hn. rewrite index_get_thr_rm, (index_get_xfr _ _ k X).
  eapply newer_unaffected_read_validated; eassumption.
Qed.

(** ---- 4. inflight_upload_fails ---- *)
Lemma inflight_upload_fails w s tid o i wr acc err s' out :
  thr_get (s_threads s) tid = Some (TPut o i wr acc) -> wr_abs wr < s_tbr s ->
  step w s (OPutEnd tid err) = (s', out) ->
  (exists code, out = Done code [] /\ code <> 0%Z) /\ s_index s' = s_index s.
Proof.
  intros Ht Hq. unfold step. cbn [may_take_refresh_lock is_corrupt andb]. rewrite Ht.
  destruct (finalize (w_cfg w) s wr _) as [[l|e] s1] eqn:F.
  { eapply finalize_quarantined in F as (e & E & _); [discriminate|assumption]. }
  pose proof (finalize_quarantined _ _ _ _ _ _ F Hq) as (e' & E & Hne). inv E.
  apply finalize_xfr in F as []. intros H; inv H. split; [|cbn; assumption].
  eexists. split; [reflexivity|]. destruct (Z.eqb err 0) eqn:Ez; [assumption|]. intros ->. discriminate.
Qed.

(** an upload chunk is never the acknowledgement of an upload *)
Lemma put_chunk_never_ok w s tid data s' out :
  step w s (OPutChunk tid data) = (s', out) -> forall b, out <> Done cOK b.
Proof.
  unfold step. cbn [may_take_refresh_lock is_corrupt andb].
  destruct (thr_get (s_threads s) tid) as [[o i wr acc|o i acc| | |]|]; try (intros H; inv H; discriminate).
  - destruct (wr_size wr <? _); [destruct (finalize _ _ _ _)|]; intros H; inv H; discriminate.
  - destruct (osize w o <? _); intros H; inv H; discriminate.
Qed.

(** FindMissing refresh of one digest: a counted verdict means the location
    the digest resolved to was read, failed validation, and the boundary now
    lies above its block *)
Lemma detect_fm_refresh_one w s o i r s' : fm_refresh_one w s o i = (r, s') -> s_negs s' <> s_negs s ->
  r = Err cInternal /\ s_negs s' = S (s_negs s) /\
  exists k l, least_specific s (lookup_keys w o i) = Some (k, l) /\ l_abs l + 1 <= s_tbr s'.
Proof.
  unfold fm_refresh_one.
  destruct (least_specific s (lookup_keys w o i)) as [[k l]|]; [|intros H; inv H; congruence].
  destruct (negb (needs_refresh s l)); [intros H; inv H; congruence|].
  match goal with |- context [match ?d with Some s1 => (Ok true, s1) | None => _ end] => destruct d as [s1|] eqn:D end.
  { intros H; inv H. destruct (c_hier (w_cfg w)); [|discriminate].
    destruct (sync_from_canonical s o k) as [[cl s2]|] eqn:E; [|discriminate]. inv D.
    apply sync_from_canonical_sfr in E as [-> _]. cbn. congruence. }
  clear D. destruct (block_of_loc s l) as [b|]; [|intros H; inv H; congruence].
  destruct (ocn_put (w_cfg w) (pin s (b_uid b)) (l_size l)) as [[wr|e] s1] eqn:E; apply ocn_put_afr in E as [_ _ En _ _ _].
  2:{ intros H; inv H. rewrite (xf_negs _ _ (unpin_xfr _ _ _)), En. cbn. congruence. }
  destruct (read_validated w s1 o (b_uid b) l) as [[valid bytes] s2] eqn:R. destruct valid.
  - apply read_validated_true in R; subst s2.
    destruct (finalize _ _ wr true) as [[nl|e] s3] eqn:F; apply finalize_xfr in F as [_ _ Fn _ _ _ _];
      intros H; inv H; intros Hn; exfalso; apply Hn.
    + rewrite (if_negs _ _ (index_put_all_ifr _ _ _)), Fn.
      rewrite (xf_negs _ _ (unpin_xfr _ _ _)), (xf_negs _ _ (write_block_xfr _ _ _ _)). exact En.
    + rewrite Fn, (xf_negs _ _ (unpin_xfr _ _ _)), (xf_negs _ _ (write_block_xfr _ _ _ _)). exact En.
  - apply read_validated_false_dfr in R as [_ _ Rn Rt _ _].
    destruct (finalize _ _ wr false) as [[nl|e] s3] eqn:F.
    { apply finalize_ok in F as [F _]. discriminate. }
    apply finalize_xfr in F as [_ _ Fn Ft _ _ _]. intros H; inv H. intros _.
    split; [reflexivity|]. split.
    + rewrite Fn, (xf_negs _ _ (unpin_xfr _ _ _)), Rn. f_equal. exact En.
    + exists k, l. split; [reflexivity|]. rewrite Ft, (xf_tbr _ _ (unpin_xfr _ _ _)), Rt. lia.
Qed.
