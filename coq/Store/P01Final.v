(** C01 proofs: the monitor of C01 is silent on every run of the model
    (under the well-formedness hypotheses and the thread-id discipline). *)
From Coq Require Import List NArith ZArith Bool Arith.
From BBS Require Import Common.Sx Store.Model Store.Wf Store.WfTids Run.RStore Run.R01
  Store.P01Defs Store.P01Inv Store.P01Main Store.P01Prov.
Import ListNotations.

Theorem P01_final : forall (w : world) (es : list op),
  wf_world w = true -> wf_ops w [] es = true -> wf_tids es = true ->
  mon01_model w es = [].
Proof.
  intros w es Hw Ho Ht.
  apply (P01_assembly SInv (fun _ _ => true)).
  - exact P01_init.
  - intros w0 s e H1 H2 _ H3 H4. exact (P01_step w0 s e H1 H2 H3 H4).
  - exact Hw.
  - exact Ho.
  - exact Ht.
  - apply forallb_forall. intros x _. reflexivity.
Qed.

(** Corruption-free schedules keep the store invariant and never raise a
    negative integrity verdict. *)
Theorem P01_no_negs : forall (w : world) (es : list op),
  wf_world w = true -> wf_ops w [] es = true -> wf_tids es = true ->
  forallb (fun e => negb (is_corrupt e)) es = true ->
  SInv w (fst (run w (init_state (w_cfg w)) es)) /\
  s_negs (fst (run w (init_state (w_cfg w)) es)) = 0%nat.
Proof.
  intros w es Hw Ho Ht Hc.
  apply (P01_run_DS SInv (fun _ _ => true)).
  - exact P01_init.
  - intros w0 s e H1 H2 _ H3 H4. exact (P01_step w0 s e H1 H2 H3 H4).
  - exact Hw.
  - exact Ho.
  - exact Ht.
  - apply forallb_forall. intros x _. reflexivity.
  - exact Hc.
Qed.
