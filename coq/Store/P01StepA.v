(** C01 proofs: one event preserves the store invariant and reads are
    correct - composition of the sub-operation lemmas.  The sub-operation
    lemmas (proved in P01Alloc / P01OpsA / P01OpsB) enter this file as
    Section hypotheses and are discharged in P01Main. *)
From Coq Require Import List NArith ZArith Bool Arith Lia Permutation.
From BBS Require Import Store.Model Store.Wf Store.P01Inv Store.P01Thr.
Import ListNotations.
Open Scope N_scope.

Definition frame_tin (s s' : state) : Prop :=
  s_threads s' = s_threads s /\ s_index s' = s_index s /\ s_negs s' = s_negs s.

Record iface : Prop := {
  i_ocn_put : forall w cl s size r s',
    wf_config (w_cfg w) = true -> DInv w cl s -> ocn_put (w_cfg w) s size = (r, s') ->
    frame_tin s s' /\
    match r with
    | Err _ => DInv w cl s'
    | Ok wr => DInv w (CW wr [] :: cl) s' /\ wr_size wr = size
    end;
  i_bytes_eqb_eq : forall a b, bytes_eqb a b = true <-> a = b;
  i_index_get_some : forall s k l, index_get s k = Some l -> In (k, l) (s_index s) /\ loc_valid s l = true;
  i_least_specific_some : forall s ks k l, least_specific s ks = Some (k, l) -> In k ks /\ index_get s k = Some l;
  i_valid_block_of_loc : forall c s l, AInv c s -> loc_valid s l = true -> exists b, block_of_loc s l = Some b;
  i_entry_size : forall w cl s k l,
    DInv w cl s -> In (k, l) (s_index s) -> loc_valid s l = true -> l_size l = osize w (fst k);
  i_pin_loc : forall w cl s k l b,
    DInv w cl s -> In (k, l) (s_index s) -> loc_valid s l = true -> block_of_loc s l = Some b ->
    DInv w (CR (b_uid b) l (fst k) :: cl) (pin s (b_uid b));
  i_write : forall w cl s wr acc data,
    DInv w (CW wr acc :: cl) s -> N.of_nat (length acc + length data) <= wr_size wr ->
    DInv w (CW wr (acc ++ data) :: cl)
         (write_block s (wr_uid wr) (wr_off wr + N.of_nat (length acc)) data);
  i_read_block_cr : forall w cl s uid l o,
    DInv w cl s -> In (CR uid l o) cl -> read_block s uid (l_off l) (l_size l) = content w o;
  i_read_validated_cr : forall w cl s uid l o,
    DInv w cl s -> In (CR uid l o) cl -> read_validated w s o uid l = (true, content w o, s);
  i_threads : forall w cl s ts, DInv w cl s -> DInv w cl (upd_threads s ts);
  i_perm : forall w cl cl' s, Permutation cl cl' -> DInv w cl s -> DInv w cl' s;
  i_drop : forall w c cl s, DInv w (c :: cl) s -> DInv w cl s;
  i_unpin : forall w c cl s,
    DInv w (c :: cl) s -> cref (c_uid c) c = 1%nat -> DInv w cl (unpin (w_cfg w) s (c_uid c));
  i_cw_to_cu : forall w cl s wr acc o,
    DInv w (CW wr acc :: cl) s -> acc = content w o -> N.of_nat (length acc) = wr_size wr ->
    DInv w (CU wr o :: cl) (unpin (w_cfg w) s (wr_uid wr));
  i_cu_publish : forall w cl s wr o keys,
    DInv w cl s -> In (CU wr o) cl -> s_tbr s <= wr_abs wr -> (forall k, In k keys -> fst k = o) ->
    DInv w cl (index_put_all s keys {| l_abs := wr_abs wr; l_off := wr_off wr; l_size := wr_size wr |});
  i_index_put_sub : forall w cl s k0 l k off len,
    DInv w cl s -> In (k0, l) (s_index s) -> loc_valid s l = true ->
    content w (fst k) = slice (content w (fst k0)) (N.to_nat off) (N.to_nat len) ->
    (N.to_nat off + N.to_nat len <= length (content w (fst k0)))%nat ->
    DInv w cl (index_put s k {| l_abs := l_abs l; l_off := l_off l + off; l_size := len |});
  i_index_put_copy : forall w cl s k0 l k,
    DInv w cl s -> In (k0, l) (s_index s) -> loc_valid s l = true -> fst k = fst k0 ->
    DInv w cl (index_put s k l);
}.

Section Steps.
Hypothesis I : iface.
Variable w : world.
Hypothesis Hwf : wf_config (w_cfg w) = true.
Let c := w_cfg w.

Lemma cref_cw wr acc : cref (c_uid (CW wr acc)) (CW wr acc) = 1%nat.
Proof. cbn. rewrite Nat.eqb_refl. reflexivity. Qed.
Lemma cref_cr u l o : cref (c_uid (CR u l o)) (CR u l o) = 1%nat.
Proof. cbn. rewrite Nat.eqb_refl. reflexivity. Qed.

Lemma osize_len o : N.of_nat (length (content w o)) = osize w o.
Proof. reflexivity. Qed.

(** ---- finishing a completely written allocation ---- *)
(** finalize with a successful copy, followed by publication under [keys] *)
Lemma finalize_ok_inv cl s wr o keys r s' :
  DInv w (CW wr (content w o) :: cl) s -> wr_size wr = osize w o ->
  (forall k, In k keys -> fst k = o) ->
  finalize c s wr true = (r, s') ->
  frame_tn s s' /\
  match r with
  | Err e => DInv w cl s' /\ e <> cOK
  | Ok nl => DInv w cl (index_put_all s' keys nl) /\
             DInv w (CU wr o :: cl) s' /\ s_tbr s' <= wr_abs wr /\
             nl = {| l_abs := wr_abs wr; l_off := wr_off wr; l_size := wr_size wr |}
  end.
Proof.
  intros HD Hsz Hk. rewrite finalize_eq. cbn [negb]. intros H. injection H as <- <-.
  split; [apply unpin_frame|].
  assert (HU : DInv w (CU wr o :: cl) (unpin c s (wr_uid wr))).
  { eapply (i_cw_to_cu I); [exact HD|reflexivity|]. rewrite Hsz. reflexivity. }
  destruct (wr_abs wr <? s_tbr (unpin c s (wr_uid wr))) eqn:E.
  - split; [eapply (i_drop I), HU|discriminate].
  - apply N.ltb_ge in E. split; [|split; [exact HU|split; [exact E|reflexivity]]].
    eapply (i_drop I). eapply (i_cu_publish I); [exact HU|left; reflexivity|exact E|exact Hk].
Qed.

(** a failing / abandoned writer *)
Lemma finalize_fail_inv cl s wr acc r s' :
  DInv w (CW wr acc :: cl) s -> finalize c s wr false = (r, s') ->
  frame_tn s s' /\ DInv w cl s' /\ exists e, r = Err e /\ e <> cOK.
Proof.
  intros HD. rewrite finalize_eq. cbn [negb]. intros H. injection H as <- <-.
  split; [apply unpin_frame|]. split.
  - exact (i_unpin I w (CW wr acc) cl s HD (cref_cw wr acc)).
  - eexists. split; [reflexivity|discriminate].
Qed.

(** ---- SInv bookkeeping ---- *)
Lemma sinv_split s tid t :
  SInv w s -> thr_get (s_threads s) tid = Some t ->
  DInv w (claims_of_thread c t ++ claims_of_threads c (thr_del (s_threads s) tid)) s /\ thread_ok w t.
Proof.
  intros [HD Hnd Hth] Hg. split.
  - eapply (i_perm I); [|exact HD]. apply claims_get_perm; assumption.
  - eapply Hth. apply thr_get_in. exact Hg.
Qed.

Lemma sinv_set s0 s1 tid t :
  SInv w s0 -> s_threads s1 = s_threads s0 ->
  DInv w (claims_of_thread c t ++ claims_of_threads c (thr_del (s_threads s0) tid)) s1 ->
  thread_ok w t -> SInv w (thr_set s1 tid t).
Proof.
  intros [HD Hnd Hth] Ht HD1 Hok. unfold thr_set. rewrite Ht. constructor.
  - apply (i_threads I). exact HD1.
  - cbn [s_threads upd_threads map fst]. constructor; [apply thr_del_fst_notin|apply thr_del_nodup, Hnd].
  - cbn [s_threads upd_threads]. intros i x [E|H]; [injection E as <- <-; exact Hok|].
    apply thr_del_in in H. eapply Hth, H.
Qed.

Lemma sinv_rm s0 s1 tid :
  SInv w s0 -> s_threads s1 = s_threads s0 ->
  DInv w (claims_of_threads c (thr_del (s_threads s0) tid)) s1 -> SInv w (thr_rm s1 tid).
Proof.
  intros [HD Hnd Hth] Ht HD1. unfold thr_rm. rewrite Ht. constructor.
  - apply (i_threads I). exact HD1.
  - cbn [s_threads upd_threads]. apply thr_del_nodup, Hnd.
  - cbn [s_threads upd_threads]. intros i x H. apply thr_del_in in H. eapply Hth, H.
Qed.

Lemma sinv_same s0 s1 :
  SInv w s0 -> s_threads s1 = s_threads s0 -> DInv w (claims c s0) s1 -> SInv w s1.
Proof.
  intros [HD Hnd Hth] Ht HD1. constructor.
  - unfold claims. rewrite Ht. exact HD1.
  - rewrite Ht. exact Hnd.
  - rewrite Ht. exact Hth.
Qed.

Lemma claims_del_none s tid :
  thr_get (s_threads s) tid = None -> claims_of_threads c (thr_del (s_threads s) tid) = claims c s.
Proof. intros H. rewrite thr_del_none by exact H. reflexivity. Qed.

End Steps.
