(** Thread-id discipline of schedules: every operation start (OPutStart,
    OGetOpen, OGfcStart) uses a thread id that no earlier start event of the
    schedule used.  (The harness generator only ever uses fresh ids; the
    monitors key their bookkeeping by thread id.)  Definitions only. *)
From Coq Require Import List Bool Arith.
From BBS Require Import Store.Model.
Import ListNotations.

Definition start_tid (e : op) : option nat :=
  match e with
  | OPutStart t _ _ | OGetOpen t _ _ | OGfcStart t _ _ _ => Some t
  | _ => None
  end.

Fixpoint wf_tids_from (seen : list nat) (es : list op) : bool :=
  match es with
  | [] => true
  | e :: t =>
      match start_tid e with
      | Some tid => negb (existsb (Nat.eqb tid) seen) && wf_tids_from (tid :: seen) t
      | None => wf_tids_from seen t
      end
  end.

Definition wf_tids (es : list op) : bool := wf_tids_from [] es.
