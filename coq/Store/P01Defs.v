(** C01 proofs, part 0: the monitor applied to the model's own observations. *)
From Coq Require Import List NArith ZArith Bool Arith Lia.
From BBS Require Import Common.Sx Store.Model Store.Wf Run.RStore Run.R01.
Import ListNotations.

Definition m01_init : m01 :=
  {| m_puts := []; m_gets := []; m_gfcs := []; m_uploaded := []; m_corrupted := false; m_viol := [] |}.

Definition model_obs (w : world) (es : list op) : list sx :=
  map (fun '(e, (s0, s1, o)) => enc_obs (w_cfg w) e s0 s1 o)
      (combine es (run_states w (init_state (w_cfg w)) es)).

Definition mon01_model (w : world) (es : list op) : list Z :=
  m_viol (mon01_run w m01_init es (model_obs w es)).

Lemma mon01_reduces (inp : sx) :
  mon01 inp (run_store inp) = dedupZ (mon01_model (dec_world inp) (dec_ops inp)).
Proof. reflexivity. Qed.
