(** C05, idempotence part 4: witnesses.  Clauses 4 and 7 of the R05 monitor
    ARE reported on the model when the model's own [wrote] is used as the
    write count (findings F8 and F12; both schedules replay on the real
    implementation: corpus/C05/f8-..., f12-...), and non-vacuity instances
    for the idempotence theorems. *)
From Coq Require Import List NArith ZArith Bool Arith Lia.
From BBS Require Import Common.Sx Store.Model Store.Wf Store.WfTids Run.RStore Run.R01 Run.R05.
From BBS Require Import Store.P05Cnt Store.P05Frame Store.P05Ops Store.P05Step Store.P05Surv Store.P05Mon
                        Store.P05Inv Store.P05Main Store.P05Touch Store.P05Wit.
Import ListNotations.
Open Scope Z_scope.

(** Witness F8 (corpus/C05/f8-repeated-multidigest-findmissing-writes.case):
    block device with 6 regions, old=2, cur=0, new=1, one object per block.
    Objects 0 and 1 sit in old blocks; the first FindMissing copies both, the
    copy of object 1 rotates the block holding the fresh copy of object 0
    into the old region; the immediately repeated FindMissing copies object
    0 again. *)
Definition cfgF8 : config :=
  {| c_bs := 4%N; c_old := 2; c_cur := 0; c_new := 1; c_mutable := false; c_nblocks := 6;
     c_hier := false; c_inst_keys := false; c_validate := false |}.
Definition wF8 : world := world_of cfgF8.
Definition esF8 : list op :=
  put 1 0 ++ put 2 1 ++ put 3 2 ++ [OFindMissing [(0, 0); (1, 0)]%nat; OFindMissing [(0, 0); (1, 0)]%nat].

Example witnessF8_wellformed :
  wf_world wF8 = true /\ wf_ops wF8 [] esF8 = true /\ wf_tids esF8 = true /\
  dec_world (enc_inp wF8 esF8) = wF8 /\ dec_ops (enc_inp wF8 esF8) = esF8.
Proof. vm_compute. repeat split. Qed.
Example witnessF8_integrity : integ wF8 (init_state (w_cfg wF8)) esF8.
Proof. vm_compute. repeat split. Qed.
(** both calls report both objects present; both calls wrote *)
Example witnessF8_run :
  map (fun x => match x with (e, (s0, s1, mo)) => (mo, wrote wF8 s0 e s1) end) (skipn 9 (run_x wF8 esF8))
  = [(Missing cOK [], true); (Missing cOK [], true)].
Proof. vm_compute. reflexivity. Qed.
Example clause4_refuted : mon05 (enc_inp wF8 esF8) (run05 (enc_inp wF8 esF8)) = [4].
Proof. vm_compute. reflexivity. Qed.

(** Witness F12 (corpus/C05/f12-repeat-get-after-held-reader-writes.case):
    block device with 6 regions, old=2, cur=1, new=1, block size 16, one
    16-byte object.  The first Get's reader is held open while two uploads
    allocate blocks; the read completes; the immediately repeated Get copies
    the object again. *)
Definition objF12 : list N := [1; 196; 32; 185; 129; 74; 208; 18; 230; 91; 149; 179; 53; 249; 205; 224]%N.
Definition cfgF12 : config :=
  {| c_bs := 16%N; c_old := 2; c_cur := 1; c_new := 1; c_mutable := false; c_nblocks := 6;
     c_hier := false; c_inst_keys := false; c_validate := false |}.
Definition wF12 : world := {| w_cfg := cfgF12; w_objs := [objF12]; w_anc := [[0%nat]] |}.
Definition esF12 : list op :=
  [OPutStart 4 0 0; OPutChunk 4 objF12; OPutEnd 4 0; OGetOpen 8 0 0; OPutStart 9 0 0; OPutStart 0 0 0;
   OGetConsume 8; OGetOpen 13 0 0; OGetConsume 13].

Example witnessF12_wellformed :
  wf_world wF12 = true /\ wf_ops wF12 [] esF12 = true /\ wf_tids esF12 = true /\
  dec_world (enc_inp wF12 esF12) = wF12 /\ dec_ops (enc_inp wF12 esF12) = esF12.
Proof. vm_compute. repeat split. Qed.
Example witnessF12_integrity : integ wF12 (init_state (w_cfg wF12)) esF12.
Proof. vm_compute. repeat split. Qed.
(** the repeated Get-open (event 7) wrote; blocks were allocated while the
    first reader was open (2 push-backs when it was obtained, 3 before the repeat) *)
Example witnessF12_run :
  map (fun x => match x with (e, (s0, s1, mo)) => (s_pushbacks s1, wrote wF12 s0 e s1) end) (skipn 3 (run_x wF12 esF12))
  = [(2%nat, false); (2%nat, false); (3%nat, false); (3%nat, false); (4%nat, true); (4%nat, false)].
Proof. vm_compute. reflexivity. Qed.
Example clause7_refuted : mon05 (enc_inp wF12 esF12) (run05 (enc_inp wF12 esF12)) = [7].
Proof. vm_compute. reflexivity. Qed.
