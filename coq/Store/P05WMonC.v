(** C05, idempotence part 3c: which clauses the R05 monitor can report on
    the model's observations carrying the model's own write indication.

    [R2] relates the monitor's state to the early-stamping bookkeeping of
    P05Mon.v exactly as [R] does, except that the write clauses 2, 3, 4, 7
    may now appear among the reported violations; P05WMonB.v removes 2 and 3. *)
From Coq Require Import List NArith ZArith Bool Arith Lia Relations.
From BBS Require Import Common.Sx Store.Model Store.Wf Store.WfTids Run.RStore Run.R01 Run.R05.
From BBS Require Import Store.P05Cnt Store.P05Frame Store.P05Ops Store.P05Step Store.P05Surv Store.P05Mon
                        Store.P05Inv Store.P05Main Store.P05Touch.
From BBS Require Import Store.P05WInv Store.P05WRep Store.P05WMonA Store.P05WEnd Store.P05WFm Store.P05WFm2 Store.P05WMonB.
Import ListNotations.
Open Scope Z_scope.

Definition wcl (z : Z) : Prop := z = 2 \/ z = 3 \/ z = 4 \/ z = 7.
Definition V2 (m : m05) (g : g05) : Prop :=
  forall z, In z (t_viol m) -> (z = 1 /\ In 1 (g_viol g)) \/ wcl z \/ z = 5 \/ z = 6.
Definition R2 (m : m05) (g : g05) : Prop :=
  t_gets m = g_gets g /\ t_touched m = g_touched g /\ t_corrupt m = g_corrupt g /\ V2 m g.

Lemma lost_R2 w m g oi pb : R2 m g -> g_lost w g oi pb = negb (t_corrupt m) && recent w (t_touched m) oi pb.
Proof. intros (_ & B & C & _). unfold g_lost, recent. rewrite B, C. reflexivity. Qed.

Lemma loss_R2 w m g oi pb z : R2 m g -> In z (loss_clauses w m oi pb) ->
  (z = 1 /\ g_lost w g oi pb = true) \/ z = 5 \/ z = 6.
Proof.
  intros HR H. rewrite (lost_R2 w m g oi pb HR). unfold loss_clauses in H.
  destruct (t_corrupt m); [destruct H|].
  destruct (recent w (t_touched m) oi pb).
  - destruct H as [<-|[]]. left. split; reflexivity.
  - right. apply in_app_or in H. destruct H as [H|H].
    + destruct (recent w (t_late_get m) oi pb); [destruct H as [<-|[]]; left; reflexivity|destruct H].
    + destruct (recent w (t_late_fm m) oi pb); [destruct H as [<-|[]]; right; reflexivity|destruct H].
Qed.

Lemma R2_frame m g m' g' :
  R2 m g -> t_gets m' = g_gets g' -> t_touched m' = g_touched g' -> t_corrupt m' = g_corrupt g' ->
  t_viol m' = t_viol m -> incl (g_viol g) (g_viol g') -> R2 m' g'.
Proof.
  intros (_ & _ & _ & HV) A B C D E. split; [exact A|]. split; [exact B|]. split; [exact C|].
  intros z Hz. rewrite D in Hz. destruct (HV z Hz) as [[-> H1]|H]; [left; split; [reflexivity|apply E, H1]|right; exact H].
Qed.

Lemma R2_setprev m g p : R2 m g -> R2 (m_setprev m p) g.
Proof. intros HR. pose proof HR as (A & B & C & D). eapply R2_frame; eauto. apply incl_refl. Qed.

Lemma R2_viol_loss m g (ls : list Z) (lostb : bool) :
  R2 m g ->
  (forall z, In z ls -> (z = 1 /\ lostb = true) \/ z = 5 \/ z = 6) ->
  R2 (m_viol m ls) (if lostb then g_addviol g [1] else g).
Proof.
  intros (A & B & C & HV) HL.
  assert (I : incl (g_viol g) (g_viol (if lostb then g_addviol g [1] else g))).
  { destruct lostb; [cbn; apply incl_appl|]; apply incl_refl. }
  split; [destruct lostb; exact A|]. split; [destruct lostb; exact B|]. split; [destruct lostb; exact C|].
  intros z Hz. cbn [t_viol m_viol] in Hz. apply in_app_or in Hz. destruct Hz as [Hz|Hz].
  - destruct (HV z Hz) as [[-> H1]|H]; [left; split; [reflexivity|apply I, H1]|right; exact H].
  - destruct (HL z Hz) as [[-> H1]|H]; [|right; right; exact H]. subst lostb. left. split; [reflexivity|].
    cbn. apply in_or_app. right. left. reflexivity.
Qed.

Lemma R2_viol_extra m g (ls : list Z) : R2 m g -> (forall z, In z ls -> wcl z) -> R2 (m_viol m ls) g.
Proof.
  intros (A & B & C & HV) HL. split; [exact A|]. split; [exact B|]. split; [exact C|].
  intros z Hz. cbn [t_viol m_viol] in Hz. apply in_app_or in Hz. destruct Hz as [Hz|Hz]; [exact (HV z Hz)|].
  right. left. exact (HL z Hz).
Qed.

Lemma fold_R2 {X} (f : m05 -> X -> m05) (h : g05 -> X -> g05) :
  (forall a b x, R2 a b -> R2 (f a x) (h b x)) -> forall l a b, R2 a b -> R2 (fold_left f l a) (fold_left h l b).
Proof. intros H; induction l as [|x t IH]; intros a b HR; cbn; auto. Qed.

Lemma R2_generic w m g e s0 s1 mo :
  R2 m g -> R2 (if Z.eqb (ob_kind (enc_obs05 w e s0 s1 mo)) 3 then m else m_setprev m None) g.
Proof. intros H. destruct (Z.eqb _ 3); [exact H|apply R2_setprev; exact H]. Qed.

Lemma R2_step w m g x : R2 m g -> R2 (m05w_step w m x) (g05_step false w g x).
Proof.
  intros HR. pose proof HR as (RG & RT & RC & RV).
  destruct x as [e [[s0 s1] mo]]. unfold m05w_step.
  destruct e as [tid o i|tid data|tid err|tid o i|tid|ds|tid p i ch|tid slices|r off len].
  - unfold m05_step, g05_step. apply R2_generic; exact HR.
  - unfold m05_step, g05_step. apply R2_generic; exact HR.
  - unfold m05_step, g05_step. apply R2_generic; exact HR.
  - (* OGetOpen *)
    unfold m05_step, g05_step. rewrite obk, obc.
    destruct mo as [code bytes| |code dd|]; cbn [out_kind out_code]; cbn [Z.eqb Pos.eqb].
    + apply R2_setprev. destruct (Z.eqb code cNotFound); cbn [andb]; [|exact HR].
      apply R2_viol_loss; [exact HR|]. intros z Hz. eapply loss_R2; eauto.
    + apply R2_setprev. eapply R2_frame; [exact HR| | | | |apply incl_refl]; cbn; first [assumption|reflexivity|f_equal; assumption].
    + apply R2_setprev. destruct (Z.eqb code cNotFound); cbn [andb]; [|exact HR].
      apply R2_viol_loss; [exact HR|]. intros z Hz. eapply loss_R2; eauto.
    + change (Z.eqb 0 cNotFound) with false. cbv iota. cbn [andb]. apply R2_setprev. exact HR.
  - (* OGetConsume *)
    unfold m05_step, g05_step. rewrite RG, obok.
    destruct (assoc (g_gets g) tid) as [[oi p0]|]; [|apply R2_setprev; exact HR].
    set (m1 := m_setgets m (unassoc (g_gets g) tid)).
    assert (R1 : R2 m1 (g_setgets g (unassoc (g_gets g) tid))).
    { eapply R2_frame; [exact HR| | | | |apply incl_refl]; cbn; congruence. }
    match goal with |- R2 (if _ then m_setprev (m_late_get (m_touch ?M2 _ _) _ _) _ else _) _ => set (m2 := M2) end.
    assert (R2' : R2 m2 (g_setgets g (unassoc (g_gets g) tid))).
    { unfold m2. destruct (t_prev m) as [[[pe pb0] pw]|]; [|exact R1].
      destruct pe; try exact R1. destruct pb0; try exact R1.
      match goal with |- context [if ?C then _ else _] => destruct C end; [|exact R1].
      apply R2_viol_extra; [exact R1|]. intros z [<-|[]]. unfold wcl. destruct (pw <? 0); auto. }
    clearbody m2. destruct (out_ok mo).
    + apply R2_setprev. destruct R2' as (A & B & C & D). pose proof A as A'. pose proof B as B'. pose proof C as C'. cbn in A', B', C'.
      eapply R2_frame; [exact (conj A (conj B (conj C D)))| | | | |apply incl_refl]; cbn; congruence.
    + apply R2_setprev. exact R2'.
  - (* OFindMissing *)
    unfold m05_step, g05_step. rewrite obk, obc.
    destruct mo as [code bytes| |code mm|]; cbn [out_kind out_code]; cbn [Z.eqb Pos.eqb andb];
      try (apply R2_setprev; exact HR).
    rewrite obmiss.
    destruct (Z.eqb code 0); [|apply R2_setprev; exact HR].
    cbv zeta. apply R2_setprev. cbn [orb].
    unfold g_touch_all. apply fold_R2.
    + intros a b [pos oi] Hab. destruct (existsb (Nat.eqb pos) mm); [exact Hab|].
      unfold m_touch_fm. rewrite ltb_leb.
      destruct Hab as (A & B & C & D).
      destruct (Nat.leb (length ds) 1); cbn [negb];
        (eapply R2_frame; [exact (conj A (conj B (conj C D)))| | | | |apply incl_refl]; cbn; congruence).
    + set (lostb := existsb (fun '(pos, oi) => existsb (Nat.eqb pos) mm && g_lost w g oi (s_pushbacks s1)) (enumerate 0 ds)).
      set (ls := flat_map (fun '(pos, oi) => if existsb (Nat.eqb pos) mm then loss_clauses w m oi (s_pushbacks s1) else [])
                          (enumerate 0 ds)).
      assert (R1 : R2 (m_viol m ls) (if lostb then g_addviol g [1] else g)).
      { apply R2_viol_loss; [exact HR|]. intros z Hz. unfold ls in Hz. apply in_flat_map in Hz.
        destruct Hz as [[pos oi] [HI Hz]]. destruct (existsb (Nat.eqb pos) mm) eqn:EM; [|destruct Hz].
        destruct (loss_R2 w m g oi _ z HR Hz) as [[-> HL]|H]; [|right; exact H].
        left. split; [reflexivity|]. unfold lostb. apply existsb_exists. exists (pos, oi). split; [exact HI|].
        rewrite EM, HL. reflexivity. }
      destruct (t_prev m) as [[[pe pb0] pw]|]; [|exact R1].
      destruct pe; try exact R1. destruct pb0; try exact R1.
      match goal with |- context [if ?C then _ else _] => destruct C end; [|exact R1].
      apply R2_viol_extra; [exact R1|]. intros z [<-|[]]. unfold wcl.
      destruct (Nat.leb (length ds - length mm) 1); auto.
  - unfold m05_step, g05_step. apply R2_generic; exact HR.
  - unfold m05_step, g05_step. apply R2_generic; exact HR.
  - (* OCorrupt *)
    unfold m05_step, g05_step. eapply R2_frame; [exact HR| | | | |apply incl_refl]; cbn; congruence.
Qed.

Lemma fold_R2_steps w : forall xs m g, R2 m g ->
  R2 (fold_left (m05w_step w) xs m) (fold_left (g05_step false w) xs g).
Proof. induction xs as [|x t IH]; intros m g H; cbn [fold_left]; [exact H|]. apply IH, R2_step, H. Qed.

(** for ALL schedules with fresh thread ids: clauses 2 and 3 are never
    reported; anything reported is 4, 5, 6, 7 or a clause 1 that the
    early-stamping bookkeeping reports too *)
Theorem mon05w_model_clauses w es z :
  wf_tids es = true -> In z (mon05w_model w es) ->
  (z = 1 /\ mon05_early w es <> []) \/ z = 4 \/ z = 5 \/ z = 6 \/ z = 7.
Proof.
  intros WT H. unfold mon05w_model in H. apply dedupZ_in in H.
  assert (R0 : R2 m05_init g05_init).
  { unfold R2, V2; cbn. repeat split; auto. intros ? []. }
  destruct (fold_R2_steps w (run_x w es) _ _ R0) as (_ & _ & _ & D).
  pose proof (PI_run w es [] (init_state (w_cfg w)) m05_init (PI_init w) WT) as [N2 N3].
  change (xs_of w (init_state (w_cfg w)) es) with (run_x w es) in N2, N3.
  destruct (D z H) as [[-> H1]|[W|H1]].
  - left. split; [reflexivity|]. unfold mon05_early. intros E. apply dedupZ_nil in E. rewrite E in H1. destruct H1.
  - right. destruct W as [-> | [-> | [-> | ->]]]; [contradiction|contradiction|auto|auto].
  - right. destruct H1 as [-> | ->]; auto.
Qed.

(** with model integrity: clause 1 is not reported either *)
Theorem model_idempotent_C05 w es :
  wf_tids es = true -> integ w (init_state (w_cfg w)) es ->
  forall z, In z (mon05w_model w es) -> z = 4 \/ z = 5 \/ z = 6 \/ z = 7.
Proof.
  intros WT IG z H. destruct (mon05w_model_clauses w es z WT H) as [[_ N]|H1]; [|exact H1].
  exfalso. apply N. apply early_monitor_silent; assumption.
Qed.
