(** C01 proofs: provenance / thread-id part.  File B: what the
    sub-operations of the store do to the index and the thread list. *)
From Coq Require Import List NArith ZArith Bool Arith Lia.
From BBS Require Import Common.Sx Store.Model Store.Wf Store.WfTids Run.RStore Run.R01
  Store.P01Defs Store.P01Inv Store.P01ProvA.
Import ListNotations.
Local Open Scope nat_scope.

(** threads unchanged, new index entries have keys in [P] *)
Definition ext (P : key -> Prop) (s s' : state) : Prop :=
  s_threads s' = s_threads s /\ forall k l, In (k, l) (s_index s') -> In (k, l) (s_index s) \/ P k.

Lemma same_ext P s s' : same s s' -> ext P s s'.
Proof. intros [A B]. split; [exact B|]. intros k l H. left. rewrite <- A. exact H. Qed.
Lemma ext_refl P s : ext P s s. Proof. apply same_ext, same_refl. Qed.
Lemma ext_trans P a b c : ext P a b -> ext P b c -> ext P a c.
Proof.
  intros [A1 A2] [B1 B2]. split; [congruence|]. intros k l H.
  apply B2 in H. destruct H as [H|H]; [apply A2 in H; exact H|right; exact H].
Qed.
Lemma ext_weaken (P Q : key -> Prop) s s' : (forall k, P k -> Q k) -> ext P s s' -> ext Q s s'.
Proof. intros PQ [A B]. split; [exact A|]. intros k l H. apply B in H. destruct H; auto. Qed.
Lemma ext_same_l P a b c : same a b -> ext P b c -> ext P a c.
Proof. intros S E. eapply ext_trans; [apply same_ext; exact S|exact E]. Qed.
Lemma ext_same_r P a b c : ext P a b -> same b c -> ext P a c.
Proof. intros E S. eapply ext_trans; [exact E|apply same_ext; exact S]. Qed.
Lemma ext_icov w up P s s' :
  ext P s s' -> icov w up s -> (forall k, P k -> kcov w up k) -> icov w up s'.
Proof. intros [A B] I PK k l H. apply B in H. destruct H as [H|H]; [eapply I; eauto|auto]. Qed.

Lemma same_icov w up s s' : same s s' -> icov w up s -> icov w up s'.
Proof. intros [A B] I k l H. rewrite A in H. eapply I; eauto. Qed.

Lemma ext_index_put s k l : ext (fun k' => k' = k) s (index_put s k l).
Proof.
  split; [reflexivity|]. intros k' l' H. cbn in H. destruct H as [H|H]; [injection H as <- <-; right; reflexivity|left; exact H].
Qed.
Lemma ext_index_put_all ks l : forall s, ext (fun k' => In k' ks) s (index_put_all s ks l).
Proof.
  induction ks as [|k t IH]; intros s; cbn [index_put_all]; [apply ext_refl|].
  eapply ext_trans.
  - eapply ext_weaken; [|apply (ext_index_put s k l)]. intros k' ->. left; reflexivity.
  - eapply ext_weaken; [|apply IH]. intros k' H. right; exact H.
Qed.

Definition is_tget_of (o : nat) (P : key -> Prop) (t : thread) : Prop :=
  exists uid l rf fk, t = TGet o uid l rf fk /\ forall k, In k fk -> P k.

Lemma owr_spec w s o l fkeys r s' :
  open_with_refresh w s o l fkeys = (r, s') ->
  ext (fun k => In k fkeys) s s' /\
  match r with Ok t => is_tget_of o (fun k => In k fkeys) t | Err e => e <> 0%Z end.
Proof.
  unfold open_with_refresh. destruct (block_of_loc s l) as [b|].
  2:{ intros H; injection H as <- <-. split; [apply ext_refl|discriminate]. }
  pose proof (same_pin s (b_uid b)) as S1.
  destruct (needs_refresh s l).
  2:{ intros H; injection H as <- <-. split; [apply same_ext; exact S1|]. do 4 eexists. split; [reflexivity|auto]. }
  destruct (ocn_put (w_cfg w) (pin s (b_uid b)) (l_size l)) as [r2 s2] eqn:E2.
  apply ocn_put_spec in E2. destruct E2 as [S2 N2]. pose proof (same_trans _ _ _ S1 S2) as S2'.
  destruct r2 as [wr|e2].
  2:{ intros H; injection H as <- <-. split; [|apply N2; reflexivity].
      apply same_ext. eapply same_trans; [exact S2'|apply same_unpin]. }
  destruct (lockstep (w_cfg w)).
  { intros H; injection H as <- <-. split; [apply same_ext; exact S2'|]. do 4 eexists. split; [reflexivity|auto]. }
  match goal with |- context [finalize ?c ?x ?wr ?okk] => destruct (finalize c x wr okk) as [r4 s4] eqn:E4;
    pose proof (same_write_block s2 (wr_uid wr) (wr_off wr) (read_block s2 (b_uid b) (l_off l) (l_size l))) as S3 end.
  apply finalize_spec in E4. destruct E4 as [S4 N4].
  pose proof (same_trans _ _ _ S2' (same_trans _ _ _ S3 S4)) as S4'.
  destruct r4 as [nl|e4].
  - intros H; injection H as <- <-. split.
    + eapply ext_same_l; [exact S4'|]. apply ext_index_put_all.
    + do 4 eexists. split; [reflexivity|]. intros k [].
  - intros H; injection H as <- <-. split; [|apply N4; reflexivity].
    apply same_ext. eapply same_trans; [exact S4'|apply same_unpin].
Qed.

Lemma sfc_spec s o k cl s1 :
  sync_from_canonical s o k = Some (cl, s1) -> ext (fun k' => k' = k) s s1.
Proof.
  unfold sync_from_canonical. destruct (index_get s (canonical_key o)); [|discriminate].
  destruct (needs_refresh s l); [discriminate|]. intros H; injection H as <- <-. apply ext_index_put.
Qed.

Lemma get_open_spec w up s o i r s' :
  icov w up s -> get_open w s o i = (r, s') ->
  s_threads s' = s_threads s /\ icov w up s' /\
  match r with
  | Ok t => is_tget_of o (kcov w up) t /\ visible w up o i = true
  | Err e => e <> 0%Z
  end.
Proof.
  intros I. unfold get_open.
  destruct (least_specific s (lookup_keys w o i)) as [[k l]|] eqn:EL.
  2:{ intros H; injection H as <- <-. split; [reflexivity|]. split; [exact I|discriminate]. }
  destruct (icov_ls_visible _ _ _ _ _ _ _ I EL) as [V K].
  assert (FIN : forall s0 l0 fk, icov w up s0 -> s_threads s0 = s_threads s ->
            (forall k', In k' fk -> kcov w up k') ->
            open_with_refresh w s0 o l0 fk = (r, s') ->
            s_threads s' = s_threads s /\ icov w up s' /\
            match r with
            | Ok t => is_tget_of o (kcov w up) t /\ visible w up o i = true
            | Err e => e <> 0%Z
            end).
  { intros s0 l0 fk I0 T0 FK H. apply owr_spec in H. destruct H as [X R].
    split; [destruct X; congruence|]. split; [eapply ext_icov; eauto|].
    destruct r; [|exact R]. split; [|exact V].
    destruct R as (uid & l' & rf & fk' & -> & Hs). do 4 eexists. split; [reflexivity|]. auto. }
  destruct (negb (needs_refresh s l)).
  { apply FIN; auto. intros k' []. }
  destruct (c_hier (w_cfg w)) eqn:Eh.
  - destruct (sync_from_canonical s o k) as [[cl s1]|] eqn:ES.
    + apply sfc_spec in ES. apply FIN.
      * eapply ext_icov; eauto. intros k' ->. exact K.
      * destruct ES; assumption.
      * intros k' [].
    + apply FIN; auto. intros k' [<-|[<-|[]]]; [apply kcov_canonical; exact Eh|exact K].
  - apply FIN; auto. intros k' [<-|[]]. exact K.
Qed.

Lemma get_consume_spec w s o uid l rf fkeys code bytes s' :
  get_consume w s o uid l rf fkeys = (code, bytes, s') ->
  ext (fun k => In k fkeys) s s' /\
  (c_validate (w_cfg w) = true -> code = cOK -> bytes = content w o).
Proof.
  unfold get_consume.
  destruct (read_validated w s o uid l) as [[valid rb] s1] eqn:E1.
  apply read_validated_spec in E1. destruct E1 as [S1 V1].
  assert (TAIL : forall (tc : Z) s2, ext (fun k => In k fkeys) s s2 ->
     (if negb valid then (cInternal, @nil N, unpin (w_cfg w) s2 uid)
      else if Z.eqb tc cOK then (cOK, rb, unpin (w_cfg w) s2 uid) else (tc, [], unpin (w_cfg w) s2 uid))
     = (code, bytes, s') ->
     ext (fun k => In k fkeys) s s' /\
     (c_validate (w_cfg w) = true -> code = cOK -> bytes = content w o)).
  { intros tc s2 X H.
    assert (X' : ext (fun k => In k fkeys) s (unpin (w_cfg w) s2 uid)) by (eapply ext_same_r; [exact X|apply same_unpin]).
    destruct valid; cbn [negb] in H.
    - destruct (Z.eqb tc cOK) eqn:Etc.
      + injection H as <- <- <-. split; [exact X'|]. intros Hv _. apply V1; auto.
      + injection H as <- <- <-. split; [exact X'|]. intros _ Hc. subst tc. discriminate.
    - injection H as <- <- <-. split; [exact X'|]. intros _ Hc. discriminate. }
  destruct rf as [wr|].
  - match goal with |- context [finalize ?c ?x ?wr ?okk] => destruct (finalize c x wr okk) as [r4 s4] eqn:E4 end.
    apply finalize_spec in E4. destruct E4 as [S4 _].
    assert (S14 : same s s4).
    { eapply same_trans; [exact S1|]. eapply same_trans; [|exact S4].
      destruct valid; [apply same_write_block|apply same_refl]. }
    destruct r4 as [nl|e4].
    + apply TAIL. eapply ext_same_l; [exact S14|apply ext_index_put_all].
    + apply TAIL. apply same_ext. exact S14.
  - apply TAIL. apply same_ext. exact S1.
Qed.

Definition fm_res (w : world) (up : list (nat * nat)) (o i : nat) (r : res bool) : Prop :=
  match r with Ok true => visible w up o i = true | Ok false => True | Err e => e <> 0%Z end.

Lemma fm_refresh_one_spec w up s o i r s' :
  icov w up s -> fm_refresh_one w s o i = (r, s') ->
  s_threads s' = s_threads s /\ icov w up s' /\ fm_res w up o i r.
Proof.
  intros IC. unfold fm_refresh_one.
  destruct (least_specific s (lookup_keys w o i)) as [[k l]|] eqn:EL.
  2:{ intros H; injection H as <- <-. split; [reflexivity|]. split; [exact IC|exact I]. }
  destruct (icov_ls_visible _ _ _ _ _ _ _ IC EL) as [V K].
  destruct (negb (needs_refresh s l)).
  { intros H; injection H as <- <-. split; [reflexivity|]. split; [exact IC|exact V]. }
  assert (SLOW : forall fk, (forall k', In k' fk -> kcov w up k') ->
    match block_of_loc s l with
    | None => (Err (-3)%Z, s)
    | Some b =>
        let s0 := pin s (b_uid b) in
        match ocn_put (w_cfg w) s0 (l_size l) with
        | (Err e, s1) => (Err e, unpin (w_cfg w) s1 (b_uid b))
        | (Ok wr, s1) =>
            let '(valid, bytes, s2) := read_validated w s1 o (b_uid b) l in
            let s2' := if valid then write_block s2 (wr_uid wr) (wr_off wr) bytes else s2 in
            let s2'' := unpin (w_cfg w) s2' (b_uid b) in
            match finalize (w_cfg w) s2'' wr valid with
            | (Err e, s3) => (Err (if valid then e else cInternal), s3)
            | (Ok nl, s3) => (Ok true, index_put_all s3 fk nl)
            end
        end
    end = (r, s') ->
    s_threads s' = s_threads s /\ icov w up s' /\ fm_res w up o i r).
  { intros fk FK. destruct (block_of_loc s l) as [b|].
    2:{ intros H; injection H as <- <-. split; [reflexivity|]. split; [exact IC|discriminate]. }
    cbv zeta. pose proof (same_pin s (b_uid b)) as S0.
    destruct (ocn_put (w_cfg w) (pin s (b_uid b)) (l_size l)) as [r1 s1] eqn:E1.
    apply ocn_put_spec in E1. destruct E1 as [S1 N1]. pose proof (same_trans _ _ _ S0 S1) as S1'.
    destruct r1 as [wr|e1].
    2:{ intros H; injection H as <- <-.
        assert (X : same s (unpin (w_cfg w) s1 (b_uid b))) by (eapply same_trans; [exact S1'|apply same_unpin]).
        split; [apply X|]. split; [eapply same_icov; eauto|]. apply N1; reflexivity. }
    destruct (read_validated w s1 o (b_uid b) l) as [[valid rb] s2] eqn:E2.
    apply read_validated_spec in E2. destruct E2 as [S2 _].
    match goal with |- context [finalize ?c ?x ?wr ?okk] => destruct (finalize c x wr okk) as [r4 s4] eqn:E4 end.
    apply finalize_spec in E4. destruct E4 as [S4 N4].
    assert (S14 : same s s4).
    { eapply same_trans; [exact S1'|]. eapply same_trans; [exact S2|]. eapply same_trans; [|exact S4].
      eapply same_trans; [|apply same_unpin]. destruct valid; [apply same_write_block|apply same_refl]. }
    destruct r4 as [nl|e4].
    - intros H; injection H as <- <-.
      assert (X : ext (fun k' => In k' fk) s (index_put_all s4 fk nl)) by (eapply ext_same_l; [exact S14|apply ext_index_put_all]).
      split; [apply X|]. split; [eapply ext_icov; eauto|exact V].
    - intros H; injection H as <- <-. split; [apply S14|]. split; [eapply same_icov; eauto|].
      cbn [fm_res]. destruct valid; [apply N4; reflexivity|discriminate]. }
  destruct (c_hier (w_cfg w)) eqn:Eh.
  - destruct (sync_from_canonical s o k) as [[cl s1]|] eqn:ES.
    + apply sfc_spec in ES. intros H; injection H as <- <-. split; [apply ES|]. split; [|exact V].
      eapply ext_icov; eauto. intros k' ->. exact K.
    + apply SLOW. intros k' [<-|[<-|[]]]; [apply kcov_canonical; exact Eh|exact K].
  - apply SLOW. intros k' [<-|[]]. exact K.
Qed.

Definition fm_out (w : world) (up : list (nat * nat)) (todo : list (nat * (nat * nat))) (missing : list nat)
  (m : res (list nat)) : Prop :=
  match m with
  | Ok ml => (forall x, In x missing -> In x ml) /\
             (forall pos o i, In (pos, (o, i)) todo -> In pos ml \/ visible w up o i = true)
  | Err e => e <> 0%Z
  end.

Lemma fm_phase2_spec w up : forall todo s missing m s',
  icov w up s -> fm_phase2 w s todo missing = (m, s') ->
  s_threads s' = s_threads s /\ icov w up s' /\ fm_out w up todo missing m.
Proof.
  induction todo as [|[pos [o i]] t IH]; intros s missing m s' IC; cbn [fm_phase2].
  - intros H; injection H as <- <-. split; [reflexivity|]. split; [exact IC|].
    split; [auto|]. intros pos o i [].
  - destruct (fm_refresh_one w s o i) as [r1 s1] eqn:E1.
    apply (fm_refresh_one_spec w up) in E1; [|exact IC]. destruct E1 as (T1 & I1 & V1).
    destruct r1 as [[|]|e1]; cbn [fm_res] in V1.
    + intros H. apply IH in H; [|exact I1]. destruct H as (T2 & I2 & R2).
      split; [congruence|]. split; [exact I2|]. destruct m as [ml|e]; [|exact R2]. destruct R2 as [A B].
      split; [exact A|]. intros pos' o' i' [X|X]; [injection X as <- <- <-; right; auto|eauto].
    + intros H. apply IH in H; [|exact I1]. destruct H as (T2 & I2 & R2).
      split; [congruence|]. split; [exact I2|]. destruct m as [ml|e]; [|exact R2]. destruct R2 as [A B].
      split; [intros x Hx; apply A, in_or_app; left; exact Hx|].
      intros pos' o' i' [X|X]; [injection X as <- <- <-; left; apply A, in_or_app; right; left; reflexivity|eauto].
    + intros H; injection H as <- <-. split; [exact T1|]. split; [exact I1|exact V1].
Qed.

Lemma find_missing_spec w up s ds m s' :
  icov w up s -> find_missing w s ds = (m, s') ->
  s_threads s' = s_threads s /\ icov w up s' /\
  match m with
  | Ok ml => forall pos o i, In (pos, (o, i)) (enumerate 0 ds) -> In pos ml \/ visible w up o i = true
  | Err e => e <> 0%Z
  end.
Proof.
  intros IC. unfold find_missing. intros H. apply (fm_phase2_spec w up) in H; [|exact IC].
  destruct H as (T & I' & R). split; [exact T|]. split; [exact I'|].
  destruct m as [ml|e]; [|exact R]. destruct R as [A B].
  intros pos o i Hin.
  destruct (least_specific s (lookup_keys w o i)) as [[k l]|] eqn:EL.
  - destruct (icov_ls_visible _ _ _ _ _ _ _ IC EL) as [V K]. right; exact V.
  - left. apply A. apply in_map_iff. exists (pos, (o, i)). split; [reflexivity|].
    apply filter_In. split; [exact Hin|]. rewrite EL. reflexivity.
Qed.

Lemma put_start_spec w s o i r s' :
  put_start w s o i = (r, s') ->
  same s s' /\
  match r with
  | Ok t => (exists wr, t = TPut o i wr []) \/ (t = TPutExisting o i [] /\ c_hier (w_cfg w) = true)
  | Err _ => True
  end.
Proof.
  unfold put_start.
  match goal with |- context [if ?b then (Ok (TPutExisting o i []), s) else _] => destruct b eqn:EX end.
  - intros H; injection H as <- <-. split; [apply same_refl|]. right. split; [reflexivity|].
    destruct (c_hier (w_cfg w)); [reflexivity|discriminate].
  - destruct (ocn_put (w_cfg w) s (osize w o)) as [r1 s1] eqn:E1. apply ocn_put_spec in E1. destruct E1 as [S1 _].
    destruct r1 as [wr|e]; intros H; injection H as <- <-; (split; [exact S1|]); [left; eexists; reflexivity|exact Logic.I].
Qed.
