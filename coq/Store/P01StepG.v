(** C01 proofs: every non-corrupting event preserves the store invariant,
    raises no negative verdict and reads correctly; the initial state
    satisfies the invariant. *)
From Coq Require Import List NArith ZArith Bool Arith Lia Permutation.
From BBS Require Import Store.Model Store.Wf Store.P01Inv Store.P01Thr Store.P01StepA Store.P01StepB
  Store.P01StepC Store.P01StepD Store.P01StepE Store.P01StepF.
Import ListNotations.
Open Scope N_scope.

Lemma SInv_init w : SInv w (init_state (w_cfg w)).
Proof.
  constructor.
  - constructor.
    + constructor; unfold live, abs_end; cbn [init_state s_blocks s_zombies s_free s_old s_cur s_new
        s_released s_tbr s_dev s_index s_next_uid s_next_region app map length].
      * reflexivity.
      * split; cbn; lia.
      * constructor.
      * intros b [].
      * apply seq_NoDup.
      * intros _ b [].
      * unfold in_memory. intros H. apply Nat.eqb_eq in H. rewrite H. reflexivity.
      * intros b [].
      * intros b [].
      * intros r _. left. reflexivity.
      * intros k l [].
    + constructor; cbn [init_state s_blocks s_zombies]; intros b [].
    + constructor; unfold claims; cbn [init_state s_threads s_index claims_of_threads flat_map].
      * intros x [].
      * intros k l [].
      * exact Logic.I.
      * intros wr acc k l [].
  - cbn. constructor.
  - cbn. intros tid t [].
Qed.

Theorem step_all (I : iface) w s e :
  wf_config (w_cfg w) = true -> SInv w s -> is_corrupt e = false -> step_wf w s e ->
  SInv w (fst (step w s e)) /\ read_ok w s e (fst (step w s e)) (snd (step w s e)).
Proof.
  intros Hwf HS Hc Hswf.
  destruct e as [tid o i|tid data|tid err|tid o i|tid|ds|tid p i ch|tid slices|r off len].
  - unfold step. cbn [may_take_refresh_lock is_corrupt andb].
    destruct (thr_get (s_threads s) tid) as [t|] eqn:Hg.
    + cbn [fst snd]. split; [exact HS|]. split; [reflexivity|exact Logic.I].
    + destruct (step_put_start I w Hwf s tid o i HS Hg) as [A B].
      split; [exact A|]. split; [exact B|].
      exact Logic.I.
  - unfold step. cbn [may_take_refresh_lock is_corrupt andb].
    destruct (step_put_chunk I w s tid data HS) as [A B].
    split; [exact A|]. split; [exact B|].
    exact Logic.I.
  - unfold step. cbn [may_take_refresh_lock is_corrupt andb].
    destruct (step_put_end I w s tid err HS) as [A B].
    split; [exact A|]. split; [exact B|].
    exact Logic.I.
  - unfold step. cbn [may_take_refresh_lock is_corrupt andb].
    destruct (thr_get (s_threads s) tid) as [t|] eqn:Hg.
    + cbn [fst snd]. split; [exact HS|]. split; [reflexivity|exact Logic.I].
    + destruct (step_get_open I w Hwf s tid o i HS Hg) as [A B].
      split; [exact A|]. split; [exact B|].
      exact Logic.I.
  - unfold step. cbn [may_take_refresh_lock is_corrupt andb].
    exact (step_get_consume I w s tid HS).
  - unfold step. cbn [may_take_refresh_lock is_corrupt andb].
    destruct (refresh_lock_held s).
    + cbn [fst snd]. split; [exact HS|]. split; [reflexivity|exact Logic.I].
    + destruct (step_find_missing I w Hwf s ds HS) as [A B].
      split; [exact A|]. split; [exact B|].
      exact Logic.I.
  - exact (step_gfc_start I w Hwf s tid p i ch HS).
  - exact (step_gfc_slice I w s tid slices HS Hswf).
  - discriminate Hc.
Qed.
