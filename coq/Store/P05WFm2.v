(** C05, idempotence part 8: the whole FindMissing call.
    [find_missing_leaves]: what a successful call leaves behind;
    [repeat_call_count]: if the digest copied last by the previous call is
    still found not old and the repeated call changes an allocation cursor,
    the repeated call reports at least two digests present. *)
From Coq Require Import List NArith ZArith Bool Arith Lia Relations.
From Coq Require Import ZifyN ZifyNat ZifyBool.
From BBS Require Import Common.Sx Store.Model Store.Wf Store.WfTids Run.RStore Run.R01 Run.R05.
From BBS Require Import Store.P05Cnt Store.P05Frame Store.P05Ops Store.P05Step Store.P05Surv Store.P05Mon
                        Store.P05Inv Store.P05Main Store.P05Touch.
From BBS Require Import Store.P05WInv Store.P05WRep Store.P05WEnd Store.P05WFm.
Import ListNotations.
Open Scope N_scope.

(** the three invariants of reachable states used here *)
Definition sinv (w : world) (s : state) : Prop :=
  kinv (w_cfg w) (proj s) /\ einv s /\ (c_hier (w_cfg w) = true -> hinv s).

Lemma sinv_refresh_one w s o i r s1 : sinv w s -> fm_refresh_one w s o i = (r, s1) -> sinv w s1.
Proof.
  intros (K & E & H) FR. split; [|split].
  - pose proof FR as FR'. apply fm_refresh_one_spec in FR'; [|exact K]. destruct FR' as (F & _). eapply frx_kinv; eauto.
  - eapply fm_refresh_one_e; eauto.
  - intros Hh. eapply fm_refresh_one_h; eauto.
Qed.

Lemma ls_none_KV w s s' o i :
  KV w s s' -> least_specific s (lookup_keys w o i) = None -> least_specific s' (lookup_keys w o i) = None.
Proof.
  intros HK LN. apply ls_none_intro. intros k Hk.
  destruct (index_get s' k) as [l|] eqn:E; [|reflexivity]. exfalso.
  apply (HK k (lookup_lkey w o i k Hk)); [congruence|]. eapply least_specific_none; eauto.
Qed.

(** every digest of the call is settled or not found *)
Definition FMI (w : world) (s : state) (ds : list (nat * nat)) : Prop :=
  forall o i, In (o, i) ds -> settled w s o i \/ least_specific s (lookup_keys w o i) = None.

Definition NC (w : world) (s s' : state) (todo : list (nat * (nat * nat))) : Prop :=
  proj s' = proj s /\ incl (s_index s) (s_index s') /\
  (forall o' i', LSF w s o' i' -> LSF w s' o' i') /\
  (forall pos o i, In (pos, (o, i)) todo -> settled w s' o i \/ least_specific s' (lookup_keys w o i) = None).

Lemma fm_phase2_inv w : forall todo s missing m s',
  sinv w s -> fm_phase2 w s todo missing = (Ok m, s') ->
  KV w s s' /\
  (forall pos, In pos m -> In pos missing \/
     exists o i, In (pos, (o, i)) todo /\ least_specific s' (lookup_keys w o i) = None) /\
  (NC w s s' todo \/ exists pos o i, In (pos, (o, i)) todo /\ LSF w s' o i).
Proof.
  induction todo as [|[pos0 [o0 i0]] t IH]; intros s missing m s' SI H; cbn [fm_phase2] in H.
  - inversion H; subst. split; [apply KV_refl|]. split; [auto|]. left.
    split; [reflexivity|]. split; [apply incl_refl|]. split; [auto|]. intros ? ? ? [].
  - destruct (fm_refresh_one w s o0 i0) as [r1 s1] eqn:E1.
    pose proof (sinv_refresh_one _ _ _ _ _ _ SI E1) as SI1.
    destruct SI as (K & EI & HH).
    apply fm_refresh_one_inv in E1; auto. destruct E1 as (KV1 & R1).
    destruct r1 as [[|]|e]; [| |discriminate].
    + (* present *)
      apply IH in H; [|exact SI1]. destruct H as (KV2 & I2 & D2).
      split; [eapply KV_trans; eauto|]. split.
      * intros pos Hp. destruct (I2 pos Hp) as [X|(o & i & X1 & X2)]; [auto|].
        right. exists o, i. split; [right; exact X1|exact X2].
      * destruct D2 as [(P2 & IX2 & L2 & T2)|(pos & o & i & X1 & X2)].
        2:{ right. exists pos, o, i. split; [right; exact X1|exact X2]. }
        destruct R1 as [(P1 & IX1 & ST1 & L1)|LF1].
        -- left. split; [congruence|]. split; [eapply incl_tran; eauto|]. split; [auto|].
           intros pos o i [E|Hin].
           ++ inversion E; subst. left. eapply settled_same; eauto.
           ++ exact (T2 pos o i Hin).
        -- right. exists pos0, o0, i0. split; [left; reflexivity|auto].
    + (* missing *)
      destruct R1 as [-> LN].
      apply IH in H; [|exact SI1]. destruct H as (KV2 & I2 & D2).
      split; [exact KV2|]. split.
      * intros pos Hp. destruct (I2 pos Hp) as [X|(o & i & X1 & X2)].
        -- apply in_app_or in X. destruct X as [X|[X|[]]]; [auto|]. subst pos.
           right. exists o0, i0. split; [left; reflexivity|]. eapply ls_none_KV; eauto.
        -- right. exists o, i. split; [right; exact X1|exact X2].
      * destruct D2 as [(P2 & IX2 & L2 & T2)|(pos & o & i & X1 & X2)].
        -- left. split; [exact P2|]. split; [exact IX2|]. split; [exact L2|].
           intros pos o i [E|Hin].
           ++ inversion E; subst. right. eapply ls_none_KV; eauto.
           ++ exact (T2 pos o i Hin).
        -- right. exists pos, o, i. split; [right; exact X1|exact X2].
Qed.

Lemma enumerate_nth {T} (l : list T) : forall n p x, nth_error l p = Some x -> In ((n + p)%nat, x) (enumerate n l).
Proof.
  induction l as [|y t IH]; intros n p x H; [destruct p; discriminate|].
  destruct p; cbn in *.
  - inversion H; subst. left. f_equal. lia.
  - right. replace (n + S p)%nat with (S n + p)%nat by lia. apply IH. exact H.
Qed.
Lemma enumerate_length {T} (l : list T) : forall n, length (enumerate n l) = length l.
Proof. induction l as [|y t IH]; intros n; cbn; [reflexivity|]. rewrite IH. reflexivity. Qed.

(** what a successful FindMissing leaves behind *)
Theorem find_missing_leaves w s ds m s1 :
  sinv w s -> find_missing w s ds = (Ok m, s1) ->
  FMI w s1 ds \/ (exists pos o i, nth_error ds pos = Some (o, i) /\ LSF w s1 o i).
Proof.
  intros SI H. pose proof SI as (K & EI & HH). unfold find_missing in H.
  set (numbered := enumerate 0 ds) in *.
  set (f1 := fun '(_, (o, i)) => match least_specific s (lookup_keys w o i) with None => true | Some _ => false end) in H.
  set (f2 := fun '(_, (o, i)) => match least_specific s (lookup_keys w o i) with
                                   | Some (_, l) => needs_refresh s l | None => false end) in H.
  pose proof H as H0. apply fm_phase2_inv in H; [|exact SI]. destruct H as (KV1 & _ & D).
  assert (SI1 : sinv w s1).
  { split; [|split].
    - apply fm_phase2_frx in H0; [|exact K]. eapply frx_kinv; eauto.
    - eapply fm_phase2_e; eauto.
    - intros Hh. eapply fm_phase2_h; eauto. }
  destruct D as [(P & IX & LP & T)|(pos & o & i & X1 & X2)].
  - left. intros o i Hin.
    apply In_nth_error in Hin. destruct Hin as [p Hp].
    pose proof (enumerate_nth ds 0 p (o, i) Hp) as HN. cbn in HN. fold numbered in HN.
    destruct (least_specific s (lookup_keys w o i)) as [[k l]|] eqn:LS.
    + destruct (needs_refresh s l) eqn:NR.
      * apply (T p o i). apply filter_In. split; [exact HN|]. cbn. rewrite LS. exact NR.
      * left. apply LSF_settled; [exact (proj2 (proj2 SI1))|]. apply LP. exists k, l. auto.
    + right. eapply ls_none_KV; eauto.
  - right. apply filter_In in X1. destruct X1 as [X1 _]. apply enumerate_in in X1. destruct X1 as [_ X1].
    exists (pos - 0)%nat, o, i. auto.
Qed.

(** ---- counting the digests reported missing by the repeated call ---- *)
Lemma fm_phase2_count w : forall todo s missing m s',
  sinv w s -> fm_phase2 w s todo missing = (Ok m, s') ->
  (length m <= length missing + length todo)%nat /\
  (sigs s' = sigs s \/ (length m + 1 <= length missing + length todo)%nat).
Proof.
  induction todo as [|[pos0 [o0 i0]] t IH]; intros s missing m s' SI H; cbn [fm_phase2] in H.
  - inversion H; subst. cbn. split; [lia|left; reflexivity].
  - destruct (fm_refresh_one w s o0 i0) as [r1 s1] eqn:E1.
    pose proof (sinv_refresh_one _ _ _ _ _ _ SI E1) as SI1.
    destruct SI as (K & EI & HH).
    apply fm_refresh_one_inv in E1; auto. destruct E1 as (_ & R1).
    destruct r1 as [[|]|e]; [| |discriminate].
    + apply IH in H; [|exact SI1]. destruct H as [L _]. cbn [length]. split; [lia|right; lia].
    + destruct R1 as [-> _]. apply IH in H; [|exact SI1]. destruct H as [L D].
      rewrite app_length in L, D. cbn [length] in *. split; [lia|]. destruct D as [D|D]; [left; exact D|right; lia].
Qed.

Lemma filter_count {X} (f1 f2 : X -> bool) : (forall y, f1 y && f2 y = false) ->
  forall l, (length (filter f1 l) + length (filter f2 l) <= length l)%nat /\
            (forall x, In x l -> f1 x = false -> f2 x = false ->
               (length (filter f1 l) + length (filter f2 l) + 1 <= length l)%nat).
Proof.
  intros EX. induction l as [|y t [IH1 IH2]]; cbn [filter length]; [split; [lia|intros x []]|].
  specialize (EX y).
  destruct (f1 y) eqn:E1, (f2 y) eqn:E2; cbn [length]; try discriminate.
  - split; [lia|]. intros x [->|Hx] A B; [congruence|]. specialize (IH2 x Hx A B). lia.
  - split; [lia|]. intros x [->|Hx] A B; [congruence|]. specialize (IH2 x Hx A B). lia.
  - split; [lia|]. intros x [->|Hx] A B; [lia|]. specialize (IH2 x Hx A B). lia.
Qed.

Lemma length_insert_nat n l : length (insert_nat n l) = S (length l).
Proof. induction l as [|h t IH]; cbn; [reflexivity|]. destruct (Nat.leb n h); cbn; [reflexivity|]. rewrite IH. reflexivity. Qed.
Lemma length_sort_nat l : length (sort_nat l) = length l.
Proof. unfold sort_nat. induction l as [|h t IH]; cbn; [reflexivity|]. rewrite length_insert_nat, IH. reflexivity. Qed.

Theorem repeat_call_count w s1 ds m2 s2 pos o i :
  sinv w s1 -> nth_error ds pos = Some (o, i) -> LSF w s1 o i ->
  find_missing w s1 ds = (Ok m2, s2) -> sigs s2 <> sigs s1 ->
  (length m2 + 2 <= length ds)%nat.
Proof.
  intros SI HN (k & l & LS & NR) H NE. unfold find_missing in H.
  set (numbered := enumerate 0 ds) in *.
  set (f1 := fun '(_, (o, i)) => match least_specific s1 (lookup_keys w o i) with None => true | Some _ => false end) in H.
  set (f2 := fun '(_, (o, i)) => match least_specific s1 (lookup_keys w o i) with
                                   | Some (_, l) => needs_refresh s1 l | None => false end) in H.
  apply fm_phase2_count in H; [|exact SI]. destruct H as [_ [E|L]]; [contradiction|].
  rewrite map_length in L.
  assert (EX : forall y, f1 y && f2 y = false).
  { intros [p [o' i']]. cbn. destruct (least_specific s1 (lookup_keys w o' i')) as [[? ?]|]; reflexivity. }
  pose proof (enumerate_nth ds 0 pos (o, i) HN) as HI. cbn in HI. fold numbered in HI.
  destruct (filter_count f1 f2 EX numbered) as [_ C].
  specialize (C (pos, (o, i)) HI). cbn in C. rewrite LS, NR in C. specialize (C eq_refl eq_refl).
  unfold numbered in C at 3. rewrite enumerate_length in C. lia.
Qed.
