(** C01 proofs: OGfcSlice. *)
From Coq Require Import List NArith ZArith Bool Arith Lia Permutation.
From BBS Require Import Store.Model Store.Wf Store.P01Inv Store.P01Thr Store.P01StepA Store.P01StepC.
Import ListNotations.
Open Scope N_scope.

Section Steps.
Hypothesis I : iface.
Variable w : world.
Hypothesis Hwf : wf_config (w_cfg w) = true.
Let c := w_cfg w.

Definition mk_children (i : nat) (ploc : loc) (slices : list (nat * (N * N))) (s' : state) : state :=
  fold_left (fun acc '(cho, (off, len)) =>
               index_put acc (flat_key (w_cfg w) cho i)
                         {| l_abs := l_abs ploc; l_off := l_off ploc + off; l_size := len |})
            slices s'.

Lemma mk_inv cl i pk pl slices : forall s,
  DInv w cl s -> In (pk, pl) (s_index s) -> loc_valid s pl = true -> slices_ok w (fst pk) slices ->
  DInv w cl (mk_children i pl slices s) /\ frame_tn s (mk_children i pl slices s).
Proof.
  unfold mk_children. induction slices as [|[cho [off len]] t IH]; intros s HD Hin Hv Hs; cbn [fold_left].
  - split; [exact HD|apply frame_tn_refl].
  - destruct (Hs cho off len (or_introl eq_refl)) as [Hc Hl].
    assert (HD1 : DInv w cl (index_put s (flat_key (w_cfg w) cho i)
                    {| l_abs := l_abs pl; l_off := l_off pl + off; l_size := len |})).
    { eapply (i_index_put_sub I); [exact HD|exact Hin|exact Hv| |exact Hl].
      rewrite flat_key_fst. exact Hc. }
    destruct (IH _ HD1) as [A B].
    + cbn. right. exact Hin.
    + exact Hv.
    + intros a b d H. apply Hs. right. exact H.
    + split; [exact A|]. eapply frame_tn_trans; [apply index_put_frame|exact B].
Qed.

Lemma cu_valid cl s wr o :
  DInv w cl s -> In (CU wr o) cl -> s_tbr s <= wr_abs wr ->
  loc_valid s {| l_abs := wr_abs wr; l_off := wr_off wr; l_size := wr_size wr |} = true.
Proof.
  intros HD Hin Ht. pose proof (c_claims _ _ _ (d_c _ _ _ HD) _ Hin) as H. cbn [claim_ok] in H.
  destruct H as [_ [H _]]. unfold abs_end in H. unfold loc_valid. cbn [l_abs].
  apply andb_true_intro. split; [apply N.leb_le; exact Ht|apply N.ltb_lt; exact H].
Qed.

(** publishing a completed refresh copy of the parent and creating the children *)
Lemma publish_mk_inv cl s wr p pk i slices :
  DInv w (CU wr p :: cl) s -> s_tbr s <= wr_abs wr -> fst pk = p -> slices_ok w p slices ->
  let nl := {| l_abs := wr_abs wr; l_off := wr_off wr; l_size := wr_size wr |} in
  DInv w cl (mk_children i nl slices (index_put s pk nl)) /\
  frame_tn s (mk_children i nl slices (index_put s pk nl)).
Proof.
  intros HD Ht Hk Hs nl.
  assert (HP : DInv w (CU wr p :: cl) (index_put s pk nl)).
  { apply (i_cu_publish I w _ s wr p [pk] HD); [left; reflexivity|exact Ht|].
    intros k [<-|[]]. exact Hk. }
  assert (Hv : loc_valid (index_put s pk nl) nl = true).
  { apply (cu_valid _ _ wr p HP); [left; reflexivity|exact Ht]. }
  destruct (mk_inv (CU wr p :: cl) i pk nl slices _ HP) as [A B].
  - left. reflexivity.
  - exact Hv.
  - rewrite Hk. exact Hs.
  - split; [eapply (i_drop I), A|]. eapply frame_tn_trans; [apply index_put_frame|exact B].
Qed.

Lemma step_gfc_slice s tid slices :
  SInv w s -> step_wf w s (OGfcSlice tid slices) ->
  let r := step w s (OGfcSlice tid slices) in
  SInv w (fst r) /\ read_ok w s (OGfcSlice tid slices) (fst r) (snd r).
Proof.
  intros HS Hswf. unfold step_wf in Hswf. unfold read_ok.
  unfold step. cbn [may_take_refresh_lock is_corrupt andb].
  destruct (thr_get (s_threads s) tid) as [t|] eqn:Hg;
    [|cbn [fst snd]; split; [exact HS|split; [reflexivity|exact Logic.I]]].
  destruct (sinv_split I w s tid t HS Hg) as [HD Hok].
  destruct t as [| |o uid l refresh fkeys|p i uid pl refresh pk|e];
    try (cbn [fst snd]; split; [exact HS|split; [reflexivity|exact Logic.I]]).
  - (* hierarchical: a parked Get *)
    cbn [claims_of_thread] in HD.
    destruct (get_consume w s o uid l refresh fkeys) as [[code bytes] s1] eqn:E.
    destruct (get_consume_inv I w _ _ _ _ _ _ _ _ _ _ HD Hok E) as [[F1 F2] [H Hb]].
    cbn [fst snd]. split; [eapply sinv_rm; [exact I|exact HS|exact F1|exact H]|].
    split; [exact F2|].
    destruct (Z.eqb code cOK) eqn:Ec.
    + apply Z.eqb_eq in Ec. intros _. rewrite (Hb Ec). reflexivity.
    + apply Z.eqb_neq in Ec. intros X. contradiction.
  - (* flat: a parked composite read *)
    cbn [claims_of_thread] in HD. destruct Hok as [Hsz [Hrf Hpk]].
    rewrite (i_read_validated_cr I w _ s uid pl p HD) by (left; reflexivity).
    cbn [negb]. cbv zeta.
    pose proof (i_unpin I w (CR uid pl p) _ s HD (cref_cr _ _ _)) as HU. cbn [c_uid] in HU.
    destruct (unpin_frame (w_cfg w) s uid) as [U1 U2].
    assert (Hpkf : fst pk = p) by (rewrite Hpk; apply flat_key_fst).
    set (rest := claims_of_threads c (thr_del (s_threads s) tid)) in *.
    destruct refresh as [wr|]; cbn [refresh_claims app] in HU.
    + cbn [refresh_ok] in Hrf.
      assert (Hws : wr_size wr = osize w p) by congruence.
      destruct (lockstep (w_cfg w)); cbn [negb] in HU.
      * destruct (finalize (w_cfg w) (write_block (unpin (w_cfg w) s uid) (wr_uid wr) (wr_off wr) (content w p)) wr true)
          as [r3 s3] eqn:F.
        assert (Hk1 : forall k, In k [pk] -> fst k = p) by (intros k [<-|[]]; exact Hpkf).
        destruct (copy_finalize_inv I w _ _ _ _ [pk] _ _ HU Hws Hk1 F) as [[F3 F4] H3].
        destruct r3 as [nl|e]; cbn [fst snd].
        -- destruct H3 as [_ [H3 [Ht ->]]].
           destruct (publish_mk_inv rest s3 wr p pk i slices H3 Ht Hpkf Hswf) as [A [B1 B2]].
           split; [|split; [|intros _; reflexivity]].
           ++ eapply sinv_rm; [exact I|exact HS| |exact A]. exact (eq_trans B1 (eq_trans F3 U1)).
           ++ exact (eq_trans B2 (eq_trans F4 U2)).
        -- destruct H3 as [H3 He]. split; [|split; [|intros X; contradiction]].
           ++ eapply sinv_rm; [exact I|exact HS| |exact H3]. exact (eq_trans F3 U1).
           ++ exact (eq_trans F4 U2).
      * unfold fin_check. destruct (wr_abs wr <? s_tbr (unpin (w_cfg w) s uid)) eqn:Et; cbn [fst snd].
        -- split; [|split; [exact U2|intros X; discriminate X]].
           eapply sinv_rm; [exact I|exact HS|exact U1|]. eapply (i_drop I), HU.
        -- apply N.ltb_ge in Et.
           destruct (publish_mk_inv rest _ wr p pk i slices HU Et Hpkf Hswf) as [A [B1 B2]].
           split; [|split; [|intros _; reflexivity]].
           ++ eapply sinv_rm; [exact I|exact HS| |exact A]. exact (eq_trans B1 U1).
           ++ exact (eq_trans B2 U2).
    + destruct (index_get (unpin (w_cfg w) s uid) pk) as [pl'|] eqn:Eg; cbn [fst snd].
      * destruct (i_index_get_some I _ _ _ Eg) as [Hin Hv].
        destruct (mk_inv rest i pk pl' slices _ HU Hin Hv) as [A [B1 B2]]; [rewrite Hpkf; exact Hswf|].
        split; [|split; [|intros _; reflexivity]].
        -- eapply sinv_rm; [exact I|exact HS| |exact A]. exact (eq_trans B1 U1).
        -- exact (eq_trans B2 U2).
      * split; [|split; [exact U2|intros _; reflexivity]].
        eapply sinv_rm; [exact I|exact HS|exact U1|exact HU].
  - (* hierarchical: the slicer was handed an error *)
    cbn [claims_of_thread app] in HD. cbn [fst snd].
    split; [|split; [reflexivity|intros _; exact Logic.I]].
    eapply sinv_rm; [exact I|exact HS|reflexivity|exact HD].
Qed.

End Steps.
