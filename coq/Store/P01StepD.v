(** C01 proofs: FindMissing. *)
From Coq Require Import List NArith ZArith Bool Arith Lia Permutation.
From BBS Require Import Store.Model Store.Wf Store.P01Inv Store.P01Thr Store.P01StepA Store.P01StepC.
Import ListNotations.
Open Scope N_scope.

Section Steps.
Hypothesis I : iface.
Variable w : world.
Hypothesis Hwf : wf_config (w_cfg w) = true.
Let c := w_cfg w.

Lemma fm_tail_inv cl s o k l fkeys r s' :
  DInv w cl s -> In (k, l) (s_index s) -> loc_valid s l = true -> fst k = o ->
  (forall k', In k' fkeys -> fst k' = o) ->
  match block_of_loc s l with
  | None => (Err (-3)%Z, s)
  | Some b =>
      let s0 := pin s (b_uid b) in
      match ocn_put (w_cfg w) s0 (l_size l) with
      | (Err e, s1) => (Err e, unpin (w_cfg w) s1 (b_uid b))
      | (Ok wr, s1) =>
          let '(valid, bytes, s2) := read_validated w s1 o (b_uid b) l in
          let s2' := if valid then write_block s2 (wr_uid wr) (wr_off wr) bytes else s2 in
          let s2'' := unpin (w_cfg w) s2' (b_uid b) in
          match finalize (w_cfg w) s2'' wr valid with
          | (Err e, s3) => (Err (if valid then e else cInternal), s3)
          | (Ok nl, s3) => (Ok true, index_put_all s3 fkeys nl)
          end
      end
  end = (r, s') ->
  frame_tn s s' /\ DInv w cl s'.
Proof.
  intros HD Hin Hv Hk Hfk. subst o.
  destruct (block_of_loc s l) as [b|] eqn:Eb;
    [|intros H; injection H as <- <-; split; [apply frame_tn_refl|exact HD]].
  pose proof (i_pin_loc I w cl s k l b HD Hin Hv Eb) as HP.
  pose proof (i_entry_size I w cl s k l HD Hin Hv) as Hsz.
  cbv zeta.
  destruct (ocn_put (w_cfg w) (pin s (b_uid b)) (l_size l)) as [[wr|e] s1] eqn:Eo;
    destruct (i_ocn_put I w _ _ _ _ _ Hwf HP Eo) as [FT H].
  2:{ intros X; injection X as <- <-. split.
      - eapply frame_tn_trans; [apply pin_frame|]. eapply frame_tn_trans; [apply frame_tin_tn, FT|apply unpin_frame].
      - exact (i_unpin I w (CR (b_uid b) l (fst k)) cl s1 H (cref_cr _ _ _)). }
  destruct H as [H Hws].
  rewrite (i_read_validated_cr I w _ s1 (b_uid b) l (fst k) H) by (right; left; reflexivity).
  assert (Hws' : wr_size wr = osize w (fst k)) by congruence.
  pose proof (write0_inv I w _ _ _ (content w (fst k)) H) as HW.
  assert (Hle : N.of_nat (length (content w (fst k))) <= wr_size wr)
    by (rewrite Hws'; apply N.le_refl).
  specialize (HW Hle).
  assert (HU : DInv w (CW wr (content w (fst k)) :: cl)
                    (unpin (w_cfg w) (write_block s1 (wr_uid wr) (wr_off wr) (content w (fst k))) (b_uid b))).
  { refine (i_unpin I w (CR (b_uid b) l (fst k)) _ _ _ (cref_cr _ _ _)).
    eapply (i_perm I); [|exact HW]. apply perm_swap. }
  destruct (finalize (w_cfg w) _ wr true) as [r3 s3] eqn:F.
  destruct (finalize_ok_inv I w _ _ _ _ fkeys _ _ HU Hws' Hfk F) as [F3 H3].
  assert (FR : frame_tn s s3).
  { eapply frame_tn_trans; [apply pin_frame|]. eapply frame_tn_trans; [apply frame_tin_tn, FT|].
    eapply frame_tn_trans; [apply write_frame|]. eapply frame_tn_trans; [apply unpin_frame|exact F3]. }
  destruct r3 as [nl|e]; intros X; injection X as <- <-.
  - destruct H3 as [H3 _]. split; [|exact H3].
    eapply frame_tn_trans; [exact FR|apply index_put_all_frame].
  - destruct H3 as [H3 _]. split; [exact FR|exact H3].
Qed.

Lemma fm_refresh_one_inv cl s o i r s' :
  DInv w cl s -> fm_refresh_one w s o i = (r, s') -> frame_tn s s' /\ DInv w cl s'.
Proof.
  intros HD. unfold fm_refresh_one. cbv zeta.
  destruct (least_specific s (lookup_keys w o i)) as [[k l]|] eqn:El;
    [|intros H; injection H as <- <-; split; [apply frame_tn_refl|exact HD]].
  destruct (i_least_specific_some I _ _ _ _ El) as [Hk Hg].
  apply lookup_keys_fst in Hk.
  destruct (i_index_get_some I _ _ _ Hg) as [Hin Hv].
  destruct (negb (needs_refresh s l));
    [intros H; injection H as <- <-; split; [apply frame_tn_refl|exact HD]|].
  destruct (c_hier (w_cfg w)).
  - unfold sync_from_canonical.
    assert (Hfk : forall k', In k' [canonical_key o; k] -> fst k' = o)
      by (intros k' [<-|[<-|[]]]; [reflexivity|exact Hk]).
    destruct (index_get s (canonical_key o)) as [cl0|] eqn:Ec.
    + destruct (i_index_get_some I _ _ _ Ec) as [Hcin Hcv].
      destruct (needs_refresh s cl0).
      * apply (fm_tail_inv cl s o k l _ r s' HD Hin Hv Hk Hfk).
      * intros H; injection H as <- <-. split; [apply index_put_frame|].
        eapply (i_index_put_copy I); [exact HD|exact Hcin|exact Hcv|]. rewrite Hk. reflexivity.
    + apply (fm_tail_inv cl s o k l _ r s' HD Hin Hv Hk Hfk).
  - apply (fm_tail_inv cl s o k l _ r s' HD Hin Hv Hk).
    intros k' [<-|[]]. exact Hk.
Qed.

Lemma fm_phase2_inv cl todo : forall s missing r s',
  DInv w cl s -> fm_phase2 w s todo missing = (r, s') -> frame_tn s s' /\ DInv w cl s'.
Proof.
  induction todo as [|[pos [o i]] t IH]; intros s missing r s' HD; cbn [fm_phase2].
  - intros H; injection H as <- <-. split; [apply frame_tn_refl|exact HD].
  - destruct (fm_refresh_one w s o i) as [[[|]|e] s1] eqn:E;
      destruct (fm_refresh_one_inv _ _ _ _ _ _ HD E) as [F1 H1].
    + intros H. destruct (IH _ _ _ _ H1 H) as [F2 H2]. split; [eapply frame_tn_trans; eassumption|exact H2].
    + intros H. destruct (IH _ _ _ _ H1 H) as [F2 H2]. split; [eapply frame_tn_trans; eassumption|exact H2].
    + intros H; injection H as <- <-. split; assumption.
Qed.

Lemma step_find_missing s ds :
  SInv w s ->
  let r := match find_missing w s ds with
           | (Err e, s1) => (s1, Missing e [])
           | (Ok m, s1) => (s1, Missing cOK (sort_nat m))
           end in
  SInv w (fst r) /\ s_negs (fst r) = s_negs s.
Proof.
  intros HS. unfold find_missing.
  match goal with |- context [fm_phase2 w s ?t ?m] => destruct (fm_phase2 w s t m) as [[m'|e] s1] eqn:E end;
    destruct (fm_phase2_inv _ _ _ _ _ _ (s_d _ _ HS) E) as [[F1 F2] H]; cbn zeta; cbn [fst];
    (split; [|exact F2]); eapply sinv_same; [exact HS|exact F1|exact H|exact HS|exact F1|exact H].
Qed.

End Steps.
