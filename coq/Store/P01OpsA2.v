(** C01 proofs, operations part A, library 2: the allocator invariant and
    the claim invariant only look at the (uid, region, cursor) views of the
    blocks and at ten further fields of the state. *)
From Coq Require Import List NArith ZArith Bool Arith Lia ZifyN ZifyNat ZifyBool.
From BBS Require Import Store.Model Store.P01Inv Store.P01OpsA1.
Import ListNotations.
Open Scope N_scope.

Definition bview (b : block) : nat * nat * N := (b_uid b, b_region b, b_cursor b).

Record sview (s s' : state) : Prop := {
  v_blocks : map bview (s_blocks s') = map bview (s_blocks s);
  v_zombies : map bview (s_zombies s') = map bview (s_zombies s);
  v_free : s_free s' = s_free s;
  v_next_region : s_next_region s' = s_next_region s;
  v_next_uid : s_next_uid s' = s_next_uid s;
  v_dev : s_dev s' = s_dev s;
  v_old : s_old s' = s_old s;
  v_cur : s_cur s' = s_cur s;
  v_new : s_new s' = s_new s;
  v_released : s_released s' = s_released s;
  v_tbr : s_tbr s' = s_tbr s;
  v_index : s_index s' = s_index s;
}.

Lemma map_bview_uid : forall l, map b_uid l = map (fun v => fst (fst v)) (map bview l).
Proof. intros. rewrite map_map. reflexivity. Qed.
Lemma map_bview_region : forall l, map b_region l = map (fun v => snd (fst v)) (map bview l).
Proof. intros. rewrite map_map. reflexivity. Qed.

Lemma bview_inj : forall b b', bview b' = bview b ->
  b_uid b' = b_uid b /\ b_region b' = b_region b /\ b_cursor b' = b_cursor b.
Proof. unfold bview. intros b b' H. inversion H. auto. Qed.

Lemma find_uid_view : forall u l l', map bview l' = map bview l ->
  option_map bview (find_uid u l') = option_map bview (find_uid u l).
Proof.
  induction l as [|b l IH]; intros [|b' l'] H; cbn [map] in H; try discriminate.
  - reflexivity.
  - assert (H1 : bview b' = bview b) by congruence.
    assert (H2 : map bview l' = map bview l) by congruence.
    cbn [find_uid].
    destruct (bview_inj _ _ H1) as [E _]. rewrite E.
    destruct (Nat.eqb (b_uid b) u).
    + cbn [option_map]. rewrite H1. reflexivity.
    + apply IH. exact H2.
Qed.

Section View.
  Variables s s' : state.
  Hypothesis V : sview s s'.

  Lemma sv_live : map bview (live s') = map bview (live s).
  Proof. unfold live. rewrite !map_app, (v_blocks _ _ V), (v_zombies _ _ V). reflexivity. Qed.

  Lemma sv_uids : map b_uid (live s') = map b_uid (live s).
  Proof. rewrite !map_bview_uid, sv_live. reflexivity. Qed.

  Lemma sv_regions : map b_region (live s') = map b_region (live s).
  Proof. rewrite !map_bview_region, sv_live. reflexivity. Qed.

  Lemma sv_in : forall b', In b' (live s') -> exists b, In b (live s) /\ bview b = bview b'.
  Proof.
    intros b' H. apply (in_map bview) in H. rewrite sv_live in H.
    apply in_map_iff in H. destruct H as [b [E H]]. exists b. auto.
  Qed.

  Lemma sv_len : length (s_blocks s') = length (s_blocks s).
  Proof. rewrite <- (map_length bview (s_blocks s')), (v_blocks _ _ V). apply map_length. Qed.

  Lemma sv_abs_end : abs_end s' = abs_end s.
  Proof. unfold abs_end. rewrite sv_len, (v_released _ _ V). reflexivity. Qed.

  Lemma sv_binfo : forall u, binfo s' u = binfo s u.
  Proof.
    intro u. unfold binfo, find_block.
    pose proof (find_uid_view u _ _ (v_blocks _ _ V)) as E1.
    pose proof (find_uid_view u _ _ (v_zombies _ _ V)) as E2.
    destruct (find_uid u (s_blocks s')) as [b1'|]; destruct (find_uid u (s_blocks s)) as [b1|];
      cbn [option_map] in E1; try discriminate.
    - inversion E1. reflexivity.
    - destruct (find_uid u (s_zombies s')) as [b2'|]; destruct (find_uid u (s_zombies s)) as [b2|];
        cbn [option_map] in E2; try discriminate.
      + inversion E2. reflexivity.
      + reflexivity.
  Qed.

  Lemma sv_uid_at : forall a, uid_at s' a = uid_at s a.
  Proof.
    intro a. unfold uid_at. rewrite (v_released _ _ V).
    destruct (a <? s_released s); [reflexivity|].
    change (option_map b_uid (nth_error (s_blocks s') (N.to_nat (a - s_released s))) =
            option_map b_uid (nth_error (s_blocks s) (N.to_nat (a - s_released s)))).
    rewrite <- !nth_error_map, !map_bview_uid, (v_blocks _ _ V). reflexivity.
  Qed.

  Lemma sv_loc_valid : forall l, loc_valid s' l = loc_valid s l.
  Proof. intro l. unfold loc_valid. rewrite sv_len, (v_released _ _ V), (v_tbr _ _ V). reflexivity. Qed.

  Lemma AInv_view : forall c, AInv c s -> AInv c s'.
  Proof.
    intros c A. constructor.
    - rewrite sv_len, (v_old _ _ V), (v_cur _ _ V), (v_new _ _ V). apply (a_len _ _ A).
    - rewrite sv_abs_end, (v_released _ _ V), (v_tbr _ _ V). apply (a_rel _ _ A).
    - rewrite sv_uids. apply (a_uid_nd _ _ A).
    - intros b' H. destruct (sv_in _ H) as [b [Hb E]]. destruct (bview_inj _ _ E) as [E1 _].
      rewrite (v_next_uid _ _ V), <- E1. apply (a_uid_lt _ _ A). exact Hb.
    - rewrite sv_regions, (v_free _ _ V). apply (a_reg_nd _ _ A).
    - intros M b' H. destruct (sv_in _ H) as [b [Hb E]]. destruct (bview_inj _ _ E) as [_ [E1 _]].
      rewrite (v_next_region _ _ V), <- E1. apply (a_reg_lt _ _ A M). exact Hb.
    - intros M. rewrite (v_free _ _ V). apply (a_free_im _ _ A M).
    - intros b' H. destruct (sv_in _ H) as [b [Hb E]]. destruct (bview_inj _ _ E) as [_ [_ E1]].
      rewrite <- E1. apply (a_cur _ _ A). exact Hb.
    - intros b' H. destruct (sv_in _ H) as [b [Hb E]]. destruct (bview_inj _ _ E) as [_ [E1 _]].
      rewrite (v_dev _ _ V), <- E1. apply (a_dev_live _ _ A). exact Hb.
    - intros r. rewrite (v_dev _ _ V), (v_free _ _ V). apply (a_dev_free _ _ A).
    - intros k l. rewrite (v_index _ _ V), sv_abs_end. apply (a_idx _ _ A).
  Qed.

  Lemma claim_ok_view : forall w c, claim_ok w s c -> claim_ok w s' c.
  Proof.
    intros w [wr acc|uid l o|wr o] H; cbn [claim_ok] in *.
    - unfold cw_ok in *. rewrite sv_binfo, sv_abs_end, sv_uid_at, (v_dev _ _ V), (v_released _ _ V). exact H.
    - unfold cr_ok in *. rewrite sv_binfo, (v_dev _ _ V). exact H.
    - unfold cu_ok in *.
      rewrite sv_binfo, sv_abs_end, sv_uid_at, (v_dev _ _ V), (v_tbr _ _ V), (v_next_uid _ _ V). exact H.
  Qed.

  Lemma idx_ok_view : forall w k l, idx_ok w s k l -> idx_ok w s' k l.
  Proof.
    intros w k l (uid & cur & reg & H1 & H2 & H3 & H4). exists uid, cur, reg.
    rewrite sv_binfo, sv_uid_at, (v_dev _ _ V). auto.
  Qed.

  Lemma CInv_view : forall w cl, CInv w cl s -> CInv w cl s'.
  Proof.
    intros w cl C. constructor.
    - intros c H. apply claim_ok_view. apply (c_claims _ _ _ C). exact H.
    - intros k l. rewrite (v_index _ _ V), sv_loc_valid. intros H1 H2.
      apply idx_ok_view. apply (c_idx _ _ _ C); assumption.
    - apply (c_sep _ _ _ C).
    - intros wr acc k l. rewrite (v_index _ _ V), sv_loc_valid, sv_uid_at. apply (c_sep_idx _ _ _ C).
  Qed.
End View.

(** DInv reads only these twelve fields *)
Lemma DInv_ext : forall w cl s s',
  s_blocks s' = s_blocks s -> s_zombies s' = s_zombies s -> s_free s' = s_free s ->
  s_next_region s' = s_next_region s -> s_next_uid s' = s_next_uid s -> s_dev s' = s_dev s ->
  s_old s' = s_old s -> s_cur s' = s_cur s -> s_new s' = s_new s ->
  s_released s' = s_released s -> s_tbr s' = s_tbr s -> s_index s' = s_index s ->
  DInv w cl s -> DInv w cl s'.
Proof.
  intros w cl s s' E1 E2 E3 E4 E5 E6 E7 E8 E9 E10 E11 E12 [A U C].
  assert (V : sview s s') by (constructor; congruence).
  constructor.
  - eapply AInv_view; eassumption.
  - destruct U as [U1 U2]. constructor.
    + rewrite E1. exact U1.
    + rewrite E2. exact U2.
  - eapply CInv_view; eassumption.
Qed.

