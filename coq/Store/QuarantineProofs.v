(** Invariants of the quarantine arithmetic (Store/Quarantine.v), for every
    configuration and EVERY interleaving of Put-thread steps, reader hand-outs
    and integrity callbacks (induction over event lists). *)
From Coq Require Import List ZArith Bool Lia.
From BBS Require Import Store.Quarantine.
Import ListNotations.
Open Scope Z_scope.

Definition live (st : qst) : Z := Z.of_nat (length (blocks st)).
Definition tot (st : qst) : Z := rel st + live st.

Definition is_raise (p : pc) : bool := match p with PRaise _ => true | _ => false end.

(** The core invariant: no hypothesis on the configuration. *)
Record Inv (st : qst) : Prop := {
  i_sum : old st + cur st + new st = live st;
  i_lo : rel st <= tbr st + (if is_raise (pcs st) then 1 else 0);
  i_hi : tbr st <= Z.max (rel st) (maxdet st);
  i_det : maxdet st <= tbr st;
  i_detlive : maxdet st <= tot st;
  i_rd : forall rd, In rd (rdrs st) -> r_open rd = true -> r_tgt rd <= tot st;
  i_ps : pstart st <= tbr st;
  i_pc : match pcs st with
         | PCatch _ snap => snap <= tbr st /\ pstart st <= snap
         | PGrow _ | PSpace _ | PPush _ | PPop _ | PRaise _ | PAlloc _ => pstart st <= rel st
         | PDone code _ => code = 0 -> pstart st <= rel st
         | _ => True
         end
}.

Ltac flds := cbn [rel tbr old cur new blocks att aidx rdrs puts pcs maxdet pstart
                  set_pc set_alloc reset_alloc set_layout set_tbr panic add_rdr is_raise] in *.

Lemma live_cons st x bl : blocks st = x :: bl -> live st = Z.of_nat (length bl) + 1.
Proof. unfold live. intros ->. cbn [length]. lia. Qed.

Lemma len_snoc (l : list Z) x : Z.of_nat (length (l ++ [x])) = Z.of_nat (length l) + 1.
Proof. rewrite app_length. cbn [length]. lia. Qed.

Lemma add_at_length l n d : length (add_at l n d) = length l.
Proof. revert n. induction l as [|x t IH]; intros [|n]; cbn [add_at length]; auto. Qed.

(** The final loop only touches the allocation counters. *)
Lemma set_alloc_id st : set_alloc st (att st) (aidx st) = st.
Proof. destruct st; reflexivity. Qed.

Lemma alloc_loop_frame c sz : forall fuel st st' i,
  alloc_loop fuel c st sz = (st', i) -> exists a j, st' = set_alloc st a j.
Proof.
  induction fuel as [|f IH]; intros st st' i H; cbn [alloc_loop] in H.
  - injection H as <- <-. exists (att st), (aidx st). symmetry. apply set_alloc_id.
  - destruct (if 0 <? att st then
               match has_space c st (old st + cur st + aidx st) sz with
               | None => Some None | Some true => Some (Some (old st + cur st + aidx st))
               | Some false => None end else None) as [[k|]|].
    + injection H as <- <-. eauto.
    + injection H as <- <-. exists (att st), (aidx st). symmetry. apply set_alloc_id.
    + destruct (new st =? 0).
      * injection H as <- <-. exists (att st), (aidx st). symmetry. apply set_alloc_id.
      * apply IH in H. destruct H as (a & j & ->).
        unfold incr_alloc. destruct (new st - q_new c <=? (aidx st + 1) mod new st); exists a, j; reflexivity.
Qed.

(** ** One Put-thread step *)
Lemma inv_put_step c st : Inv st -> Inv (put_step c st).
Proof.
  intros [Hs Hlo Hhi Hd Hdl Hrd Hps Hpc].
  unfold put_step. unfold tot, live in *.
  destruct (pcs st) eqn:Epc; flds.
  - (* Idle *) constructor; unfold tot, live; flds; rewrite ?Epc; flds; auto.
  - (* PStart *)
    destruct (q_bs c <? sz); constructor; unfold tot, live; flds; auto; try lia.
    all: try (intros; discriminate).
  - (* PCatch *)
    destruct Hpc as [Hsn Hpss].
    destruct (rel st <? snap) eqn:Elt.
    + apply Z.ltb_lt in Elt.
      destruct (blocks st) as [|x bl] eqn:Ebl.
      * constructor; unfold tot, live; flds; rewrite ?Ebl; auto; try lia. all: try (intros; discriminate).
      * cbn [length] in *.
        assert (Hrd' : forall rd, In rd (rdrs st) -> r_open rd = true ->
                  r_tgt rd <= rel st + 1 + Z.of_nat (length bl)).
        { intros rd Hi Ho. specialize (Hrd rd Hi Ho). lia. }
        destruct (0 <? old st) eqn:Eo; [|destruct (0 <? cur st) eqn:Ecu];
          try apply Z.ltb_lt in Eo; try apply Z.ltb_ge in Eo;
          try apply Z.ltb_lt in Ecu; try apply Z.ltb_ge in Ecu;
          constructor; unfold tot, live; flds; rewrite ?Epc; flds; auto; try lia.
    + apply Z.ltb_ge in Elt.
      constructor; unfold tot, live; flds; auto; try lia.
  - (* PGrow *)
    destruct (grow_new c (cur st) (new st)).
    + constructor; unfold tot, live; flds; rewrite ?Epc, ?len_snoc; flds; auto; try lia.
      intros rd Hi Ho. specialize (Hrd rd Hi Ho). lia.
    + constructor; unfold tot, live; flds; auto.
  - (* PSpace *)
    destruct (has_space c st (old st + cur st) sz) as [[|]|].
    + constructor; unfold tot, live; flds; auto.
    + destruct (q_new c <? new st) eqn:En.
      * apply Z.ltb_lt in En.
        constructor; unfold tot, live; flds; rewrite ?Epc; flds; auto; try lia.
      * constructor; unfold tot, live; flds; auto.
    + constructor; unfold tot, live; flds; auto; try lia. all: try (intros; discriminate).
  - (* PPush *)
    assert (Hrd' : forall rd, In rd (rdrs st) -> r_open rd = true ->
              r_tgt rd <= rel st + (Z.of_nat (length (blocks st)) + 1)).
    { intros rd Hi Ho. specialize (Hrd rd Hi Ho). lia. }
    destruct (grow_cur c (cur st)); [|destruct (q_old c <? old st + 1)];
      constructor; unfold tot, live; flds; rewrite ?len_snoc; auto; try lia.
  - (* PPop *)
    destruct (blocks st) as [|x bl] eqn:Ebl.
    + constructor; unfold tot, live; flds; rewrite ?Ebl; auto; try lia. all: try (intros; discriminate).
    + cbn [length] in *.
      assert (Hrd' : forall rd, In rd (rdrs st) -> r_open rd = true ->
                r_tgt rd <= rel st + 1 + Z.of_nat (length bl)).
      { intros rd Hi Ho. specialize (Hrd rd Hi Ho). lia. }
      constructor; unfold tot, live; flds; auto; try lia.
  - (* PRaise *)
    constructor; unfold tot, live; flds; auto; try lia.
  - (* PAlloc *)
    destruct (alloc_loop (alloc_fuel st) c st sz) as [st1 i] eqn:Eal.
    apply alloc_loop_frame in Eal. destruct Eal as (a & j & ->).
    destruct (i <? 0) eqn:Ei.
    + constructor; unfold tot, live; flds; rewrite ?Epc; flds; auto; try lia.
      all: try (intros ->; discriminate).
    + constructor; unfold tot, live; flds; rewrite ?add_at_length, ?Epc; flds; auto; try lia.
  - (* PDone *) constructor; unfold tot, live; flds; rewrite ?Epc; flds; auto.
Qed.

(** ** The other events *)
Lemma in_upd_rdr l : forall n rd, In rd (upd_rdr l n) -> r_open rd = true -> In rd l.
Proof.
  induction l as [|x t IH]; intros [|n] rd Hi Ho; cbn [upd_rdr] in Hi; auto.
  - destruct Hi as [<-|Hi]; [discriminate|right; exact Hi].
  - destruct Hi as [<-|Hi]; [left; reflexivity|right; eapply IH; eauto].
Qed.

Lemma inv_detect st r : Inv st -> Inv (detect st r).
Proof.
  intros H. unfold detect.
  destruct (nth_error (rdrs st) r) as [rd|] eqn:En; [|exact H].
  destruct (r_open rd) eqn:Eo; [|exact H].
  pose proof (nth_error_In _ _ En) as Hin.
  destruct H as [Hs Hlo Hhi Hd Hdl Hrd Hps Hpc].
  pose proof (Hrd rd Hin Eo) as Ht.
  assert (Hrd' : forall rd0, In rd0 (upd_rdr (rdrs st) r) -> r_open rd0 = true -> r_tgt rd0 <= tot st).
  { intros rd0 Hi Ho. apply Hrd; [eapply in_upd_rdr; eauto|exact Ho]. }
  unfold tot, live in *.
  destruct (r_bad rd); constructor; unfold tot, live; flds; auto; try lia.
  all: destruct (pcs st); flds; try lia; auto.
  all: try (destruct Hpc; split; lia).
Qed.

Lemma inv_open st k bad : Inv st -> Inv (open st k bad).
Proof.
  intros [Hs Hlo Hhi Hd Hdl Hrd Hps Hpc]. unfold open.
  destruct (can_open st k) eqn:Eco.
  - unfold can_open in Eco. destruct (pcs st) eqn:Epc; try discriminate.
    apply andb_prop in Eco. destruct Eco as [Eco _]. apply andb_prop in Eco. destruct Eco as [E1 E2].
    apply Z.leb_le in E1. apply Z.ltb_lt in E2.
    constructor; unfold tot, live in *; flds; rewrite ?Epc; auto.
    intros rd Hi Ho. apply in_app_or in Hi. destruct Hi as [Hi|[<-|[]]]; [auto|cbn [r_tgt]; lia].
  - constructor; unfold tot, live in *; flds; auto.
    intros rd Hi Ho. apply in_app_or in Hi. destruct Hi as [Hi|[<-|[]]]; [auto|discriminate].
Qed.

Lemma inv_start st sz : Inv st -> Inv (start st sz).
Proof.
  intros H. unfold start. destruct (pcs st) eqn:Epc; try exact H.
  destruct H as [Hs Hlo Hhi Hd Hdl Hrd Hps Hpc].
  rewrite Epc in *. constructor; unfold tot, live in *; flds; auto; try lia.
Qed.

Lemma inv_finish st : Inv st -> Inv (finish st).
Proof.
  intros H. unfold finish. destruct (pcs st) eqn:Epc; try exact H.
  destruct H as [Hs Hlo Hhi Hd Hdl Hrd Hps Hpc].
  rewrite Epc in *. constructor; unfold tot, live in *; flds; auto.
Qed.

Lemma inv_step c st e : Inv st -> Inv (step c st e).
Proof.
  destruct e; cbn [step]; auto using inv_put_step, inv_detect, inv_open, inv_start, inv_finish.
Qed.

Lemma inv_init : Inv init.
Proof. constructor; unfold tot, live; cbn; try lia; auto. all: try (intros rd []). Qed.

(** ** The constructor's initial state for any initialBlocksCount *)
Lemma promote_sum g : forall n x n' x', promote n g x = (n', x') ->
  Z.of_nat n' + (x' - x) = Z.of_nat n /\ x <= x'.
Proof.
  induction n as [|n IH]; intros x n' x' H; cbn [promote] in H.
  - injection H as <- <-. lia.
  - destruct (g x).
    + apply IH in H. lia.
    + injection H as <- <-. lia.
Qed.

Lemma promote_ext g g' : (forall x, g x = g' x) -> forall n x, promote n g x = promote n g' x.
Proof.
  intros E. induction n as [|n IH]; intros x; cbn [promote]; [reflexivity|]. rewrite <- E.
  destruct (g x); [apply IH|reflexivity].
Qed.

(** the shape of [init_of c], with the sums the loops preserve *)
Lemma init_of_shape c : exists o cu nw,
  let t := if q_old c <? o then o - q_old c else 0 in
  init_of c = {| rel := 0; tbr := t; old := o; cur := cu; new := nw;
                 blocks := repeat (q_pb c) (Z.to_nat (q_init c)); att := 0; aidx := -1;
                 rdrs := []; puts := []; pcs := Idle; maxdet := t; pstart := 0 |}
  /\ 0 <= o /\ 0 <= cu /\ 0 <= nw /\ o + cu + nw = Z.of_nat (Z.to_nat (q_init c)).
Proof.
  unfold init_of.
  destruct (promote (Z.to_nat (q_init c)) (fun x => grow_new c 0 x) 0) as [n1 nw] eqn:E1.
  destruct (promote n1 (grow_cur c) 0) as [n2 cu] eqn:E2.
  apply promote_sum in E1. apply promote_sum in E2.
  exists (Z.of_nat n2), cu, nw. cbv zeta. split; [reflexivity|]. lia.
Qed.

(** [0 <= desiredOldBlocksCount]: otherwise the constructor asks for the
    release of more blocks than exist. *)
Definition wf0 (c : qcfg) : Prop := 0 <= q_old c.

Lemma inv_init_of c : wf0 c -> Inv (init_of c).
Proof.
  intros Hq. destruct (init_of_shape c) as (o & cu & nw & E & Ho & Hcu & Hnw & Hsum). cbv zeta in E.
  rewrite E. unfold wf0 in Hq.
  constructor; unfold tot, live; flds; rewrite ?repeat_length; auto; try (intros rd []);
    destruct (q_old c <? o) eqn:Eq; try apply Z.ltb_lt in Eq; try apply Z.ltb_ge in Eq; lia.
Qed.

Lemma init_of_0 c : q_init c <= 0 -> wf0 c -> init_of c = init.
Proof.
  intros Hn Hq. unfold init_of. replace (Z.to_nat (q_init c)) with O by lia. cbn [promote repeat Z.of_nat].
  unfold wf0 in Hq. destruct (q_old c <? 0) eqn:E; [apply Z.ltb_lt in E; lia|reflexivity].
Qed.

Lemma inv_run c es : forall st, Inv st -> Inv (run_evs c st es).
Proof. induction es as [|e t IH]; intros st H; cbn [run_evs fold_left]; [exact H|]. apply IH, inv_step, H. Qed.

Theorem inv_reach c es : wf0 c -> Inv (run_evs c (init_of c) es).
Proof. intros Hq. apply inv_run, inv_init_of, Hq. Qed.

(** ** Monotonicity *)
Record Mono (a b : qst) : Prop := {
  m_tbr : tbr a <= tbr b;
  m_rel : rel a <= rel b;
  m_det : maxdet a <= maxdet b;
  m_ps : pstart a <= pstart b
}.

Lemma mono_refl st : Mono st st.
Proof. constructor; lia. Qed.

Lemma mono_trans a b d : Mono a b -> Mono b d -> Mono a d.
Proof. intros [] []; constructor; lia. Qed.

Lemma mono_put_step c st : Mono st (put_step c st).
Proof.
  unfold put_step. destruct (pcs st) eqn:Epc; try apply mono_refl.
  - destruct (q_bs c <? sz); constructor; flds; lia.
  - destruct (rel st <? snap); [|constructor; flds; lia].
    destruct (blocks st); [constructor; flds; lia|].
    destruct (0 <? old st); [|destruct (0 <? cur st)]; constructor; flds; lia.
  - destruct (grow_new c (cur st) (new st)); constructor; flds; lia.
  - destruct (has_space c st (old st + cur st) sz) as [[|]|]; [| |constructor; flds; lia].
    + constructor; flds; lia.
    + destruct (q_new c <? new st); constructor; flds; lia.
  - destruct (grow_cur c (cur st)); [|destruct (q_old c <? old st + 1)]; constructor; flds; lia.
  - destruct (blocks st); constructor; flds; lia.
  - constructor; flds; lia.
  - destruct (alloc_loop (alloc_fuel st) c st sz) as [st1 i] eqn:Eal.
    apply alloc_loop_frame in Eal. destruct Eal as (a & j & ->).
    destruct (i <? 0); constructor; flds; lia.
Qed.

Lemma mono_step c st e : Inv st -> Mono st (step c st e).
Proof.
  intros HI. destruct e; cbn [step].
  - unfold start. destruct (pcs st); try apply mono_refl. constructor; flds; try lia. apply (i_ps _ HI).
  - apply mono_put_step.
  - unfold finish. destruct (pcs st); try apply mono_refl. constructor; flds; lia.
  - unfold open. destruct (can_open st k); constructor; flds; lia.
  - unfold detect. destruct (nth_error (rdrs st) r) as [rd|]; [|apply mono_refl].
    destruct (r_open rd); [|apply mono_refl]. destruct (r_bad rd); constructor; flds; lia.
Qed.

Lemma mono_run c es : forall st, Inv st -> Mono st (run_evs c st es).
Proof.
  induction es as [|e t IH]; intros st H; cbn [run_evs fold_left]; [apply mono_refl|].
  eapply mono_trans; [apply mono_step, H|]. apply IH, inv_step, H.
Qed.

(** ** The statements *)

(** The boundary is never below the release counter (outside the one step
    between a rotation's popFront and its raise, which runs under the write
    lock) and never above what ordinary rotation and the detections justify;
    every detection is honoured. *)
Lemma boundary_justified_reach c es :
  wf0 c ->
  let st := run_evs c (init_of c) es in
  rel st <= tbr st + (if is_raise (pcs st) then 1 else 0)
  /\ tbr st <= Z.max (rel st) (maxdet st) /\ maxdet st <= tbr st.
Proof. intros Hq st. pose proof (inv_reach c es Hq) as H. split; [|split]; apply H. Qed.

(** The catch-up loop never pops an empty list. *)
Lemma catch_up_has_blocks_reach c es sz snap :
  wf0 c ->
  let st := run_evs c (init_of c) es in
  pcs st = PCatch sz snap -> rel st < snap -> blocks st <> [].
Proof.
  intros Hq st Epc Hlt. pose proof (inv_reach c es Hq) as H. fold st in H.
  pose proof (i_pc _ H) as Hp. rewrite Epc in Hp.
  pose proof (i_hi _ H). pose proof (i_detlive _ H). pose proof (i_lo _ H) as Hlo. rewrite Epc in Hlo. flds.
  unfold tot, live in *. intros E. rewrite E in *. cbn [length] in *. lia.
Qed.

(** A live block newer than every detected block is not hidden. *)
Lemma newer_never_hidden_reach c es i :
  wf0 c ->
  let st := run_evs c (init_of c) es in
  is_raise (pcs st) = false -> 0 <= i -> maxdet st <= rel st + i -> hidden st i = false.
Proof.
  intros Hq st Hr Hi Hm. pose proof (inv_reach c es Hq) as H. fold st in H.
  pose proof (i_lo _ H) as Hlo. rewrite Hr in Hlo. pose proof (i_hi _ H).
  unfold hidden. destruct (tbr st <? rel st) eqn:E; [apply Z.ltb_lt in E; lia|].
  apply Z.ltb_ge. lia.
Qed.

(** A detected block and all older ones are hidden from the callback on, for ever. *)
Lemma detected_hidden_at_once_reach c es r rd es' i :
  wf0 c ->
  let st := run_evs c (init_of c) es in
  nth_error (rdrs st) r = Some rd -> r_open rd = true -> r_bad rd = true ->
  let st' := run_evs c (detect st r) es' in
  r_tgt rd <= tbr st' /\ (rel st' + i < r_tgt rd -> hidden st' i = true).
Proof.
  intros Hq st En Eo Eb st'.
  pose proof (inv_reach c es Hq) as H. fold st in H.
  pose proof (mono_run c es' _ (inv_detect st r H)) as M. fold st' in M.
  assert (Ht : r_tgt rd <= tbr (detect st r)).
  { unfold detect. rewrite En, Eo, Eb. flds. lia. }
  pose proof (m_tbr _ _ M). split; [lia|].
  intros Hlt. unfold hidden. destruct (tbr st' <? rel st'); [reflexivity|]. apply Z.ltb_lt. lia.
Qed.

(** Every block quarantined when a Put() is entered has been released when
    that Put() hands out its writer. *)
Lemma released_by_next_put_reach c es sz es' idx :
  wf0 c ->
  let st := run_evs c (init_of c) es in
  pcs st = Idle ->
  let st' := run_evs c (start st sz) es' in
  pcs st' = PDone 0 idx -> tbr st <= rel st'.
Proof.
  intros Hq st Epc st' Ed.
  pose proof (inv_reach c es Hq) as H. fold st in H.
  pose proof (inv_start st sz H) as H1.
  pose proof (inv_run c es' _ H1) as H2. fold st' in H2.
  pose proof (mono_run c es' _ H1) as M. fold st' in M.
  pose proof (i_pc _ H2) as Hp. rewrite Ed in Hp. specialize (Hp eq_refl).
  pose proof (m_ps _ _ M) as Hps. unfold start in Hps. rewrite Epc in Hps. flds. lia.
Qed.

(** ** Capacity: an ordinary rotation discards a block only when the list is
    above its configured capacity. *)
Definition capq (c : qcfg) : Z := q_old c + q_cur c + (if q_mut c then 1 else q_new c).

Record Cap (c : qcfg) (st : qst) : Prop := {
  (* the "old" blocks above desiredOldBlocksCount are those the constructor quarantined:
     gone when the catch-up loop of the first Put() is through *)
  c_old : old st <= q_old c + (match pcs st with
                               | Idle | PStart _ | PDone _ _ => Z.max 0 (tbr st - rel st)
                               | PCatch _ snap => Z.max 0 (snap - rel st)
                               | PPop _ => 1
                               | _ => 0
                               end);
  c_grown : match pcs st with
            | PSpace _ | PPush _ | PPop _ | PRaise _ | PAlloc _ => grow_new c (cur st) (new st) = false
            | _ => True end;
  c_pop : match pcs st with PPop _ => grow_cur c (cur st) = false /\ old st = q_old c + 1 | _ => True end
}.

Definition wfq (c : qcfg) : Prop := 0 <= q_old c /\ 0 <= q_cur c /\ 1 <= q_new c.

Lemma cap_put_step c st : wfq c -> Inv st -> Cap c st -> Cap c (put_step c st).
Proof.
  intros (Hq0 & Hwc & Hw) HI [Ho Hg Hp]. pose proof (i_pc _ HI) as Hpc. unfold put_step.
  destruct (pcs st) eqn:Epc; flds.
  - constructor; rewrite Epc; auto.
  - destruct (q_bs c <? sz); constructor; flds; auto; lia.
  - destruct Hpc as [Hsn _].
    destruct (rel st <? snap) eqn:Elt; [apply Z.ltb_lt in Elt|apply Z.ltb_ge in Elt; constructor; flds; auto; lia].
    destruct (blocks st); [constructor; flds; auto; lia|].
    destruct (0 <? old st) eqn:Eo; [apply Z.ltb_lt in Eo|apply Z.ltb_ge in Eo; destruct (0 <? cur st)];
      constructor; flds; rewrite ?Epc; auto; lia.
  - destruct (grow_new c (cur st) (new st)) eqn:Eg; constructor; flds; rewrite ?Epc; auto; lia.
  - destruct (has_space c st (old st + cur st) sz) as [[|]|]; [| |constructor; flds; auto; lia].
    + constructor; flds; auto; lia.
    + destruct (q_new c <? new st) eqn:En; constructor; flds; rewrite ?Epc; auto; try lia.
      unfold grow_new in *. destruct (q_mut c); [|replace (cur st + 1 + (new st - 1)) with (cur st + new st) by lia; exact Hg].
      apply Z.ltb_lt in En. apply Z.ltb_ge. lia.
  - destruct (grow_cur c (cur st)) eqn:Egc; [|destruct (q_old c <? old st + 1) eqn:Eq].
    + constructor; flds; auto; try lia.
      unfold grow_new, grow_cur in *. destruct (q_mut c); [exact Hg|discriminate].
    + apply Z.ltb_lt in Eq. constructor; flds; auto; try lia. split; [assumption|lia].
    + apply Z.ltb_ge in Eq. constructor; flds; auto; try lia.
  - destruct Hp as [Hgc Hold]. destruct (blocks st) eqn:Ebl.
    + exfalso. pose proof (i_sum _ HI) as Hs. unfold live in Hs. rewrite Ebl in Hs.
      cbn [length] in Hs. unfold grow_new, grow_cur in *. destruct (q_mut c).
      * apply Z.ltb_ge in Hg. apply Z.ltb_ge in Hgc. lia.
      * apply Z.ltb_ge in Hg. lia.
    + constructor; flds; auto; lia.
  - constructor; flds; auto; lia.
  - destruct (alloc_loop (alloc_fuel st) c st sz) as [st1 i] eqn:Eal.
    apply alloc_loop_frame in Eal. destruct Eal as (a & j & ->).
    destruct (i <? 0); constructor; flds; auto; lia.
  - constructor; rewrite Epc; auto.
Qed.

Lemma cap_detect c st r : Cap c st -> Cap c (detect st r).
Proof.
  intros H. unfold detect. destruct (nth_error (rdrs st) r) as [rd|]; [|exact H].
  destruct (r_open rd); [|exact H]. destruct H as [Ho Hg Hp].
  destruct (r_bad rd); constructor; flds; auto. destruct (pcs st); lia.
Qed.

Lemma cap_step c st e : wfq c -> Inv st -> Cap c st -> Cap c (step c st e).
Proof.
  intros Hw HI H. destruct e; cbn [step].
  - unfold start. destruct (pcs st) eqn:Epc; try exact H. destruct H as [Ho Hg Hp]. rewrite Epc in *.
    constructor; flds; auto.
  - apply cap_put_step; assumption.
  - unfold finish. destruct (pcs st) eqn:Epc; try exact H. destruct H as [Ho Hg Hp]. rewrite Epc in *.
    constructor; flds; auto.
  - unfold open. destruct H as [Ho Hg Hp]. destruct (can_open st k); constructor; flds; auto.
  - apply cap_detect, H.
Qed.

Lemma cap_run c es : wfq c -> forall st, Inv st -> Cap c st -> Cap c (run_evs c st es).
Proof.
  intros Hw. induction es as [|e t IH]; intros st HI H; cbn [run_evs fold_left]; [exact H|].
  apply IH; [apply inv_step, HI|apply cap_step; assumption].
Qed.

Lemma cap_init c : wfq c -> Cap c init.
Proof. intros [H _]. constructor; cbn; auto. lia. Qed.

Lemma cap_init_of c : Cap c (init_of c).
Proof.
  destruct (init_of_shape c) as (o & cu & nw & E & Ho & Hcu & Hnw & Hsum). cbv zeta in E. rewrite E.
  constructor; flds; auto. destruct (q_old c <? o) eqn:Eq; [apply Z.ltb_lt in Eq|apply Z.ltb_ge in Eq]; lia.
Qed.

Lemma rotation_pop_over_capacity c st sz :
  Inv st -> Cap c st -> pcs st = PPop sz -> capq c + 1 <= live st.
Proof.
  intros HI [Ho Hg Hp] Epc. rewrite Epc in *. destruct Hp as [Hgc Hold].
  pose proof (i_sum _ HI) as Hs.
  unfold capq, grow_new, grow_cur in *. destruct (q_mut c).
  - apply Z.ltb_ge in Hg. apply Z.ltb_ge in Hgc. lia.
  - apply Z.ltb_ge in Hg. lia.
Qed.

(** Every Put-thread step that releases a block releases either a quarantined
    one (detected or older) or, by ordinary rotation, the oldest block of a list
    that is above its configured capacity. *)
Lemma release_justified_reach c es :
  wfq c ->
  let st := run_evs c (init_of c) es in
  rel (put_step c st) <> rel st ->
  rel (put_step c st) = rel st + 1
  /\ (rel st < maxdet st \/ (exists sz, pcs st = PPop sz) /\ capq c + 1 <= live st).
Proof.
  intros Hq st Hne.
  pose proof (inv_reach c es (proj1 Hq)) as HI. fold st in HI.
  pose proof (cap_run c es Hq _ (inv_init_of c (proj1 Hq)) (cap_init_of c)) as HC. fold st in HC.
  revert Hne. unfold put_step.
  destruct (pcs st) eqn:Epc; flds; try (intros Hne; exfalso; apply Hne; reflexivity).
  - destruct (q_bs c <? sz); flds; intros Hne; exfalso; apply Hne; reflexivity.
  - pose proof (i_pc _ HI) as Hp. rewrite Epc in Hp. destruct Hp as [Hsn _].
    pose proof (i_hi _ HI). pose proof (i_lo _ HI) as Hlo. rewrite Epc in Hlo. flds.
    destruct (rel st <? snap) eqn:Elt; [|flds; intros Hne; exfalso; apply Hne; reflexivity].
    apply Z.ltb_lt in Elt.
    destruct (blocks st); [flds; intros Hne; exfalso; apply Hne; reflexivity|].
    destruct (0 <? old st); [|destruct (0 <? cur st)]; flds; intros _; (split; [reflexivity|left; lia]).
  - destruct (grow_new c (cur st) (new st)); flds; intros Hne; exfalso; apply Hne; reflexivity.
  - destruct (has_space c st (old st + cur st) sz) as [[|]|]; flds; try (intros Hne; exfalso; apply Hne; reflexivity).
    destruct (q_new c <? new st); flds; intros Hne; exfalso; apply Hne; reflexivity.
  - destruct (grow_cur c (cur st)); [|destruct (q_old c <? old st + 1)]; flds; intros Hne; exfalso; apply Hne; reflexivity.
  - destruct (blocks st) eqn:Ebl; [flds; intros Hne; exfalso; apply Hne; reflexivity|].
    flds. intros _. split; [reflexivity|right]. split; [eauto|].
    eapply rotation_pop_over_capacity; eauto.
  - destruct (alloc_loop (alloc_fuel st) c st sz) as [st1 i] eqn:Eal.
    apply alloc_loop_frame in Eal. destruct Eal as (a & j & ->).
    destruct (i <? 0); flds; intros Hne; exfalso; apply Hne; reflexivity.
Qed.
