(** C01 proofs: the sub-operation lemmas discharge the interface; one event
    of the model preserves the store invariant. *)
From Coq Require Import List NArith ZArith Bool Arith Lia Permutation.
From BBS Require Import Store.Model Store.Wf Store.P01Inv Store.P01Thr.
From BBS Require Store.P01Alloc Store.P01OpsA Store.P01OpsB.
From BBS Require Import Store.P01StepA Store.P01StepG.
Import ListNotations.
Open Scope N_scope.

Lemma iface_holds : iface.
Proof.
  constructor.
  - exact P01Alloc.ocn_put_inv.
  - exact P01OpsA.bytes_eqb_eq.
  - exact P01OpsA.index_get_some.
  - exact P01OpsA.least_specific_some.
  - exact P01OpsA.valid_block_of_loc.
  - exact P01OpsA.entry_size.
  - exact P01OpsA.pin_loc_inv.
  - exact P01OpsA.write_inv.
  - exact P01OpsA.read_block_cr.
  - exact P01OpsA.read_validated_cr.
  - exact P01OpsA.DInv_threads.
  - exact P01OpsB.DInv_perm.
  - exact P01OpsB.DInv_drop.
  - exact P01OpsB.unpin_inv.
  - exact P01OpsB.cw_to_cu_inv.
  - exact P01OpsB.cu_publish_inv.
  - exact P01OpsB.index_put_sub_inv.
  - exact P01OpsB.index_put_copy_inv.
Qed.

Lemma wf_world_config w : wf_world w = true -> wf_config (w_cfg w) = true.
Proof. unfold wf_world. intros H. apply andb_prop in H. tauto. Qed.

Theorem P01_init : forall w, wf_world w = true -> SInv w (init_state (w_cfg w)).
Proof. intros w _. apply SInv_init. Qed.

Theorem P01_step : forall w s e,
  wf_world w = true -> SInv w s -> is_corrupt e = false -> step_wf w s e ->
  SInv w (fst (step w s e)) /\ read_ok w s e (fst (step w s e)) (snd (step w s e)).
Proof.
  intros w s e Hw HS Hc Hs. apply (step_all iface_holds); [apply wf_world_config, Hw|exact HS|exact Hc|exact Hs].
Qed.

