(** Executable model of the local store (pkg/blobstore/local): block
    allocator (in-memory / block-device backed: FIFO free list, per-block use
    counts), volatile block list, OldCurrentNewLocationBlobMap (placement
    counters, quarantine), the key-location index abstracted to "newest valid
    stored location per key" (justified by C06's refinement theorem absent
    reported discards), and flat / hierarchical blob access split into the
    atomic steps of DESIGN 3.4 (lock-protected sections; unlocked copy phases
    one step per upload chunk; gated slicer; held-open readers).

    Locations carry ABSOLUTE block numbers (the code stores stable block
    references in the index and relative indices only transiently).
    Definitions only. *)
From Coq Require Import List NArith ZArith Bool Arith Lia.
Import ListNotations.
Open Scope N_scope.

(** gRPC codes *)
Definition cOK : Z := 0%Z.
Definition cInvalidArgument : Z := 3%Z.
Definition cNotFound : Z := 5%Z.
Definition cInternal : Z := 13%Z.
Definition cUnavailable : Z := 14%Z.

Record config := {
  c_bs : N;                (* block size in bytes *)
  c_old : nat;             (* desired old blocks *)
  c_cur : nat;             (* desired current blocks *)
  c_new : nat;             (* desired new blocks (mutable policy: 1) *)
  c_mutable : bool;        (* mutable (AC-style) growth policy *)
  c_nblocks : nat;         (* block device: number of block regions; 0 = in-memory allocator *)
  c_hier : bool;           (* hierarchical CAS access *)
  c_inst_keys : bool;      (* flat access: keys include the instance name *)
  c_validate : bool;       (* read buffer factory validates content against the digest *)
}.

(** Objects are numbered; [objs] gives their canonical content (what the
    digest denotes).  [anc i] = ancestors-or-self of instance name [i],
    least specific (the empty name) first. *)
Record world := {
  w_cfg : config;
  w_objs : list (list N);
  w_anc : list (list nat);
}.
Definition content (w : world) (o : nat) : list N := nth o (w_objs w) [].
Definition osize (w : world) (o : nat) : N := N.of_nat (length (content w o)).
Definition ancestors (w : world) (i : nat) : list nat := nth i (w_anc w) [i].

(** keys: (object, 0) = without instance name; (object, S i) = with instance i *)
Definition key := (nat * nat)%type.
Definition key_eqb (a b : key) : bool := Nat.eqb (fst a) (fst b) && Nat.eqb (snd a) (snd b).

Record loc := { l_abs : N; l_off : N; l_size : N }.
Definition loc_older (a b : loc) : bool :=
  (l_abs a <? l_abs b) || ((l_abs a =? l_abs b) && (l_off a <? l_off b)).

Record block := { b_uid : nat; b_region : nat; b_cursor : N; b_use : nat }.

(** what a parked operation remembers *)
Record writer := { wr_uid : nat; wr_abs : N; wr_off : N; wr_size : N }.

Inductive thread : Type :=
| TPut (obj inst : nat) (wr : writer) (acc : list N)          (* upload being copied *)
| TPutExisting (obj inst : nat) (acc : list N)                (* hierarchical: validating against an existing copy *)
| TGet (obj : nat) (src_uid : nat) (src : loc) (refresh : option writer) (fkeys : list key)
| TGfc (parent inst : nat) (src_uid : nat) (src : loc) (refresh : option writer) (pkey : key)
| TGfcErr (code : Z).                                         (* hierarchical: slicer handed an error buffer *)

Record state := {
  s_blocks : list block;           (* the block list, oldest first *)
  s_zombies : list block;          (* popped, still referenced by readers/writers *)
  s_free : list nat;               (* free regions, FIFO (block device) *)
  s_next_region : nat;             (* in-memory: next fresh region *)
  s_next_uid : nat;
  s_dev : list (nat * list N);     (* region -> bytes *)
  s_old : nat; s_cur : nat; s_new : nat;
  s_released : N; s_tbr : N;       (* totalBlocksReleased / totalBlocksToBeReleased *)
  s_attempts : nat; s_aidx : option nat;   (* None = -1 *)
  s_index : list (key * loc);      (* every entry ever stored, newest insertion first *)
  s_threads : list (nat * thread);
  s_pushbacks : nat;               (* ghost: successful PushBacks so far *)
  s_negs : nat;                    (* ghost: negative data-integrity verdicts so far *)
}.

Definition upd_blocks (s : state) (bl zb : list block) : state :=
  {| s_blocks := bl; s_zombies := zb; s_free := s_free s; s_next_region := s_next_region s;
     s_next_uid := s_next_uid s; s_dev := s_dev s; s_old := s_old s; s_cur := s_cur s; s_new := s_new s;
     s_released := s_released s; s_tbr := s_tbr s; s_attempts := s_attempts s; s_aidx := s_aidx s;
     s_index := s_index s; s_threads := s_threads s; s_pushbacks := s_pushbacks s; s_negs := s_negs s |}.
Definition upd_free (s : state) (f : list nat) : state :=
  {| s_blocks := s_blocks s; s_zombies := s_zombies s; s_free := f; s_next_region := s_next_region s;
     s_next_uid := s_next_uid s; s_dev := s_dev s; s_old := s_old s; s_cur := s_cur s; s_new := s_new s;
     s_released := s_released s; s_tbr := s_tbr s; s_attempts := s_attempts s; s_aidx := s_aidx s;
     s_index := s_index s; s_threads := s_threads s; s_pushbacks := s_pushbacks s; s_negs := s_negs s |}.
Definition upd_dev (s : state) (d : list (nat * list N)) : state :=
  {| s_blocks := s_blocks s; s_zombies := s_zombies s; s_free := s_free s; s_next_region := s_next_region s;
     s_next_uid := s_next_uid s; s_dev := d; s_old := s_old s; s_cur := s_cur s; s_new := s_new s;
     s_released := s_released s; s_tbr := s_tbr s; s_attempts := s_attempts s; s_aidx := s_aidx s;
     s_index := s_index s; s_threads := s_threads s; s_pushbacks := s_pushbacks s; s_negs := s_negs s |}.
Definition upd_counts (s : state) (o c n : nat) : state :=
  {| s_blocks := s_blocks s; s_zombies := s_zombies s; s_free := s_free s; s_next_region := s_next_region s;
     s_next_uid := s_next_uid s; s_dev := s_dev s; s_old := o; s_cur := c; s_new := n;
     s_released := s_released s; s_tbr := s_tbr s; s_attempts := s_attempts s; s_aidx := s_aidx s;
     s_index := s_index s; s_threads := s_threads s; s_pushbacks := s_pushbacks s; s_negs := s_negs s |}.
Definition upd_rel (s : state) (r t : N) : state :=
  {| s_blocks := s_blocks s; s_zombies := s_zombies s; s_free := s_free s; s_next_region := s_next_region s;
     s_next_uid := s_next_uid s; s_dev := s_dev s; s_old := s_old s; s_cur := s_cur s; s_new := s_new s;
     s_released := r; s_tbr := t; s_attempts := s_attempts s; s_aidx := s_aidx s;
     s_index := s_index s; s_threads := s_threads s; s_pushbacks := s_pushbacks s; s_negs := s_negs s |}.
Definition upd_alloc (s : state) (a : nat) (i : option nat) : state :=
  {| s_blocks := s_blocks s; s_zombies := s_zombies s; s_free := s_free s; s_next_region := s_next_region s;
     s_next_uid := s_next_uid s; s_dev := s_dev s; s_old := s_old s; s_cur := s_cur s; s_new := s_new s;
     s_released := s_released s; s_tbr := s_tbr s; s_attempts := a; s_aidx := i;
     s_index := s_index s; s_threads := s_threads s; s_pushbacks := s_pushbacks s; s_negs := s_negs s |}.
Definition upd_index (s : state) (ix : list (key * loc)) : state :=
  {| s_blocks := s_blocks s; s_zombies := s_zombies s; s_free := s_free s; s_next_region := s_next_region s;
     s_next_uid := s_next_uid s; s_dev := s_dev s; s_old := s_old s; s_cur := s_cur s; s_new := s_new s;
     s_released := s_released s; s_tbr := s_tbr s; s_attempts := s_attempts s; s_aidx := s_aidx s;
     s_index := ix; s_threads := s_threads s; s_pushbacks := s_pushbacks s; s_negs := s_negs s |}.
Definition upd_threads (s : state) (t : list (nat * thread)) : state :=
  {| s_blocks := s_blocks s; s_zombies := s_zombies s; s_free := s_free s; s_next_region := s_next_region s;
     s_next_uid := s_next_uid s; s_dev := s_dev s; s_old := s_old s; s_cur := s_cur s; s_new := s_new s;
     s_released := s_released s; s_tbr := s_tbr s; s_attempts := s_attempts s; s_aidx := s_aidx s;
     s_index := s_index s; s_threads := t; s_pushbacks := s_pushbacks s; s_negs := s_negs s |}.

Definition bump_negs (s : state) : state :=
  {| s_blocks := s_blocks s; s_zombies := s_zombies s; s_free := s_free s; s_next_region := s_next_region s;
     s_next_uid := s_next_uid s; s_dev := s_dev s; s_old := s_old s; s_cur := s_cur s; s_new := s_new s;
     s_released := s_released s; s_tbr := s_tbr s; s_attempts := s_attempts s; s_aidx := s_aidx s;
     s_index := s_index s; s_threads := s_threads s; s_pushbacks := s_pushbacks s; s_negs := S (s_negs s) |}.

Definition init_state (c : config) : state :=
  {| s_blocks := []; s_zombies := []; s_free := seq 0 (c_nblocks c); s_next_region := 0;
     s_next_uid := 0; s_dev := []; s_old := 0; s_cur := 0; s_new := 0;
     s_released := 0; s_tbr := 0; s_attempts := 0; s_aidx := None;
     s_index := []; s_threads := []; s_pushbacks := 0; s_negs := 0 |}.

(** ---- allocator ---- *)
Definition in_memory (c : config) : bool := Nat.eqb (c_nblocks c) 0.
Definition zeros (n : N) : list N := repeat 0 (N.to_nat n).

Fixpoint dev_get (d : list (nat * list N)) (r : nat) : list N :=
  match d with
  | [] => []
  | (r', bytes) :: t => if Nat.eqb r r' then bytes else dev_get t r
  end.
Fixpoint dev_set (d : list (nat * list N)) (r : nat) (bytes : list N) : list (nat * list N) :=
  match d with
  | [] => [(r, bytes)]
  | (r', b) :: t => if Nat.eqb r r' then (r, bytes) :: t else (r', b) :: dev_set t r bytes
  end.

(** NewBlock: region to use, or None = UNAVAILABLE "No unused blocks available".
    Block-device regions keep their old bytes; in-memory blocks are fresh zeros. *)
Definition new_block (c : config) (s : state) : option (block * state) :=
  if in_memory c then
    let r := s_next_region s in
    let b := {| b_uid := s_next_uid s; b_region := r; b_cursor := 0; b_use := 1 |} in
    Some (b, {| s_blocks := s_blocks s; s_zombies := s_zombies s; s_free := s_free s; s_next_region := S r;
                s_next_uid := S (s_next_uid s); s_dev := dev_set (s_dev s) r (zeros (c_bs c));
                s_old := s_old s; s_cur := s_cur s; s_new := s_new s;
                s_released := s_released s; s_tbr := s_tbr s; s_attempts := s_attempts s; s_aidx := s_aidx s;
                s_index := s_index s; s_threads := s_threads s; s_pushbacks := s_pushbacks s; s_negs := s_negs s |})
  else
    match s_free s with
    | [] => None
    | r :: rest =>
        let b := {| b_uid := s_next_uid s; b_region := r; b_cursor := 0; b_use := 1 |} in
        let d := match dev_get (s_dev s) r with [] => dev_set (s_dev s) r (zeros (c_bs c)) | _ => s_dev s end in
        Some (b, {| s_blocks := s_blocks s; s_zombies := s_zombies s; s_free := rest; s_next_region := s_next_region s;
                    s_next_uid := S (s_next_uid s); s_dev := d;
                    s_old := s_old s; s_cur := s_cur s; s_new := s_new s;
                    s_released := s_released s; s_tbr := s_tbr s; s_attempts := s_attempts s; s_aidx := s_aidx s;
                    s_index := s_index s; s_threads := s_threads s; s_pushbacks := s_pushbacks s; s_negs := s_negs s |})
    end.

Definition set_use (b : block) (u : nat) : block :=
  {| b_uid := b_uid b; b_region := b_region b; b_cursor := b_cursor b; b_use := u |}.
Definition set_cursor (b : block) (cur : N) : block :=
  {| b_uid := b_uid b; b_region := b_region b; b_cursor := cur; b_use := b_use b |}.

Fixpoint map_uid (f : block -> block) (uid : nat) (l : list block) : list block :=
  match l with
  | [] => []
  | b :: t => if Nat.eqb (b_uid b) uid then f b :: t else b :: map_uid f uid t
  end.
Fixpoint find_uid (uid : nat) (l : list block) : option block :=
  match l with
  | [] => None
  | b :: t => if Nat.eqb (b_uid b) uid then Some b else find_uid uid t
  end.
Definition find_block (s : state) (uid : nat) : option block :=
  match find_uid uid (s_blocks s) with
  | Some b => Some b
  | None => find_uid uid (s_zombies s)
  end.

(** Block.Get / Block.Put take a reference; Release drops one and frees the
    region at zero (block device only: in-memory Release is a no-op and
    in-memory regions are never reused). *)
Definition pin (s : state) (uid : nat) : state :=
  upd_blocks s (map_uid (fun b => set_use b (S (b_use b))) uid (s_blocks s))
               (map_uid (fun b => set_use b (S (b_use b))) uid (s_zombies s)).

Definition unpin (c : config) (s : state) (uid : nat) : state :=
  match find_uid uid (s_blocks s) with
  | Some _ => upd_blocks s (map_uid (fun b => set_use b (pred (b_use b))) uid (s_blocks s)) (s_zombies s)
  | None =>
      match find_uid uid (s_zombies s) with
      | Some b =>
          if Nat.leb (b_use b) 1 then
            let s' := upd_blocks s (s_blocks s) (filter (fun z => negb (Nat.eqb (b_uid z) uid)) (s_zombies s)) in
            if in_memory c then s' else upd_free s' (s_free s' ++ [b_region b])
          else upd_blocks s (s_blocks s) (map_uid (fun z => set_use z (pred (b_use z))) uid (s_zombies s))
      | None => s
      end
  end.

(** BlockList.PopFront + totalBlocksReleased++ *)
Definition pop_front (c : config) (s : state) : state :=
  match s_blocks s with
  | [] => s
  | b :: rest =>
      let s1 := upd_rel s (s_released s + 1) (s_tbr s) in
      if Nat.leb (b_use b) 1 then
        let s2 := upd_blocks s1 rest (s_zombies s1) in
        if in_memory c then s2 else upd_free s2 (s_free s2 ++ [b_region b])
      else upd_blocks s1 rest (s_zombies s1 ++ [set_use b (pred (b_use b))])
  end.

Definition push_back (c : config) (s : state) : option state :=
  match new_block c s with
  | None => None
  | Some (b, s') =>
      let s'' := upd_blocks s' (s_blocks s' ++ [b]) (s_zombies s') in
      Some {| s_blocks := s_blocks s''; s_zombies := s_zombies s''; s_free := s_free s''; s_next_region := s_next_region s'';
              s_next_uid := s_next_uid s''; s_dev := s_dev s''; s_old := s_old s''; s_cur := s_cur s''; s_new := s_new s'';
              s_released := s_released s''; s_tbr := s_tbr s''; s_attempts := s_attempts s''; s_aidx := s_aidx s'';
              s_index := s_index s''; s_threads := s_threads s''; s_pushbacks := S (s_pushbacks s''); s_negs := s_negs s'' |}
  end.

(** ---- growth policies ---- *)
Definition grow_new (c : config) (cur new : nat) : bool :=
  if c_mutable c then Nat.ltb new 1 else Nat.ltb (cur + new) (c_cur c + c_new c).
Definition grow_cur (c : config) (cur : nat) : bool :=
  if c_mutable c then Nat.ltb cur (c_cur c) else false.
Definition desired_new (c : config) : nat := if c_mutable c then 1%nat else c_new c.

Definition has_space (c : config) (s : state) (idx : nat) (size : N) : bool :=
  match nth_error (s_blocks s) idx with
  | Some b => size <=? c_bs c - b_cursor b
  | None => false
  end.

Definition reset_alloc (s : state) : state := upd_alloc s 0 None.

(** findBlockWithSpace, loop 1: honour quarantine requests *)
Fixpoint fbs_release (c : config) (fuel : nat) (s : state) : state :=
  match fuel with
  | O => s
  | S f =>
      if s_released s <? s_tbr s then
        let s1 := pop_front c s in
        let s2 :=
          match s_old s1, s_cur s1 with
          | S o, _ => upd_counts s1 o (s_cur s1) (s_new s1)
          | O, S cu => upd_counts s1 O cu (s_new s1)
          | O, O => reset_alloc (upd_counts s1 O O (pred (s_new s1)))
          end in
        fbs_release c f s2
      else s
  end.

(** loop 2: grow the number of new blocks; false = PushBack failed (the
    state reached so far persists) *)
Fixpoint fbs_grow (c : config) (fuel : nat) (s : state) : bool * state :=
  match fuel with
  | O => (true, s)
  | S f =>
      if grow_new c (s_cur s) (s_new s) then
        match push_back c s with
        | None => (false, s)
        | Some s1 => fbs_grow c f (upd_counts s1 (s_old s1) (s_cur s1) (S (s_new s1)))
        end
      else (true, s)
  end.

(** loop 3: make sure the first "new" block has space *)
Fixpoint fbs_rotate (c : config) (fuel : nat) (size : N) (s : state) : bool * state :=
  match fuel with
  | O => (true, s)
  | S f =>
      if has_space c s (s_old s + s_cur s) size then (true, s)
      else if Nat.ltb (desired_new c) (s_new s) then
        fbs_rotate c f size (reset_alloc (upd_counts s (s_old s) (S (s_cur s)) (pred (s_new s))))
      else
        match push_back c s with
        | None => (false, s)
        | Some s1 =>
            let s2 :=
              if grow_cur c (s_cur s1) then upd_counts s1 (s_old s1) (S (s_cur s1)) (s_new s1)
              else
                let s3 := upd_counts s1 (S (s_old s1)) (s_cur s1) (s_new s1) in
                if Nat.ltb (c_old c) (s_old s3) then
                  let s4 := pop_front c s3 in
                  let s5 := upd_counts s4 (pred (s_old s4)) (s_cur s4) (s_new s4) in
                  upd_rel s5 (s_released s5) (N.max (s_tbr s5) (s_released s5))
                else s3 in
            fbs_rotate c f size (reset_alloc s2)
        end
  end.

(** loop 4: the "inverse exponential" spreading over new blocks *)
Fixpoint fbs_pick (c : config) (fuel : nat) (size : N) (s : state) : option (nat * state) :=
  match fuel with
  | O => None
  | S f =>
      let try_ :=
        match s_attempts s, s_aidx s with
        | S a, Some i =>
            let index := (s_old s + s_cur s + i)%nat in
            if has_space c s index size then Some (index, upd_alloc s a (Some i)) else None
        | _, _ => None
        end in
      match try_ with
      | Some r => Some r
      | None =>
          let i' := match s_aidx s with None => O | Some i => Nat.modulo (S i) (s_new s) end in
          let att := if Nat.leb (s_new s - desired_new c) i'
                     then Nat.pow 2 (s_new s - i' - 1) else Nat.pow 2 (desired_new c) in
          fbs_pick c f size (upd_alloc s att (Some i'))
      end
  end.

Inductive res (T : Type) := Ok (x : T) | Err (code : Z).
Arguments Ok {T} _.
Arguments Err {T} _.

Definition fuel_of (s : state) : nat := (2 * (length (s_blocks s) + s_new s + s_cur s) + 8)%nat.

Definition find_block_with_space (c : config) (s : state) (size : N) : res nat * state :=
  if c_bs c <? size then (Err cInvalidArgument, s) else
  let s1 := fbs_release c (S (length (s_blocks s))) s in
  match fbs_grow c (S (c_cur c + c_new c)) s1 with
  | (false, s2) => (Err cUnavailable, s2)
  | (true, s2) =>
      match fbs_rotate c (fuel_of s2) size s2 with
      | (false, s3) => (Err cUnavailable, s3)
      | (true, s3) =>
          match fbs_pick c (S (S (s_new s3)) * 2) size s3 with
          | Some (idx, s4) => (Ok idx, s4)
          | None => (Err (-1)%Z, s3)       (* out of fuel: excluded by the theorems, never observed *)
          end
      end
  end.

(** LocationBlobMap.Put: allocation inside the chosen block *)
Definition ocn_put (c : config) (s : state) (size : N) : res writer * state :=
  match find_block_with_space c s size with
  | (Err e, s') => (Err e, s')
  | (Ok idx, s') =>
      match nth_error (s_blocks s') idx with
      | None => (Err (-2)%Z, s')
      | Some b =>
          let wr := {| wr_uid := b_uid b; wr_abs := s_released s' + N.of_nat idx;
                       wr_off := b_cursor b; wr_size := size |} in
          let bl := map_uid (fun x => set_use (set_cursor x (b_cursor x + size)) (S (b_use x))) (b_uid b) (s_blocks s') in
          (Ok wr, upd_blocks s' bl (s_zombies s'))
      end
  end.

(** the put finalizer: drop the writer's reference; fail if the copy failed
    or the block has been released / quarantined meanwhile *)
Definition finalize (c : config) (s : state) (wr : writer) (copy_ok : bool) : res loc * state :=
  let s1 := unpin c s (wr_uid wr) in
  if negb copy_ok then (Err cInvalidArgument, s1)
  else if wr_abs wr <? s_tbr s1 then (Err cInternal, s1)
  else (Ok {| l_abs := wr_abs wr; l_off := wr_off wr; l_size := wr_size wr |}, s1).

Definition fin_check (s : state) (wr : writer) : res loc :=
  if wr_abs wr <? s_tbr s then Err cInternal
  else Ok {| l_abs := wr_abs wr; l_off := wr_off wr; l_size := wr_size wr |}.

(** ---- the index (abstract) ---- *)
Definition loc_valid (s : state) (l : loc) : bool :=
  (s_tbr s <=? l_abs l) && (l_abs l <? s_released s + N.of_nat (length (s_blocks s))).

Fixpoint newest (cands : list loc) (best : option loc) : option loc :=
  match cands with
  | [] => best
  | l :: t => newest t (match best with
                        | None => Some l
                        | Some b => if loc_older b l then Some l else Some b
                        end)
  end.

Definition index_get (s : state) (k : key) : option loc :=
  newest (map snd (filter (fun e => key_eqb (fst e) k && loc_valid s (snd e)) (s_index s))) None.
Definition index_put (s : state) (k : key) (l : loc) : state := upd_index s ((k, l) :: s_index s).

Definition needs_refresh (s : state) (l : loc) : bool :=
  l_abs l - s_released s <? N.of_nat (s_old s).

Definition block_of_loc (s : state) (l : loc) : option block :=
  nth_error (s_blocks s) (N.to_nat (l_abs l - s_released s)).

(** ---- device access ---- *)
Fixpoint slice (bytes : list N) (off len : nat) : list N := firstn len (skipn off bytes).
Fixpoint overwrite (bytes : list N) (off : nat) (data : list N) : list N :=
  match off, bytes with
  | O, _ => data ++ skipn (length data) bytes
  | S o, b :: t => b :: overwrite t o data
  | S o, [] => []
  end.

Definition read_block (s : state) (uid : nat) (off size : N) : list N :=
  match find_block s uid with
  | Some b => slice (dev_get (s_dev s) (b_region b)) (N.to_nat off) (N.to_nat size)
  | None => []
  end.
Definition write_block (s : state) (uid : nat) (off : N) (data : list N) : state :=
  match find_block s uid with
  | Some b => upd_dev s (dev_set (s_dev s) (b_region b)
                                 (overwrite (dev_get (s_dev s) (b_region b)) (N.to_nat off) data))
  | None => s
  end.

Fixpoint bytes_eqb (a b : list N) : bool :=
  match a, b with
  | [], [] => true
  | x :: a', y :: b' => (x =? y) && bytes_eqb a' b'
  | _, _ => false
  end.

(** ---- keys ---- *)
Definition flat_key (c : config) (o i : nat) : key := if c_inst_keys c then (o, S i) else (o, O).
Definition canonical_key (o : nat) : key := (o, O).
Definition lookup_keys (w : world) (o i : nat) : list key :=
  if c_hier (w_cfg w) then map (fun a => (o, S a)) (ancestors w i) else [flat_key (w_cfg w) o i].
Definition finalize_keys (w : world) (o i : nat) : list key :=
  if c_hier (w_cfg w) then [canonical_key o; (o, S i)] else [flat_key (w_cfg w) o i].

Fixpoint least_specific (s : state) (ks : list key) : option (key * loc) :=
  match ks with
  | [] => None
  | k :: t => match index_get s k with Some l => Some (k, l) | None => least_specific s t end
  end.

Fixpoint index_put_all (s : state) (ks : list key) (l : loc) : state :=
  match ks with
  | [] => s
  | k :: t => index_put_all (index_put s k l) t l
  end.

(** ---- threads ---- *)
Fixpoint thr_get (ts : list (nat * thread)) (id : nat) : option thread :=
  match ts with
  | [] => None
  | (i, t) :: r => if Nat.eqb i id then Some t else thr_get r id
  end.
Definition thr_del (ts : list (nat * thread)) (id : nat) : list (nat * thread) :=
  filter (fun e => negb (Nat.eqb (fst e) id)) ts.
Definition thr_set (s : state) (id : nat) (t : thread) : state :=
  upd_threads s ((id, t) :: thr_del (s_threads s) id).
Definition thr_rm (s : state) (id : nat) : state := upd_threads s (thr_del (s_threads s) id).

(** ---- operations ---- *)
Inductive op : Type :=
| OPutStart (tid obj inst : nat)
| OPutChunk (tid : nat) (data : list N)
| OPutEnd (tid : nat) (err : Z)                 (* 0 = EOF, otherwise the source fails with this code *)
| OGetOpen (tid obj inst : nat)
| OGetConsume (tid : nat)
| OFindMissing (ds : list (nat * nat))
| OGfcStart (tid parent inst child : nat)
| OGfcSlice (tid : nat) (slices : list (nat * (N * N)))   (* (child object, (offset, size)); the first is the requested child *)
| OCorrupt (region : nat) (off len : N).

Inductive out : Type :=
| Done (code : Z) (bytes : list N)     (* the operation returned *)
| Parked                               (* the operation is waiting for the harness (next chunk / slicer) *)
| Missing (code : Z) (ds : list nat)   (* FindMissing: positions reported missing *)
| Bad.                                 (* ill-formed event (unknown thread id, ...) *)

(** reading [l] through a pinned block [uid]: bytes, validity and quarantine *)
Definition read_validated (w : world) (s : state) (o : nat) (uid : nat) (l : loc) : bool * list N * state :=
  let bytes := read_block s uid (l_off l) (l_size l) in
  if c_validate (w_cfg w) && negb (bytes_eqb bytes (content w o)) then
    (false, bytes, bump_negs (upd_rel s (s_released s) (N.max (s_tbr s) (l_abs l + 1))))
  else (true, bytes, s).

(** The refresh copy runs as a background task of the returned buffer.  With
    a validating (CAS) read factory the two stream clones advance in lock
    step, so the copy completes when the caller consumes the buffer.  Buffers
    that are "trivially cloneable" (validated ReaderAt / byte-slice buffers:
    the raw factory and in-memory blocks) run the task in the foreground:
    the copy (and for Get also the finalisation) happens when the buffer is
    obtained. *)
Definition lockstep (c : config) : bool := c_validate c.

(** open a reader for object [o] found at [l]; with a refresh when the
    location is old.  Returns the thread to park, or an error. *)
Definition open_with_refresh (w : world) (s : state) (o : nat) (l : loc) (fkeys : list key)
  : res thread * state :=
  let c := w_cfg w in
  match block_of_loc s l with
  | None => (Err (-3)%Z, s)
  | Some b =>
      let s1 := pin s (b_uid b) in
      if needs_refresh s l then
        match ocn_put c s1 (l_size l) with
        | (Err e, s2) => (Err e, unpin c s2 (b_uid b))
        | (Ok wr, s2) =>
            if lockstep c then (Ok (TGet o (b_uid b) l (Some wr) fkeys), s2)
            else
              let bytes := read_block s2 (b_uid b) (l_off l) (l_size l) in
              let s3 := write_block s2 (wr_uid wr) (wr_off wr) bytes in
              match finalize c s3 wr true with
              | (Err e, s4) => (Err e, unpin c s4 (b_uid b))
              | (Ok nl, s4) => (Ok (TGet o (b_uid b) l None []), index_put_all s4 fkeys nl)
              end
        end
      else (Ok (TGet o (b_uid b) l None fkeys), s1)
  end.

(** hierarchical: syncFromCanonicalEntry *)
Definition sync_from_canonical (s : state) (o : nat) (lookup : key) : option (loc * state) :=
  match index_get s (canonical_key o) with
  | None => None
  | Some cl => if needs_refresh s cl then None else Some (cl, index_put s lookup cl)
  end.

Definition get_open (w : world) (s : state) (o i : nat) : res thread * state :=
  let c := w_cfg w in
  match least_specific s (lookup_keys w o i) with
  | None => (Err cNotFound, s)
  | Some (k, l) =>
      if negb (needs_refresh s l) then open_with_refresh w s o l []
      else if c_hier c then
        match sync_from_canonical s o k with
        | Some (cl, s1) => open_with_refresh w s1 o cl []
        | None => open_with_refresh w s o l [canonical_key o; k]
        end
      else open_with_refresh w s o l [k]
  end.

(** consume a parked reader completely (ToByteSlice): bytes, refresh copy,
    finalisation of the refreshed copy, release of the references *)
Definition get_consume (w : world) (s : state) (o : nat) (uid : nat) (l : loc)
           (refresh : option writer) (fkeys : list key) : Z * list N * state :=
  let c := w_cfg w in
  let '(valid, bytes, s1) := read_validated w s o uid l in
  let '(task_code, s2) :=
    match refresh with
    | None => (cOK, s1)
    | Some wr =>
        let s1' := if valid then write_block s1 (wr_uid wr) (wr_off wr) bytes else s1 in
        match finalize c s1' wr valid with
        | (Err e, s1'') => (e, s1'')
        | (Ok nl, s1'') => (cOK, index_put_all s1'' fkeys nl)
        end
    end in
  let s3 := unpin c s2 uid in
  if negb valid then (cInternal, [], s3)
  else if Z.eqb task_code cOK then (cOK, bytes, s3) else (task_code, [], s3).

(** FindMissing, second phase for one digest (refresh under refreshLock) *)
Definition fm_refresh_one (w : world) (s : state) (o i : nat) : res bool * state :=
  (* Ok true = present, Ok false = missing *)
  let c := w_cfg w in
  match least_specific s (lookup_keys w o i) with
  | None => (Ok false, s)
  | Some (k, l) =>
      if negb (needs_refresh s l) then (Ok true, s)
      else
        let direct :=
          if c_hier c then
            match sync_from_canonical s o k with
            | Some (_, s1) => Some s1
            | None => None
            end
          else None in
        match direct with
        | Some s1 => (Ok true, s1)
        | None =>
            let fkeys := if c_hier c then [canonical_key o; k] else [k] in
            match block_of_loc s l with
            | None => (Err (-3)%Z, s)
            | Some b =>
                let s0 := pin s (b_uid b) in
                match ocn_put c s0 (l_size l) with
                | (Err e, s1) => (Err e, unpin c s1 (b_uid b))
                | (Ok wr, s1) =>
                    let '(valid, bytes, s2) := read_validated w s1 o (b_uid b) l in
                    let s2' := if valid then write_block s2 (wr_uid wr) (wr_off wr) bytes else s2 in
                    let s2'' := unpin c s2' (b_uid b) in
                    match finalize c s2'' wr valid with
                    | (Err e, s3) => (Err (if valid then e else cInternal), s3)
                    | (Ok nl, s3) => (Ok true, index_put_all s3 fkeys nl)
                    end
                end
            end
        end
  end.

Fixpoint fm_phase2 (w : world) (s : state) (todo : list (nat * (nat * nat))) (missing : list nat)
  : res (list nat) * state :=
  match todo with
  | [] => (Ok missing, s)
  | (pos, (o, i)) :: t =>
      match fm_refresh_one w s o i with
      | (Err e, s1) => (Err e, s1)
      | (Ok true, s1) => fm_phase2 w s1 t missing
      | (Ok false, s1) => fm_phase2 w s1 t (missing ++ [pos])
      end
  end.

Fixpoint enumerate {T} (n : nat) (l : list T) : list (nat * T) :=
  match l with
  | [] => []
  | x :: t => (n, x) :: enumerate (S n) t
  end.

Definition find_missing (w : world) (s : state) (ds : list (nat * nat)) : res (list nat) * state :=
  let numbered := enumerate 0 ds in
  let missing1 := map fst (filter (fun '(_, (o, i)) =>
                    match least_specific s (lookup_keys w o i) with None => true | Some _ => false end) numbered) in
  let todo := filter (fun '(_, (o, i)) =>
                    match least_specific s (lookup_keys w o i) with
                    | Some (_, l) => needs_refresh s l
                    | None => false
                    end) numbered in
  fm_phase2 w s todo missing1.

Fixpoint insert_nat (n : nat) (l : list nat) : list nat :=
  match l with
  | [] => [n]
  | h :: t => if Nat.leb n h then n :: l else h :: insert_nat n t
  end.
Definition sort_nat (l : list nat) : list nat := fold_right insert_nat [] l.

(** Put, first phase *)
Definition put_start (w : world) (s : state) (o i : nat) : res thread * state :=
  let c := w_cfg w in
  let existing :=
    if c_hier c then
      match index_get s (canonical_key o) with
      | Some l => negb (needs_refresh s l)
      | None => false
      end
    else false in
  if existing then (Ok (TPutExisting o i []), s)
  else
    match ocn_put c s (osize w o) with
    | (Err e, s1) => (Err e, s1)
    | (Ok wr, s1) => (Ok (TPut o i wr []), s1)
    end.

(** flat GetFromComposite holds refreshLock while it is parked in the slicer;
    an operation that may need that lock would block behind it.  Such
    schedules are not explored: the event is answered [Bad] (by the harness
    too, without executing it). *)
Definition refresh_lock_held (s : state) : bool :=
  existsb (fun e => match snd e with TGfc _ _ _ _ _ _ => true | _ => false end) (s_threads s).
(** Corruption is only injected while no reader is open (an open CAS reader
    may already have fetched part of the data in its background task). *)
Definition reader_open (s : state) : bool :=
  existsb (fun e => match snd e with TGet _ _ _ _ _ | TGfc _ _ _ _ _ _ | TGfcErr _ => true | _ => false end) (s_threads s).
Definition is_corrupt (e : op) : bool := match e with OCorrupt _ _ _ => true | _ => false end.
Definition may_take_refresh_lock (e : op) : bool :=
  match e with OFindMissing _ | OGfcStart _ _ _ _ => true | _ => false end.

(** the step function *)
Definition step (w : world) (s : state) (e : op) : state * out :=
  let c := w_cfg w in
  if may_take_refresh_lock e && refresh_lock_held s then (s, Bad) else
  if is_corrupt e && reader_open s then (s, Bad) else
  match e with
  | OPutStart tid o i =>
      match thr_get (s_threads s) tid with
      | Some _ => (s, Bad)
      | None =>
          match put_start w s o i with
          | (Err e, s1) => (s1, Done e [])
          | (Ok t, s1) => (thr_set s1 tid t, Parked)
          end
      end
  | OPutChunk tid data =>
      match thr_get (s_threads s) tid with
      | Some (TPut o i wr acc) =>
          let n := N.of_nat (length acc + length data) in
          if wr_size wr <? n then
            (* more data than the digest announces: the validating reader fails before passing it on *)
            let '(_, s1) := finalize c s wr false in (thr_rm s1 tid, Done cInvalidArgument [])
          else
            let s1 := write_block s (wr_uid wr) (wr_off wr + N.of_nat (length acc)) data in
            (thr_set s1 tid (TPut o i wr (acc ++ data)), Parked)
      | Some (TPutExisting o i acc) =>
          let n := N.of_nat (length acc + length data) in
          if osize w o <? n then (thr_rm s tid, Done cInvalidArgument [])
          else (thr_set s tid (TPutExisting o i (acc ++ data)), Parked)
      | _ => (s, Bad)
      end
  | OPutEnd tid err =>
      match thr_get (s_threads s) tid with
      | Some (TPut o i wr acc) =>
          let ok := Z.eqb err 0 && bytes_eqb acc (content w o) in
          match finalize c s wr ok with
          | (Err e, s1) => (thr_rm s1 tid, Done (if Z.eqb err 0 then e else err) [])
          | (Ok l, s1) => (thr_rm (index_put_all s1 (finalize_keys w o i) l) tid, Done cOK [])
          end
      | Some (TPutExisting o i acc) =>
          if negb (Z.eqb err 0) then (thr_rm s tid, Done err [])
          else if negb (bytes_eqb acc (content w o)) then (thr_rm s tid, Done cInvalidArgument [])
          else
            match index_get s (canonical_key o) with
            | None => (thr_rm s tid, Done cInternal [])
            | Some l => (thr_rm (index_put s (o, S i) l) tid, Done cOK [])
            end
      | _ => (s, Bad)
      end
  | OGetOpen tid o i =>
      match thr_get (s_threads s) tid with
      | Some _ => (s, Bad)
      | None =>
          match get_open w s o i with
          | (Err e, s1) => (s1, Done e [])
          | (Ok t, s1) => (thr_set s1 tid t, Parked)
          end
      end
  | OGetConsume tid =>
      match thr_get (s_threads s) tid with
      | Some (TGet o uid l refresh fkeys) =>
          let '(code, bytes, s1) := get_consume w s o uid l refresh fkeys in
          (thr_rm s1 tid, Done code bytes)
      | _ => (s, Bad)
      end
  | OFindMissing ds =>
      match find_missing w s ds with
      | (Err e, s1) => (s1, Missing e [])
      | (Ok m, s1) => (s1, Missing cOK (sort_nat m))
      end
  | OGfcStart tid p i ch =>
      match thr_get (s_threads s) tid with
      | Some _ => (s, Bad)
      | None =>
          if c_hier c then
            (* slicer.Slice(ba.Get(parent), child): the slicer is always called *)
            match get_open w s p i with
            | (Err e, s1) => (thr_set s1 tid (TGfcErr e), Parked)
            | (Ok (TGet o uid l refresh fkeys), s1) => (thr_set s1 tid (TGet o uid l refresh fkeys), Parked)
            | (Ok _, s1) => (s1, Bad)
            end
          else
            let pk := flat_key c p i in
            match index_get s pk with
            | None => (s, Done cNotFound [])
            | Some pl =>
                let direct :=
                  if needs_refresh s pl then None
                  else match index_get s (flat_key c ch i) with
                       | Some cl => match block_of_loc s cl with Some b => Some (cl, b_uid b) | None => None end
                       | None => None
                       end in
                match direct with
                | Some (cl, uid) =>
                    let s1 := pin s uid in
                    let '(code, bytes, s2) := get_consume w s1 ch uid cl None [] in
                    (s2, Done code bytes)
                | None =>
                    match block_of_loc s pl with
                    | None => (s, Bad)
                    | Some b =>
                        let s1 := pin s (b_uid b) in
                        if needs_refresh s pl then
                          match ocn_put c s1 (l_size pl) with
                          | (Err e, s2) => (unpin c s2 (b_uid b), Done e [])
                          | (Ok wr, s2) =>
                              let s3 :=
                                if lockstep c then s2
                                else unpin c (write_block s2 (wr_uid wr) (wr_off wr)
                                                          (read_block s2 (b_uid b) (l_off pl) (l_size pl)))
                                             (wr_uid wr) in
                              (thr_set s3 tid (TGfc p i (b_uid b) pl (Some wr) pk), Parked)
                          end
                        else (thr_set s1 tid (TGfc p i (b_uid b) pl None pk), Parked)
                    end
                end
            end
      end
  | OGfcSlice tid slices =>
      match thr_get (s_threads s) tid with
      | Some (TGfcErr e) => (thr_rm s tid, Done e [])
      | Some (TGet o uid l refresh fkeys) =>
          (* hierarchical: the child is cut out of the parent's bytes; no entries are created *)
          let '(code, bytes, s1) := get_consume w s o uid l refresh fkeys in
          let child := match slices with
                       | (_, (off, len)) :: _ => slice bytes (N.to_nat off) (N.to_nat len)
                       | [] => []
                       end in
          (thr_rm s1 tid, if Z.eqb code cOK then Done cOK child else Done code [])
      | Some (TGfc p i uid pl refresh pk) =>
          let '(valid, bytes, s1) := read_validated w s p uid pl in
          let s1u := unpin c s1 uid in
          if negb valid then
            (* the slicer receives an error; a refresh in progress is abandoned by the failing copy *)
            let s2 := match refresh with
                      | Some wr => if lockstep c then snd (finalize c s1u wr false) else s1u
                      | None => s1u
                      end in
            (thr_rm s2 tid, Done cInternal [])
          else
            let child := match slices with
                         | (_, (off, len)) :: _ => slice bytes (N.to_nat off) (N.to_nat len)
                         | [] => []
                         end in
            let mk (s' : state) (ploc : loc) : state :=
              fold_left (fun acc '(cho, (off, len)) =>
                           index_put acc (flat_key c cho i)
                                     {| l_abs := l_abs ploc; l_off := l_off ploc + off; l_size := len |})
                        slices s' in
            match refresh with
            | Some wr =>
                let '(r, s3) :=
                  if lockstep c then finalize c (write_block s1u (wr_uid wr) (wr_off wr) bytes) wr true
                  else (fin_check s1u wr, s1u) in
                match r with
                | Err e => (thr_rm s3 tid, Done e [])
                | Ok nl => (thr_rm (mk (index_put s3 pk nl) nl) tid, Done cOK child)
                end
            | None =>
                (* the lock was dropped while slicing: the parent's location is looked up again *)
                match index_get s1u pk with
                | None => (thr_rm s1u tid, Done cOK child)
                | Some pl' => (thr_rm (mk s1u pl') tid, Done cOK child)
                end
            end
      | _ => (s, Bad)
      end
  | OCorrupt r off len =>
      let bytes := dev_get (s_dev s) r in
      let garbled := map (fun b => N.lxor b 255) (slice bytes (N.to_nat off) (N.to_nat len)) in
      match bytes with
      | [] => (s, Done cOK [])
      | _ => (upd_dev s (dev_set (s_dev s) r (overwrite bytes (N.to_nat off) garbled)), Done cOK [])
      end
  end.

Fixpoint run (w : world) (s : state) (es : list op) : state * list out :=
  match es with
  | [] => (s, [])
  | e :: t => let '(s1, o) := step w s e in
              let '(s2, os) := run w s1 t in (s2, o :: os)
  end.
