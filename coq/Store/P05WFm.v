(** C05, idempotence part 7: what a successful FindMissing (any number of
    digests) leaves behind, and why an immediately repeated call that writes
    reports at least two digests present (clause 4, not clause 3).

    After a call that returned OK, either
    - (no copy was made) every digest of the call is settled or not found:
      the repeat allocates and writes nothing; or
    - (a copy was made) the digest copied LAST is found at a location that is
      not old by the lookup itself: the repeat neither reports it missing
      nor examines it again - it is present - and any digest the repeat
      copies is present as well. *)
From Coq Require Import List NArith ZArith Bool Arith Lia Relations.
From Coq Require Import ZifyN ZifyNat ZifyBool.
From BBS Require Import Common.Sx Store.Model Store.Wf Store.WfTids Run.RStore Run.R01 Run.R05.
From BBS Require Import Store.P05Cnt Store.P05Frame Store.P05Ops Store.P05Step Store.P05Surv Store.P05Mon
                        Store.P05Inv Store.P05Main Store.P05Touch.
From BBS Require Import Store.P05WInv Store.P05WRep Store.P05WEnd.
Import ListNotations.
Open Scope N_scope.

(** ---- least_specific ---- *)
Lemma ls_intro s : forall pre k post l,
  (forall k', In k' pre -> index_get s k' = None) -> index_get s k = Some l ->
  least_specific s (pre ++ k :: post) = Some (k, l).
Proof.
  induction pre as [|k0 t IH]; intros k post l HN HG; cbn [app least_specific].
  - rewrite HG. reflexivity.
  - rewrite (HN k0 (or_introl eq_refl)). apply IH; [intros k' H; apply HN; right; exact H|exact HG].
Qed.
Lemma ls_elim s : forall ks k l, least_specific s ks = Some (k, l) ->
  exists pre post, ks = pre ++ k :: post /\ (forall k', In k' pre -> index_get s k' = None) /\ index_get s k = Some l.
Proof.
  induction ks as [|k0 t IH]; intros k l H; cbn [least_specific] in H; [discriminate|].
  destruct (index_get s k0) as [l0|] eqn:E.
  - inversion H; subst. exists [], t. split; [reflexivity|]. split; [intros k' []|exact E].
  - destruct (IH k l H) as (pre & post & -> & HN & HG). exists (k0 :: pre), post.
    split; [reflexivity|]. split; [|exact HG]. intros k' [<-|Hk]; [exact E|apply HN, Hk].
Qed.
Lemma ls_none_intro s : forall ks, (forall k, In k ks -> index_get s k = None) -> least_specific s ks = None.
Proof.
  induction ks as [|k0 t IH]; intros H; cbn [least_specific]; [reflexivity|].
  rewrite (H k0 (or_introl eq_refl)). apply IH. intros k Hk. apply H. right. exact Hk.
Qed.

(** keys under which objects are looked up (never the canonical key of a
    hierarchical store) *)
Definition lkey (w : world) (k : key) : Prop := c_hier (w_cfg w) = true -> exists o a, k = (o, S a).
Lemma lookup_lkey w o i k : In k (lookup_keys w o i) -> lkey w k.
Proof. intros H Hh. destruct (lookup_keys_hier w o i k Hh H) as (a & ->). eauto. Qed.

(** ---- the index under small changes ---- *)
Lemma index_get_put_other s k1 l1 k2 : k2 <> k1 -> index_get (index_put s k1 l1) k2 = index_get s k2.
Proof.
  intros NE. unfold index_get, index_put, upd_index; cbn [s_index filter fst snd].
  assert (E : key_eqb k1 k2 = false).
  { destruct (key_eqb k1 k2) eqn:E; [|reflexivity]. apply key_eqb_eq in E. congruence. }
  rewrite E. cbn [andb]. reflexivity.
Qed.

Lemma index_get_put_all_other ks : forall s l k2, ~ In k2 ks -> index_get (index_put_all s ks l) k2 = index_get s k2.
Proof.
  induction ks as [|k t IH]; intros s l k2 NI; cbn [index_put_all]; [reflexivity|].
  rewrite IH; [|intros H; apply NI; right; exact H].
  apply index_get_put_other. intros ->. apply NI. left. reflexivity.
Qed.

(** validity of existing entries is only ever lost *)
Lemma index_get_none_mono s s' k :
  eix s -> s_index s' = s_index s -> s_tbr s <= s_tbr s' ->
  index_get s k = None -> index_get s' k = None.
Proof.
  intros EI IX TB HN. destruct (index_get s' k) as [l'|] eqn:E; [|reflexivity]. exfalso.
  apply index_get_in in E. destruct E as [IN V]. rewrite IX in IN.
  eapply (index_get_some s k l'); [exact IN| |exact HN].
  pose proof (EI _ _ IN) as B. unfold k_end in B. cbn in B. unfold loc_valid in *. lia.
Qed.

Lemma index_get_some_back s s' k :
  eix s -> s_index s' = s_index s -> s_tbr s <= s_tbr s' ->
  index_get s' k <> None -> index_get s k <> None.
Proof. intros EI IX TB H HN. apply H. eapply index_get_none_mono; eauto. Qed.

(** ---- found at a location that is not old, by the lookup itself ---- *)
Definition LSF (w : world) (s : state) (o i : nat) : Prop :=
  exists k l, least_specific s (lookup_keys w o i) = Some (k, l) /\ needs_refresh s l = false.

Lemma LSF_settled w s o i : (c_hier (w_cfg w) = true -> hinv s) -> LSF w s o i -> settled w s o i.
Proof.
  intros HH (k & l & LS & NR). apply least_specific_some in LS. destruct LS as [KI IG].
  apply index_get_in in IG. destruct IG as [IN V].
  exists k, l. split; [exact KI|]. split; [exact IN|]. split.
  - intros Hh. destruct (lookup_keys_hier w o i k Hh KI) as (a & ->). exact (proj1 (HH Hh) _ _ _ IN).
  - split; [exact NR|]. unfold loc_valid in V. lia.
Qed.

(** storing a valid, not-old location under a key that already answers
    preserves "found not old by the lookup" for every object *)
Lemma LSF_put w s k cl o i :
  index_get s k <> None -> loc_valid s cl = true -> needs_refresh s cl = false ->
  LSF w s o i -> LSF w (index_put s k cl) o i.
Proof.
  intros HK VC NC (k0 & l0 & LS & NR).
  destruct (ls_elim s _ _ _ LS) as (pre & post & EK & HN & HG).
  set (s' := index_put s k cl).
  assert (P : proj s' = proj s) by reflexivity.
  assert (PRE : forall k', In k' pre -> index_get s' k' = None).
  { intros k' Hk'. unfold s'. rewrite index_get_put_other; [apply HN, Hk'|].
    intros ->. apply HK. apply HN, Hk'. }
  pose proof (index_get_in _ _ _ HG) as [IN0 V0].
  assert (IN' : In (k0, l0) (s_index s')) by (right; exact IN0).
  assert (V' : loc_valid s' l0 = true) by (rewrite (loc_valid_proj _ _ _ P); exact V0).
  destruct (index_get_newest s' k0 l0 IN' V') as (l' & G' & LE & _).
  exists k0, l'. split.
  - rewrite EK. apply ls_intro; auto.
  - rewrite (needs_refresh_proj _ _ _ P). unfold needs_refresh in *. lia.
Qed.

(** ---- one digest of the second phase ---- *)
Definition KV (w : world) (s s1 : state) : Prop :=
  forall k, lkey w k -> index_get s1 k <> None -> index_get s k <> None.

Lemma KV_refl w s : KV w s s. Proof. intros k _ H. exact H. Qed.
Lemma KV_trans w a b c : KV w a b -> KV w b c -> KV w a c.
Proof. intros H1 H2 k L H. apply (H1 k L), (H2 k L), H. Qed.

Definition NONCOPY (w : world) (s s1 : state) (o i : nat) : Prop :=
  proj s1 = proj s /\ incl (s_index s) (s_index s1) /\ settled w s1 o i /\
  (forall o' i', LSF w s o' i' -> LSF w s1 o' i').

Lemma fm_refresh_one_inv w s o i r s1 :
  kinv (w_cfg w) (proj s) -> einv s -> (c_hier (w_cfg w) = true -> hinv s) ->
  fm_refresh_one w s o i = (r, s1) ->
  KV w s s1 /\
  match r with
  | Ok false => s1 = s /\ least_specific s (lookup_keys w o i) = None
  | Ok true => NONCOPY w s s1 o i \/ LSF w s1 o i
  | Err _ => True
  end.
Proof.
  intros K EI HH H. unfold fm_refresh_one in H.
  destruct (least_specific s (lookup_keys w o i)) as [[k l]|] eqn:LS.
  2:{ inversion H; subst. split; [apply KV_refl|auto]. }
  pose proof (least_specific_some _ _ _ _ LS) as [KI IG].
  pose proof (index_get_in _ _ _ IG) as [IN V].
  destruct (negb (needs_refresh s l)) eqn:NR.
  { apply negb_true_iff in NR. inversion H; subst. split; [apply KV_refl|]. left.
    assert (LF : LSF w s1 o i) by (exists k, l; auto).
    split; [reflexivity|]. split; [apply incl_refl|]. split; [apply LSF_settled; auto|auto]. }
  apply negb_false_iff in NR.
  (* synchronisation from the canonical entry *)
  assert (SYNC : forall cl s', sync_from_canonical s o k = Some (cl, s') ->
            KV w s s' /\ NONCOPY w s s' o i).
  { intros cl s' SY. unfold sync_from_canonical in SY.
    destruct (index_get s (canonical_key o)) as [cl'|] eqn:IC; [|discriminate].
    destruct (needs_refresh s cl') eqn:NC; [discriminate|]. inversion SY; subst; clear SY.
    pose proof (index_get_in _ _ _ IC) as [INC VC].
    assert (HKn : index_get s k <> None) by congruence.
    split.
    - intros k' _ Hk'. destruct (key_eqb k' k) eqn:E.
      + apply key_eqb_eq in E. subst k'. exact HKn.
      + rewrite index_get_put_other in Hk'; [exact Hk'|]. intros ->.
        rewrite (proj2 (key_eqb_eq k k) eq_refl) in E. discriminate.
    - split; [reflexivity|]. split; [apply incl_tl, incl_refl|]. split.
      + exists k, cl. split; [exact KI|]. split; [left; reflexivity|]. split; [intros _; right; exact INC|].
        split; [exact NC|]. unfold loc_valid in VC. cbn. lia.
      + intros o' i' LF. apply LSF_put; auto. }
  (* the copying path *)
  assert (COPY : forall fkeys, In k fkeys ->
            (forall k', In k' fkeys -> k' = k \/ (c_hier (w_cfg w) = true /\ k' = canonical_key o)) ->
            (c_hier (w_cfg w) = false -> lookup_keys w o i = [k]) ->
            match block_of_loc s l with
            | None => (Err (-3)%Z, s)
            | Some b =>
                let s0 := pin s (b_uid b) in
                match ocn_put (w_cfg w) s0 (l_size l) with
                | (Err e, s1) => (Err e, unpin (w_cfg w) s1 (b_uid b))
                | (Ok wr, s1) =>
                    let '(valid, bytes, s2) := read_validated w s1 o (b_uid b) l in
                    let s2' := if valid then write_block s2 (wr_uid wr) (wr_off wr) bytes else s2 in
                    let s2'' := unpin (w_cfg w) s2' (b_uid b) in
                    match finalize (w_cfg w) s2'' wr valid with
                    | (Err e, s3) => (Err (if valid then e else cInternal), s3)
                    | (Ok nl, s3) => (Ok true, index_put_all s3 fkeys nl)
                    end
                end
            end = (r, s1) ->
            KV w s s1 /\ match r with Ok false => False | Ok true => LSF w s1 o i | Err _ => True end).
  { intros fkeys KF FKS FLAT HC.
    assert (BASE : forall s3, frx (w_cfg w) s s3 -> s_index s3 = s_index s -> KV w s s3).
    { intros s3 (R & _ & _) IX k' _ Hk'. eapply index_get_some_back; [exact (proj1 EI)|exact IX| |exact Hk'].
      apply creach_mono in R. unfold kmono in R. cbn in R. lia. }
    destruct (block_of_loc s l) as [b|].
    2:{ inversion HC; subst. split; [apply KV_refl|exact I]. }
    cbv zeta in HC.
    pose proof (same_pin s (b_uid b)) as SP.
    destruct (ocn_put (w_cfg w) (pin s (b_uid b)) (l_size l)) as [r1 s1'] eqn:EO.
    apply ocn_put_spec in EO. destruct EO as (F1 & HW & _).
    assert (F01 : fr (w_cfg w) s s1') by (eapply fr_trans; [apply same_fr; exact SP|exact F1]).
    destruct r1 as [wr|e].
    2:{ inversion HC; subst. split; [|exact I].
        assert (FF : fr (w_cfg w) s (unpin (w_cfg w) s1' (b_uid b))) by (eapply fr_trans; [exact F01|apply same_fr, same_unpin]).
        apply BASE; [apply fr_frx; exact FF|exact (proj1 (proj2 FF))]. }
    destruct (HW wr eq_refl) as [B1 B2].
    destruct (read_validated w s1' o (b_uid b) l) as [[valid bs] s2] eqn:ER.
    apply read_validated_spec in ER. destruct ER as [F2 V2].
    set (s2' := if valid then write_block s2 (wr_uid wr) (wr_off wr) bs else s2) in HC.
    assert (S2' : same s2 s2') by (unfold s2'; destruct valid; [apply same_write_block|apply same_refl]).
    destruct (finalize (w_cfg w) (unpin (w_cfg w) s2' (b_uid b)) wr valid) as [r3 s3] eqn:EF.
    apply finalize_spec in EF. destruct EF as (S3 & HL & _).
    assert (S23 : same s2 s3) by (eapply same_trans; [exact S2'|eapply same_trans; [apply same_unpin|exact S3]]).
    assert (F03 : fr (w_cfg w) s s3).
    { eapply fr_trans; [exact F01|]. eapply fr_trans; [exact F2|apply same_fr; exact S23]. }
    pose proof (BASE s3 (fr_frx _ _ _ F03) (proj1 (proj2 F03))) as KV3.
    destruct r3 as [nl|e].
    2:{ inversion HC; subst. split; [exact KV3|exact I]. }
    inversion HC; subst r s1; clear HC.
    destruct (HL nl eq_refl) as (A1 & A2 & A3). subst valid.
    rewrite (V2 eq_refl) in S23.
    destruct (index_put_all_spec fkeys s3 nl) as (P5 & _ & I5 & A5).
    split.
    - (* KV *)
      intros k' LK Hk'.
      assert (DEC : forall a b : key, {a = b} + {a <> b}) by (decide equality; apply Nat.eq_dec).
      destruct (in_dec DEC k' fkeys) as [INK|NIK].
      + destruct (FKS k' INK) as [->|[Hh ->]]; [congruence|].
        destruct (LK Hh) as (o' & a' & E). discriminate.
      + rewrite index_get_put_all_other in Hk'; [|exact NIK]. apply (KV3 k' LK Hk').
    - (* found not old by the lookup *)
      destruct (ls_elim s _ _ _ LS) as (pre & post & EK & HN & HG).
      assert (P13 : proj s3 = proj s1') by (destruct S23 as [P _]; exact P).
      assert (VNL : loc_valid (index_put_all s3 fkeys nl) nl = true).
      { rewrite (loc_valid_proj _ _ _ P5). unfold loc_valid. rewrite A1.
        assert (s_tbr s3 <= wr_abs wr) by exact A2.
        assert (E1 : s_released s3 = s_released s1') by (change (k_rel (proj s3) = k_rel (proj s1')); rewrite P13; reflexivity).
        assert (E2 : length (s_blocks s3) = length (s_blocks s1')) by (change (k_len (proj s3) = k_len (proj s1')); rewrite P13; reflexivity).
        rewrite E1, E2. lia. }
      destruct (index_get_newest _ k nl (A5 k KF) VNL) as (l' & G' & LE & _).
      exists k, l'. split.
      + rewrite EK. apply ls_intro; [|exact G'].
        intros k' Hk'.
        assert (NIK : ~ In k' fkeys).
        { intros INK. destruct (FKS k' INK) as [->|[Hh ->]].
          - specialize (HN k Hk'). congruence.
          - assert (LK : lkey w (canonical_key o)).
            { apply (lookup_lkey w o i). rewrite EK. apply in_or_app. left. exact Hk'. }
            destruct (LK Hh) as (o' & a' & E). discriminate. }
        rewrite index_get_put_all_other; [|exact NIK].
        eapply index_get_none_mono; [exact (proj1 EI)|exact (proj1 (proj2 F03))| |apply HN, Hk'].
        destruct F03 as [R _]. apply creach_mono in R. unfold kmono in R. cbn in R. lia.
      + rewrite (needs_refresh_proj _ _ _ P5). unfold needs_refresh.
        assert (E1 : s_released s3 = s_released s1') by (change (k_rel (proj s3) = k_rel (proj s1')); rewrite P13; reflexivity).
        assert (E2 : s_old s3 = s_old s1') by (change (k_old (proj s3) = k_old (proj s1')); rewrite P13; reflexivity).
        rewrite E1, E2. lia. }
  destruct (c_hier (w_cfg w)) eqn:Hh.
  - destruct (sync_from_canonical s o k) as [[cl s']|] eqn:SY.
    + inversion H; subst. destruct (SYNC cl s1 eq_refl) as [A B]. split; [exact A|left; exact B].
    + apply COPY in H.
      * destruct H as [A B]. split; [exact A|]. destruct r as [[|]|e]; [right; exact B|destruct B|exact I].
      * right. left. reflexivity.
      * intros k' [<-|[<-|[]]]; [right; split; reflexivity|left; reflexivity].
      * intros; discriminate.
  - apply COPY in H.
    + destruct H as [A B]. split; [exact A|]. destruct r as [[|]|e]; [right; exact B|destruct B|exact I].
    + left. reflexivity.
    + intros k' [<-|[]]. left. reflexivity.
    + intros _. unfold lookup_keys in KI |- *. rewrite Hh in KI |- *. destruct KI as [<-|[]]. reflexivity.
Qed.
