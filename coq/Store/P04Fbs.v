(** C04 proofs, part 3: findBlockWithSpace (its four loops never run out of
    fuel), LocationBlobMap.Put, the put finalizer, validated reads. *)
From Coq Require Import List NArith ZArith Bool Arith Lia Permutation.
From Coq Require Import ZifyN ZifyNat ZifyBool.
From BBS Require Import Store.Model Store.Wf Store.P04Base Store.P04Prim.
Import ListNotations.
Local Open Scope nat_scope.

(** the consequences of [wf_config] that the proofs use *)
Definition wfc (c : config) : Prop :=
  (0 < c_bs c)%N /\ 1 <= c_new c /\ 1 <= desired_new c.
Lemma wf_config_wfc c : wf_config c = true -> wfc c.
Proof.
  unfold wf_config, wfc, desired_new. rewrite !andb_true_iff.
  intros [[[[[H1 H2] H3] _] _] _]. apply N.ltb_lt in H1. apply Nat.leb_le in H2.
  split; [exact H1|]. split; [exact H2|]. destruct (c_mutable c); [lia | exact H2].
Qed.

(** states that differ only in the allocation-attempt fields, the index, the device ... *)
Definition aeq (s s' : state) : Prop := same_alloc s s' /\ same_cnt s s' /\ s_threads s' = s_threads s.
Lemma aeq_refl s : aeq s s.
Proof. unfold aeq, same_alloc, same_cnt. repeat split; reflexivity. Qed.
Lemma aeq_trans s1 s2 s3 : aeq s1 s2 -> aeq s2 s3 -> aeq s1 s3.
Proof.
  unfold aeq, same_alloc, same_cnt.
  intros ((A1 & A2 & A3 & A4 & A5) & (B1 & B2 & B3 & B4 & B5) & C1)
         ((A1' & A2' & A3' & A4' & A5') & (B1' & B2' & B3' & B4' & B5') & C1').
  repeat split; congruence.
Qed.
Lemma HI_aeq c s0 s s' R : aeq s s' -> HI c s0 s R -> HI c s0 s' R.
Proof. intros (A & B & C). apply HI_same; assumption. Qed.
Lemma aeq_upd_alloc s a i : aeq s (upd_alloc s a i).
Proof. unfold aeq, same_alloc, same_cnt. sred. repeat split; reflexivity. Qed.
Lemma has_space_aeq c s s' idx size : aeq s s' -> has_space c s' idx size = has_space c s idx size.
Proof. intros ((E & _) & _). unfold has_space. rewrite E. reflexivity. Qed.

(** ---- loop 1 ---- *)
Lemma fbs_release_ok c s0 R : forall fuel s, HI c s0 s R -> HI c s0 (fbs_release c fuel s) R.
Proof.
  induction fuel as [|f IH]; intros s H; cbn [fbs_release]; [exact H|].
  destruct (N.ltb (s_released s) (s_tbr s)) eqn:E; [|exact H].
  apply N.ltb_lt in E. apply IH. destruct H as [A [C F]].
  destruct (pop_front_spec c s0 s R A F) as (A1 & F1 & Eo & Ec & En & Et & Hb).
  destruct C as [C1 C2 C3 C4].
  set (s1 := pop_front c s) in *.
  destruct (s_blocks s) as [|b rest] eqn:EB.
  { cbn [length] in C3. lia. }
  destruct Hb as [Hb Hr]. cbn [length] in C1, C3.
  assert (G : forall o cu n, length rest = o + cu + n ->
            (c_mutable c = false -> cu <= c_cur c /\ cu + n <= c_cur c + c_new c) ->
            HI c s0 (upd_counts s1 o cu n) R).
  { intros o cu n Hl Hi. split; [|split].
    - eapply AInv_same; [|exact A1]. same_tac.
    - constructor; sred; rewrite ?Hb, ?Hr, ?Et; auto; lia.
    - eapply Fr_same; [..|exact F1]; reflexivity. }
  rewrite Eo, Ec, En.
  destruct (s_old s) as [|o] eqn:EO; [destruct (s_cur s) as [|cu] eqn:EC|].
  - unfold reset_alloc. apply HI_upd_alloc. apply G; [lia|]. intros Hm. specialize (C4 Hm). lia.
  - apply G; [lia|]. intros Hm. specialize (C4 Hm). lia.
  - apply G; [lia|]. intros Hm. specialize (C4 Hm). lia.
Qed.

(** ---- loop 2 ---- *)
Definition grow_need (c : config) (s : state) : nat :=
  if c_mutable c then (if Nat.ltb (s_new s) 1 then 1 else 0)
  else (c_cur c + c_new c) - (s_cur s + s_new s).

Lemma fbs_grow_ok c s0 R : forall fuel s, HI c s0 s R ->
  HI c s0 (snd (fbs_grow c fuel s)) R /\
  (fst (fbs_grow c fuel s) = true -> grow_need c s < fuel ->
   grow_new c (s_cur (snd (fbs_grow c fuel s))) (s_new (snd (fbs_grow c fuel s))) = false).
Proof.
  induction fuel as [|f IH]; intros s H; cbn [fbs_grow].
  { split; [exact H|]. intros _ X. lia. }
  destruct (grow_new c (s_cur s) (s_new s)) eqn:EG.
  2:{ cbn [fst snd]. split; [exact H|]. intros _ _. exact EG. }
  destruct (push_back c s) as [s1|] eqn:EP.
  2:{ cbn [fst snd]. split; [exact H|]. discriminate. }
  destruct H as [A [C F]].
  destruct (push_back_spec c s0 s R s1 A F EP) as (A1 & F1 & Eo & Ec & En & Er & Et & b & Hb & _).
  set (s2 := upd_counts s1 (s_old s1) (s_cur s1) (S (s_new s1))).
  assert (H2 : HI c s0 s2 R).
  { split; [|split].
    - eapply AInv_same; [|exact A1]. same_tac.
    - destruct C as [C1 C2 C3 C4]. unfold s2. constructor; sred; rewrite ?Hb, ?app_length, ?Eo, ?Ec, ?En, ?Er, ?Et; cbn [length]; try lia.
      intros Hm. specialize (C4 Hm). unfold grow_new in EG. rewrite Hm in EG. apply Nat.ltb_lt in EG. lia.
    - eapply Fr_same; [..|exact F1]; reflexivity. }
  destruct (IH s2 H2) as [I1 I2]. split; [exact I1|].
  intros Hok Hn. apply I2; [exact Hok|].
  unfold grow_need in *. unfold s2. sred. rewrite Ec, En. unfold grow_new in EG.
  destruct (c_mutable c).
  - rewrite EG in Hn. assert (X : Nat.ltb (S (s_new s)) 1 = false) by (apply Nat.ltb_ge; lia).
    rewrite X. lia.
  - apply Nat.ltb_lt in EG. lia.
Qed.

(** ---- loop 3 ---- *)
Definition fresh (b : block) : Prop := b_cursor b = 0%N.

Lemma has_space_fresh c s idx size b : nth_error (s_blocks s) idx = Some b -> fresh b ->
  (size <= c_bs c)%N -> has_space c s idx size = true.
Proof.
  intros H1 H2 H3. unfold has_space. rewrite H1. unfold fresh in H2. rewrite H2. apply N.leb_le. lia.
Qed.

Lemma skipn_S_tl {T} n (l : list T) : skipn n (tl l) = skipn (S n) l.
Proof. destruct l; [destruct n; reflexivity | reflexivity]. Qed.

Lemma skipn_app_le {T} n (l1 l2 : list T) : n <= length l1 -> skipn n (l1 ++ l2) = skipn n l1 ++ l2.
Proof.
  intros H. rewrite skipn_app. replace (n - length l1) with 0 by lia. reflexivity.
Qed.

Lemma fbs_rotate_ok c s0 R size : wfc c -> (size <= c_bs c)%N ->
  forall fuel s, HI c s0 s R -> 1 <= s_new s ->
  (exists j, j <= s_new s /\ Forall fresh (skipn (s_old s + s_cur s + j) (s_blocks s)) /\ j < fuel) ->
  let r := fbs_rotate c fuel size s in
  HI c s0 (snd r) R /\ 1 <= s_new (snd r) /\
  (fst r = true -> has_space c (snd r) (s_old (snd r) + s_cur (snd r)) size = true).
Proof.
  intros (W1 & W2 & W3) Hsz.
  induction fuel as [|f IH]; intros s H Hn (j & J1 & J2 & J3); [lia|].
  cbn [fbs_rotate].
  destruct (has_space c s (s_old s + s_cur s) size) eqn:EH.
  { cbn [fst snd]. auto. }
  destruct H as [A [C F]]. pose proof C as [C1 C2 C3 C4].
  (* j = 0 would mean the first new block is fresh and has space *)
  assert (Jpos : 1 <= j).
  { destruct j as [|j]; [|lia]. exfalso. rewrite Nat.add_0_r in J2.
    destruct (nth_error (s_blocks s) (s_old s + s_cur s)) as [b|] eqn:EN.
    - pose proof (nth_error_split _ _ EN) as (l1 & l2 & E1 & E2).
      rewrite E1 in J2. rewrite <- E2 in J2. rewrite skipn_app, skipn_all, Nat.sub_diag in J2.
      cbn [app skipn] in J2. inversion J2 as [|? ? Fb _]; subst.
      rewrite (has_space_fresh c s _ size b EN Fb Hsz) in EH. discriminate.
    - apply nth_error_None in EN. lia. }
  destruct (Nat.ltb (desired_new c) (s_new s)) eqn:ED.
  - (* a surplus new block becomes current *)
    apply Nat.ltb_lt in ED.
    set (s1 := reset_alloc (upd_counts s (s_old s) (S (s_cur s)) (pred (s_new s)))).
    assert (H1 : HI c s0 s1 R).
    { unfold s1, reset_alloc. apply HI_upd_alloc. split; [|split].
      - eapply AInv_same; [|exact A]. same_tac.
      - constructor; sred; auto; try lia.
        intros Hm. specialize (C4 Hm). unfold desired_new in ED. rewrite Hm in ED. lia.
      - eapply Fr_same; [..|exact F]; reflexivity. }
    apply IH; [exact H1 | unfold s1; sred; lia |].
    exists (j - 1). unfold s1. sred. split; [lia|]. split; [|lia].
    replace (s_old s + S (s_cur s) + (j - 1)) with (s_old s + s_cur s + j) by lia. exact J2.
  - apply Nat.ltb_ge in ED.
    destruct (push_back c s) as [s1|] eqn:EP.
    2:{ cbn [fst snd]. split; [split; [|split]; assumption|]. split; [exact Hn | discriminate]. }
    destruct (push_back_spec c s0 s R s1 A F EP) as (A1 & F1 & Eo & Ec & En & Er & Et & b & Hb & Hfb & _).
    assert (Lb : length (s_blocks s1) = S (length (s_blocks s))) by (rewrite Hb, app_length; cbn [length]; lia).
    assert (SK : Forall fresh (skipn (s_old s + s_cur s + j) (s_blocks s1))).
    { rewrite Hb, skipn_app_le by lia. apply Forall_app. split; [exact J2|]. constructor; [exact Hfb | constructor]. }
    match goal with |- context [fbs_rotate c f size (reset_alloc ?X)] => set (s2 := X) end.
    assert (H2 : HI c s0 s2 R /\ s_new s2 = s_new s /\
                 Forall fresh (skipn (s_old s2 + s_cur s2 + (j - 1)) (s_blocks s2))).
    { unfold s2. destruct (grow_cur c (s_cur s1)) eqn:EGC.
      - split; [|split].
        + split; [|split].
          * eapply AInv_same; [|exact A1]. same_tac.
          * constructor; sred; rewrite ?Lb, ?Eo, ?Ec, ?En, ?Er, ?Et; try lia.
            all: intros Hm; unfold grow_cur in EGC; rewrite Hm in EGC; discriminate.
          * eapply Fr_same; [..|exact F1]; reflexivity.
        + sred. exact En.
        + sred. rewrite Eo, Ec. replace (s_old s + S (s_cur s) + (j - 1)) with (s_old s + s_cur s + j) by lia. exact SK.
      - set (s3 := upd_counts s1 (S (s_old s1)) (s_cur s1) (s_new s1)).
        assert (A3 : AInv c s3 R) by (eapply AInv_same; [|exact A1]; same_tac).
        assert (F3 : Fr s0 s3) by (eapply Fr_same; [..|exact F1]; reflexivity).
        destruct (Nat.ltb (c_old c) (s_old s3)) eqn:EO.
        + destruct (pop_front_spec c s0 s3 R A3 F3) as (A4 & F4 & Eo4 & Ec4 & En4 & Et4 & Hb4).
          set (s4 := pop_front c s3) in *.
          unfold s3 in Hb4, Eo4, Ec4, En4, Et4. sred. rewrite Hb in Hb4.
          destruct (s_blocks s ++ [b]) as [|b0 rest] eqn:EL.
          { destruct (s_blocks s); discriminate. }
          destruct Hb4 as [Hb4 Hr4].
          assert (Lr : length rest = length (s_blocks s)).
          { apply (f_equal (@length block)) in EL. rewrite app_length in EL. cbn [length] in EL. lia. }
          split; [|split].
          * split; [|split].
            -- eapply AInv_same; [|exact A4]. same_tac.
            -- constructor; sred; rewrite ?Hb4, ?Hr4, ?Eo4, ?Ec4, ?En4, ?Et4, ?Lr, ?Eo, ?Ec, ?En, ?Er, ?Et; cbn [pred]; try lia.
               all: intros Hm; rewrite Ec4, En4, Ec, En; auto.
            -- eapply Fr_same; [..|exact F4]; reflexivity.
          * sred. rewrite En4. exact En.
          * sred. rewrite Hb4, Eo4, Ec4, Eo, Ec. cbn [pred].
            rewrite Hb in SK.
            replace (s_old s + s_cur s + j) with (S (s_old s + s_cur s + (j - 1))) in SK by lia.
            cbn [skipn] in SK. exact SK.
        + split; [|split].
          * split; [|split]; [exact A3 | | exact F3].
            unfold s3. constructor; sred; rewrite ?Lb, ?Eo, ?Ec, ?En, ?Er, ?Et; try lia.
            all: intros Hm; rewrite Ec, En; auto.
          * unfold s3. sred. exact En.
          * unfold s3. sred. rewrite Eo, Ec.
            replace (S (s_old s) + s_cur s + (j - 1)) with (s_old s + s_cur s + j) by lia. exact SK. }
    destruct H2 as (H2 & N2 & K2).
    apply IH.
    + unfold reset_alloc. apply HI_upd_alloc. exact H2.
    + unfold reset_alloc. sred. lia.
    + exists (j - 1). unfold reset_alloc. sred. split; [lia|]. split; [exact K2 | lia].
Qed.

(** ---- loop 4 ---- *)
Lemma pow2_pos k : 1 <= Nat.pow 2 k.
Proof. induction k; cbn [Nat.pow]; lia. Qed.

Definition pick_dist (n i : nat) : nat := if Nat.eqb i 0 then 0 else n - i.

Definition pick_good (c : config) (size : N) (s : state) (r : option (nat * state)) : Prop :=
  exists idx s', r = Some (idx, s') /\ aeq s s' /\ has_space c s' idx size = true.

Lemma fbs_pick_A c size : forall fuel s i a,
  1 <= s_new s -> has_space c s (s_old s + s_cur s) size = true ->
  s_attempts s = S a -> s_aidx s = Some i -> i < s_new s -> pick_dist (s_new s) i < fuel ->
  pick_good c size s (fbs_pick c fuel size s).
Proof.
  induction fuel as [|f IH]; intros s i a Hn H0 Ea Ei Hi Hd; [lia|].
  cbn [fbs_pick]. rewrite Ea, Ei.
  destruct (has_space c s (s_old s + s_cur s + i) size) eqn:EH.
  - exists (s_old s + s_cur s + i), (upd_alloc s a (Some i)). split; [reflexivity|].
    split; [apply aeq_upd_alloc|]. rewrite (has_space_aeq c s); [exact EH | apply aeq_upd_alloc].
  - assert (i <> 0) by (intros ->; rewrite Nat.add_0_r in EH; congruence).
    set (i' := Nat.modulo (S i) (s_new s)).
    match goal with |- pick_good _ _ _ (fbs_pick c f size (upd_alloc s ?att _)) => set (at' := att) end.
    assert (Hat : 1 <= at') by (unfold at'; destruct (Nat.leb _ _); apply pow2_pos).
    assert (Hi' : i' < s_new s) by (apply Nat.mod_upper_bound; lia).
    assert (Hd' : pick_dist (s_new s) i' < f).
    { unfold pick_dist in *. apply Nat.eqb_neq in H. rewrite H in Hd.
      destruct (Nat.eq_dec (S i) (s_new s)) as [E|E].
      - unfold i'. rewrite E, Nat.mod_same by lia. cbn. lia.
      - unfold i'. rewrite Nat.mod_small by lia. cbn [Nat.eqb]. lia. }
    destruct at' as [|a'] eqn:Eat; [lia|].
    destruct (IH (upd_alloc s (S a') (Some i')) i' a') as (idx & s' & E1 & E2 & E3); sred; auto.
    exists idx, s'. split; [exact E1|]. split; [|exact E3].
    eapply aeq_trans; [apply aeq_upd_alloc | exact E2].
Qed.

Lemma fbs_pick_ok c size fuel s :
  1 <= s_new s -> has_space c s (s_old s + s_cur s) size = true -> s_new s + 1 < fuel ->
  pick_good c size s (fbs_pick c fuel size s).
Proof.
  intros Hn H0 Hf. destruct fuel as [|f]; [lia|]. cbn [fbs_pick].
  assert (ADV : forall i', i' < s_new s -> forall at', 1 <= at' ->
                pick_good c size s (fbs_pick c f size (upd_alloc s at' (Some i')))).
  { intros i' Hi' at' Hat. destruct at' as [|a']; [lia|].
    destruct (fbs_pick_A c size f (upd_alloc s (S a') (Some i')) i' a') as (idx & s' & E1 & E2 & E3); sred; auto.
    { unfold pick_dist. destruct (Nat.eqb i' 0); lia. }
    exists idx, s'. split; [exact E1|]. split; [|exact E3].
    eapply aeq_trans; [apply aeq_upd_alloc | exact E2]. }
  assert (ADV' : forall oi, pick_good c size s (fbs_pick c f size
       (upd_alloc s (if Nat.leb (s_new s - desired_new c) (match oi with None => 0 | Some i => Nat.modulo (S i) (s_new s) end)
                     then Nat.pow 2 (s_new s - (match oi with None => 0 | Some i => Nat.modulo (S i) (s_new s) end) - 1)
                     else Nat.pow 2 (desired_new c))
                  (Some (match oi with None => 0 | Some i => Nat.modulo (S i) (s_new s) end))))).
  { intros oi. apply ADV.
    - destruct oi; [apply Nat.mod_upper_bound; lia | lia].
    - destruct (Nat.leb _ _); apply pow2_pos. }
  destruct (s_attempts s) as [|a] eqn:Ea.
  - apply ADV'.
  - destruct (s_aidx s) as [i|] eqn:Ei.
    + destruct (has_space c s (s_old s + s_cur s + i) size) eqn:EH.
      * exists (s_old s + s_cur s + i), (upd_alloc s a (Some i)). split; [reflexivity|].
        split; [apply aeq_upd_alloc|]. rewrite (has_space_aeq c s); [exact EH | apply aeq_upd_alloc].
      * apply (ADV' (Some i)).
    + apply (ADV' None).
Qed.

(** ---- findBlockWithSpace ---- *)
Lemma find_block_with_space_ok c s0 s R size : wfc c -> HI c s0 s R ->
  HI c s0 (snd (find_block_with_space c s size)) R /\
  match fst (find_block_with_space c s size) with
  | Ok idx => has_space c (snd (find_block_with_space c s size)) idx size = true
  | Err e => e = cInvalidArgument \/ e = cUnavailable
  end.
Proof.
  intros W H. pose proof W as (W1 & W2 & W3). unfold find_block_with_space.
  destruct (N.ltb (c_bs c) size) eqn:ES.
  { cbn [fst snd]. split; [exact H | left; reflexivity]. }
  apply N.ltb_ge in ES.
  pose proof (fbs_release_ok c s0 R (S (length (s_blocks s))) s H) as H1.
  set (s1 := fbs_release c (S (length (s_blocks s))) s) in *.
  destruct (fbs_grow_ok c s0 R (S (c_cur c + c_new c)) s1 H1) as [H2 G2].
  destruct (fbs_grow c (S (c_cur c + c_new c)) s1) as [ok2 s2]. cbn [fst snd] in *.
  destruct ok2.
  2:{ cbn [fst snd]. split; [exact H2 | right; reflexivity]. }
  assert (GN : grow_new c (s_cur s2) (s_new s2) = false).
  { apply G2; [reflexivity|]. unfold grow_need. destruct (c_mutable c); [destruct (Nat.ltb _ _); lia | lia]. }
  assert (N2 : 1 <= s_new s2).
  { unfold grow_new in GN. destruct H2 as [_ [[_ _ _ C4] _]]. destruct (c_mutable c).
    - apply Nat.ltb_ge in GN. exact GN.
    - apply Nat.ltb_ge in GN. specialize (C4 eq_refl). lia. }
  assert (L2 : length (s_blocks s2) = s_old s2 + s_cur s2 + s_new s2) by (destruct H2 as [_ [[C1 _ _ _] _]]; exact C1).
  destruct (fbs_rotate_ok c s0 R size W ES (fuel_of s2) s2 H2 N2) as (H3 & N3 & G3).
  { exists (s_new s2). split; [lia|]. split.
    - rewrite <- L2, skipn_all. constructor.
    - unfold fuel_of. lia. }
  destruct (fbs_rotate c (fuel_of s2) size s2) as [ok3 s3]. cbn [fst snd] in *.
  destruct ok3.
  2:{ cbn [fst snd]. split; [exact H3 | right; reflexivity]. }
  specialize (G3 eq_refl).
  destruct (fbs_pick_ok c size (S (S (s_new s3)) * 2) s3 N3 G3) as (idx & s4 & E1 & E2 & E3); [lia|].
  rewrite E1. cbn [fst snd]. split; [|exact E3]. eapply HI_aeq; eauto.
Qed.

Lemma has_space_nth c s idx size : has_space c s idx size = true ->
  exists b, nth_error (s_blocks s) idx = Some b.
Proof. unfold has_space. destruct (nth_error (s_blocks s) idx); [eexists; reflexivity | discriminate]. Qed.

(** ---- pin with an arbitrary use-incrementing update (ocn_put) ---- *)
Lemma HI_pin_gen c s0 s R uid f :
  (forall b, b_uid (f b) = b_uid b) -> (forall b, b_region (f b) = b_region b) ->
  (forall b, b_use (f b) = S (b_use b)) ->
  In uid (uids s) -> HI c s0 s R ->
  HI c s0 (upd_blocks s (map_uid f uid (s_blocks s)) (map_uid f uid (s_zombies s))) (uid :: R).
Proof.
  intros Hfu Hfr Hfs Hin [[A1 A2 A3 A4 A5 A6] [C F]].
  assert (EU : uids (upd_blocks s (map_uid f uid (s_blocks s)) (map_uid f uid (s_zombies s))) = uids s).
  { unfold uids. sred. rewrite !map_uid_uids by exact Hfu. reflexivity. }
  assert (NDb : NoDup (map b_uid (s_blocks s))) by (unfold uids in A1; apply NoDup_app_l in A1; exact A1).
  assert (NDz : NoDup (map b_uid (s_zombies s))) by (unfold uids in A1; apply NoDup_app_r in A1; exact A1).
  split; [|split].
  - constructor; try rewrite EU; auto.
    + intros r. specialize (A3 r). unfold rc, rcl in *. sred.
      rewrite !map_uid_regions by exact Hfr. exact A3.
    + sred. intros b Hb. rewrite cnt_cons.
      apply (In_map_uid f uid _ _ NDb Hfu) in Hb. destruct Hb as [[H1 H2]|[y [H1 [H2 H3]]]].
      * apply Nat.eqb_neq in H2. rewrite Nat.eqb_sym in H2. rewrite H2. cbn. auto.
      * subst b. rewrite Hfs, Hfu. rewrite H2, Nat.eqb_refl. rewrite (A4 _ H1), H2. cbn. reflexivity.
    + sred. intros b Hb. rewrite cnt_cons.
      apply (In_map_uid f uid _ _ NDz Hfu) in Hb. destruct Hb as [[H1 H2]|[y [H1 [H2 H3]]]].
      * apply Nat.eqb_neq in H2. rewrite Nat.eqb_sym in H2. rewrite H2. cbn. auto.
      * subst b. rewrite Hfs, Hfu. rewrite H2, Nat.eqb_refl. destruct (A5 _ H1) as [E1 E2].
        rewrite E1, H2. cbn. split; [reflexivity | lia].
    + intros u [Hu|Hu]; [subst; exact Hin | auto].
  - destruct C as [C1 C2 C3 C4]. constructor; sred; rewrite ?map_uid_length; auto.
  - apply (Fr_step s0 s); auto; unfold tot; sred; rewrite ?map_uid_length; try lia.
    intros b' Hb'. left. unfold allb in Hb'. sred.
    apply in_app_or in Hb'. destruct Hb' as [Hb'|Hb'].
    + apply (In_map_uid f uid _ _ NDb Hfu) in Hb'. destruct Hb' as [[H1 H2]|[y [H1 [H2 H3]]]].
      * exists b'. split; [apply in_allb_l; exact H1 | auto].
      * exists y. split; [apply in_allb_l; exact H1 | subst b'; auto].
    + apply (In_map_uid f uid _ _ NDz Hfu) in Hb'. destruct Hb' as [[H1 H2]|[y [H1 [H2 H3]]]].
      * exists b'. split; [apply in_allb_r; exact H1 | auto].
      * exists y. split; [apply in_allb_r; exact H1 | subst b'; auto].
Qed.

(** ---- LocationBlobMap.Put ---- *)
Lemma ocn_put_ok c s0 s R size : wfc c -> HI c s0 s R ->
  match fst (ocn_put c s size) with
  | Ok wr => HI c s0 (snd (ocn_put c s size)) (wr_uid wr :: R)
  | Err e => HI c s0 (snd (ocn_put c s size)) R /\ (e = cInvalidArgument \/ e = cUnavailable)
  end.
Proof.
  intros W H. unfold ocn_put.
  destruct (find_block_with_space_ok c s0 s R size W H) as [H1 G1].
  destruct (find_block_with_space c s size) as [[idx|e] s1]; cbn [fst snd] in *.
  2:{ split; assumption. }
  destruct (has_space_nth _ _ _ _ G1) as [b Eb]. rewrite Eb. cbn [fst snd].
  pose proof H1 as [[A1 _ _ _ _ _] _].
  assert (Hin : In b (s_blocks s1)) by (eapply nth_error_In; eauto).
  assert (Hz : ~ In (b_uid b) (map b_uid (s_zombies s1))).
  { intros X. apply (NoDup_app_disj _ _ (b_uid b) A1); [apply in_map; exact Hin | exact X]. }
  set (f := fun x => set_use (set_cursor x (b_cursor x + size)) (S (b_use x))).
  fold f.
  replace (upd_blocks s1 (map_uid f (b_uid b) (s_blocks s1)) (s_zombies s1))
     with (upd_blocks s1 (map_uid f (b_uid b) (s_blocks s1)) (map_uid f (b_uid b) (s_zombies s1)))
     by (rewrite (map_uid_none f (b_uid b) (s_zombies s1) Hz); reflexivity).
  apply HI_pin_gen; auto. apply uids_blocks. exact Hin.
Qed.

(** ---- the put finalizer ---- *)
Lemma finalize_ok c s0 s R wr ok : HI c s0 s (wr_uid wr :: R) ->
  HI c s0 (snd (finalize c s wr ok)) R.
Proof.
  intros H. unfold finalize. apply HI_unpin in H.
  destruct (negb ok); [exact H|]. destruct (N.ltb _ _); exact H.
Qed.

(** ---- validated read (quarantine request on a mismatch) ---- *)
Lemma read_validated_ok w s0 s R o uid l : (l_abs l < tot s)%N -> HI (w_cfg w) s0 s R ->
  HI (w_cfg w) s0 (snd (read_validated w s o uid l)) R.
Proof.
  intros Hl H. unfold read_validated.
  destruct (c_validate (w_cfg w) && negb (bytes_eqb _ _)); cbn [fst snd]; [|exact H].
  apply HI_bump_negs. destruct H as [A [C F]]. split; [|split].
  - eapply AInv_same; [|exact A]. same_tac.
  - destruct C as [C1 C2 C3 C4]. unfold tot in Hl. constructor; sred; auto; lia.
  - eapply Fr_same; [..|exact F]; reflexivity.
Qed.
