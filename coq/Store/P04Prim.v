(** C04 proofs, part 2: unpin, pop_front, push_back preserve the invariant. *)
From Coq Require Import List NArith ZArith Bool Arith Lia Permutation.
From Coq Require Import ZifyN ZifyNat ZifyBool.
From BBS Require Import Store.Model Store.Wf Store.P04Base.
Import ListNotations.
Local Open Scope nat_scope.

Definition tot (s : state) : N := (s_released s + N.of_nat (length (s_blocks s)))%N.

Lemma Fr_step s0 s s' : Fr s0 s -> s_threads s' = s_threads s -> s_next_uid s <= s_next_uid s' ->
  (forall b', In b' (allb s') ->
     (exists b, In b (allb s) /\ b_uid b = b_uid b' /\ b_region b = b_region b') \/ s_next_uid s <= b_uid b') ->
  (tot s <= tot s')%N -> Fr s0 s'.
Proof.
  intros [F1 F2 F3 F4] ET EN HB HT. unfold tot in HT. constructor.
  - congruence.
  - lia.
  - intros b' Hb' Hlt. destruct (HB b' Hb') as [[b [B1 [B2 B3]]]|Hn]; [|lia].
    destruct (F3 b B1) as [b0 [X1 [X2 X3]]]; [lia|]. exists b0. split; [exact X1|]. split; congruence.
  - lia.
Qed.

Lemma in_allb_l s b : In b (s_blocks s) -> In b (allb s).
Proof. intros H. apply in_or_app. left. exact H. Qed.
Lemma in_allb_r s b : In b (s_zombies s) -> In b (allb s).
Proof. intros H. apply in_or_app. right. exact H. Qed.

Lemma uids_blocks s b : In b (s_blocks s) -> In (b_uid b) (uids s).
Proof. intros H. apply in_or_app. left. apply in_map. exact H. Qed.
Lemma uids_zombies s b : In b (s_zombies s) -> In (b_uid b) (uids s).
Proof. intros H. apply in_or_app. right. apply in_map. exact H. Qed.

(** ---- unpin ---- *)
Lemma HI_unpin c s0 s R uid : HI c s0 s (uid :: R) -> HI c s0 (unpin c s uid) R.
Proof.
  intros [[A1 A2 A3 A4 A5 A6] [C F]].
  set (f := fun b => set_use b (pred (b_use b))).
  assert (Hfu : forall b, b_uid (f b) = b_uid b) by reflexivity.
  assert (Hfr : forall b, b_region (f b) = b_region b) by reflexivity.
  assert (NDb : NoDup (map b_uid (s_blocks s))) by (unfold uids in A1; apply NoDup_app_l in A1; exact A1).
  assert (NDz : NoDup (map b_uid (s_zombies s))) by (unfold uids in A1; apply NoDup_app_r in A1; exact A1).
  assert (Hne : forall u, u <> uid -> cnt (uid :: R) u = cnt R u).
  { intros u Hu. rewrite cnt_cons. apply Nat.eqb_neq in Hu. rewrite Nat.eqb_sym in Hu. rewrite Hu. reflexivity. }
  assert (Heq : cnt (uid :: R) uid = S (cnt R uid)).
  { rewrite cnt_cons, Nat.eqb_refl. reflexivity. }
  unfold unpin. destruct (find_uid uid (s_blocks s)) as [b0|] eqn:Eb.
  - (* listed block *)
    destruct (find_uid_some _ _ _ Eb) as [Hb0 Ub0]. fold f.
    assert (Hnz : forall z, In z (s_zombies s) -> b_uid z <> uid).
    { intros z Hz Hu. apply (NoDup_app_disj _ _ uid A1).
      - rewrite <- Ub0. apply in_map. exact Hb0.
      - rewrite <- Hu. apply in_map. exact Hz. }
    assert (EU : uids (upd_blocks s (map_uid f uid (s_blocks s)) (s_zombies s)) = uids s).
    { unfold uids. sred. rewrite map_uid_uids by exact Hfu. reflexivity. }
    split; [|split].
    + constructor; try rewrite EU; auto.
      * intros r. specialize (A3 r). unfold rc, rcl in *. sred. rewrite map_uid_regions by exact Hfr. exact A3.
      * sred. intros b Hb. apply (In_map_uid f uid _ _ NDb Hfu) in Hb.
        destruct Hb as [[H1 H2]|[y [H1 [H2 H3]]]].
        -- rewrite (A4 _ H1), Hne by exact H2. reflexivity.
        -- subst b. unfold f. sred. rewrite (A4 _ H1), H2, Heq. reflexivity.
      * sred. intros z Hz. destruct (A5 _ Hz) as [E1 E2]. rewrite Hne in E1 by (apply Hnz; exact Hz). auto.
      * intros u Hu. apply A6. right. exact Hu.
    + destruct C as [C1 C2 C3 C4]. constructor; sred; rewrite ?map_uid_length; auto.
    + apply (Fr_step s0 s); auto; unfold tot; sred; rewrite ?map_uid_length; try lia.
      intros b' Hb'. left. unfold allb in Hb'. sred. apply in_app_or in Hb'. destruct Hb' as [Hb'|Hb'].
      * apply (In_map_uid f uid _ _ NDb Hfu) in Hb'. destruct Hb' as [[H1 H2]|[y [H1 [H2 H3]]]].
        -- exists b'. split; [apply in_allb_l; exact H1 | auto].
        -- exists y. split; [apply in_allb_l; exact H1 | subst b'; auto].
      * exists b'. split; [apply in_allb_r; exact Hb' | auto].
  - apply find_uid_none in Eb.
    assert (Hnb : forall b, In b (s_blocks s) -> b_uid b <> uid).
    { intros b Hb Hu. apply Eb. rewrite <- Hu. apply in_map. exact Hb. }
    destruct (find_uid uid (s_zombies s)) as [z0|] eqn:Ez.
    + destruct (find_uid_some _ _ _ Ez) as [Hz0 Uz0].
      destruct (A5 _ Hz0) as [Ez1 Ez2]. rewrite Uz0, Heq in Ez1.
      destruct (Nat.leb (b_use z0) 1) eqn:Eu.
      * (* last reference of a zombie: the zombie disappears *)
        apply Nat.leb_le in Eu. assert (Ec0 : cnt R uid = 0) by lia.
        change (fun z : block => negb (Nat.eqb (b_uid z) uid)) with (not_uid uid).
        set (Z' := filter (not_uid uid) (s_zombies s)).
        assert (PZ : Permutation (s_zombies s) (z0 :: Z')) by (apply filter_uid_perm; assumption).
        set (s1 := upd_blocks s (s_blocks s) Z').
        assert (PU : Permutation (uids s) (uid :: uids s1)).
        { unfold uids, s1. sred. rewrite (Permutation_map b_uid PZ). cbn [map]. rewrite Uz0.
          apply Permutation_sym. apply Permutation_middle. }
        assert (ND1 : NoDup (uid :: uids s1)) by (eapply Permutation_NoDup; eauto).
        assert (Hsub : forall u, In u (uids s1) -> In u (uids s)).
        { intros u Hu. eapply Permutation_in; [apply Permutation_sym; exact PU | right; exact Hu]. }
        assert (Hrz : forall r, rcl (s_zombies s) r = (if Nat.eqb (b_region z0) r then 1 else 0) + rcl Z' r).
        { intros r. rewrite (rcl_perm _ _ r PZ), rcl_cons. reflexivity. }
        assert (N1 : NoDup (uids s1)) by (inversion ND1; assumption).
        assert (N2 : forall u, In u (uids s1) -> u < s_next_uid s).
        { intros u Hu. apply A2. apply Hsub. exact Hu. }
        assert (N4 : forall b, In b (s_blocks s) -> b_use b = S (cnt R (b_uid b))).
        { intros b Hb. rewrite (A4 _ Hb), Hne by (apply Hnb; exact Hb). reflexivity. }
        assert (N5 : forall z, In z Z' -> b_use z = cnt R (b_uid z) /\ 1 <= b_use z).
        { intros z Hz. apply In_filter_uid in Hz. destruct Hz as [Hz Hu].
          destruct (A5 _ Hz) as [E1 E2]. rewrite Hne in E1 by exact Hu. auto. }
        assert (N6 : forall u, In u R -> In u (uids s1)).
        { intros u Hu. assert (Hu' : In u (uids s)) by (apply A6; right; exact Hu).
          eapply Permutation_in in Hu'; [|exact PU]. destruct Hu' as [Hu'|Hu']; [|exact Hu'].
          subst u. apply cnt_In in Hu. lia. }
        assert (C1' : CInv c s1).
        { destruct C as [C1 C2 C3 C4]. unfold s1. constructor; sred; auto. }
        assert (F1' : Fr s0 s1).
        { apply (Fr_step s0 s); auto; unfold tot, s1; sred; try lia.
          intros b' Hb'. left. exists b'. split; [|auto]. unfold allb in *. sred.
          apply in_app_or in Hb'. apply in_or_app. destruct Hb' as [Hb'|Hb']; [left; exact Hb'|right].
          apply In_filter_uid in Hb'. apply Hb'. }
        destruct (in_memory c) eqn:Em.
        -- split; [|split; assumption]. constructor; auto.
           intros r. specialize (A3 r). rewrite Em in *. unfold rc in *. unfold s1. sred.
           rewrite Hrz in A3. fold Z'. lia.
        -- split; [|split].
           ++ constructor; auto.
              intros r. specialize (A3 r). rewrite Em in *. unfold rc in *. unfold s1. sred.
              rewrite Hrz in A3. rewrite cnt_app, cnt_cons, cnt_nil. fold Z'. lia.
           ++ destruct C1' as [C1 C2 C3 C4]. unfold s1 in *. constructor; sred; auto.
           ++ apply (Fr_same s0 s1); auto.
      * (* a zombie that stays referenced *)
        apply Nat.leb_gt in Eu. fold f.
        assert (EU : uids (upd_blocks s (s_blocks s) (map_uid f uid (s_zombies s))) = uids s).
        { unfold uids. sred. rewrite map_uid_uids by exact Hfu. reflexivity. }
        split; [|split].
        -- constructor; try rewrite EU; auto.
           ++ intros r. specialize (A3 r). unfold rc, rcl in *. sred. rewrite map_uid_regions by exact Hfr. exact A3.
           ++ sred. intros b Hb. rewrite (A4 _ Hb), Hne by (apply Hnb; exact Hb). reflexivity.
           ++ sred. intros z Hz. apply (In_map_uid f uid _ _ NDz Hfu) in Hz.
              destruct Hz as [[H1 H2]|[y [H1 [H2 H3]]]].
              ** destruct (A5 _ H1) as [E1 E2]. rewrite Hne in E1 by exact H2. auto.
              ** subst z. unfold f. sred.
                 assert (y = z0).
                 { pose proof (find_uid_nodup uid _ y NDz H1 H2) as X. congruence. }
                 subst y. rewrite Uz0. lia.
           ++ intros u Hu. apply A6. right. exact Hu.
        -- destruct C as [C1 C2 C3 C4]. constructor; sred; auto.
        -- apply (Fr_step s0 s); auto; unfold tot; sred; try lia.
           intros b' Hb'. left. unfold allb in Hb'. sred. apply in_app_or in Hb'. destruct Hb' as [Hb'|Hb'].
           ++ exists b'. split; [apply in_allb_l; exact Hb' | auto].
           ++ apply (In_map_uid f uid _ _ NDz Hfu) in Hb'. destruct Hb' as [[H1 H2]|[y [H1 [H2 H3]]]].
              ** exists b'. split; [apply in_allb_r; exact H1 | auto].
              ** exists y. split; [apply in_allb_r; exact H1 | subst b'; auto].
    + exfalso. apply find_uid_none in Ez.
      assert (X : In uid (uids s)) by (apply A6; left; reflexivity).
      apply in_app_or in X. tauto.
Qed.

(** ---- pop_front ---- *)
Lemma pop_front_spec c s0 s R : AInv c s R -> Fr s0 s ->
  AInv c (pop_front c s) R /\ Fr s0 (pop_front c s) /\
  s_old (pop_front c s) = s_old s /\ s_cur (pop_front c s) = s_cur s /\ s_new (pop_front c s) = s_new s /\
  s_tbr (pop_front c s) = s_tbr s /\
  match s_blocks s with
  | [] => pop_front c s = s
  | b :: rest => s_blocks (pop_front c s) = rest /\ s_released (pop_front c s) = (s_released s + 1)%N
  end.
Proof.
  intros AI F. pose proof AI as [A1 A2 A3 A4 A5 A6]. unfold pop_front.
  destruct (s_blocks s) as [|b rest] eqn:EB.
  { split; [exact AI|]. split; [exact F|]. repeat split; reflexivity. }
  rewrite <- EB in A4.
  assert (Hb : In b (s_blocks s)) by (rewrite EB; left; reflexivity).
  assert (Hrest : forall x, In x rest -> In x (s_blocks s)) by (intros x Hx; rewrite EB; right; exact Hx).
  assert (Eub : b_use b = S (cnt R (b_uid b))) by (apply A4; exact Hb).
  set (s1 := upd_rel s (s_released s + 1) (s_tbr s)).
  destruct (Nat.leb (b_use b) 1) eqn:Eu.
  - (* unreferenced: the block object disappears *)
    apply Nat.leb_le in Eu. assert (Ec0 : cnt R (b_uid b) = 0) by lia.
    set (s2 := upd_blocks s1 rest (s_zombies s1)).
    assert (PU : uids s = b_uid b :: uids s2).
    { unfold uids, s2, s1. sred. rewrite EB. reflexivity. }
    assert (N1 : NoDup (uids s2)) by (rewrite PU in A1; inversion A1; assumption).
    assert (N2 : forall u, In u (uids s2) -> u < s_next_uid s).
    { intros u Hu. apply A2. rewrite PU. right. exact Hu. }
    assert (N4 : forall x, In x rest -> b_use x = S (cnt R (b_uid x))).
    { intros x Hx. apply A4. apply Hrest. exact Hx. }
    assert (N6 : forall u, In u R -> In u (uids s2)).
    { intros u Hu. assert (Hu' : In u (uids s)) by (apply A6; exact Hu). rewrite PU in Hu'.
      destruct Hu' as [Hu'|Hu']; [|exact Hu']. subst u. apply cnt_In in Hu. lia. }
    assert (F2 : Fr s0 s2).
    { apply (Fr_step s0 s); auto; unfold tot, s2, s1; sred; try (rewrite EB; cbn [length]; lia).
      intros b' Hb'. left. exists b'. split; [|auto]. unfold allb in *. sred. rewrite EB.
      right. exact Hb'. }
    destruct (in_memory c) eqn:Em.
    + split; [|split; [exact F2|unfold s2, s1; sred; repeat split; reflexivity]].
      constructor; auto.
      intros r. specialize (A3 r). rewrite Em in *. unfold rc in *. unfold s2, s1. sred.
      rewrite EB, rcl_cons in A3. lia.
    + split; [|split].
      * constructor; auto.
        intros r. specialize (A3 r). rewrite Em in *. unfold rc in *. unfold s2, s1 in *. sred.
        rewrite EB, rcl_cons in A3. rewrite cnt_app, cnt_cons, cnt_nil. lia.
      * apply (Fr_same s0 s2); auto.
      * unfold s2, s1. sred. repeat split; reflexivity.
  - (* still referenced: becomes a zombie *)
    apply Nat.leb_gt in Eu.
    set (b' := set_use b (pred (b_use b))).
    set (s2 := upd_blocks s1 rest (s_zombies s1 ++ [b'])).
    assert (PU : Permutation (uids s) (uids s2)).
    { unfold uids, s2, s1. sred. rewrite EB. cbn [map]. rewrite map_app. cbn [map]. unfold b'. sred.
      cbn [app]. rewrite app_assoc. apply Permutation_cons_append. }
    split; [|split].
    + constructor.
      * eapply Permutation_NoDup; eauto.
      * intros u Hu. unfold s2, s1. sred. apply A2. eapply Permutation_in; [apply Permutation_sym; exact PU | exact Hu].
      * intros r. specialize (A3 r). unfold rc in *. unfold s2, s1. sred. rewrite EB, rcl_cons in A3.
        rewrite rcl_app, rcl_cons, rcl_nil. unfold b'. sred. destruct (in_memory c); lia.
      * unfold s2. sred. intros x Hx. apply A4. apply Hrest. exact Hx.
      * unfold s2, s1. sred. intros z Hz. apply in_app_or in Hz. destruct Hz as [Hz|[Hz|[]]]; [auto|].
        subst z. unfold b'. sred. lia.
      * intros u Hu. eapply Permutation_in; [exact PU | apply A6; exact Hu].
    + apply (Fr_step s0 s); auto; unfold tot, s2, s1; sred; try (rewrite EB; cbn [length]; lia).
      intros x Hx. left. unfold allb in *. sred. rewrite EB. apply in_app_or in Hx. destruct Hx as [Hx|Hx].
      * exists x. split; [right; apply in_or_app; left; exact Hx | auto].
      * apply in_app_or in Hx. destruct Hx as [Hx|[Hx|[]]].
        -- exists x. split; [right; apply in_or_app; right; exact Hx | auto].
        -- exists b. split; [left; reflexivity | subst x; auto].
    + unfold s2, s1. sred. repeat split; reflexivity.
Qed.

(** ---- push_back ---- *)
Definition pushed (s : state) (r : nat) (fr : list nat) (nr : nat) (d : list (nat * list N)) : state :=
  {| s_blocks := s_blocks s ++ [{| b_uid := s_next_uid s; b_region := r; b_cursor := 0; b_use := 1 |}];
     s_zombies := s_zombies s; s_free := fr; s_next_region := nr;
     s_next_uid := S (s_next_uid s); s_dev := d;
     s_old := s_old s; s_cur := s_cur s; s_new := s_new s;
     s_released := s_released s; s_tbr := s_tbr s; s_attempts := s_attempts s; s_aidx := s_aidx s;
     s_index := s_index s; s_threads := s_threads s; s_pushbacks := S (s_pushbacks s); s_negs := s_negs s |}.

Lemma push_gen c s0 s R r fr nr d : AInv c s R -> Fr s0 s ->
  (forall x, (if in_memory c
              then (if Nat.eqb r x then 1 else 0) + (rcl (s_blocks s) x + rcl (s_zombies s) x + cnt fr x)
                   <= (if Nat.ltb x nr then 1 else 0)
              else (if Nat.eqb r x then 1 else 0) + cnt fr x = cnt (s_free s) x)) ->
  AInv c (pushed s r fr nr d) R /\ Fr s0 (pushed s r fr nr d).
Proof.
  intros [A1 A2 A3 A4 A5 A6] F Hreg.
  assert (Hfresh : ~ In (s_next_uid s) (uids s)).
  { intros H. apply A2 in H. lia. }
  assert (Hc0 : cnt R (s_next_uid s) = 0).
  { apply cnt_notin. intros H. apply Hfresh. apply A6. exact H. }
  assert (PU : Permutation (s_next_uid s :: uids s) (uids (pushed s r fr nr d))).
  { unfold uids, pushed. sred. rewrite map_app. cbn [map b_uid]. rewrite <- app_assoc. cbn [app]. apply Permutation_middle. }
  split.
  - constructor.
    + eapply Permutation_NoDup; [exact PU|]. constructor; assumption.
    + intros u Hu. eapply Permutation_in in Hu; [|apply Permutation_sym; exact PU].
      unfold pushed. sred. destruct Hu as [Hu|Hu]; [lia|]. apply A2 in Hu. lia.
    + intros x. specialize (A3 x). specialize (Hreg x). unfold rc in *. unfold pushed. sred.
      rewrite rcl_app, rcl_cons, rcl_nil. sred.
      destruct (in_memory c); lia.
    + unfold pushed. sred. intros x Hx. apply in_app_or in Hx. destruct Hx as [Hx|[Hx|[]]]; [auto|].
      subst x. sred. rewrite Hc0. reflexivity.
    + exact A5.
    + intros u Hu. eapply Permutation_in; [exact PU|]. right. apply A6. exact Hu.
  - apply (Fr_step s0 s); auto; unfold tot, pushed; sred; try lia.
    + intros x Hx. unfold allb in *. sred. rewrite <- app_assoc in Hx. apply in_app_or in Hx.
      destruct Hx as [Hx|Hx]; [left; exists x; split; [apply in_or_app; left; exact Hx | auto]|].
      cbn [app] in Hx. destruct Hx as [Hx|Hx].
      * right. subst x. sred. lia.
      * left. exists x. split; [apply in_or_app; right; exact Hx | auto].
    + rewrite app_length. cbn [length]. lia.
Qed.

Lemma push_back_spec c s0 s R s' : AInv c s R -> Fr s0 s -> push_back c s = Some s' ->
  AInv c s' R /\ Fr s0 s' /\
  s_old s' = s_old s /\ s_cur s' = s_cur s /\ s_new s' = s_new s /\
  s_released s' = s_released s /\ s_tbr s' = s_tbr s /\
  exists b, s_blocks s' = s_blocks s ++ [b] /\ b_cursor b = 0%N /\ b_uid b = s_next_uid s /\
            s_next_uid s' = S (s_next_uid s).
Proof.
  intros AI F. pose proof AI as [A1 A2 A3 A4 A5 A6]. unfold push_back, new_block.
  assert (G : forall r fr nr d, s' = pushed s r fr nr d ->
     AInv c (pushed s r fr nr d) R /\ Fr s0 (pushed s r fr nr d) ->
     AInv c s' R /\ Fr s0 s' /\
     s_old s' = s_old s /\ s_cur s' = s_cur s /\ s_new s' = s_new s /\
     s_released s' = s_released s /\ s_tbr s' = s_tbr s /\
     exists b, s_blocks s' = s_blocks s ++ [b] /\ b_cursor b = 0%N /\ b_uid b = s_next_uid s /\
               s_next_uid s' = S (s_next_uid s)).
  { intros r fr nr d E [H1 H2]. subst s'. split; [exact H1|]. split; [exact H2|].
    unfold pushed. sred. repeat split; try reflexivity. eexists. split; [reflexivity|]. sred. repeat split; reflexivity. }
  destruct (in_memory c) eqn:Em.
  - intros E. injection E as E'.
    apply (G (s_next_region s) (s_free s) (S (s_next_region s)) (dev_set (s_dev s) (s_next_region s) (zeros (c_bs c))));
      [symmetry; exact E'|]. apply push_gen; auto.
    intros x. rewrite Em. specialize (A3 x). rewrite Em in A3. unfold rc in A3.
    destruct (Nat.eqb (s_next_region s) x) eqn:E1.
    + apply Nat.eqb_eq in E1. subst x.
      assert (Nat.ltb (s_next_region s) (s_next_region s) = false) as X by (apply Nat.ltb_ge; lia).
      rewrite X in A3. assert (Nat.ltb (s_next_region s) (S (s_next_region s)) = true) as Y by (apply Nat.ltb_lt; lia).
      rewrite Y. lia.
    + apply Nat.eqb_neq in E1. destruct (Nat.ltb x (s_next_region s)) eqn:E2.
      * apply Nat.ltb_lt in E2. assert (Nat.ltb x (S (s_next_region s)) = true) as Y by (apply Nat.ltb_lt; lia).
        rewrite Y. lia.
      * lia.
  - destruct (s_free s) as [|r rest] eqn:EF; [discriminate|].
    intros E. injection E as E'.
    apply (G r rest (s_next_region s)
             (match dev_get (s_dev s) r with [] => dev_set (s_dev s) r (zeros (c_bs c)) | _ => s_dev s end));
      [symmetry; exact E'|]. apply push_gen; auto.
    intros x. rewrite Em, EF. rewrite cnt_cons. reflexivity.
Qed.
