(** C04 proofs, part 8: the C04 monitor is silent on every run of the model. *)
From Coq Require Import List NArith ZArith Bool Arith Lia Permutation.
From BBS Require Import Common.Sx Store.Model Store.Wf Run.RStore Run.R01 Run.R04.
From BBS Require Import Store.P04Base Store.P04Prim Store.P04Fbs Store.P04Ops Store.P04Step
  Store.P04StepOps Store.P04Main.
Import ListNotations.
Local Open Scope nat_scope.

(** the monitor fed with the model's own observations *)
Definition model_obs (w : world) (es : list op) (sts : list (state * state * out)) : list sx :=
  map (fun '(e, (s0, s1, o)) => enc_obs (w_cfg w) e s0 s1 o) (combine es sts).

Definition mon04_from (w : world) (s : state) (es : list op) (acc : list nat * list Z) : list nat * list Z :=
  let sts := run_states w s es in
  fold_left m04_step (combine (combine es sts) (model_obs w es sts)) acc.

Definition mon04_model (w : world) (es : list op) : list Z :=
  dedupZ (snd (mon04_from w (init_state (w_cfg w)) es ([], []))).

(** [mon04] applied to the model's own output is [mon04_model] *)
Lemma mon04_run_store inp : mon04 inp (run_store inp) = mon04_model (dec_world inp) (dec_ops inp).
Proof. reflexivity. Qed.

(** ---- observations of the model ---- *)
Definition kindZ (o : out) : Z := match o with Done _ _ => 0 | Parked => 1 | Missing _ _ => 2 | Bad => 3 end.

Lemma ob_kind_enc c e s0 s1 o : ob_kind (enc_obs c e s0 s1 o) = kindZ o.
Proof. destruct o; reflexivity. Qed.
Lemma ob_srcclosed_enc c e s0 s1 o : completes_put e o = true -> ob_srcclosed (enc_obs c e s0 s1 o) = 1%Z.
Proof.
  intros H. destruct o; try (destruct e; discriminate).
  unfold enc_obs, ob_srcclosed. cbn. rewrite H. reflexivity.
Qed.
Lemma ob_open_enc c e s0 s1 o : o <> Bad ->
  ob_open (enc_obs c e s0 s1 o) = if negb (in_memory c) then Z.of_nat (open_readers s1) else (-1)%Z.
Proof.
  intros H. destruct o; try congruence; unfold enc_obs, ob_open; cbn; destruct (negb (in_memory c)); reflexivity.
Qed.
Lemma ob_live_enc c e s0 s1 o : o <> Bad ->
  ob_live (enc_obs c e s0 s1 o) = if negb (in_memory c) then Z.of_nat (live_blocks s1) else (-1)%Z.
Proof.
  intros H. destruct o; try congruence; unfold enc_obs, ob_live; cbn; destruct (negb (in_memory c)); reflexivity.
Qed.

(** the monitor's table of operations in flight *)
Definition opened_next (e : op) (o : out) (opened : list nat) : list nat :=
  match e with
  | OPutStart tid _ _ | OGetOpen tid _ _ | OGfcStart tid _ _ _ =>
      if Z.eqb (kindZ o) 1 then tid :: opened else opened
  | OPutChunk tid _ | OPutEnd tid _ | OGetConsume tid | OGfcSlice tid _ =>
      if Z.eqb (kindZ o) 0 then filter (fun t => negb (Nat.eqb t tid)) opened else opened
  | _ => opened
  end.

Definition put_done (e : op) (o : out) : bool :=
  match e with
  | OPutStart _ _ _ | OPutChunk _ _ | OPutEnd _ _ => Z.eqb (kindZ o) 0
  | _ => false
  end.

Definition quiescent (e : op) (o : out) (opened : list nat) : bool :=
  match opened_next e o opened with [] => negb (Z.eqb (kindZ o) 3) | _ => false end.

Lemma m04_step_eq c opened viol e s0 s1 o :
  m04_step (opened, viol) (e, (s0, s1, o), enc_obs c e s0 s1 o) =
  (opened_next e o opened,
   viol ++ (if put_done e o && negb (Z.eqb (ob_srcclosed (enc_obs c e s0 s1 o)) 1) then [1%Z] else [])
        ++ (if quiescent e o opened && Z.ltb 0 (ob_open (enc_obs c e s0 s1 o)) then [2%Z] else [])
        ++ (if quiescent e o opened && Z.leb 0 (ob_live (enc_obs c e s0 s1 o))
               && Z.ltb (Z.of_nat (length (s_blocks s1))) (ob_live (enc_obs c e s0 s1 o)) then [3%Z] else [])).
Proof. unfold m04_step. rewrite ob_kind_enc. reflexivity. Qed.

(** the monitor's table and the model's thread table list the same operations *)
Definition Sim (opened : list nat) (s : state) : Prop := forall x, In x opened <-> In x (tids s).

Lemma tids_nil s : tids s = [] -> s_threads s = [].
Proof. unfold tids. destruct (s_threads s); [reflexivity | discriminate]. Qed.

Lemma Sim_next e o opened s s1 :
  thr_eff e o (s_threads s) (s_threads s1) -> Sim opened s -> Sim (opened_next e o opened) s1.
Proof.
  intros HE HS x. unfold Sim in HS. unfold tids in *.
  assert (Hdel : forall tid, In x (filter (fun t => negb (Nat.eqb t tid)) opened) <->
                             In x (map fst (thr_del (s_threads s) tid))).
  { intros tid. rewrite filter_In, thr_del_tids, negb_true_iff, Nat.eqb_neq, HS. reflexivity. }
  assert (Hset : forall tid t, In tid (map fst (s_threads s)) ->
                 (In x opened <-> In x (map fst ((tid, t) :: thr_del (s_threads s) tid)))).
  { intros tid t Hin. cbn [map fst In]. rewrite thr_del_tids, HS. split.
    - intros H. destruct (Nat.eq_dec x tid); [left; congruence | right; auto].
    - intros [H|[H _]]; [subst; exact Hin | exact H]. }
  assert (Hnew : forall tid t, thr_get (s_threads s) tid = None ->
                 (In x (tid :: opened) <-> In x (map fst ((tid, t) :: thr_del (s_threads s) tid)))).
  { intros tid t Hn. apply thr_get_none in Hn. rewrite (thr_del_none _ _ Hn). cbn [map fst In]. rewrite HS. reflexivity. }
  destruct o; cbn [thr_eff kindZ] in HE.
  - (* Done *)
    destruct HE as [[Hc E]|[tid [Hc E]]]; rewrite E.
    + destruct e; cbn [opened_next kindZ Z.eqb] in *; try discriminate; apply HS.
    + destruct e; cbn [opened_next kindZ Z.eqb op_cont] in *; try discriminate; inversion Hc; subst; apply Hdel.
  - (* Parked *)
    destruct HE as [[tid [t [Hc [Hg E]]]]|[tid [t [Hc [Hg E]]]]]; rewrite E.
    + destruct e; cbn [opened_next kindZ Z.eqb op_start] in *; try discriminate; inversion Hc; subst; apply Hnew; exact Hg.
    + destruct e; cbn [opened_next kindZ Z.eqb op_cont] in *; try discriminate; inversion Hc; subst; apply Hset;
        (destruct (thr_get (s_threads s) tid) eqn:Eg; [apply thr_get_in in Eg; apply in_map_iff; eexists; split; [|exact Eg]; reflexivity | congruence]).
  - (* Missing *)
    destruct HE as [Hs [Hc E]]. rewrite E.
    destruct e; cbn [opened_next kindZ Z.eqb op_start op_cont] in *; try discriminate; apply HS.
  - (* Bad *)
    rewrite HE. destruct e; cbn [opened_next kindZ Z.eqb]; apply HS.
Qed.

Lemma put_done_completes e o : put_done e o = true -> completes_put e o = true.
Proof. destruct e, o; cbn; intros H; try discriminate; reflexivity. Qed.

Lemma m04_step_silent w s e opened : wfc (w_cfg w) -> Inv w s -> Sim opened s ->
  let s1 := fst (step w s e) in let o := snd (step w s e) in
  m04_step (opened, []) (e, (s, s1, o), enc_obs (w_cfg w) e s s1 o) = (opened_next e o opened, []) /\
  Inv w s1 /\ Sim (opened_next e o opened) s1.
Proof.
  intros W HI HS s1 o. pose proof (step_ok w W s HI e) as (I1 & _ & HE & _ & _ & _).
  fold s1 o in I1, HE.
  assert (S1 : Sim (opened_next e o opened) s1) by (eapply Sim_next; eauto).
  split; [|split; assumption].
  rewrite m04_step_eq. f_equal. cbn [app].
  (* clause 1 *)
  assert (V1 : put_done e o && negb (Z.eqb (ob_srcclosed (enc_obs (w_cfg w) e s s1 o)) 1) = false).
  { destruct (put_done e o) eqn:E; [|reflexivity]. apply put_done_completes in E.
    rewrite ob_srcclosed_enc by exact E. reflexivity. }
  rewrite V1. cbn [app].
  destruct (quiescent e o opened) eqn:EQ; [|reflexivity].
  unfold quiescent in EQ. destruct (opened_next e o opened) eqn:EO; [|discriminate].
  assert (Hb : o <> Bad) by (intros ->; discriminate).
  assert (T1 : s_threads s1 = []).
  { apply tids_nil. destruct (tids s1) as [|x r] eqn:ET; [reflexivity|]. exfalso.
    apply (proj2 (S1 x)). rewrite ET. left. reflexivity. }
  assert (Z1 : s_zombies s1 = []).
  { destruct I1 as [[_ _ _ _ A5 _] _ _ _]. destruct (s_zombies s1) as [|z zs]; [reflexivity|]. exfalso.
    destruct (A5 z (or_introl eq_refl)) as [E1 E2]. rewrite T1 in E1. cbn in E1. lia. }
  rewrite ob_open_enc, ob_live_enc by exact Hb.
  unfold open_readers, live_blocks. rewrite T1, Z1. cbn [filter length andb]. rewrite Nat.add_0_r.
  destruct (negb (in_memory (w_cfg w))); cbn [Z.ltb Z.leb Z.of_nat Z.compare andb app].
  - rewrite Z.ltb_irrefl, andb_false_r. reflexivity.
  - reflexivity.
Qed.

Lemma mon04_from_silent w : wfc (w_cfg w) -> forall es s opened, Inv w s -> Sim opened s ->
  snd (mon04_from w s es (opened, [])) = [].
Proof.
  intros W. induction es as [|e t IH]; intros s opened HI HS; [reflexivity|].
  unfold mon04_from, model_obs. cbn [run_states].
  destruct (m04_step_silent w s e opened W HI HS) as (E & I1 & S1).
  destruct (step w s e) as [s1 o] eqn:ES. cbn [fst snd] in *.
  cbn [combine map fold_left]. rewrite E. apply (IH s1 _ I1 S1).
Qed.

Theorem store_model_satisfies_C04_thm w es : wf_world w = true -> mon04_model w es = [].
Proof.
  intros Wf. unfold mon04_model. rewrite (mon04_from_silent w (wf_world_wfc w Wf)); [reflexivity | apply Inv_init |].
  intros x. cbn. reflexivity.
Qed.
