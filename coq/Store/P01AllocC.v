(** C01 proofs, allocator path, part C: NewBlock + BlockList.PushBack. *)
From Coq Require Import List NArith ZArith Bool Arith Lia Permutation ZifyN ZifyNat ZifyBool.
From BBS Require Import Store.Model Store.Wf Store.P01Inv Store.P01AllocA.
Import ListNotations.
Open Scope N_scope.

Lemma dev_get_set d r x r' :
  dev_get (dev_set d r x) r' = if Nat.eqb r' r then x else dev_get d r'.
Proof.
  induction d as [|[r0 b0] d IH]; cbn [dev_set dev_get].
  - destruct (Nat.eqb r' r); reflexivity.
  - destruct (Nat.eqb r r0) eqn:E; cbn [dev_get].
    + apply Nat.eqb_eq in E. subst r0. destruct (Nat.eqb r' r); reflexivity.
    + destruct (Nat.eqb r' r0) eqn:E2.
      * apply Nat.eqb_eq in E2. subst r0. rewrite Nat.eqb_sym, E. reflexivity.
      * exact IH.
Qed.

Lemma zeros_length n : length (zeros n) = N.to_nat n.
Proof. unfold zeros. apply repeat_length. Qed.

Lemma push_core w cl s s' r :
  DInv9 w cl s ->
  s_blocks s' = s_blocks s ++ [ {| b_uid := s_next_uid s; b_region := r; b_cursor := 0; b_use := 1 |} ] ->
  s_zombies s' = s_zombies s -> s_next_uid s' = S (s_next_uid s) ->
  s_released s' = s_released s -> s_tbr s' = s_tbr s -> s_index s' = s_index s ->
  (in_memory (w_cfg w) = true /\ r = s_next_region s /\ s_next_region s' = S r /\
   s_free s' = s_free s /\ s_dev s' = dev_set (s_dev s) r (zeros (c_bs (w_cfg w)))
   \/
   in_memory (w_cfg w) = false /\ s_free s = r :: s_free s' /\
   s_dev s' = match dev_get (s_dev s) r with
              | [] => dev_set (s_dev s) r (zeros (c_bs (w_cfg w)))
              | _ => s_dev s
              end) ->
  DInv9 w cl s'.
Proof.
  intros [A U C] Hb Hz Hnu Hr Ht Hi Hcase.
  set (c := w_cfg w) in *.
  set (nb := {| b_uid := s_next_uid s; b_region := r; b_cursor := 0; b_use := 1 |}) in *.
  assert (P1 : Permutation (nb :: live s) (live s')).
  { unfold live. rewrite Hb, Hz, <- app_assoc. cbn [app]. apply Permutation_middle. }
  assert (In1 : forall x, In x (live s') <-> x = nb \/ In x (live s)).
  { intros x. split.
    - intros H. apply (Permutation_in _ (Permutation_sym P1)) in H. destruct H; auto.
    - intros H. apply (Permutation_in _ P1). destruct H; [left|right]; auto. }
  assert (E0 : abs_end s' = abs_end s + 1).
  { unfold abs_end. rewrite Hb, Hr, app_length. cbn [length]. lia. }
  assert (F1 : forall b, In b (live s) -> b_region b <> r).
  { intros b Hin. destruct Hcase as [(Him & -> & _)|(Him & Hf & _)].
    - pose proof (n_reg_lt _ _ A Him b Hin). lia.
    - intros E. pose proof (n_reg_nd _ _ A) as ND. rewrite Hf in ND.
      apply (NoDup_app_disj _ _ r ND); [|left; reflexivity].
      rewrite <- E. apply in_map. exact Hin. }
  assert (F2 : NoDup (map b_region (live s') ++ s_free s')).
  { pose proof (n_reg_nd _ _ A) as ND.
    refine (Permutation_NoDup (Permutation_app_tail _ (Permutation_map b_region P1)) _).
    cbn [map app nb b_region].
    destruct Hcase as [(Him & _ & _ & Hf & _)|(Him & Hf & _)].
    - rewrite Hf. constructor; [|exact ND].
      intros Hin. apply in_app_or in Hin. destruct Hin as [Hin|Hin].
      + apply in_map_iff in Hin. destruct Hin as (b & e & Hin). exact (F1 b Hin e).
      + rewrite (n_free_im _ _ A Him) in Hin. destruct Hin.
    - rewrite Hf in ND. refine (Permutation_NoDup _ ND). apply Permutation_sym, Permutation_middle. }
  assert (F3 : forall r', r' <> r -> dev_get (s_dev s') r' = dev_get (s_dev s) r').
  { intros r' Hne. assert (Nat.eqb r' r = false) as E by (apply Nat.eqb_neq; exact Hne).
    destruct Hcase as [(_ & _ & _ & _ & Hd)|(_ & _ & Hd)]; rewrite Hd.
    - rewrite dev_get_set, E. reflexivity.
    - destruct (dev_get (s_dev s) r); [|reflexivity]. rewrite dev_get_set, E. reflexivity. }
  assert (F4 : length (dev_get (s_dev s') r) = N.to_nat (c_bs c)).
  { destruct Hcase as [(_ & _ & _ & _ & Hd)|(_ & Hf & Hd)]; rewrite Hd.
    - rewrite dev_get_set, Nat.eqb_refl. apply zeros_length.
    - destruct (dev_get (s_dev s) r) as [|x t] eqn:E.
      + rewrite dev_get_set, Nat.eqb_refl. apply zeros_length.
      + destruct (n_dev_free _ _ A r) as [H|H].
        * rewrite Hf. left. reflexivity.
        * rewrite E in H. discriminate.
        * exact H. }
  assert (F5 : forall r', In r' (s_free s') -> In r' (s_free s) /\ r' <> r).
  { intros r' Hin. destruct Hcase as [(Him & _ & _ & Hf & _)|(Him & Hf & _)].
    - rewrite Hf, (n_free_im _ _ A Him) in Hin. destruct Hin.
    - split; [rewrite Hf; right; exact Hin|].
      pose proof (NoDup_app_r _ _ (n_reg_nd _ _ A)) as ND. rewrite Hf in ND.
      inversion ND as [|u v Hn _]; subst. intros ->. exact (Hn Hin). }
  assert (Hfresh : forall b, In b (live s) -> b_uid b <> s_next_uid s).
  { intros b Hin. pose proof (n_uid_lt _ _ A b Hin). lia. }
  assert (A' : AInv9 c s').
  { constructor.
    - destruct (n_rel _ _ A). rewrite E0, Hr, Ht. lia.
    - refine (Permutation_NoDup (Permutation_map b_uid P1) _). cbn [map nb b_uid].
      constructor; [|apply (n_uid_nd _ _ A)].
      intros Hin. apply in_map_iff in Hin. destruct Hin as (b & e & Hin). exact (Hfresh b Hin e).
    - intros x Hx. apply In1 in Hx. rewrite Hnu. destruct Hx as [->|Hx].
      + cbn [nb b_uid]. lia.
      + pose proof (n_uid_lt _ _ A x Hx). lia.
    - exact F2.
    - intros Him x Hx. apply In1 in Hx.
      destruct Hcase as [(_ & Hrr & Hnr & _)|(Him' & _)]; [|congruence].
      rewrite Hnr. destruct Hx as [->|Hx].
      + cbn [nb b_region]. lia.
      + pose proof (n_reg_lt _ _ A Him x Hx). lia.
    - intros Him. destruct Hcase as [(_ & _ & _ & Hf & _)|(Him' & _)]; [|congruence].
      rewrite Hf. apply (n_free_im _ _ A Him).
    - intros x Hx. apply In1 in Hx. destruct Hx as [->|Hx].
      + cbn [nb b_cursor]. lia.
      + apply (n_cur _ _ A x Hx).
    - intros x Hx. apply In1 in Hx. destruct Hx as [->|Hx].
      + cbn [nb b_region]. exact F4.
      + rewrite (F3 _ (F1 x Hx)). apply (n_dev_live _ _ A x Hx).
    - intros r' Hin. destruct (F5 r' Hin) as [Hin0 Hne]. rewrite (F3 _ Hne).
      apply (n_dev_free _ _ A r' Hin0).
    - intros k l Hin. rewrite Hi in Hin. pose proof (n_idx _ _ A k l Hin). lia. }
  assert (U' : UInv cl s').
  { constructor.
    - intros x Hx. rewrite Hb in Hx. apply in_app_or in Hx. destruct Hx as [Hx|[<-|[]]].
      + apply (u_blocks _ _ U x Hx).
      + cbn [nb b_uid b_use].
        rewrite (nrefs_not_live w cl s (s_next_uid s) (c_claims _ _ _ C) Hfresh). lia.
    - intros z Hz'. rewrite Hz in Hz'. apply (u_zombies _ _ U z Hz'). }
  assert (M : Mono cl s s').
  { constructor.
    - exact Hi.
    - lia.
    - lia.
    - lia.
    - lia.
    - intros abs H1 H2. unfold uid_at. rewrite Hr, Hb. unfold abs_end in H2.
      destruct (abs <? s_released s); [reflexivity|].
      rewrite nth_error_app1 by lia. reflexivity.
    - intros x Hx Hlt. apply In1 in Hx. destruct Hx as [->|Hx].
      + cbn [nb b_uid] in Hlt. lia.
      + exists x. repeat split; auto. lia.
    - intros b Hin. apply F3. apply F1. exact Hin.
    - intros y Hy _. exists y. split; [apply In1; right; exact Hy|]. repeat split; lia.
    - intros y n Hn _. exists y. split; [|repeat split; lia].
      apply In1. right. unfold live. apply in_or_app. left. eapply nth_error_In. exact Hn. }
  constructor; [exact A'|exact U'|]. apply (CInv_mono w cl s s' A A' M C).
Qed.

Lemma push_back_fields c s s1 :
  push_back c s = Some s1 ->
  (exists r,
     s_blocks s1 = s_blocks s ++ [ {| b_uid := s_next_uid s; b_region := r; b_cursor := 0; b_use := 1 |} ] /\
     (in_memory c = true /\ r = s_next_region s /\ s_next_region s1 = S r /\
      s_free s1 = s_free s /\ s_dev s1 = dev_set (s_dev s) r (zeros (c_bs c))
      \/
      in_memory c = false /\ s_free s = r :: s_free s1 /\
      s_dev s1 = match dev_get (s_dev s) r with
                 | [] => dev_set (s_dev s) r (zeros (c_bs c))
                 | _ => s_dev s
                 end)) /\
  s_zombies s1 = s_zombies s /\ s_next_uid s1 = S (s_next_uid s) /\
  s_released s1 = s_released s /\ s_tbr s1 = s_tbr s /\ s_index s1 = s_index s /\
  s_old s1 = s_old s /\ s_cur s1 = s_cur s /\ s_new s1 = s_new s /\
  s_threads s1 = s_threads s /\ s_negs s1 = s_negs s.
Proof.
  unfold push_back, new_block. destruct (in_memory c) eqn:Him.
  - intros H; inversion H; subst; clear H.
    cbn [s_blocks s_zombies s_free s_next_region s_next_uid s_dev s_released s_tbr s_index
         s_old s_cur s_new s_threads s_negs upd_blocks].
    split; [|repeat split; reflexivity].
    eexists. split; [reflexivity|]. left. repeat split; reflexivity.
  - destruct (s_free s) as [|r rest] eqn:Hf; [discriminate|].
    intros H; inversion H; subst; clear H.
    cbn [s_blocks s_zombies s_free s_next_region s_next_uid s_dev s_released s_tbr s_index
         s_old s_cur s_new s_threads s_negs upd_blocks].
    split; [|repeat split; reflexivity].
    eexists. split; [reflexivity|]. right. repeat split; reflexivity.
Qed.

Lemma push_inv w cl s s1 s' :
  DInv w cl s -> push_back (w_cfg w) s = Some s1 -> core9 s1 s' ->
  (s_old s' + s_cur s' + s_new s' = S (s_old s + s_cur s + s_new s))%nat ->
  DInv w cl s' /\ s_blocks s' <> [].
Proof.
  intros D Hp (e1 & e2 & e3 & e4 & e5 & e6 & e7 & e8 & e9) L.
  apply DInv_split in D. destruct D as [D Ln].
  destruct (push_back_fields _ _ _ Hp)
    as ((r & f1 & Hcase) & f2 & f3 & f4 & f5 & f6 & _).
  split.
  - apply DInv_split. split.
    + apply (push_core w cl s s' r D); try congruence.
      all: destruct Hcase as [(h1 & h2 & h3 & h4 & h5)|(h1 & h2 & h3)]; [left|right];
        repeat split; congruence.
    + unfold len_ok in *. rewrite e1, f1, app_length. cbn [length]. lia.
  - rewrite e1, f1. destruct (s_blocks s); discriminate.
Qed.
