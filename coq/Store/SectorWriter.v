(** Store/SectorWriter.v — the sector-granular writer of the block-device backed
    block allocator (pkg/blobstore/local/block_device_backed_block_allocator.go):
    [blockDeviceBackedBlock.HasSpace/Put], [blockDeviceBackedBlockWriter.Write/flush],
    [sharedSector], [NewBlock]/[NewBlockAtLocation].  Definitions only.

    Conventions.  All quantities are [nat] (byte offsets, sector numbers, list
    positions); Go's int64/int arithmetic is assumed not to overflow.  A byte is
    an opaque [Z].  The device is a list of bytes; [WriteAt] inside the device
    never fails (the model does not inject I/O errors).  Fields marked GHOST do
    not exist in the code; they only serve the statements of the theorems. *)
From Coq Require Import List Arith ZArith Bool.
Import ListNotations.

Definition byte := Z.

(** geometry: [sectorSizeBytes], [blockSectorCount], [deviceOffsetSectors] of the block *)
Record cfg := { c_sector : nat; c_spb : nat; c_base : nat }.

(** [copy(dst[off:], src)] — Go's built-in copy: truncates at the end of [dst].
    Also the byte-slice device's [WriteAt] for in-range writes. *)
Fixpoint write_at (dst : list byte) (off : nat) (src : list byte) : list byte :=
  match dst with
  | [] => []
  | d :: dst' =>
      match off with
      | O => match src with
             | [] => dst
             | b :: src' => b :: write_at dst' 0 src'
             end
      | S off' => d :: write_at dst' off' src
      end
  end.

Fixpoint upd {T} (l : list T) (i : nat) (x : T) : list T :=
  match l, i with
  | [], _ => []
  | _ :: t, O => x :: t
  | h :: t, S i' => h :: upd t i' x
  end.

Definition zeros (n : nat) : list byte := repeat 0%Z n.

(** one [sharedSector]: its [data]; [writeOffsetBytes] lives with the block cursor
    because only [Put]/[HasSpace] (under the store's lock) ever read it. *)
Record image := { im_sec : nat (* GHOST: block-relative sector it images *); im_data : list byte }.

(** device write [WriteAt(bytes, offset)] *)
Definition dwrite := (nat * list byte)%type.

Definition apply_writes (dev : list byte) (ws : list dwrite) : list byte :=
  fold_left (fun d w => write_at d (fst w) (snd w)) ws dev.

(** [blockDeviceBackedBlockWriter] *)
Record writer := {
  w_off : nat;               (* offsetSectors (absolute device sector) *)
  w_first : option nat;      (* firstSector: identity of a shared sector *)
  w_firstoff : nat;          (* firstSectorOffsetBytes *)
  w_partial : list byte;     (* partialSector *)
  w_last : option nat;       (* lastSector *)
}.

(** block cursor: [writeOffsetSectors], [sharedSector] (identity, writeOffsetBytes) *)
Record cursor := { b_wos : nat; b_shared : option (nat * nat) }.

Definition new_block : cursor := {| b_wos := 0; b_shared := None |}.
(** [NewBlockAtLocation(location, writeOffsetBytes)] *)
Definition new_block_at (c : cfg) (write_offset_bytes : nat) : cursor :=
  {| b_wos := (write_offset_bytes + c_sector c - 1) / c_sector c; b_shared := None |}.

Definition shared_off (b : cursor) : nat :=
  match b_shared b with Some (_, o) => o | None => 0 end.

(** [HasSpace]: (blockSectorCount - writeOffsetSectors) * sector - shared.writeOffsetBytes >= size,
    over the integers. *)
Definition has_space (c : cfg) (b : cursor) (size : nat) : bool :=
  b_wos b * c_sector c + shared_off b + size <=? c_spb c * c_sector c.

(** [Put(sizeBytes)] up to the returned closure: new cursor, new image table, the
    writer, and [writeOffsetBytes] (block-relative offset the finalizer returns). *)
Definition alloc (c : cfg) (b : cursor) (images : list image) (size : nat)
  : cursor * list image * writer * nat :=
  let S := c_sector c in
  let firstoff := shared_off b in
  let start := b_wos b * S + firstoff in
  let endoff := firstoff + size in
  let cnt := endoff / S in
  let lastoff := endoff mod S in
  let wos' := b_wos b + cnt in
  let fresh := (Some (length images, lastoff),
                images ++ [{| im_sec := wos'; im_data := zeros S |}]) in
  let '(shared', images') :=
    if lastoff =? 0 then (None, images)
    else match b_shared b with
         | None => fresh
         | Some (id, _) => if 0 <? cnt then fresh else (Some (id, lastoff), images)
         end in
  ({| b_wos := wos'; b_shared := shared' |}, images',
   {| w_off := c_base c + b_wos b;
      w_first := option_map fst (b_shared b);
      w_firstoff := firstoff;
      w_partial := [];
      w_last := option_map fst shared' |},
   start).

Definition img_data (images : list image) (id : nat) : list byte :=
  im_data (nth id images {| im_sec := 0; im_data := [] |}).
Definition set_img (images : list image) (id : nat) (d : list byte) : list image :=
  upd images id {| im_sec := im_sec (nth id images {| im_sec := 0; im_data := [] |}); im_data := d |}.

(** [Write(p)], part after the first-sector section: partial sector, aligned
    middle, trailing bytes.  Returns the writer and the device writes. *)
Definition write_rest (c : cfg) (w : writer) (p : list byte) : writer * list dwrite :=
  let S := c_sector c in
  (* if len(w.partialSector) > 0 *)
  let '(w1, p1, log1, fin) :=
    if 0 <? length (w_partial w) then
      let copied := Nat.min (length p) (S - length (w_partial w)) in
      let part := w_partial w ++ firstn copied p in
      let p' := skipn copied p in
      if length part <? S then
        ({| w_off := w_off w; w_first := w_first w; w_firstoff := w_firstoff w;
            w_partial := part; w_last := w_last w |}, p', [], true)
      else
        ({| w_off := w_off w + 1; w_first := w_first w; w_firstoff := w_firstoff w;
            w_partial := []; w_last := w_last w |}, p', [(w_off w * S, part)], false)
    else (w, p, [], false) in
  if fin then (w1, log1) else
  (* alignedSize := len(p) / sector * sector *)
  let aligned := length p1 / S * S in
  let '(w2, p2, log2) :=
    if 0 <? aligned then
      ({| w_off := w_off w1 + length p1 / S; w_first := w_first w1; w_firstoff := w_firstoff w1;
          w_partial := w_partial w1; w_last := w_last w1 |},
       skipn aligned p1, [(w_off w1 * S, firstn aligned p1)])
    else (w1, p1, []) in
  (* trailing data *)
  let w3 :=
    if 0 <? length p2 then
      {| w_off := w_off w2; w_first := w_first w2; w_firstoff := w_firstoff w2;
         w_partial := w_partial w2 ++ p2; w_last := w_last w2 |}
    else w2 in
  (w3, log1 ++ log2).

(** [Write(p)]: images, writer -> images, writer, device writes (in order). *)
Definition write (c : cfg) (images : list image) (w : writer) (p : list byte)
  : list image * writer * list dwrite :=
  let S := c_sector c in
  match w_first w with
  | Some id =>
      let img := img_data images id in
      (* copy(firstSector.data[w.firstSectorOffsetBytes:], p) *)
      let copied := Nat.min (length img - w_firstoff w) (length p) in
      let img' := write_at img (w_firstoff w) p in
      let images' := set_img images id img' in
      let fo := w_firstoff w + copied in
      if fo <? S then
        (images', {| w_off := w_off w; w_first := Some id; w_firstoff := fo;
                     w_partial := w_partial w; w_last := w_last w |}, [])
      else
        let w1 := {| w_off := w_off w + 1; w_first := None; w_firstoff := fo;
                     w_partial := w_partial w; w_last := w_last w |} in
        let '(w2, log) := write_rest c w1 (skipn copied p) in
        (images', w2, (w_off w * S, img') :: log)
  | None =>
      let '(w2, log) := write_rest c w p in (images, w2, log)
  end.

(** [flush()] *)
Definition flush (c : cfg) (images : list image) (w : writer) : list image * list dwrite :=
  match w_last w with
  | None => (images, [])
  | Some id =>
      let img' := write_at (img_data images id) 0 (w_partial w) in
      (set_img images id img', [(w_off w * length img', img')])
  end.

(** ---- the transition system ---- *)

Inductive status := Active | Flushed | Abandoned.

Record thread := {
  t_w : writer;
  t_start : nat;            (* writeOffsetBytes returned by the finalizer (block-relative) *)
  t_size : nat;             (* GHOST: sizeBytes of the allocation *)
  t_data : list byte;       (* GHOST: bytes passed to Write so far *)
  t_first0 : option nat;    (* GHOST: firstSector at allocation time *)
  t_status : status;
}.

Record state := {
  st_dev : list byte;
  st_cur : cursor;
  st_images : list image;
  st_threads : list thread;
}.

Inductive event :=
| EAlloc (size : nat)                  (* HasSpace(size) holds; Put(size) *)
| EWrite (k : nat) (chunk : list byte) (* writer k: Write(chunk) *)
| EFlush (k : nat)                     (* writer k: IntoWriter returned nil; flush() *)
| EAbandon (k : nat).                  (* writer k: IntoWriter failed; no flush *)

Definition init_state (dev : list byte) (b : cursor) : state :=
  {| st_dev := dev; st_cur := b; st_images := []; st_threads := [] |}.

Definition set_thread (s : state) (k : nat) (t : thread) (images : list image) (log : list dwrite) : state :=
  {| st_dev := apply_writes (st_dev s) log; st_cur := st_cur s; st_images := images;
     st_threads := upd (st_threads s) k t |}.

(** one atomic step; [None] = the event is not enabled *)
Definition step (c : cfg) (s : state) (e : event) : option (state * list dwrite) :=
  match e with
  | EAlloc size =>
      if has_space c (st_cur s) size then
        let '(b', images', w, start) := alloc c (st_cur s) (st_images s) size in
        Some ({| st_dev := st_dev s; st_cur := b'; st_images := images';
                 st_threads := st_threads s ++
                   [{| t_w := w; t_start := start; t_size := size; t_data := [];
                       t_first0 := w_first w; t_status := Active |}] |}, [])
      else None
  | EWrite k chunk =>
      match nth_error (st_threads s) k with
      | Some t =>
          match t_status t with
          | Active =>
              if length (t_data t) + length chunk <=? t_size t then
                let '(images', w', log) := write c (st_images s) (t_w t) chunk in
                Some (set_thread s k {| t_w := w'; t_start := t_start t; t_size := t_size t;
                                        t_data := t_data t ++ chunk; t_first0 := t_first0 t;
                                        t_status := Active |} images' log, log)
              else None
          | _ => None
          end
      | None => None
      end
  | EFlush k =>
      match nth_error (st_threads s) k with
      | Some t =>
          match t_status t with
          | Active =>
              if length (t_data t) =? t_size t then
                let '(images', log) := flush c (st_images s) (t_w t) in
                Some (set_thread s k {| t_w := t_w t; t_start := t_start t; t_size := t_size t;
                                        t_data := t_data t; t_first0 := t_first0 t;
                                        t_status := Flushed |} images' log, log)
              else None
          | _ => None
          end
      | None => None
      end
  | EAbandon k =>
      match nth_error (st_threads s) k with
      | Some t =>
          match t_status t with
          | Active =>
              Some (set_thread s k {| t_w := t_w t; t_start := t_start t; t_size := t_size t;
                                      t_data := t_data t; t_first0 := t_first0 t;
                                      t_status := Abandoned |} (st_images s) [], [])
          | _ => None
          end
      | None => None
      end
  end.

(** run an event list; [None] when some event is not enabled *)
Fixpoint run (c : cfg) (s : state) (tr : list event) : option state :=
  match tr with
  | [] => Some s
  | e :: tr' => match step c s e with
                | Some (s', _) => run c s' tr'
                | None => None
                end
  end.
