(** C08 — the monitor [mon08] (Run/R08.v) is silent on every run of the
    store model: all worlds, all schedules.  Proofs only. *)
From Coq Require Import List NArith ZArith Bool Arith Lia ZifyN ZifyNat ZifyBool.
From BBS Require Import Common.Sx Store.Model Store.P08Frame Store.P08Step Store.P08Quarantine
  Run.RStore Run.R01 Run.R08.
Import ListNotations.
Open Scope Z_scope.

(** the monitor fed with the model's own observations *)
Definition model_obs (w : world) (es : list op) (sts : list (state * state * out)) : list sx :=
  map (fun '(e, (s0, s1, o)) => enc_obs (w_cfg w) e s0 s1 o) (combine es sts).

Definition mon08_from (w : world) (s : state) (es : list op) (acc : list (nat * (nat * nat)) * list Z) :=
  let sts := run_states w s es in
  fold_left (m08_step w) (combine (combine es sts) (model_obs w es sts)) acc.

Definition mon08_model (w : world) (es : list op) : list Z :=
  dedupZ (snd (mon08_from w (init_state (w_cfg w)) es ([], []))).

Lemma mon08_model_eq inp : mon08 inp (run_store inp) = mon08_model (dec_world inp) (dec_ops inp).
Proof. reflexivity. Qed.

(** accessors on encoded model observations *)
Lemma ob_kind_enc c e s0 s1 mo :
  ob_kind (enc_obs c e s0 s1 mo) = match mo with Done _ _ => 0 | Parked => 1 | Missing _ _ => 2 | Bad => 3 end.
Proof. destruct mo; reflexivity. Qed.
Lemma ob_code_enc c e s0 s1 mo :
  ob_code (enc_obs c e s0 s1 mo) = match mo with Done x _ => x | Missing x _ => x | _ => 0 end.
Proof. destruct mo; reflexivity. Qed.
Lemma ob_negs_enc c e s0 s1 mo :
  ob_negs (enc_obs c e s0 s1 mo) = match mo with Bad => 0 | _ => Z.of_nat (s_negs s1 - s_negs s0) end.
Proof. destruct mo; reflexivity. Qed.

Lemma sx_nats_of_nats l : sx_nats (of_nats l) = l.
Proof.
  unfold sx_nats, of_nats. cbn [sx_list]. rewrite map_map. rewrite <- (map_id l) at 2.
  apply map_ext. intros a. unfold sx_nat, of_nat. cbn. apply Nat2Z.id.
Qed.
Lemma missing_enc c e s0 s1 code ds : sx_nats (sx_nth (enc_obs c e s0 s1 (Missing code ds)) 2) = ds.
Proof. cbn. apply sx_nats_of_nats. Qed.

(** clause 2 never fires *)
Lemma v2_silent w s0 e s1 mo : step w s0 e = (s1, mo) ->
  let o := enc_obs (w_cfg w) e s0 s1 mo in
  (0 <? ob_negs o) && negb (Z.eqb (ob_code o) cInternal) = false.
Proof.
  intros H o. subst o. rewrite ob_negs_enc, ob_code_enc.
  apply step_sfr in H as [[_ Hn _ _ _]|[[_ Hn _ _ _] Ho]].
  - replace (s_negs s1 - s_negs s0)%nat with 0%nat by lia. destruct mo; reflexivity.
  - destruct mo; cbn in Ho; try contradiction; subst; rewrite andb_false_r; reflexivity.
Qed.

(** clause 1: a key that resolves is not "only in quarantine" *)
Lemma stale_newest_ge s k l : index_get s k = Some l ->
  exists l', stale_newest s k = Some l' /\ (l_abs l <= l_abs l')%N.
Proof.
  intros H. pose proof (index_get_some _ _ _ H) as [Hin Hv].
  unfold stale_newest.
  match goal with |- context [newest ?c None] => pose proof (newest_max c None) as M; destruct (newest c None) as [r|] end.
  - exists r. split; [reflexivity|]. apply (proj1 M).
    apply in_map_iff. exists (k, l). split; [reflexivity|]. apply filter_In. split; [assumption|].
    cbn. unfold loc_valid in Hv. apply andb_true_iff. split; [apply key_eqb_eq; reflexivity|lia].
  - exfalso. destruct M as [M _].
    assert (In l (map snd (filter (fun e => key_eqb (fst e) k
                 && (l_abs (snd e) <? s_released s + N.of_nat (length (s_blocks s)))%N) (s_index s)))) as Hl.
    { apply in_map_iff. exists (k, l). split; [reflexivity|]. apply filter_In. split; [assumption|].
      cbn. unfold loc_valid in Hv. apply andb_true_iff. split; [apply key_eqb_eq; reflexivity|lia]. }
    rewrite M in Hl. destruct Hl.
Qed.

Lemma only_in_quarantine_false w s o i k l :
  In k (lookup_keys w o i) -> index_get s k = Some l -> only_in_quarantine w s o i = false.
Proof.
  intros Hk Hg. unfold only_in_quarantine. apply andb_false_iff. right.
  apply not_true_iff_false. intros Hf. rewrite forallb_forall in Hf.
  destruct (stale_newest_ge _ _ _ Hg) as (l' & Hs & Hle).
  specialize (Hf (Some l')). cbv beta iota in Hf.
  pose proof (index_get_quarantine _ _ _ Hg).
  assert ((l_abs l' <? s_tbr s)%N = true) as Hc.
  { apply Hf. rewrite <- Hs. apply in_map. assumption. }
  lia.
Qed.

Lemma v1_get_silent w s0 tid ob i s1 :
  step w s0 (OGetOpen tid ob i) = (s1, Parked) -> only_in_quarantine w s0 ob i = false.
Proof.
  intros H. apply get_open_parks_outside_quarantine in H as (_ & _ & _ & _ & _ & _ & k & l0 & Hk & Hg & _).
  eapply only_in_quarantine_false; eassumption.
Qed.

Lemma v1_fm_silent w s0 ds m s1 :
  step w s0 (OFindMissing ds) = (s1, Missing cOK m) ->
  existsb (fun '(pos, (ob, i)) => negb (existsb (Nat.eqb pos) m) && only_in_quarantine w s0 ob i)
          (enumerate 0 ds) = false.
Proof.
  intros H. apply not_true_iff_false. intros Hf. apply existsb_exists in Hf as ([pos [ob i]] & Hin & Hc).
  apply andb_true_iff in Hc as [Hc1 Hc2]. apply enumerate_in in Hin as [_ Hn]. rewrite Nat.sub_0_r in Hn.
  assert (~ In pos m) as Hm.
  { intros Hm. apply negb_true_iff in Hc1. apply not_true_iff_false in Hc1. apply Hc1.
    apply existsb_exists. exists pos. split; [assumption|apply Nat.eqb_refl]. }
  destruct (find_missing_present_step _ _ _ _ _ _ _ _ H Hn Hm) as (k & l & Hk & Hg & _).
  rewrite (only_in_quarantine_false _ _ _ _ _ _ Hk Hg) in Hc2. discriminate.
Qed.

(** clause 4: NOT_FOUND is only answered when no lookup key resolves *)
Lemma ocn_put_err_not_5 c s size e s' : ocn_put c s size = (Err e, s') -> e <> cNotFound.
Proof.
  unfold ocn_put, find_block_with_space.
  destruct (c_bs c <? size)%N; [intros H; inversion H; discriminate|].
  destruct (fbs_grow _ _ _) as [[|] s2].
  - destruct (fbs_rotate _ _ _ _) as [[|] s3].
    + destruct (fbs_pick _ _ _ _) as [[idx s4]|].
      * destruct (nth_error _ _); intros H; inversion H; discriminate.
      * intros H; inversion H; discriminate.
    + intros H; inversion H; discriminate.
  - intros H; inversion H; discriminate.
Qed.

Lemma open_with_refresh_err_not_5 w s o l fk e s' :
  open_with_refresh w s o l fk = (Err e, s') -> e <> cNotFound.
Proof.
  unfold open_with_refresh. destruct (block_of_loc s l) as [b|]; [|intros H; inversion H; discriminate].
  destruct (needs_refresh s l); [|intros H; discriminate].
  destruct (ocn_put _ _ _) as [[wr|e0] s2] eqn:E.
  - destruct (lockstep _); [intros H; discriminate|].
    destruct (finalize _ _ _ _) as [[nl|e1] s4] eqn:F; [intros H; discriminate|].
    intros H; inversion H; subst. unfold finalize in F. cbn [negb] in F.
    destruct (wr_abs wr <? s_tbr _)%N; inversion F; discriminate.
  - intros H; inversion H; subst. eapply ocn_put_err_not_5; eauto.
Qed.

Lemma v4_get_silent w s0 tid ob i s1 b :
  step w s0 (OGetOpen tid ob i) = (s1, Done cNotFound b) ->
  match least_specific s0 (lookup_keys w ob i) with Some _ => true | None => false end = false.
Proof.
  unfold step. cbn [may_take_refresh_lock is_corrupt andb].
  destruct (thr_get (s_threads s0) tid); [intros H; discriminate|].
  destruct (get_open w s0 ob i) as [[t|e] s'] eqn:G; [intros H; discriminate|].
  intros H; inversion H; subst e. clear H.
  unfold get_open in G. destruct (least_specific s0 (lookup_keys w ob i)) as [[k l]|]; [|reflexivity].
  exfalso.
  destruct (negb (needs_refresh s0 l)).
  - eapply open_with_refresh_err_not_5; eauto.
  - destruct (c_hier (w_cfg w)).
    + destruct (sync_from_canonical s0 ob k) as [[cl s1']|]; eapply open_with_refresh_err_not_5; eauto.
    + eapply open_with_refresh_err_not_5; eauto.
Qed.

(** clause 3: an upload into a quarantined block is not acknowledged *)
Lemma v3_silent w s0 e tid s1 mo o i wr acc :
  (exists err, e = OPutEnd tid err) \/ (exists d, e = OPutChunk tid d) ->
  step w s0 e = (s1, mo) -> thr_get (s_threads s0) tid = Some (TPut o i wr acc) ->
  ob_ok (enc_obs (w_cfg w) e s0 s1 mo) && (wr_abs wr <? s_tbr s0)%N = false.
Proof.
  intros He H Ht. unfold ob_ok. rewrite ob_kind_enc, ob_code_enc.
  destruct He as [[err ->]|[d ->]].
  - destruct (wr_abs wr <? s_tbr s0)%N eqn:Hq; [|apply andb_false_r].
    destruct (inflight_upload_fails _ _ _ _ _ _ _ _ _ _ Ht ltac:(lia) H) as [(code & -> & Hc) _].
    cbn. destruct (Z.eqb_spec code 0); [contradiction|reflexivity].
  - pose proof (put_chunk_never_ok _ _ _ _ _ _ H) as Hn. destruct mo as [code b| | |]; try reflexivity.
    cbn. destruct (Z.eqb_spec code 0); [subst; exfalso; eapply Hn; reflexivity|reflexivity].
Qed.

(** one monitor step on a model step adds no violation *)
Lemma m08_step_silent w g s0 e s1 mo :
  step w s0 e = (s1, mo) ->
  snd (m08_step w (g, []) (e, (s0, s1, mo), enc_obs (w_cfg w) e s0 s1 mo)) = [].
Proof.
  intros H. pose proof (v2_silent _ _ _ _ _ H) as V2. cbv zeta in V2.
  unfold m08_step. rewrite V2.
  destruct e as [tid ob i|tid data|tid err|tid ob i|tid|ds|tid p i ch|tid slices|rg off len]; cbn [snd app]; try reflexivity.
  - (* OPutChunk *)
    destruct (thr_get (s_threads s0) tid) as [[o i wr acc| | | |]|] eqn:Ht; try reflexivity.
    rewrite (v3_silent w s0 _ tid s1 mo o i wr acc (or_intror (ex_intro _ data eq_refl)) H Ht). reflexivity.
  - (* OPutEnd *)
    destruct (thr_get (s_threads s0) tid) as [[o i wr acc| | | |]|] eqn:Ht; try reflexivity.
    rewrite (v3_silent w s0 _ tid s1 mo o i wr acc (or_introl (ex_intro _ err eq_refl)) H Ht). reflexivity.
  - (* OGetOpen *)
    rewrite ob_kind_enc, ob_code_enc. destruct mo as [code b| |code m|]; cbn [Z.eqb andb snd app]; try reflexivity.
    + (* Done: clause 4 *)
      destruct (Z.eqb_spec code cNotFound) as [->|]; cbn [andb app]; [|reflexivity].
      destruct (Nat.ltb 0 (s_negs s0)); cbn [andb app]; [|reflexivity].
      rewrite (v4_get_silent _ _ _ _ _ _ _ H). reflexivity.
    + rewrite (v1_get_silent _ _ _ _ _ _ H). reflexivity.
  - (* OFindMissing *)
    rewrite ob_kind_enc, ob_code_enc. destruct mo as [| |code m|]; cbn [Z.eqb andb snd app]; try reflexivity.
    destruct (Z.eqb_spec code 0); cbn [snd app]; [|reflexivity]. subst code.
    rewrite missing_enc, (v1_fm_silent _ _ _ _ _ H). reflexivity.
Qed.

Lemma mon08_from_silent w es : forall s g, snd (mon08_from w s es (g, [])) = [].
Proof.
  unfold mon08_from, model_obs.
  induction es as [|e t IH]; intros s g; cbn [run_states]; [reflexivity|].
  destruct (step w s e) as [s1 mo] eqn:E. cbn [combine map fold_left].
  pose proof (m08_step_silent w g _ _ _ _ E) as H.
  destruct (m08_step w (g, []) (e, (s, s1, mo), enc_obs (w_cfg w) e s s1 mo)) as [g' v']. cbn in H; subst v'.
  apply IH.
Qed.

Theorem store_model_satisfies_C08 w es : mon08_model w es = [].
Proof. unfold mon08_model. rewrite mon08_from_silent. reflexivity. Qed.

Corollary mon08_silent_on_model inp : mon08 inp (run_store inp) = [].
Proof. rewrite mon08_model_eq. apply store_model_satisfies_C08. Qed.
