(** The wiring of the [local] backend in
    pkg/blobstore/configuration/new_blob_access.go (case
    BlobAccessConfiguration_Local, non-persistent) together with the two
    families of BlobAccessCreator (cas_blob_access_creator.go;
    proto_blob_access_creator.go as used by the Action Cache creator): which
    store - in the vocabulary of Store/Model.v - a configuration message
    denotes, and which messages the constructor refuses.  Definitions only.

    Go                                              here
    --------------------------------------------    -------------------------------
    creator (CAS / AC)                              wi_ac
    Local.HierarchicalInstanceNames                 wi_hier
    Local.OldBlocks / CurrentBlocks / NewBlocks     wi_old / wi_cur / wi_new
    BlocksInMemory.BlockSizeBytes                   wi_block_size   (wi_device = false)
    BlocksOnBlockDevice.SpareBlocks                 wi_spare        (wi_device = true)
    sector size / sector count of the device        wi_sector_size / wi_sector_count

    digestKeyFormat = KeyWithInstance when hierarchical, otherwise the
    creator's base format (CAS: without instance name, AC: with);
    growth policy = creator.NewBlockListGrowthPolicy (CAS: immutable(current,
    new); AC: mutable(current), refused unless new = 1); hierarchical access
    is refused by the AC creator; on a block device the number of regions is
    spare + old + current + new (refused above 100) and the block size is
    sector size * (sector count / number of regions) (refused when that
    quotient is 0).  The in-memory allocator never validates what it returns;
    the block-device allocator reads through the creator's ReadBufferFactory
    (CAS: validating, copy in lock step with the consumer; AC: the message is
    read and parsed when the buffer is created, i.e. a refresh copy is made in
    the foreground - the model's raw factory). *)
From Coq Require Import List NArith ZArith Bool Arith.
From BBS Require Import Store.Model.
Import ListNotations.

Record wiring := {
  wi_ac : bool;
  wi_hier : bool;
  wi_old : nat;
  wi_cur : nat;
  wi_new : nat;
  wi_device : bool;
  wi_spare : nat;
  wi_block_size : N;
  wi_sector_size : N;
  wi_sector_count : N;
}.

Definition wi_block_count (wi : wiring) : nat :=
  (wi_spare wi + wi_old wi + wi_cur wi + wi_new wi)%nat.

Definition wi_block_sectors (wi : wiring) : N :=
  (wi_sector_count wi / N.of_nat (wi_block_count wi))%N.

(** [None] = the constructor returns an error *)
Definition wire (wi : wiring) : option config :=
  if wi_device wi && Nat.ltb 100 (wi_block_count wi) then None
  else if wi_device wi && N.eqb (wi_block_sectors wi) 0 then None
  else if wi_ac wi && negb (Nat.eqb (wi_new wi) 1) then None
  else if wi_ac wi && wi_hier wi then None
  else Some {| c_bs := if wi_device wi then (wi_sector_size wi * wi_block_sectors wi)%N else wi_block_size wi;
               c_old := wi_old wi;
               c_cur := wi_cur wi;
               c_new := wi_new wi;
               c_mutable := wi_ac wi;
               c_nblocks := if wi_device wi then wi_block_count wi else 0%nat;
               c_hier := wi_hier wi;
               c_inst_keys := wi_hier wi || wi_ac wi;
               c_validate := wi_device wi && negb (wi_ac wi) |}.

(** what the theorems ask of a configuration beyond being accepted: at least
    one "new" block (the constructor does not check it; with none the store
    cannot allocate), a non-empty block, and - on a block device - at least
    one spare region (without one a rotation finds no free region while any
    reader still pins the block that was popped) *)
Definition wiring_sane (wi : wiring) : bool :=
  Nat.leb 1 (wi_new wi)
  && (if wi_device wi then N.ltb 0 (wi_sector_size wi) && Nat.leb 1 (wi_spare wi)
      else N.ltb 0 (wi_block_size wi)).
