(** C08Q — the QUARANTINE ARITHMETIC of OldCurrentNewLocationBlobMap
    (pkg/blobstore/local/old_current_new_location_blob_map.go) under
    interleaving.

    The store model (Store/Model.v) executes whole lock-protected sections
    atomically.  The data-integrity callback handed out by Get(), however, runs
    WITHOUT the store lock and raises the atomic [totalBlocksToBeReleased]
    while a Put() may be anywhere inside findBlockWithSpace().  This file
    models exactly that: the counters, the block list (fill level per block),
    the old/current/new bookkeeping and the allocation counters, with the
    sub-steps of findBlockWithSpace()/Put() as the atomic steps of ONE Put
    thread (the write lock admits one), interleaved at every step with
    callback steps of readers obtained earlier.

    Correspondence with the Go code (line numbers of the pinned tree):
      PStart  : size filter (289) and the snapshot Load (302)
      PCatch  : one iteration of the catch-up loop (303-313): popFront + bookkeeping
      PGrow   : one iteration of the grow loop (319-324): PushBack, newBlocks++
      PSpace  : the HasSpace test of the third loop (329) and the
                "excess new block" branch (330-335)
      PPush   : PushBack of a rotation (340) with the bookkeeping up to the
                decision to discard the oldest block (344-355)
      PPop    : popFront() + removeOldestOldBlock() of a rotation (356-357)
      PRaise  : increaseTotalBlocksToBeReleased(totalBlocksReleased) (358)
                and resetAllocationBlockIndex (362)
      PAlloc  : the final allocation loop (366-375) and blockList.Put (389)
    uint64 arithmetic: [totalBlocksToBeReleased - totalBlocksReleased] wraps
    when the boundary is below the release counter; then every int block index
    is smaller than the difference, which is what [hidden] says.  The counters
    themselves are taken not to reach 2^64.  A Go panic (index out of range on
    an empty list, modulo zero) is the explicit outcome code [-2]; running out
    of fuel in the final loop is [-1]. *)
From Coq Require Import List ZArith Bool Lia.
Import ListNotations.
Open Scope Z_scope.

Record qcfg := {
  q_bs : Z;      (* blockSizeBytes *)
  q_old : Z;     (* desiredOldBlocksCount *)
  q_cur : Z;     (* current blocks of the growth policy *)
  q_new : Z;     (* desiredNewBlocksCount *)
  q_mut : bool;  (* mutable growth policy (else immutable) *)
  q_pb : Z;      (* bytes the harness places in every fresh block (its probes) *)
  q_init : Z     (* initialBlocksCount: blocks the block list holds when the map is constructed *)
}.

(** block_list_growth_policy.go *)
Definition grow_new (c : qcfg) (cur new : Z) : bool :=
  if q_mut c then new <? 1 else cur + new <? q_cur c + q_new c.
Definition grow_cur (c : qcfg) (cur : Z) : bool :=
  if q_mut c then cur <? q_cur c else false.

Inductive pc :=
| Idle
| PStart (sz : Z)
| PCatch (sz snap : Z)
| PGrow (sz : Z)
| PSpace (sz : Z)
| PPush (sz : Z)
| PPop (sz : Z)
| PRaise (sz : Z)
| PAlloc (sz : Z)
| PDone (code idx : Z).

Record rdr := { r_tgt : Z; r_bad : bool; r_open : bool }.

Record qst := {
  rel : Z;            (* totalBlocksReleased *)
  tbr : Z;            (* totalBlocksToBeReleased (atomic) *)
  old : Z;            (* len(oldBlocks) *)
  cur : Z;            (* currentBlocks *)
  new : Z;            (* newBlocks *)
  blocks : list Z;    (* bytes used, per block of the BlockList, oldest first *)
  att : Z;            (* allocationAttemptsRemaining *)
  aidx : Z;           (* allocationBlockIndex *)
  rdrs : list rdr;    (* readers handed out by Get(), by reader id *)
  puts : list Z;      (* absoluteBlockIndex of the Put()s that returned a writer *)
  pcs : pc;           (* where the Put thread is *)
  maxdet : Z;         (* ghost: highest boundary a detection asked for so far *)
  pstart : Z          (* ghost: the boundary when the running Put() was entered *)
}.

Definition init : qst :=
  {| rel := 0; tbr := 0; old := 0; cur := 0; new := 0; blocks := []; att := 0; aidx := -1;
     rdrs := []; puts := []; pcs := Idle; maxdet := 0; pstart := 0 |}.

(** NewOldCurrentNewLocationBlobMap(..., initialBlocksCount): the restored
    blocks are promoted from "old" to "new" as long as the growth policy wants
    more "new" blocks (asked with 0 current blocks), then from "old" to
    "current"; "old" blocks above desiredOldBlocksCount are to be released by
    the next Put() (totalBlocksToBeReleased.Store).
    [promote n grow x]:  for n > 0 && grow(x) { n--; x++ }. *)
Fixpoint promote (n : nat) (grow : Z -> bool) (x : Z) : nat * Z :=
  match n with
  | O => (O, x)
  | S m => if grow x then promote m grow (x + 1) else (n, x)
  end.

(** Every restored block holds the harness's probes ([q_pb] bytes).  Ghost
    [maxdet]: the constructor's forced release counts as the first boundary
    asked for. *)
Definition init_of (c : qcfg) : qst :=
  let '(n1, nw) := promote (Z.to_nat (q_init c)) (fun x => grow_new c 0 x) 0 in
  let '(n2, cu) := promote n1 (grow_cur c) 0 in
  let o := Z.of_nat n2 in
  let t := if q_old c <? o then o - q_old c else 0 in
  {| rel := 0; tbr := t; old := o; cur := cu; new := nw;
     blocks := repeat (q_pb c) (Z.to_nat (q_init c)); att := 0; aidx := -1;
     rdrs := []; puts := []; pcs := Idle; maxdet := t; pstart := 0 |}.

(** BlockReferenceToBlockIndex's test [blockIndex < toBeReleased - released]
    on uint64. *)
Definition hidden (st : qst) (i : Z) : bool :=
  if tbr st <? rel st then true else i <? tbr st - rel st.

Definition set_pc (st : qst) (p : pc) : qst :=
  {| rel := rel st; tbr := tbr st; old := old st; cur := cur st; new := new st; blocks := blocks st;
     att := att st; aidx := aidx st; rdrs := rdrs st; puts := puts st; pcs := p;
     maxdet := maxdet st; pstart := pstart st |}.

Definition set_alloc (st : qst) (a i : Z) : qst :=
  {| rel := rel st; tbr := tbr st; old := old st; cur := cur st; new := new st; blocks := blocks st;
     att := a; aidx := i; rdrs := rdrs st; puts := puts st; pcs := pcs st;
     maxdet := maxdet st; pstart := pstart st |}.
(** resetAllocationBlockIndex *)
Definition reset_alloc (st : qst) : qst := set_alloc st 0 (-1).

Definition set_layout (st : qst) (r o cu n : Z) (bl : list Z) : qst :=
  {| rel := r; tbr := tbr st; old := o; cur := cu; new := n; blocks := bl;
     att := att st; aidx := aidx st; rdrs := rdrs st; puts := puts st; pcs := pcs st;
     maxdet := maxdet st; pstart := pstart st |}.

Definition set_tbr (st : qst) (t md : Z) (rs : list rdr) : qst :=
  {| rel := rel st; tbr := t; old := old st; cur := cur st; new := new st; blocks := blocks st;
     att := att st; aidx := aidx st; rdrs := rs; puts := puts st; pcs := pcs st;
     maxdet := md; pstart := pstart st |}.

Definition panic (st : qst) : qst := set_pc st (PDone (-2) 0).

(** BlockList.HasSpace(i, sz); None = index out of range (Go panics). *)
Definition has_space (c : qcfg) (st : qst) (i sz : Z) : option bool :=
  if i <? 0 then None else
  match nth_error (blocks st) (Z.to_nat i) with
  | Some u => Some (sz <=? q_bs c - u)
  | None => None
  end.

Fixpoint add_at (l : list Z) (n : nat) (d : Z) : list Z :=
  match l, n with
  | [], _ => []
  | x :: t, O => (x + d) :: t
  | x :: t, S m => x :: add_at t m d
  end.

(** incrementAllocationBlockIndex; the caller has checked new <> 0. *)
Definition incr_alloc (c : qcfg) (st : qst) : qst :=
  let i := (aidx st + 1) mod new st in
  if new st - q_new c <=? i
  then set_alloc st (Z.shiftl 1 (new st - i - 1)) i
  else set_alloc st (Z.shiftl 1 (q_new c)) i.

(** The final loop of findBlockWithSpace. *)
Fixpoint alloc_loop (fuel : nat) (c : qcfg) (st : qst) (sz : Z) : qst * Z :=
  match fuel with
  | O => (st, -1)
  | S f =>
      let idx := old st + cur st + aidx st in
      let try :=
        if 0 <? att st then
          match has_space c st idx sz with
          | None => Some None
          | Some true => Some (Some idx)
          | Some false => None
          end
        else None in
      match try with
      | Some None => (st, -2)
      | Some (Some i) => (set_alloc st (att st - 1) (aidx st), i)
      | None =>
          if new st =? 0 then (st, -2)
          else alloc_loop f c (incr_alloc c st) sz
      end
  end.

Definition alloc_fuel (st : qst) : nat := S (S (Z.to_nat (new st))).

(** One atomic step of the Put thread. *)
Definition put_step (c : qcfg) (st : qst) : qst :=
  match pcs st with
  | Idle | PDone _ _ => st
  | PStart sz =>
      if q_bs c <? sz then set_pc st (PDone 3 0)
      else set_pc st (PCatch sz (tbr st))
  | PCatch sz snap =>
      if rel st <? snap then
        match blocks st with
        | [] => panic st
        | _ :: bl =>
            if 0 <? old st then set_layout st (rel st + 1) (old st - 1) (cur st) (new st) bl
            else if 0 <? cur st then set_layout st (rel st + 1) (old st) (cur st - 1) (new st) bl
            else reset_alloc (set_layout st (rel st + 1) (old st) (cur st) (new st - 1) bl)
        end
      else set_pc st (PGrow sz)
  | PGrow sz =>
      if grow_new c (cur st) (new st)
      then set_layout st (rel st) (old st) (cur st) (new st + 1) (blocks st ++ [q_pb c])
      else set_pc st (PSpace sz)
  | PSpace sz =>
      match has_space c st (old st + cur st) sz with
      | None => panic st
      | Some true => set_pc st (PAlloc sz)
      | Some false =>
          if q_new c <? new st
          then reset_alloc (set_layout st (rel st) (old st) (cur st + 1) (new st - 1) (blocks st))
          else set_pc st (PPush sz)
      end
  | PPush sz =>
      let bl := blocks st ++ [q_pb c] in
      if grow_cur c (cur st)
      then set_pc (reset_alloc (set_layout st (rel st) (old st) (cur st + 1) (new st) bl)) (PSpace sz)
      else if q_old c <? old st + 1
      then set_pc (set_layout st (rel st) (old st + 1) (cur st) (new st) bl) (PPop sz)
      else set_pc (reset_alloc (set_layout st (rel st) (old st + 1) (cur st) (new st) bl)) (PSpace sz)
  | PPop sz =>
      match blocks st with
      | [] => panic st
      | _ :: bl => set_pc (set_layout st (rel st + 1) (old st - 1) (cur st) (new st) bl) (PRaise sz)
      end
  | PRaise sz =>
      set_pc (reset_alloc (set_tbr st (Z.max (tbr st) (rel st)) (maxdet st) (rdrs st))) (PSpace sz)
  | PAlloc sz =>
      let '(st1, i) := alloc_loop (alloc_fuel st) c st sz in
      if i <? 0 then set_pc st1 (PDone i 0)
      else
        let st2 := set_layout st1 (rel st1) (old st1) (cur st1) (new st1)
                     (add_at (blocks st1) (Z.to_nat i) sz) in
        {| rel := rel st2; tbr := tbr st2; old := old st2; cur := cur st2; new := new st2;
           blocks := blocks st2; att := att st2; aidx := aidx st2; rdrs := rdrs st2;
           puts := puts st2 ++ [rel st2 + i]; pcs := PDone 0 i;
           maxdet := maxdet st2; pstart := pstart st2 |}
  end.

(** Does the next Put-thread step call PopFront (0) / PushBack (1) on the block
    list?  (The harness's BlockList wrapper fires scheduled detections there.) *)
Definition next_call (c : qcfg) (st : qst) : option Z :=
  match pcs st with
  | PCatch _ snap => if rel st <? snap then Some 0 else None
  | PGrow _ => if grow_new c (cur st) (new st) then Some 1 else None
  | PPush _ => Some 1
  | PPop _ => Some 0
  | _ => None
  end.

Definition close_rdr (r : rdr) : rdr := {| r_tgt := r_tgt r; r_bad := r_bad r; r_open := false |}.

Fixpoint upd_rdr (l : list rdr) (n : nat) : list rdr :=
  match l, n with
  | [], _ => []
  | x :: t, O => close_rdr x :: t
  | x :: t, S m => x :: upd_rdr t m
  end.

(** The integrity callback of reader [r] runs (any time, no lock):
    increaseTotalBlocksToBeReleased(target) — a compare-and-swap maximum. *)
Definition detect (st : qst) (r : nat) : qst :=
  match nth_error (rdrs st) r with
  | Some rd =>
      if r_open rd then
        if r_bad rd
        then set_tbr st (Z.max (tbr st) (r_tgt rd)) (Z.max (maxdet st) (r_tgt rd)) (upd_rdr (rdrs st) r)
        else set_tbr st (tbr st) (maxdet st) (upd_rdr (rdrs st) r)
      else st
  | None => st
  end.

(** What the callback's caller sees: 13 = the read failed INTERNAL (a
    detection), 0 = the read completed, -1 = no such open reader; and the
    number of blocks the error logger reports as newly to be released. *)
Definition detect_obs (st : qst) (r : nat) : Z * Z :=
  match nth_error (rdrs st) r with
  | Some rd =>
      if r_open rd then
        if r_bad rd then (13, Z.max 0 (r_tgt rd - tbr st)) else (0, 0)
      else (-1, 0)
  | None => (-1, 0)
  end.

Definition add_rdr (st : qst) (rd : rdr) : qst := set_tbr st (tbr st) (maxdet st) (rdrs st ++ [rd]).

Definition dead_rdr : rdr := {| r_tgt := 0; r_bad := false; r_open := false |}.

Definition can_open (st : qst) (k : Z) : bool :=
  match pcs st with
  | Idle => (0 <=? k) && (k <? Z.of_nat (length (blocks st))) && negb (hidden st k)
  | _ => false
  end.

(** Get(location) under the read lock on the probe of live block k: the
    callback's boundary is totalBlocksReleased + BlockIndex + 1. *)
Definition open (st : qst) (k : Z) (bad : bool) : qst :=
  if can_open st k
  then add_rdr st {| r_tgt := rel st + k + 1; r_bad := bad; r_open := true |}
  else add_rdr st dead_rdr.

Definition start (st : qst) (sz : Z) : qst :=
  match pcs st with
  | Idle =>
      {| rel := rel st; tbr := tbr st; old := old st; cur := cur st; new := new st; blocks := blocks st;
         att := att st; aidx := aidx st; rdrs := rdrs st; puts := puts st; pcs := PStart sz;
         maxdet := maxdet st; pstart := tbr st |}
  | _ => st
  end.

Definition finish (st : qst) : qst :=
  match pcs st with PDone _ _ => set_pc st Idle | _ => st end.

(** Put's finalizer (under the lock): 13 when the block is at or below the
    boundary, else the relative block index of the new location. *)
Definition fin_obs (st : qst) (w : nat) : Z * Z :=
  match nth_error (puts st) w with
  | Some a => if a <? tbr st then (13, 0) else (0, a - rel st)
  | None => (-1, 0)
  end.

Inductive ev :=
| EStart (sz : Z)
| EPut
| EEnd
| EOpen (k : Z) (bad : bool)
| EDetect (r : nat).

Definition step (c : qcfg) (st : qst) (e : ev) : qst :=
  match e with
  | EStart sz => start st sz
  | EPut => put_step c st
  | EEnd => finish st
  | EOpen k bad => open st k bad
  | EDetect r => detect st r
  end.

Definition run_evs (c : qcfg) (st : qst) (es : list ev) : qst := fold_left (step c) es st.
