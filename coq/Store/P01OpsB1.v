(** C01 proofs: general helper lemmas for P01OpsB (claims, pairwise, lookup,
    shapes of block lists), and the structural lemmas [DInv_drop] / [DInv_perm]. *)
From Coq Require Import List NArith ZArith Bool Arith Lia Permutation ZifyN ZifyNat ZifyBool.
From BBS Require Import Store.Model Store.Wf Store.P01Inv.
Import ListNotations.
Open Scope N_scope.

(** ---- slices ---- *)
Lemma slice_eq b o n : slice b o n = firstn n (skipn o b).
Proof. destruct b; reflexivity. Qed.

Lemma skipn_add {T} a b (l : list T) : skipn (a + b) l = skipn b (skipn a l).
Proof.
  revert l; induction a as [|a IH]; intros l; simpl; [reflexivity|].
  destruct l as [|x l]; [now rewrite skipn_nil|apply IH].
Qed.

Lemma slice_slice x a m b n :
  (b + n <= m)%nat -> slice (slice x a m) b n = slice x (a + b) n.
Proof.
  intros H. rewrite !slice_eq, skipn_add, skipn_firstn_comm, firstn_firstn.
  f_equal. lia.
Qed.

Lemma slice_length x a n : (a + n <= length x)%nat -> length (slice x a n) = n.
Proof. intros H. rewrite slice_eq, firstn_length, skipn_length. lia. Qed.

Lemma slice_length_le x a n : (length (slice x a n) <= n)%nat.
Proof. rewrite slice_eq, firstn_length. lia. Qed.

Lemma slice_all x : slice x 0 (length x) = x.
Proof. rewrite slice_eq. simpl. apply firstn_all. Qed.

(** ---- claims: reference counts ---- *)
Lemma nrefs_cons uid c cl : nrefs uid (c :: cl) = (cref uid c + nrefs uid cl)%nat.
Proof. reflexivity. Qed.

Lemma nrefs_perm uid cl cl' : Permutation cl cl' -> nrefs uid cl = nrefs uid cl'.
Proof. induction 1; rewrite ?nrefs_cons in *; lia. Qed.

Lemma nrefs_zero_in uid cl c : nrefs uid cl = 0%nat -> In c cl -> cref uid c = 0%nat.
Proof.
  induction cl as [|a cl IH]; simpl; intros H Hi; [contradiction|].
  rewrite nrefs_cons in H. destruct Hi as [->|Hi]; [lia|apply IH; [lia|exact Hi]].
Qed.

Lemma cref_le1 uid c : (cref uid c <= 1)%nat.
Proof. destruct c; simpl; try destruct (Nat.eqb _ _); lia. Qed.

Lemma cref_self_cw wr acc : cref (wr_uid wr) (CW wr acc) = 1%nat.
Proof. simpl. now rewrite Nat.eqb_refl. Qed.

Lemma cref_self_cr u l o : cref u (CR u l o) = 1%nat.
Proof. simpl. now rewrite Nat.eqb_refl. Qed.

Lemma cref_one_uid uid c : cref uid c = 1%nat -> c_uid c = uid.
Proof.
  destruct c; simpl; try discriminate;
    (destruct (Nat.eqb _ _) eqn:E; [intros _; now apply Nat.eqb_eq|discriminate]).
Qed.

(** ---- range disjointness ---- *)
Lemma rdisj_sym o1 s1 o2 s2 : rdisj o1 s1 o2 s2 -> rdisj o2 s2 o1 s1.
Proof. unfold rdisj; tauto. Qed.

Lemma cdisj_sym a b : cdisj a b -> cdisj b a.
Proof.
  unfold cdisj. intros H H1 H2. rewrite orb_comm in H1.
  apply rdisj_sym, H; [exact H1|now symmetry].
Qed.

(** ---- pairwise ---- *)
Lemma pairwise_perm {T} (R : T -> T -> Prop) (Rs : forall a b, R a b -> R b a) l l' :
  Permutation l l' -> pairwise R l -> pairwise R l'.
Proof.
  induction 1 as [|x l l' HP IH|x y l|l l' l'' _ IH1 _ IH2]; simpl.
  - auto.
  - intros [H1 H2]. split; [|auto].
    intros y Hy. apply H1. eapply Permutation_in; [apply Permutation_sym; exact HP|exact Hy].
  - intros [H1 [H2 H3]]. split; [|split; [|exact H3]].
    + intros z [<-|Hz]; [apply Rs, H1; now left|now apply H2].
    + intros z Hz. apply H1. now right.
  - auto.
Qed.

Lemma pairwise_in {T} (R : T -> T -> Prop) l x y :
  pairwise R l -> In x l -> In y l -> x <> y -> R x y \/ R y x.
Proof.
  induction l as [|a l IH]; simpl; [contradiction|].
  intros [H1 H2] [->|Hx] [->|Hy] Hne.
  - congruence.
  - left; auto.
  - right; auto.
  - auto.
Qed.

(** ---- block lookup ---- *)
Lemma find_uid_some uid l b : find_uid uid l = Some b -> In b l /\ b_uid b = uid.
Proof.
  induction l as [|a l IH]; simpl; [discriminate|].
  destruct (Nat.eqb (b_uid a) uid) eqn:E.
  - intros H; inversion H; subst. split; [now left|now apply Nat.eqb_eq].
  - intros H. destruct (IH H). split; [now right|assumption].
Qed.

Lemma find_uid_none uid l : find_uid uid l = None -> forall b, In b l -> b_uid b <> uid.
Proof.
  induction l as [|a l IH]; simpl; [contradiction|].
  destruct (Nat.eqb (b_uid a) uid) eqn:E; [discriminate|].
  intros H b [<-|Hb]; [now apply Nat.eqb_neq|now apply IH].
Qed.

Lemma find_uid_none_intro uid l : (forall b, In b l -> b_uid b <> uid) -> find_uid uid l = None.
Proof.
  induction l as [|a l IH]; simpl; [reflexivity|]. intros H.
  destruct (Nat.eqb (b_uid a) uid) eqn:E.
  - apply Nat.eqb_eq in E. exfalso. apply (H a); auto.
  - apply IH. intros b Hb. apply H. now right.
Qed.

Definition cr (b : block) : N * nat := (b_cursor b, b_region b).

Lemma binfo_alt s uid :
  binfo s uid = match option_map cr (find_uid uid (s_blocks s)) with
                | Some x => Some x
                | None => option_map cr (find_uid uid (s_zombies s))
                end.
Proof.
  unfold binfo, find_block.
  destruct (find_uid uid (s_blocks s)); simpl; [reflexivity|].
  destruct (find_uid uid (s_zombies s)); reflexivity.
Qed.

Lemma binfo_in s uid cur reg :
  binfo s uid = Some (cur, reg) ->
  exists b, In b (live s) /\ b_uid b = uid /\ b_cursor b = cur /\ b_region b = reg.
Proof.
  unfold binfo, find_block, live.
  destruct (find_uid uid (s_blocks s)) as [b|] eqn:E1.
  - intros H; inversion H; subst. apply find_uid_some in E1. destruct E1.
    exists b. rewrite in_app_iff. auto.
  - destruct (find_uid uid (s_zombies s)) as [b|] eqn:E2; [|discriminate].
    intros H; inversion H; subst. apply find_uid_some in E2. destruct E2.
    exists b. rewrite in_app_iff. auto.
Qed.

Lemma uid_at_in s abs uid :
  uid_at s abs = Some uid -> exists b, In b (s_blocks s) /\ b_uid b = uid.
Proof.
  unfold uid_at. destruct (abs <? s_released s); [discriminate|].
  destruct (nth_error _ _) as [b|] eqn:E; [|discriminate].
  intros H; inversion H; subst. exists b. split; [eapply nth_error_In; eauto|reflexivity].
Qed.

Lemma uid_at_bounds s abs uid :
  uid_at s abs = Some uid -> s_released s <= abs /\ abs < abs_end s.
Proof.
  unfold uid_at, abs_end. destruct (abs <? s_released s) eqn:E; [discriminate|].
  destruct (nth_error _ _) as [b|] eqn:E2; [|discriminate]. intros _.
  assert (N.to_nat (abs - s_released s) < length (s_blocks s))%nat
    by (apply nth_error_Some; congruence).
  lia.
Qed.

(** ---- the views only depend on lengths / shapes ---- *)
Lemma loc_valid_abs s l l' : l_abs l' = l_abs l -> loc_valid s l' = loc_valid s l.
Proof. unfold loc_valid. now intros ->. Qed.

Lemma loc_valid_bounds s l : loc_valid s l = true -> s_tbr s <= l_abs l /\ l_abs l < abs_end s.
Proof. unfold loc_valid, abs_end. lia. Qed.

(** ---- DInv_drop ---- *)
Lemma UInv_drop c cl s : UInv (c :: cl) s -> UInv cl s.
Proof.
  intros [H1 H2]. constructor.
  - intros b Hb. specialize (H1 b Hb). rewrite nrefs_cons in H1. lia.
  - intros b Hb. specialize (H2 b Hb). rewrite nrefs_cons in H2. lia.
Qed.

Lemma CInv_drop w c cl s : CInv w (c :: cl) s -> CInv w cl s.
Proof.
  intros [H1 H2 H3 H4]. constructor.
  - intros c' Hc. apply H1. now right.
  - exact H2.
  - exact (proj2 H3).
  - intros wr acc k l Hc. apply (H4 wr acc k l). now right.
Qed.

Lemma DInv_drop : forall w c cl s, DInv w (c :: cl) s -> DInv w cl s.
Proof.
  intros w c cl s [HA HU HC]. constructor;
    [exact HA|eapply UInv_drop; eauto|eapply CInv_drop; eauto].
Qed.

(** ---- DInv_perm ---- *)
Lemma DInv_perm : forall w cl cl' s, Permutation cl cl' -> DInv w cl s -> DInv w cl' s.
Proof.
  intros w cl cl' s HP [HA [HU1 HU2] [H1 H2 H3 H4]].
  assert (HP' : Permutation cl' cl) by now apply Permutation_sym.
  constructor; [exact HA| |].
  - constructor.
    + intros b Hb. rewrite <- (nrefs_perm _ _ _ HP). now apply HU1.
    + intros b Hb. rewrite <- (nrefs_perm _ _ _ HP). now apply HU2.
  - constructor.
    + intros c Hc. apply H1. eapply Permutation_in; eauto.
    + exact H2.
    + eapply pairwise_perm; [exact cdisj_sym|exact HP|exact H3].
    + intros wr acc k l Hc. apply (H4 wr acc k l). eapply Permutation_in; eauto.
Qed.
