(** C05, idempotence part 3b: clauses 2 (repeated Get) and 3 (repeated
    FindMissing with at most one digest present) are never reported on the
    model's own observations with the model's own write indication: the
    inductive invariant relating the monitor's bookkeeping ([t_gets],
    [t_prev]) to the model state. *)
From Coq Require Import List NArith ZArith Bool Arith Lia Relations.
From Coq Require Import ZifyN ZifyNat ZifyBool.
From BBS Require Import Common.Sx Common.SxFactsMA Store.Model Store.Wf Store.WfTids Run.RStore Run.R01 Run.R05.
From BBS Require Import Store.P05Cnt Store.P05Frame Store.P05Ops Store.P05Step Store.P05Surv Store.P05Mon
                        Store.P05Inv Store.P05Main Store.P05Touch.
From BBS Require Import Store.P05WInv Store.P05WRep Store.P05WMonA Store.P05WEnd Store.P05WFm Store.P05WFm2.
Import ListNotations.
Open Scope Z_scope.

(** a pending copy completed by a successful consumption settles the object *)
Lemma consume_settles w sa tid o u l wr f o' i' sb bytes :
  kinv (w_cfg w) (proj sa) -> (c_hier (w_cfg w) = true -> hinv sb) ->
  thr_get (s_threads sa) tid = Some (TGet o u l (Some wr) f) ->
  (exists k, In k f /\ In k (lookup_keys w o' i')) ->
  knonold (proj sa) (wr_abs wr) -> (wr_abs wr < k_end (proj sa))%N ->
  step w sa (OGetConsume tid) = (sb, Done cOK bytes) ->
  s_pushbacks sb = s_pushbacks sa ->
  settled w sb o' i'.
Proof.
  intros Ka HHb TH (k & KF & KL) NO B2 EC PB.
  destruct (step_creach w sa (OGetConsume tid) Ka) as [Rab _]. rewrite EC in Rab. cbn [fst] in Rab.
  destruct (step_getconsume w sa tid sb _ EC) as [[X _]|(o0 & u0 & l0 & r0 & f0 & code & bs & s0' & HT' & GC & -> & X)];
    [discriminate|].
  rewrite TH in HT'. inversion HT'; subst o0 u0 l0 r0 f0. inversion X; subst code bs.
  apply get_consume_spec in GC. destruct GC as (_ & HR).
  destruct (HR eq_refl wr eq_refl) as (nl & A1 & A2 & A3).
  exists k, nl. split; [exact KL|]. split; [apply A3, KF|]. split.
  - intros Hh. destruct (lookup_keys_hier w o' i' k Hh KL) as (a & ->).
    refine (proj1 (HHb Hh) _ _ _ _). apply A3, KF.
  - split.
    + apply (creach_nonold _ _ _ (l_abs nl) Rab); [exact PB|]. rewrite A1. exact NO.
    + pose proof (creach_mono _ _ _ Rab) as M. unfold kmono, k_end in M. cbn in M.
      unfold k_end in B2. cbn in B2. cbn. lia.
Qed.

Section PI.
Variable w : world.
Let c := w_cfg w.

(** what the bookkeeping knows about a reader opened for [oi] at push-back
    count [pb], as long as no block has been pushed back since *)
Definition GI (s : state) (oi : nat * nat) (pb : nat) (t : thread) : Prop :=
  s_pushbacks s = pb ->
  match t with
  | TGet _ _ _ None _ => settled w s (fst oi) (snd oi)
  | TGet _ _ _ (Some wr) f =>
      (exists k, In k f /\ In k (lookup_keys w (fst oi) (snd oi))) /\
      knonold (proj s) (wr_abs wr) /\ (wr_abs wr < k_end (proj s))%N
  | _ => True
  end.

Definition GetsOK (seen : list nat) (s : state) (gl : list (nat * ((nat * nat) * nat))) : Prop :=
  (forall tid oi pb, assoc gl tid = Some (oi, pb) -> (pb <= s_pushbacks s)%nat) /\
  (forall tid oi pb t, assoc gl tid = Some (oi, pb) -> thr_get (s_threads s) tid = Some t -> GI s oi pb t) /\
  (forall tid, assoc gl tid <> None -> In tid seen).

Definition PrevInv (s : state) (p : option (op * bool * Z)) : Prop :=
  match p with
  | Some (OGetOpen tid o i, true, pbo) =>
      pbo <= Z.of_nat (s_pushbacks s) /\ (Z.of_nat (s_pushbacks s) <= pbo -> settled w s o i)
  | Some (OGetOpen tid o i, false, wz) => 0 <= wz -> wz = 0 /\ pending_refresh s tid = false
  | Some (OFindMissing ds, true, _) =>
      FMI w s ds \/ (exists pos o i, nth_error ds pos = Some (o, i) /\ LSF w s o i)
  | _ => True
  end.

Record PI (seen : list nat) (s : state) (m : m05) : Prop := {
  pi_kinv : kinv c (proj s);
  pi_hinv : c_hier c = true -> hinv s;
  pi_einv : einv s;
  pi_gets : GetsOK seen s (t_gets m);
  pi_prev : PrevInv s (t_prev m);
  pi_no2 : ~ In 2 (t_viol m);
  pi_no3 : ~ In 3 (t_viol m) }.

Lemma GI_frame s s1 oi pb t :
  creach c (proj s) (proj s1) -> incl (s_index s) (s_index s1) -> (pb <= s_pushbacks s)%nat ->
  GI s oi pb t -> GI s1 oi pb t.
Proof.
  intros R IN LE G E1.
  pose proof (creach_mono _ _ _ R) as M. unfold kmono, k_end in M. cbn in M.
  assert (E0 : s_pushbacks s = pb) by lia. specialize (G E0).
  destruct t as [? ? ? ?|? ? ?|o u l [wr|] f|? ? ? ? ? ?|?]; try exact I.
  - destruct G as (A & B & C). split; [exact A|]. split.
    + apply (creach_nonold _ _ _ _ R); [cbn; lia|exact B].
    + unfold k_end in *. cbn in *. lia.
  - eapply settled_frame; eauto. lia.
Qed.

Lemma GetsOK_frame seen seen' s s1 gl e :
  GetsOK seen s gl -> SF c e s s1 ->
  (forall tid, start_tid e = Some tid -> ~ In tid seen) -> incl seen seen' ->
  GetsOK seen' s1 gl.
Proof.
  intros (G1 & G2 & G3) (R & IN & TF) FR IS.
  pose proof (creach_mono _ _ _ R) as M. unfold kmono in M. cbn in M.
  split; [|split].
  - intros tid oi pb H. specialize (G1 tid oi pb H). lia.
  - intros tid oi pb t HA HT.
    destruct t as [? ? ? ?|? ? ?|o u l r f|? ? ? ? ? ?|?]; try (intros _; exact I).
    destruct (TF tid o u l r f HT) as [HT0|HS].
    + eapply GI_frame; eauto.
    + exfalso. apply (FR tid HS). apply G3. rewrite HA. discriminate.
  - intros tid H. apply IS, G3, H.
Qed.

Lemma assoc_unassoc_none {T} (l : list (nat * T)) tid tid' :
  assoc (unassoc l tid) tid' <> None -> assoc l tid' <> None.
Proof.
  destruct (assoc (unassoc l tid) tid') as [x|] eqn:E; [|congruence].
  intros _. rewrite (assoc_unassoc _ _ _ _ E). discriminate.
Qed.

Lemma GetsOK_unassoc seen s gl tid : GetsOK seen s gl -> GetsOK seen s (unassoc gl tid).
Proof.
  intros (G1 & G2 & G3). split; [|split].
  - intros tid' oi pb H. eapply G1. eapply assoc_unassoc; eauto.
  - intros tid' oi pb t H. eapply G2. eapply assoc_unassoc; eauto.
  - intros tid' H. apply G3. eapply assoc_unassoc_none; eauto.
Qed.

Lemma GetsOK_cons seen s gl tid oi :
  GetsOK seen s gl ->
  (forall t, thr_get (s_threads s) tid = Some t -> GI s oi (s_pushbacks s) t) ->
  GetsOK (tid :: seen) s ((tid, (oi, s_pushbacks s)) :: gl).
Proof.
  intros (G1 & G2 & G3) GN. split; [|split].
  - intros tid' oi' pb. cbn [assoc]. destruct (Nat.eqb tid' tid).
    + intros E; inversion E; subst. lia.
    + apply G1.
  - intros tid' oi' pb t. cbn [assoc]. destruct (Nat.eqb tid' tid) eqn:E.
    + apply Nat.eqb_eq in E. subst tid'. intros E; inversion E; subst. apply GN.
    + apply G2.
  - intros tid'. cbn [assoc]. destruct (Nat.eqb tid' tid) eqn:E.
    + apply Nat.eqb_eq in E. subst. intros _. left. reflexivity.
    + intros H. right. apply G3, H.
Qed.

Lemma GetsOK_mono seen seen' s gl : incl seen seen' -> GetsOK seen s gl -> GetsOK seen' s gl.
Proof. intros IS (G1 & G2 & G3). split; [exact G1|]. split; [exact G2|]. intros tid H. apply IS, G3, H. Qed.

Lemma loss_vals m oi pb z : In z (loss_clauses w m oi pb) -> z = 1 \/ z = 5 \/ z = 6.
Proof.
  unfold loss_clauses. destruct (t_corrupt m); [intros []|].
  destruct (recent w (t_touched m) oi pb); [intros [<-|[]]; auto|].
  intros H. apply in_app_or in H. destruct H as [H|H].
  - destruct (recent w (t_late_get m) oi pb); [destruct H as [<-|[]]; auto|destruct H].
  - destruct (recent w (t_late_fm m) oi pb); [destruct H as [<-|[]]; auto|destruct H].
Qed.

(** ---- FindMissing ---- *)
Lemma fmi_quiet s ds r s' : FMI w s ds -> find_missing w s ds = (r, s') -> quiet s s'.
Proof.
  intros HF H. unfold find_missing in H. eapply settled_fm_phase2; [|exact H].
  intros pos o i Hin. apply filter_In in Hin. destruct Hin as [Hin HF2].
  apply enumerate_in in Hin. destruct Hin as [_ Hn]. apply nth_error_In in Hn.
  destruct (HF o i Hn) as [ST|LN]; [exact ST|]. cbn in HF2. rewrite LN in HF2. discriminate.
Qed.

Lemma app_eq_len {T} : forall (a a' b b' : list T), length a = length a' -> a ++ b = a' ++ b' -> a = a' /\ b = b'.
Proof.
  induction a as [|x a IH]; intros [|x' a'] b b' L E; cbn in *; try discriminate; [auto|].
  inversion E; subst. destruct (IH a' b b') as [-> ->]; auto.
Qed.
Lemma pairs_eq (ds ds' : list (nat * nat)) : map fst ds = map fst ds' -> map snd ds = map snd ds' -> ds = ds'.
Proof.
  revert ds'. induction ds as [|[a b] t IH]; intros [|[a' b'] t'] E1 E2; cbn in *; try discriminate; [reflexivity|].
  inversion E1; inversion E2; subst. f_equal. apply IH; auto.
Qed.
Lemma digests_eq (ds ds' : list (nat * nat)) :
  sx_eqb (of_nats (map fst ds ++ map snd ds)) (of_nats (map fst ds' ++ map snd ds')) = true -> ds = ds'.
Proof.
  intros H. apply sx_eqb_eq in H. unfold of_nats in H. inversion H as [H1]. clear H.
  assert (INJ : forall a b : list nat, map of_nat a = map of_nat b -> a = b).
  { induction a as [|x a IH]; intros [|y b] E; try discriminate; [reflexivity|].
    cbn in E. inversion E as [[E1 E2]]. apply Nat2Z.inj in E1. subst. f_equal. apply IH, E2. }
  apply INJ in H1.
  assert (LN : length (map fst ds) = length (map fst ds')).
  { apply (f_equal (@length nat)) in H1. rewrite !app_length, !map_length in H1. rewrite !map_length. lia. }
  destruct (app_eq_len _ _ _ _ LN H1) as [E1 E2]. apply pairs_eq; auto.
Qed.

(** ---- the step ---- *)
Lemma PI_step seen s m e :
  PI seen s m ->
  (forall tid, start_tid e = Some tid -> ~ In tid seen) ->
  PI (match start_tid e with Some t => t :: seen | None => seen end) (fst (step w s e))
     (m05w_step w m (e, (s, fst (step w s e), snd (step w s e)))).
Proof.
  intros [K HH EI G P N2 N3] FR.
  destruct (step w s e) as [s1 mo] eqn:ES. cbn [fst snd].
  pose proof (step_frame w s e s1 mo K ES) as SFr.
  assert (K1 : kinv c (proj s1)) by (eapply creach_kinv; [exact (proj1 SFr)|exact K]).
  assert (HH1 : c_hier c = true -> hinv s1) by (intros Hh; eapply step_hinv; eauto).
  assert (EI1 : einv s1) by (eapply step_einv; eauto).
  pose proof (creach_mono _ _ _ (proj1 SFr)) as MO. unfold kmono in MO. cbn in MO.
  set (seen' := match start_tid e with Some t => t :: seen | None => seen end).
  assert (IS : incl seen seen') by (unfold seen'; destruct (start_tid e); [apply incl_tl|]; apply incl_refl).
  assert (G0 : GetsOK seen s1 (t_gets m)) by (eapply GetsOK_frame; eauto; apply incl_refl).
  pose proof (GetsOK_mono _ _ _ _ IS G0) as G1.
  (* an event answered Bad by an operation other than Get / FindMissing / Corrupt keeps the bookkeeping *)
  assert (OTHER : forall m1,
            m1 = (if Z.eqb (ob_kind (enc_obs05 w e s s1 mo)) 3 then m else m_setprev m None) ->
            PI seen' s1 m1).
  { intros m1 ->. rewrite obk. destruct mo; cbn [out_kind]; cbn [Z.eqb Pos.eqb];
      try (constructor; cbn [t_gets t_prev t_viol m_setprev]; auto; exact I).
    pose proof (step_bad_same w s e s1 K ES) as ->. constructor; auto. }
  unfold m05w_step.
  destruct e as [tid o i|tid data|tid err|tid o i|tid|ds|tid p i ch|tid slices|r off len];
    try (apply OTHER; reflexivity).
  - (* OGetOpen *)
    cbn [m05_step]. rewrite obk, obc, obw.
    destruct mo as [code bytes| |code dd|]; cbn [out_kind out_code]; cbn [Z.eqb Pos.eqb].
    + (* Done *)
      constructor; auto; cbn [t_gets t_prev t_viol m_setprev].
      * destruct (Z.eqb code cNotFound); exact G1.
      * exact I.
      * destruct (Z.eqb code cNotFound); [|exact N2]. cbn [t_viol m_viol]. intros H.
        apply in_app_or in H. destruct H as [H|H]; [exact (N2 H)|]. apply loss_vals in H. lia.
      * destruct (Z.eqb code cNotFound); [|exact N3]. cbn [t_viol m_viol]. intros H.
        apply in_app_or in H. destruct H as [H|H]; [exact (N3 H)|]. apply loss_vals in H. lia.
    + (* Parked *)
      destruct (step_getopen w s tid o i s1 Parked ES) as [[X _]|[(e0 & _ & X)|(t & s0 & GO & -> & _)]];
        try discriminate.
      pose proof GO as GO'. apply get_open_spec in GO'; [|exact K]. destruct GO' as (_ & _ & HP).
      destruct (HP t eq_refl) as (u & l & r & f & -> & HP').
      constructor; auto; cbn [t_gets t_prev t_viol m_setprev m_setgets].
      * (* gets *)
        change seen' with (tid :: seen).
        apply GetsOK_cons; [exact G0|].
        intros t'. rewrite thr_get_set, Nat.eqb_refl. intros E; inversion E; subst t'. intros _.
        destruct r as [wr|]; cbn [fst snd].
        -- destruct HP' as (A & B1 & B2). split; [exact A|]. split; [|exact B2].
           unfold knonold. unfold k_end in B2. cbn in B1, B2 |- *. lia.
        -- destruct HP' as (T & PL & KF). eapply settled_of_placed; eauto.
      * (* prev *)
        destruct (t_prev m) as [[[pe pb0] pw]|]; [|exact I].
        destruct pe; try exact I. destruct pb0; [|exact I].
        destruct (Nat.eqb o obj && Nat.eqb i inst && (0 <=? (wbit w (OGetOpen tid o i) s (thr_set s0 tid (TGet o u l r f))))) eqn:C3;
          [|exact I].
        apply andb_true_iff in C3. destruct C3 as [C3 _]. apply andb_true_iff in C3. destruct C3 as [C1 C2].
        apply Nat.eqb_eq in C1, C2. subst obj inst.
        cbn [PrevInv]. cbn [PrevInv] in P. destruct P as [P1 P2].
        destruct (pw <? Z.of_nat (s_pushbacks s)) eqn:AG.
        -- intros H. destruct (wbit_range w (OGetOpen tid o i) s (thr_set s0 tid (TGet o u l r f))) as [W|W]; rewrite W in H; lia.
        -- intros _. apply Z.ltb_ge in AG. specialize (P2 AG).
           destruct (settled_step_get_open w s tid o i _ Parked P2 ES) as [Q PR].
           split; [|apply PR; reflexivity].
           unfold wbit. rewrite (wrote_open_quiet w s tid o i _ Q). reflexivity.
    + (* Missing: not produced by OGetOpen, handled uniformly *)
      constructor; auto; cbn [t_gets t_prev t_viol m_setprev].
      * destruct (Z.eqb code cNotFound); exact G1.
      * exact I.
      * destruct (Z.eqb code cNotFound); [|exact N2]. cbn [t_viol m_viol]. intros H.
        apply in_app_or in H. destruct H as [H|H]; [exact (N2 H)|]. apply loss_vals in H. lia.
      * destruct (Z.eqb code cNotFound); [|exact N3]. cbn [t_viol m_viol]. intros H.
        apply in_app_or in H. destruct H as [H|H]; [exact (N3 H)|]. apply loss_vals in H. lia.
    + (* Bad *)
      change (Z.eqb 0 cNotFound) with false. cbv iota.
      constructor; auto; cbn [t_gets t_prev t_viol m_setprev]. exact I.
  - (* OGetConsume *)
    cbn [m05_step]. rewrite obok, obw.
    destruct (assoc (t_gets m) tid) as [[oi pb_open]|] eqn:EA.
    2:{ constructor; auto; cbn [t_gets t_prev t_viol m_setprev]. exact I. }
    set (m1 := m_setgets m (unassoc (t_gets m) tid)).
    assert (GU : GetsOK seen' s1 (unassoc (t_gets m) tid)) by (apply GetsOK_unassoc; exact G1).
    (* the clause-2 site *)
    match goal with |- PI _ _ (if _ then m_setprev (m_late_get (m_touch ?M2 _ _) _ _) _ else _) => set (m2 := M2) end.
    assert (V2 : t_gets m2 = unassoc (t_gets m) tid /\ ~ In 2 (t_viol m2) /\ ~ In 3 (t_viol m2)).
    { unfold m2. destruct (t_prev m) as [[[pe pb0] pw]|] eqn:EP; [|cbn; auto].
      destruct pe; try (cbn; auto; fail). destruct pb0; [cbn; auto|].
      match goal with |- context [if ?C then _ else _] => destruct C eqn:CC end; [|cbn; auto].
      cbn [t_gets t_viol m_viol m1 m_setgets]. split; [reflexivity|].
      apply andb_true_iff in CC. destruct CC as [CC C4]. apply andb_true_iff in CC. destruct CC as [CC C3].
      apply andb_true_iff in CC. destruct CC as [C1 C2]. apply Nat.eqb_eq in C1. subst tid0.
      destruct (pw <? 0) eqn:AG.
      - split.
        + intros H. apply in_app_or in H. destruct H as [H|[H|[]]]; [exact (N2 H)|discriminate].
        + intros H. apply in_app_or in H. destruct H as [H|[H|[]]]; [exact (N3 H)|discriminate].
      - exfalso. apply Z.ltb_ge in AG. try rewrite EP in P. cbn [PrevInv] in P. destruct (P AG) as [-> PR].
        destruct mo as [cd bs| |cd dd|]; try discriminate.
        apply Z.ltb_lt in C4. unfold wbit in C4. cbn [wrote] in C4. rewrite PR in C4. cbn in C4. lia. }
    destruct V2 as (VG & V2 & V3).
    destruct (out_ok mo) eqn:OK.
    + constructor; auto; cbn [t_gets t_prev t_viol m_setprev m_late_get m_touch].
      * rewrite VG. exact GU.
      * (* prev: the Get of oi completed successfully *)
        cbn [PrevInv]. destruct G as (Ga & Gb & Gc).
        pose proof (Ga tid oi pb_open EA) as LE0.
        split; [lia|]. intros LE1.
        destruct mo as [cd bs| |cd dd|]; try discriminate. cbn [out_ok] in OK. apply Z.eqb_eq in OK. subst cd.
        destruct (step_getconsume w s tid s1 _ ES) as [[X _]|(o' & u' & l' & r' & f' & code & bs' & s0' & HT' & GC & E1 & X)];
          [discriminate|].
        assert (PBs : s_pushbacks s = pb_open) by lia.
        pose proof (Gb tid oi pb_open _ EA HT' PBs) as GIb.
        destruct r' as [wr|].
        -- destruct GIb as (A & B & C0). destruct oi as [oo ii]. cbn [fst snd] in *.
           eapply consume_settles with (sa := s); eauto. lia.
        -- destruct oi as [oo ii]. cbn [fst snd] in *.
           pose proof (settled_step w s (OGetConsume tid) oo ii K) as SS. rewrite ES in SS. cbn [fst] in SS.
           apply SS; [lia|exact GIb].
    + constructor; auto; cbn [t_gets t_prev t_viol m_setprev].
      * rewrite VG. exact GU.
      * exact I.
  - (* OFindMissing *)
    cbn [m05_step]. rewrite obk, obc, obw.
    destruct mo as [code bytes| |code mm|]; cbn [out_kind]; cbn [Z.eqb Pos.eqb andb];
      try (constructor; auto; cbn [t_gets t_prev t_viol m_setprev]; exact I).
    cbn [out_code]. destruct (Z.eqb code 0) eqn:C0;
      [|constructor; auto; cbn [t_gets t_prev t_viol m_setprev]; exact I].
    apply Z.eqb_eq in C0. subst code. rewrite obmiss. cbv zeta.
    match goal with |- PI _ _ (m_setprev (fold_left ?F ?L ?M2) _) => set (m2 := M2); set (ff := F); set (ll := L) end.
    assert (FOLD : forall l a, t_gets (fold_left ff l a) = t_gets a /\ t_viol (fold_left ff l a) = t_viol a).
    { induction l as [|[pos oi] l IHl]; intros a; cbn [fold_left]; [auto|].
      destruct (IHl (ff a (pos, oi))) as [A B]. rewrite A, B. unfold ff.
      destruct (existsb (Nat.eqb pos) mm); [auto|]. unfold m_touch_fm.
      destruct (Nat.ltb 1 (length ds)); cbn; auto. }
    destruct (FOLD ll m2) as [FG FV].
    assert (V2 : t_gets m2 = t_gets m /\ ~ In 2 (t_viol m2) /\ ~ In 3 (t_viol m2)).
    { unfold m2.
      set (ls := flat_map (fun '(pos, oi) => if existsb (Nat.eqb pos) mm then loss_clauses w m oi (s_pushbacks s1) else [])
                          (enumerate 0 ds)).
      assert (LS : forall z, In z ls -> z = 1 \/ z = 5 \/ z = 6).
      { intros z Hz. unfold ls in Hz. apply in_flat_map in Hz. destruct Hz as [[pos oi] [_ Hz]].
        destruct (existsb (Nat.eqb pos) mm); [eapply loss_vals; eauto|destruct Hz]. }
      assert (B2 : ~ In 2 (t_viol (m_viol m ls))).
      { cbn. intros H. apply in_app_or in H. destruct H as [H|H]; [exact (N2 H)|]. apply LS in H. lia. }
      assert (B3 : ~ In 3 (t_viol (m_viol m ls))).
      { cbn. intros H. apply in_app_or in H. destruct H as [H|H]; [exact (N3 H)|]. apply LS in H. lia. }
      destruct (t_prev m) as [[[pe pb0] pw]|] eqn:EP; [|cbn; auto].
      destruct pe; try (cbn; auto; fail). destruct pb0; [|cbn; auto].
      match goal with |- context [if ?C then _ else _] => destruct C eqn:CC end; [|cbn; auto].
      apply andb_true_iff in CC. destruct CC as [C1 C2].
      cbn [t_gets t_viol m_viol]. split; [reflexivity|]. split.
      - intros H. apply in_app_or in H. destruct H as [H|[H|[]]]; [exact (B2 H)|].
        destruct (Nat.leb (length ds - length mm) 1); discriminate.
      - intros H. apply in_app_or in H. destruct H as [H|[H|[]]]; [exact (B3 H)|].
        exfalso.
        pose proof (digests_eq ds ds0 C1) as <-.
        try rewrite EP in P. cbn [PrevInv] in P.
        apply Z.ltb_lt in C2. unfold wbit in C2.
        destruct (wrote w s (OFindMissing ds) s1) eqn:WR; [|lia]. cbn [wrote] in WR.
        assert (NS : sigs s1 <> sigs s).
        { intros E. rewrite (alloc_grew_false _ _ E) in WR. discriminate. }
        destruct (step_fm w s ds s1 _ ES) as [[X _]|[(e0 & FE & X)|(m0 & FM & X)]]; [discriminate| |].
        + inversion X; subst. apply find_missing_err in FE; [|exact K]. apply FE. reflexivity.
        + inversion X; subst mm.
          destruct P as [P|(pos & o & i & PN & PL)].
          * apply fmi_quiet in FM; [|exact P]. apply NS, FM.
          * pose proof (repeat_call_count w s ds m0 s1 pos o i (conj K (conj EI HH)) PN PL FM NS) as CNT.
            rewrite length_sort_nat in H.
            assert (L1 : Nat.leb (length ds - length m0) 1 = false) by (apply Nat.leb_gt; lia).
            rewrite L1 in H. discriminate. }
    destruct V2 as (VG & V2 & V3).
    constructor; auto; cbn [t_gets t_prev t_viol m_setprev].
    + rewrite FG, VG. exact G1.
    + cbn [PrevInv].
      destruct (step_fm w s ds s1 _ ES) as [[X _]|[(e0 & FE & X)|(m0 & FM & X)]]; [discriminate| |].
      * inversion X; subst. apply find_missing_err in FE; [|exact K]. exfalso. apply FE. reflexivity.
      * exact (find_missing_leaves w s ds m0 s1 (conj K (conj EI HH)) FM).
    + rewrite FV. exact V2.
    + rewrite FV. exact V3.
  - (* OCorrupt *)
    cbn [m05_step]. constructor; auto; cbn [t_gets t_prev t_viol m_setcorrupt]. exact I.
Qed.

Lemma PI_init : PI [] (init_state c) m05_init.
Proof.
  constructor; cbn.
  - apply kinv_init.
  - intros _. apply hinv_init.
  - apply einv_init.
  - split; [|split]; intros; try discriminate. cbn in H. congruence.
  - exact I.
  - intros [].
  - intros [].
Qed.

Lemma PI_run : forall es seen s m,
  PI seen s m -> wf_tids_from seen es = true ->
  let m' := fold_left (m05w_step w) (xs_of w s es) m in
  ~ In 2 (t_viol m') /\ ~ In 3 (t_viol m').
Proof.
  induction es as [|e t IH]; intros seen s m HP WT; cbv zeta.
  - split; [apply (pi_no2 _ _ _ HP)|apply (pi_no3 _ _ _ HP)].
  - rewrite xs_of_cons. cbn [fold_left]. cbn [wf_tids_from] in WT.
    assert (FR : forall tid, start_tid e = Some tid -> ~ In tid seen).
    { intros tid E. rewrite E in WT. apply andb_true_iff in WT. destruct WT as [WT _].
      apply negb_true_iff in WT. intros HI. apply (proj2 (existsb_eqb_in tid seen)) in HI. congruence. }
    pose proof (PI_step seen s m e HP FR) as H1.
    eapply IH; [exact H1|].
    destruct (start_tid e); [apply andb_true_iff in WT; apply WT|exact WT].
Qed.
End PI.
