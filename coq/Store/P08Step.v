(** C08/C10 — what one atomic step of the store model does to the counters
    and to the set of stored index entries (step frame [sfr]), and the fact
    that a negative integrity verdict always fails the operation with
    INTERNAL.  Proofs only. *)
From Coq Require Import List NArith ZArith Bool Arith Lia ZifyN ZifyNat ZifyBool.
From BBS Require Import Store.Model Store.P08Frame.
Import ListNotations.
Open Scope N_scope.

(** step frame: the index only grows, [n] negative verdicts were counted,
    the quarantine / release counters and the top of the block list are monotone *)
Record sfr (n : nat) (s s' : state) : Prop := {
  sf_index : exists new, s_index s' = new ++ s_index s;
  sf_negs : s_negs s' = (n + s_negs s)%nat;
  sf_tbr : s_tbr s <= s_tbr s';
  sf_rel : s_released s <= s_released s';
  sf_hi : hiM s <= hiM s';
}.

Lemma sfr_refl s : sfr 0 s s.
Proof. constructor; try reflexivity; try lia. exists []. reflexivity. Qed.
Lemma sfr_trans n m a b c : sfr n a b -> sfr m b c -> sfr (m + n) a c.
Proof.
  intros [[n1 E1] ? ? ? ?] [[n2 E2] ? ? ? ?]. constructor; try lia.
  exists (n2 ++ n1). rewrite E2, E1, app_assoc. reflexivity.
Qed.
Lemma sfr_trans0n n a b c : sfr 0 a b -> sfr n b c -> sfr n a c.
Proof. intros H1 H2. pose proof (sfr_trans _ _ _ _ _ H1 H2) as H. rewrite Nat.add_0_r in H. exact H. Qed.
Lemma sfr_transn0 n a b c : sfr n a b -> sfr 0 b c -> sfr n a c.
Proof. intros H1 H2. exact (sfr_trans _ _ _ _ _ H1 H2). Qed.
Lemma sfr_afr_step n s s1 s2 : afr s1 s2 -> sfr n s s1 -> sfr n s s2.
Proof. intros [] [[nw E] ? ? ? ?]. constructor; try lia. exists nw. congruence. Qed.
Lemma sfr_xfr_step n s s1 s2 : xfr s1 s2 -> sfr n s s1 -> sfr n s s2.
Proof. intros H. apply sfr_afr_step, xfr_afr, H. Qed.
Lemma sfr_pin n s s1 u : sfr n s s1 -> sfr n s (pin s1 u).
Proof. apply sfr_xfr_step, pin_xfr. Qed.
Lemma sfr_unpin n s s1 c u : sfr n s s1 -> sfr n s (unpin c s1 u).
Proof. apply sfr_xfr_step, unpin_xfr. Qed.
Lemma sfr_write_block n s s1 u off d : sfr n s s1 -> sfr n s (write_block s1 u off d).
Proof. apply sfr_xfr_step, write_block_xfr. Qed.
Lemma sfr_index_put n s s1 k l : sfr n s s1 -> sfr n s (index_put s1 k l).
Proof. intros [[nw E] ? ? ? ?]. constructor; unfold hiM in *; cbn; try lia. exists ((k, l) :: nw). rewrite E. reflexivity. Qed.
Lemma sfr_index_put_all n s s1 ks l : sfr n s s1 -> sfr n s (index_put_all s1 ks l).
Proof. revert s1. induction ks as [|k t IH]; intros s1 H; cbn [index_put_all]; [assumption|]. apply IH, sfr_index_put, H. Qed.
Lemma sfr_thr_set n s s1 id t : sfr n s s1 -> sfr n s (thr_set s1 id t).
Proof. intros [[nw E] ? ? ? ?]. constructor; unfold hiM in *; cbn; try lia. exists nw. exact E. Qed.
Lemma sfr_thr_rm n s s1 id : sfr n s s1 -> sfr n s (thr_rm s1 id).
Proof. intros [[nw E] ? ? ? ?]. constructor; unfold hiM in *; cbn; try lia. exists nw. exact E. Qed.
Lemma sfr_upd_dev n s s1 d : sfr n s s1 -> sfr n s (upd_dev s1 d).
Proof. intros [[nw E] ? ? ? ?]. constructor; unfold hiM in *; cbn; try lia. exists nw. exact E. Qed.
Lemma sfr_finalize n s s1 c wr ok : sfr n s s1 -> sfr n s (snd (finalize c s1 wr ok)).
Proof. rewrite finalize_state. apply sfr_unpin. Qed.

Create HintDb sfr.
#[export] Hint Resolve sfr_refl sfr_pin sfr_unpin sfr_write_block sfr_index_put sfr_index_put_all
  sfr_thr_set sfr_thr_rm sfr_upd_dev sfr_afr_step sfr_xfr_step sfr_finalize : sfr.

Ltac inv H := inversion H; subst; clear H.
Ltac iinv := let H := fresh "HH" in intros H; inv H.

(** ---- detection ---- *)
Lemma read_validated_true w s o u l bytes s' :
  read_validated w s o u l = (true, bytes, s') -> s' = s.
Proof. unfold read_validated. dm; iinv. reflexivity. Qed.

Lemma read_validated_false w s o u l bytes s' :
  read_validated w s o u l = (false, bytes, s') ->
  c_validate (w_cfg w) = true /\ bytes = read_block s u (l_off l) (l_size l) /\ bytes <> content w o /\
  s' = bump_negs (upd_rel s (s_released s) (N.max (s_tbr s) (l_abs l + 1))).
Proof.
  unfold read_validated. destruct (c_validate (w_cfg w)); cbn [andb]; [|iinv].
  destruct (bytes_eqb _ _) eqn:E; cbn [negb]; iinv.
  repeat split. intros C. apply bytes_eqb_eq in C. congruence.
Qed.

(** state after a detection on [l]: only the quarantine boundary and the ghost counter move *)
Record dfr (l : loc) (s s' : state) : Prop := {
  df_index : s_index s' = s_index s;
  df_threads : s_threads s' = s_threads s;
  df_negs : s_negs s' = S (s_negs s);
  df_tbr : s_tbr s' = N.max (s_tbr s) (l_abs l + 1);
  df_rel : s_released s' = s_released s;
  df_blocks : s_blocks s' = s_blocks s;
}.
Lemma read_validated_false_dfr w s o u l bytes s' :
  read_validated w s o u l = (false, bytes, s') -> dfr l s s'.
Proof. intros H. apply read_validated_false in H as (_ & _ & _ & ->). constructor; reflexivity. Qed.
Lemma dfr_sfr l s s' : dfr l s s' -> sfr 1 s s'.
Proof. intros []. constructor; unfold hiM; try lia. exists []. assumption. rewrite df_rel0, df_blocks0. lia. Qed.

Lemma sfr_dfr_step l s s1 s2 : dfr l s1 s2 -> sfr 0 s s1 -> sfr 1 s s2.
Proof. intros H1 H2. apply dfr_sfr in H1. eapply sfr_trans0n; eassumption. Qed.

(** ---- compound operations ---- *)
Lemma open_with_refresh_sfr w s o l fk r s' : open_with_refresh w s o l fk = (r, s') -> sfr 0 s s'.
Proof.
  unfold open_with_refresh. destruct (block_of_loc s l) as [b|]; [|iinv; auto with sfr].
  destruct (needs_refresh s l); [|iinv; auto with sfr].
  destruct (ocn_put (w_cfg w) (pin s (b_uid b)) (l_size l)) as [[wr|e] s2] eqn:E; apply ocn_put_afr in E.
  - destruct (lockstep (w_cfg w)); [iinv; eauto with sfr|].
    destruct (finalize _ _ wr true) as [[nl|e] s4] eqn:F; apply finalize_xfr in F;
      iinv; eauto 10 with sfr.
  - iinv; eauto with sfr.
Qed.

Lemma sync_from_canonical_sfr s o k cl s' : sync_from_canonical s o k = Some (cl, s') ->
  s' = index_put s k cl /\ index_get s (canonical_key o) = Some cl.
Proof. unfold sync_from_canonical. dm; iinv. auto. Qed.

Lemma get_open_sfr w s o i r s' : get_open w s o i = (r, s') -> sfr 0 s s'.
Proof.
  unfold get_open. destruct (least_specific s (lookup_keys w o i)) as [[k l]|]; [|iinv; auto with sfr].
  destruct (negb (needs_refresh s l)); [apply open_with_refresh_sfr|].
  destruct (c_hier (w_cfg w)); [|apply open_with_refresh_sfr].
  destruct (sync_from_canonical s o k) as [[cl s1]|] eqn:E; [|apply open_with_refresh_sfr].
  apply sync_from_canonical_sfr in E as [-> _]. intros H. apply open_with_refresh_sfr in H.
  eapply sfr_trans0n; [|exact H]. auto with sfr.
Qed.

(** a reader: either the bytes passed validation and nothing is counted, or
    a detection happened and the consumer gets INTERNAL and no bytes *)
Lemma get_consume_cases w s o uid l refresh fk code bytes s' :
  get_consume w s o uid l refresh fk = (code, bytes, s') ->
  (fst (fst (read_validated w s o uid l)) = true /\ sfr 0 s s') \/
  (exists b s1, read_validated w s o uid l = (false, b, s1) /\ xfr s1 s' /\ code = cInternal /\ bytes = []).
Proof.
  unfold get_consume. destruct (read_validated w s o uid l) as [[valid b] s1] eqn:R.
  destruct valid.
  - apply read_validated_true in R; subst s1.
    destruct refresh as [wr|].
    + destruct (finalize _ _ wr true) as [[nl|e] s2] eqn:F; apply finalize_xfr in F;
        cbn [negb]; dm; iinv; left; (split; [reflexivity|eauto 10 with sfr]).
    + cbn [negb]. dm; iinv; left; (split; [reflexivity|eauto with sfr]).
  - destruct refresh as [wr|].
    + destruct (finalize _ s1 wr false) as [[nl|e] s2] eqn:F.
      { apply finalize_ok in F as [F _]. discriminate. }
      apply finalize_xfr in F. cbn [negb]. iinv. right. exists b, s1.
      split; [reflexivity|split; [|split; reflexivity]]. eapply xfr_trans; [exact F|apply unpin_xfr].
    + cbn [negb]. iinv. right. exists b, s1. split; [reflexivity|split; [|split; reflexivity]]. apply unpin_xfr.
Qed.

Lemma get_consume_sfr w s o uid l refresh fk code bytes s' :
  get_consume w s o uid l refresh fk = (code, bytes, s') ->
  sfr 0 s s' \/ (sfr 1 s s' /\ code = cInternal /\ bytes = [] /\ l_abs l + 1 <= s_tbr s').
Proof.
  intros H0. apply get_consume_cases in H0 as [[_ H1]|(b & s1 & R & X & -> & ->)]; [left; assumption|right].
  apply read_validated_false_dfr in R.
  split; [eapply sfr_xfr_step; [exact X|eapply dfr_sfr, R]|split; [reflexivity|split; [reflexivity|]]].
  rewrite (xf_tbr _ _ X), (df_tbr _ _ _ R). lia.
Qed.

Lemma fm_refresh_one_cases w s o i r s' : fm_refresh_one w s o i = (r, s') ->
  sfr 0 s s' \/ (sfr 1 s s' /\ r = Err cInternal).
Proof.
  unfold fm_refresh_one.
  destruct (least_specific s (lookup_keys w o i)) as [[k l]|]; [|iinv; left; auto with sfr].
  destruct (negb (needs_refresh s l)); [iinv; left; auto with sfr|].
  match goal with |- context [match ?d with Some s1 => (Ok true, s1) | None => _ end] => destruct d as [s1|] eqn:D end.
  { iinv. left. destruct (c_hier (w_cfg w)); [|discriminate].
    destruct (sync_from_canonical s o k) as [[cl s2]|] eqn:E; [|discriminate]. inv D.
    apply sync_from_canonical_sfr in E as [-> _]. auto with sfr. }
  clear D. destruct (block_of_loc s l) as [b|]; [|iinv; left; auto with sfr].
  destruct (ocn_put (w_cfg w) (pin s (b_uid b)) (l_size l)) as [[wr|e] s1] eqn:E; apply ocn_put_afr in E.
  2:{ iinv. left. eauto with sfr. }
  destruct (read_validated w s1 o (b_uid b) l) as [[valid bytes] s2] eqn:R. destruct valid.
  - apply read_validated_true in R; subst s2.
    destruct (finalize _ _ wr true) as [[nl|e] s3] eqn:F; apply finalize_xfr in F;
      iinv; left; eauto 10 with sfr.
  - apply read_validated_false_dfr in R.
    assert (sfr 1 s s2) as S2 by (eapply sfr_dfr_step; [exact R|eauto with sfr]).
    destruct (finalize _ _ wr false) as [[nl|e] s3] eqn:F.
    { apply finalize_ok in F as [F _]. discriminate. }
    apply finalize_xfr in F. iinv. right. split; [|reflexivity]. eauto with sfr.
Qed.

Lemma fm_phase2_cases w : forall todo s missing r s', fm_phase2 w s todo missing = (r, s') ->
  sfr 0 s s' \/ (sfr 1 s s' /\ r = Err cInternal).
Proof.
  induction todo as [|[pos [o i]] t IH]; intros s missing r s'; cbn [fm_phase2].
  - iinv. left. auto with sfr.
  - destruct (fm_refresh_one w s o i) as [[[]|e] s1] eqn:E; apply fm_refresh_one_cases in E.
    + intros H. apply IH in H. destruct E as [E|[_ E]]; [|discriminate].
      destruct H as [H|[H ->]]; [left|right; split; [|reflexivity]];
        eapply sfr_trans0n; eassumption.
    + intros H. apply IH in H. destruct E as [E|[_ E]]; [|discriminate].
      destruct H as [H|[H ->]]; [left|right; split; [|reflexivity]];
        eapply sfr_trans0n; eassumption.
    + iinv. destruct E as [E|[E E']]; [left; assumption|right; split; [assumption|congruence]].
Qed.

Lemma find_missing_cases w s ds r s' : find_missing w s ds = (r, s') ->
  sfr 0 s s' \/ (sfr 1 s s' /\ r = Err cInternal).
Proof. unfold find_missing. apply fm_phase2_cases. Qed.

Lemma put_start_sfr w s o i r s' : put_start w s o i = (r, s') -> sfr 0 s s'.
Proof.
  unfold put_start.
  match goal with |- context [if ?x then (Ok (TPutExisting o i []), s) else _] => destruct x end.
  - iinv; auto with sfr.
  - destruct (ocn_put (w_cfg w) s (osize w o)) as [[wr|e] s1] eqn:E; apply ocn_put_afr in E;
      iinv; eauto with sfr.
Qed.

Lemma mk_sfr (c : config) (i : nat) (ploc : loc) (slices : list (nat * (N * N))) : forall n s s1,
  sfr n s s1 ->
  sfr n s (fold_left (fun acc '(cho, (off, len)) =>
                        index_put acc (flat_key c cho i)
                                  {| l_abs := l_abs ploc; l_off := l_off ploc + off; l_size := len |})
                     slices s1).
Proof.
  induction slices as [|[cho [off len]] t IH]; intros n s s1 H; cbn [fold_left]; [assumption|].
  apply IH. auto with sfr.
Qed.

Definition out_internal (o : out) : Prop :=
  match o with Done c _ => c = cInternal | Missing c _ => c = cInternal | _ => False end.

(** every step: the frame holds, and a counted negative verdict fails the
    operation with INTERNAL *)
Lemma step_sfr w s e s' out : step w s e = (s', out) ->
  sfr 0 s s' \/ (sfr 1 s s' /\ out_internal out).
Proof.
  unfold step.
  destruct (may_take_refresh_lock e && refresh_lock_held s); [iinv; left; auto with sfr|].
  destruct (is_corrupt e && reader_open s); [iinv; left; auto with sfr|].
  destruct e as [tid ob i|tid data|tid err|tid ob i|tid|ds|tid p i ch|tid slices|rg off len].
  - (* OPutStart *)
    destruct (thr_get (s_threads s) tid); [iinv; left; auto with sfr|].
    destruct (put_start w s ob i) as [[t|e] s1] eqn:E; apply put_start_sfr in E;
      iinv; left; auto with sfr.
  - (* OPutChunk *)
    destruct (thr_get (s_threads s) tid) as [[o i wr acc|o i acc| | |]|]; try solve [iinv; left; auto with sfr].
    + destruct (wr_size wr <? _).
      * destruct (finalize (w_cfg w) s wr false) as [r s1] eqn:F. apply finalize_xfr in F.
        iinv; left; eauto with sfr.
      * iinv; left; auto with sfr.
    + destruct (osize w o <? _); iinv; left; auto with sfr.
  - (* OPutEnd *)
    destruct (thr_get (s_threads s) tid) as [[o i wr acc|o i acc| | |]|]; try solve [iinv; left; auto with sfr].
    + destruct (finalize (w_cfg w) s wr _) as [[l|e] s1] eqn:F; apply finalize_xfr in F;
        iinv; left; eauto with sfr.
    + dm; iinv; left; auto with sfr.
  - (* OGetOpen *)
    destruct (thr_get (s_threads s) tid); [iinv; left; auto with sfr|].
    destruct (get_open w s ob i) as [[t|e] s1] eqn:E; apply get_open_sfr in E;
      iinv; left; auto with sfr.
  - (* OGetConsume *)
    destruct (thr_get (s_threads s) tid) as [[| |o uid l refresh fk| |]|]; try solve [iinv; left; auto with sfr].
    destruct (get_consume w s o uid l refresh fk) as [[code bytes] s1] eqn:E.
    apply get_consume_sfr in E. iinv.
    destruct E as [E|(E & -> & -> & _)]; [left|right; split; [|reflexivity]]; auto with sfr.
  - (* OFindMissing *)
    destruct (find_missing w s ds) as [[m|e] s1] eqn:E; apply find_missing_cases in E;
      iinv; destruct E as [E|[E E']]; try (left; assumption); try discriminate.
    inv E'. right. split; [assumption|reflexivity].
  - (* OGfcStart *)
    destruct (thr_get (s_threads s) tid); [iinv; left; auto with sfr|].
    destruct (c_hier (w_cfg w)).
    + destruct (get_open w s p i) as [[t|e] s1] eqn:E; apply get_open_sfr in E.
      * destruct t; iinv; left; auto with sfr.
      * iinv; left; auto with sfr.
    + destruct (index_get s (flat_key (w_cfg w) p i)) as [pl|]; [|iinv; left; auto with sfr].
      lazymatch goal with |- (match ?d with _ => _ end) = _ -> _ => destruct d as [[cl uid]|] end.
      * destruct (get_consume w (pin s uid) ch uid cl None []) as [[code bytes] s2] eqn:E.
        apply get_consume_sfr in E. iinv.
        destruct E as [E|(E & -> & -> & _)]; [left|right; split; [|reflexivity]].
        -- eapply sfr_trans0n; [|exact E]. auto with sfr.
        -- eapply sfr_trans0n; [|exact E]. auto with sfr.
      * destruct (block_of_loc s pl) as [b|]; [|iinv; left; auto with sfr].
        destruct (needs_refresh s pl); [|iinv; left; auto with sfr].
        destruct (ocn_put (w_cfg w) (pin s (b_uid b)) (l_size pl)) as [[wr|e] s2] eqn:E; apply ocn_put_afr in E.
        -- destruct (lockstep (w_cfg w)); iinv; left; eauto 10 with sfr.
        -- iinv; left; eauto with sfr.
  - (* OGfcSlice *)
    destruct (thr_get (s_threads s) tid) as [[| |o uid l refresh fk|p i uid pl refresh pk|code]|];
      try solve [iinv; left; auto with sfr].
    + destruct (get_consume w s o uid l refresh fk) as [[code bytes] s1] eqn:E.
      apply get_consume_sfr in E. iinv.
      destruct E as [E|(E & -> & -> & _)]; [left|right; split; [|reflexivity]]; auto with sfr.
    + destruct (read_validated w s p uid pl) as [[valid bytes] s1] eqn:R. destruct valid; cbn [negb].
      * apply read_validated_true in R; subst s1.
        destruct refresh as [wr|].
        -- destruct (lockstep (w_cfg w)).
           ++ destruct (finalize _ _ wr true) as [[nl|e] s3] eqn:F; apply finalize_xfr in F;
                iinv; left; [|eauto 10 with sfr].
              apply sfr_thr_rm, mk_sfr. eauto 10 with sfr.
           ++ destruct (fin_check _ wr) as [nl|e]; iinv; left; [|eauto 10 with sfr].
              apply sfr_thr_rm, mk_sfr. eauto 10 with sfr.
        -- destruct (index_get _ pk) as [pl'|]; iinv; left; [|eauto with sfr].
           apply sfr_thr_rm, mk_sfr. eauto with sfr.
      * apply read_validated_false_dfr, dfr_sfr in R. iinv. right. split; [|reflexivity].
        apply sfr_thr_rm. dm; eauto with sfr.
  - (* OCorrupt *)
    dm; iinv; left; auto with sfr.
Qed.
