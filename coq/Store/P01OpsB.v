(** C01 proofs: structural lemmas about the claim list, dropping a block
    reference ([unpin]) and adding index entries preserve [DInv].
    The proofs live in P01OpsB1 (helpers, drop / permutation), P01OpsB2
    (index entries) and P01OpsB3 (unpin); this file states the results. *)
From Coq Require Import List NArith ZArith Bool Arith Lia Permutation.
From BBS Require Import Store.Model Store.Wf Store.P01Inv.
From BBS Require Store.P01OpsB1 Store.P01OpsB2 Store.P01OpsB3.
Import ListNotations.
Open Scope N_scope.

Lemma DInv_perm : forall w cl cl' s, Permutation cl cl' -> DInv w cl s -> DInv w cl' s.
Proof. exact P01OpsB1.DInv_perm. Qed.

Lemma DInv_drop : forall w c cl s, DInv w (c :: cl) s -> DInv w cl s.
Proof. exact P01OpsB1.DInv_drop. Qed.

(** a pinned claim (writer or reader) gives its reference back *)
Lemma unpin_inv : forall w c cl s,
  DInv w (c :: cl) s -> cref (c_uid c) c = 1%nat -> DInv w cl (unpin (w_cfg w) s (c_uid c)).
Proof. exact P01OpsB3.unpin_inv. Qed.

(** a writer that has written the complete content of object o drops its
    reference but keeps the (now read-only) range *)
Lemma cw_to_cu_inv : forall w cl s wr acc o,
  DInv w (CW wr acc :: cl) s -> acc = content w o -> N.of_nat (length acc) = wr_size wr ->
  DInv w (CU wr o :: cl) (unpin (w_cfg w) s (wr_uid wr)).
Proof. exact P01OpsB3.cw_to_cu_inv. Qed.

(** publishing a completely written allocation whose block has not been
    released / quarantined *)
Lemma cu_publish_inv : forall w cl s wr o keys,
  DInv w cl s -> In (CU wr o) cl -> s_tbr s <= wr_abs wr -> (forall k, In k keys -> fst k = o) ->
  DInv w cl (index_put_all s keys {| l_abs := wr_abs wr; l_off := wr_off wr; l_size := wr_size wr |}).
Proof. exact P01OpsB2.cu_publish_inv. Qed.

(** a new entry that is a sub-range of a valid entry *)
Lemma index_put_sub_inv : forall w cl s k0 l k off len,
  DInv w cl s -> In (k0, l) (s_index s) -> loc_valid s l = true ->
  content w (fst k) = slice (content w (fst k0)) (N.to_nat off) (N.to_nat len) ->
  (N.to_nat off + N.to_nat len <= length (content w (fst k0)))%nat ->
  DInv w cl (index_put s k {| l_abs := l_abs l; l_off := l_off l + off; l_size := len |}).
Proof. exact P01OpsB2.index_put_sub_inv. Qed.

Lemma index_put_copy_inv : forall w cl s k0 l k,
  DInv w cl s -> In (k0, l) (s_index s) -> loc_valid s l = true -> fst k = fst k0 ->
  DInv w cl (index_put s k l).
Proof. exact P01OpsB2.index_put_copy_inv. Qed.

(** the frame of [unpin] as seen by claims and index entries (for callers
    that need more than [DInv]) *)
Definition unpin_spec := P01OpsB3.unpin_spec.
