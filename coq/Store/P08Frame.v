(** C08/C10 — frame lemmas of the local-store model: which parts of the state
    the allocator / block-map primitives leave alone, and which counters are
    monotone.  Proofs only; no definition of the model is changed. *)
From Coq Require Import List NArith ZArith Bool Arith Lia ZifyN ZifyNat ZifyBool.
From BBS Require Import Store.Model.
Import ListNotations.
Open Scope N_scope.

Ltac dm :=
  repeat match goal with
         | |- context [match ?x with _ => _ end] => destruct x eqn:?
         end.

(** absolute number one past the newest listed block *)
Definition hiM (s : state) : N := s_released s + N.of_nat (length (s_blocks s)).

(** exact frame: everything a lookup depends on is untouched *)
Record xfr (s s' : state) : Prop := {
  xf_index : s_index s' = s_index s;
  xf_threads : s_threads s' = s_threads s;
  xf_negs : s_negs s' = s_negs s;
  xf_tbr : s_tbr s' = s_tbr s;
  xf_rel : s_released s' = s_released s;
  xf_len : length (s_blocks s') = length (s_blocks s);
  xf_old : s_old s' = s_old s;
}.

(** allocator frame: index, threads, verdict counter untouched; counters monotone *)
Record afr (s s' : state) : Prop := {
  af_index : s_index s' = s_index s;
  af_threads : s_threads s' = s_threads s;
  af_negs : s_negs s' = s_negs s;
  af_tbr : s_tbr s <= s_tbr s';
  af_rel : s_released s <= s_released s';
  af_hi : hiM s <= hiM s';
}.

Lemma xfr_refl s : xfr s s.
Proof. constructor; reflexivity. Qed.
Lemma xfr_trans a b c : xfr a b -> xfr b c -> xfr a c.
Proof. intros [] []; constructor; congruence. Qed.
Lemma afr_refl s : afr s s.
Proof. constructor; try reflexivity; lia. Qed.
Lemma afr_trans a b c : afr a b -> afr b c -> afr a c.
Proof. intros [] []; constructor; try congruence; lia. Qed.
Lemma xfr_afr a b : xfr a b -> afr a b.
Proof. intros []; constructor; try congruence; unfold hiM; try lia. Qed.

Lemma map_uid_length f u l : length (map_uid f u l) = length l.
Proof. induction l as [|b t IH]; cbn; [reflexivity|]. destruct (Nat.eqb (b_uid b) u); cbn; congruence. Qed.

Ltac xfr_close := constructor; cbn; rewrite ?map_uid_length; reflexivity.

Lemma pin_xfr s u : xfr s (pin s u).
Proof. unfold pin. xfr_close. Qed.

Lemma unpin_xfr c s u : xfr s (unpin c s u).
Proof. unfold unpin. dm; xfr_close. Qed.

Lemma write_block_xfr s u off d : xfr s (write_block s u off d).
Proof. unfold write_block. dm; xfr_close. Qed.

Lemma upd_alloc_xfr s a i : xfr s (upd_alloc s a i).
Proof. xfr_close. Qed.

Lemma pop_front_afr c s : afr s (pop_front c s).
Proof.
  unfold pop_front. dm; constructor; unfold hiM; cbn; try reflexivity; try lia.
  all: rewrite Heql; cbn [length]; lia.
Qed.

Lemma pop_front_tbr c s : s_tbr (pop_front c s) = s_tbr s.
Proof. unfold pop_front. dm; reflexivity. Qed.

Lemma new_block_afr c s b s' : new_block c s = Some (b, s') -> afr s s' /\ s_blocks s' = s_blocks s.
Proof.
  unfold new_block. dm; intros H; inversion H; subst; clear H; split; try reflexivity;
    constructor; unfold hiM; cbn; try reflexivity; lia.
Qed.

Lemma push_back_afr c s s' : push_back c s = Some s' -> afr s s'.
Proof.
  unfold push_back. destruct (new_block c s) as [[b s1]|] eqn:E; [|discriminate].
  intros H; inversion H; subst; clear H. apply new_block_afr in E as [[] Eb].
  constructor; unfold hiM in *; cbn; try assumption. rewrite Eb, app_length. cbn. lia.
Qed.

Lemma upd_counts_afr s o c n : afr s (upd_counts s o c n).
Proof. constructor; unfold hiM; cbn; try reflexivity; lia. Qed.
Lemma reset_alloc_afr s : afr s (reset_alloc s).
Proof. constructor; unfold hiM; cbn; try reflexivity; lia. Qed.

Lemma fbs_release_afr c fuel : forall s, afr s (fbs_release c fuel s).
Proof.
  induction fuel as [|f IH]; intros s; cbn [fbs_release]; [apply afr_refl|].
  destruct (s_released s <? s_tbr s); [|apply afr_refl].
  eapply afr_trans; [|apply IH].
  eapply afr_trans; [apply pop_front_afr|].
  dm; try apply upd_counts_afr.
  eapply afr_trans; [apply upd_counts_afr|apply reset_alloc_afr].
Qed.

Lemma fbs_grow_afr c fuel : forall s b s', fbs_grow c fuel s = (b, s') -> afr s s'.
Proof.
  induction fuel as [|f IH]; intros s b s'; cbn [fbs_grow].
  - intros H; inversion H; apply afr_refl.
  - destruct (grow_new c (s_cur s) (s_new s)).
    + destruct (push_back c s) as [s1|] eqn:E.
      * intros H. apply IH in H. eapply afr_trans; [|exact H].
        eapply afr_trans; [eapply push_back_afr; exact E|apply upd_counts_afr].
      * intros H; inversion H; apply afr_refl.
    + intros H; inversion H; apply afr_refl.
Qed.

Lemma upd_rel_max_afr s : afr s (upd_rel s (s_released s) (N.max (s_tbr s) (s_released s))).
Proof. constructor; unfold hiM; cbn; try reflexivity; lia. Qed.

Lemma fbs_rotate_afr c fuel size : forall s b s', fbs_rotate c fuel size s = (b, s') -> afr s s'.
Proof.
  induction fuel as [|f IH]; intros s b s'; cbn [fbs_rotate].
  - intros H; inversion H; apply afr_refl.
  - destruct (has_space c s (s_old s + s_cur s) size).
    { intros H; inversion H; apply afr_refl. }
    destruct (Nat.ltb (desired_new c) (s_new s)).
    { intros H. apply IH in H. eapply afr_trans; [|exact H].
      eapply afr_trans; [apply upd_counts_afr|apply reset_alloc_afr]. }
    destruct (push_back c s) as [s1|] eqn:E.
    2:{ intros H; inversion H; apply afr_refl. }
    intros H. apply IH in H. eapply afr_trans; [|exact H].
    eapply afr_trans; [eapply push_back_afr; exact E|].
    eapply afr_trans; [|apply reset_alloc_afr].
    destruct (grow_cur c (s_cur s1)); [apply upd_counts_afr|].
    match goal with |- context [if ?x then _ else _] => destruct x end; [|apply upd_counts_afr].
    eapply afr_trans; [apply upd_counts_afr|].
    eapply afr_trans; [apply pop_front_afr|].
    eapply afr_trans; [apply upd_counts_afr|].
    apply upd_rel_max_afr.
Qed.

Lemma fbs_pick_xfr c fuel size : forall s idx s', fbs_pick c fuel size s = Some (idx, s') -> xfr s s'.
Proof.
  induction fuel as [|f IH]; intros s idx s'; cbn [fbs_pick]; [discriminate|].
  destruct (s_attempts s) as [|a]; [|destruct (s_aidx s) as [i|]];
    try (intros H; apply IH in H; eapply xfr_trans; [apply upd_alloc_xfr|exact H]).
  destruct (has_space c s (s_old s + s_cur s + i) size).
  - intros H; inversion H; subst. apply upd_alloc_xfr.
  - intros H; apply IH in H; eapply xfr_trans; [apply upd_alloc_xfr|exact H].
Qed.

Lemma find_block_with_space_afr c s size r s' :
  find_block_with_space c s size = (r, s') -> afr s s'.
Proof.
  unfold find_block_with_space.
  destruct (c_bs c <? size). { intros H; inversion H; apply afr_refl. }
  pose proof (fbs_release_afr c (S (length (s_blocks s))) s) as H1.
  destruct (fbs_grow c _ _) as [b2 s2] eqn:E2. apply fbs_grow_afr in E2.
  destruct b2.
  2:{ intros H; inversion H; subst. eapply afr_trans; eassumption. }
  destruct (fbs_rotate c _ size s2) as [b3 s3] eqn:E3. apply fbs_rotate_afr in E3.
  destruct b3.
  2:{ intros H; inversion H; subst. eapply afr_trans; [|eassumption]. eapply afr_trans; eassumption. }
  destruct (fbs_pick c _ size s3) as [[idx s4]|] eqn:E4.
  - apply fbs_pick_xfr, xfr_afr in E4. intros H; inversion H; subst.
    eapply afr_trans; [|eassumption]. eapply afr_trans; [|eassumption]. eapply afr_trans; eassumption.
  - intros H; inversion H; subst. eapply afr_trans; [|eassumption]. eapply afr_trans; eassumption.
Qed.

Lemma ocn_put_afr c s size r s' : ocn_put c s size = (r, s') -> afr s s'.
Proof.
  unfold ocn_put. destruct (find_block_with_space c s size) as [[idx|e] s1] eqn:E;
    apply find_block_with_space_afr in E.
  - destruct (nth_error (s_blocks s1) idx); intros H; inversion H; subst; [|assumption].
    eapply afr_trans; [exact E|]. constructor; unfold hiM; cbn; rewrite ?map_uid_length; try reflexivity; lia.
  - intros H; inversion H; subst; assumption.
Qed.

(** a fresh writer points at a listed block *)
Lemma ocn_put_wr_abs c s size wr s' : ocn_put c s size = (Ok wr, s') -> wr_abs wr < hiM s'.
Proof.
  unfold ocn_put. destruct (find_block_with_space c s size) as [[idx|e] s1] eqn:E; [|discriminate].
  destruct (nth_error (s_blocks s1) idx) eqn:En; [|discriminate].
  intros H; inversion H; subst; clear H. unfold hiM; cbn. rewrite map_uid_length.
  assert (idx < length (s_blocks s1))%nat by (apply nth_error_Some; congruence). lia.
Qed.

Lemma fbws_err_code c s size e s' : find_block_with_space c s size = (Err e, s') ->
  e = cInvalidArgument \/ e = cUnavailable \/ e = (-1)%Z.
Proof.
  unfold find_block_with_space. dm; intros H; inversion H; auto.
Qed.

Lemma ocn_put_err_code c s size e s' : ocn_put c s size = (Err e, s') ->
  e = cInvalidArgument \/ e = cUnavailable \/ e = (-1)%Z \/ e = (-2)%Z.
Proof.
  unfold ocn_put. destruct (find_block_with_space c s size) as [[idx|e1] s1] eqn:E.
  - destruct (nth_error (s_blocks s1) idx); intros H; inversion H; auto.
  - intros H; inversion H; subst. apply fbws_err_code in E. tauto.
Qed.

Lemma finalize_xfr c s wr ok r s' : finalize c s wr ok = (r, s') -> xfr s s'.
Proof. unfold finalize. dm; intros H; inversion H; subst; apply unpin_xfr. Qed.

Lemma finalize_state c s wr ok : snd (finalize c s wr ok) = unpin c s (wr_uid wr).
Proof. unfold finalize. dm; reflexivity. Qed.

Lemma finalize_err_code c s wr ok e s' : finalize c s wr ok = (Err e, s') ->
  e = cInvalidArgument \/ e = cInternal.
Proof. unfold finalize. dm; intros H; inversion H; auto. Qed.

Lemma finalize_ok c s wr ok l s' : finalize c s wr ok = (Ok l, s') ->
  ok = true /\ s_tbr s <= wr_abs wr /\ l = {| l_abs := wr_abs wr; l_off := wr_off wr; l_size := wr_size wr |}
  /\ s' = unpin c s (wr_uid wr).
Proof.
  unfold finalize. destruct ok; cbn [negb]; [|discriminate].
  destruct (wr_abs wr <? s_tbr (unpin c s (wr_uid wr))) eqn:E; [discriminate|].
  intros H; inversion H; subst. rewrite (xf_tbr _ _ (unpin_xfr c s (wr_uid wr))) in E.
  repeat split. lia.
Qed.

Lemma finalize_quarantined c s wr ok r s' :
  finalize c s wr ok = (r, s') -> wr_abs wr < s_tbr s -> exists e, r = Err e /\ e <> 0%Z.
Proof.
  unfold finalize. rewrite (xf_tbr _ _ (unpin_xfr c s (wr_uid wr))).
  destruct (negb ok); [intros H _; inversion H; eexists; split; [reflexivity|discriminate]|].
  intros H Hlt. destruct (wr_abs wr <? s_tbr s) eqn:E; [|lia].
  inversion H; eexists; split; [reflexivity|discriminate].
Qed.

(** ---- index / thread updates ---- *)
Lemma index_put_all_index s ks l :
  s_index (index_put_all s ks l) = rev (map (fun k => (k, l)) ks) ++ s_index s.
Proof.
  revert s. induction ks as [|k t IH]; intros s; cbn [index_put_all map rev]; [reflexivity|].
  rewrite IH. cbn. rewrite <- app_assoc. reflexivity.
Qed.

(** everything but the index is untouched by index_put_all *)
Record ifr (s s' : state) : Prop := {
  if_threads : s_threads s' = s_threads s;
  if_negs : s_negs s' = s_negs s;
  if_tbr : s_tbr s' = s_tbr s;
  if_rel : s_released s' = s_released s;
  if_blocks : s_blocks s' = s_blocks s;
  if_old : s_old s' = s_old s;
}.
Lemma index_put_all_ifr s ks l : ifr s (index_put_all s ks l).
Proof.
  revert s. induction ks as [|k t IH]; intros s; cbn [index_put_all]; [constructor; reflexivity|].
  destruct (IH (index_put s k l)). constructor; cbn in *; congruence.
Qed.

(** ---- lookups ---- *)
Lemma loc_valid_ext s s' l :
  s_tbr s' = s_tbr s -> s_released s' = s_released s -> length (s_blocks s') = length (s_blocks s) ->
  loc_valid s' l = loc_valid s l.
Proof. unfold loc_valid. intros -> -> ->. reflexivity. Qed.

Lemma index_get_ext s s' k :
  s_index s' = s_index s ->
  s_tbr s' = s_tbr s -> s_released s' = s_released s -> length (s_blocks s') = length (s_blocks s) ->
  index_get s' k = index_get s k.
Proof.
  intros Hi Ht Hr Hl. unfold index_get. rewrite Hi. f_equal. f_equal.
  apply filter_ext. intros e. rewrite (loc_valid_ext s s'); auto.
Qed.

Lemma index_get_xfr s s' k : xfr s s' -> index_get s' k = index_get s k.
Proof. intros []. apply index_get_ext; assumption. Qed.

Lemma newest_in cands : forall best l, newest cands best = Some l -> In l cands \/ best = Some l.
Proof.
  induction cands as [|c t IH]; intros best l; cbn [newest]; [auto|].
  intros H. apply IH in H as [H|H]; [left; right; exact H|].
  destruct best as [b|]; [destruct (loc_older b c)|]; inversion H; subst; auto. left; left; reflexivity. left; left; reflexivity.
Qed.

(** the result of [newest] lies in a block at least as new as every candidate *)
Lemma newest_max cands : forall best,
  match newest cands best with
  | Some r => (forall c, In c cands -> l_abs c <= l_abs r) /\ (forall b, best = Some b -> l_abs b <= l_abs r)
  | None => cands = [] /\ best = None
  end.
Proof.
  induction cands as [|c t IH]; intros best; cbn [newest].
  - destruct best; [split; [intros ? []|intros b H; inversion H; lia]|auto].
  - specialize (IH (match best with None => Some c | Some b => if loc_older b c then Some c else Some b end)).
    destruct (newest t _) as [r|].
    + destruct IH as [H1 H2]. split.
      * intros x [<-|Hx]; [|auto].
        destruct best as [b|]; [destruct (loc_older b c) eqn:E|]; try (apply H2; reflexivity).
        specialize (H2 b eq_refl). unfold loc_older in E. lia.
      * intros b ->. destruct (loc_older b c) eqn:E; [|apply H2; reflexivity].
        specialize (H2 c eq_refl). unfold loc_older in E. lia.
    + destruct IH as [_ H]. destruct best as [b|]; [destruct (loc_older b c)|]; discriminate.
Qed.

Lemma newest_nonempty c cands : newest (c :: cands) None <> None.
Proof.
  intros H. pose proof (newest_max (c :: cands) None) as M. rewrite H in M. destruct M; discriminate.
Qed.

Lemma key_eqb_eq a b : key_eqb a b = true <-> a = b.
Proof.
  unfold key_eqb. destruct a, b; cbn. rewrite andb_true_iff, !Nat.eqb_eq. split; [intros []; congruence|intros H; inversion H; auto].
Qed.

(** a resolved location is a stored entry of that key outside the quarantine *)
Lemma index_get_some s k l : index_get s k = Some l ->
  In (k, l) (s_index s) /\ loc_valid s l = true.
Proof.
  unfold index_get. intros H. apply newest_in in H as [H|H]; [|discriminate].
  apply in_map_iff in H as [[k' l'] [E H]]. cbn in E; subst l'.
  apply filter_In in H as [H1 H2]. cbn in H2. apply andb_true_iff in H2 as [H2 H3].
  apply key_eqb_eq in H2; subst. auto.
Qed.

Lemma index_get_quarantine s k l : index_get s k = Some l -> s_tbr s <= l_abs l.
Proof. intros H. apply index_get_some in H as [_ H]. unfold loc_valid in H. lia. Qed.

(** a key with a valid stored entry resolves *)
Lemma index_get_of_valid s k l : In (k, l) (s_index s) -> loc_valid s l = true -> index_get s k <> None.
Proof.
  intros Hin Hv. unfold index_get.
  assert (In l (map snd (filter (fun e => key_eqb (fst e) k && loc_valid s (snd e)) (s_index s)))) as H.
  { apply in_map_iff. exists (k, l). split; [reflexivity|]. apply filter_In. split; [assumption|].
    cbn. rewrite Hv, andb_true_r. apply key_eqb_eq. reflexivity. }
  destruct (map snd _) as [|c t]; [destruct H|apply newest_nonempty].
Qed.

Lemma least_specific_some s ks k l : least_specific s ks = Some (k, l) -> In k ks /\ index_get s k = Some l.
Proof.
  induction ks as [|k0 t IH]; cbn [least_specific]; [discriminate|].
  destruct (index_get s k0) eqn:E.
  - intros H; inversion H; subst. split; [left; reflexivity|assumption].
  - intros H. apply IH in H as []. split; [right|]; assumption.
Qed.

Lemma least_specific_none s ks : least_specific s ks = None -> forall k, In k ks -> index_get s k = None.
Proof.
  induction ks as [|k0 t IH]; cbn [least_specific]; [intros _ ? []|].
  destruct (index_get s k0) eqn:E; [discriminate|]. intros H k [<-|Hk]; auto.
Qed.

Lemma least_specific_ext s s' ks : (forall k, index_get s' k = index_get s k) ->
  least_specific s' ks = least_specific s ks.
Proof. intros H. induction ks as [|k t IH]; cbn; [reflexivity|]. rewrite H, IH. reflexivity. Qed.

(** ---- threads ---- *)
Lemma thr_get_in ts id t : thr_get ts id = Some t -> In (id, t) ts.
Proof.
  induction ts as [|[i x] r IH]; cbn; [discriminate|].
  destruct (Nat.eqb i id) eqn:E; [apply Nat.eqb_eq in E; intros H; inversion H; subst; auto|auto].
Qed.
Lemma thr_del_in ts id x : In x (thr_del ts id) -> In x ts /\ fst x <> id.
Proof.
  unfold thr_del. intros H. apply filter_In in H as [H1 H2]. split; [assumption|].
  apply negb_true_iff, Nat.eqb_neq in H2. assumption.
Qed.
Lemma thr_get_del_same ts id : thr_get (thr_del ts id) id = None.
Proof.
  unfold thr_del. induction ts as [|[i x] r IH]; cbn; [reflexivity|].
  destruct (Nat.eqb i id) eqn:E; cbn; [assumption|]. rewrite E. assumption.
Qed.
Lemma thr_get_del_other ts id id' : id' <> id -> thr_get (thr_del ts id) id' = thr_get ts id'.
Proof.
  intros Hne. unfold thr_del. induction ts as [|[i x] r IH]; cbn; [reflexivity|].
  destruct (Nat.eqb i id) eqn:E; cbn.
  - apply Nat.eqb_eq in E; subst. destruct (Nat.eqb id id') eqn:E'; [apply Nat.eqb_eq in E'; congruence|assumption].
  - rewrite IH. reflexivity.
Qed.

Lemma bytes_eqb_eq a : forall b, bytes_eqb a b = true <-> a = b.
Proof.
  induction a as [|x a IH]; intros [|y b]; cbn; try (split; [discriminate|discriminate]); [split; reflexivity|].
  rewrite andb_true_iff, IH, N.eqb_eq. split; [intros []; congruence|intros H; inversion H; auto].
Qed.
