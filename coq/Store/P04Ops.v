(** C04 proofs, part 4: the composite operations (open with refresh, Get,
    consume, FindMissing's refresh phase, Put's first phase). *)
From Coq Require Import List NArith ZArith Bool Arith Lia Permutation.
From Coq Require Import ZifyN ZifyNat ZifyBool.
From BBS Require Import Store.Model Store.Wf Store.P04Base Store.P04Prim Store.P04Fbs.
Import ListNotations.
Local Open Scope nat_scope.

(** ---- the index only yields valid locations ---- *)
Lemma newest_in cands : forall best l, newest cands best = Some l -> In l cands \/ best = Some l.
Proof.
  induction cands as [|x t IH]; intros best l; cbn [newest]; [auto|].
  intros H. apply IH in H. destruct H as [H|H]; [left; right; exact H|].
  destruct best as [b|].
  - destruct (loc_older b x); inversion H; subst; [left; left; reflexivity | right; reflexivity].
  - inversion H; subst. left. left. reflexivity.
Qed.

Lemma index_get_valid s k l : index_get s k = Some l -> loc_valid s l = true.
Proof.
  unfold index_get. intros H. apply newest_in in H. destruct H as [H|H]; [|discriminate].
  apply in_map_iff in H. destruct H as [[k' l'] [E H]]. cbn [snd] in E. subst l'.
  apply filter_In in H. destruct H as [_ H]. cbn [fst snd] in H. apply andb_true_iff in H. apply H.
Qed.

Lemma least_specific_get s ks k l : least_specific s ks = Some (k, l) -> index_get s k = Some l.
Proof.
  induction ks as [|k0 t IH]; cbn [least_specific]; [discriminate|].
  destruct (index_get s k0) as [l0|] eqn:E; [|exact IH].
  intros H. inversion H; subst. exact E.
Qed.

Lemma loc_valid_block c s l : CInv c s -> loc_valid s l = true ->
  (exists b, block_of_loc s l = Some b /\ In b (s_blocks s)) /\ (l_abs l < tot s)%N.
Proof.
  intros [C1 C2 C3 C4] H. unfold loc_valid in H. apply andb_true_iff in H. destruct H as [H1 H2].
  apply N.leb_le in H1. apply N.ltb_lt in H2. split; [|exact H2].
  unfold block_of_loc.
  destruct (nth_error (s_blocks s) (N.to_nat (l_abs l - s_released s))) as [b|] eqn:E.
  - exists b. split; [reflexivity|]. eapply nth_error_In; eauto.
  - apply nth_error_None in E. lia.
Qed.

Lemma loc_valid_same s s' l : s_blocks s' = s_blocks s -> s_released s' = s_released s -> s_tbr s' = s_tbr s ->
  loc_valid s' l = loc_valid s l.
Proof. intros E1 E2 E3. unfold loc_valid. rewrite E1, E2, E3. reflexivity. Qed.

(** ---- what the invariant says about one parked thread ---- *)
Definition thr_ok (s : state) (t : thread) : Prop :=
  match t with
  | TGet _ _ l _ _ | TGfc _ _ _ l _ _ => (l_abs l < tot s)%N
  | TGfcErr e => (0 < e)%Z
  | _ => True
  end.
Definition is_TGet (t : thread) : Prop :=
  match t with TGet _ _ _ _ _ => True | _ => False end.
Definition is_TPut (t : thread) : Prop :=
  match t with TPut _ _ _ _ | TPutExisting _ _ _ => True | _ => False end.

Lemma HI_rebase c s0 s R : HI c s0 s R -> HI c s s R.
Proof. intros [A [C _]]. split; [exact A|]. split; [exact C | apply Fr_refl]. Qed.
Lemma HI_tot c s0 s R : HI c s0 s R -> (tot s0 <= tot s)%N.
Proof. intros [_ [_ [_ _ _ F]]]. exact F. Qed.

(** ---- open a reader, with a refresh when the location is old ---- *)
Lemma open_with_refresh_ok w s0 s R o l fkeys : wfc (w_cfg w) -> HI (w_cfg w) s0 s R ->
  loc_valid s l = true ->
  match fst (open_with_refresh w s o l fkeys) with
  | Ok t => is_TGet t /\ HI (w_cfg w) s0 (snd (open_with_refresh w s o l fkeys)) (refs (w_cfg w) t ++ R) /\
            thr_ok (snd (open_with_refresh w s o l fkeys)) t
  | Err e => HI (w_cfg w) s0 (snd (open_with_refresh w s o l fkeys)) R /\ (0 < e)%Z
  end.
Proof.
  intros W H V. set (c := w_cfg w) in *. unfold open_with_refresh. fold c.
  pose proof H as [_ [C _]].
  destruct (loc_valid_block c s l C V) as [[b [Eb Hb]] Hl]. rewrite Eb.
  assert (Hu : In (b_uid b) (uids s)) by (apply uids_blocks; exact Hb).
  pose proof (HI_pin c s0 s R (b_uid b) Hu H) as H1.
  pose proof (HI_pin c s s R (b_uid b) Hu (HI_rebase _ _ _ _ H)) as H1'.
  set (s1 := pin s (b_uid b)) in *.
  destruct (needs_refresh s l).
  2:{ cbn [fst snd refs wref app]. split; [exact I|]. split; [exact H1|]. cbn [thr_ok].
      apply HI_tot in H1'. lia. }
  pose proof (ocn_put_ok c s0 s1 _ (l_size l) W H1) as H2.
  pose proof (ocn_put_ok c s s1 _ (l_size l) W H1') as H2'.
  destruct (ocn_put c s1 (l_size l)) as [[wr|e] s2]; cbn [fst snd] in *.
  2:{ destruct H2 as [H2 He]. split; [apply HI_unpin; exact H2|]. destruct He as [-> | ->]; reflexivity. }
  destruct (lockstep c) eqn:EL.
  { cbn [fst snd refs wref app]. split; [exact I|]. split.
    - eapply HI_perm; [|exact H2]. apply perm_swap.
    - cbn [thr_ok]. apply HI_tot in H2'. lia. }
  set (bytes := read_block s2 (b_uid b) (l_off l) (l_size l)).
  pose proof (HI_write_block c s0 s2 _ (wr_uid wr) (wr_off wr) bytes H2) as H3.
  pose proof (HI_write_block c s s2 _ (wr_uid wr) (wr_off wr) bytes H2') as H3'.
  set (s3 := write_block s2 (wr_uid wr) (wr_off wr) bytes) in *.
  pose proof (finalize_ok c s0 s3 _ wr true H3) as H4.
  pose proof (finalize_ok c s s3 _ wr true H3') as H4'.
  assert (He : match fst (finalize c s3 wr true) with Err e => (0 < e)%Z | Ok _ => True end).
  { unfold finalize. cbn [negb]. destruct (N.ltb _ _); cbn [fst]; [reflexivity | exact I]. }
  destruct (finalize c s3 wr true) as [[nl|e] s4]; cbn [fst snd] in *.
  - split; [exact I|]. split; [apply HI_index_put_all; exact H4|]. cbn [thr_ok].
    assert (X : HI c s (index_put_all s4 fkeys nl) (b_uid b :: R)) by (apply HI_index_put_all; exact H4').
    apply HI_tot in X. lia.
  - split; [apply HI_unpin; exact H4 | exact He].
Qed.

Lemma sync_from_canonical_spec s o k cl s1 : sync_from_canonical s o k = Some (cl, s1) ->
  loc_valid s cl = true /\ s1 = index_put s k cl.
Proof.
  unfold sync_from_canonical. destruct (index_get s (canonical_key o)) as [cl'|] eqn:E; [|discriminate].
  destruct (needs_refresh s cl'); [discriminate|]. intros H. inversion H; subst.
  split; [eapply index_get_valid; eauto | reflexivity].
Qed.

Lemma get_open_ok w s0 s R o i : wfc (w_cfg w) -> HI (w_cfg w) s0 s R ->
  match fst (get_open w s o i) with
  | Ok t => is_TGet t /\ HI (w_cfg w) s0 (snd (get_open w s o i)) (refs (w_cfg w) t ++ R) /\
            thr_ok (snd (get_open w s o i)) t
  | Err e => HI (w_cfg w) s0 (snd (get_open w s o i)) R /\ (0 < e)%Z
  end.
Proof.
  intros W H. unfold get_open.
  destruct (least_specific s (lookup_keys w o i)) as [[k l]|] eqn:ELS.
  2:{ cbn [fst snd]. split; [exact H | reflexivity]. }
  assert (V : loc_valid s l = true).
  { eapply index_get_valid. eapply least_specific_get. exact ELS. }
  destruct (negb (needs_refresh s l)).
  { apply open_with_refresh_ok; assumption. }
  destruct (c_hier (w_cfg w)).
  - destruct (sync_from_canonical s o k) as [[cl s1]|] eqn:ES.
    + apply sync_from_canonical_spec in ES. destruct ES as [V1 ->].
      apply open_with_refresh_ok; [exact W | apply HI_index_put; exact H |].
      rewrite <- V1. apply loc_valid_same; reflexivity.
    + apply open_with_refresh_ok; assumption.
  - apply open_with_refresh_ok; assumption.
Qed.

(** ---- consuming a parked reader ---- *)
Lemma finalize_err c s wr ok : match fst (finalize c s wr ok) with Err e => (0 < e)%Z | Ok _ => True end.
Proof.
  unfold finalize. destruct (negb ok); cbn [fst]; [reflexivity|].
  destruct (N.ltb _ _); cbn [fst]; [reflexivity | exact I].
Qed.

Definition gc_state (r : Z * list N * state) : state := snd r.
Definition gc_code (r : Z * list N * state) : Z := fst (fst r).

Lemma get_consume_ok w s0 s R o uid l refresh fkeys :
  HI (w_cfg w) s0 s (uid :: wref refresh ++ R) -> (l_abs l < tot s)%N ->
  HI (w_cfg w) s0 (gc_state (get_consume w s o uid l refresh fkeys)) R /\
  (0 <= gc_code (get_consume w s o uid l refresh fkeys))%Z.
Proof.
  intros H Hl. set (c := w_cfg w) in *. unfold get_consume. fold c.
  pose proof (read_validated_ok w s0 s _ o uid l Hl H) as H1. fold c in H1.
  destruct (read_validated w s o uid l) as [[valid bytes] s1]. cbn [fst snd] in H1.
  assert (G : forall code s2, HI c s0 s2 (uid :: R) -> (0 <= code)%Z ->
     HI c s0 (gc_state (let s3 := unpin c s2 uid in
                         if negb valid then (cInternal, [], s3)
                         else if Z.eqb code cOK then (cOK, bytes, s3) else (code, [], s3))) R /\
     (0 <= gc_code (let s3 := unpin c s2 uid in
                         if negb valid then (cInternal, [], s3)
                         else if Z.eqb code cOK then (cOK, bytes, s3) else (code, [], s3)))%Z).
  { intros code s2 H2 Hc. cbv zeta. apply HI_unpin in H2.
    destruct (negb valid); [split; [exact H2 | unfold gc_code, cInternal; cbn [fst]; lia]|].
    destruct (Z.eqb code cOK); unfold gc_state, gc_code; cbn [fst snd]; split; auto. unfold cOK. lia. }
  destruct refresh as [wr|]; cbn [wref app] in *.
  - set (s1' := if valid then write_block s1 (wr_uid wr) (wr_off wr) bytes else s1).
    assert (H1' : HI c s0 s1' (wr_uid wr :: uid :: R)).
    { eapply HI_perm; [apply perm_swap|]. unfold s1'. destruct valid; [apply HI_write_block|]; exact H1. }
    pose proof (finalize_ok c s0 s1' _ wr valid H1') as H2.
    pose proof (finalize_err c s1' wr valid) as He.
    destruct (finalize c s1' wr valid) as [[nl|e] s1'']; cbn [fst snd] in *.
    + apply G; [apply HI_index_put_all; exact H2 | unfold cOK; lia].
    + apply G; [exact H2 | lia].
  - apply G; [exact H1 | unfold cOK; lia].
Qed.

(** ---- FindMissing, second phase ---- *)
Lemma fm_refresh_one_ok w s0 s R o i : wfc (w_cfg w) -> HI (w_cfg w) s0 s R ->
  HI (w_cfg w) s0 (snd (fm_refresh_one w s o i)) R /\
  match fst (fm_refresh_one w s o i) with Err e => (0 < e)%Z | Ok _ => True end.
Proof.
  intros W H. set (c := w_cfg w) in *. unfold fm_refresh_one. fold c.
  destruct (least_specific s (lookup_keys w o i)) as [[k l]|] eqn:ELS.
  2:{ cbn [fst snd]. auto. }
  assert (V : loc_valid s l = true).
  { eapply index_get_valid. eapply least_specific_get. exact ELS. }
  destruct (negb (needs_refresh s l)); [cbn [fst snd]; auto|].
  match goal with |- context [match ?d with Some s1 => (Ok true, s1) | None => _ end] => set (direct := d) end.
  assert (HD : forall s1, direct = Some s1 -> HI c s0 s1 R).
  { unfold direct. intros s1. destruct (c_hier c); [|discriminate].
    destruct (sync_from_canonical s o k) as [[cl s1']|] eqn:ES; [|discriminate].
    apply sync_from_canonical_spec in ES. destruct ES as [_ ->]. intros X. inversion X; subst.
    apply HI_index_put. exact H. }
  destruct direct as [s1|]; [cbn [fst snd]; split; [apply HD; reflexivity | exact I]|].
  pose proof H as [_ [C _]].
  destruct (loc_valid_block c s l C V) as [[b [Eb Hb]] Hl]. rewrite Eb.
  assert (Hu : In (b_uid b) (uids s)) by (apply uids_blocks; exact Hb).
  pose proof (HI_pin c s0 s R (b_uid b) Hu H) as H1.
  pose proof (HI_pin c s s R (b_uid b) Hu (HI_rebase _ _ _ _ H)) as H1'.
  set (s1 := pin s (b_uid b)) in *.
  pose proof (ocn_put_ok c s0 s1 _ (l_size l) W H1) as H2.
  pose proof (ocn_put_ok c s s1 _ (l_size l) W H1') as H2'.
  destruct (ocn_put c s1 (l_size l)) as [[wr|e] s2]; cbn [fst snd] in *.
  2:{ destruct H2 as [H2 He]. split; [apply HI_unpin; exact H2|]. destruct He as [-> | ->]; reflexivity. }
  assert (Hl2 : (l_abs l < tot s2)%N) by (apply HI_tot in H2'; lia).
  pose proof (read_validated_ok w s0 s2 _ o (b_uid b) l Hl2 H2) as H3. fold c in H3.
  destruct (read_validated w s2 o (b_uid b) l) as [[valid bytes] s3]. cbn [fst snd] in H3.
  set (s3' := if valid then write_block s3 (wr_uid wr) (wr_off wr) bytes else s3).
  assert (H3' : HI c s0 s3' (b_uid b :: wr_uid wr :: R)).
  { eapply HI_perm; [apply perm_swap|]. unfold s3'. destruct valid; [apply HI_write_block|]; exact H3. }
  apply HI_unpin in H3'.
  pose proof (finalize_ok c s0 _ _ wr valid H3') as H4.
  pose proof (finalize_err c (unpin c s3' (b_uid b)) wr valid) as He.
  destruct (finalize c (unpin c s3' (b_uid b)) wr valid) as [[nl|e] s4]; cbn [fst snd] in *.
  - split; [apply HI_index_put_all; exact H4 | exact I].
  - split; [exact H4|]. destruct valid; [exact He | reflexivity].
Qed.

Lemma fm_phase2_ok w s0 R : wfc (w_cfg w) -> forall todo s missing, HI (w_cfg w) s0 s R ->
  HI (w_cfg w) s0 (snd (fm_phase2 w s todo missing)) R /\
  match fst (fm_phase2 w s todo missing) with Err e => (0 < e)%Z | Ok _ => True end.
Proof.
  intros W. induction todo as [|[pos [o i]] t IH]; intros s missing H; cbn [fm_phase2].
  { cbn [fst snd]. auto. }
  destruct (fm_refresh_one_ok w s0 s R o i W H) as [H1 He].
  destruct (fm_refresh_one w s o i) as [[[|]|e] s1]; cbn [fst snd] in *.
  - apply IH. exact H1.
  - apply IH. exact H1.
  - auto.
Qed.

Lemma find_missing_ok w s0 s R ds : wfc (w_cfg w) -> HI (w_cfg w) s0 s R ->
  HI (w_cfg w) s0 (snd (find_missing w s ds)) R /\
  match fst (find_missing w s ds) with Err e => (0 < e)%Z | Ok _ => True end.
Proof. intros W H. unfold find_missing. apply fm_phase2_ok; assumption. Qed.

(** ---- Put, first phase ---- *)
Lemma put_start_ok w s0 s R o i : wfc (w_cfg w) -> HI (w_cfg w) s0 s R ->
  match fst (put_start w s o i) with
  | Ok t => is_TPut t /\ HI (w_cfg w) s0 (snd (put_start w s o i)) (refs (w_cfg w) t ++ R)
  | Err e => HI (w_cfg w) s0 (snd (put_start w s o i)) R /\ (0 < e)%Z
  end.
Proof.
  intros W H. unfold put_start.
  match goal with |- context [if ?e then (Ok (TPutExisting o i []), s) else _] => destruct e end.
  { cbn [fst snd refs app]. split; [exact I | exact H]. }
  pose proof (ocn_put_ok (w_cfg w) s0 s R (osize w o) W H) as H1.
  destruct (ocn_put (w_cfg w) s (osize w o)) as [[wr|e] s1]; cbn [fst snd refs app] in *.
  - split; [exact I | exact H1].
  - destruct H1 as [H1 [-> | ->]]; split; auto; reflexivity.
Qed.
