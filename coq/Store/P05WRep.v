(** C05, idempotence part 2: a repeated Get / single-digest FindMissing
    writes nothing.

    [settled w s o i]: object (o,i) has an index entry under one of its
    lookup keys at a location that is not old (in hierarchical mode: also
    under the canonical key).  The entry need not be valid any more.
    - a Get whose reader was obtained without a pending copy, a Get whose
      pending copy was completed by a successful consumption, and a
      single-digest FindMissing that reported the object present all leave
      the object settled;
    - settledness is preserved by every step that allocates no block
      ("not old" only changes when a block is pushed back; index entries
      are never removed);
    - in a settled state a Get-open or a single-digest FindMissing of the
      object allocates nothing and leaves the medium alone. *)
From Coq Require Import List NArith ZArith Bool Arith Lia Relations.
From Coq Require Import ZifyN ZifyNat ZifyBool.
From BBS Require Import Common.Sx Store.Model Store.Wf Store.WfTids Run.RStore Run.R01 Run.R05.
From BBS Require Import Store.P05Cnt Store.P05Frame Store.P05Ops Store.P05Step Store.P05Surv Store.P05Mon
                        Store.P05Inv Store.P05Main Store.P05Touch.
From BBS Require Import Store.P05WInv.
Import ListNotations.
Open Scope N_scope.

(** ---- "not old" is stable while no block is pushed back ---- *)
Definition knonold (k : cnt) (T : N) : Prop := (T - k_rel k <? N.of_nat (k_old k)) = false.

Lemma catom_nonold c a b T : catom c a b -> k_pb b = k_pb a -> knonold a T -> knonold b T.
Proof.
  unfold knonold. intros H; inversion H; subst; clear H; destr_k a;
    unfold k_dec, k_pop, k_push, k_counts, k_settbr, k_bump in *;
    cbn [k_len k_old k_cur k_new k_rel k_tbr k_pb k_negs] in *; try lia.
  destruct len; cbn [k_len k_old k_cur k_new k_rel k_tbr k_pb k_negs];
    destruct old; cbn [k_len k_old k_cur k_new k_rel k_tbr k_pb k_negs]; try destruct cur;
    cbn [k_len k_old k_cur k_new k_rel k_tbr k_pb k_negs]; lia.
Qed.

Lemma creach_nonold c a b T : creach c a b -> k_pb b = k_pb a -> knonold a T -> knonold b T.
Proof.
  intros R. induction R as [x y H|x|x y z R1 IH1 R2 IH2]; intros E N.
  - eapply catom_nonold; eauto.
  - exact N.
  - pose proof (creach_mono _ _ _ R1) as M1. pose proof (creach_mono _ _ _ R2) as M2.
    unfold kmono in M1, M2. apply IH2; [lia|]. apply IH1; [lia|exact N].
Qed.

(** ---- settled ---- *)
Definition settled (w : world) (s : state) (o i : nat) : Prop :=
  exists k0 l0, In k0 (lookup_keys w o i) /\ In (k0, l0) (s_index s) /\
    (c_hier (w_cfg w) = true -> In (canonical_key o, l0) (s_index s)) /\
    needs_refresh s l0 = false /\ l_abs l0 < s_released s + N.of_nat (length (s_blocks s)).

Lemma settled_frame w s s' o i :
  creach (w_cfg w) (proj s) (proj s') -> incl (s_index s) (s_index s') ->
  s_pushbacks s' = s_pushbacks s -> settled w s o i -> settled w s' o i.
Proof.
  intros R I E (k0 & l0 & A & B & C & D & F). exists k0, l0.
  split; [exact A|]. split; [apply I, B|]. split; [intros Hh; apply I, C, Hh|].
  split.
  - apply (creach_nonold _ _ _ (l_abs l0) R); [exact E|exact D].
  - pose proof (creach_mono _ _ _ R) as M. unfold kmono, k_end in M. cbn in M. lia.
Qed.

Lemma settled_step w s e o i :
  kinv (w_cfg w) (proj s) -> s_pushbacks (fst (step w s e)) = s_pushbacks s ->
  settled w s o i -> settled w (fst (step w s e)) o i.
Proof. intros K E. destruct (step_creach w s e K) as [R I]. apply settled_frame; auto. Qed.

Lemma settled_run w o i : forall es s,
  kinv (w_cfg w) (proj s) -> s_pushbacks (fst (run w s es)) = s_pushbacks s ->
  settled w s o i -> settled w (fst (run w s es)) o i.
Proof.
  induction es as [|e t IH]; intros s K E ST; [exact ST|].
  rewrite run_cons in *. destruct (step_creach w s e K) as [R _].
  pose proof (creach_kinv _ _ _ R K) as K1.
  pose proof (counters_monotone w (fst (step w s e)) t K1) as M. cbv zeta in M.
  apply creach_mono in R. unfold kmono in R. cbn in R.
  apply IH; [exact K1|lia|]. apply settled_step; [exact K|lia|exact ST].
Qed.

Lemma settled_of_placed w s o i T :
  (c_hier (w_cfg w) = true -> hinv s) ->
  placed w s o i T -> kfresh (proj s) T -> settled w s o i.
Proof.
  intros HH (k & l & A & B & C) (F1 & F2 & F3). unfold k_end in F3. cbn in F1, F2, F3. subst T.
  exists k, l. split; [exact A|]. split; [exact B|]. split.
  - intros Hh. destruct (lookup_keys_hier w o i k Hh A) as (a & ->).
    exact (proj1 (HH Hh) _ _ _ B).
  - split; [unfold needs_refresh; lia|lia].
Qed.

(** what a lookup finds in a settled state: a location that is not old, or
    (hierarchical) an old one while the canonical entry is not old *)
Lemma settled_lookup w s o i k l :
  settled w s o i -> least_specific s (lookup_keys w o i) = Some (k, l) ->
  needs_refresh s l = false \/
  (c_hier (w_cfg w) = true /\ exists cl, index_get s (canonical_key o) = Some cl /\ needs_refresh s cl = false).
Proof.
  intros (k0 & l0 & A & B & C & D & F) LS.
  apply least_specific_some in LS. destruct LS as [KI IG].
  pose proof (index_get_in _ _ _ IG) as [IN V].
  destruct (needs_refresh s l) eqn:NR; [right|left; reflexivity].
  destruct (loc_valid s l0) eqn:V0.
  - destruct (c_hier (w_cfg w)) eqn:Hh.
    + split; [reflexivity|].
      destruct (index_get_newest s (canonical_key o) l0 (C eq_refl) V0) as (cl & G & LE & _).
      exists cl. split; [exact G|]. unfold needs_refresh in *. lia.
    + exfalso. unfold lookup_keys in A, KI. rewrite Hh in A, KI.
      destruct A as [<-|[]]. destruct KI as [<-|[]].
      destruct (index_get_newest s _ l0 B V0) as (l' & G & LE & _).
      rewrite IG in G. inversion G; subst l'. unfold needs_refresh in *. lia.
  - exfalso. unfold loc_valid in V, V0. unfold needs_refresh in *. lia.
Qed.

(** ---- block signatures: (uid, cursor) of the listed blocks ---- *)
Definition bsig (b : block) : nat * N := (b_uid b, b_cursor b).
Definition sigs (s : state) : list (nat * N) := map bsig (s_blocks s).

Lemma map_uid_sig f uid l : (forall b, bsig (f b) = bsig b) -> map bsig (map_uid f uid l) = map bsig l.
Proof.
  intros H. induction l as [|b t IH]; cbn; [reflexivity|].
  destruct (Nat.eqb (b_uid b) uid); cbn; [rewrite H|rewrite IH]; reflexivity.
Qed.
Lemma sigs_pin s uid : sigs (pin s uid) = sigs s.
Proof. unfold sigs, pin, upd_blocks; cbn [s_blocks]. apply map_uid_sig. reflexivity. Qed.
Lemma dev_pin s uid : s_dev (pin s uid) = s_dev s. Proof. reflexivity. Qed.
Lemma sigs_unpin c s uid : sigs (unpin c s uid) = sigs s.
Proof.
  unfold unpin. destruct (find_uid uid (s_blocks s)).
  - unfold sigs, upd_blocks; cbn [s_blocks]. apply map_uid_sig. reflexivity.
  - destruct (find_uid uid (s_zombies s)); [|reflexivity].
    destruct (Nat.leb (b_use b) 1); [destruct (in_memory c)|]; reflexivity.
Qed.
Lemma dev_unpin c s uid : s_dev (unpin c s uid) = s_dev s.
Proof.
  unfold unpin. destruct (find_uid uid (s_blocks s)); [reflexivity|].
  destruct (find_uid uid (s_zombies s)); [|reflexivity].
  destruct (Nat.leb (b_use b) 1); [destruct (in_memory c)|]; reflexivity.
Qed.

Lemma alloc_grew_false s0 s1 : sigs s1 = sigs s0 -> alloc_grew s0 s1 = false.
Proof.
  intros E. unfold alloc_grew. apply negb_false_iff. apply forallb_forall. intros b Hb.
  apply orb_true_iff. right. unfold blk_sig_in. apply existsb_exists.
  assert (I : In (bsig b) (sigs s0)) by (rewrite <- E; unfold sigs; apply in_map; exact Hb).
  unfold sigs in I. apply in_map_iff in I. destruct I as (b0 & E0 & H0).
  exists b0. split; [exact H0|]. unfold bsig in E0. inversion E0.
  rewrite Nat.eqb_refl, N.eqb_refl. reflexivity.
Qed.

(** "nothing allocated, medium untouched" *)
Definition quiet (s s' : state) : Prop := sigs s' = sigs s /\ s_dev s' = s_dev s.
Lemma quiet_refl s : quiet s s. Proof. split; reflexivity. Qed.
Lemma quiet_trans a b c : quiet a b -> quiet b c -> quiet a c.
Proof. intros [A1 A2] [B1 B2]. split; congruence. Qed.

Lemma owr_norefresh w s o l fk r s' :
  needs_refresh s l = false -> open_with_refresh w s o l fk = (r, s') ->
  quiet s s' /\ (forall t, r = Ok t -> exists u, t = TGet o u l None fk).
Proof.
  intros NR H. unfold open_with_refresh in H.
  destruct (block_of_loc s l) as [b|]; [|inversion H; subst; split; [apply quiet_refl|intros; discriminate]].
  rewrite NR in H. inversion H; subst. split.
  - split; [apply sigs_pin|reflexivity].
  - intros t E; inversion E; subst. eauto.
Qed.

Lemma quiet_index_put s k l : quiet s (index_put s k l).
Proof. split; reflexivity. Qed.

Lemma sync_of_canonical s o k cl :
  index_get s (canonical_key o) = Some cl -> needs_refresh s cl = false ->
  sync_from_canonical s o k = Some (cl, index_put s k cl).
Proof. intros G N. unfold sync_from_canonical. rewrite G, N. reflexivity. Qed.

(** a Get-open of a settled object allocates nothing, writes nothing and
    parks a reader without a pending copy *)
Lemma settled_get_open w s o i r s' :
  settled w s o i -> get_open w s o i = (r, s') ->
  quiet s s' /\ (forall t, r = Ok t -> exists u l f, t = TGet o u l None f).
Proof.
  intros ST H. unfold get_open in H.
  destruct (least_specific s (lookup_keys w o i)) as [[k l]|] eqn:LS.
  2:{ inversion H; subst. split; [apply quiet_refl|intros; discriminate]. }
  destruct (settled_lookup w s o i k l ST LS) as [NR|(Hh & cl & G & NC)].
  - rewrite NR in H. cbn [negb] in H. apply owr_norefresh in H; [|exact NR].
    destruct H as [Q HT]. split; [exact Q|]. intros t E. destruct (HT t E) as (u & ->). eauto.
  - destruct (needs_refresh s l) eqn:NR; cbn [negb] in H.
    + rewrite Hh in H. rewrite (sync_of_canonical s o k cl G NC) in H.
      apply owr_norefresh in H.
      * destruct H as [Q HT]. split; [eapply quiet_trans; [apply quiet_index_put|exact Q]|].
        intros t E. destruct (HT t E) as (u & ->). eauto.
      * rewrite (needs_refresh_proj s _ cl); [exact NC|reflexivity].
    + apply owr_norefresh in H; [|exact NR].
      destruct H as [Q HT]. split; [exact Q|]. intros t E. destruct (HT t E) as (u & ->). eauto.
Qed.

Lemma quiet_thr_set s s' tid t : quiet s s' -> quiet s (thr_set s' tid t).
Proof. intros [A B]. split; [exact A|exact B]. Qed.

Lemma pending_refresh_set s tid t :
  pending_refresh (thr_set s tid t) tid = match t with TGet _ _ _ (Some _) _ => true | _ => false end.
Proof. unfold pending_refresh. rewrite thr_get_set, Nat.eqb_refl. reflexivity. Qed.

Theorem settled_step_get_open w s tid o i s1 mo :
  settled w s o i -> step w s (OGetOpen tid o i) = (s1, mo) ->
  quiet s s1 /\ (mo = Parked -> pending_refresh s1 tid = false).
Proof.
  intros ST ES.
  destruct (step_getopen w s tid o i s1 mo ES) as [[-> ->]|[(e & GO & ->)|(t & s0 & GO & -> & ->)]].
  - split; [apply quiet_refl|discriminate].
  - apply settled_get_open in GO; [|exact ST]. split; [exact (proj1 GO)|discriminate].
  - apply settled_get_open in GO; [|exact ST]. destruct GO as [Q HT].
    split; [apply quiet_thr_set; exact Q|]. intros _.
    destruct (HT t eq_refl) as (u & l & f & ->). rewrite pending_refresh_set. reflexivity.
Qed.

(** FindMissing, one digest in a settled state *)
Lemma settled_fm_refresh_one w s o i r s' :
  settled w s o i -> fm_refresh_one w s o i = (r, s') ->
  quiet s s' /\ proj s' = proj s /\ incl (s_index s) (s_index s').
Proof.
  intros ST H. unfold fm_refresh_one in H.
  destruct (least_specific s (lookup_keys w o i)) as [[k l]|] eqn:LS.
  2:{ inversion H; subst. split; [apply quiet_refl|]. split; [reflexivity|apply incl_refl]. }
  destruct (settled_lookup w s o i k l ST LS) as [NR|(Hh & cl & G & NC)].
  - rewrite NR in H. cbn [negb] in H. inversion H; subst.
    split; [apply quiet_refl|]. split; [reflexivity|apply incl_refl].
  - destruct (needs_refresh s l); cbn [negb] in H.
    + rewrite Hh in H. rewrite (sync_of_canonical s o k cl G NC) in H. inversion H; subst.
      split; [apply quiet_index_put|]. split; [reflexivity|]. apply incl_tl, incl_refl.
    + inversion H; subst. split; [apply quiet_refl|]. split; [reflexivity|apply incl_refl].
Qed.

Lemma settled_same w s s' o i :
  proj s' = proj s -> incl (s_index s) (s_index s') -> settled w s o i -> settled w s' o i.
Proof.
  intros P I. apply settled_frame; [rewrite P; apply creach_refl|exact I|].
  change (k_pb (proj s') = k_pb (proj s)). rewrite P. reflexivity.
Qed.

Lemma settled_fm_phase2 w : forall todo s missing r s',
  (forall pos o i, In (pos, (o, i)) todo -> settled w s o i) ->
  fm_phase2 w s todo missing = (r, s') -> quiet s s'.
Proof.
  induction todo as [|[pos0 [o0 i0]] t IH]; intros s missing r s' HS H; cbn [fm_phase2] in H.
  - inversion H; subst. apply quiet_refl.
  - destruct (fm_refresh_one w s o0 i0) as [r1 s1] eqn:E1.
    apply settled_fm_refresh_one in E1; [|eapply HS; left; reflexivity].
    destruct E1 as (Q1 & P1 & I1).
    assert (HS1 : forall pos o i, In (pos, (o, i)) t -> settled w s1 o i).
    { intros pos o i Hin. eapply settled_same; [exact P1|exact I1|]. eapply HS. right. exact Hin. }
    destruct r1 as [[|]|e].
    + eapply quiet_trans; [exact Q1|eapply IH; eauto].
    + eapply quiet_trans; [exact Q1|eapply IH; eauto].
    + inversion H; subst. exact Q1.
Qed.

(** a FindMissing all of whose digests are settled allocates and writes nothing *)
Lemma settled_find_missing w s ds r s' :
  (forall o i, In (o, i) ds -> settled w s o i) ->
  find_missing w s ds = (r, s') -> quiet s s'.
Proof.
  intros HS H. unfold find_missing in H. eapply settled_fm_phase2; [|exact H].
  intros pos o i Hin. apply filter_In in Hin. destruct Hin as [Hin _].
  apply enumerate_in in Hin. destruct Hin as [_ Hn]. apply nth_error_In in Hn. apply HS, Hn.
Qed.

Theorem settled_step_fm w s ds s1 mo :
  (forall o i, In (o, i) ds -> settled w s o i) ->
  step w s (OFindMissing ds) = (s1, mo) -> quiet s s1.
Proof.
  intros HS ES.
  destruct (step_fm w s ds s1 mo ES) as [[_ ->]|[(e & FM & _)|(m & FM & _)]].
  - apply quiet_refl.
  - eapply settled_find_missing; eauto.
  - eapply settled_find_missing; eauto.
Qed.

(** ---- how an object becomes settled ---- *)
Lemma run_kinv w s es : kinv (w_cfg w) (proj s) -> kinv (w_cfg w) (proj (fst (run w s es))).
Proof. intros K. destruct (run_frame w es s K) as [R _]. eapply creach_kinv; eauto. Qed.

Lemma step_kinv w s e : kinv (w_cfg w) (proj s) -> kinv (w_cfg w) (proj (fst (step w s e))).
Proof. intros K. destruct (step_creach w s e K) as [R _]. eapply creach_kinv; eauto. Qed.

Lemma step_hinv' w s e :
  (c_hier (w_cfg w) = true -> hinv s) -> (c_hier (w_cfg w) = true -> hinv (fst (step w s e))).
Proof. intros HH Hh. destruct (step w s e) as [s1 o] eqn:E. eapply step_hinv; eauto. Qed.
Lemma run_hinv' w s es :
  (c_hier (w_cfg w) = true -> hinv s) -> (c_hier (w_cfg w) = true -> hinv (fst (run w s es))).
Proof. intros HH Hh. apply run_hinv; auto. Qed.

(** Get: reader obtained without a pending copy *)
Lemma get_open_settles w s tid o i s1 :
  kinv (w_cfg w) (proj s) -> (c_hier (w_cfg w) = true -> hinv s) ->
  step w s (OGetOpen tid o i) = (s1, Parked) -> pending_refresh s1 tid = false ->
  settled w s1 o i.
Proof.
  intros K HH ES PR.
  pose proof (step_hinv' w s (OGetOpen tid o i) HH) as HH1. rewrite ES in HH1. cbn [fst] in HH1.
  destruct (step_getopen w s tid o i s1 Parked ES) as [[X _]|[(e & _ & X)|(t & s0 & GO & -> & _)]];
    try discriminate.
  apply get_open_spec in GO; [|exact K]. destruct GO as (_ & _ & HP).
  destruct (HP t eq_refl) as (u & l & r & f & -> & HP').
  rewrite pending_refresh_set in PR. destruct r as [wr|]; [discriminate|].
  destruct HP' as (T & PL & KF).
  eapply settled_of_placed; [exact HH1| |].
  - exact PL.
  - exact KF.
Qed.

(** Get: pending copy completed by a successful consumption, no block
    pushed back since the reader was obtained *)
Lemma get_consume_settles w s tid o i s1 sa sb bytes :
  kinv (w_cfg w) (proj s) -> (c_hier (w_cfg w) = true -> hinv s) ->
  step w s (OGetOpen tid o i) = (s1, Parked) -> pending_refresh s1 tid = true ->
  creach (w_cfg w) (proj s1) (proj sa) ->
  (c_hier (w_cfg w) = true -> hinv sa) ->
  thr_get (s_threads sa) tid = thr_get (s_threads s1) tid ->
  step w sa (OGetConsume tid) = (sb, Done cOK bytes) ->
  s_pushbacks sb = s_pushbacks s1 ->
  settled w sb o i.
Proof.
  intros K HH ES PR R1a HHa TH EC PB.
  destruct (step_getopen w s tid o i s1 Parked ES) as [[X _]|[(e & _ & X)|(t & s0 & GO & -> & _)]];
    try discriminate.
  apply get_open_spec in GO; [|exact K]. destruct GO as (F0 & _ & HP).
  destruct (HP t eq_refl) as (u & l & r & f & -> & HP').
  rewrite pending_refresh_set in PR. destruct r as [wr|]; [|discriminate].
  destruct HP' as ((k & KF & KL) & B1 & B2).
  rewrite thr_get_set, Nat.eqb_refl in TH.
  pose proof (creach_kinv _ _ _ (proj1 F0) K) as K0.
  assert (Ka : kinv (w_cfg w) (proj sa)) by (eapply creach_kinv; [exact R1a|exact K0]).
  pose proof (step_hinv' w sa (OGetConsume tid) HHa) as HHb. rewrite EC in HHb. cbn [fst] in HHb.
  destruct (step_creach w sa (OGetConsume tid) Ka) as [Rab _]. rewrite EC in Rab. cbn [fst] in Rab.
  destruct (step_getconsume w sa tid sb _ EC) as [[X _]|(o' & u' & l' & r' & f' & code & bs & s0' & HT' & GC & -> & X)];
    [discriminate|].
  rewrite TH in HT'. inversion HT'; subst o' u' l' r' f'. inversion X; subst code bs.
  apply get_consume_spec in GC. destruct GC as (_ & HR).
  destruct (HR eq_refl wr eq_refl) as (nl & A1 & A2 & A3).
  exists k, nl. split; [exact KL|]. split; [apply A3, KF|]. split.
  - intros Hh. destruct (lookup_keys_hier w o i k Hh KL) as (a & ->).
    refine (proj1 (HHb Hh) _ _ _ _). apply A3, KF.
  - assert (R1b : creach (w_cfg w) (proj (thr_set s0 tid (TGet o u l (Some wr) f))) (proj (thr_rm s0' tid))).
    { eapply creach_trans; [exact R1a|exact Rab]. }
    split.
    + apply (creach_nonold _ _ _ (l_abs nl) R1b); [exact PB|].
      unfold knonold. cbn. rewrite A1. unfold k_end in B2. cbn in B1, B2. lia.
    + pose proof (creach_mono _ _ _ R1b) as M. unfold kmono, k_end in M. cbn in M.
      unfold k_end in B2. cbn in B1, B2. cbn. lia.
Qed.

(** single-digest FindMissing that reports the object present *)
Lemma find_missing_settles w s o i s1 :
  kinv (w_cfg w) (proj s) -> (c_hier (w_cfg w) = true -> hinv s) ->
  step w s (OFindMissing [(o, i)]) = (s1, Missing cOK []) -> settled w s1 o i.
Proof.
  intros K HH ES.
  pose proof (step_hinv' w s (OFindMissing [(o, i)]) HH) as HH1. rewrite ES in HH1. cbn [fst] in HH1.
  destruct (step_fm w s _ s1 _ ES) as [[X _]|[(e & FE & X)|(m & FM & X)]]; [discriminate| |].
  - inversion X; subst. apply find_missing_err in FE; [|exact K]. contradiction.
  - inversion X as [X']. assert (m = []).
    { destruct m as [|p m']; [reflexivity|]. exfalso.
      assert (In p (sort_nat (p :: m'))) by (apply sort_nat_in; left; reflexivity).
      rewrite <- X' in H. destruct H. }
    subst m. apply find_missing_spec in FM; [|exact K]. destruct FM as (_ & _ & HP).
    destruct (HP 0%nat o i (or_introl eq_refl) (fun F => F)) as (sm & _ & _ & (T & PL & KF) & X4).
    rewrite <- (X4 (le_n 1)). rewrite <- (X4 (le_n 1)) in HH1.
    eapply settled_of_placed; eauto.
Qed.

(** ---- the theorems ---- *)
Definition get_completed (w : world) (s1 : state) (tid : nat) (es : list op) : Prop :=
  pending_refresh s1 tid = false \/
  exists es1 es2 bytes,
    es = es1 ++ OGetConsume tid :: es2 /\
    thr_get (s_threads (fst (run w s1 es1))) tid = thr_get (s_threads s1) tid /\
    snd (step w (fst (run w s1 es1)) (OGetConsume tid)) = Done cOK bytes.

Lemma run_app w : forall es1 es2 s, fst (run w s (es1 ++ es2)) = fst (run w (fst (run w s es1)) es2).
Proof.
  induction es1 as [|e t IH]; intros es2 s; [reflexivity|].
  cbn [app]. rewrite !run_cons. apply IH.
Qed.

Lemma wrote_open_quiet w s tid o i s1 : quiet s s1 -> wrote w s (OGetOpen tid o i) s1 = false.
Proof. intros [Q _]. cbn [wrote]. rewrite (alloc_grew_false _ _ Q). reflexivity. Qed.
Lemma wrote_fm_quiet w s ds s1 : quiet s s1 -> wrote w s (OFindMissing ds) s1 = false.
Proof. intros [Q _]. cbn [wrote]. apply alloc_grew_false, Q. Qed.

Lemma get_settled_after w s tid o i s1 es :
  kinv (w_cfg w) (proj s) -> (c_hier (w_cfg w) = true -> hinv s) ->
  step w s (OGetOpen tid o i) = (s1, Parked) ->
  get_completed w s1 tid es ->
  s_pushbacks (fst (run w s1 es)) = s_pushbacks s1 ->
  settled w (fst (run w s1 es)) o i.
Proof.
  intros K HH ES GC PB.
  pose proof (step_kinv w s (OGetOpen tid o i) K) as K1. rewrite ES in K1. cbn [fst] in K1.
  pose proof (step_hinv' w s (OGetOpen tid o i) HH) as HH1. rewrite ES in HH1. cbn [fst] in HH1.
  destruct GC as [PR|(es1 & es2 & bytes & -> & TH & OK)].
  - apply settled_run; [exact K1|exact PB|]. exact (get_open_settles w s tid o i s1 K HH ES PR).
  - destruct (pending_refresh s1 tid) eqn:PR.
    2:{ apply settled_run; [exact K1|exact PB|]. exact (get_open_settles w s tid o i s1 K HH ES PR). }
    rewrite run_app in *. rewrite run_cons in *.
    set (sa := fst (run w s1 es1)) in *.
    destruct (step w sa (OGetConsume tid)) as [sb ob] eqn:EC. cbn [fst snd] in *. subst ob.
    pose proof (run_kinv w s1 es1 K1) as Ka. fold sa in Ka.
    pose proof (step_kinv w sa (OGetConsume tid) Ka) as Kb. rewrite EC in Kb. cbn [fst] in Kb.
    pose proof (counters_monotone w s1 es1 K1) as M1. cbv zeta in M1. fold sa in M1.
    pose proof (counters_monotone w sb es2 Kb) as M3. cbv zeta in M3.
    destruct (step_creach w sa (OGetConsume tid) Ka) as [Rab _]. rewrite EC in Rab. cbn [fst] in Rab.
    pose proof (creach_mono _ _ _ Rab) as M2. unfold kmono in M2. cbn in M2.
    apply settled_run; [exact Kb|lia|].
    eapply get_consume_settles with (s := s) (s1 := s1) (sa := sa); eauto.
    + destruct (run_frame w es1 s1 K1) as [R _]. exact R.
    + apply run_hinv'. exact HH1.
    + lia.
Qed.

(** (a) After a Get of (o,i) whose reader was obtained in [s1] and which has
    completed (no copy was pending, or the pending copy was completed by a
    successful consumption), as long as no block has been allocated since
    the reader was obtained, another Get-open of (o,i) allocates nothing,
    leaves the medium untouched and parks a reader without a pending copy -
    for every reachable state, every continuation [es] (whatever else it
    contains, corruption events included), flat and hierarchical, both
    growth policies, both read factories. *)
Theorem repeat_get_writes_nothing_all w es0 tid o i s1 es tid' s3 mo :
  let s := fst (run w (init_state (w_cfg w)) es0) in
  step w s (OGetOpen tid o i) = (s1, Parked) ->
  get_completed w s1 tid es ->
  let s2 := fst (run w s1 es) in
  s_pushbacks s2 = s_pushbacks s1 ->
  step w s2 (OGetOpen tid' o i) = (s3, mo) ->
  wrote w s2 (OGetOpen tid' o i) s3 = false /\ alloc_grew s2 s3 = false /\ s_dev s3 = s_dev s2 /\
  (mo = Parked -> pending_refresh s3 tid' = false).
Proof.
  cbv zeta. intros ES GC PB ES2.
  assert (ST : settled w (fst (run w s1 es)) o i).
  { eapply get_settled_after; eauto; [apply reachable_kinv|intros Hh; apply reachable_hinv, Hh]. }
  destruct (settled_step_get_open _ _ _ _ _ _ _ ST ES2) as [Q P].
  split; [apply wrote_open_quiet, Q|]. split; [apply alloc_grew_false, Q|]. split; [apply Q|exact P].
Qed.

(** the consumption of a reader without a pending copy writes nothing *)
Theorem consume_without_pending_copy_writes_nothing w s tid s' :
  pending_refresh s tid = false -> wrote w s (OGetConsume tid) s' = false.
Proof. intros P. cbn [wrote]. rewrite P. reflexivity. Qed.

(** (b) the same for a single-digest FindMissing that reported the object
    present *)
Theorem repeat_find_missing_writes_nothing_all w es0 o i s1 es s3 mo :
  let s := fst (run w (init_state (w_cfg w)) es0) in
  step w s (OFindMissing [(o, i)]) = (s1, Missing cOK []) ->
  let s2 := fst (run w s1 es) in
  s_pushbacks s2 = s_pushbacks s1 ->
  step w s2 (OFindMissing [(o, i)]) = (s3, mo) ->
  wrote w s2 (OFindMissing [(o, i)]) s3 = false /\ s_dev s3 = s_dev s2.
Proof.
  cbv zeta. intros ES PB ES2.
  set (s := fst (run w (init_state (w_cfg w)) es0)) in *.
  assert (K : kinv (w_cfg w) (proj s)) by apply reachable_kinv.
  assert (HH : c_hier (w_cfg w) = true -> hinv s) by (intros Hh; apply reachable_hinv, Hh).
  pose proof (step_kinv w s (OFindMissing [(o, i)]) K) as K1. rewrite ES in K1. cbn [fst] in K1.
  assert (ST : settled w (fst (run w s1 es)) o i).
  { apply settled_run; [exact K1|exact PB|]. exact (find_missing_settles w s o i s1 K HH ES). }
  assert (Q : quiet (fst (run w s1 es)) s3).
  { eapply settled_step_fm; [|exact ES2]. intros o' i' [E|[]]. inversion E; subst. exact ST. }
  split; [apply wrote_fm_quiet, Q|apply Q].
Qed.
