(** C01 proofs, allocator path, part B: BlockList.PopFront (with the
    quarantine mark advanced to at least the new release count). *)
From Coq Require Import List NArith ZArith Bool Arith Lia Permutation ZifyN ZifyNat ZifyBool.
From BBS Require Import Store.Model Store.Wf Store.P01Inv Store.P01AllocA.
Import ListNotations.
Open Scope N_scope.

Lemma pop_core w cl s b rest s' :
  DInv9 w cl s -> s_blocks s = b :: rest ->
  s_blocks s' = rest ->
  s_zombies s' = (if Nat.leb (b_use b) 1 then s_zombies s
                  else s_zombies s ++ [set_use b (pred (b_use b))]) ->
  s_free s' = (if Nat.leb (b_use b) 1
               then (if in_memory (w_cfg w) then s_free s else s_free s ++ [b_region b])
               else s_free s) ->
  s_next_region s' = s_next_region s -> s_next_uid s' = s_next_uid s -> s_dev s' = s_dev s ->
  s_released s' = s_released s + 1 -> s_tbr s' = N.max (s_tbr s) (s_released s + 1) ->
  s_index s' = s_index s ->
  DInv9 w cl s'.
Proof.
  intros [A U C] Hb Hb' Hz Hf Hnr Hnu Hd Hr Ht Hi.
  set (c := w_cfg w) in *.
  set (b' := set_use b (pred (b_use b))) in *.
  assert (L0 : live s = b :: rest ++ s_zombies s) by (unfold live; rewrite Hb; reflexivity).
  assert (L1 : live s' = (rest ++ s_zombies s) ++ (if Nat.leb (b_use b) 1 then [] else [b'])).
  { unfold live. rewrite Hb', Hz. destruct (Nat.leb (b_use b) 1).
    - rewrite app_nil_r. reflexivity.
    - rewrite app_assoc. reflexivity. }
  assert (E0 : abs_end s' = abs_end s).
  { unfold abs_end. rewrite Hb, Hb', Hr. cbn [length]. lia. }
  assert (Lsub : forall x, In x (live s') ->
            exists y, In y (live s) /\ b_uid y = b_uid x /\ b_region y = b_region x /\
                      b_cursor y = b_cursor x).
  { intros x Hx. rewrite L1 in Hx. apply in_app_or in Hx. destruct Hx as [Hx|Hx].
    - exists x. rewrite L0. split; [right; exact Hx|auto].
    - destruct (Nat.leb (b_use b) 1); [destruct Hx|]. destruct Hx as [<-|[]].
      exists b. rewrite L0. split; [left; reflexivity|auto]. }
  assert (Lfwd : forall y, In y (rest ++ s_zombies s) -> In y (live s')).
  { intros y Hy. rewrite L1. apply in_or_app. left. exact Hy. }
  assert (Lb : Nat.leb (b_use b) 1 = false -> In b' (live s')).
  { intros E. rewrite L1, E. apply in_or_app. right. left. reflexivity. }
  assert (Ub : (1 + nrefs (b_uid b) cl <= b_use b)%nat).
  { apply (u_blocks _ _ U). rewrite Hb. left. reflexivity. }
  assert (A' : AInv9 c s').
  { constructor.
    - destruct (n_rel _ _ A) as [R1 R2]. rewrite E0, Hr, Ht. unfold abs_end in *.
      rewrite Hb in *. cbn [length] in *. lia.
    - pose proof (n_uid_nd _ _ A) as ND. rewrite L0 in ND. cbn [map] in ND.
      rewrite L1, map_app. destruct (Nat.leb (b_use b) 1); cbn [map].
      + rewrite app_nil_r. inversion ND; assumption.
      + apply (Permutation_NoDup (Permutation_cons_append _ _)). exact ND.
    - intros x Hx. destruct (Lsub x Hx) as (y & Hy & e1 & _). rewrite Hnu, <- e1.
      apply (n_uid_lt _ _ A). exact Hy.
    - pose proof (n_reg_nd _ _ A) as ND. rewrite L0 in ND. cbn [map app] in ND.
      rewrite L1, Hf, map_app. destruct (Nat.leb (b_use b) 1); cbn [map].
      + rewrite app_nil_r. destruct (in_memory c).
        * inversion ND; assumption.
        * rewrite app_assoc. apply (Permutation_NoDup (Permutation_cons_append _ _)). exact ND.
      + refine (Permutation_NoDup _ ND).
        change (b_region b :: map b_region (rest ++ s_zombies s) ++ s_free s)
          with ((b_region b :: map b_region (rest ++ s_zombies s)) ++ s_free s).
        apply Permutation_app_tail. apply Permutation_cons_append.
    - intros Him x Hx. destruct (Lsub x Hx) as (y & Hy & _ & e2 & _). rewrite Hnr, <- e2.
      apply (n_reg_lt _ _ A Him). exact Hy.
    - intros Him. rewrite Hf, (n_free_im _ _ A Him), Him. destruct (Nat.leb _ _); reflexivity.
    - intros x Hx. destruct (Lsub x Hx) as (y & Hy & _ & _ & e3). rewrite <- e3.
      apply (n_cur _ _ A). exact Hy.
    - intros x Hx. destruct (Lsub x Hx) as (y & Hy & _ & e2 & _). rewrite Hd, <- e2.
      apply (n_dev_live _ _ A). exact Hy.
    - intros r Hin. rewrite Hd.
      assert (In r (s_free s) \/ r = b_region b) as [H|H].
      { rewrite Hf in Hin. destruct (Nat.leb _ _); [destruct (in_memory c)|]; auto.
        apply in_app_or in Hin. destruct Hin as [Hin|[<-|[]]]; auto. }
      + apply (n_dev_free _ _ A). exact H.
      + right. subst r. apply (n_dev_live _ _ A). rewrite L0. left. reflexivity.
    - intros k l Hin. rewrite E0. rewrite Hi in Hin. apply (n_idx _ _ A k l Hin). }
  assert (U' : UInv cl s').
  { constructor.
    - intros x Hx. rewrite Hb' in Hx. apply (u_blocks _ _ U). rewrite Hb. right. exact Hx.
    - intros z Hz'. rewrite Hz in Hz'. destruct (Nat.leb (b_use b) 1) eqn:E.
      + apply (u_zombies _ _ U). exact Hz'.
      + apply in_app_or in Hz'. destruct Hz' as [Hz'|[<-|[]]].
        * apply (u_zombies _ _ U). exact Hz'.
        * unfold b'. cbn [set_use b_uid b_use]. lia. }
  assert (M : Mono cl s s').
  { constructor.
    - exact Hi.
    - lia.
    - lia.
    - lia.
    - lia.
    - intros abs H1 H2. unfold uid_at. rewrite Hr, Hb, Hb'.
      replace (abs <? s_released s + 1) with false by lia.
      replace (abs <? s_released s) with false by lia.
      replace (N.to_nat (abs - s_released s)) with (S (N.to_nat (abs - (s_released s + 1)))) by lia.
      reflexivity.
    - intros x Hx _. destruct (Lsub x Hx) as (y & Hy & e1 & e2 & e3).
      exists y. repeat split; auto. lia.
    - intros. rewrite Hd. reflexivity.
    - intros y Hy Hn. rewrite L0 in Hy. destruct Hy as [<-|Hy].
      + destruct (Nat.leb (b_use b) 1) eqn:E.
        * exfalso. lia.
        * exists b'. split; [apply Lb; reflexivity|]. unfold b'. cbn [set_use b_uid b_region b_cursor].
          repeat split; lia.
      + exists y. split; [apply Lfwd; exact Hy|]. repeat split; lia.
    - intros y n Hn Hle. rewrite Hb in Hn. destruct n as [|n]; [lia|].
      cbn [nth_error] in Hn. apply nth_error_In in Hn.
      exists y. split; [apply Lfwd; apply in_or_app; left; exact Hn|]. repeat split; lia. }
  constructor; [exact A'|exact U'|]. apply (CInv_mono w cl s s' A A' M C).
Qed.

Lemma pop_front_fields c s b rest :
  s_blocks s = b :: rest ->
  s_blocks (pop_front c s) = rest /\
  s_zombies (pop_front c s) = (if Nat.leb (b_use b) 1 then s_zombies s
                               else s_zombies s ++ [set_use b (pred (b_use b))]) /\
  s_free (pop_front c s) = (if Nat.leb (b_use b) 1
                            then (if in_memory c then s_free s else s_free s ++ [b_region b])
                            else s_free s) /\
  s_next_region (pop_front c s) = s_next_region s /\
  s_next_uid (pop_front c s) = s_next_uid s /\
  s_dev (pop_front c s) = s_dev s /\
  s_released (pop_front c s) = s_released s + 1 /\
  s_tbr (pop_front c s) = s_tbr s /\
  s_index (pop_front c s) = s_index s /\
  s_old (pop_front c s) = s_old s /\ s_cur (pop_front c s) = s_cur s /\
  s_new (pop_front c s) = s_new s /\
  s_threads (pop_front c s) = s_threads s /\ s_negs (pop_front c s) = s_negs s.
Proof.
  intros H. unfold pop_front. rewrite H.
  destruct (Nat.leb (b_use b) 1); [destruct (in_memory c)|]; repeat split; reflexivity.
Qed.

(** PopFront with the quarantine mark moved along *)
Definition pop_max (c : config) (s : state) : state :=
  upd_rel (pop_front c s) (s_released s + 1) (N.max (s_tbr s) (s_released s + 1)).

Lemma pop_max_inv9 w cl s s' :
  DInv9 w cl s -> s_blocks s <> [] -> core9 (pop_max (w_cfg w) s) s' -> DInv9 w cl s'.
Proof.
  intros D Hne (e1 & e2 & e3 & e4 & e5 & e6 & e7 & e8 & e9).
  destruct (s_blocks s) as [|b rest] eqn:Hb; [congruence|].
  destruct (pop_front_fields (w_cfg w) s b rest Hb)
    as (f1 & f2 & f3 & f4 & f5 & f6 & f7 & f8 & f9 & _).
  unfold pop_max in *. cbn [s_blocks s_zombies s_free s_next_region s_next_uid s_dev s_released
                             s_tbr s_index upd_rel] in *.
  apply (pop_core w cl s b rest s' D Hb); congruence.
Qed.

Lemma pop_max_inv w cl s s' :
  DInv w cl s -> s_blocks s <> [] -> core9 (pop_max (w_cfg w) s) s' ->
  (s_old s' + s_cur s' + s_new s' = pred (s_old s + s_cur s + s_new s))%nat ->
  DInv w cl s'.
Proof.
  intros D Hne E L. apply DInv_split in D. destruct D as [D Ln].
  apply DInv_split. split; [apply (pop_max_inv9 w cl s s' D Hne E)|].
  destruct E as (e1 & _). unfold len_ok in *. rewrite e1.
  destruct (s_blocks s) as [|b rest] eqn:Hb; [congruence|].
  destruct (pop_front_fields (w_cfg w) s b rest Hb) as (f1 & _).
  unfold pop_max. cbn [s_blocks upd_rel]. rewrite f1. cbn [length] in Ln. lia.
Qed.
