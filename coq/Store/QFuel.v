(** C08Q — FUEL SUFFICIENCY of the loops of Store/Quarantine.v.

    The final allocation loop ([alloc_loop], fuel [alloc_fuel st] = new + 2)
    and the driver of a whole Put() ([put_loop], Run/R08Q.v, fuel [put_fuel])
    run on fuel; out of fuel is the explicit outcome code -1.  This file proves
    that the code is never produced:

    - [alloc_loop]: at every state in which the Put thread stands at [PAlloc]
      the first "new" block has space (that is how the third loop of
      findBlockWithSpace is left), every incrementAllocationBlockIndex leaves
      allocationAttemptsRemaining > 0, and the index cycles through the "new"
      blocks, so after at most new + 1 iterations the loop has returned;
    - [put_loop]: a ranking function ([rank]) that every Put-thread step
      strictly decreases and no callback changes, bounded at Put() entry by
      5 * (live + current + new + 1) <= [put_fuel].  The third loop of
      findBlockWithSpace terminates only when a FRESH block has room for the
      blob: sz <= blockSize - q_pb (the harness places q_pb probe bytes in
      every fresh block); sizes in (blockSize - q_pb, blockSize] make the real
      code rotate for ever, and the model run out of fuel ([sizes_ok] is
      therefore a hypothesis, and [ex_size_hypothesis_needed] the witness). *)
From Coq Require Import List ZArith Bool Lia.
From BBS Require Import Common.Sx Store.Quarantine Store.QuarantineProofs Run.R08Q Run.R08QProofs.
Import ListNotations.
Open Scope Z_scope.

(** ** The counters stay non-negative *)
Record NN (st : qst) : Prop := { n_old : 0 <= old st; n_cur : 0 <= cur st; n_new : 0 <= new st }.

Lemma nn_put_step c st : wfq c -> Inv st -> Cap c st -> NN st -> NN (put_step c st).
Proof.
  intros (Hq0 & Hq1 & Hq2) HI HC [Ho Hc Hn]. unfold put_step.
  destruct (pcs st) eqn:Epc; flds.
  - constructor; auto.
  - destruct (q_bs c <? sz); constructor; flds; auto.
  - destruct (rel st <? snap); [|constructor; flds; auto].
    destruct (blocks st) as [|x bl] eqn:Ebl; [constructor; flds; auto|].
    pose proof (i_sum _ HI) as Hs. unfold live in Hs. rewrite Ebl in Hs. cbn [length] in Hs.
    destruct (0 <? old st) eqn:Eo; [|destruct (0 <? cur st) eqn:Ec];
      try apply Z.ltb_lt in Eo; try apply Z.ltb_ge in Eo; try apply Z.ltb_lt in Ec; try apply Z.ltb_ge in Ec;
      constructor; flds; lia.
  - destruct (grow_new c (cur st) (new st)); constructor; flds; auto; lia.
  - destruct (has_space c st (old st + cur st) sz) as [[|]|]; [constructor; flds; auto| |constructor; flds; auto].
    destruct (q_new c <? new st) eqn:En; [apply Z.ltb_lt in En|]; constructor; flds; auto; lia.
  - destruct (grow_cur c (cur st)); [|destruct (q_old c <? old st + 1)]; constructor; flds; auto; lia.
  - destruct (blocks st); [constructor; flds; auto|].
    pose proof (c_pop _ _ HC) as Hp. rewrite Epc in Hp. destruct Hp as [_ Hp].
    constructor; flds; auto; lia.
  - constructor; flds; auto.
  - destruct (alloc_loop (alloc_fuel st) c st sz) as [st1 i] eqn:Eal.
    apply alloc_loop_frame in Eal. destruct Eal as (a & j & ->).
    destruct (i <? 0); constructor; flds; auto.
  - constructor; auto.
Qed.

Lemma detect_is_set_tbr st r : exists t md rs, detect st r = set_tbr st t md rs.
Proof.
  assert (Hid : st = set_tbr st (tbr st) (maxdet st) (rdrs st)) by (destruct st; reflexivity).
  unfold detect. destruct (nth_error (rdrs st) r) as [rd|]; [|eauto].
  destruct (r_open rd); [|eauto]. destruct (r_bad rd); eauto.
Qed.

Lemma nn_set_tbr st t md rs : NN st -> NN (set_tbr st t md rs).
Proof. intros [A B C]. constructor; flds; auto. Qed.

Lemma nn_step c st e : wfq c -> Inv st -> Cap c st -> NN st -> NN (step c st e).
Proof.
  intros Hw HI HC H. destruct e; cbn [step].
  - unfold start. destruct (pcs st); try exact H. destruct H. constructor; flds; auto.
  - apply nn_put_step; assumption.
  - unfold finish. destruct (pcs st); try exact H. destruct H. constructor; flds; auto.
  - unfold open. destruct (can_open st k); apply nn_set_tbr, H.
  - destruct (detect_is_set_tbr st r) as (t & md & rs & ->). apply nn_set_tbr, H.
Qed.

Lemma nn_init : NN init.
Proof. constructor; cbn; lia. Qed.

Lemma nn_init_of c : NN (init_of c).
Proof.
  destruct (init_of_shape c) as (o & cu & nw & E & Ho & Hcu & Hnw & _). cbv zeta in E. rewrite E.
  constructor; flds; assumption.
Qed.

(** ** The final allocation loop *)
Lemma has_space_nonneg c st i sz b : has_space c st i sz = Some b -> 0 <= i.
Proof. unfold has_space. destruct (i <? 0) eqn:E; [discriminate|]. intros _. apply Z.ltb_ge in E. exact E. Qed.

Lemma has_space_set_alloc c st a j i sz : has_space c (set_alloc st a j) i sz = has_space c st i sz.
Proof. reflexivity. Qed.

Lemma has_space_set_pc c st p i sz : has_space c (set_pc st p) i sz = has_space c st i sz.
Proof. reflexivity. Qed.

Lemma shiftl_1_pos n : 0 <= n -> 0 < Z.shiftl 1 n.
Proof. intros H. rewrite Z.shiftl_mul_pow2 by exact H. pose proof (Z.pow_pos_nonneg 2 n). lia. Qed.

Lemma incr_alloc_props c st : 0 < new st -> 0 <= q_new c ->
  exists a, incr_alloc c st = set_alloc st a ((aidx st + 1) mod new st) /\ 0 < a.
Proof.
  intros Hn Hq. unfold incr_alloc.
  pose proof (Z.mod_pos_bound (aidx st + 1) (new st) Hn) as Hm.
  destruct (new st - q_new c <=? (aidx st + 1) mod new st); eexists; (split; [reflexivity|]);
    apply shiftl_1_pos; lia.
Qed.

Lemma alloc_cycle c sz : 0 <= q_new c -> forall k st fuel,
  (k < fuel)%nat -> 0 < new st -> 0 < att st -> 0 <= aidx st < new st ->
  (aidx st = 0 \/ new st - aidx st <= Z.of_nat k) ->
  has_space c st (old st + cur st) sz = Some true ->
  snd (alloc_loop fuel c st sz) <> -1.
Proof.
  intros Hq. induction k as [|k IH]; intros st fuel Hf Hn Ha Hi Hd Hs;
    (destruct fuel as [|f]; [lia|]); cbn [alloc_loop];
    (assert (Eatt : (0 <? att st) = true) by (apply Z.ltb_lt; exact Ha)); rewrite Eatt.
  - assert (E0 : aidx st = 0) by lia. rewrite E0, Z.add_0_r, Hs. cbn [snd].
    pose proof (has_space_nonneg _ _ _ _ _ Hs). lia.
  - destruct (Z.eq_dec (aidx st) 0) as [E0|Hne].
    + rewrite E0, Z.add_0_r, Hs. cbn [snd]. pose proof (has_space_nonneg _ _ _ _ _ Hs). lia.
    + destruct (has_space c st (old st + cur st + aidx st) sz) as [[|]|] eqn:Eh.
      * cbn [snd]. pose proof (has_space_nonneg _ _ _ _ _ Eh). lia.
      * assert (En0 : (new st =? 0) = false) by (apply Z.eqb_neq; lia). rewrite En0.
        destruct (incr_alloc_props c st Hn Hq) as (a & -> & Hpos).
        assert (Hmod : (aidx st + 1) mod new st = (if aidx st + 1 =? new st then 0 else aidx st + 1)).
        { destruct (aidx st + 1 =? new st) eqn:E; [apply Z.eqb_eq in E; rewrite E; apply Z.mod_same; lia|].
          apply Z.eqb_neq in E. apply Z.mod_small. lia. }
        apply IH; flds; auto; try lia.
        -- apply Z.mod_pos_bound. lia.
        -- rewrite Hmod. destruct (aidx st + 1 =? new st) eqn:E; [left; reflexivity|right].
           apply Z.eqb_neq in E. lia.
      * cbn [snd]. lia.
Qed.

Lemma alloc_ok c st sz : 0 <= q_new c -> 0 <= new st ->
  has_space c st (old st + cur st) sz = Some true ->
  snd (alloc_loop (alloc_fuel st) c st sz) <> -1.
Proof.
  intros Hq Hn Hs. unfold alloc_fuel. remember (S (Z.to_nat (new st))) as f0 eqn:Ef0. cbn [alloc_loop].
  destruct (if 0 <? att st
            then match has_space c st (old st + cur st + aidx st) sz with
                 | Some true => Some (Some (old st + cur st + aidx st))
                 | Some false => None
                 | None => Some None
                 end
            else None) as [[i|]|] eqn:Etry.
  - cbn [snd]. destruct (0 <? att st); [|discriminate].
    destruct (has_space c st (old st + cur st + aidx st) sz) as [[|]|] eqn:Eh; try discriminate.
    injection Etry as <-. pose proof (has_space_nonneg _ _ _ _ _ Eh). lia.
  - cbn [snd]. lia.
  - destruct (new st =? 0) eqn:En0; [cbn [snd]; lia|]. apply Z.eqb_neq in En0.
    assert (Hn1 : 0 < new st) by lia.
    destruct (incr_alloc_props c st Hn1 Hq) as (a & -> & Hpos).
    pose proof (Z.mod_pos_bound (aidx st + 1) (new st) Hn1) as Hm.
    apply (alloc_cycle c sz Hq (Z.to_nat (new st) - 1)%nat); flds; auto; try lia.
Qed.

(** ** What the Put thread knows at [PPush] / [PAlloc] / [PDone]: no hypothesis
    on sizes *)
Definition AInv (c : qcfg) (st : qst) : Prop :=
  match pcs st with
  | PPush sz => has_space c st (old st + cur st) sz = Some false
  | PAlloc sz => has_space c st (old st + cur st) sz = Some true
  | PDone code _ => code <> -1
  | _ => True
  end.

Lemma ainv_put_step c st : wfq c -> NN st -> AInv c st -> AInv c (put_step c st).
Proof.
  intros (Hq0 & Hq1 & Hq2) HN HA. unfold AInv, put_step in *.
  destruct (pcs st) eqn:Epc; flds; try rewrite Epc; auto.
  - destruct (q_bs c <? sz); flds; auto. lia.
  - destruct (rel st <? snap); flds; auto. destruct (blocks st); flds; [lia|].
    destruct (0 <? old st); [|destruct (0 <? cur st)]; flds; rewrite Epc; auto.
  - destruct (grow_new c (cur st) (new st)); flds; rewrite ?Epc; auto.
  - destruct (has_space c st (old st + cur st) sz) as [[|]|] eqn:Eh; flds; auto; [|lia].
    destruct (q_new c <? new st); flds; rewrite ?Epc; auto.
  - destruct (grow_cur c (cur st)); [|destruct (q_old c <? old st + 1)]; flds; auto.
  - destruct (blocks st); flds; auto. lia.
  - pose proof (alloc_ok c st sz ltac:(lia) (n_new _ HN) HA) as Hok.
    destruct (alloc_loop (alloc_fuel st) c st sz) as [st1 i] eqn:Eal. cbn [snd] in Hok.
    apply alloc_loop_frame in Eal. destruct Eal as (a & j & ->).
    destruct (i <? 0); flds; auto. lia.
Qed.

Lemma ainv_set_tbr c st t md rs : AInv c st -> AInv c (set_tbr st t md rs).
Proof. unfold AInv. flds. destruct (pcs st); auto. Qed.

Lemma ainv_step c st e : wfq c -> NN st -> AInv c st -> AInv c (step c st e).
Proof.
  intros Hw HN H. destruct e; cbn [step].
  - unfold start. destruct (pcs st) eqn:Epc; try exact H. unfold AInv. flds. exact I.
  - apply ainv_put_step; assumption.
  - unfold finish. destruct (pcs st) eqn:Epc; try exact H. unfold AInv. flds. exact I.
  - unfold open. destruct (can_open st k); apply ainv_set_tbr, H.
  - destruct (detect_is_set_tbr st r) as (t & md & rs & ->). apply ainv_set_tbr, H.
Qed.

Lemma ainv_init c : AInv c init.
Proof. exact I. Qed.

Lemma init_of_idle c : pcs (init_of c) = Idle.
Proof. destruct (init_of_shape c) as (o & cu & nw & E & _). cbv zeta in E. rewrite E. reflexivity. Qed.

Lemma ainv_init_of c : AInv c (init_of c).
Proof. unfold AInv. rewrite init_of_idle. exact I. Qed.

Lemma reach_all c es : wfq c -> forall st, Inv st -> Cap c st -> NN st -> AInv c st ->
  Inv (run_evs c st es) /\ Cap c (run_evs c st es) /\ NN (run_evs c st es) /\ AInv c (run_evs c st es).
Proof.
  intros Hw. induction es as [|e t IH]; intros st HI HC HN HA; cbn [run_evs fold_left]; [auto|].
  apply IH; [apply inv_step, HI|apply cap_step; assumption|apply nn_step; assumption|apply ainv_step; assumption].
Qed.

(** The final allocation loop never runs out of fuel, and no Put() ever ends
    with the out-of-fuel code: every configuration with 0 <= old, 0 <= current,
    1 <= new, every interleaving. *)
Theorem alloc_fuel_suffices_reach c es :
  wfq c ->
  let st := run_evs c (init_of c) es in
  (forall sz, pcs st = PAlloc sz -> snd (alloc_loop (alloc_fuel st) c st sz) <> -1)
  /\ (forall code idx, pcs st = PDone code idx -> code <> -1).
Proof.
  intros Hw st.
  destruct (reach_all c es Hw (init_of c) (inv_init_of c (proj1 Hw)) (cap_init_of c) (nn_init_of c) (ainv_init_of c))
    as (HI & HC & HN & HA).
  fold st in HI, HC, HN, HA. split.
  - intros sz Epc. unfold AInv in HA. rewrite Epc in HA.
    destruct Hw as (_ & _ & Hq). apply alloc_ok; [lia|apply HN|exact HA].
  - intros code idx Epc. unfold AInv in HA. rewrite Epc in HA. exact HA.
Qed.

(** ** The Put() driver: a ranking function *)
Definition szok (c : qcfg) (sz : Z) : Prop := sz <= q_bs c - q_pb c.

Definition SInv (c : qcfg) (st : qst) : Prop :=
  match pcs st with
  | Idle | PDone _ _ => True
  | PStart sz => szok c sz \/ q_bs c < sz
  | PCatch sz _ | PGrow sz | PSpace sz | PPush sz | PPop sz | PRaise sz | PAlloc sz => szok c sz
  end.

Definition nospace (c : qcfg) (sz u : Z) : bool := negb (sz <=? q_bs c - u).

Fixpoint leadl (c : qcfg) (sz : Z) (l : list Z) : nat :=
  match l with
  | [] => O
  | u :: t => if nospace c sz u then S (leadl c sz t) else O
  end.

(** the number of consecutive blocks without room for the blob, from the first "new" block on *)
Definition lead (c : qcfg) (st : qst) (sz : Z) : nat :=
  leadl c sz (skipn (Z.to_nat (old st + cur st)) (blocks st)).

Definition cfgG (c : qcfg) : nat := Z.to_nat (q_cur c + q_new c).
Definition grows (c : qcfg) (st : qst) : nat :=
  if q_mut c then Z.to_nat (1 - new st) else Z.to_nat (q_cur c + q_new c - (cur st + new st)).
Definition nlive (st : qst) : nat := length (blocks st).

Definition rank (c : qcfg) (st : qst) : nat :=
  match pcs st with
  | Idle | PDone _ _ => 0
  | PStart _ => 5 + 5 * nlive st + 5 * cfgG c
  | PCatch _ snap => 4 + Z.to_nat (snap - rel st) + 5 * cfgG c + 4 * nlive st
  | PGrow _ => 3 + 5 * grows c st + 4 * nlive st
  | PSpace sz => 2 + 4 * lead c st sz
  | PPush sz => 1 + 4 * lead c st sz
  | PPop sz => 4 + 4 * lead c st sz
  | PRaise sz => 3 + 4 * lead c st sz
  | PAlloc _ => 1
  end%nat.

Lemma leadl_le c sz l : (leadl c sz l <= length l)%nat.
Proof. induction l as [|u t IH]; cbn [leadl length]; [lia|]. destruct (nospace c sz u); lia. Qed.

Lemma skipn_length_le {A} n (l : list A) : (length (skipn n l) <= length l)%nat.
Proof. rewrite skipn_length. lia. Qed.

Lemma lead_le c st sz : (lead c st sz <= nlive st)%nat.
Proof.
  unfold lead, nlive. pose proof (leadl_le c sz (skipn (Z.to_nat (old st + cur st)) (blocks st))).
  pose proof (skipn_length_le (Z.to_nat (old st + cur st)) (blocks st)). lia.
Qed.

Lemma nth_error_skipn {A} (l : list A) : forall n u, nth_error l n = Some u -> exists t, skipn n l = u :: t.
Proof.
  induction l as [|x r IH]; intros [|n] u H; cbn [nth_error] in H; try discriminate.
  - injection H as ->. eexists. reflexivity.
  - cbn [skipn]. apply IH. exact H.
Qed.

Lemma skipn_S_tail {A} (l : list A) : forall n u t, skipn n l = u :: t -> skipn (S n) l = t.
Proof.
  induction l as [|x r IH]; intros [|n] u t H; cbn [skipn] in *; try discriminate.
  - injection H as _ ->. reflexivity.
  - destruct r as [|y r']; [destruct n; discriminate|]. apply (IH n u t). exact H.
Qed.

Lemma skipn_snoc {A} (l : list A) x : forall n u t, skipn n l = u :: t -> skipn n (l ++ [x]) = u :: t ++ [x].
Proof.
  induction l as [|y r IH]; intros [|n] u t H; cbn [skipn app] in *; try discriminate.
  - injection H as -> ->. reflexivity.
  - apply IH. exact H.
Qed.

Lemma leadl_snoc_room c sz x : nospace c sz x = false -> forall t, leadl c sz (t ++ [x]) = leadl c sz t.
Proof.
  intros Hx. induction t as [|u t IH]; cbn [app leadl]; [rewrite Hx; reflexivity|].
  destruct (nospace c sz u); [rewrite IH|]; reflexivity.
Qed.

(** no room in block [i]: the list from [i] on starts with a block without room *)
Lemma has_space_false c st i sz : has_space c st i sz = Some false ->
  0 <= i /\ exists u t, skipn (Z.to_nat i) (blocks st) = u :: t /\ nospace c sz u = true.
Proof.
  intros H. pose proof (has_space_nonneg _ _ _ _ _ H) as Hi. split; [exact Hi|].
  unfold has_space in H. destruct (i <? 0); [discriminate|].
  destruct (nth_error (blocks st) (Z.to_nat i)) as [u|] eqn:En; [|discriminate].
  destruct (nth_error_skipn _ _ _ En) as (t & Et). exists u, t. split; [exact Et|].
  unfold nospace. injection H as ->. reflexivity.
Qed.

Lemma rank_set_tbr c st t md rs : rank c (set_tbr st t md rs) = rank c st.
Proof. reflexivity. Qed.

Lemma sinv_set_tbr c st t md rs : SInv c st -> SInv c (set_tbr st t md rs).
Proof. exact (fun H => H). Qed.

Lemma grows_pos c st : grow_new c (cur st) (new st) = true <-> (0 < grows c st)%nat.
Proof.
  unfold grow_new, grows. destruct (q_mut c); rewrite Z.ltb_lt; lia.
Qed.

(** Every step of the Put thread inside a Put() decreases the rank. *)
Lemma rank_decreases c st : wfq c -> Inv st -> Cap c st -> NN st -> AInv c st -> SInv c st ->
  pcs st <> Idle -> (forall a b, pcs st <> PDone a b) ->
  (rank c (put_step c st) < rank c st)%nat /\ SInv c (put_step c st).
Proof.
  intros (Hq0 & Hq1 & Hq2) HI HC [Ho Hc Hn] HA HS Hni Hnd.
  revert HA HS. unfold AInv. unfold SInv at 1. unfold put_step. unfold rank at 2.
  destruct (pcs st) eqn:Epc; intros HA HS; try congruence; try (exfalso; eapply Hnd; exact Epc).
  - (* PStart *)
    destruct (q_bs c <? sz) eqn:Eb; unfold rank, SInv, nlive; flds; [split; [lia|exact I]|].
    apply Z.ltb_ge in Eb. split; [|destruct HS; [assumption|lia]].
    pose proof (i_hi _ HI). pose proof (i_detlive _ HI). unfold tot, live in *. lia.
  - (* PCatch *)
    destruct (rel st <? snap) eqn:Elt.
    + apply Z.ltb_lt in Elt. destruct (blocks st) as [|x bl] eqn:Ebl.
      * unfold rank, SInv, nlive; flds. split; [lia|exact I].
      * destruct (0 <? old st); [|destruct (0 <? cur st)]; unfold rank, SInv, nlive; flds;
          rewrite ?Epc, ?Ebl; cbn [length]; (split; [lia|exact HS]).
    + apply Z.ltb_ge in Elt. unfold rank, SInv, nlive; flds. split; [|exact HS].
      assert (grows c st <= cfgG c)%nat by (unfold grows, cfgG; destruct (q_mut c); lia).
      change (grows c (set_pc st (PGrow sz))) with (grows c st). lia.
  - (* PGrow *)
    destruct (grow_new c (cur st) (new st)) eqn:Eg.
    + apply grows_pos in Eg. unfold rank, SInv, nlive, grows in *; flds. rewrite Epc, app_length. cbn [length].
      split; [|exact HS]. destruct (q_mut c); lia.
    + unfold rank, SInv, nlive; flds. split; [|exact HS].
      pose proof (lead_le c (set_pc st (PSpace sz)) sz) as Hl. unfold nlive in *; flds.
      unfold lead in *; flds. lia.
  - (* PSpace *)
    destruct (has_space c st (old st + cur st) sz) as [[|]|] eqn:Eh.
    + unfold rank, SInv, nlive; flds. split; [lia|exact HS].
    + destruct (has_space_false _ _ _ _ Eh) as (Hi & u & t & Esk & Hu).
      destruct (q_new c <? new st).
      * unfold rank, SInv, lead; flds. rewrite Epc. split; [|exact HS].
        replace (Z.to_nat (old st + (cur st + 1))) with (S (Z.to_nat (old st + cur st))) by lia.
        rewrite (skipn_S_tail _ _ _ _ Esk), Esk. cbn [leadl]. rewrite Hu. lia.
      * unfold rank, SInv, lead; flds. split; [lia|exact HS].
    + unfold rank, SInv, nlive; flds. split; [lia|exact I].
  - (* PPush *)
    destruct (has_space_false _ _ _ _ HA) as (Hi & u & t & Esk & Hu).
    assert (Hpb : nospace c sz (q_pb c) = false).
    { unfold nospace, szok in *. apply negb_false_iff, Z.leb_le. lia. }
    assert (Hlead : lead c st sz = S (leadl c sz t)) by (unfold lead; rewrite Esk; cbn [leadl]; rewrite Hu; reflexivity).
    assert (Hnext : forall o' c', o' + c' = old st + cur st + 1 ->
              leadl c sz (skipn (Z.to_nat (o' + c')) (blocks st ++ [q_pb c])) = leadl c sz t).
    { intros o' c' E. rewrite E. replace (Z.to_nat (old st + cur st + 1)) with (S (Z.to_nat (old st + cur st))) by lia.
      rewrite (skipn_S_tail _ _ _ _ (skipn_snoc _ _ _ _ _ Esk)). apply leadl_snoc_room, Hpb. }
    destruct (grow_cur c (cur st)); [|destruct (q_old c <? old st + 1)];
      unfold rank, SInv, nlive; flds; (split; [|exact HS]); unfold lead at 1; flds;
      rewrite Hnext by lia; rewrite Hlead; lia.
  - (* PPop *)
    destruct (blocks st) as [|x bl] eqn:Ebl; [unfold rank, SInv, nlive; flds; split; [lia|exact I]|].
    pose proof (c_pop _ _ HC) as Hp. rewrite Epc in Hp. destruct Hp as [_ Hp].
    unfold rank, SInv, lead; flds. rewrite Ebl. split; [|exact HS].
    replace (Z.to_nat (old st + cur st)) with (S (Z.to_nat (old st - 1 + cur st))) by lia.
    cbn [skipn]. lia.
  - (* PRaise *)
    unfold rank, SInv, lead; flds. split; [lia|exact HS].
  - (* PAlloc *)
    destruct (alloc_loop (alloc_fuel st) c st sz) as [st1 i] eqn:Eal.
    apply alloc_loop_frame in Eal. destruct Eal as (a & j & ->).
    destruct (i <? 0); unfold rank, SInv, nlive; flds; split; try lia; exact I.
Qed.

(** ** A whole Put() *)
Record All (c : qcfg) (st : qst) : Prop := {
  a_inv : Inv st; a_cap : Cap c st; a_nn : NN st; a_ainv : AInv c st; a_sinv : SInv c st
}.

Lemma all_put_step c st : wfq c -> All c st -> pcs st <> Idle -> (forall a b, pcs st <> PDone a b) ->
  All c (put_step c st) /\ (rank c (put_step c st) < rank c st)%nat.
Proof.
  intros Hw [HI HC HN HA HS] Hni Hnd.
  destruct (rank_decreases c st Hw HI HC HN HA HS Hni Hnd) as (Hr & HS').
  split; [|exact Hr]. constructor; auto using inv_put_step, cap_put_step, nn_put_step, ainv_put_step.
Qed.

Lemma all_detect c st r : wfq c -> All c st -> All c (detect st r) /\ rank c (detect st r) = rank c st.
Proof.
  intros Hw [HI HC HN HA HS]. split.
  - constructor; [apply inv_detect, HI|apply (cap_step c st (EDetect r)); assumption| | |];
      destruct (detect_is_set_tbr st r) as (t & md & rs & ->);
      [apply nn_set_tbr, HN|apply ainv_set_tbr, HA|apply sinv_set_tbr, HS].
  - destruct (detect_is_set_tbr st r) as (t & md & rs & ->). apply rank_set_tbr.
Qed.

Lemma all_fire c : wfq c -> forall rs st st' ds, All c st -> fire st rs = (st', ds) ->
  All c st' /\ rank c st' = rank c st /\ pcs st' = pcs st.
Proof.
  intros Hw. induction rs as [|r t IH]; intros st st' ds HA H; cbn [fire] in H.
  - injection H as <- <-. auto.
  - destruct (fire (detect st r) t) as [st1 os] eqn:Ef. injection H as <- <-.
    destruct (all_detect c st r Hw HA) as (A1 & A2).
    destruct (IH _ _ _ A1 Ef) as (B1 & B2 & B3).
    destruct (detect_frame st r) as (F1 & _). split; [exact B1|]. split; congruence.
Qed.

Lemma fire_pcs : forall rs st, pcs (fst (fire st rs)) = pcs st.
Proof.
  induction rs as [|r t IH]; intros st; cbn [fire]; [reflexivity|].
  specialize (IH (detect st r)). destruct (fire (detect st r) t) as [st1 os]. cbn [fst] in *.
  rewrite IH. apply detect_frame.
Qed.

Lemma put_loop_not_idle c : forall fuel st hooks,
  pcs st <> Idle -> pcs (fst (put_loop fuel c st hooks)) <> Idle.
Proof.
  induction fuel as [|f IH]; intros st hooks Hni.
  - assert (E : put_loop 0 c st hooks = (st, [])) by (cbn [put_loop]; destruct (pcs st); reflexivity).
    rewrite E. exact Hni.
  - destruct (pcs st) as [|sz|sz sn|sz|sz|sz|sz|sz|sz|a0 b0] eqn:Epc; [congruence|..].
    all: try (assert (E : put_loop (S f) c st hooks = (st, [])) by (cbn [put_loop]; rewrite Epc; reflexivity);
              rewrite E; cbn [fst]; rewrite Epc; discriminate).
    all: assert (E : put_loop (S f) c st hooks =
           match next_call c st with
           | Some kind =>
               let '(st1, ds) := fire st (hd [] hooks) in
               let '(st2, hs) := put_loop f c (put_step c st1) (tl hooks) in
               (st2, mk_hobs kind ds (snap st1) :: hs)
           | None => put_loop f c (put_step c st) hooks
           end) by (cbn [put_loop]; rewrite Epc; reflexivity).
    all: rewrite E; clear E; destruct (next_call c st) as [kind|].
    all: try (apply IH, put_step_not_idle; rewrite Epc; discriminate).
    all: pose proof (fire_pcs (hd [] hooks) st) as Hf; destruct (fire st (hd [] hooks)) as [st1 ds]; cbn [fst] in Hf;
         assert (Hni1 : pcs st1 <> Idle) by (rewrite Hf, Epc; discriminate);
         specialize (IH (put_step c st1) (tl hooks) (put_step_not_idle c st1 Hni1));
         destruct (put_loop f c (put_step c st1) (tl hooks)) as [st2 hs]; exact IH.
Qed.

Definition finished (st : qst) : Prop := pcs st = Idle \/ exists a b, pcs st = PDone a b.

Lemma put_loop_done c : wfq c -> forall fuel st hooks,
  All c st -> (rank c st <= fuel)%nat ->
  finished (fst (put_loop fuel c st hooks)) /\ All c (fst (put_loop fuel c st hooks)).
Proof.
  intros Hw. induction fuel as [|f IH]; intros st hooks HA Hr.
  - assert (Hfin : finished st).
    { unfold rank in Hr. unfold finished. destruct (pcs st); eauto; lia. }
    assert (E : put_loop 0 c st hooks = (st, [])) by (cbn [put_loop]; destruct (pcs st); reflexivity).
    rewrite E. cbn [fst]. auto.
  - destruct (pcs st) as [|sz|sz sn|sz|sz|sz|sz|sz|sz|a0 b0] eqn:Epc;
      try (assert (E : put_loop (S f) c st hooks = (st, [])) by (cbn [put_loop]; rewrite Epc; reflexivity);
           rewrite E; cbn [fst]; split; [unfold finished; rewrite Epc; eauto|exact HA]).
    all: assert (Hni : pcs st <> Idle) by (rewrite Epc; discriminate);
         assert (Hnd : forall a b, pcs st <> PDone a b) by (rewrite Epc; discriminate).
    all: assert (E : put_loop (S f) c st hooks =
           match next_call c st with
           | Some kind =>
               let '(st1, ds) := fire st (hd [] hooks) in
               let '(st2, hs) := put_loop f c (put_step c st1) (tl hooks) in
               (st2, mk_hobs kind ds (snap st1) :: hs)
           | None => put_loop f c (put_step c st) hooks
           end) by (cbn [put_loop]; rewrite Epc; reflexivity).
    all: rewrite E; clear E; destruct (next_call c st) as [kind|].
    all: try (destruct (all_put_step c st Hw HA Hni Hnd) as (A1 & A2); apply IH; [exact A1|lia]).
    all: destruct (fire st (hd [] hooks)) as [st1 ds] eqn:Ef;
         destruct (all_fire c Hw _ _ _ _ HA Ef) as (B1 & B2 & B3);
         assert (Hni1 : pcs st1 <> Idle) by congruence;
         assert (Hnd1 : forall a b, pcs st1 <> PDone a b) by (intros a b; rewrite B3; apply Hnd);
         destruct (all_put_step c st1 Hw B1 Hni1 Hnd1) as (A1 & A2);
         specialize (IH (put_step c st1) (tl hooks) A1 ltac:(lia));
         destruct (put_loop f c (put_step c st1) (tl hooks)) as [st2 hs]; exact IH.
Qed.

(** ** Whole schedules *)
Definition size_ok (c : qcfg) (o : op) : bool :=
  match o with
  | OPut sz _ => (sz <=? q_bs c - q_pb c) || (q_bs c <? sz)
  | _ => true
  end.
Definition sizes_ok (c : qcfg) (ops : list op) : bool := forallb (size_ok c) ops.

Definition not_out_of_fuel (b : oobs) : Prop :=
  match b with BPut code _ _ _ => code <> -1 | _ => True end.

Lemma put_fuel_bound c st sz : wfq c -> pcs st = Idle -> (rank c (start st sz) <= put_fuel c st)%nat.
Proof.
  intros (Hq0 & Hq1 & Hq2) Hidle. unfold rank, start, put_fuel, cfgG, nlive. rewrite Hidle. flds. lia.
Qed.

Lemma all_idle c st : Inv st -> Cap c st -> NN st -> pcs st = Idle -> All c st.
Proof. intros HI HC HN Hp. constructor; auto; [unfold AInv|unfold SInv]; rewrite Hp; exact I. Qed.

Lemma run_ops_no_fuel c : wfq c -> forall ops st,
  Inv st -> Cap c st -> NN st -> pcs st = Idle -> sizes_ok c ops = true ->
  Forall not_out_of_fuel (run_ops c st ops).
Proof.
  intros Hw. induction ops as [|o ops IH]; intros st HI HC HN Hidle Hsz; [constructor|].
  cbn [sizes_ok forallb] in Hsz. apply andb_prop in Hsz. destruct Hsz as [Ho Hsz].
  cbn [run_ops]. destruct o as [sz hooks|k bad|r|w|]; cbn [run_op].
  - assert (Est : pcs (start st sz) = PStart sz) by (unfold start; rewrite Hidle; reflexivity).
    assert (HA : All c (start st sz)).
    { constructor.
      - apply inv_start, HI.
      - apply (cap_step c st (EStart sz)); assumption.
      - apply (nn_step c st (EStart sz)); assumption.
      - unfold AInv. rewrite Est. exact I.
      - unfold SInv, szok. rewrite Est. cbn [size_ok] in Ho. apply orb_prop in Ho.
        destruct Ho as [Ho|Ho]; [left; apply Z.leb_le, Ho|right; apply Z.ltb_lt, Ho]. }
    destruct (put_loop_done c Hw _ _ hooks HA (put_fuel_bound c st sz Hw Hidle)) as (Hfin & HA2).
    assert (Hni : pcs (start st sz) <> Idle) by (rewrite Est; discriminate).
    pose proof (put_loop_not_idle c (put_fuel c st) (start st sz) hooks Hni) as Hx.
    destruct (put_loop (put_fuel c st) c (start st sz) hooks) as [st2 hs] eqn:El. cbn [fst] in Hfin, HA2, Hx.
    destruct HA2 as [HI2 HC2 HN2 HAI2 _].
    assert (Hcode : forall a b, pcs st2 = PDone a b -> a <> -1).
    { intros a b E. unfold AInv in HAI2. rewrite E in HAI2. exact HAI2. }
    assert (Hfi : pcs (finish st2) = Idle).
    { unfold finish. destruct Hfin as [E|(a & b & E)]; rewrite E; [exact E|reflexivity]. }
    assert (Hrest : Forall not_out_of_fuel (run_ops c (finish st2) ops)).
    { apply IH; auto; [apply inv_finish, HI2|apply (cap_step c st2 EEnd); assumption
                       |apply (nn_step c st2 EEnd); assumption]. }
    destruct Hfin as [E|(a & b & E)]; [congruence|]. rewrite E. cbv beta iota zeta.
    constructor; [cbn [not_out_of_fuel]; eapply Hcode; exact E|exact Hrest].
  - constructor; [exact I|]. apply IH; auto.
    + apply inv_open, HI.
    + apply (cap_step c st (EOpen k bad)); assumption.
    + apply (nn_step c st (EOpen k bad)); assumption.
    + unfold open. destruct (can_open st k); flds; exact Hidle.
  - constructor; [exact I|]. apply IH; auto.
    + apply inv_detect, HI.
    + apply (cap_step c st (EDetect r)); assumption.
    + apply (nn_step c st (EDetect r)); assumption.
    + destruct (detect_frame st r) as (F1 & _). congruence.
  - constructor; [exact I|]. apply IH; auto.
  - constructor; [exact I|]. apply IH; auto.
Qed.

(** No Put() of a schedule whose upload sizes fit a fresh block (or exceed the
    block size: rejected at once) ends with the out-of-fuel code: the
    exemption [code =? -1] of the monitor ([mon_ops], Run/R08Q.v) is never used
    on the model. *)
Theorem put_fuel_suffices_all c ops :
  wfq c -> sizes_ok c ops = true -> Forall not_out_of_fuel (run_ops c (init_of c) ops).
Proof.
  intros Hw Hs.
  apply run_ops_no_fuel; auto using cap_init_of, nn_init_of, init_of_idle.
  apply inv_init_of, Hw.
Qed.
