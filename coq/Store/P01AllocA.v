(** C01 proofs: the allocator path ([ocn_put]) preserves the data invariant.
    Part A: basic lemmas, extensionality of the invariant in the state
    fields it reads, and a generic monotonicity lemma for [CInv]. *)
From Coq Require Import List NArith ZArith Bool Arith Lia Permutation ZifyN ZifyNat ZifyBool.
From BBS Require Import Store.Model Store.Wf Store.P01Inv.
Import ListNotations.
Open Scope N_scope.

Definition frame_tin (s s' : state) : Prop :=
  s_threads s' = s_threads s /\ s_index s' = s_index s /\ s_negs s' = s_negs s.

Lemma frame_tin_refl s : frame_tin s s.
Proof. unfold frame_tin. repeat split; auto. Qed.

Lemma frame_tin_trans s1 s2 s3 : frame_tin s1 s2 -> frame_tin s2 s3 -> frame_tin s1 s3.
Proof.
  unfold frame_tin. intros [a1 [a2 a3]] [b1 [b2 b3]].
  repeat split; congruence.
Qed.

(** ---- lists ---- *)
Lemma NoDup_map_inj {A B} (f : A -> B) (l : list A) x y :
  NoDup (map f l) -> In x l -> In y l -> f x = f y -> x = y.
Proof.
  induction l as [|a l IH]; intros ND Hx Hy E; [destruct Hx|].
  cbn [map] in ND. inversion ND as [|u v Hn ND']; subst.
  destruct Hx as [->|Hx], Hy as [->|Hy]; auto.
  - exfalso. apply Hn. rewrite E. apply in_map. exact Hy.
  - exfalso. apply Hn. rewrite <- E. apply in_map. exact Hx.
Qed.

Lemma NoDup_app_l {A} (l1 l2 : list A) : NoDup (l1 ++ l2) -> NoDup l1.
Proof.
  induction l1 as [|a l1 IH]; intros H; [constructor|].
  cbn [app] in H. inversion H as [|u v Hn ND]; subst. constructor.
  - intros Hin. apply Hn. apply in_or_app. left. exact Hin.
  - apply IH. exact ND.
Qed.

Lemma NoDup_app_r {A} (l1 l2 : list A) : NoDup (l1 ++ l2) -> NoDup l2.
Proof.
  induction l1 as [|a l1 IH]; intros H; [exact H|].
  cbn [app] in H. inversion H; subst. apply IH. assumption.
Qed.

Lemma NoDup_app_disj {A} (l1 l2 : list A) x : NoDup (l1 ++ l2) -> In x l1 -> In x l2 -> False.
Proof.
  induction l1 as [|a l1 IH]; intros H H1 H2; [destruct H1|].
  cbn [app] in H. inversion H as [|u v Hn ND]; subst.
  destruct H1 as [->|H1].
  - apply Hn. apply in_or_app. right. exact H2.
  - apply IH; assumption.
Qed.

(** ---- block lookup ---- *)
Lemma find_uid_app uid l1 l2 :
  find_uid uid (l1 ++ l2) =
  match find_uid uid l1 with Some b => Some b | None => find_uid uid l2 end.
Proof.
  induction l1 as [|a l1 IH]; cbn [find_uid app]; [reflexivity|].
  destruct (Nat.eqb (b_uid a) uid); auto.
Qed.

Lemma find_block_live s uid : find_block s uid = find_uid uid (live s).
Proof.
  unfold find_block, live. rewrite find_uid_app.
  destruct (find_uid uid (s_blocks s)); reflexivity.
Qed.

Lemma find_uid_some uid l b : find_uid uid l = Some b -> In b l /\ b_uid b = uid.
Proof.
  induction l as [|a l IH]; cbn [find_uid]; [discriminate|].
  destruct (Nat.eqb (b_uid a) uid) eqn:E.
  - intros H; inversion H; subst. split; [left; reflexivity|apply Nat.eqb_eq; exact E].
  - intros H. destruct (IH H). split; [right|]; assumption.
Qed.

Lemma find_uid_in l b : NoDup (map b_uid l) -> In b l -> find_uid (b_uid b) l = Some b.
Proof.
  induction l as [|a l IH]; intros ND Hin; [destruct Hin|].
  cbn [find_uid]. cbn [map] in ND. inversion ND as [|x y Hn ND']; subst.
  destruct Hin as [->|Hin].
  - rewrite Nat.eqb_refl. reflexivity.
  - destruct (Nat.eqb (b_uid a) (b_uid b)) eqn:E.
    + apply Nat.eqb_eq in E. exfalso. apply Hn. rewrite E. apply in_map. exact Hin.
    + apply IH; assumption.
Qed.

Lemma binfo_some s uid cur reg :
  binfo s uid = Some (cur, reg) ->
  exists b, In b (live s) /\ b_uid b = uid /\ b_cursor b = cur /\ b_region b = reg.
Proof.
  unfold binfo. rewrite find_block_live.
  destruct (find_uid uid (live s)) as [b|] eqn:E; [|discriminate].
  intros H; inversion H; subst. apply find_uid_some in E. destruct E.
  exists b. auto.
Qed.

Lemma binfo_in s b :
  NoDup (map b_uid (live s)) -> In b (live s) ->
  binfo s (b_uid b) = Some (b_cursor b, b_region b).
Proof.
  intros ND Hin. unfold binfo. rewrite find_block_live, (find_uid_in _ _ ND Hin). reflexivity.
Qed.

Lemma uid_at_some s abs uid :
  uid_at s abs = Some uid ->
  s_released s <= abs /\
  exists b, nth_error (s_blocks s) (N.to_nat (abs - s_released s)) = Some b /\ b_uid b = uid.
Proof.
  unfold uid_at. destruct (abs <? s_released s) eqn:E; [discriminate|].
  destruct (nth_error (s_blocks s) (N.to_nat (abs - s_released s))) as [b|] eqn:En; [|discriminate].
  intros H; inversion H; subst. split; [lia|]. exists b. auto.
Qed.

Lemma uid_at_nth s n b :
  nth_error (s_blocks s) n = Some b -> uid_at s (s_released s + N.of_nat n) = Some (b_uid b).
Proof.
  intros H. unfold uid_at.
  replace (s_released s + N.of_nat n <? s_released s) with false by lia.
  replace (N.to_nat (s_released s + N.of_nat n - s_released s)) with n by lia.
  rewrite H. reflexivity.
Qed.

Lemma nth_error_lt {A} (l : list A) n x : nth_error l n = Some x -> (n < length l)%nat.
Proof. intros H. apply nth_error_Some. congruence. Qed.

(** ---- references ---- *)
Lemma nrefs_cons uid c cl : nrefs uid (c :: cl) = (cref uid c + nrefs uid cl)%nat.
Proof. reflexivity. Qed.

Lemma nrefs_in uid cl c : In c cl -> (cref uid c <= nrefs uid cl)%nat.
Proof.
  induction cl as [|a cl IH]; intros H; [destruct H|].
  rewrite nrefs_cons. destruct H as [->|H]; [lia|]. specialize (IH H). lia.
Qed.

Lemma nrefs_zero uid cl : (forall c, In c cl -> cref uid c = 0%nat) -> nrefs uid cl = 0%nat.
Proof.
  induction cl as [|a cl IH]; intros H; [reflexivity|].
  rewrite nrefs_cons, (H a (or_introl eq_refl)), IH; [reflexivity|].
  intros c Hc. apply H. right. exact Hc.
Qed.

(** a claim holding a reference names a live block *)
Lemma cref_live w s c uid :
  claim_ok w s c -> cref uid c <> 0%nat -> exists b, In b (live s) /\ b_uid b = uid.
Proof.
  destruct c as [wr acc|u l o|wr o]; cbn [cref claim_ok].
  - destruct (Nat.eqb (wr_uid wr) uid) eqn:E; [|congruence]. apply Nat.eqb_eq in E.
    intros (cur & reg & Hb & _) _. apply binfo_some in Hb. destruct Hb as (b & Hin & Hu & _).
    exists b. split; congruence.
  - destruct (Nat.eqb u uid) eqn:E; [|congruence]. apply Nat.eqb_eq in E.
    intros (cur & reg & Hb & _) _. apply binfo_some in Hb. destruct Hb as (b & Hin & Hu & _).
    exists b. split; congruence.
  - congruence.
Qed.

Lemma nrefs_not_live w cl s uid :
  (forall c, In c cl -> claim_ok w s c) ->
  (forall b, In b (live s) -> b_uid b <> uid) -> nrefs uid cl = 0%nat.
Proof.
  intros Hc Hn. apply nrefs_zero. intros c Hin.
  destruct (Nat.eq_dec (cref uid c) 0) as [E|E]; [exact E|].
  destruct (cref_live w s c uid (Hc c Hin) E) as (b & Hb & Hu).
  exfalso. exact (Hn b Hb Hu).
Qed.

(** ---- the invariant without the counters ---- *)
Record AInv9 (c : config) (s : state) : Prop := {
  n_rel : s_released s <= s_tbr s /\ s_tbr s <= abs_end s;
  n_uid_nd : NoDup (map b_uid (live s));
  n_uid_lt : forall b, In b (live s) -> (b_uid b < s_next_uid s)%nat;
  n_reg_nd : NoDup (map b_region (live s) ++ s_free s);
  n_reg_lt : in_memory c = true -> forall b, In b (live s) -> (b_region b < s_next_region s)%nat;
  n_free_im : in_memory c = true -> s_free s = [];
  n_cur : forall b, In b (live s) -> b_cursor b <= c_bs c;
  n_dev_live : forall b, In b (live s) -> length (dev_get (s_dev s) (b_region b)) = N.to_nat (c_bs c);
  n_dev_free : forall r, In r (s_free s) ->
               dev_get (s_dev s) r = [] \/ length (dev_get (s_dev s) r) = N.to_nat (c_bs c);
  n_idx : forall k l, In (k, l) (s_index s) -> l_abs l < abs_end s;
}.

Record DInv9 (w : world) (cl : list claim) (s : state) : Prop := {
  e_a : AInv9 (w_cfg w) s;
  e_u : UInv cl s;
  e_c : CInv w cl s;
}.

Definition len_ok (s : state) : Prop :=
  length (s_blocks s) = (s_old s + s_cur s + s_new s)%nat.

Lemma DInv_split w cl s : DInv w cl s <-> DInv9 w cl s /\ len_ok s.
Proof.
  split.
  - intros [[] U C]. split; [|assumption]. constructor; [constructor|..]; assumption.
  - intros [[[] U C] L]. constructor; [constructor|..]; assumption.
Qed.

Definition core9 (s s' : state) : Prop :=
  s_blocks s' = s_blocks s /\ s_zombies s' = s_zombies s /\ s_free s' = s_free s /\
  s_next_region s' = s_next_region s /\ s_next_uid s' = s_next_uid s /\ s_dev s' = s_dev s /\
  s_released s' = s_released s /\ s_tbr s' = s_tbr s /\ s_index s' = s_index s.

Lemma core9_refl s : core9 s s.
Proof. unfold core9. repeat split. Qed.

Lemma DInv9_ext w cl s s' : core9 s s' -> DInv9 w cl s -> DInv9 w cl s'.
Proof.
  intros (e1 & e2 & e3 & e4 & e5 & e6 & e7 & e8 & e9) [[] [] []].
  constructor; constructor;
    unfold claim_ok, cw_ok, cr_ok, cu_ok, idx_ok, loc_valid, binfo, find_block, uid_at, abs_end, live in *;
    rewrite ?e1, ?e2, ?e3, ?e4, ?e5, ?e6, ?e7, ?e8, ?e9; assumption.
Qed.

Lemma DInv_ext w cl s s' : core9 s s' -> len_ok s' -> DInv w cl s -> DInv w cl s'.
Proof.
  intros E L H. apply DInv_split. split; [|exact L].
  apply (DInv9_ext w cl s s' E). apply DInv_split in H. apply H.
Qed.

(** ---- transitions that keep blocks (possibly advancing cursors) ---- *)
Definition fwd (s' : state) (b : block) : Prop :=
  exists b', In b' (live s') /\ b_uid b' = b_uid b /\ b_region b' = b_region b /\
             b_cursor b <= b_cursor b'.

Record Mono (cl : list claim) (s s' : state) : Prop := {
  m_idx : s_index s' = s_index s;
  m_next : (s_next_uid s <= s_next_uid s')%nat;
  m_rel : s_released s <= s_released s';
  m_tbr : s_tbr s <= s_tbr s';
  m_end : abs_end s <= abs_end s';
  m_uid_at : forall abs, s_released s' <= abs -> abs < abs_end s -> uid_at s' abs = uid_at s abs;
  m_back : forall b', In b' (live s') -> (b_uid b' < s_next_uid s)%nat ->
           exists b, In b (live s) /\ b_uid b = b_uid b' /\ b_region b = b_region b' /\
                     b_cursor b <= b_cursor b';
  m_dev : forall b, In b (live s) -> dev_get (s_dev s') (b_region b) = dev_get (s_dev s) (b_region b);
  m_fwd_cl : forall b, In b (live s) -> (1 <= nrefs (b_uid b) cl)%nat -> fwd s' b;
  m_fwd_at : forall b n, nth_error (s_blocks s) n = Some b ->
             s_tbr s' <= s_released s + N.of_nat n -> fwd s' b;
}.

Lemma fwd_binfo c s s' uid cur reg :
  AInv9 c s' -> binfo s uid = Some (cur, reg) ->
  (forall b, In b (live s) -> b_uid b = uid -> fwd s' b) ->
  exists cur', binfo s' uid = Some (cur', reg) /\ cur <= cur' /\
               exists b, In b (live s) /\ b_region b = reg.
Proof.
  intros A' Hb Hf. apply binfo_some in Hb. destruct Hb as (b & Hin & Hu & Hc & Hr).
  destruct (Hf b Hin Hu) as (b' & Hin' & Hu' & Hr' & Hc').
  exists (b_cursor b'). split; [|split; [lia|exists b; auto]].
  rewrite <- Hu, <- Hu', <- Hr, <- Hr'. apply binfo_in; [apply (n_uid_nd _ _ A')|exact Hin'].
Qed.

Lemma uid_at_lt s abs uid : uid_at s abs = Some uid -> abs < abs_end s.
Proof.
  intros H. apply uid_at_some in H. destruct H as (Hr & b & Hn & _).
  apply nth_error_lt in Hn. unfold abs_end. lia.
Qed.

Lemma CInv_mono w cl s s' :
  AInv9 (w_cfg w) s -> AInv9 (w_cfg w) s' -> Mono cl s s' ->
  CInv w cl s -> CInv w cl s'.
Proof.
  intros A A' M C.
  assert (RT : s_released s' <= s_tbr s') by apply (n_rel _ _ A').
  (* blocks listed at or after tbr s' keep their info *)
  assert (AT : forall abs uid cur reg, s_tbr s' <= abs -> uid_at s abs = Some uid ->
                 binfo s uid = Some (cur, reg) ->
                 uid_at s' abs = Some uid /\
                 exists cur', binfo s' uid = Some (cur', reg) /\ cur <= cur' /\
                              dev_get (s_dev s') reg = dev_get (s_dev s) reg).
  { intros abs uid cur reg Ht Hu Hb. split.
    - rewrite (m_uid_at _ _ _ M); [exact Hu|lia|eapply uid_at_lt; exact Hu].
    - destruct (uid_at_some _ _ _ Hu) as (Hr & b0 & Hn & Hu0).
      destruct (fwd_binfo (w_cfg w) s s' uid cur reg A' Hb) as (cur' & Hb' & Hle & b1 & Hin1 & Hr1).
      + intros b Hin Hub.
        assert (b = b0).
        { apply (NoDup_map_inj b_uid (live s)); [apply (n_uid_nd _ _ A)|exact Hin| |congruence].
          unfold live. apply in_or_app. left. eapply nth_error_In. exact Hn. }
        subst b0. apply (m_fwd_at _ _ _ M b _ Hn). lia.
      + exists cur'. repeat split; try assumption. rewrite <- Hr1. apply (m_dev _ _ _ M). exact Hin1. }
  (* referenced blocks keep their info *)
  assert (CL : forall c uid cur reg, In c cl -> cref uid c <> 0%nat -> binfo s uid = Some (cur, reg) ->
                 exists cur', binfo s' uid = Some (cur', reg) /\ cur <= cur' /\
                              dev_get (s_dev s') reg = dev_get (s_dev s) reg).
  { intros c uid cur reg Hin Hc Hb.
    destruct (fwd_binfo (w_cfg w) s s' uid cur reg A' Hb) as (cur' & Hb' & Hle & b1 & Hin1 & Hr1).
    - intros b Hinb Hub. apply (m_fwd_cl _ _ _ M b Hinb). rewrite Hub.
      pose proof (nrefs_in uid cl c Hin). lia.
    - exists cur'. repeat split; try assumption. rewrite <- Hr1. apply (m_dev _ _ _ M). exact Hin1. }
  assert (LV : forall k l, In (k, l) (s_index s) -> loc_valid s' l = true ->
                 loc_valid s l = true /\ s_tbr s' <= l_abs l).
  { intros k l Hin Hv. pose proof (n_idx _ _ A k l Hin) as Hlt.
    pose proof (m_tbr _ _ _ M). unfold loc_valid, abs_end in *. lia. }
  constructor.
  - intros c Hin. pose proof (c_claims _ _ _ C c Hin) as Hok.
    destruct c as [wr acc|u l o|wr o]; cbn [claim_ok] in *.
    + destruct Hok as (cur & reg & Hb & H1 & H2 & H3 & H4 & H5).
      destruct (CL (CW wr acc) (wr_uid wr) cur reg Hin) as (cur' & Hb' & Hle & Hd); [|exact Hb|].
      { cbn [cref]. rewrite Nat.eqb_refl. discriminate. }
      exists cur', reg. repeat split; try assumption; try lia.
      * rewrite Hd. exact H3.
      * pose proof (m_end _ _ _ M). lia.
      * intros Hr. rewrite (m_uid_at _ _ _ M); [|exact Hr|exact H4].
        apply H5. pose proof (m_rel _ _ _ M). lia.
    + destruct Hok as (cur & reg & Hb & H1 & H2).
      destruct (CL (CR u l o) u cur reg Hin) as (cur' & Hb' & Hle & Hd); [|exact Hb|].
      { cbn [cref]. rewrite Nat.eqb_refl. discriminate. }
      exists cur', reg. repeat split; try assumption; try lia. rewrite Hd. exact H2.
    + destruct Hok as (H0 & H1 & H2 & H3). split; [|split; [|split]].
      * pose proof (m_next _ _ _ M). lia.
      * pose proof (m_end _ _ _ M). lia.
      * intros cur' reg Hb'. apply binfo_some in Hb'. destruct Hb' as (b' & Hin' & Hu' & Hc' & Hr').
        destruct (m_back _ _ _ M b' Hin') as (b & Hinb & Hub & Hrb & Hcb).
        { rewrite Hu'. exact H0. }
        assert (Hle : wr_off wr + wr_size wr <= b_cursor b).
        { apply (H2 (b_cursor b) (b_region b)). rewrite <- Hu', <- Hub.
          apply binfo_in; [apply (n_uid_nd _ _ A)|exact Hinb]. }
        lia.
      * intros Ht. pose proof (m_tbr _ _ _ M) as Htt.
        destruct H3 as (cur & reg & Hu & Hb & Hd); [lia|].
        destruct (AT _ _ _ _ Ht Hu Hb) as (Hu' & cur' & Hb' & Hle & Hdev).
        exists cur', reg. repeat split; try assumption. rewrite Hdev. exact Hd.
  - intros k l Hin Hv. rewrite (m_idx _ _ _ M) in Hin.
    destruct (LV k l Hin Hv) as (Hv0 & Ht).
    destruct (c_idx _ _ _ C k l Hin Hv0) as (uid & cur & reg & Hu & Hb & H1 & H2).
    destruct (AT _ _ _ _ Ht Hu Hb) as (Hu' & cur' & Hb' & Hle & Hdev).
    exists uid, cur', reg. repeat split; try assumption; try lia. rewrite Hdev. exact H2.
  - apply (c_sep _ _ _ C).
  - intros wr acc k l Hin Hix Hv Hu. rewrite (m_idx _ _ _ M) in Hix.
    destruct (LV k l Hix Hv) as (Hv0 & Ht).
    apply (c_sep_idx _ _ _ C wr acc k l Hin Hix Hv0).
    rewrite <- Hu. symmetry. apply (m_uid_at _ _ _ M); [lia|apply (n_idx _ _ A k l Hix)].
Qed.
