(** Store/SectorWriterInv.v — structural invariant of the sector writer transition
    system and [writer_writes_only_own_sectors]. *)
From Coq Require Import List Arith ZArith Bool Lia.
From BBS Require Import Store.SectorWriter Store.SectorWriterProofs Store.SectorWriterSpec
  Store.SectorWriterCommute.
Import ListNotations.

Lemma upd_out {T} (l : list T) i x : length l <= i -> upd l i x = l.
Proof. revert i; induction l; intros [|i] H; cbn in *; auto; try lia. f_equal. apply IHl. lia. Qed.

Lemma Forall_upd {T} (P : T -> Prop) l i x : Forall P l -> P x -> Forall P (upd l i x).
Proof.
  revert i; induction l; intros [|i] H Hx; cbn; auto; inversion H; subst; constructor; auto.
Qed.

Lemma Forall_nth_error {T} (P : T -> Prop) l i x : Forall P l -> nth_error l i = Some x -> P x.
Proof. intros H Hn. rewrite Forall_forall in H. apply H. eapply nth_error_In; eauto. Qed.

Definition dimg : image := {| im_sec := 0; im_data := [] |}.
Definition isec (images : list image) (id : nat) : nat := im_sec (nth id images dimg).

Lemma set_img_length images id d : length (set_img images id d) = length images.
Proof. apply upd_length. Qed.

Lemma isec_set_img images id d id' : isec (set_img images id d) id' = isec images id'.
Proof.
  unfold isec, set_img. fold dimg.
  destruct (Nat.eq_dec id id') as [->|Hne]; [|rewrite nth_upd_ne by exact Hne; reflexivity].
  destruct (lt_dec id' (length images)); [rewrite nth_upd_eq by assumption; reflexivity|].
  rewrite upd_out by lia. reflexivity.
Qed.

Lemma img_data_set_img_eq images id d : id < length images -> img_data (set_img images id d) id = d.
Proof. intros H. unfold img_data, set_img. rewrite nth_upd_eq by exact H. reflexivity. Qed.

Lemma img_data_set_img_ne images id d id' : id <> id' -> img_data (set_img images id d) id' = img_data images id'.
Proof. intros H. unfold img_data, set_img. rewrite nth_upd_ne by exact H. reflexivity. Qed.

Lemma isec_app_old images l id : id < length images -> isec (images ++ l) id = isec images id.
Proof. intros H. unfold isec. rewrite app_nth1 by exact H. reflexivity. Qed.
Lemma isec_app_new images x : isec (images ++ [x]) (length images) = im_sec x.
Proof. unfold isec. rewrite app_nth2 by lia. rewrite Nat.sub_diag. reflexivity. Qed.
Lemma img_data_app_old images l id : id < length images -> img_data (images ++ l) id = img_data images id.
Proof. intros H. unfold img_data. rewrite app_nth1 by exact H. reflexivity. Qed.
Lemma img_data_app_new images x : img_data (images ++ [x]) (length images) = im_data x.
Proof. unfold img_data. rewrite app_nth2 by lia. rewrite Nat.sub_diag. reflexivity. Qed.

Lemma split3 {T} (p : list T) a b : p = firstn a p ++ firstn b (skipn a p) ++ skipn b (skipn a p).
Proof. rewrite firstn_skipn, firstn_skipn. reflexivity. Qed.

Section Inv.
Variable c : cfg.
Hypothesis HS : 1 <= c_sector c.
Local Notation SS := (c_sector c).

Lemma dm q r : r < SS -> (q * SS + r) / SS = q /\ (q * SS + r) mod SS = r.
Proof.
  intros H. split.
  - symmetry. apply Nat.div_unique with r; lia.
  - symmetry. apply Nat.mod_unique with q; lia.
Qed.

Lemma dm_eq n : n = n / SS * SS + n mod SS /\ n mod SS < SS.
Proof. pose proof (Nat.div_mod n SS ltac:(lia)). pose proof (Nat.mod_upper_bound n SS ltac:(lia)). lia. Qed.

Lemma ceil_ge n : n <= (n + SS - 1) / SS * SS.
Proof. destruct (dm_eq (n + SS - 1)). nia. Qed.

Lemma ceil_succ n : n mod SS <> 0 -> (n + SS - 1) / SS = n / SS + 1.
Proof.
  intros H. destruct (dm_eq n) as [E U].
  symmetry. apply Nat.div_unique with (n mod SS - 1); lia.
Qed.

Definition t_fs (t : thread) := t_start t / SS.
Definition t_a (t : thread) := t_start t mod SS.
Definition t_end (t : thread) := t_start t + t_size t.
Definition t_x (t : thread) := t_a t + length (t_data t).

Definition wphase (t : thread) : Prop :=
  let w := t_w t in
  match w_first w with
  | Some id => t_first0 t = Some id /\ t_x t < SS /\ w_firstoff w = t_x t /\
               w_off w = c_base c + t_fs t /\ w_partial w = []
  | None => (t_first0 t <> None -> SS <= t_x t) /\ length (w_partial w) < SS /\
            (exists pre, t_data t = pre ++ w_partial w) /\
            w_off w * SS + length (w_partial w) = (c_base c + t_fs t) * SS + t_x t
  end.

Definition tinv (images : list image) (t : thread) : Prop :=
  length (t_data t) <= t_size t /\
  match t_first0 t with
  | Some id => 0 < t_a t /\ id < length images /\ isec images id = t_fs t
  | None => t_a t = 0
  end /\
  match w_last (t_w t) with
  | Some id => t_end t mod SS <> 0 /\ id < length images /\ isec images id = t_end t / SS
  | None => t_end t mod SS = 0
  end /\
  wphase t.

Definition cinv (b : cursor) (images : list image) : Prop :=
  (forall id, id < length images -> length (img_data images id) = SS) /\
  (forall id id', id < id' -> id' < length images -> isec images id < isec images id') /\
  match b_shared b with
  | Some (id, _) => id + 1 = length images /\ isec images id = b_wos b
  | None => forall id, id < length images -> isec images id < b_wos b
  end.

Definition sinv (lo : nat) (s : state) : Prop :=
  ainv c lo s /\ cinv (st_cur s) (st_images s) /\ Forall (tinv (st_images s)) (st_threads s).

Lemma tinv_ext images images' t :
  length images <= length images' ->
  (forall id, id < length images -> isec images' id = isec images id) ->
  tinv images t -> tinv images' t.
Proof.
  intros Hl He (H1 & H2 & H3 & H4). split; [exact H1|]. split; [|split; [|exact H4]].
  - destruct (t_first0 t); [|exact H2]. destruct H2 as (A & B & C). rewrite He by exact B. repeat split; auto; lia.
  - destruct (w_last (t_w t)); [|exact H3]. destruct H3 as (A & B & C). rewrite He by exact B. repeat split; auto; lia.
Qed.

Lemma cinv_set_img b images id d :
  cinv b images -> length d = SS -> cinv b (set_img images id d).
Proof.
  intros (H1 & H2 & H3) Hd. unfold cinv. rewrite set_img_length. split; [|split].
  - intros id' Hid'. destruct (Nat.eq_dec id id') as [->|Hne].
    + rewrite img_data_set_img_eq by exact Hid'. exact Hd.
    + rewrite img_data_set_img_ne by exact Hne. auto.
  - intros. rewrite !isec_set_img. auto.
  - destruct (b_shared b) as [[i o]|]; [rewrite isec_set_img; exact H3|].
    intros. rewrite isec_set_img. auto.
Qed.

Lemma sinv_init dev b : b_shared b = None -> sinv (cpos c b) (init_state dev b).
Proof.
  intros E. split; [apply ainv_init; unfold cursor_wf; rewrite E; exact I|]. split; [|constructor].
  unfold cinv; cbn. split; [intros; lia|]. split; [intros; lia|]. rewrite E. intros; lia.
Qed.

Lemma alloc_cases b images size b' images' w start :
  alloc c b images size = (b', images', w, start) ->
  let off := shared_off b in
  let cnt := (off + size) / SS in let lastoff := (off + size) mod SS in
  start = b_wos b * SS + off /\
  w = {| w_off := c_base c + b_wos b; w_first := option_map fst (b_shared b); w_firstoff := off;
         w_partial := []; w_last := option_map fst (b_shared b') |} /\
  b_wos b' = b_wos b + cnt /\
  ((lastoff = 0 /\ b_shared b' = None /\ images' = images) \/
   (lastoff <> 0 /\ cnt = 0 /\ (exists id o, b_shared b = Some (id, o) /\ b_shared b' = Some (id, lastoff)) /\
    images' = images) \/
   (lastoff <> 0 /\ (b_shared b = None \/ 0 < cnt) /\ b_shared b' = Some (length images, lastoff) /\
    images' = images ++ [{| im_sec := b_wos b + cnt; im_data := zeros SS |}])).
Proof.
  unfold alloc. cbv zeta.
  destruct (Nat.eqb_spec ((shared_off b + size) mod SS) 0) as [H0|H0].
  - intros H; inversion H; subst; clear H. cbn. repeat split; auto.
  - destruct (b_shared b) as [[id o]|] eqn:Hs.
    + destruct (Nat.ltb_spec 0 ((shared_off b + size) / SS)) as [Hc|Hc];
        intros H; inversion H; subst; clear H; cbn; repeat split; auto.
      * right; right. repeat split; auto.
      * right; left. repeat split; auto; try lia. eauto.
    + intros H; inversion H; subst; clear H; cbn; repeat split; auto.
      right; right. repeat split; auto.
Qed.
Lemma sinv_alloc lo s size s' log :
  sinv lo s -> step c s (EAlloc size) = Some (s', log) -> sinv lo s'.
Proof.
  intros Hinv Hstep. pose proof Hinv as (Ha & Hc & Ht).
  split; [eapply ainv_step; eauto|].
  cbn [step] in Hstep. destruct (has_space c (st_cur s) size); [|discriminate].
  destruct (alloc c (st_cur s) (st_images s) size) as [[[b' im'] w] start] eqn:Hal.
  inversion Hstep; subst; clear Hstep. cbn [st_cur st_images st_threads].
  pose proof (alloc_cases _ _ _ _ _ _ _ Hal) as (Hst & Hw & Hwos & Hcases). cbv zeta in *.
  destruct Ha as (Hwf & _). destruct Hc as (C1 & C2 & C3).
  set (b := st_cur s) in *. set (images := st_images s) in *. set (off := shared_off b) in *.
  assert (Hoff : off < SS /\ (b_shared b = None -> off = 0) /\ (b_shared b <> None -> 0 < off)).
  { unfold off, shared_off, cursor_wf in *. destruct (b_shared b) as [[? ?]|]; repeat split; try lia; congruence. }
  destruct Hoff as (Hoff & Hoff0 & Hoff1).
  destruct (dm_eq (off + size)) as [Ediv Umod].
  set (cnt := (off + size) / SS) in *. set (lastoff := (off + size) mod SS) in *.
  assert (Hfs : start / SS = b_wos b /\ start mod SS = off) by (rewrite Hst; apply dm; exact Hoff).
  assert (Hend : (start + size) / SS = b_wos b + cnt /\ (start + size) mod SS = lastoff).
  { replace (start + size) with ((b_wos b + cnt) * SS + lastoff) by (rewrite Hst; lia). apply dm. exact Umod. }
  destruct Hfs as [Hfs Hta]. destruct Hend as [Hed Hem].
  (* all image sectors so far are at most the cursor's sector; strictly below unless shared *)
  assert (Hle : forall id, id < length images -> isec images id <= b_wos b /\
                  (b_shared b = None -> isec images id < b_wos b)).
  { intros id Hid. destruct (b_shared b) as [[id0 o]|] eqn:Hsh.
    - destruct C3 as [C3 C4]. split; [|discriminate].
      destruct (Nat.eq_dec id id0) as [->|]; [lia|]. specialize (C2 id id0 ltac:(lia) ltac:(lia)). lia.
    - split; [specialize (C3 id Hid); lia|intros _; auto]. }
  set (t0 := {| t_w := w; t_start := start; t_size := size; t_data := [];
                t_first0 := w_first w; t_status := Active |}).
  (* the parts of the new thread's invariant that do not depend on the case *)
  assert (T2 : forall im2, length images <= length im2 ->
                 (forall id, id < length images -> isec im2 id = isec images id) ->
                 match t_first0 t0 with
                 | Some id => 0 < t_a t0 /\ id < length im2 /\ isec im2 id = t_fs t0
                 | None => t_a t0 = 0 end /\ wphase t0).
  { intros im2 Hl He. unfold wphase, t_a, t_fs, t_x, t_a. subst t0. cbn [t_first0 t_start t_w t_data length].
    rewrite Hw. cbn [w_first w_off w_firstoff w_partial length]. rewrite Hfs, Hta.
    destruct (b_shared b) as [[id0 o]|] eqn:Hsh; cbn [option_map fst].
    - destruct C3 as [C3 C4]. specialize (Hoff1 ltac:(congruence)).
      rewrite He by lia. repeat split; auto; lia.
    - specialize (Hoff0 eq_refl). repeat split; auto; try lia; try congruence. exists []. reflexivity. }
  assert (Hlast : w_last (t_w t0) = option_map fst (b_shared b')) by (subst t0; cbn [t_w]; rewrite Hw; reflexivity).
  assert (Hte : t_end t0 = start + size) by reflexivity.
  destruct Hcases as [(L0 & Sh' & ->)|[(L0 & Hc0 & (id0 & o & Sh & Sh') & ->)|(L0 & Hfresh & Sh' & ->)]].
  - (* ends on a sector boundary *)
    split.
    + unfold cinv. rewrite Sh'. repeat split; auto. intros id Hid. rewrite Hwos.
      destruct (Hle id Hid) as [Hl1 Hl2]. destruct (b_shared b) eqn:Hsh.
      * specialize (Hoff1 ltac:(congruence)). assert (0 < cnt) by nia. lia.
      * specialize (Hl2 eq_refl). lia.
    + apply Forall_app. split; [exact Ht|]. constructor; [|constructor].
      destruct (T2 images (le_n _) (fun _ _ => eq_refl)) as [T2a T2b].
      split; [cbn; lia|]. split; [exact T2a|]. split; [|exact T2b].
      rewrite Hlast, Sh'. cbn [option_map fst]. rewrite Hte, Hem. exact L0.
  - (* stays inside the shared sector *)
    rewrite Sh in C3. destruct C3 as [C3 C4].
    split.
    + unfold cinv. rewrite Sh'. repeat split; auto. lia.
    + apply Forall_app. split; [exact Ht|]. constructor; [|constructor].
      destruct (T2 images (le_n _) (fun _ _ => eq_refl)) as [T2a T2b].
      split; [cbn; lia|]. split; [exact T2a|]. split; [|exact T2b].
      rewrite Hlast, Sh'. cbn [option_map fst]. rewrite Hte, Hed, Hem. repeat split; auto; lia.
  - (* a fresh shared sector *)
    set (x := {| im_sec := b_wos b + cnt; im_data := zeros SS |}).
    assert (Hcnt : forall id, id < length images -> isec images id < b_wos b + cnt).
    { intros id Hid. destruct (Hle id Hid) as [Hl1 Hl2]. destruct Hfresh as [E|E]; [specialize (Hl2 E)|]; lia. }
    split.
    + unfold cinv. rewrite Sh', app_length. cbn [length]. split; [|split; [|split]].
      * intros id Hid. destruct (Nat.eq_dec id (length images)) as [->|].
        -- rewrite img_data_app_new. apply repeat_length.
        -- rewrite img_data_app_old by lia. apply C1. lia.
      * intros id id' H1 H2. destruct (Nat.eq_dec id' (length images)) as [->|].
        -- rewrite isec_app_new, isec_app_old by lia. cbn. auto.
        -- rewrite !isec_app_old by lia. apply C2; lia.
      * lia.
      * rewrite isec_app_new. cbn. lia.
    + apply Forall_app. split.
      * eapply Forall_impl; [|exact Ht]. intros t. apply tinv_ext; [rewrite app_length; lia|].
        intros; apply isec_app_old; assumption.
      * constructor; [|constructor].
        destruct (T2 (images ++ [x]) ltac:(rewrite app_length; lia) ltac:(intros; apply isec_app_old; assumption)) as [T2a T2b].
        split; [cbn; lia|]. split; [exact T2a|]. split; [|exact T2b].
        rewrite Hlast, Sh'. cbn [option_map fst]. rewrite Hte, Hed, Hem, isec_app_new, app_length.
        cbn. repeat split; auto; lia.
Qed.
Lemma tinv_geom images im' t t' :
  tinv images t -> same_geom t t' ->
  length images <= length im' -> (forall id, id < length images -> isec im' id = isec images id) ->
  length (t_data t') <= t_size t' -> wphase t' -> tinv im' t'.
Proof.
  intros (H1 & H2 & H3 & H4) (G1 & G2 & G3 & G4) Hl He Hn Hw.
  split; [exact Hn|]. unfold t_a, t_fs, t_end. rewrite G1, G2, G3, G4. split; [|split; [|exact Hw]].
  - destruct (t_first0 t); [|exact H2]. destruct H2 as (A & B & C). rewrite He by exact B. repeat split; auto; lia.
  - destruct (w_last (t_w t)); [|exact H3]. destruct H3 as (A & B & C). rewrite He by exact B. repeat split; auto; lia.
Qed.

Definition span_lo (t : thread) : nat := (c_base c + t_fs t) * SS.
Definition span_hi (t : thread) : nat := c_base c * SS + (t_end t + SS - 1) / SS * SS.
Definition in_span (t : thread) (w : dwrite) : Prop :=
  span_lo t <= fst w /\ fst w + length (snd w) <= span_hi t.

Lemma contig_in lo hi l1 l2 log :
  contig l1 log -> lo <= l1 -> l1 + length (payload log) <= hi ->
  l2 = l1 -> Forall (fun w => lo <= fst w /\ fst w + length (snd w) <= hi) log.
Proof.
  intros Hc H1 H2 _. apply Forall_forall. intros w Hin.
  pose proof (contig_range _ _ _ Hc Hin). lia.
Qed.

Lemma t_start_eq t : t_start t = t_fs t * SS + t_a t /\ t_a t < SS.
Proof. unfold t_fs, t_a. apply dm_eq. Qed.

Lemma tinv_write b images t p :
  cinv b images -> tinv images t -> length (t_data t) + length p <= t_size t ->
  let r := write c images (t_w t) p in
  let t' := {| t_w := snd (fst r); t_start := t_start t; t_size := t_size t; t_data := t_data t ++ p;
               t_first0 := t_first0 t; t_status := Active |} in
  cinv b (fst (fst r)) /\ length (fst (fst r)) = length images /\
  (forall id, isec (fst (fst r)) id = isec images id) /\
  tinv (fst (fst r)) t' /\ Forall (in_span t) (snd r).
Proof.
  intros Hc Ht Hn. cbv zeta. pose proof Ht as (T1 & T2 & T3 & T4).
  pose proof Hc as (C1 & C2 & C3).
  destruct (t_start_eq t) as [Est Ua]. pose proof (ceil_ge (t_end t)) as Hceil.
  assert (Hend : t_end t = t_fs t * SS + t_a t + t_size t) by (unfold t_end; lia).
  set (m := length p) in *. set (n := length (t_data t)) in *.
  unfold wphase in T4. cbv zeta in T4.
  destruct (w_first (t_w t)) as [id|] eqn:Hf.
  - destruct T4 as (F0 & Hx & Hfo & Hoff & Hp). rewrite F0 in T2. destruct T2 as (A0 & Hid & Hsec).
    specialize (C1 id Hid). unfold t_x in *. fold n in Hx, Hfo.
    destruct (lt_dec (t_a t + n + m) SS) as [Hshort|Hlong].
    + rewrite (write_first_short c images (t_w t) p id Hf C1) by (rewrite Hfo; fold m; lia).
      cbn [fst snd]. split; [apply cinv_set_img; [exact Hc|rewrite write_at_length; exact C1]|].
      split; [apply set_img_length|]. split; [intros; apply isec_set_img|]. split; [|constructor].
      eapply tinv_geom; [exact Ht|repeat split; reflexivity|rewrite set_img_length; lia|
                         intros; apply isec_set_img|cbn; rewrite app_length; fold n m; lia|].
      unfold wphase. cbn [t_w w_first t_first0 w_firstoff w_off w_partial]. unfold t_x, t_a, t_fs in *.
      cbn [t_start t_data]. rewrite app_length. fold n m. repeat split; auto; lia.
    + pose proof (write_first_long c images (t_w t) p id Hf C1 ltac:(lia) ltac:(rewrite Hfo; fold m; lia)) as Hw.
      cbv zeta in Hw. rewrite Hw. clear Hw. cbn [fst snd].
      match goal with |- context [write_rest c ?w1 ?p1] =>
        pose proof (write_rest_spec0 c w1 p1 HS Hp) as H; cbv zeta in H;
        set (res := write_rest c w1 p1) in * end.
      cbn [w_off w_first w_firstoff w_last] in H. rewrite skipn_length in H. fold m in H. rewrite Hfo in H.
      destruct H as (H1 & H2 & H3 & H4 & H5 & H6 & H7).
      destruct (dm_eq (m - (SS - (t_a t + n)))) as [Eq Uq].
      set (m1 := m - (SS - (t_a t + n))) in *. set (q := m1 / SS) in *.
      split; [apply cinv_set_img; [exact Hc|rewrite write_at_length; exact C1]|].
      split; [apply set_img_length|]. split; [intros; apply isec_set_img|]. split.
      * eapply tinv_geom; [exact Ht|repeat split; try reflexivity; cbn; exact H5|rewrite set_img_length; lia|
                           intros; apply isec_set_img|cbn; rewrite app_length; fold n m; lia|].
        unfold wphase. cbn [t_w t_first0]. rewrite H3. unfold t_x, t_a, t_fs in *.
        cbn [t_start t_data]. rewrite app_length. fold n m.
        assert (Hlen : length (w_partial (fst res)) = m1 - q * SS)
          by (rewrite H2, skipn_length, skipn_length; fold m; reflexivity).
        split; [intros; lia|]. split; [lia|]. split; [|rewrite Hlen, H1, Hoff; nia].
        exists (t_data t ++ firstn (SS - (t_a t + n)) p ++
                firstn (q * SS) (skipn (SS - (t_a t + n)) p)).
        rewrite H2, <- !app_assoc. f_equal. apply split3.
      * constructor.
        -- unfold in_span, span_lo, span_hi. cbn [fst snd]. rewrite write_at_length, C1, Hoff. nia.
        -- eapply contig_in; [exact H6| | |reflexivity].
           ++ unfold span_lo. rewrite Hoff. lia.
           ++ rewrite H7, firstn_length, skipn_length. fold m. fold m1.
              unfold span_hi. rewrite Hoff. nia.
  - destruct T4 as (F0 & Hr & (pre & Hpre) & Hoff).
    rewrite (write_none c images (t_w t) p Hf). cbn [fst snd].
    pose proof (write_rest_spec c (t_w t) p HS Hr) as H. cbv zeta in H.
    set (res := write_rest c (t_w t) p) in *. rewrite app_length in H. fold m in H.
    set (r := length (w_partial (t_w t))) in *.
    destruct H as (H1 & H2 & H3 & H4 & H5 & H6 & H7).
    destruct (dm_eq (r + m)) as [Eq Uq]. set (q := (r + m) / SS) in *.
    unfold t_x in *. fold n in F0, Hoff.
    assert (Hnr : r <= n) by (unfold n, r; rewrite Hpre, app_length; lia).
    split; [exact Hc|]. split; [reflexivity|]. split; [reflexivity|]. split.
    + eapply tinv_geom; [exact Ht|repeat split; try reflexivity; cbn; exact H5|lia|reflexivity|
                         cbn; rewrite app_length; fold n m; lia|].
      unfold wphase. cbn [t_w t_first0]. rewrite H3, Hf. unfold t_x, t_a, t_fs in *.
      cbn [t_start t_data]. rewrite app_length. fold n m.
      assert (Hlen : length (w_partial (fst res)) = r + m - q * SS)
        by (rewrite H2, skipn_length, app_length; fold r m; reflexivity).
      split; [intros Hne; specialize (F0 Hne); lia|]. split; [lia|]. split; [|rewrite Hlen, H1; nia].
      exists (pre ++ firstn (q * SS) (w_partial (t_w t) ++ p)).
      rewrite H2, Hpre, <- !app_assoc. f_equal. symmetry. apply firstn_skipn.
    + eapply contig_in; [exact H6| | |reflexivity].
      * unfold span_lo. nia.
      * rewrite H7, firstn_length, app_length. fold r m. unfold span_hi. nia.
Qed.
Lemma tinv_flush b images t :
  cinv b images -> tinv images t -> length (t_data t) = t_size t ->
  let r := flush c images (t_w t) in
  cinv b (fst r) /\ length (fst r) = length images /\
  (forall id, isec (fst r) id = isec images id) /\ Forall (in_span t) (snd r).
Proof.
  intros Hc Ht Hn. cbv zeta. pose proof Ht as (T1 & T2 & T3 & T4). pose proof Hc as (C1 & C2 & C3).
  destruct (w_last (t_w t)) as [id|] eqn:Hl.
  2:{ rewrite (flush_none c images (t_w t) Hl). cbn. repeat split; auto. }
  rewrite (flush_some c images (t_w t) id Hl). cbn [fst snd].
  destruct T3 as (E0 & Hid & Hsec). specialize (C1 id Hid).
  split; [apply cinv_set_img; [exact Hc|rewrite write_at_length; exact C1]|].
  split; [apply set_img_length|]. split; [intros; apply isec_set_img|].
  constructor; [|constructor]. unfold in_span, span_lo, span_hi. cbn [fst snd].
  rewrite write_at_length, C1. rewrite (ceil_succ _ E0).
  destruct (t_start_eq t) as [Est Ua]. destruct (dm_eq (t_end t)) as [Ee Ue].
  assert (Hend : t_end t = t_fs t * SS + t_a t + t_size t) by (unfold t_end; lia).
  assert (Hfe : t_fs t <= t_end t / SS) by (unfold t_fs, t_end; apply Nat.div_le_mono; lia).
  unfold wphase in T4. cbv zeta in T4. destruct (w_first (t_w t)) as [fid|].
  - destruct T4 as (_ & _ & _ & Hoff & _). rewrite Hoff. nia.
  - destruct T4 as (_ & Hr & (pre & Hpre) & Hoff). unfold t_x in Hoff. rewrite Hn in Hoff.
    set (r := length (w_partial (t_w t))) in *.
    assert (r <= t_size t) by (rewrite <- Hn, Hpre, app_length; fold r; lia).
    assert (c_base c + t_end t / SS = w_off (t_w t)) by nia.
    nia.
Qed.

Lemma wphase_status t st :
  wphase t -> wphase {| t_w := t_w t; t_start := t_start t; t_size := t_size t; t_data := t_data t;
                        t_first0 := t_first0 t; t_status := st |}.
Proof. intros H. exact H. Qed.

(** a writer step preserves the invariant and writes only within the writer's sectors *)
Lemma sinv_writer_step lo s e s' log k t :
  sinv lo s -> step c s e = Some (s', log) -> ev_thread e = Some k ->
  nth_error (st_threads s) k = Some t ->
  sinv lo s' /\ Forall (in_span t) log.
Proof.
  intros Hinv Hstep Hev Hk. pose proof Hinv as (Ha & Hc & Ht).
  assert (Hai : ainv c lo s') by (eapply ainv_step; eauto).
  pose proof (Forall_nth_error _ _ _ _ Ht Hk) as Htk.
  assert (Hklt : k < length (st_threads s)) by (apply nth_error_Some; congruence).
  destruct e as [size|k' chunk|k'|k']; cbn in Hev; inversion Hev; subst k'; clear Hev;
    cbn [step] in Hstep; rewrite Hk in Hstep; destruct (t_status t); try discriminate.
  - destruct (Nat.leb_spec (length (t_data t) + length chunk) (t_size t)) as [Hn|Hn]; [|discriminate].
    pose proof (tinv_write _ _ _ chunk Hc Htk Hn) as H. cbv zeta in H.
    destruct (write c (st_images s) (t_w t) chunk) as [[im w'] lg]. cbn [fst snd] in H.
    destruct H as (H1 & H2 & H3 & H4 & H5). inversion Hstep; subst; clear Hstep.
    split; [|exact H5]. split; [exact Hai|]. cbn [set_thread st_cur st_images st_threads].
    split; [exact H1|]. apply Forall_upd; [|exact H4].
    eapply Forall_impl; [|exact Ht]. intros u. apply tinv_ext; [lia|intros; apply H3].
  - destruct (Nat.eqb_spec (length (t_data t)) (t_size t)) as [Hn|Hn]; [|discriminate].
    pose proof (tinv_flush _ _ _ Hc Htk Hn) as H. cbv zeta in H.
    destruct (flush c (st_images s) (t_w t)) as [im lg]. cbn [fst snd] in H.
    destruct H as (H1 & H2 & H3 & H5). inversion Hstep; subst; clear Hstep.
    split; [|exact H5]. split; [exact Hai|]. cbn [set_thread st_cur st_images st_threads].
    split; [exact H1|]. apply Forall_upd.
    + eapply Forall_impl; [|exact Ht]. intros u. apply tinv_ext; [lia|intros; apply H3].
    + eapply tinv_geom; [exact Htk|repeat split; reflexivity|lia|intros; apply H3|
                         destruct Htk as [T1 _]; exact T1|apply wphase_status; destruct Htk as (_ & _ & _ & T4); exact T4].
  - inversion Hstep; subst; clear Hstep. split; [|constructor].
    split; [exact Hai|]. cbn [set_thread st_cur st_images st_threads]. split; [exact Hc|].
    apply Forall_upd; [exact Ht|].
    eapply tinv_geom; [exact Htk|repeat split; reflexivity|lia|reflexivity|
                       destruct Htk as [T1 _]; exact T1|apply wphase_status; destruct Htk as (_ & _ & _ & T4); exact T4].
Qed.

Lemma sinv_step lo s e s' log : sinv lo s -> step c s e = Some (s', log) -> sinv lo s'.
Proof.
  intros Hinv Hstep. destruct e as [size|k ch|k|k]; [eapply sinv_alloc; eauto| | |];
    (destruct (nth_error (st_threads s) k) as [t|] eqn:Hk;
     [exact (proj1 (sinv_writer_step lo s _ s' log k t Hinv Hstep eq_refl Hk))
     |cbn in Hstep; rewrite Hk in Hstep; discriminate]).
Qed.

Lemma sinv_run lo tr : forall s s', sinv lo s -> run c s tr = Some s' -> sinv lo s'.
Proof.
  induction tr as [|e tr IH]; intros s s' Hi Hr; cbn in Hr.
  - inversion Hr; subst; auto.
  - destruct (step c s e) as [[s1 l]|] eqn:Hs; [|discriminate].
    apply (IH s1 s'); [exact (sinv_step _ _ _ _ _ Hi Hs)|exact Hr].
Qed.
End Inv.

Theorem writer_writes_only_own_sectors_proof : forall c dev b0 tr s e s' log k t,
  1 <= c_sector c -> b_shared b0 = None ->
  run c (init_state dev b0) tr = Some s ->
  step c s e = Some (s', log) -> ev_thread e = Some k -> nth_error (st_threads s) k = Some t ->
  Forall (fun w => (c_base c + t_start t / c_sector c) * c_sector c <= fst w /\
                   fst w + length (snd w) <=
                   c_base c * c_sector c + (t_start t + t_size t + c_sector c - 1) / c_sector c * c_sector c) log.
Proof.
  intros c dev b0 tr s e s' log k t HS Hb Hr Hstep Hev Hk.
  pose proof (sinv_run c HS _ tr _ _ (sinv_init c HS dev b0 Hb) Hr) as Hinv.
  exact (proj2 (sinv_writer_step c HS _ s e s' log k t Hinv Hstep Hev Hk)).
Qed.
