(** C20: model-level facts needed to show that the monitor of Run/R20.v is
    silent on the model's output (Run/R20Proofs.v):
    which error codes the functions return, acceptance of an instance name
    string implies it is a valid instance name, explicit digests for accepted
    constructors, the accepted resource name contains hash and size next to
    each other, range of binary.ReadVarint. *)
From Coq Require Import List NArith ZArith Bool Lia.
From BBS Require Import Generated.Consts Digest.DigestModel Digest.DigestProofs.
Import ListNotations.
Open Scope N_scope.

(** * Error codes *)
Definition status_err (c : Z) : Prop := c = InvalidArgument \/ c = Unimplemented.

Lemma validate_components_err l c : validate_components l = Err c -> c = InvalidArgument.
Proof.
  induction l as [|x r IH]; cbn [validate_components]; [discriminate|].
  destruct (nonempty x); [|discriminate].
  destruct (memb x c20_reserved); [intros [= <-]; reflexivity|exact IH].
Qed.

Lemma new_instance_name_err v c : new_instance_name v = Err c -> c = InvalidArgument.
Proof.
  unfold new_instance_name.
  destruct (has_prefix [slash] v || has_suffix [slash] v || contains [slash; slash] v);
    [intros [= <-]; reflexivity|].
  destruct (validate_components (fields_by_slash v)) as [[]| |] eqn:E; cbn [bind]; try discriminate.
  intros [= <-]. eapply validate_components_err; eauto.
Qed.

Lemma new_digest_err i f h s c : new_digest i f h s = Err c -> c = InvalidArgument.
Proof.
  unfold new_digest.
  destruct (negb (N.of_nat (length h) =? 2 * snd f)); [intros [= <-]; reflexivity|].
  destruct (negb (forallb lowerhex h)); [intros [= <-]; reflexivity|].
  destruct (s <? 0)%Z; [intros [= <-]; reflexivity|discriminate].
Qed.

Lemma get_digest_function_err e n c : get_digest_function e n = Err c -> c = InvalidArgument.
Proof. unfold get_digest_function. destruct (get_bare_function e n); [discriminate|intros [= <-]; reflexivity]. Qed.

Lemma find_split_err stop fields k : forall fuel i c,
  find_split stop fields k i fuel = Err c -> c = InvalidArgument.
Proof.
  induction fuel as [|fuel IH]; intros i c; cbn [find_split]; [discriminate|].
  unfold nth_field. destruct (nth_error fields i) as [x|]; cbn [bind]; [|discriminate].
  destruct (stop x); [discriminate|].
  destruct (length fields - k <? S i)%nat; [intros [= <-]; reflexivity|apply IH].
Qed.

Ltac err_step :=
  cbn [bind skipn nth_field nth_error length Nat.ltb Nat.leb];
  match goal with
  | |- Err _ = Err _ -> _ => intros [= <-]; first [left; reflexivity|right; reflexivity]
  | |- Ok _ = Err _ -> _ => discriminate
  | |- Panic = Err _ -> _ => discriminate
  | |- context [match ?x with _ => _ end] => destruct x eqn:?
  | |- context [bind ?x _] =>
      lazymatch x with new_digest _ _ _ _ => fail | _ => destruct x eqn:? end
  end.

Lemma parse_common_err header trailer c :
  parse_common header trailer = Err c -> status_err c.
Proof.
  unfold parse_common, new_instance_name_from_components, status_err.
  destruct (validate_components header) as [[]| |] eqn:Hv; cbn [bind]; try discriminate.
  2:{ intros [= <-]. left. eapply validate_components_err; eauto. }
  assert (Fin : forall f h z (cc : N),
            (' d <- new_digest (join_slash header) f h z;; Ok (d, cc)) = Err c ->
            c = InvalidArgument \/ c = Unimplemented).
  { intros f h z cc H.
    destruct (new_digest (join_slash header) f h z) as [v'|c'|] eqn:N; cbn [bind] in H; try discriminate.
    injection H as <-. left. eapply new_digest_err; eauto. }
  destruct trailer as [|t0 [|t1 [|t2 [|r0 [|r1 rest']]]]]; repeat err_step; try (apply Fin).
Qed.

Lemma parse_read_path_err s c : parse_read_path s = Err c -> status_err c.
Proof.
  unfold parse_read_path. destruct (length (fields_by_slash s) <? 3)%nat; [intros [= <-]; left; reflexivity|].
  destruct (find_split _ (fields_by_slash s) 3 0 _) as [sp|c'|] eqn:E; cbn [bind]; [|intros [= <-]|discriminate].
  - apply parse_common_err.
  - left. eapply find_split_err; eauto.
Qed.

Lemma parse_write_path_err s c : parse_write_path s = Err c -> status_err c.
Proof.
  unfold parse_write_path. destruct (length (fields_by_slash s) <? 5)%nat; [intros [= <-]; left; reflexivity|].
  destruct (find_split _ (fields_by_slash s) 5 0 _) as [sp|c'|] eqn:E; cbn [bind]; [|intros [= <-]|discriminate].
  - apply parse_common_err.
  - left. eapply find_split_err; eauto.
Qed.

Lemma read_uvarint_err fuel : forall first x s inp c,
  read_uvarint fuel first x s inp = Err c -> (100 <= c)%Z.
Proof.
  induction fuel as [|f IH]; intros first x s inp c; cbn [read_uvarint]; [intros [= <-]; unfold ErrOverflow; lia|].
  destruct inp as [|b r]; [intros [= <-]; destruct first; unfold ErrEOF, ErrUnexpectedEOF; lia|].
  destruct (b <? 128); [|apply IH].
  destruct ((match f with O => true | S _ => false end) && (1 <? b)); [intros [= <-]; unfold ErrOverflow; lia|discriminate].
Qed.

Lemma compact_err inst inp c : new_digest_from_compact_binary inst inp = Err c -> (3 <= c)%Z.
Proof.
  unfold new_digest_from_compact_binary. destruct inp as [|e r]; [intros [= <-]; unfold ErrEOF; lia|].
  unfold get_digest_function. destruct (get_bare_function e 0) as [f|]; cbn [bind];
    [|intros [= <-]; unfold InvalidArgument; lia].
  destruct (length r <? N.to_nat (snd f))%nat; [intros [= <-]; unfold ErrEOF; lia|].
  unfold read_varint.
  destruct (read_uvarint 10 true 0 0 (skipn (N.to_nat (snd f)) r)) as [[ux rest]|c'|] eqn:E; cbn [bind];
    [| |discriminate].
  - destruct (new_digest inst f (hex_encode (firstn (N.to_nat (snd f)) r)) (unzigzag ux)) as [v|c'|] eqn:E2;
      cbn [bind]; try discriminate.
    intros [= <-]. apply new_digest_err in E2. subst. unfold InvalidArgument. lia.
  - intros [= <-]. apply read_uvarint_err in E. lia.
Qed.

(** * An accepted instance name string is a valid instance name *)
Lemma fields_aux_cur_nonempty s : forall cur, cur <> [] -> fields_aux cur s <> [].
Proof.
  induction s as [|c r IH]; intros cur H; cbn [fields_aux].
  - rewrite nonempty_true by exact H. discriminate.
  - destruct (c =? slash); [rewrite nonempty_true by exact H; discriminate|apply IH; discriminate].
Qed.

Lemma join_cons_nonempty x l : l <> [] -> join_slash (x :: l) = x ++ slash :: join_slash l.
Proof. destruct l; [congruence|reflexivity]. Qed.

Lemma join_fields s : forall cur,
  contains [slash; slash] s = false ->
  (cur = [] -> has_prefix [slash] s = false) ->
  (forall s', s <> s' ++ [slash]) ->
  join_slash (fields_aux cur s) = rev cur ++ s.
Proof.
  induction s as [|c r IH]; intros cur Hc Hp He; cbn [fields_aux].
  - destruct cur as [|x cur']; cbn [nonempty]; [reflexivity|]. cbn [join_slash]. rewrite app_nil_r. reflexivity.
  - assert (He' : forall s', r <> s' ++ [slash]).
    { intros s' E. apply (He (c :: s')). rewrite E. reflexivity. }
    cbn [contains] in Hc. apply orb_false_iff in Hc. destruct Hc as [Hpp Hc].
    destruct (N.eqb_spec c slash) as [->|Hne].
    + destruct cur as [|x cur'].
      { specialize (Hp eq_refl). cbn in Hp. discriminate. }
      cbn [nonempty].
      destruct r as [|c2 r2]; [exfalso; apply (He []); reflexivity|].
      assert (Hc2 : c2 =? slash = false).
      { destruct (N.eqb_spec c2 slash) as [->|]; [|reflexivity]. cbn in Hpp. discriminate. }
      rewrite join_cons_nonempty.
      * rewrite (IH [] Hc); [reflexivity| |exact He'].
        intros _. cbn [has_prefix]. rewrite N.eqb_sym, Hc2. reflexivity.
      * cbn [fields_aux]. rewrite Hc2. apply fields_aux_cur_nonempty. discriminate.
    + rewrite (IH (c :: cur) Hc); [|discriminate|exact He'].
      cbn [rev]. rewrite <- app_assoc. reflexivity.
Qed.

Lemma has_suffix_slash_false s : has_suffix [slash] s = false -> forall s', s <> s' ++ [slash].
Proof.
  intros H s' E. subst. unfold has_suffix in H. rewrite rev_app_distr in H. cbn in H.
  discriminate.
Qed.

Lemma validate_components_forallb l :
  validate_components l = Ok tt -> forallb (fun c => negb (memb c c20_reserved)) l = true.
Proof.
  induction l as [|c r IH]; cbn [validate_components forallb]; [reflexivity|].
  destruct (nonempty c); [|discriminate].
  destruct (memb c c20_reserved); [discriminate|]. intro H. rewrite (IH H). reflexivity.
Qed.

Lemma validate_components_err_forallb l c :
  validate_components l = Err c -> forallb (fun c => negb (memb c c20_reserved)) l = false.
Proof.
  induction l as [|x r IH]; cbn [validate_components forallb]; [discriminate|].
  destruct (nonempty x); [|discriminate].
  destruct (memb x c20_reserved); [reflexivity|]. intro H. rewrite (IH H). reflexivity.
Qed.

Lemma new_instance_name_ok v v' :
  new_instance_name v = Ok v' ->
  v' = v /\ has_prefix [slash] v = false /\ has_suffix [slash] v = false
  /\ contains [slash; slash] v = false
  /\ forallb (fun c => negb (memb c c20_reserved)) (fields_by_slash v) = true
  /\ join_slash (fields_by_slash v) = v
  /\ valid_instance v
  /\ validate_components (fields_by_slash v) = Ok tt.
Proof.
  unfold new_instance_name.
  destruct (has_prefix [slash] v) eqn:Hp; [discriminate|].
  destruct (has_suffix [slash] v) eqn:Hs; [discriminate|].
  destruct (contains [slash; slash] v) eqn:Hc; [discriminate|]. cbn [orb].
  destruct (validate_components (fields_by_slash v)) as [[]| |] eqn:Hv; cbn [bind]; try discriminate.
  intros [= <-].
  assert (Hj : join_slash (fields_by_slash v) = v).
  { unfold fields_by_slash. rewrite (join_fields v [] Hc (fun _ => Hp) (has_suffix_slash_false v Hs)). reflexivity. }
  split; [reflexivity|]. split; [reflexivity|]. split; [reflexivity|]. split; [reflexivity|].
  split; [|split; [exact Hj|split; [|reflexivity]]].
  - apply validate_components_forallb, Hv.
  - exists (fields_by_slash v). split; [symmetry; exact Hj|].
    pose proof (fields_aux_nonempty v []) as A.
    pose proof (fields_aux_slash_free v [] ltac:(intros [])) as B.
    pose proof (validate_components_ok_not_reserved _ Hv) as C.
    fold (fields_by_slash v) in A, B. rewrite Forall_forall in *.
    intros x Hx. repeat split; [apply A|apply B|apply C]; exact Hx.
Qed.

Lemma new_instance_name_rejects v c :
  new_instance_name v = Err c ->
  negb (has_prefix [slash] v) && negb (has_suffix [slash] v) && negb (contains [slash; slash] v)
  && forallb (fun c => negb (memb c c20_reserved)) (fields_by_slash v) = false.
Proof.
  unfold new_instance_name.
  destruct (has_prefix [slash] v); [reflexivity|].
  destruct (has_suffix [slash] v); [reflexivity|].
  destruct (contains [slash; slash] v); [reflexivity|]. cbn [orb negb andb].
  destruct (validate_components (fields_by_slash v)) as [[]| |] eqn:Hv; cbn [bind]; try discriminate.
  intros _. eapply validate_components_err_forallb; eauto.
Qed.

(** the specification of a valid instance name, as the boolean the monitor uses *)
Lemma valid_instance_wf v :
  valid_instance v ->
  has_prefix [slash] v = false /\ has_suffix [slash] v = false /\ contains [slash; slash] v = false
  /\ forallb (fun c => negb (memb c c20_reserved)) (fields_by_slash v) = true.
Proof.
  intro H. apply instance_name_accepts_valid_proof in H. apply new_instance_name_ok in H.
  tauto.
Qed.

(** * Explicit digest of an accepted constructor call *)
Lemma new_digest_ok inst e n f h z v :
  valid_instance inst -> get_bare_function e n = Some f -> (z < 2 ^ 63)%Z ->
  new_digest inst f h z = Ok v ->
  valid_digest {| d_fn := fst f; d_hash := h; d_size := z; d_inst := inst |}
  /\ v = pack {| d_fn := fst f; d_hash := h; d_size := z; d_inst := inst |}.
Proof.
  intros Hi Hf Hz H. unfold new_digest in H.
  destruct (N.eqb_spec (N.of_nat (length h)) (2 * snd f)) as [El|]; [|discriminate]. cbn [negb] in H.
  destruct (forallb lowerhex h) eqn:Eh; [|discriminate]. cbn [negb] in H.
  destruct (Z.ltb_spec z 0); [discriminate|]. injection H as <-.
  destruct (get_bare_function_sound _ _ _ Hf) as [Hs Hb].
  split; [|reflexivity]. constructor; cbn [d_fn d_hash d_size d_inst]; auto; try lia.
  exists (snd f). auto.
Qed.

(** * binary.ReadVarint yields an int64 *)
Lemma read_uvarint_range fuel : forall first x s inp ux rest,
  (fuel <= 10)%nat -> s = 7 * N.of_nat (10 - fuel) -> x < 2 ^ s ->
  read_uvarint fuel first x s inp = Ok (ux, rest) -> ux < 2 ^ 64.
Proof.
  induction fuel as [|f IH]; intros first x s inp ux rest Hf Hs Hx; cbn [read_uvarint]; [discriminate|].
  destruct inp as [|b r]; [discriminate|].
  destruct (N.ltb_spec b 128) as [Hb|Hb].
  - destruct f as [|f'].
    + cbn [andb]. destruct (N.ltb_spec 1 b) as [H1|H1]; [discriminate|]. intros [= <- <-].
      replace (10 - 1)%nat with 9%nat in Hs by lia. subst s. change (7 * N.of_nat 9) with 63 in *.
      assert (b * 2 ^ 63 <= 1 * 2 ^ 63) by (apply N.mul_le_mono_r; lia).
      change (2 ^ 64) with (2 ^ 63 + 1 * 2 ^ 63). lia.
    + cbn [andb]. intros [= <- <-].
      assert (Hs' : s + 7 <= 63).
      { subst s. replace (N.of_nat (10 - S (S f'))) with (N.of_nat (10 - S (S f'))) by reflexivity. lia. }
      assert (b * 2 ^ s < 128 * 2 ^ s) by (apply N.mul_lt_mono_pos_r; [pose proof (N.pow_nonzero 2 s ltac:(lia)); lia|lia]).
      assert (2 ^ (s + 7) <= 2 ^ 63) by (apply N.pow_le_mono_r; lia).
      rewrite N.pow_add_r in *. change (2 ^ 7) with 128 in *.
      change (2 ^ 64) with (2 * 2 ^ 63). lia.
  - destruct f as [|f']; [cbn [read_uvarint]; discriminate|].
    apply IH; [lia| |].
    + subst s. replace (10 - S f')%nat with (S (10 - S (S f')))%nat by lia. lia.
    + assert (Hm : b mod 128 < 128) by (apply N.mod_lt; lia).
      assert ((b mod 128) * 2 ^ s <= 127 * 2 ^ s) by (apply N.mul_le_mono_r; lia).
      rewrite N.pow_add_r. change (2 ^ 7) with 128. lia.
Qed.

Lemma unzigzag_range ux : ux < 2 ^ 64 -> (- 2 ^ 63 <= unzigzag ux < 2 ^ 63)%Z.
Proof.
  intro H. unfold unzigzag.
  assert (H2 : ux / 2 < 2 ^ 63) by (apply N.div_lt_upper_bound; [lia|exact H]).
  change (2 ^ 63) with 9223372036854775808 in H2.
  change (2 ^ 63)%Z with 9223372036854775808%Z.
  set (q := ux / 2) in *. clearbody q.
  destruct (N.odd ux); lia.
Qed.

Lemma read_varint_range inp z rest : read_varint inp = Ok (z, rest) -> (- 2 ^ 63 <= z < 2 ^ 63)%Z.
Proof.
  unfold read_varint.
  destruct (read_uvarint 10 true 0 0 inp) as [[ux r]| |] eqn:E; cbn [bind]; try discriminate.
  intros [= <- <-]. apply unzigzag_range.
  eapply (read_uvarint_range 10 true 0 0); [lia|reflexivity|reflexivity|exact E].
Qed.

(** NewDigestFromCompactBinary accepts only non-degenerate digests. *)
Lemma compact_sound inst inp v rest :
  valid_instance inst ->
  new_digest_from_compact_binary inst inp = Ok (v, rest) ->
  exists d, valid_digest d /\ v = pack d /\ d_inst d = inst.
Proof.
  intro Hi. unfold new_digest_from_compact_binary. destruct inp as [|e r]; [discriminate|].
  unfold get_digest_function. destruct (get_bare_function e 0) as [f|] eqn:Hf; cbn [bind]; [|discriminate].
  destruct (length r <? N.to_nat (snd f))%nat; [discriminate|].
  destruct (read_varint (skipn (N.to_nat (snd f)) r)) as [[sz rest']| |] eqn:Er; cbn [bind]; try discriminate.
  destruct (new_digest inst f (hex_encode (firstn (N.to_nat (snd f)) r)) sz) as [d| |] eqn:En; cbn [bind];
    try discriminate.
  intros [= <- <-]. apply read_varint_range in Er.
  destruct (new_digest_ok _ _ _ _ _ _ _ Hi Hf (proj2 Er) En) as [Hv Hp].
  eexists. split; [exact Hv|]. split; [exact Hp|reflexivity].
Qed.

(** * An accepted resource name contains "<hash>/<size>" of the digest *)
Definition adjacent (h s : bytes) (l : list bytes) : Prop := exists pre post, l = pre ++ h :: s :: post.

Lemma adjacent_app pre h s l : adjacent h s l -> adjacent h s (pre ++ l).
Proof. intros (a & b & ->). exists (pre ++ a), b. rewrite <- app_assoc. reflexivity. Qed.

Ltac adj_solve t0 t1 t2 r0 :=
  first [exists []; eexists; reflexivity
        |exists [t0]; eexists; reflexivity
        |exists [t0; t1]; eexists; reflexivity
        |exists [t0; t1; t2]; eexists; reflexivity
        |exists [t0; t1; t2; r0]; eexists; reflexivity].

Lemma parse_common_sound_adj header trailer v c :
  Forall (fun c => c <> [] /\ slash_free c) header -> (3 <= length trailer)%nat ->
  parse_common header trailer = Ok (v, c) ->
  exists d s, valid_digest d /\ v = pack d /\ valid_compressor c
              /\ adjacent (d_hash d) s trailer /\ parse_int s = Some (d_size d).
Proof.
  intros Hh Hl. unfold parse_common, new_instance_name_from_components.
  destruct (validate_components header) as [[]| |] eqn:Hv; cbn [bind]; try discriminate.
  assert (Hinst : valid_instance (join_slash header)).
  { exists header. split; [reflexivity|].
    pose proof (validate_components_ok_not_reserved header Hv) as Hr.
    rewrite Forall_forall in *. intros x Hx. destruct (Hh x Hx) as [A B].
    repeat split; [exact A|exact B|exact (Hr x Hx)]. }
  assert (Fin : forall e n f h s z cc,
            get_bare_function e n = Some f ->
            parse_int s = Some z -> valid_compressor cc -> adjacent h s trailer ->
            (' d <- new_digest (join_slash header) f h z;; Ok (d, cc)) = Ok (v, c) ->
            exists d s, valid_digest d /\ v = pack d /\ valid_compressor c
                        /\ adjacent (d_hash d) s trailer /\ parse_int s = Some (d_size d)).
  { intros e n f h s z cc Hf Hs Hcc Hadj H.
    destruct (new_digest (join_slash header) f h z) as [v'| |] eqn:N; cbn [bind] in H; try discriminate.
    injection H as -> ->.
    pose proof (parse_int_range _ _ Hs) as Hz.
    destruct (new_digest_ok _ _ _ _ _ _ _ Hinst Hf (proj2 Hz) N) as [Hvd Hp].
    eexists. exists s. split; [exact Hvd|]. split; [exact Hp|]. split; [exact Hcc|].
    split; [exact Hadj|exact Hs]. }
  assert (Cid : valid_compressor c20_compressor_identity) by (left; reflexivity).
  assert (Cn : forall n cc, compressor_by_name n = Some cc -> valid_compressor cc).
  { intros n cc H. right. unfold compressor_by_name in H.
    clear -H. induction c20_compressors as [|[c0 n0] r IH]; [discriminate|]. cbn [assoc_name] in H.
    destruct (beqb n n0); [injection H as ->; left; reflexivity|right; apply IH, H]. }
  assert (Fbn : forall name f, function_by_name name = Some f -> exists e n, get_bare_function e n = Some f).
  { intros name f H. unfold function_by_name in H. destruct (assoc_name name midfix_functions); [|discriminate]. eauto. }
  destruct trailer as [|t0 [|t1 [|t2 rest]]]; cbn [length] in Hl; try lia.
  destruct rest as [|r0 [|r1 rest']]; repeat sound_step;
    try (match goal with
         | H : function_by_name _ = Some _ |- _ => destruct (Fbn _ _ H) as (e' & n' & Hgb)
         end);
    try (eapply Fin;
         [first [eassumption]
         |eassumption
         |first [exact Cid|eapply Cn; eassumption]
         |unfold adjacent; adj_solve t0 t1 t2 r0]).
Qed.

Lemma parse_sound_adj s v c :
  (parse_read_path s = Ok (v, c) \/ parse_write_path s = Ok (v, c)) ->
  exists d sz, valid_digest d /\ v = pack d /\ valid_compressor c
               /\ adjacent (d_hash d) sz (fields_by_slash s) /\ parse_int sz = Some (d_size d).
Proof.
  assert (Hf : Forall (fun c => c <> [] /\ slash_free c) (fields_by_slash s)).
  { pose proof (fields_aux_nonempty s []) as A. pose proof (fields_aux_slash_free s [] ltac:(intros [])) as B.
    fold (fields_by_slash s) in A, B. rewrite Forall_forall in *. intros x Hx. split; [apply A|apply B]; exact Hx. }
  intros [H|H].
  - unfold parse_read_path in H. destruct (Nat.ltb_spec (length (fields_by_slash s)) 3) as [L|L]; [discriminate|].
    pose proof (find_split_total (fun f => beqb f c20_blobs || beqb f c20_compressed_blobs)
                  (fields_by_slash s) 3 (S (length (fields_by_slash s))) 0 ltac:(lia) ltac:(lia) ltac:(lia)) as F.
    destruct (find_split _ (fields_by_slash s) 3 0 _) as [sp| |]; [|discriminate|destruct F].
    cbn [bind] in H.
    destruct F as [F1 F2].
    assert (Hlen : (3 <= length (skipn sp (fields_by_slash s)))%nat) by (rewrite skipn_length; lia).
    destruct (parse_common_sound_adj _ _ _ _ (Forall_firstn' _ sp _ Hf) Hlen H)
      as (d & sz & H1 & H2 & H3 & H4 & H5).
    exists d, sz. split; [exact H1|]. split; [exact H2|]. split; [exact H3|]. split; [|exact H5].
    rewrite <- (firstn_skipn sp (fields_by_slash s)). apply adjacent_app, H4.
  - unfold parse_write_path in H. destruct (Nat.ltb_spec (length (fields_by_slash s)) 5) as [L|L]; [discriminate|].
    pose proof (find_split_total (fun f => beqb f c20_uploads)
                  (fields_by_slash s) 5 (S (length (fields_by_slash s))) 0 ltac:(lia) ltac:(lia) ltac:(lia)) as F.
    destruct (find_split _ (fields_by_slash s) 5 0 _) as [sp| |]; [|discriminate|destruct F].
    cbn [bind] in H.
    destruct F as [F1 F2].
    assert (Hlen : (3 <= length (skipn (sp + 2) (fields_by_slash s)))%nat) by (rewrite skipn_length; lia).
    destruct (parse_common_sound_adj _ _ _ _ (Forall_firstn' _ sp _ Hf) Hlen H)
      as (d & sz & H1 & H2 & H3 & H4 & H5).
    exists d, sz. split; [exact H1|]. split; [exact H2|]. split; [exact H3|]. split; [|exact H5].
    rewrite <- (firstn_skipn (sp + 2) (fields_by_slash s)). apply adjacent_app, H4.
Qed.
