(** C20 — executable model of pkg/digest (digest.go, function.go, bare_function.go,
    instance_name.go).  Definitions only.

    Strings are byte lists ([list N], every element < 256 when it comes from the
    harness).  A Go [Digest] is its packed string; every getter re-parses it with
    the code's own [unpack], written index-explicitly: an index outside the string
    is the outcome [Panic], never a default.  Literal tables come from
    Generated/Consts.v (translated from the Go source on every run).

    One deliberate deviation from the pinned source: the resource name
    formatters join their components with "/" after dropping empty ones; the
    pinned code uses path.Join, which additionally *cleans* "." and ".."
    components of the instance name (finding F8, notes/fix-c20-pathjoin.diff). *)
From Coq Require Import Decimal.
From Coq Require Import List NArith ZArith Bool Lia.
From BBS Require Import Generated.Consts.
Import ListNotations.
Open Scope N_scope.

Definition bytes := list N.

(** ** Outcomes: a value, a gRPC status code (or 100 = io.EOF, 101 =
    io.ErrUnexpectedEOF, 102 = varint overflow), or a Go panic. *)
Inductive outcome (T : Type) : Type :=
| Ok (x : T)
| Err (code : Z)
| Panic.
Arguments Ok {T} x.
Arguments Err {T} code.
Arguments Panic {T}.

Definition bind {T U} (o : outcome T) (f : T -> outcome U) : outcome U :=
  match o with Ok x => f x | Err c => Err c | Panic => Panic end.
Notation "x <- e ;; f" := (bind e (fun x => f)) (at level 61, e at next level, right associativity).
Notation "' p <- e ;; f" := (bind e (fun p => f)) (at level 61, p pattern, e at next level, right associativity).

Definition InvalidArgument : Z := 3%Z.
Definition Unimplemented : Z := 12%Z.
Definition ErrEOF : Z := 100%Z.
Definition ErrUnexpectedEOF : Z := 101%Z.
Definition ErrOverflow : Z := 102%Z.

(** ** Byte strings *)
Fixpoint beqb (a b : bytes) : bool :=
  match a, b with
  | [], [] => true
  | x :: a', y :: b' => (x =? y) && beqb a' b'
  | _, _ => false
  end.

(** Go's [<] on strings: byte-wise lexicographic. *)
Fixpoint bltb (a b : bytes) : bool :=
  match a, b with
  | _, [] => false
  | [], _ :: _ => true
  | x :: a', y :: b' => if x <? y then true else if x =? y then bltb a' b' else false
  end.

Definition memb (x : bytes) (l : list bytes) : bool := existsb (beqb x) l.

Definition slash : N := 47.
Definition dash : N := 45.

Definition nonempty {T} (s : list T) : bool := match s with [] => false | _ => true end.

(** strings.FieldsFunc(s, r == '/') — byte-wise; '/' never occurs inside a
    multi-byte or invalid UTF-8 sequence, so the rune-wise split is the same. *)
Fixpoint fields_aux (cur : bytes) (s : bytes) : list bytes :=
  match s with
  | [] => if nonempty cur then [rev cur] else []
  | c :: r =>
      if c =? slash
      then (if nonempty cur then rev cur :: fields_aux [] r else fields_aux [] r)
      else fields_aux (c :: cur) r
  end.
Definition fields_by_slash (s : bytes) : list bytes := fields_aux [] s.

(** strings.Join(l, "/") *)
Fixpoint join_slash (l : list bytes) : bytes :=
  match l with
  | [] => []
  | [x] => x
  | x :: r => x ++ slash :: join_slash r
  end.

(** The formatters' join: empty components are dropped (as path.Join does);
    no cleaning (see the header comment). *)
Definition path_join (l : list bytes) : bytes := join_slash (filter nonempty l).

Fixpoint has_prefix (p s : bytes) : bool :=
  match p, s with
  | [], _ => true
  | x :: p', y :: s' => (x =? y) && has_prefix p' s'
  | _ :: _, [] => false
  end.
Definition has_suffix (p s : bytes) : bool := has_prefix (rev p) (rev s).
Fixpoint contains (p s : bytes) : bool :=
  has_prefix p s || match s with [] => false | _ :: s' => contains p s' end.

(** ** Decimal: strconv.AppendInt / FormatInt and strconv.ParseInt(s, 10, 64) *)
Fixpoint uint_bytes (d : uint) : bytes :=
  match d with
  | Nil => []
  | D0 d => 48 :: uint_bytes d | D1 d => 49 :: uint_bytes d | D2 d => 50 :: uint_bytes d
  | D3 d => 51 :: uint_bytes d | D4 d => 52 :: uint_bytes d | D5 d => 53 :: uint_bytes d
  | D6 d => 54 :: uint_bytes d | D7 d => 55 :: uint_bytes d | D8 d => 56 :: uint_bytes d
  | D9 d => 57 :: uint_bytes d
  end.
Definition dec (n : N) : bytes := uint_bytes (N.to_uint n).
Definition format_int (z : Z) : bytes :=
  if (z <? 0)%Z then dash :: dec (Z.to_N (- z)) else dec (Z.to_N z).

Definition is_digit (c : N) : bool := (48 <=? c) && (c <=? 57).
Fixpoint horner (acc : N) (s : bytes) : N :=
  match s with [] => acc | c :: r => horner (acc * 10 + (c - 48)) r end.

(** All failure modes of ParseInt (syntax, range) end in the same status code
    at the only call site, so the model returns [None] for each of them.
    ParseUint's cut-off logic accepts exactly the digit strings whose value
    is below 2^64; ParseInt then narrows to the int64 range. *)
Definition parse_int (s : bytes) : option Z :=
  match s with
  | [] => None
  | c :: r =>
      let '(neg, ds) := if c =? 43 then (false, r) else if c =? dash then (true, r) else (false, s) in
      match ds with
      | [] => None
      | _ =>
          if forallb is_digit ds then
            let v := horner 0 ds in
            if neg then (if v <=? 2 ^ 63 then Some (- Z.of_N v)%Z else None)
            else (if v <? 2 ^ 63 then Some (Z.of_N v) else None)
          else None
      end
  end.

(** ** Hexadecimal *)
Definition lowerhex (c : N) : bool := ((48 <=? c) && (c <=? 57)) || ((97 <=? c) && (c <=? 102)).
Definition hexdigit (v : N) : N := if v <? 10 then 48 + v else 87 + v.
(** hex.EncodeToString *)
Fixpoint hex_encode (b : bytes) : bytes :=
  match b with [] => [] | x :: r => hexdigit (x / 16) :: hexdigit (x mod 16) :: hex_encode r end.
Definition hexval (c : N) : option N :=
  if (48 <=? c) && (c <=? 57) then Some (c - 48)
  else if (97 <=? c) && (c <=? 102) then Some (c - 87)
  else if (65 <=? c) && (c <=? 70) then Some (c - 55)
  else None.
(** hex.DecodeString: error on odd length or a non-hex character. *)
Fixpoint hex_decode (s : bytes) : option bytes :=
  match s with
  | [] => Some []
  | [_] => None
  | a :: b :: r =>
      match hexval a, hexval b, hex_decode r with
      | Some x, Some y, Some t => Some (x * 16 + y :: t)
      | _, _, _ => None
      end
  end.

(** ** Tables *)
Fixpoint assoc {V} (k : N) (l : list (N * V)) : option V :=
  match l with [] => None | (k', v) :: r => if k =? k' then Some v else assoc k r end.
Fixpoint assoc_name (k : bytes) (l : list (N * bytes)) : option N :=
  match l with [] => None | (v, k') :: r => if beqb k k' then Some v else assoc_name k r end.

(** A bare function: (enumValue, hashBytesSize). *)
Definition bare := (N * N)%type.

(** getBareFunction(digestFunction, hashStringSize); [None] is the nil pointer. *)
Definition get_bare_function (enum : N) (hash_string_size : N) : option bare :=
  if enum =? c20_enum_unknown then assoc hash_string_size c20_bare_by_size
  else assoc enum c20_bare_by_enum.

(** digestFunctionEnumToMidfix / digestFunctionNameToBareFunction (init()):
    only supported functions with an enum value above [c20_midfix_above]. *)
Definition midfix_functions : list (N * bytes) :=
  filter (fun p => c20_midfix_above <? fst p) c20_supported.
Definition function_midfix (enum : N) : bytes :=
  match assoc enum midfix_functions with Some n => n | None => [] end.
Definition function_by_name (name : bytes) : option bare :=
  match assoc_name name midfix_functions with
  | Some e => get_bare_function e 0
  | None => None
  end.

(** compressorEnumToMidfix, as the list of path components it contributes
    (the empty list for an enum value that is not in the map). *)
Definition compressor_midfix (c : N) : list bytes :=
  if c =? c20_compressor_identity then [c20_blobs]
  else match assoc c c20_compressors with
       | Some n => [c20_compressed_blobs; n]
       | None => []
       end.

(** ** Instance names (instance_name.go) *)
Fixpoint validate_components (l : list bytes) : outcome unit :=
  match l with
  | [] => Ok tt
  | c :: r =>
      if nonempty c then
        (if memb c c20_reserved then Err InvalidArgument else validate_components r)
      else Panic   (* "Attempted to create an instance name with an empty component" *)
  end.

Definition new_instance_name (v : bytes) : outcome bytes :=
  if has_prefix [slash] v || has_suffix [slash] v || contains [slash; slash] v
  then Err InvalidArgument
  else _ <- validate_components (fields_by_slash v) ;; Ok v.

Definition new_instance_name_from_components (l : list bytes) : outcome bytes :=
  _ <- validate_components l ;; Ok (join_slash l).

(** ** The packed string (function.go newDigestUnchecked) *)
Definition pack_raw (enum : N) (hash : bytes) (size : Z) (inst : bytes) : bytes :=
  dec enum ++ dash :: hash ++ dash :: format_int size ++ dash :: inst.

(** Function.NewDigest *)
Definition new_digest (inst : bytes) (f : bare) (hash : bytes) (size : Z) : outcome bytes :=
  if negb (N.of_nat (length hash) =? 2 * snd f) then Err InvalidArgument
  else if negb (forallb lowerhex hash) then Err InvalidArgument
  else if (size <? 0)%Z then Err InvalidArgument
  else Ok (pack_raw (fst f) hash size inst).

(** InstanceName.GetDigestFunction *)
Definition get_digest_function (enum : N) (fallback : N) : outcome bare :=
  match get_bare_function enum fallback with Some f => Ok f | None => Err InvalidArgument end.

(** ** unpack (digest.go:104-129), index-explicit *)
Definition nth_byte (v : bytes) (i : nat) : outcome N :=
  match nth_error v i with Some c => Ok c | None => Panic end.

(** uint8 subtraction *)
Definition byte_sub (a b : N) : N := (a + 256 - b) mod 256.
Definition wrap64 (z : Z) : Z := ((z + 2 ^ 63) mod 2 ^ 64 - 2 ^ 63)%Z.

(** [for v[i] != '-' { i++ }] where [rest = v[i:]]: an empty rest is an index
    out of range. *)
Fixpoint scan_dash (rest : bytes) (i : nat) : outcome nat :=
  match rest with
  | [] => Panic
  | c :: r => if c =? dash then Ok i else scan_dash r (S i)
  end.

Fixpoint scan_size (rest : bytes) (i : nat) (acc : Z) : outcome (Z * nat) :=
  match rest with
  | [] => Panic
  | c :: r =>
      if c =? dash then Ok (acc, i)
      else scan_size r (S i) (wrap64 (acc * 10 + Z.of_N (byte_sub c 48)))
  end.

Record unpacked := { u_fn : N; u_hs : nat; u_he : nat; u_size : Z; u_se : nat }.

Definition unpack (v : bytes) : outcome unpacked :=
  c0 <- nth_byte v 0 ;;
  c1 <- nth_byte v 1 ;;
  let '(fn, hs) := if c1 =? dash then (byte_sub c0 48, 2%nat)
                   else (byte_sub c0 48 * 10 + byte_sub c1 48, 3%nat) in
  let h0 := N.to_nat c20_shortest_hash_string_size in
  he <- scan_dash (skipn h0 v) h0 ;;
  '(sz, se) <- scan_size (skipn (S he) v) (S he) 0%Z ;;
  Ok {| u_fn := fn; u_hs := hs; u_he := he; u_size := sz; u_se := se |}.

(** v[a:b] *)
Definition slice (v : bytes) (a b : nat) : outcome bytes :=
  if (a <=? b)%nat && (b <=? length v)%nat then Ok (firstn (b - a) (skipn a v)) else Panic.
Definition slice_from (v : bytes) (a : nat) : outcome bytes := slice v a (length v).

(** ** Getters *)
Definition get_hash_string (v : bytes) : outcome bytes := u <- unpack v ;; slice v (u_hs u) (u_he u).
Definition get_size_bytes (v : bytes) : outcome Z := u <- unpack v ;; Ok (u_size u).
Definition get_instance_name (v : bytes) : outcome bytes := u <- unpack v ;; slice_from v (S (u_se u)).
Definition get_proto (v : bytes) : outcome (bytes * Z) :=
  u <- unpack v ;; h <- slice v (u_hs u) (u_he u) ;; Ok (h, u_size u).
Definition get_hash_bytes (v : bytes) : outcome bytes :=
  h <- get_hash_string v ;;
  match hex_decode h with Some b => Ok b | None => Panic end.
(** GetDigestFunction().GetEnumValue(): a nil bareFunction is dereferenced. *)
Definition get_function_enum (v : bytes) : outcome N :=
  u <- unpack v ;;
  match get_bare_function (u_fn u) 0 with Some f => Ok (fst f) | None => Panic end.

(** GetKey(format): 0 = KeyWithoutInstance, 1 = KeyWithInstance. *)
Definition get_key (v : bytes) (format : Z) : outcome bytes :=
  if (format =? 0)%Z then u <- unpack v ;; slice v 0 (u_se u)
  else if (format =? 1)%Z then Ok v
  else Panic.

Definition get_read_path (v : bytes) (compressor : N) : outcome bytes :=
  u <- unpack v ;;
  inst <- slice_from v (S (u_se u)) ;;
  h <- slice v (u_hs u) (u_he u) ;;
  Ok (path_join ([inst] ++ compressor_midfix compressor ++ [function_midfix (u_fn u); h; format_int (u_size u)])).

Definition get_write_path (v : bytes) (uuid : bytes) (compressor : N) : outcome bytes :=
  u <- unpack v ;;
  inst <- slice_from v (S (u_se u)) ;;
  h <- slice v (u_hs u) (u_he u) ;;
  Ok (path_join ([inst; c20_uploads; uuid] ++ compressor_midfix compressor
                 ++ [function_midfix (u_fn u); h; format_int (u_size u)])).

(** ** Compact binary: binary.PutVarint / binary.ReadVarint *)
Definition zigzag (x : Z) : N :=
  if (x <? 0)%Z then Z.to_N (- (2 * x) - 1) else Z.to_N (2 * x).
Fixpoint put_uvarint (fuel : nat) (u : N) : bytes :=
  match fuel with
  | O => []
  | S f => if u <? 128 then [u] else (u mod 128 + 128) :: put_uvarint f (u / 128)
  end.
(** ten bytes hold any value below 2^64 *)
Definition put_varint (x : Z) : bytes := put_uvarint 10 (zigzag x).

(** ReadUvarint: [fuel] = MaxVarintLen64 - i, [s] the shift; returns the value
    and the unread input. *)
Fixpoint read_uvarint (fuel : nat) (first : bool) (x s : N) (inp : bytes) : outcome (N * bytes) :=
  match fuel with
  | O => Err ErrOverflow
  | S f =>
      match inp with
      | [] => Err (if first then ErrEOF else ErrUnexpectedEOF)
      | b :: r =>
          if b <? 128 then
            (if (match f with O => true | _ => false end) && (1 <? b) then Err ErrOverflow
             else Ok (x + b * 2 ^ s, r))
          else read_uvarint f false (x + (b mod 128) * 2 ^ s) (s + 7) r
      end
  end.
Definition unzigzag (ux : N) : Z :=
  if N.odd ux then (- Z.of_N (ux / 2) - 1)%Z else Z.of_N (ux / 2).
Definition read_varint (inp : bytes) : outcome (Z * bytes) :=
  '(ux, r) <- read_uvarint 10 true 0 0 inp ;; Ok (unzigzag ux, r).

Definition get_compact_binary (v : bytes) : outcome bytes :=
  u <- unpack v ;;
  h <- slice v (u_hs u) (u_he u) ;;
  match hex_decode h with
  | Some b => Ok ((u_fn u mod 256) :: b ++ put_varint (u_size u))
  | None => Panic
  end.

(** InstanceName.NewDigestFromCompactBinary over a bytes.Reader; also returns
    what is left unread on success. *)
Definition new_digest_from_compact_binary (inst : bytes) (inp : bytes) : outcome (bytes * bytes) :=
  match inp with
  | [] => Err ErrEOF
  | e :: r =>
      f <- get_digest_function e 0 ;;
      let hb := N.to_nat (snd f) in
      if (length r <? hb)%nat then Err ErrEOF
      else
        '(sz, rest) <- read_varint (skipn hb r) ;;
        d <- new_digest inst f (hex_encode (firstn hb r)) sz ;;
        Ok (d, rest)
  end.

(** ** Resource name parsers (digest.go:144-238) *)
Definition nth_field (l : list bytes) (i : nat) : outcome bytes :=
  match nth_error l i with Some c => Ok c | None => Panic end.

Definition compressor_by_name (n : bytes) : option N := assoc_name n c20_compressors.

Definition parse_common (header trailer : list bytes) : outcome (bytes * N) :=
  match new_instance_name_from_components header with
  | Panic => Panic
  | Err c => Err c       (* util.StatusWrapf keeps the code *)
  | Ok inst =>
      t0 <- nth_field trailer 0 ;;
      '(compressor, trailer1) <-
         (if beqb t0 c20_blobs then Ok (c20_compressor_identity, skipn 1 trailer)
          else if beqb t0 c20_compressed_blobs then
            t1 <- nth_field trailer 1 ;;
            match compressor_by_name t1 with
            | Some c => Ok (c, skipn 2 trailer)
            | None => Err Unimplemented
            end
          else Ok (c20_compressor_identity, trailer)) ;;
      h0 <- nth_field trailer1 0 ;;
      '(f, trailer2) <-
         (match function_by_name h0 with
          | Some f => Ok (f, skipn 1 trailer1)
          | None =>
              match get_bare_function c20_enum_unknown (N.of_nat (length h0)) with
              | Some f => Ok (f, trailer1)
              | None => Err InvalidArgument
              end
          end) ;;
      if (length trailer2 <? 2)%nat then Err InvalidArgument
      else
        h <- nth_field trailer2 0 ;;
        s <- nth_field trailer2 1 ;;
        match parse_int s with
        | None => Err InvalidArgument
        | Some size => d <- new_digest inst f h size ;; Ok (d, compressor)
        end
  end.

(** [for fields[split] != kw... { split++; if split > len(fields)-k { return error } }] *)
Fixpoint find_split (stop : bytes -> bool) (fields : list bytes) (k : nat) (split : nat) (fuel : nat)
  : outcome nat :=
  match fuel with
  | O => Panic
  | S fuel' =>
      f <- nth_field fields split ;;
      if stop f then Ok split
      else if (length fields - k <? S split)%nat then Err InvalidArgument
      else find_split stop fields k (S split) fuel'
  end.

Definition parse_read_path (path : bytes) : outcome (bytes * N) :=
  let fields := fields_by_slash path in
  if (length fields <? 3)%nat then Err InvalidArgument
  else
    split <- find_split (fun f => beqb f c20_blobs || beqb f c20_compressed_blobs)
                        fields 3 0 (S (length fields)) ;;
    parse_common (firstn split fields) (skipn split fields).

Definition parse_write_path (path : bytes) : outcome (bytes * N) :=
  let fields := fields_by_slash path in
  if (length fields <? 5)%nat then Err InvalidArgument
  else
    split <- find_split (fun f => beqb f c20_uploads) fields 5 0 (S (length fields)) ;;
    parse_common (firstn split fields) (skipn (split + 2) fields).

(** ** GetDigestsWithParentInstanceNames (digest.go:416-451) *)
Fixpoint count_slashes (s : bytes) : nat :=
  match s with [] => O | c :: r => (if c =? slash then 1 else 0) + count_slashes r end.

(** [for v[e-1] != '/' { e-- }]: index -1 is a panic *)
Fixpoint scan_back (v : bytes) (e : nat) : outcome nat :=
  match e with
  | O => Panic
  | S e1 =>
      c <- nth_byte v e1 ;;
      if c =? slash then Ok e else scan_back v e1
  end.

(** [c] = components - 1 at loop entry; [acc] = digests[components+1 ..] *)
Fixpoint parents_loop (v : bytes) (c : nat) (acc : list bytes) : outcome (list bytes) :=
  let acc' := v :: acc in
  match c with
  | O => Ok acc'
  | S c' =>
      e <- scan_back v (length v - 1) ;;
      v' <- slice v 0 (e - 1) ;;
      parents_loop v' c' acc'
  end.

Definition get_parents (v : bytes) : outcome (list bytes) :=
  u <- unpack v ;;
  let start := S (u_se u) in
  without <- slice v 0 start ;;
  if (start =? length v)%nat then Ok [without]
  else
    (* [for i := start+1; i < len(v)-1; i++]: the slashes among v[start+1 .. len-2] *)
    let mid := firstn (length v - 1 - S start) (skipn (S start) v) in
    rest <- parents_loop v (count_slashes mid) [] ;;
    Ok (without :: rest).

(** ** Abstract digests (what the theorems quantify over) *)
Record digest := { d_fn : N; d_hash : bytes; d_size : Z; d_inst : bytes }.
Definition pack (d : digest) : bytes := pack_raw (d_fn d) (d_hash d) (d_size d) (d_inst d).

(** ** Specification vocabulary (what "valid" means in the theorems) *)
Definition supported_enums : list N := map fst c20_supported.
Definition hash_bytes_of (fn : N) : option N :=
  match assoc fn c20_bare_by_enum with Some f => Some (snd f) | None => None end.

(** a component of an instance name: non-empty, without '/', not a reserved keyword *)
Definition valid_component (c : bytes) : Prop := c <> [] /\ ~ In slash c /\ ~ In c c20_reserved.
(** a valid instance name: valid components joined by single slashes (the empty name has none) *)
Definition valid_instance (inst : bytes) : Prop :=
  exists comps, inst = join_slash comps /\ Forall valid_component comps.

Record valid_digest (d : digest) : Prop := {
  vd_fn : In (d_fn d) supported_enums;
  vd_len : exists hb, hash_bytes_of (d_fn d) = Some hb /\ N.of_nat (length (d_hash d)) = 2 * hb;
  vd_hex : forallb lowerhex (d_hash d) = true;
  vd_size : (0 <= d_size d < 2 ^ 63)%Z;
  vd_inst : valid_instance (d_inst d)
}.

Definition valid_compressor (c : N) : Prop :=
  c = c20_compressor_identity \/ In c (map fst c20_compressors).

Definition with_instance (d : digest) (inst : bytes) : digest :=
  {| d_fn := d_fn d; d_hash := d_hash d; d_size := d_size d; d_inst := inst |}.

(** [[]; [c1]; [c1;c2]; ...; l] *)
Fixpoint prefixes {T} (l : list T) : list (list T) :=
  match l with
  | [] => [[]]
  | x :: r => [] :: map (cons x) (prefixes r)
  end.
